(** Proofs about the AVL tree-map model of Algo/AlgoModel.v (property C41). *)
From Coq Require Import ZArith List Bool Lia ZifyBool.
From TLV Require Import Algo.AlgoModel.
Import ListNotations.
Open Scope Z_scope.

Section TreeProofs.
Variable V : Type.
Notation al := (list (Z * V)).
Notation tree := (tree V).

(* ------------------------------------------------------------------------- *)
(** * Sorted association lists *)

Definition all_lt (m : al) (x : Z) := Forall (fun e => fst e < x) m.
Definition all_gt (m : al) (x : Z) := Forall (fun e => x < fst e) m.

Lemma sorted_cons : forall e m, sorted (e :: m) <-> all_gt m (fst e) /\ sorted m.
Proof. intros; cbn; unfold all_gt; tauto. Qed.

Lemma sorted_app : forall a b : al,
  sorted (a ++ b) <-> sorted a /\ sorted b /\ (forall x y, In x a -> In y b -> fst x < fst y).
Proof.
  induction a as [|e a IH]; intros b; cbn [app sorted].
  - split; [intros H; repeat split; auto; intros x y []|tauto].
  - rewrite IH. rewrite !Forall_forall. split.
    + intros (Hall & Ha & Hb & Hab). repeat split; auto.
      * intros x Hx. apply Hall, in_or_app; auto.
      * intros x y [->|Hx] Hy; [apply Hall, in_or_app; auto|auto].
    + intros ((Hall & Ha) & Hb & Hab). repeat split; auto.
      * intros x Hx. apply in_app_or in Hx as [Hx|Hx]; [auto|apply Hab; cbn; auto].
      * intros x y Hx Hy. apply Hab; cbn; auto.
Qed.

Lemma sorted_mid : forall (l : al) e r,
  sorted (l ++ e :: r) <-> sorted l /\ sorted r /\ all_lt l (fst e) /\ all_gt r (fst e).
Proof.
  intros. rewrite sorted_app, sorted_cons. unfold all_lt, all_gt. rewrite !Forall_forall. split.
  - intros (Hl & (Hg & Hr) & H). repeat split; auto.
    intros x Hx. apply H; cbn; auto.
  - intros (Hl & Hr & Hlt & Hgt). repeat split; auto.
    + intros x y Hx [<-|Hy]; auto. specialize (Hlt _ Hx). specialize (Hgt _ Hy). lia.
Qed.

Lemma al_find_none_lt : forall (m : al) x k, all_lt m x -> x <= k -> al_find m k = None.
Proof.
  induction m as [|[k' v'] m IH]; intros x k H Hx; cbn; auto.
  inversion H; subst; cbn in *. destruct (k' =? k) eqn:E; [lia|eauto].
Qed.

Lemma al_find_none_gt : forall (m : al) x k, all_gt m x -> k <= x -> al_find m k = None.
Proof.
  induction m as [|[k' v'] m IH]; intros x k H Hx; cbn; auto.
  inversion H; subst; cbn in *. destruct (k' =? k) eqn:E; [lia|eauto].
Qed.

Lemma al_find_app : forall (a b : al) k,
  al_find (a ++ b) k = match al_find a k with Some v => Some v | None => al_find b k end.
Proof.
  induction a as [|[k' v'] a IH]; intros; cbn; auto. destruct (k' =? k); auto.
Qed.

Lemma al_set_right : forall (l : al) k' v' r k v,
  all_lt l k' -> k' < k -> al_set (l ++ (k', v') :: r) k v = l ++ (k', v') :: al_set r k v.
Proof.
  induction l as [|[a va] l IH]; intros k' v' r k v H Hk; cbn.
  - destruct (k <? k') eqn:E1; [lia|]. destruct (k =? k') eqn:E2; [lia|]. reflexivity.
  - inversion H; subst; cbn in *.
    destruct (k <? a) eqn:E1; [lia|]. destruct (k =? a) eqn:E2; [lia|]. f_equal. auto.
Qed.

Lemma al_set_left : forall (l : al) k' v' r k v,
  k < k' -> al_set (l ++ (k', v') :: r) k v = al_set l k v ++ (k', v') :: r.
Proof.
  induction l as [|[a va] l IH]; intros k' v' r k v Hk; cbn.
  - destruct (k <? k') eqn:E1; [|lia]. reflexivity.
  - destruct (k <? a) eqn:E1; [reflexivity|]. destruct (k =? a) eqn:E2; [reflexivity|].
    cbn. f_equal. auto.
Qed.

Lemma al_set_here : forall (l : al) k' v' r v,
  all_lt l k' -> al_set (l ++ (k', v') :: r) k' v = l ++ (k', v) :: r.
Proof.
  induction l as [|[a va] l IH]; intros k' v' r v H; cbn.
  - destruct (k' <? k') eqn:E1; [lia|]. destruct (k' =? k') eqn:E2; [|lia]. reflexivity.
  - inversion H; subst; cbn in *.
    destruct (k' <? a) eqn:E1; [lia|]. destruct (k' =? a) eqn:E2; [lia|]. f_equal. auto.
Qed.

Lemma al_del_notin : forall (m : al) k, (forall e, In e m -> fst e <> k) -> al_del m k = m.
Proof.
  induction m as [|[a va] m IH]; intros k H; cbn; auto.
  destruct (a =? k) eqn:E.
  - exfalso. apply (H (a, va)); cbn; auto. lia.
  - f_equal. apply IH. intros e He. apply H; cbn; auto.
Qed.

Lemma al_del_app_r : forall (l m : al) k,
  (forall e, In e l -> fst e <> k) -> al_del (l ++ m) k = l ++ al_del m k.
Proof.
  induction l as [|[a va] l IH]; intros m k H; cbn; auto.
  destruct (a =? k) eqn:E.
  - exfalso. apply (H (a, va)); cbn; auto. lia.
  - f_equal. apply IH. intros e He. apply H; cbn; auto.
Qed.

Lemma al_del_app_l : forall (l m : al) k,
  (forall e, In e m -> fst e <> k) -> al_del (l ++ m) k = al_del l k ++ m.
Proof.
  induction l as [|[a va] l IH]; intros m k H; cbn.
  - apply al_del_notin; auto.
  - destruct (a =? k) eqn:E; auto. cbn. f_equal. auto.
Qed.

Lemma all_lt_ne : forall (m : al) x k, all_lt m x -> x <= k -> forall e, In e m -> fst e <> k.
Proof. unfold all_lt; intros m x k H Hx e He. rewrite Forall_forall in H. specialize (H _ He). lia. Qed.

Lemma all_gt_ne : forall (m : al) x k, all_gt m x -> k <= x -> forall e, In e m -> fst e <> k.
Proof. unfold all_gt; intros m x k H Hx e He. rewrite Forall_forall in H. specialize (H _ He). lia. Qed.

Lemma al_set_in : forall (m : al) k v e, In e (al_set m k v) -> e = (k, v) \/ In e m.
Proof.
  induction m as [|[a va] m IH]; intros k v e; cbn.
  - intros [<-|[]]; auto.
  - destruct (k <? a); [|destruct (k =? a)]; cbn; intros H.
    + destruct H as [<-|[<-|H]]; auto.
    + destruct H as [<-|H]; auto.
    + destruct H as [<-|H]; auto. apply IH in H as [->|H]; auto.
Qed.

Lemma al_set_sorted : forall (m : al) k v, sorted m -> sorted (al_set m k v).
Proof.
  induction m as [|[a va] m IH]; intros k v H; cbn.
  - split; auto.
  - destruct H as [Hg Hs]. cbn in Hg.
    destruct (k <? a) eqn:E1; [|destruct (k =? a) eqn:E2]; cbn.
    + split; [|split; auto]. constructor; cbn; [lia|].
      eapply Forall_impl; [|exact Hg]. cbn; intros; lia.
    + assert (k = a) by lia; subst. split; auto.
    + split; [|auto]. rewrite Forall_forall. intros e He. apply al_set_in in He as [->|He]; cbn; [lia|].
      rewrite Forall_forall in Hg; auto.
Qed.

Lemma al_del_in : forall (m : al) k e, In e (al_del m k) -> In e m.
Proof.
  induction m as [|[a va] m IH]; intros k e; cbn; auto.
  destruct (a =? k); cbn; auto. intros [<-|H]; eauto.
Qed.

Lemma al_del_sorted : forall (m : al) k, sorted m -> sorted (al_del m k).
Proof.
  induction m as [|[a va] m IH]; intros k H; cbn; auto.
  destruct H as [Hg Hs]. destruct (a =? k); auto. cbn. split; auto.
  rewrite Forall_forall in *. intros e He. apply Hg. eapply al_del_in; eauto.
Qed.

Lemma al_last_app : forall (a : al) e b,
  al_last (a ++ e :: b) = match b with [] => Some e | _ :: _ => al_last b end.
Proof.
  induction a as [|x a IH]; intros; cbn [app].
  - destruct b; reflexivity.
  - cbn [al_last]. destruct (a ++ e :: b) eqn:E; [destruct a; discriminate|]. rewrite <- E. apply IH.
Qed.

(* ------------------------------------------------------------------------- *)
(** * Contents: rotations keep the in-order list, operations refine the list operations *)

Lemma abs_mkNode : forall (l : tree) k v r, abs (mkNode l k v r) = abs l ++ (k, v) :: abs r.
Proof. reflexivity. Qed.

Lemma rotateRight_abs : forall (n n' : tree), rotateRight n = Some n' -> abs n' = abs n.
Proof.
  intros [|[|ll lk lv lh lr] k v h r] n' H; cbn in H; try discriminate.
  injection H as <-. cbn. rewrite <- app_assoc. reflexivity.
Qed.

Lemma rotateLeft_abs : forall (n n' : tree), rotateLeft n = Some n' -> abs n' = abs n.
Proof.
  intros [|l k v h [|rl rk rv rh rr]] n' H; cbn in H; try discriminate.
  injection H as <-. cbn. rewrite <- app_assoc. reflexivity.
Qed.

Lemma bigRotateRight_abs : forall (n n' : tree), bigRotateRight n = Some n' -> abs n' = abs n.
Proof.
  intros [|l k v h r] n' H; cbn [bigRotateRight] in H; try discriminate.
  destruct (rotateLeft l) as [l'|] eqn:E; try discriminate.
  apply rotateRight_abs in H. apply rotateLeft_abs in E. rewrite H. cbn. rewrite E. reflexivity.
Qed.

Lemma bigRotateLeft_abs : forall (n n' : tree), bigRotateLeft n = Some n' -> abs n' = abs n.
Proof.
  intros [|l k v h r] n' H; cbn [bigRotateLeft] in H; try discriminate.
  destruct (rotateRight r) as [r'|] eqn:E; try discriminate.
  apply rotateLeft_abs in H. apply rotateRight_abs in E. rewrite H. cbn. rewrite E. reflexivity.
Qed.

Lemma repairBalance_abs : forall (n n' : tree), repairBalance n = Some n' -> abs n' = abs n.
Proof.
  intros [|l k v h r] n' H; cbn [repairBalance] in H; try discriminate.
  destruct (_ =? 2).
  - destruct (_ =? -1); [apply bigRotateLeft_abs in H|apply rotateLeft_abs in H]; rewrite H; reflexivity.
  - destruct (_ =? -2).
    + destruct (_ =? 1); [apply bigRotateRight_abs in H|apply rotateRight_abs in H]; rewrite H; reflexivity.
    + injection H as <-. reflexivity.
Qed.

Lemma insert_abs : forall h0 (t t' : tree) k v,
  sorted (abs t) -> insert h0 t k v = Some t' -> abs t' = al_set (abs t) k v.
Proof.
  induction t as [|l IHl nk nv h r IHr]; intros t' k v Hs H; cbn [insert] in H.
  - injection H as <-. reflexivity.
  - cbn [abs] in *. apply sorted_mid in Hs as (Hsl & Hsr & Hlt & Hgt). cbn [fst] in *.
    destruct (nk <? k) eqn:E1; [|destruct (k <? nk) eqn:E2].
    + destruct (insert h0 r k v) as [r'|] eqn:Er; try discriminate.
      apply repairBalance_abs in H. rewrite H. cbn [abs]. rewrite (IHr _ _ _ Hsr Er).
      symmetry. apply al_set_right; [auto|lia].
    + destruct (insert h0 l k v) as [l'|] eqn:El; try discriminate.
      apply repairBalance_abs in H. rewrite H. cbn [abs]. rewrite (IHl _ _ _ Hsl El).
      symmetry. apply al_set_left. lia.
    + apply repairBalance_abs in H. rewrite H. cbn [abs]. assert (k = nk) by lia; subst.
      symmetry. apply al_set_here. auto.
Qed.

Lemma extractMin_abs : forall (t t' : tree) mk mv,
  extractMin t = Some (mk, mv, t') -> abs t = (mk, mv) :: abs t'.
Proof.
  induction t as [|l IHl k v h r _]; intros t' mk mv H; cbn [extractMin] in H; try discriminate.
  destruct l as [|ll lk lv lh lr].
  - injection H as <- <- <-. reflexivity.
  - destruct (extractMin (Node ll lk lv lh lr)) as [[[mk' mv'] l']|] eqn:E; try discriminate.
    destruct (repairBalance _) as [n'|] eqn:ER; try discriminate.
    injection H as <- <- <-. apply repairBalance_abs in ER. rewrite ER.
    cbn [abs] in *. rewrite (IHl _ _ _ eq_refl). reflexivity.
Qed.

Lemma remove_abs : forall (t t' : tree) k,
  sorted (abs t) -> remove t k = Some t' -> abs t' = al_del (abs t) k.
Proof.
  induction t as [|l IHl nk nv h r IHr]; intros t' k Hs H; cbn [remove] in H.
  - injection H as <-. reflexivity.
  - cbn [abs] in Hs. apply sorted_mid in Hs as (Hsl & Hsr & Hlt & Hgt). cbn [fst] in *.
    destruct (nk <? k) eqn:E1; [|destruct (k <? nk) eqn:E2].
    + destruct (remove r k) as [r'|] eqn:Er; try discriminate.
      apply repairBalance_abs in H. rewrite H. cbn [abs]. rewrite (IHr _ _ Hsr Er).
      symmetry. rewrite al_del_app_r by (eapply all_lt_ne; eauto; lia).
      cbn. destruct (nk =? k) eqn:E; [lia|reflexivity].
    + destruct (remove l k) as [l'|] eqn:El; try discriminate.
      apply repairBalance_abs in H. rewrite H. cbn [abs]. rewrite (IHl _ _ Hsl El).
      symmetry. apply al_del_app_l. intros e [<-|He]; cbn; [lia|].
      eapply all_gt_ne; eauto; lia.
    + assert (k = nk) by lia; subst.
      assert (Hdel : al_del (abs l ++ (nk, nv) :: abs r) nk = abs l ++ abs r).
      { rewrite al_del_app_r by (eapply all_lt_ne; eauto; lia). cbn. rewrite Z.eqb_refl. reflexivity. }
      cbn [abs]. rewrite Hdel.
      destruct l as [|ll lk lv lh lr]; [injection H as <-; reflexivity|].
      destruct r as [|rl rk rv rh rr]; [injection H as <-; cbn; rewrite app_nil_r; reflexivity|].
      destruct (extractMin _) as [[[mk mv] r']|] eqn:E; try discriminate.
      apply repairBalance_abs in H. rewrite H. apply extractMin_abs in E. rewrite E. reflexivity.
Qed.

Lemma find_abs : forall (t : tree) k, sorted (abs t) -> find t k = al_find (abs t) k.
Proof.
  induction t as [|l IHl nk nv h r IHr]; intros k Hs; cbn [find abs]; auto.
  cbn [abs] in Hs. apply sorted_mid in Hs as (Hsl & Hsr & Hlt & Hgt). cbn [fst] in *.
  rewrite al_find_app. cbn [al_find].
  destruct (nk <? k) eqn:E1; [|destruct (k <? nk) eqn:E2].
  - rewrite (al_find_none_lt _ nk k Hlt) by lia. destruct (nk =? k) eqn:E; [lia|]. auto.
  - rewrite IHl by auto. destruct (al_find (abs l) k); auto.
    destruct (nk =? k) eqn:E; [lia|]. symmetry. eapply al_find_none_gt; eauto. lia.
  - rewrite (al_find_none_lt _ nk k Hlt) by lia. destruct (nk =? k) eqn:E; [|lia]. reflexivity.
Qed.

Lemma assign_abs : forall (t : tree) k v x,
  sorted (abs t) -> find t k = Some x -> abs (assign t k v) = al_set (abs t) k v.
Proof.
  induction t as [|l IHl nk nv h r IHr]; intros k v x Hs H; cbn [find assign abs] in *; try discriminate.
  apply sorted_mid in Hs as (Hsl & Hsr & Hlt & Hgt). cbn [fst] in *.
  destruct (nk <? k) eqn:E1; [|destruct (k <? nk) eqn:E2]; cbn [abs].
  - rewrite (IHr _ _ _ Hsr H). symmetry. apply al_set_right; [auto|lia].
  - rewrite (IHl _ _ _ Hsl H). symmetry. apply al_set_left. lia.
  - assert (k = nk) by lia; subst. symmetry. apply al_set_here. auto.
Qed.

Lemma findMin_abs : forall t : tree, findMin t = hd_error (abs t).
Proof.
  induction t as [|l IHl k v h r _]; cbn [findMin abs]; auto.
  destruct l as [|ll lk lv lh lr]; [reflexivity|].
  rewrite IHl. cbn [abs]. destruct (abs ll); reflexivity.
Qed.

Lemma findMin_node : forall (l : tree) k v h r, findMin (Node l k v h r) <> None.
Proof.
  induction l as [|ll IH lk lv lh lr _]; intros; [discriminate|]. exact (IH lk lv lh lr).
Qed.

Lemma findMax_node : forall (r l : tree) k v h, findMax (Node l k v h r) <> None.
Proof.
  induction r as [|rl _ rk rv rh rr IH]; intros; [discriminate|]. exact (IH rl rk rv rh).
Qed.

Lemma findMax_abs : forall t : tree, findMax t = al_last (abs t).
Proof.
  induction t as [|l _ k v h r IHr]; cbn [findMax abs]; auto.
  rewrite al_last_app. destruct r as [|rl rk rv rh rr]; [reflexivity|].
  rewrite IHr. cbn [abs]. destruct (abs rl ++ (rk, rv) :: abs rr) eqn:E; [destruct (abs rl); discriminate|reflexivity].
Qed.

(* ------------------------------------------------------------------------- *)
(** * Balance: the invariant on cached heights, and absence of panics *)

Section Balance.
Variable h0 : Z.
Hypothesis Hh0 : h0 = 0 \/ h0 = 1.
Notation inv := (avl_cached h0).
Notation gh := getHeight.

Lemma gh_nonneg : forall t : tree, inv t -> 0 <= gh t.
Proof.
  induction t as [|l IHl k v h r IHr]; cbn [avl_cached getHeight]; intros H; [lia|].
  destruct H as (Hl & Hr & [Hc|(-> & -> & ->)] & Hb); [specialize (IHl Hl); specialize (IHr Hr); lia|lia].
Qed.

Lemma inv_node : forall (l : tree) k v r,
  inv l -> inv r -> -1 <= gh r - gh l <= 1 -> inv (Node l k v (1 + Z.max (gh l) (gh r)) r).
Proof. intros; cbn; auto. Qed.

Lemma node_consistent : forall (l : tree) k v h r,
  inv (Node l k v h r) -> 1 <= h -> h = 1 + Z.max (gh l) (gh r).
Proof.
  intros l k v h r H Hh. cbn in H. destruct H as (_ & _ & [Hc|(-> & -> & ->)] & _); auto. cbn. lia.
Qed.

Ltac inv_tac :=
  unfold mkNode;
  repeat match goal with
         | |- avl_cached _ (Node _ _ _ _ _) => apply inv_node; [| |cbn [getHeight]; lia]
         | |- avl_cached _ _ => assumption
         end.

Lemma repair_ok : forall (l : tree) k v h r,
  inv l -> inv r -> -2 <= gh r - gh l <= 2 ->
  exists t', repairBalance (Node l k v h r) = Some t' /\ inv t' /\
    1 + Z.max (gh l) (gh r) - 1 <= gh t' <= 1 + Z.max (gh l) (gh r) /\
    (-1 <= gh r - gh l <= 1 -> gh t' = 1 + Z.max (gh l) (gh r)).
Proof.
  intros l k v h r Hl Hr Hb.
  pose proof (gh_nonneg _ Hl) as Hl0. pose proof (gh_nonneg _ Hr) as Hr0.
  cbn [repairBalance calcBalance mkNode].
  destruct (gh r - gh l =? 2) eqn:E2.
  - destruct r as [|rl rk rv rh rr]; [cbn in *; lia|]. cbn [getHeight] in *.
    pose proof (node_consistent _ _ _ _ _ Hr ltac:(lia)) as Hrh.
    cbn [avl_cached] in Hr. destruct Hr as (Hrl & Hrr & _ & Hrb).
    pose proof (gh_nonneg _ Hrl). pose proof (gh_nonneg _ Hrr).
    cbn [calcBalance getHeight]. destruct (gh rr - gh rl =? -1) eqn:E3.
    + destruct rl as [|a ak av ah b]; [cbn in *; lia|]. cbn [getHeight] in *.
      pose proof (node_consistent _ _ _ _ _ Hrl ltac:(lia)) as Hah.
      cbn [avl_cached] in Hrl. destruct Hrl as (Ha & Hb' & _ & Hab).
      pose proof (gh_nonneg _ Ha). pose proof (gh_nonneg _ Hb').
      cbn [bigRotateLeft rotateRight rotateLeft mkNode getHeight].
      eexists; split; [reflexivity|]. split; [inv_tac|]. unfold mkNode; cbn [getHeight]. lia.
    + cbn [rotateLeft mkNode getHeight].
      eexists; split; [reflexivity|]. split; [inv_tac|]. unfold mkNode; cbn [getHeight]. lia.
  - destruct (gh r - gh l =? -2) eqn:E4.
    + destruct l as [|ll lk lv lh lr]; [cbn in *; lia|]. cbn [getHeight] in *.
      pose proof (node_consistent _ _ _ _ _ Hl ltac:(lia)) as Hlh.
      cbn [avl_cached] in Hl. destruct Hl as (Hll & Hlr & _ & Hlb).
      pose proof (gh_nonneg _ Hll). pose proof (gh_nonneg _ Hlr).
      cbn [calcBalance getHeight]. destruct (gh lr - gh ll =? 1) eqn:E3.
      * destruct lr as [|a ak av ah b]; [cbn in *; lia|]. cbn [getHeight] in *.
        pose proof (node_consistent _ _ _ _ _ Hlr ltac:(lia)) as Hah.
        cbn [avl_cached] in Hlr. destruct Hlr as (Ha & Hb' & _ & Hab).
        pose proof (gh_nonneg _ Ha). pose proof (gh_nonneg _ Hb').
        cbn [bigRotateRight rotateRight rotateLeft mkNode getHeight].
        eexists; split; [reflexivity|]. split; [inv_tac|]. unfold mkNode; cbn [getHeight]. lia.
      * cbn [rotateRight mkNode getHeight].
        eexists; split; [reflexivity|]. split; [inv_tac|]. unfold mkNode; cbn [getHeight]. lia.
    + eexists; split; [reflexivity|]. split; [inv_tac|]. unfold mkNode; cbn [getHeight]. lia.
Qed.

Lemma rebuild_r : forall (l : tree) k v h r r' k' v' h',
  inv (Node l k v h r) -> inv r' -> -1 <= gh r' - gh r <= 1 -> (r = Leaf -> gh r' <= h0) ->
  exists t', repairBalance (Node l k' v' h' r') = Some t' /\ inv t' /\ -1 <= gh t' - h <= 1.
Proof.
  intros l k v h r r' k' v' h' (Hl & Hr & Hc & Hb) Hr' Hd Hleaf.
  pose proof (gh_nonneg _ Hl). pose proof (gh_nonneg _ Hr). pose proof (gh_nonneg _ Hr').
  destruct (repair_ok l k' v' h' r' Hl Hr') as (t' & E & Hi & Hh1 & Hh2).
  { destruct Hc as [->|(-> & -> & ->)]; [lia|]. specialize (Hleaf eq_refl). cbn in *. lia. }
  exists t'. repeat split; auto;
    (destruct Hc as [->|(-> & -> & ->)]; [lia|specialize (Hleaf eq_refl); cbn [getHeight] in *; lia]).
Qed.

Lemma rebuild_l : forall (l : tree) k v h r l' k' v' h',
  inv (Node l k v h r) -> inv l' -> -1 <= gh l' - gh l <= 1 -> (l = Leaf -> gh l' <= h0) ->
  exists t', repairBalance (Node l' k' v' h' r) = Some t' /\ inv t' /\ -1 <= gh t' - h <= 1.
Proof.
  intros l k v h r l' k' v' h' (Hl & Hr & Hc & Hb) Hl' Hd Hleaf.
  pose proof (gh_nonneg _ Hl). pose proof (gh_nonneg _ Hr). pose proof (gh_nonneg _ Hl').
  destruct (repair_ok l' k' v' h' r Hl' Hr) as (t' & E & Hi & Hh1 & Hh2).
  { destruct Hc as [->|(-> & -> & ->)]; [lia|]. specialize (Hleaf eq_refl). cbn in *. lia. }
  exists t'. repeat split; auto;
    (destruct Hc as [->|(-> & -> & ->)]; [lia|specialize (Hleaf eq_refl); cbn [getHeight] in *; lia]).
Qed.

Lemma insert_ok : forall (t : tree) k v, inv t ->
  exists t', insert h0 t k v = Some t' /\ inv t' /\ -1 <= gh t' - gh t <= 1 /\ (t = Leaf -> gh t' <= h0).
Proof.
  induction t as [|l IHl nk nv h r IHr]; intros k v Hi; cbn [insert].
  - eexists; split; [reflexivity|]. cbn. repeat split; auto; lia.
  - pose proof Hi as (Hl & Hr & _).
    destruct (nk <? k) eqn:E1; [|destruct (k <? nk) eqn:E2].
    + destruct (IHr k v Hr) as (r' & -> & Hr' & Hd & Hlf).
      destruct (rebuild_r _ _ _ _ _ r' nk nv h Hi Hr' Hd Hlf) as (t' & E & Hi' & Hh).
      exists t'. cbn [getHeight]. repeat split; auto; try lia; discriminate.
    + destruct (IHl k v Hl) as (l' & -> & Hl' & Hd & Hlf).
      destruct (rebuild_l _ _ _ _ _ l' nk nv h Hi Hl' Hd Hlf) as (t' & E & Hi' & Hh).
      exists t'. cbn [getHeight]. repeat split; auto; try lia; discriminate.
    + destruct (rebuild_r _ _ _ _ _ r k v h Hi Hr ltac:(lia)) as (t' & E & Hi' & Hh).
      { intros ->. cbn. lia. }
      exists t'. cbn [getHeight]. repeat split; auto; try lia; discriminate.
Qed.

Lemma extractMin_ok : forall (t : tree), t <> Leaf -> inv t ->
  exists mk mv t', extractMin t = Some (mk, mv, t') /\ inv t' /\ -1 <= gh t' - gh t <= 1.
Proof.
  induction t as [|l IHl k v h r _]; intros Hne Hi; [congruence|]. cbn [extractMin].
  pose proof Hi as (Hl & Hr & Hc & Hb).
  destruct l as [|ll lk lv lh lr].
  - exists k, v, r. split; [reflexivity|]. split; auto. pose proof (gh_nonneg _ Hr).
    cbn [getHeight] in *. destruct Hc as [->|(_ & -> & ->)]; cbn [getHeight]; lia.
  - destruct (IHl ltac:(discriminate) Hl) as (mk & mv & l' & -> & Hl' & Hd).
    destruct (rebuild_l _ _ _ _ _ l' k v h Hi Hl' Hd ltac:(discriminate)) as (t' & -> & Hi' & Hh).
    exists mk, mv, t'. auto.
Qed.

Lemma remove_ok : forall (t : tree) k, inv t ->
  exists t', remove t k = Some t' /\ inv t' /\ -1 <= gh t' - gh t <= 1 /\ (t = Leaf -> gh t' <= h0).
Proof.
  induction t as [|l IHl nk nv h r IHr]; intros k Hi; cbn [remove].
  - exists Leaf. cbn. repeat split; auto; lia.
  - pose proof Hi as (Hl & Hr & Hc & Hb).
    destruct (nk <? k) eqn:E1; [|destruct (k <? nk) eqn:E2].
    + destruct (IHr k Hr) as (r' & -> & Hr' & Hd & Hlf).
      destruct (rebuild_r _ _ _ _ _ r' nk nv h Hi Hr' Hd Hlf) as (t' & E & Hi' & Hh).
      exists t'. cbn [getHeight]. repeat split; auto; try lia; discriminate.
    + destruct (IHl k Hl) as (l' & -> & Hl' & Hd & Hlf).
      destruct (rebuild_l _ _ _ _ _ l' nk nv h Hi Hl' Hd Hlf) as (t' & E & Hi' & Hh).
      exists t'. cbn [getHeight]. repeat split; auto; try lia; discriminate.
    + pose proof (gh_nonneg _ Hl). pose proof (gh_nonneg _ Hr).
      destruct l as [|ll lk lv lh lr].
      { exists r. cbn [getHeight] in *. repeat split; auto; try discriminate;
          (destruct Hc as [->|(_ & -> & ->)]; cbn [getHeight]; lia). }
      destruct r as [|rl rk rv rh rr].
      { eexists; split; [reflexivity|]. split; [exact Hl|]. cbn [getHeight] in *. split; [|discriminate].
        destruct Hc as [->|(? & _)]; [lia|discriminate]. }
      destruct (extractMin_ok (Node rl rk rv rh rr) ltac:(discriminate) Hr) as (mk & mv & r' & -> & Hr' & Hd).
      destruct (rebuild_r _ _ _ _ _ r' mk mv h Hi Hr' Hd ltac:(discriminate)) as (t' & E & Hi' & Hh).
      exists t'. cbn [getHeight]. repeat split; auto; try lia; discriminate.
Qed.

Lemma assign_inv : forall (t : tree) k v, inv t -> inv (assign t k v) /\ gh (assign t k v) = gh t /\ (t = Leaf <-> assign t k v = Leaf).
Proof.
  induction t as [|l IHl nk nv h r IHr]; intros k v Hi; cbn [assign]; [tauto|].
  destruct Hi as (Hl & Hr & Hc & Hb).
  destruct (IHl k v Hl) as (A1 & A2 & A3). destruct (IHr k v Hr) as (B1 & B2 & B3).
  destruct (nk <? k); [|destruct (k <? nk)]; cbn [avl_cached getHeight]; (split; [|split; [reflexivity|split; discriminate]]).
  - rewrite B2. split; [auto|split; [auto|split; [|auto]]].
    destruct Hc as [Hc|(Hl2 & Hr2 & Hh2)]; [left; auto|right; repeat split; auto; apply B3; auto].
  - rewrite A2. split; [auto|split; [auto|split; [|auto]]].
    destruct Hc as [Hc|(Hl2 & Hr2 & Hh2)]; [left; auto|right; repeat split; auto; apply A3; auto].
  - repeat split; auto; lia.
Qed.

(** ** What the invariant gives for the true shape *)

Lemma theight_bounds : forall t : tree, inv t -> gh t <= theight t <= gh t + 1 - h0.
Proof.
  induction t as [|l IHl k v h r IHr]; cbn [theight getHeight]; intros Hi; [lia|].
  destruct Hi as (Hl & Hr & Hc & Hb). specialize (IHl Hl). specialize (IHr Hr).
  destruct Hc as [->|(-> & -> & ->)]; cbn [theight getHeight] in *; lia.
Qed.

Lemma true_balance : forall t : tree, inv t -> true_balance_le (2 - h0) t.
Proof.
  induction t as [|l IHl k v h r IHr]; cbn [true_balance_le]; intros Hi; auto.
  destruct Hi as (Hl & Hr & Hc & Hb). repeat split; auto.
  pose proof (theight_bounds _ Hl). pose proof (theight_bounds _ Hr). lia.
Qed.

Lemma size_nonneg : forall t : tree, 0 <= size t.
Proof. induction t; cbn [size]; lia. Qed.

Lemma pow2_half_le : forall a b, 0 <= a <= b -> 2 ^ (a / 2) <= 2 ^ (b / 2).
Proof.
  intros a b H. apply Z.pow_le_mono_r; [lia|]. apply Z.div_le_mono; lia.
Qed.

Lemma cached_height_log : forall t : tree, inv t -> 2 ^ (gh t / 2) <= size t + 1.
Proof.
  induction t as [|l IHl k v h r IHr]; cbn [size getHeight]; intros Hi.
  - cbn. lia.
  - pose proof Hi as (Hl & Hr & Hc & Hb). specialize (IHl Hl). specialize (IHr Hr).
    pose proof (gh_nonneg _ Hl). pose proof (gh_nonneg _ Hr).
    pose proof (size_nonneg l). pose proof (size_nonneg r).
    destruct (Z_lt_le_dec h 2) as [Hs|Hs].
    + assert (h / 2 = 0) as -> by (apply Z.div_small; pose proof (gh_nonneg _ Hi); cbn [getHeight] in *; lia).
      rewrite Z.pow_0_r. lia.
    + destruct Hc as [Hc|(-> & -> & ->)]; [|lia].
      assert (E : h / 2 = (h - 2) / 2 + 1).
      { replace h with ((h - 2) + 1 * 2) at 1 by lia. rewrite Z.div_add by lia. reflexivity. }
      rewrite E, Z.pow_add_r, Z.pow_1_r by (try apply Z.div_pos; lia).
      pose proof (pow2_half_le (h - 2) (gh l) ltac:(lia)).
      pose proof (pow2_half_le (h - 2) (gh r) ltac:(lia)). lia.
Qed.

Lemma true_height_log : forall t : tree, inv t -> 2 ^ ((theight t - 1) / 2) <= size t + 1.
Proof.
  intros t Hi. pose proof (theight_bounds _ Hi). pose proof (gh_nonneg _ Hi).
  pose proof (cached_height_log _ Hi). pose proof (size_nonneg t).
  destruct (Z_lt_le_dec (theight t) 1).
  - assert (theight t = 0) as -> by lia. change ((0 - 1) / 2) with (-1). rewrite Z.pow_neg_r by lia. lia.
  - pose proof (pow2_half_le (theight t - 1) (gh t) ltac:(lia)). lia.
Qed.

(** ** Reachable states *)

Definition tinv (t : tree) : Prop := inv t /\ sorted (abs t).

Lemma length_abs_node : forall (l : tree) k v h r,
  (1 <? Z.of_nat (length (abs (Node l k v h r)))) = match l, r with Leaf, Leaf => false | _, _ => true end.
Proof.
  intros. cbn [abs]. rewrite app_length. cbn [length].
  destruct l as [|ll lk lv lh lr], r as [|rl rk rv rh rr]; cbn [abs length]; try rewrite !app_length; cbn [length]; lia.
Qed.

Lemma step_ok : forall (t : tree) (o : top V), tinv t ->
  exists t' ob, tree_step h0 t o = Some (t', ob) /\ tinv t' /\ ref_step (abs t) o = (abs t', ob).
Proof.
  intros t o [Hi Hs]. destruct o as [k v|k|k v|k| | | | ]; cbn [tree_step ref_step].
  - destruct (insert_ok t k v Hi) as (t' & E & Hi' & _). rewrite E.
    pose proof (insert_abs _ _ _ _ _ Hs E) as Ha.
    exists t', OUnit. repeat split; auto. { rewrite Ha. apply al_set_sorted; auto. } rewrite Ha; reflexivity.
  - destruct (remove_ok t k Hi) as (t' & E & Hi' & _). rewrite E.
    pose proof (remove_abs _ _ _ Hs E) as Ha.
    exists t', OUnit. repeat split; auto. { rewrite Ha. apply al_del_sorted; auto. } rewrite Ha; reflexivity.
  - rewrite <- (find_abs _ k Hs). destruct (find t k) as [x|] eqn:E.
    + pose proof (assign_abs _ _ v _ Hs E) as Ha.
      exists (assign t k v), (OBool true). repeat split; auto.
      * apply assign_inv; auto.
      * rewrite Ha. apply al_set_sorted; auto.
      * rewrite Ha; reflexivity.
    + exists t, (OBool false). repeat split; auto.
  - rewrite <- (find_abs _ k Hs). exists t, (OVal (find t k)). repeat split; auto.
  - rewrite <- findMin_abs. destruct t as [|l k v h r].
    + exists Leaf, (OEntry None). split; [reflexivity|split; [split; assumption|reflexivity]].
    + destruct (findMin (Node l k v h r)) as [e|] eqn:E.
      * exists (Node l k v h r), (OEntry (Some e)). split; [reflexivity|split; [split; assumption|reflexivity]].
      * exfalso. eapply findMin_node; eauto.
  - rewrite <- findMax_abs. destruct t as [|l k v h r].
    + exists Leaf, (OEntry None). split; [reflexivity|split; [split; assumption|reflexivity]].
    + destruct (findMax (Node l k v h r)) as [e|] eqn:E.
      * exists (Node l k v h r), (OEntry (Some e)). split; [reflexivity|split; [split; assumption|reflexivity]].
      * exfalso. eapply findMax_node; eauto.
  - exists t, (OBool match t with Leaf => true | _ => false end).
    split; [reflexivity|split; [split; assumption|]].
    destruct t as [|l k v h r]; [reflexivity|]. cbn [abs]. destruct (abs l); reflexivity.
  - eexists t, _. split; [reflexivity|split; [split; assumption|]].
    destruct t as [|l k v h r]; [reflexivity|]. rewrite length_abs_node. reflexivity.
Qed.

Theorem run_ok : forall (ops : list (top V)) (t : tree), tinv t ->
  exists t' obs, tree_run h0 t ops = Some (t', obs) /\ tinv t' /\ ref_run (abs t) ops = (abs t', obs).
Proof.
  induction ops as [|o ops IH]; intros t Ht; cbn [tree_run ref_run].
  - exists t, []. auto.
  - destruct (step_ok t o Ht) as (t1 & ob & -> & Ht1 & ->).
    destruct (IH t1 Ht1) as (t2 & obs & -> & Ht2 & ->).
    exists t2, (ob :: obs). auto.
Qed.

Lemma tinv_leaf : tinv Leaf.
Proof. split; cbn; auto. Qed.

Lemma reachable_tinv : forall t : tree, reachable h0 t -> tinv t.
Proof.
  intros t (ops & obs & H). destruct (run_ok ops Leaf tinv_leaf) as (t' & obs' & E & Ht & _).
  rewrite E in H. injection H as <- _. exact Ht.
Qed.

Lemma exact_when_repaired : h0 = 1 -> forall t : tree, inv t -> heights_exact t.
Proof.
  intros H1. induction t as [|l IHl k v h r IHr]; cbn [heights_exact]; intros Hi; auto.
  pose proof Hi as (Hl & Hr & Hc & Hb). repeat split; auto.
  pose proof (theight_bounds _ Hl). pose proof (theight_bounds _ Hr).
  destruct Hc as [->|(-> & -> & ->)]; cbn [theight getHeight] in *; lia.
Qed.

End Balance.

(** ** The reference really is an ordered map *)

Lemma al_find_set : forall (m : al) k v k',
  al_find (al_set m k v) k' = if k' =? k then Some v else al_find m k'.
Proof.
  induction m as [|[a va] m IH]; intros k v k'; cbn [al_set al_find].
  - destruct (k =? k') eqn:E1; destruct (k' =? k) eqn:E2; try lia; reflexivity.
  - destruct (k <? a) eqn:E1; [|destruct (k =? a) eqn:E2]; cbn [al_find].
    + destruct (k =? k') eqn:E3; destruct (k' =? k) eqn:E4; try lia; reflexivity.
    + destruct (k =? k') eqn:E3; destruct (k' =? k) eqn:E4; try lia; try reflexivity.
      destruct (a =? k') eqn:E5; [lia|reflexivity].
    + rewrite IH. destruct (a =? k') eqn:E3; [|reflexivity].
      destruct (k' =? k) eqn:E4; [lia|reflexivity].
Qed.

Lemma al_find_del : forall (m : al) k k', sorted m ->
  al_find (al_del m k) k' = if k' =? k then None else al_find m k'.
Proof.
  induction m as [|[a va] m IH]; intros k k' Hs; cbn [al_del al_find].
  - destruct (k' =? k); reflexivity.
  - destruct Hs as [Hg Hs]. destruct (a =? k) eqn:E1; cbn [al_find].
    + destruct (k' =? k) eqn:E2.
      * apply (al_find_none_gt m a); [exact Hg|lia].
      * destruct (a =? k') eqn:E3; [lia|reflexivity].
    + rewrite IH by auto. destruct (a =? k') eqn:E3; [|reflexivity].
      destruct (k' =? k) eqn:E2; [lia|reflexivity].
Qed.

Lemma al_find_in : forall (m : al) k v, sorted m -> (al_find m k = Some v <-> In (k, v) m).
Proof.
  induction m as [|[a va] m IH]; intros k v Hs; cbn [al_find In].
  - split; [discriminate|tauto].
  - destruct Hs as [Hg Hs]. destruct (a =? k) eqn:E.
    + assert (a = k) by lia; subst. split.
      * intros H; injection H as ->; auto.
      * intros [H|H]; [injection H as ->; reflexivity|].
        exfalso. cbn [fst] in Hg. rewrite Forall_forall in Hg. specialize (Hg _ H). cbn in Hg. lia.
    + rewrite IH by auto. split; [auto|]. intros [H|H]; [injection H as -> _; lia|auto].
Qed.

Lemma al_front_min : forall (m : al) e, sorted m -> hd_error m = Some e ->
  In e m /\ forall e', In e' m -> fst e <= fst e'.
Proof.
  intros [|a m] e Hs H; cbn in H; [discriminate|]. injection H as ->. destruct Hs as [Hg _].
  split; [cbn; auto|]. intros e' [<-|H]; [lia|]. rewrite Forall_forall in Hg. specialize (Hg _ H). lia.
Qed.

Lemma al_back_max : forall (m : al) e, sorted m -> al_last m = Some e ->
  In e m /\ forall e', In e' m -> fst e' <= fst e.
Proof.
  induction m as [|a m IH]; intros e Hs H; cbn [al_last] in H; [discriminate|].
  destruct Hs as [Hg Hs]. destruct m as [|b m'].
  - injection H as ->. split; [cbn; auto|]. intros e' [<-|[]]; lia.
  - destruct (IH e Hs H) as [Hin Hmax]. split; [cbn [In] in *; tauto|].
    intros e' [<-|H']; [|auto]. rewrite Forall_forall in Hg. specialize (Hg _ Hin). lia.
Qed.

Lemma size_abs : forall t : tree, size t = Z.of_nat (length (abs t)).
Proof.
  induction t as [|l IHl k v h r IHr]; cbn [size abs]; [reflexivity|].
  rewrite app_length. cbn [length]. lia.
Qed.

End TreeProofs.

(* ------------------------------------------------------------------------- *)
(** * Statements about the model of the Go code as it is ([n.height = 0]) and as repaired *)

Lemma new_height_ok : go_new_height = 0 \/ go_new_height = 1.
Proof. vm_compute; auto. Qed.

Theorem tree_refines_sorted_map : forall (V : Type) (ops : list (top V)),
  exists t obs, tree_run go_new_height Leaf ops = Some (t, obs) /\
                ref_run [] ops = (abs t, obs) /\ sorted (abs t) /\ avl_cached go_new_height t.
Proof.
  intros V ops.
  destruct (run_ok V go_new_height new_height_ok ops Leaf (tinv_leaf V go_new_height)) as (t & obs & E & [Hi Hs] & R).
  exists t, obs. auto.
Qed.

Theorem reachable_inv : forall (V : Type) h0 (t : tree V), h0 = 0 \/ h0 = 1 ->
  reachable h0 t -> avl_cached h0 t /\ sorted (abs t).
Proof. intros V h0 t H0 H. apply (reachable_tinv V h0 H0 t H). Qed.

Theorem tree_bst : forall (V : Type) (t : tree V), reachable go_new_height t -> sorted (abs t).
Proof. intros V t H. apply (reachable_inv V _ t new_height_ok H). Qed.

Theorem tree_cached_balance : forall (V : Type) (t : tree V),
  reachable go_new_height t -> avl_cached go_new_height t.
Proof. intros V t H. apply (reachable_inv V _ t new_height_ok H). Qed.

Theorem tree_true_balance : forall (V : Type) (t : tree V),
  reachable go_new_height t -> true_balance_le (2 - go_new_height) t.
Proof. intros V t H. apply (true_balance V _ new_height_ok). apply tree_cached_balance; auto. Qed.

Theorem tree_height_log : forall (V : Type) (t : tree V),
  reachable go_new_height t ->
  2 ^ ((theight t - 1) / 2) <= size t + 1 /\ 2 ^ (getHeight t / 2) <= size t + 1 /\
  getHeight t <= theight t <= getHeight t + 1.
Proof.
  intros V t H. pose proof (tree_cached_balance V t H) as Hi. repeat split.
  - apply (true_height_log V _ new_height_ok); auto.
  - apply (cached_height_log V _ new_height_ok); auto.
  - apply (theight_bounds V _ new_height_ok); auto.
  - pose proof (theight_bounds V _ new_height_ok t Hi). destruct new_height_ok; lia.
Qed.

Theorem avl_refuted : go_new_height = 0 ->
  exists (ops : list (top Z)) t obs,
    tree_run go_new_height Leaf ops = Some (t, obs) /\ ~ true_balance_le 1 t.
Proof.
  intros ->. exists [TSet 3 1; TSet 2 2; TSet 1 3]. eexists. eexists. split; [vm_compute; reflexivity|].
  cbn. lia.
Qed.

Theorem repaired_is_avl : forall (V : Type) (t : tree V),
  reachable 1 t -> true_balance_le 1 t /\ heights_exact t /\ sorted (abs t).
Proof.
  intros V t H. destruct (reachable_inv V 1 t (or_intror eq_refl) H) as [Hi Hs]. repeat split; auto.
  - apply (true_balance V 1 (or_intror eq_refl) t Hi).
  - apply (exact_when_repaired V 1 (or_intror eq_refl) eq_refl t Hi).
Qed.
