(** Proofs about the circular-slice model of Algo/AlgoModel.v (property C41). *)
From Coq Require Import ZArith List Bool Lia ZifyBool.
From TLV Require Import Algo.AlgoModel.
Import ListNotations.
Open Scope Z_scope.

Section RingProofs.
Variable T : Type.
Variable zero : T.
Notation ring := (ring T).

(* ------------------------------------------------------------------------- *)
(** * Lists indexed by Z *)

Definition getZ (l : list T) (i : Z) : T := nth (Z.to_nat i) l zero.

Lemma lenZ_nonneg : forall (l : list T), 0 <= lenZ l.
Proof. unfold lenZ; intros; lia. Qed.

Lemma lenZ_app : forall (a b : list T), lenZ (a ++ b) = lenZ a + lenZ b.
Proof. unfold lenZ; intros; rewrite app_length; lia. Qed.

Lemma lenZ_cons : forall (x : T) l, lenZ (x :: l) = 1 + lenZ l.
Proof. unfold lenZ; intros; cbn [length]; lia. Qed.

Lemma lenZ_repeat : forall (x : T) n, 0 <= n -> lenZ (repeat x (Z.to_nat n)) = n.
Proof. unfold lenZ; intros; rewrite repeat_length; lia. Qed.

Lemma lenZ_firstn : forall (l : list T) n, 0 <= n -> lenZ (firstn (Z.to_nat n) l) = Z.min n (lenZ l).
Proof. unfold lenZ; intros; rewrite firstn_length; lia. Qed.

Lemma lenZ_skipn : forall (l : list T) n, 0 <= n <= lenZ l -> lenZ (skipn (Z.to_nat n) l) = lenZ l - n.
Proof. unfold lenZ; intros; rewrite skipn_length; lia. Qed.

Lemma getZ_app : forall (a b : list T) j, 0 <= j ->
  getZ (a ++ b) j = if j <? lenZ a then getZ a j else getZ b (j - lenZ a).
Proof.
  unfold getZ, lenZ; intros. destruct (j <? Z.of_nat (length a)) eqn:E.
  - apply app_nth1; lia.
  - rewrite app_nth2 by lia. f_equal. lia.
Qed.

Lemma getZ_firstn : forall (l : list T) n j, 0 <= j < n -> getZ (firstn (Z.to_nat n) l) j = getZ l j.
Proof.
  unfold getZ; intros. rewrite <- (firstn_skipn (Z.to_nat n) l) at 2.
  destruct (Z_lt_le_dec j (lenZ l)).
  - rewrite app_nth1; auto. rewrite firstn_length. unfold lenZ in *. lia.
  - rewrite !nth_overflow; auto.
    + rewrite firstn_skipn. unfold lenZ in *. lia.
    + rewrite firstn_length. unfold lenZ in *. lia.
Qed.

Lemma getZ_skipn : forall (l : list T) n j, 0 <= n -> 0 <= j -> getZ (skipn (Z.to_nat n) l) j = getZ l (n + j).
Proof.
  unfold getZ; intros. rewrite <- (firstn_skipn (Z.to_nat n) l) at 2.
  destruct (Z_lt_le_dec (lenZ l) n).
  - rewrite !nth_overflow; auto.
    + rewrite firstn_skipn. unfold lenZ in *. lia.
    + rewrite skipn_length. unfold lenZ in *. lia.
  - rewrite app_nth2; rewrite firstn_length; unfold lenZ in *; [|lia]. f_equal. lia.
Qed.

Lemma getZ_repeat : forall n j, getZ (repeat zero n) j = zero.
Proof.
  unfold getZ; intros. destruct (Nat.lt_ge_cases (Z.to_nat j) n).
  - apply nth_repeat.
  - apply nth_overflow. rewrite repeat_length. lia.
Qed.

Lemma getZ_cons : forall (x : T) l j, 0 <= j -> getZ (x :: l) j = if j =? 0 then x else getZ l (j - 1).
Proof.
  unfold getZ; intros. destruct (j =? 0) eqn:E.
  - assert (j = 0) as -> by lia. reflexivity.
  - replace (Z.to_nat j) with (S (Z.to_nat (j - 1))) by lia. reflexivity.
Qed.

Lemma list_ext : forall (a b : list T),
  lenZ a = lenZ b -> (forall j, 0 <= j < lenZ a -> getZ a j = getZ b j) -> a = b.
Proof.
  unfold lenZ, getZ; intros a b Hl H. apply (nth_ext a b zero zero); [lia|].
  intros n Hn. specialize (H (Z.of_nat n) ltac:(lia)). rewrite Nat2Z.id in H. exact H.
Qed.

Lemma get_at_ok : forall (l : list T) i, 0 <= i < lenZ l -> get_at l i = Ok (getZ l i).
Proof.
  unfold get_at, getZ; intros l i H.
  destruct ((0 <=? i) && (i <? lenZ l)) eqn:E; [|lia].
  destruct (nth_error l (Z.to_nat i)) as [x|] eqn:En.
  - f_equal. symmetry. apply nth_error_nth; auto.
  - apply nth_error_None in En. unfold lenZ in H. lia.
Qed.

Lemma set_at_ok : forall (l : list T) i x, 0 <= i < lenZ l ->
  exists l', set_at l i x = Ok l' /\ lenZ l' = lenZ l /\
    forall j, 0 <= j -> getZ l' j = if j =? i then x else getZ l j.
Proof.
  intros l i x H. unfold set_at. destruct ((0 <=? i) && (i <? lenZ l)) eqn:E; [|lia].
  eexists; split; [reflexivity|]. split.
  - rewrite lenZ_app, lenZ_cons, lenZ_firstn, lenZ_skipn by lia. lia.
  - intros j Hj. rewrite getZ_app, lenZ_firstn by lia.
    destruct (j <? Z.min i (lenZ l)) eqn:E1.
    + rewrite getZ_firstn by lia. destruct (j =? i) eqn:E2; [lia|reflexivity].
    + rewrite getZ_cons by lia. destruct (j - Z.min i (lenZ l) =? 0) eqn:E3.
      * destruct (j =? i) eqn:E2; [reflexivity|lia].
      * destruct (j =? i) eqn:E2; [lia|]. rewrite getZ_skipn by lia. f_equal. lia.
Qed.

Lemma slice_ok : forall (l : list T) a b, 0 <= a <= b -> b <= lenZ l ->
  exists s, slice l a b = Ok s /\ s = firstn (Z.to_nat (b - a)) (skipn (Z.to_nat a) l) /\
    lenZ s = b - a /\ forall j, 0 <= j < b - a -> getZ s j = getZ l (a + j).
Proof.
  intros l a b H1 H2. unfold slice. destruct ((0 <=? a) && (a <=? b) && (b <=? lenZ l)) eqn:E; [|lia].
  eexists; split; [reflexivity|]. split; [reflexivity|]. split.
  - rewrite lenZ_firstn, lenZ_skipn by lia. lia.
  - intros j Hj. rewrite getZ_firstn, getZ_skipn by lia. reflexivity.
Qed.

(* ------------------------------------------------------------------------- *)
(** * The ring invariant and the abstraction *)

Definition wrap (cap x : Z) : Z := if x <? cap then x else x - cap.

Notation rinv := (ring_inv zero).

Definition rabs_spec (s : ring) (q : list T) : Prop :=
  lenZ q = write_pos s - read_pos s /\
  forall j, 0 <= j < write_pos s - read_pos s ->
    getZ q j = getZ (elements s) (wrap (lenZ (elements s)) (read_pos s + j)).

Lemma rabs_ok : forall s, rinv s -> rabs_spec s (rabs s).
Proof.
  unfold rabs, rabs_spec. intros [e r w] (H0 & H1 & H2 & _). cbn [elements read_pos write_pos] in *.
  pose proof (lenZ_nonneg e). split.
  - rewrite lenZ_firstn, lenZ_skipn by (rewrite ?lenZ_app; lia). rewrite lenZ_app. lia.
  - intros j Hj. rewrite getZ_firstn, getZ_skipn, getZ_app by lia. unfold wrap.
    destruct (r + j <? lenZ e); reflexivity.
Qed.

Lemma rabs_unique : forall s q q', rabs_spec s q -> rabs_spec s q' -> q = q'.
Proof.
  intros s q q' [L1 P1] [L2 P2]. apply list_ext; [lia|].
  intros j Hj. rewrite P1, P2 by lia. reflexivity.
Qed.

Lemma rabs_len : forall s, rinv s -> lenZ (rabs s) = write_pos s - read_pos s.
Proof. intros s H. apply (rabs_ok s H). Qed.

Lemma rinv_empty : rinv (empty_ring T).
Proof. unfold ring_inv, empty_ring; cbn. repeat split; try lia. Qed.

Lemma rabs_empty : rabs (empty_ring T) = [].
Proof. reflexivity. Qed.

(** ** Slices *)

Lemma Slices_ok : forall s, rinv s ->
  exists s1 s2, Slices s = Ok (s1, s2) /\ s1 ++ s2 = rabs s /\
    lenZ s1 = Z.min (write_pos s) (lenZ (elements s)) - read_pos s /\
    lenZ s2 = Z.max 0 (write_pos s - lenZ (elements s)).
Proof.
  intros s Hi. pose proof (rabs_ok s Hi) as Habs. destruct s as [e r w].
  destruct Hi as (H0 & H1 & H2 & _). cbn [elements read_pos write_pos] in *.
  pose proof (lenZ_nonneg e). unfold Slices. cbn [elements read_pos write_pos].
  destruct (w <=? lenZ e) eqn:E.
  - destruct (slice_ok e r w ltac:(lia) ltac:(lia)) as (s1 & -> & _ & L1 & P1). cbn [rbind].
    exists s1, []. split; [reflexivity|]. split; [|split; [lia|change (lenZ (@nil T)) with 0; lia]].
    rewrite app_nil_r. apply (rabs_unique (mkRing e r w)); auto.
    split; cbn [elements read_pos write_pos]; [lia|].
    intros j Hj. rewrite P1 by lia. unfold wrap. destruct (r + j <? lenZ e) eqn:E1; [reflexivity|lia].
  - destruct (slice_ok e r (lenZ e) ltac:(lia) ltac:(lia)) as (s1 & -> & _ & L1 & P1). cbn [rbind].
    destruct (slice_ok e 0 (w - lenZ e) ltac:(lia) ltac:(lia)) as (s2 & -> & _ & L2 & P2). cbn [rbind].
    exists s1, s2. split; [reflexivity|]. split; [|lia].
    apply (rabs_unique (mkRing e r w)); auto.
    split; cbn [elements read_pos write_pos]; [rewrite lenZ_app; lia|].
    intros j Hj. rewrite getZ_app by lia. unfold wrap.
    destruct (j <? lenZ s1) eqn:E1; destruct (r + j <? lenZ e) eqn:E2; try lia.
    + rewrite P1 by lia. reflexivity.
    + rewrite P2 by lia. f_equal. lia.
Qed.

(** ** Reserve *)

Lemma copy_at_spec : forall (dst : list T) off src, 0 <= off -> off + lenZ src <= lenZ dst ->
  exists d', copy_at dst off src = (d', lenZ src) /\ lenZ d' = lenZ dst /\
    forall j, 0 <= j -> getZ d' j = if (off <=? j) && (j <? off + lenZ src) then getZ src (j - off) else getZ dst j.
Proof.
  intros dst off src H1 H2. pose proof (lenZ_nonneg src). unfold copy_at.
  replace (Z.min (lenZ dst - off) (lenZ src)) with (lenZ src) by lia.
  eexists; split; [reflexivity|]. split.
  - rewrite !lenZ_app, !lenZ_firstn, lenZ_skipn by lia. lia.
  - intros j Hj. rewrite getZ_app, lenZ_firstn by lia.
    destruct (j <? Z.min off (lenZ dst)) eqn:E1.
    + rewrite getZ_firstn by lia. destruct ((off <=? j) && (j <? off + lenZ src)) eqn:E2; [lia|reflexivity].
    + rewrite getZ_app, lenZ_firstn by lia.
      destruct (j - Z.min off (lenZ dst) <? Z.min (lenZ src) (lenZ src)) eqn:E3.
      * rewrite getZ_firstn by lia. destruct ((off <=? j) && (j <? off + lenZ src)) eqn:E2; [f_equal; lia|lia].
      * rewrite getZ_skipn by lia. destruct ((off <=? j) && (j <? off + lenZ src)) eqn:E2; [lia|f_equal; lia].
Qed.

Lemma Reserve_ok : forall s n, rinv s ->
  exists s', Reserve zero s n = Ok s' /\ rinv s' /\ rabs s' = rabs s /\
    lenZ (elements s') = Z.max n (lenZ (elements s)).
Proof.
  intros s n Hi. unfold Reserve. pose proof (lenZ_nonneg (elements s)).
  destruct (n <=? lenZ (elements s)) eqn:E.
  - exists s. split; [reflexivity|split; [exact Hi|split; [reflexivity|lia]]].
  - destruct (Slices_ok s Hi) as (s1 & s2 & -> & Happ & L1 & L2). cbn [rbind].
    pose proof (rabs_ok s Hi) as [Lq Pq]. pose proof Hi as (H0 & H1 & H2 & _).
    assert (L12 : lenZ s1 + lenZ s2 = write_pos s - read_pos s) by (rewrite <- Lq, <- Happ, lenZ_app; lia).
    pose proof (lenZ_nonneg s1). pose proof (lenZ_nonneg s2).
    destruct (copy_at_spec (repeat zero (Z.to_nat n)) 0 s1 ltac:(lia) ltac:(rewrite lenZ_repeat; lia))
      as (e1 & -> & Le1 & Pe1).
    rewrite lenZ_repeat in Le1 by lia.
    destruct (copy_at_spec e1 (lenZ s1) s2 ltac:(lia) ltac:(lia)) as (e2 & -> & Le2 & Pe2).
    destruct (lenZ s1 + lenZ s2 =? lenZ s1 + lenZ s2) eqn:E2; [|lia].
    assert (Pe : forall j, 0 <= j -> getZ e2 j = if j <? lenZ s1 + lenZ s2 then getZ (s1 ++ s2) j else zero).
    { intros j Hj. rewrite Pe2, Pe1 by lia. rewrite getZ_app by lia. rewrite getZ_repeat.
      destruct ((lenZ s1 <=? j) && (j <? lenZ s1 + lenZ s2)) eqn:E3;
      destruct ((0 <=? j) && (j <? 0 + lenZ s1)) eqn:E4;
      destruct (j <? lenZ s1 + lenZ s2) eqn:E5; destruct (j <? lenZ s1) eqn:E6; try lia; auto.
      f_equal; lia. }
    eexists; split; [reflexivity|]. cbn [elements read_pos write_pos].
    assert (Hi' : rinv (mkRing e2 0 (lenZ s1 + lenZ s2))).
    { unfold ring_inv. cbn [elements read_pos write_pos]. repeat split; try lia.
      intros i Hi1 Hi2 Hi3. change (getZ e2 i = zero). rewrite Pe by lia.
      destruct (i <? lenZ s1 + lenZ s2) eqn:E5; [lia|reflexivity]. }
    split; [exact Hi'|]. split; [|lia].
    symmetry. apply (rabs_unique (mkRing e2 0 (lenZ s1 + lenZ s2))); [|apply rabs_ok; auto].
    split; cbn [elements read_pos write_pos]; [lia|].
    intros j Hj. unfold wrap. destruct (0 + j <? lenZ e2) eqn:E5; [|lia].
    rewrite Pe by lia. destruct (0 + j <? lenZ s1 + lenZ s2) eqn:E6; [|lia].
    rewrite Happ. f_equal.
Qed.

(** ** PushBack *)

Lemma wrap_range : forall cap r x, 0 <= r -> (r < cap \/ r = 0) -> r <= x < r + cap -> 0 <= wrap cap x < cap.
Proof. unfold wrap; intros. destruct (x <? cap) eqn:E; lia. Qed.

Lemma PushBack_ok : forall s x, rinv s ->
  exists s', PushBack zero s x = Ok s' /\ rinv s' /\ rabs s' = rabs s ++ [x] /\
    lenZ (elements s) <= lenZ (elements s').
Proof.
  intros s x Hi. unfold PushBack. pose proof (lenZ_nonneg (elements s)). pose proof Hi as (H0 & H1 & H2 & _).
  destruct (write_pos s - read_pos s >? lenZ (elements s)) eqn:E0; [lia|].
  assert (Hs1 : exists s1, (if write_pos s - read_pos s =? lenZ (elements s)
                            then Reserve zero s ((if lenZ (elements s) <? 4 then 4 else lenZ (elements s)) * 2)
                            else Ok s) = Ok s1 /\ rinv s1 /\ rabs s1 = rabs s /\
                           write_pos s1 - read_pos s1 < lenZ (elements s1) /\
                           lenZ (elements s) <= lenZ (elements s1)).
  { destruct (write_pos s - read_pos s =? lenZ (elements s)) eqn:E1.
    - destruct (Reserve_ok s ((if lenZ (elements s) <? 4 then 4 else lenZ (elements s)) * 2) Hi)
        as (s1 & -> & Hi1 & Ha1 & Lc). exists s1. split; [reflexivity|split; [exact Hi1|split; [exact Ha1|split; [|lia]]]].
      rewrite <- (rabs_len s1 Hi1), Ha1, (rabs_len s Hi).
      destruct (lenZ (elements s) <? 4) eqn:E4; lia.
    - exists s. split; [reflexivity|split; [exact Hi|split; [reflexivity|lia]]]. }
  destruct Hs1 as (s1 & -> & Hi1 & Ha1 & Hfull & Hcap). cbn [rbind].
  rewrite <- Ha1. clear Ha1 E0 H0 H1 H2 Hi.
  pose proof (rabs_ok s1 Hi1) as [Lq Pq].
  destruct s1 as [e r w]. cbn [elements read_pos write_pos] in *.
  destruct Hi1 as (H0 & H1 & H2 & Hc). cbn [elements read_pos write_pos] in *.
  pose proof (wrap_range (lenZ e) r w H0 H2 ltac:(lia)) as Hw.
  assert (Hset : exists e', (if w <? lenZ e then set_at e w x else set_at e (w - lenZ e) x) = Ok e' /\
                            lenZ e' = lenZ e /\
                            forall j, 0 <= j -> getZ e' j = if j =? wrap (lenZ e) w then x else getZ e j).
  { unfold wrap in *. destruct (w <? lenZ e) eqn:E1; apply set_at_ok; lia. }
  destruct Hset as (e' & -> & Le' & Pe'). cbn [rbind].
  eexists; split; [reflexivity|]. cbn [elements read_pos write_pos].
  assert (Hi' : rinv (mkRing e' r (w + 1))).
  { unfold ring_inv. cbn [elements read_pos write_pos]. rewrite Le'. repeat split; try lia.
    intros i Hi1 Hi2 Hi3. change (getZ e' i = zero). rewrite Pe' by lia.
    unfold wrap in *. destruct (w <? lenZ e) eqn:E1; (destruct (i =? _) eqn:E2; [lia|]); apply Hc; lia. }
  split; [exact Hi'|]. split; [|lia].
  symmetry. apply (rabs_unique (mkRing e' r (w + 1))); [|apply rabs_ok; auto].
  split; cbn [elements read_pos write_pos]; [rewrite lenZ_app; unfold lenZ at 2; cbn [length]; lia|].
  intros j Hj. rewrite Le', Pe' by (apply (wrap_range (lenZ e) r (r + j)); lia). rewrite getZ_app by lia.
  destruct (j <? lenZ (rabs (mkRing e r w))) eqn:E1.
  - rewrite Pq by lia. unfold wrap. destruct (r + j <? lenZ e) eqn:E2; destruct (w <? lenZ e) eqn:E3;
      (destruct (_ =? _) eqn:E4; [lia|reflexivity]).
  - assert (j = w - r) as -> by lia. replace (r + (w - r)) with w by lia.
    rewrite Z.eqb_refl. replace (w - r - lenZ (rabs (mkRing e r w))) with 0 by lia. reflexivity.
Qed.

(** ** PopFront / Front / Index *)

Lemma lenZ_nil_inv : forall (l : list T), lenZ l = 0 -> l = [].
Proof. destruct l; auto. unfold lenZ; cbn [length]; lia. Qed.

Lemma pop_fin : forall e e' r w r3 w3,
  rinv (mkRing e r w) -> w <> r -> lenZ e' = lenZ e ->
  (forall j, 0 <= j -> getZ e' j = if j =? r then zero else getZ e j) ->
  (r + 1 < lenZ e /\ r + 1 <> w /\ r3 = r + 1 /\ w3 = w) \/
  (r + 1 >= lenZ e /\ r + 1 <> w /\ r3 = r + 1 - lenZ e /\ w3 = w - lenZ e) \/
  (w = r + 1 /\ r3 = 0 /\ w3 = 0) ->
  rinv (mkRing e' r3 w3) /\ rabs (mkRing e r w) = getZ e r :: rabs (mkRing e' r3 w3).
Proof.
  intros e e' r w r3 w3 Hi Hne Le' Pe' Hcase. pose proof (rabs_ok _ Hi) as Habs.
  destruct Hi as (H0 & H1 & H2 & Hc). cbn [elements read_pos write_pos] in *.
  assert (Hi' : rinv (mkRing e' r3 w3)).
  { unfold ring_inv. cbn [elements read_pos write_pos]. rewrite Le'. repeat split; try lia.
    intros i Hi1 Hi2 Hi3. change (getZ e' i = zero). rewrite Pe' by lia.
    destruct (i =? r) eqn:E; [reflexivity|]. apply Hc; lia. }
  split; [exact Hi'|].
  pose proof (rabs_ok _ Hi') as [Lq' Pq']. cbn [elements read_pos write_pos] in *.
  apply (rabs_unique (mkRing e r w)); [exact Habs|].
  split; cbn [elements read_pos write_pos]; [rewrite lenZ_cons; lia|].
  intros j Hj. rewrite getZ_cons by lia. destruct (j =? 0) eqn:E0.
  - unfold wrap. destruct (r + j <? lenZ e) eqn:E1; [f_equal; lia|lia].
  - rewrite Pq' by lia. rewrite Le'.
    assert (Hw : wrap (lenZ e) (r3 + (j - 1)) = wrap (lenZ e) (r + j) /\ wrap (lenZ e) (r + j) <> r /\ 0 <= wrap (lenZ e) (r + j)).
    { unfold wrap. destruct (r3 + (j - 1) <? lenZ e) eqn:E1; destruct (r + j <? lenZ e) eqn:E2; lia. }
    destruct Hw as (-> & Hw2 & Hw3). rewrite Pe' by lia.
    destruct (_ =? r) eqn:E3; [lia|reflexivity].
Qed.

Lemma PopFront_ok : forall s, rinv s ->
  (write_pos s = read_pos s -> PopFront zero s = Panic PEmpty /\ rabs s = []) /\
  (write_pos s <> read_pos s ->
   exists s' x, PopFront zero s = Ok (s', x) /\ rinv s' /\ rabs s = x :: rabs s' /\
                lenZ (elements s') = lenZ (elements s)).
Proof.
  intros s Hi. split; intros Hw; unfold PopFront.
  - rewrite Hw, Z.eqb_refl. split; [reflexivity|]. apply lenZ_nil_inv. rewrite rabs_len; auto. lia.
  - destruct (write_pos s =? read_pos s) eqn:E; [lia|].
    destruct s as [e r w]. cbn [elements read_pos write_pos] in *.
    pose proof Hi as (H0 & H1 & H2 & Hc). cbn [elements read_pos write_pos] in *.
    rewrite get_at_ok by lia. cbn [rbind].
    destruct (set_at_ok e r zero ltac:(lia)) as (e' & -> & Le' & Pe'). cbn [rbind].
    rewrite Le'.
    destruct (r + 1 >=? lenZ e) eqn:E1; cbv beta iota.
    + destruct (r + 1 - lenZ e =? w - lenZ e) eqn:E2; cbv beta iota;
        (eexists; eexists; split; [reflexivity|]);
        (edestruct (pop_fin e e' r w) as [A B]; [exact Hi|lia|exact Le'|exact Pe'| |
          split; [exact A|split; [exact B|exact Le']]]); lia.
    + destruct (r + 1 =? w) eqn:E2; cbv beta iota;
        (eexists; eexists; split; [reflexivity|]);
        (edestruct (pop_fin e e' r w) as [A B]; [exact Hi|lia|exact Le'|exact Pe'| |
          split; [exact A|split; [exact B|exact Le']]]); lia.
Qed.

Lemma Front_ok : forall s, rinv s ->
  match rabs s with
  | [] => Front s = Panic PEmpty
  | x :: _ => Front s = Ok x
  end.
Proof.
  intros s Hi. pose proof (rabs_ok s Hi) as [Lq Pq]. pose proof Hi as (H0 & H1 & H2 & _).
  unfold Front. destruct (rabs s) as [|x q] eqn:E.
  - change (lenZ (@nil T)) with 0 in Lq. destruct (write_pos s =? read_pos s) eqn:E1; [reflexivity|lia].
  - rewrite lenZ_cons in Lq. pose proof (lenZ_nonneg q).
    destruct (write_pos s =? read_pos s) eqn:E1; [lia|].
    rewrite get_at_ok by lia. f_equal. specialize (Pq 0 ltac:(lia)).
    rewrite getZ_cons in Pq by lia. cbn [Z.eqb] in Pq. rewrite Pq. unfold wrap.
    destruct (read_pos s + 0 <? lenZ (elements s)) eqn:E2; [f_equal; lia|lia].
Qed.

Lemma nth_error_getZ : forall (q : list T) pos, 0 <= pos ->
  nth_error q (Z.to_nat pos) = if pos <? lenZ q then Some (getZ q pos) else None.
Proof.
  intros q pos Hp. unfold lenZ, getZ. destruct (pos <? Z.of_nat (length q)) eqn:E.
  - apply nth_error_nth'. lia.
  - apply nth_error_None. lia.
Qed.

Lemma Index_ok : forall s pos, rinv s ->
  (pos < 0 -> Index s pos = Panic PIndexNeg) /\
  (0 <= pos < lenZ (rabs s) -> Index s pos = Ok (getZ (rabs s) pos)) /\
  (lenZ (rabs s) <= pos -> Index s pos = Panic PIndexRange \/ Index s pos = Ok zero).
Proof.
  intros s pos Hi. pose proof (rabs_ok s Hi) as [Lq Pq]. pose proof Hi as (H0 & H1 & H2 & Hc).
  unfold Index. repeat split.
  - intros Hp. destruct (pos <? 0) eqn:E; [reflexivity|lia].
  - intros Hp. destruct (pos <? 0) eqn:E; [lia|]. rewrite Pq by lia. unfold wrap.
    destruct (read_pos s + pos <? lenZ (elements s)) eqn:E1.
    + apply get_at_ok. lia.
    + destruct (read_pos s + pos >=? write_pos s) eqn:E2; [lia|]. apply get_at_ok. lia.
  - intros Hp. pose proof (lenZ_nonneg (rabs s)). destruct (pos <? 0) eqn:E; [lia|].
    destruct (read_pos s + pos <? lenZ (elements s)) eqn:E1.
    + right. rewrite get_at_ok by lia. f_equal. apply Hc; lia.
    + left. destruct (read_pos s + pos >=? write_pos s) eqn:E2; [reflexivity|lia].
Qed.

(** ** Clear *)

Lemma zero_range_spec : forall (l : list T) a n, 0 <= a -> 0 <= n -> a + n <= lenZ l ->
  lenZ (zero_range zero l a n) = lenZ l /\
  forall j, 0 <= j -> getZ (zero_range zero l a n) j = if (a <=? j) && (j <? a + n) then zero else getZ l j.
Proof.
  intros l a n Ha Hn Hl. unfold zero_range. split.
  - rewrite !lenZ_app, lenZ_firstn, lenZ_repeat, lenZ_skipn by lia. lia.
  - intros j Hj. rewrite getZ_app, lenZ_firstn by lia.
    destruct (j <? Z.min a (lenZ l)) eqn:E1.
    + rewrite getZ_firstn by lia. destruct ((a <=? j) && (j <? a + n)) eqn:E2; [lia|reflexivity].
    + rewrite getZ_app, lenZ_repeat by lia. destruct (j - Z.min a (lenZ l) <? n) eqn:E3.
      * rewrite getZ_repeat. destruct ((a <=? j) && (j <? a + n)) eqn:E2; [reflexivity|lia].
      * rewrite getZ_skipn by lia. destruct ((a <=? j) && (j <? a + n)) eqn:E2; [lia|f_equal; lia].
Qed.

Lemma Clear_ok : forall s, rinv s ->
  exists s', Clear zero s = Ok s' /\ rinv s' /\ rabs s' = [] /\ lenZ (elements s') = lenZ (elements s).
Proof.
  intros s Hi. unfold Clear. destruct (Slices_ok s Hi) as (s1 & s2 & -> & _ & L1 & L2). cbn [rbind].
  pose proof Hi as (H0 & H1 & H2 & Hc). pose proof (lenZ_nonneg (elements s)).
  destruct (zero_range_spec (elements s) (read_pos s) (lenZ s1) ltac:(lia) ltac:(lia) ltac:(lia)) as [Le1 Pe1].
  destruct (zero_range_spec (zero_range zero (elements s) (read_pos s) (lenZ s1)) 0 (lenZ s2) ltac:(lia) ltac:(lia) ltac:(lia))
    as [Le2 Pe2].
  eexists; split; [reflexivity|].
  assert (Hi' : rinv (mkRing (zero_range zero (zero_range zero (elements s) (read_pos s) (lenZ s1)) 0 (lenZ s2)) 0 0)).
  { unfold ring_inv. cbn [elements read_pos write_pos]. rewrite Le2, Le1. repeat split; try lia.
    intros i Hi1 _ _. change (getZ (zero_range zero (zero_range zero (elements s) (read_pos s) (lenZ s1)) 0 (lenZ s2)) i = zero).
    rewrite Pe2, Pe1 by lia.
    destruct ((0 <=? i) && (i <? 0 + lenZ s2)) eqn:E1; [reflexivity|].
    destruct ((read_pos s <=? i) && (i <? read_pos s + lenZ s1)) eqn:E2; [reflexivity|].
    apply Hc; lia. }
  split; [exact Hi'|]. split; [|cbn [elements]; lia].
  apply lenZ_nil_inv. rewrite rabs_len by exact Hi'. reflexivity.
Qed.

(* ------------------------------------------------------------------------- *)
(** * All histories *)

Definition st_inv (st : ring * ring) : Prop := rinv (fst st) /\ rinv (snd st).
Definition st_abs (st : ring * ring) : list T * list T := (rabs (fst st), rabs (snd st)).

Ltac fin :=
  split; [reflexivity|split; [split; assumption|cbn [fst snd obs_match]; split; [try reflexivity|auto]]].

Lemma ring_step_ok : forall st o, st_inv st ->
  exists st' ob, ring_step zero st o = Ok (st', ob) /\ st_inv st' /\
    fst (fifo_step (st_abs st) o) = st_abs st' /\
    obs_match zero (snd (fifo_step (st_abs st) o)) ob.
Proof.
  intros [a b] o [Ha Hb]. cbn [fst snd] in *. unfold st_abs. cbn [fst snd ring_step fifo_step].
  destruct o as [x| | |pos|n| | | | | ].
  - destruct (PushBack_ok a x Ha) as (a' & -> & Ha' & Habs & _). cbn [rbind].
    exists (a', b), RUnit. cbn [fst snd]. rewrite Habs. fin.
  - destruct (PopFront_ok a Ha) as [P1 P2].
    destruct (Z.eq_dec (write_pos a) (read_pos a)) as [Hw|Hw].
    + destruct (P1 Hw) as [-> Hnil]. exists (a, b), (RMisuse PEmpty). cbn [misuse fst snd]. rewrite Hnil. fin.
    + destruct (P2 Hw) as (a' & x & -> & Ha' & Hcons & _). exists (a', b), (RVal x). cbn [fst snd]. rewrite Hcons. fin.
  - pose proof (Front_ok a Ha) as HF. destruct (rabs a) as [|x q] eqn:E; rewrite HF.
    + exists (a, b), (RMisuse PEmpty). cbn [misuse fst snd]. rewrite E. fin.
    + exists (a, b), (RVal x). cbn [fst snd]. rewrite E. fin.
  - destruct (Index_ok a pos Ha) as (I1 & I2 & I3). pose proof (lenZ_nonneg (rabs a)).
    destruct (pos <? 0) eqn:E.
    + rewrite I1 by lia. exists (a, b), (RMisuse PIndexNeg). cbn [misuse]. fin.
    + rewrite nth_error_getZ by lia. destruct (pos <? lenZ (rabs a)) eqn:E1.
      * rewrite I2 by lia. exists (a, b), (RVal (getZ (rabs a) pos)). fin.
      * destruct (I3 ltac:(lia)) as [-> | ->].
        -- exists (a, b), (RMisuse PIndexRange). cbn [misuse]. fin.
        -- exists (a, b), (RVal zero). fin.
  - destruct (Reserve_ok a n Ha) as (a' & -> & Ha' & Habs & _). cbn [rbind].
    exists (a', b), RUnit. cbn [fst snd]. rewrite Habs. fin.
  - destruct (Clear_ok a Ha) as (a' & -> & Ha' & Habs & _). cbn [rbind].
    exists (a', b), RUnit. cbn [fst snd]. rewrite Habs. fin.
  - exists (b, a), RUnit. fin.
  - exists (a, a), RUnit. fin.
  - exists (a, b), (RLC (Len a) (Cap a)). fin.
    unfold Len, Cap. rewrite rabs_len by auto. destruct Ha as (? & ? & _). lia.
  - destruct (Slices_ok a Ha) as (s1 & s2 & -> & Happ & _). cbn [rbind].
    exists (a, b), (RSl s1 s2). fin.
Qed.

Theorem ring_run_ok : forall ops st, st_inv st ->
  exists st' obs, ring_run zero st ops = Ok (st', obs) /\ st_inv st' /\
    fst (fifo_run (st_abs st) ops) = st_abs st' /\
    Forall2 (obs_match zero) (snd (fifo_run (st_abs st) ops)) obs.
Proof.
  induction ops as [|o ops IH]; intros st Hst; cbn [ring_run fifo_run].
  - exists st, []. cbn. repeat split; auto; apply Hst.
  - destruct (ring_step_ok st o Hst) as (st1 & ob & -> & Hst1 & Habs1 & Hob). cbn [rbind].
    destruct (IH st1 Hst1) as (st2 & obs & -> & Hst2 & Habs2 & Hobs). cbn [rbind].
    exists st2, (ob :: obs). split; [reflexivity|]. split; [exact Hst2|].
    destruct (fifo_step (st_abs st) o) as [q1 fo] eqn:E1. cbn [fst snd] in *. subst q1.
    destruct (fifo_run (st_abs st1) ops) as [q2 fobs] eqn:E2. cbn [fst snd] in *.
    split; [exact Habs2|]. constructor; auto.
Qed.

End RingProofs.



(* ------------------------------------------------------------------------- *)
(** * Statements from the empty slices *)

Theorem ring_refines_fifo : forall (T : Type) (zero : T) (ops : list (rop T)),
  exists st obs,
    ring_run zero (empty_ring T, empty_ring T) ops = Ok (st, obs) /\
    ring_inv zero (fst st) /\ ring_inv zero (snd st) /\
    fst (fifo_run ([], []) ops) = (rabs (fst st), rabs (snd st)) /\
    Forall2 (obs_match zero) (snd (fifo_run ([], []) ops)) obs.
Proof.
  intros T zero ops.
  destruct (ring_run_ok T zero ops (empty_ring T, empty_ring T)) as (st & obs & E & [H1 H2] & Ha & Ho).
  { split; apply rinv_empty. }
  exists st, obs. split; [exact E|split; [exact H1|split; [exact H2|split; [exact Ha|exact Ho]]]].
Qed.

Theorem ring_no_internal_panic : forall (T : Type) (zero : T) (ops : list (rop T)) p,
  ring_run zero (empty_ring T, empty_ring T) ops <> Panic p.
Proof.
  intros T zero ops p H. destruct (ring_refines_fifo T zero ops) as (st & obs & E & _).
  rewrite E in H. discriminate.
Qed.

(** reachable slices never hit the explicit "invariant violated" panics nor a runtime bounds
    panic, and the caller-misuse panics happen exactly when the FIFO is empty / the index is
    negative *)
Theorem ring_ops_safe : forall (T : Type) (zero : T) (s : ring T), ring_inv zero s ->
  (forall x, exists s', PushBack zero s x = Ok s' /\ ring_inv zero s' /\ rabs s' = rabs s ++ [x]) /\
  (forall n, exists s', Reserve zero s n = Ok s' /\ ring_inv zero s' /\ rabs s' = rabs s /\
                        lenZ (elements s') = Z.max n (lenZ (elements s))) /\
  (exists s', Clear zero s = Ok s' /\ ring_inv zero s' /\ rabs s' = [] /\
              lenZ (elements s') = lenZ (elements s)) /\
  (exists s1 s2, Slices s = Ok (s1, s2) /\ s1 ++ s2 = rabs s) /\
  match rabs s with
  | [] => PopFront zero s = Panic PEmpty /\ Front s = Panic PEmpty
  | x :: q => Front s = Ok x /\
              exists s', PopFront zero s = Ok (s', x) /\ ring_inv zero s' /\ rabs s' = q
  end /\
  (forall pos, pos < 0 -> Index s pos = Panic PIndexNeg) /\
  (forall pos x, 0 <= pos -> nth_error (rabs s) (Z.to_nat pos) = Some x -> Index s pos = Ok x) /\
  (forall pos, lenZ (rabs s) <= pos -> Index s pos = Panic PIndexRange \/ Index s pos = Ok zero).
Proof.
  intros T zero s Hi. repeat split.
  - intros x. destruct (PushBack_ok T zero s x Hi) as (s' & E & Hi' & Ha & _). eauto.
  - intros n. apply Reserve_ok; auto.
  - apply Clear_ok; auto.
  - destruct (Slices_ok T zero s Hi) as (s1 & s2 & E & Ha & _). eauto.
  - pose proof (Front_ok T zero s Hi) as HF. destruct (PopFront_ok T zero s Hi) as [P1 P2].
    pose proof (rabs_len T zero s Hi) as HL.
    destruct (rabs s) as [|x q] eqn:E.
    + change (lenZ (@nil T)) with 0 in HL. destruct (P1 ltac:(lia)) as [-> _]. auto.
    + split; [exact HF|]. rewrite lenZ_cons in HL. pose proof (lenZ_nonneg T q).
      destruct (P2 ltac:(lia)) as (s' & y & Ep & Hi' & Hc & _). injection Hc as Hx Hq. subst y.
      exists s'. split; [exact Ep|split; [exact Hi'|symmetry; exact Hq]].
  - intros pos Hp. apply (Index_ok T zero s pos Hi); auto.
  - intros pos x Hp Hn. rewrite (nth_error_getZ T zero) in Hn by lia.
    destruct (pos <? lenZ (rabs s)) eqn:E; [|discriminate]. injection Hn as <-.
    apply (Index_ok T zero s pos Hi). lia.
  - intros pos Hp. apply (Index_ok T zero s pos Hi); auto.
Qed.

(** the bounds check of [IndexRef] is incomplete: an index past the length is not rejected
    when [read_pos + pos] is still inside the buffer *)
Theorem index_bounds_refuted :
  exists (ops : list (rop Z)) st obs,
    ring_run 0 (empty_ring Z, empty_ring Z) ops = Ok (st, obs) /\
    lenZ (rabs (fst st)) = 1 /\ Index (fst st) 1 = Ok 0.
Proof.
  exists [RPush 7]. eexists. eexists. split; [vm_compute; reflexivity|]. split; reflexivity.
Qed.
