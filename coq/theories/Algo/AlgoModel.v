(** M9 (part) -- executable model of /repo/internal/vkgo/pkg/algo/tree_map.go and
    circular_slice.go.  Definitions only (proofs are in AlgoTreeProofs.v / AlgoRingProofs.v).

    The Go code mutates nodes in place; the model is the functional reading of the same
    statements, branch by branch and in the same order.  A Go panic (nil dereference, index out
    of range, explicit [panic]) is a [None] / [Panic] result, never silently absorbed.
    Modelling assumptions (all exercised by the correspondence run): the nodes reachable from
    [root] form a tree (no sharing; the allocator hands out zeroed nodes that are not in the
    tree); [int32]/[int] arithmetic does not wrap (heights are < 2^31, positions < 2^62);
    keys are integers compared with [<] (the Go code is generic in a comparator). *)
From Coq Require Import ZArith List Bool.
From TLV Require Export Gen.AlgoConsts.
Import ListNotations.
Open Scope Z_scope.
Set Implicit Arguments.
Set Maximal Implicit Insertion.

(* ------------------------------------------------------------------------- *)
(** * AVL tree map *)

Section Tree.
Variable V : Type.

(** [TreeNode[Entry[K,V]]]: left, value.K, value.V, cached height, right; [Leaf] = nil *)
Inductive tree : Type :=
| Leaf
| Node (l : tree) (k : Z) (v : V) (h : Z) (r : tree).

(** [getHeight] *)
Definition getHeight (t : tree) : Z :=
  match t with Leaf => 0 | Node _ _ _ h _ => h end.

(** [calcBalance] *)
Definition calcBalance (t : tree) : Z :=
  match t with Leaf => 0 | Node l _ _ _ r => getHeight r - getHeight l end.

(** a node with these fields right after [updateHeight] *)
Definition mkNode (l : tree) (k : Z) (v : V) (r : tree) : tree :=
  Node l k v (1 + Z.max (getHeight l) (getHeight r)) r.

(** [rotateRight]: [l := n.left; n.left = l.right; l.right = n; n.updateHeight(); l.updateHeight()] *)
Definition rotateRight (n : tree) : option tree :=
  match n with
  | Leaf => None
  | Node l k v _ r =>
    match l with
    | Leaf => None
    | Node ll lk lv _ lr => Some (mkNode ll lk lv (mkNode lr k v r))
    end
  end.

(** [rotateLeft] *)
Definition rotateLeft (n : tree) : option tree :=
  match n with
  | Leaf => None
  | Node l k v _ r =>
    match r with
    | Leaf => None
    | Node rl rk rv _ rr => Some (mkNode (mkNode l k v rl) rk rv rr)
    end
  end.

(** [bigRotateRight]: [n.left = n.left.rotateLeft(); return n.rotateRight()] *)
Definition bigRotateRight (n : tree) : option tree :=
  match n with
  | Leaf => None
  | Node l k v h r =>
    match rotateLeft l with
    | None => None
    | Some l' => rotateRight (Node l' k v h r)
    end
  end.

(** [bigRotateLeft] *)
Definition bigRotateLeft (n : tree) : option tree :=
  match n with
  | Leaf => None
  | Node l k v h r =>
    match rotateRight r with
    | None => None
    | Some r' => rotateLeft (Node l k v h r')
    end
  end.

(** [repairBalance] *)
Definition repairBalance (n : tree) : option tree :=
  match n with
  | Leaf => None
  | Node l k v _ r =>
    let n1 := mkNode l k v r in
    if calcBalance n1 =? 2 then
      if calcBalance r =? -1 then bigRotateLeft n1 else rotateLeft n1
    else if calcBalance n1 =? -2 then
      if calcBalance l =? 1 then bigRotateRight n1 else rotateRight n1
    else Some n1
  end.

(** [insert]; [h0] is the cached height given to a new node ([n.height = 0] in the Go code) *)
Fixpoint insert (h0 : Z) (n : tree) (k : Z) (v : V) : option tree :=
  match n with
  | Leaf => Some (Node Leaf k v h0 Leaf)
  | Node l nk nv h r =>
    if nk <? k then
      match insert h0 r k v with
      | None => None
      | Some r' => repairBalance (Node l nk nv h r')
      end
    else if k <? nk then
      match insert h0 l k v with
      | None => None
      | Some l' => repairBalance (Node l' nk nv h r)
      end
    else repairBalance (Node l k v h r)
  end.

(** [extractMin]: ([None] also models the explicit panic on nil) *)
Fixpoint extractMin (n : tree) : option (Z * V * tree) :=
  match n with
  | Leaf => None
  | Node l k v h r =>
    match l with
    | Leaf => Some (k, v, r)
    | Node _ _ _ _ _ =>
      match extractMin l with
      | None => None
      | Some (m, l') =>
        match repairBalance (Node l' k v h r) with
        | None => None
        | Some n' => Some (m, n')
        end
      end
    end
  end.

(** [remove] *)
Fixpoint remove (n : tree) (k : Z) : option tree :=
  match n with
  | Leaf => Some Leaf
  | Node l nk nv h r =>
    if nk <? k then
      match remove r k with
      | None => None
      | Some r' => repairBalance (Node l nk nv h r')
      end
    else if k <? nk then
      match remove l k with
      | None => None
      | Some l' => repairBalance (Node l' nk nv h r)
      end
    else
      match l with
      | Leaf => Some r
      | Node _ _ _ _ _ =>
        match r with
        | Leaf => Some l
        | Node _ _ _ _ _ =>
          match extractMin r with
          | None => None
          | Some (mk, mv, r') => repairBalance (Node l mk mv h r')
          end
        end
      end
  end.

(** [findMin] / [findMax] ([None] = the explicit panic on nil) *)
Fixpoint findMin (n : tree) : option (Z * V) :=
  match n with
  | Leaf => None
  | Node l k v _ _ => match l with Leaf => Some (k, v) | Node _ _ _ _ _ => findMin l end
  end.

Fixpoint findMax (n : tree) : option (Z * V) :=
  match n with
  | Leaf => None
  | Node _ k v _ r => match r with Leaf => Some (k, v) | Node _ _ _ _ _ => findMax r end
  end.

(** [find] (the loop), returning the value of the node found *)
Fixpoint find (n : tree) (k : Z) : option V :=
  match n with
  | Leaf => None
  | Node l nk nv _ r =>
    if nk <? k then find r k else if k <? nk then find l k else Some nv
  end.

(** [*t.GetPtr(k) = v]: assignment through the pointer returned by [GetPtr] *)
Fixpoint assign (n : tree) (k : Z) (v : V) : tree :=
  match n with
  | Leaf => Leaf
  | Node l nk nv h r =>
    if nk <? k then Node l nk nv h (assign r k v)
    else if k <? nk then Node (assign l k v) nk nv h r
    else Node l nk v h r
  end.

(** ** The exported [TreeMap] methods as a state machine *)

Inductive top : Type :=
| TSet (k : Z) (v : V)      (* Set *)
| TDel (k : Z)              (* Delete *)
| TUpd (k : Z) (v : V)      (* p := GetPtr(k); if p != nil { *p = v } *)
| TGet (k : Z)              (* Get *)
| TFront | TBack            (* Front / Back *)
| TEmpty | TMore1.          (* Empty / LenMoreThan1 *)

Inductive tobs : Type :=
| OUnit
| OBool (b : bool)
| OVal (o : option V)
| OEntry (o : option (Z * V)).    (* [None]: the documented panic "called Front() on empty TreeMap" *)

(** [None] = the operation panics inside the tree code (nil dereference or an
    "invariant violated" panic) *)
Definition tree_step (h0 : Z) (t : tree) (o : top) : option (tree * tobs) :=
  match o with
  | TSet k v => match insert h0 t k v with Some t' => Some (t', OUnit) | None => None end
  | TDel k => match remove t k with Some t' => Some (t', OUnit) | None => None end
  | TUpd k v =>
    match find t k with
    | Some _ => Some (assign t k v, OBool true)
    | None => Some (t, OBool false)
    end
  | TGet k => Some (t, OVal (find t k))
  | TFront =>
    match t with
    | Leaf => Some (t, OEntry None)
    | Node _ _ _ _ _ => match findMin t with Some e => Some (t, OEntry (Some e)) | None => None end
    end
  | TBack =>
    match t with
    | Leaf => Some (t, OEntry None)
    | Node _ _ _ _ _ => match findMax t with Some e => Some (t, OEntry (Some e)) | None => None end
    end
  | TEmpty => Some (t, OBool match t with Leaf => true | _ => false end)
  | TMore1 =>
    Some (t, OBool match t with
                   | Leaf => false
                   | Node l _ _ _ r =>
                     match l, r with Leaf, Leaf => false | _, _ => true end
                   end)
  end.

Fixpoint tree_run (h0 : Z) (t : tree) (ops : list top) : option (tree * list tobs) :=
  match ops with
  | [] => Some (t, [])
  | o :: rest =>
    match tree_step h0 t o with
    | None => None
    | Some (t', ob) =>
      match tree_run h0 t' rest with
      | None => None
      | Some (t'', obs) => Some (t'', ob :: obs)
      end
    end
  end.

(** ** Specification side: sorted association lists *)

(** in-order contents *)
Fixpoint abs (t : tree) : list (Z * V) :=
  match t with
  | Leaf => []
  | Node l k v _ r => abs l ++ (k, v) :: abs r
  end.

Fixpoint al_find (m : list (Z * V)) (k : Z) : option V :=
  match m with
  | [] => None
  | (k', v') :: m' => if k' =? k then Some v' else al_find m' k
  end.

(** insert-or-replace keeping the list sorted *)
Fixpoint al_set (m : list (Z * V)) (k : Z) (v : V) : list (Z * V) :=
  match m with
  | [] => [(k, v)]
  | (k', v') :: m' =>
    if k <? k' then (k, v) :: m
    else if k =? k' then (k, v) :: m'
    else (k', v') :: al_set m' k v
  end.

Fixpoint al_del (m : list (Z * V)) (k : Z) : list (Z * V) :=
  match m with
  | [] => []
  | (k', v') :: m' => if k' =? k then m' else (k', v') :: al_del m' k
  end.

Fixpoint al_last (m : list (Z * V)) : option (Z * V) :=
  match m with
  | [] => None
  | e :: m' => match m' with [] => Some e | _ :: _ => al_last m' end
  end.

Definition ref_step (m : list (Z * V)) (o : top) : list (Z * V) * tobs :=
  match o with
  | TSet k v => (al_set m k v, OUnit)
  | TDel k => (al_del m k, OUnit)
  | TUpd k v =>
    match al_find m k with
    | Some _ => (al_set m k v, OBool true)
    | None => (m, OBool false)
    end
  | TGet k => (m, OVal (al_find m k))
  | TFront => (m, OEntry (hd_error m))
  | TBack => (m, OEntry (al_last m))
  | TEmpty => (m, OBool match m with [] => true | _ => false end)
  | TMore1 => (m, OBool (1 <? Z.of_nat (length m)))
  end.

Fixpoint ref_run (m : list (Z * V)) (ops : list top) : list (Z * V) * list tobs :=
  match ops with
  | [] => (m, [])
  | o :: rest =>
    let '(m', ob) := ref_step m o in
    let '(m'', obs) := ref_run m' rest in
    (m'', ob :: obs)
  end.

(** true height, number of nodes *)
Fixpoint theight (t : tree) : Z :=
  match t with
  | Leaf => 0
  | Node l _ _ _ r => 1 + Z.max (theight l) (theight r)
  end.

Fixpoint size (t : tree) : Z :=
  match t with
  | Leaf => 0
  | Node l _ _ _ r => 1 + size l + size r
  end.

(** keys strictly increasing (the BST order of the in-order contents) *)
Fixpoint sorted (m : list (Z * V)) : Prop :=
  match m with
  | [] => True
  | e :: m' => Forall (fun e' => fst e < fst e') m' /\ sorted m'
  end.

(** at every node the *true* heights of the children differ by at most [b]
    ([b = 1]: the AVL shape) *)
Fixpoint true_balance_le (b : Z) (t : tree) : Prop :=
  match t with
  | Leaf => True
  | Node l _ _ _ r =>
    Z.abs (theight r - theight l) <= b /\ true_balance_le b l /\ true_balance_le b r
  end.

(** every cached height is the true height *)
Fixpoint heights_exact (t : tree) : Prop :=
  match t with
  | Leaf => True
  | Node l _ _ h r => h = theight t /\ heights_exact l /\ heights_exact r
  end.

(** The balance invariant the code does maintain, stated on the *cached* heights: children's
    cached heights differ by at most 1, and a cached height is [1 + max] of the children's --
    except that a node without children may still carry the height [h0] it was created with. *)
Fixpoint avl_cached (h0 : Z) (t : tree) : Prop :=
  match t with
  | Leaf => True
  | Node l _ _ h r =>
    avl_cached h0 l /\ avl_cached h0 r /\
    (h = 1 + Z.max (getHeight l) (getHeight r) \/ (l = Leaf /\ r = Leaf /\ h = h0)) /\
    -1 <= getHeight r - getHeight l <= 1
  end.

(** states reachable from the empty map by the exported operations *)
Definition reachable (h0 : Z) (t : tree) : Prop :=
  exists ops obs, tree_run h0 Leaf ops = Some (t, obs).

End Tree.

Arguments Leaf {V}.
Arguments Node {V}.
Arguments OUnit {V}.
Arguments OBool {V}.
Arguments OVal {V}.
Arguments OEntry {V}.
Arguments TDel {V}.
Arguments TGet {V}.
Arguments TFront {V}.
Arguments TBack {V}.
Arguments TEmpty {V}.
Arguments TMore1 {V}.

(** the height the Go code gives to a new node: the literal of [n.height = ...] in [insert],
    regenerated from tree_map.go on every run (Gen/AlgoConsts.v; 0 in the current code) *)
Definition go_new_height : Z := Z.of_N algo_new_node_height.

(* ------------------------------------------------------------------------- *)
(** * Circular slice *)

Inductive panic : Type :=
| PEmpty          (* "empty circular slice"                            (caller misuse) *)
| PIndexNeg       (* "circular slice index < 0"                        (caller misuse) *)
| PIndexRange     (* "circular slice index out of range"               (caller misuse) *)
| PInvReserve     (* "circular slice invariant violated in Reserve"    (internal) *)
| PInvPush        (* "circular slice invariant violated in PushBack"   (internal) *)
| PRuntime.       (* Go runtime: index / slice bounds out of range     (internal) *)

Inductive res (A : Type) : Type :=
| Ok (a : A)
| Panic (p : panic).
Arguments Ok {A}.
Arguments Panic {A}.

Definition rbind {A B} (x : res A) (f : A -> res B) : res B :=
  match x with Ok a => f a | Panic p => Panic p end.

Definition lenZ {A} (l : list A) : Z := Z.of_nat (length l).

Section Ring.
Variable T : Type.
Variable zero : T.     (* Go's zero value of the element type *)

(** [CircularSlice[T]]; [len(elements)] is the capacity *)
Record ring : Type := mkRing { elements : list T; read_pos : Z; write_pos : Z }.

Definition empty_ring : ring := mkRing [] 0 0.

(** the slice expression [l[a:b]] (bounds checked against [len]; [make] gives cap = len) *)
Definition slice (l : list T) (a b : Z) : res (list T) :=
  if (0 <=? a) && (a <=? b) && (b <=? lenZ l)
  then Ok (firstn (Z.to_nat (b - a)) (skipn (Z.to_nat a) l))
  else Panic PRuntime.

(** [l[i]] *)
Definition get_at (l : list T) (i : Z) : res T :=
  if (0 <=? i) && (i <? lenZ l)
  then match nth_error l (Z.to_nat i) with Some x => Ok x | None => Panic PRuntime end
  else Panic PRuntime.

(** [l[i] = x] *)
Definition set_at (l : list T) (i : Z) (x : T) : res (list T) :=
  if (0 <=? i) && (i <? lenZ l)
  then Ok (firstn (Z.to_nat i) l ++ x :: skipn (Z.to_nat (i + 1)) l)
  else Panic PRuntime.

(** [copy(dst[off:], src)]: new contents of dst and the number of elements copied
    (callers keep [0 <= off <= len dst]) *)
Definition copy_at (dst : list T) (off : Z) (src : list T) : list T * Z :=
  let c := Z.min (lenZ dst - off) (lenZ src) in
  (firstn (Z.to_nat off) dst ++ firstn (Z.to_nat c) src ++ skipn (Z.to_nat (off + c)) dst, c).

(** [for i := range l[a:a+n] { l[a+i] = empty }] *)
Definition zero_range (l : list T) (a n : Z) : list T :=
  firstn (Z.to_nat a) l ++ repeat zero (Z.to_nat n) ++ skipn (Z.to_nat (a + n)) l.

Definition Len (s : ring) : Z := write_pos s - read_pos s.
Definition Cap (s : ring) : Z := lenZ (elements s).

(** [Slices] *)
Definition Slices (s : ring) : res (list T * list T) :=
  let capacity := lenZ (elements s) in
  if write_pos s <=? capacity then
    rbind (slice (elements s) (read_pos s) (write_pos s)) (fun s1 => Ok (s1, []))
  else
    rbind (slice (elements s) (read_pos s) capacity) (fun s1 =>
    rbind (slice (elements s) 0 (write_pos s - capacity)) (fun s2 => Ok (s1, s2))).

(** [Reserve] *)
Definition Reserve (s : ring) (newCapacity : Z) : res ring :=
  if newCapacity <=? lenZ (elements s) then Ok s
  else
    rbind (Slices s) (fun '(s1, s2) =>
    let e0 := repeat zero (Z.to_nat newCapacity) in
    let '(e1, off1) := copy_at e0 0 s1 in
    let '(e2, c2) := copy_at e1 off1 s2 in
    let off := off1 + c2 in
    if off =? lenZ s1 + lenZ s2 then Ok (mkRing e2 0 off) else Panic PInvReserve).

(** [PushBack] *)
Definition PushBack (s : ring) (x : T) : res ring :=
  let capacity := lenZ (elements s) in
  if write_pos s - read_pos s >? capacity then Panic PInvPush
  else
    rbind (if write_pos s - read_pos s =? capacity
           then Reserve s ((if capacity <? 4 then 4 else capacity) * 2)
           else Ok s) (fun s' =>
    let capacity := lenZ (elements s') in
    rbind (if write_pos s' <? capacity
           then set_at (elements s') (write_pos s') x
           else set_at (elements s') (write_pos s' - capacity) x) (fun e' =>
    Ok (mkRing e' (read_pos s') (write_pos s' + 1)))).

(** [Front] *)
Definition Front (s : ring) : res T :=
  if write_pos s =? read_pos s then Panic PEmpty else get_at (elements s) (read_pos s).

(** [Index] / [IndexRef] *)
Definition Index (s : ring) (pos : Z) : res T :=
  if pos <? 0 then Panic PIndexNeg
  else
    let size := lenZ (elements s) in
    let offset := read_pos s + pos in
    if offset <? size then get_at (elements s) offset
    else if offset >=? write_pos s then Panic PIndexRange
    else get_at (elements s) (offset - size).

(** [PopFront] *)
Definition PopFront (s : ring) : res (ring * T) :=
  if write_pos s =? read_pos s then Panic PEmpty
  else
    rbind (get_at (elements s) (read_pos s)) (fun element =>
    rbind (set_at (elements s) (read_pos s) zero) (fun e' =>
    let r1 := read_pos s + 1 in
    let capacity := lenZ e' in
    let '(r2, w2) := if r1 >=? capacity then (r1 - capacity, write_pos s - capacity) else (r1, write_pos s) in
    let '(r3, w3) := if r2 =? w2 then (0, 0) else (r2, w2) in
    Ok (mkRing e' r3 w3, element))).

(** [Clear] *)
Definition Clear (s : ring) : res ring :=
  rbind (Slices s) (fun '(s1, s2) =>
  let e1 := zero_range (elements s) (read_pos s) (lenZ s1) in
  let e2 := zero_range e1 0 (lenZ s2) in
  Ok (mkRing e2 0 0)).

(** ** State machine over two slices A and B (operations act on A) *)

Inductive rop : Type :=
| RPush (x : T) | RPop | RFront | RIndex (pos : Z) | RReserve (n : Z) | RClear
| RSwap            (* A.Swap(&B) *)
| RAssign          (* B.DeepAssign(A) *)
| RLenCap | RSlices.

Inductive robs : Type :=
| RUnit
| RVal (x : T)
| RMisuse (p : panic)          (* documented caller-misuse panic; state unchanged *)
| RLC (len cap : Z)
| RSl (s1 s2 : list T).

Definition misuse (p : panic) : bool :=
  match p with PEmpty | PIndexNeg | PIndexRange => true | _ => false end.

(** [Panic] here = internal panic only *)
Definition ring_step (st : ring * ring) (o : rop) : res ((ring * ring) * robs) :=
  let '(a, b) := st in
  match o with
  | RPush x => rbind (PushBack a x) (fun a' => Ok ((a', b), RUnit))
  | RPop =>
    match PopFront a with
    | Ok (a', x) => Ok ((a', b), RVal x)
    | Panic p => if misuse p then Ok (st, RMisuse p) else Panic p
    end
  | RFront =>
    match Front a with
    | Ok x => Ok (st, RVal x)
    | Panic p => if misuse p then Ok (st, RMisuse p) else Panic p
    end
  | RIndex pos =>
    match Index a pos with
    | Ok x => Ok (st, RVal x)
    | Panic p => if misuse p then Ok (st, RMisuse p) else Panic p
    end
  | RReserve n => rbind (Reserve a n) (fun a' => Ok ((a', b), RUnit))
  | RClear => rbind (Clear a) (fun a' => Ok ((a', b), RUnit))
  | RSwap => Ok ((b, a), RUnit)
  | RAssign => Ok ((a, a), RUnit)
  | RLenCap => Ok (st, RLC (Len a) (Cap a))
  | RSlices => rbind (Slices a) (fun '(s1, s2) => Ok (st, RSl s1 s2))
  end.

Fixpoint ring_run (st : ring * ring) (ops : list rop) : res ((ring * ring) * list robs) :=
  match ops with
  | [] => Ok (st, [])
  | o :: rest =>
    rbind (ring_step st o) (fun '(st', ob) =>
    rbind (ring_run st' rest) (fun '(st'', obs) => Ok (st'', ob :: obs)))
  end.

(** ** Specification side: FIFO lists *)

(** contents, oldest first *)
Definition rabs (s : ring) : list T :=
  firstn (Z.to_nat (write_pos s - read_pos s)) (skipn (Z.to_nat (read_pos s)) (elements s ++ elements s)).

(** What the reference FIFO says about one operation on (qa, qb).  [Index] outside
    [0, len) is outside the contract of a FIFO; the reference says [FOob] and the
    theorem states what the code does then. *)
Inductive refobs : Type :=
| FUnit
| FVal (x : T)
| FEmpty          (* Front/PopFront on an empty queue *)
| FNeg            (* negative index *)
| FOob            (* index >= length *)
| FLen (n : Z)
| FAll (l : list T).

Definition fifo_step (q : list T * list T) (o : rop) : (list T * list T) * refobs :=
  let '(qa, qb) := q in
  match o with
  | RPush x => ((qa ++ [x], qb), FUnit)
  | RPop => match qa with [] => (q, FEmpty) | x :: qa' => ((qa', qb), FVal x) end
  | RFront => match qa with [] => (q, FEmpty) | x :: _ => (q, FVal x) end
  | RIndex pos =>
    if pos <? 0 then (q, FNeg)
    else match nth_error qa (Z.to_nat pos) with Some x => (q, FVal x) | None => (q, FOob) end
  | RReserve _ => (q, FUnit)
  | RClear => (([], qb), FUnit)
  | RSwap => ((qb, qa), FUnit)
  | RAssign => ((qa, qa), FUnit)
  | RLenCap => (q, FLen (lenZ qa))
  | RSlices => (q, FAll qa)
  end.

Fixpoint fifo_run (q : list T * list T) (ops : list rop) : (list T * list T) * list refobs :=
  match ops with
  | [] => (q, [])
  | o :: rest =>
    let '(q', ob) := fifo_step q o in
    let '(q'', obs) := fifo_run q' rest in
    (q'', ob :: obs)
  end.

(** ** Invariant and observation matching *)

(** positions are in range ([read_pos] inside the buffer, at most [cap] elements) and every
    slot outside the window [read_pos, write_pos) (taken modulo the capacity) holds the zero
    value (PopFront / Clear / Reserve leave no stale elements behind) *)
Definition ring_inv (s : ring) : Prop :=
  let cap := lenZ (elements s) in
  0 <= read_pos s /\ read_pos s <= write_pos s <= read_pos s + cap /\
  (read_pos s < cap \/ read_pos s = 0) /\
  forall i, 0 <= i < cap -> ~ (read_pos s <= i < write_pos s) -> ~ (i + cap < write_pos s) ->
            nth (Z.to_nat i) (elements s) zero = zero.

(** reference observation vs observation of the code *)
Definition obs_match (f : refobs) (o : robs) : Prop :=
  match f, o with
  | FUnit, RUnit => True
  | FVal x, RVal y => x = y
  | FEmpty, RMisuse PEmpty => True
  | FNeg, RMisuse PIndexNeg => True
  | FOob, RMisuse PIndexRange => True
  | FOob, RVal y => y = zero            (* the bounds check misses [len <= pos < cap - read_pos] *)
  | FLen n, RLC l c => l = n /\ n <= c
  | FAll q, RSl s1 s2 => s1 ++ s2 = q
  | _, _ => False
  end.

End Ring.

Arguments RPop {T}.
Arguments RFront {T}.
Arguments RIndex {T}.
Arguments RReserve {T}.
Arguments RClear {T}.
Arguments RSwap {T}.
Arguments RAssign {T}.
Arguments RLenCap {T}.
Arguments RSlices {T}.
Arguments RUnit {T}.
Arguments RMisuse {T}.
Arguments RLC {T}.
Arguments FUnit {T}.
Arguments FEmpty {T}.
Arguments FNeg {T}.
Arguments FOob {T}.
Arguments FLen {T}.
