(** Proofs about [Json], part 5 (C06): every spelling the generator [jsonw_alt] produces -- all combinations of the
    documented alternative forms -- is read back as the value, i.e. exactly like the canonical spelling. *)
From Coq Require Import ZArith Lia ZifyN ZifyNat ZifyBool Permutation.
From TLV Require Import Prim.PrimModel Tl1.Tl1Model Tl1.Tl1Proofs
  Jprim.JprimModel Jprim.JprimUtf8 Jprim.JprimEsc Jprim.JprimStr Jprim.JprimProofs
  Json.JsonModel Json.JsonAltModel Json.JsonText Json.JsonProofs Json.JsonRoundtrip Json.JsonAltProofs.
Ltac Zify.zify_post_hook ::= Z.div_mod_to_equations.
Open Scope N_scope.

(** ** a struct body read from ANY member list that spells the fields of a value *)
Section SpecCtx.
  Variable js : jschema.
  Variables (ps : list N) (fs : list (option value)) (fds : list field) (fis : list jfinfo) (ms : list (json * json)).
  Variables (recr : nat -> list N -> option json -> jres value) (rst : nat -> list N -> jres value) (tl2 : bool).

  Hypothesis Hlen1 : length fds = length fs.
  Hypothesis Hlen2 : length fis = length fs.
  Hypothesis Hmem : members (map jf_name fis) (Some (JObj ms)) = JOk ms.
  Hypothesis Hcons : forall i fd ov, nth_error fds i = Some fd -> nth_error fs i = Some ov -> is_some ov = field_present ps fs fd.
  Hypothesis Hfok : fields_ok 0 fds = true.

  (** the [set] flag the reader computes for field [i] *)
  Definition sflag (i : nat) : bool :=
    match nth_error fis i with
    | Some fi =>
        if jf_bit fi then match jfind (jf_name fi) ms with Some (JBool true) => true | _ => false end
        else is_some (jfind (jf_name fi) ms)
    | None => false
    end.
  Definition ssets : list bool := map sflag (seq 0 (length fis)).
  Definition sadds : list (nat * N) := all_adds fds ssets.

  (** what the member of field [i] must be for the field to be read as [ov] *)
  Definition field_spec (i : nat) (fd : field) (fi : jfinfo) (ov : option value) : Prop :=
    let w := jfind (jf_name fi) ms in
    let add := add_bits_of i sadds in
    let args := eval_args ps fs (f_args fd) in
    match ov with
    | None => w = None
    | Some v =>
        if jf_bit fi then w = Some (JBool true) /\ v = VStruct []
        else match w with
             | Some j => exists v0, recr (f_ty fd) args (Some j) = JOk v0 /\ or_nat v0 add = v
             | None =>
                 match f_args fd with
                 | [] => exists v0, rst (f_ty fd) [] = JOk v0 /\ or_nat v0 add = v
                 | _ => recr (f_ty fd) args None = JOk v /\ rst (f_ty fd) args = JOk v
                 end
             end
    end.

  Hypothesis Hspec : forall i fd fi ov, nth_error fds i = Some fd -> nth_error fis i = Some fi -> nth_error fs i = Some ov ->
    field_spec i fd fi ov.
  Hypothesis Hbitty : forall i fd fi, nth_error fds i = Some fd -> nth_error fis i = Some fi ->
    jf_bit fi = true -> is_true_type js (f_ty fd) = true.
  Hypothesis Hnat : forall t a, is_nat_type js t = true -> rst t a = JOk (VNum 0) /\ recr t a None = JOk (VNum 0).

  Lemma ssets_nth i : nth i ssets false = sflag i.
  Proof.
    unfold ssets. destruct (Nat.ltb i (length fis)) eqn:E.
    - apply Nat.ltb_lt in E. rewrite (nth_indep _ false (sflag 0%nat)) by (rewrite map_length, seq_length; exact E).
      rewrite map_nth. now rewrite seq_nth.
    - apply Nat.ltb_ge in E. rewrite nth_overflow by (rewrite map_length, seq_length; exact E).
      unfold sflag. replace (nth_error fis i) with (@None jfinfo); [reflexivity|]. symmetry. now apply nth_error_None.
  Qed.

  Lemma pos_lookup i : (i < length fs)%nat -> exists fd fi ov,
    nth_error fds i = Some fd /\ nth_error fis i = Some fi /\ nth_error fs i = Some ov.
  Proof.
    intros H.
    destruct (nth_error fds i) as [fd|] eqn:E1; [|apply nth_error_None in E1; lia].
    destruct (nth_error fis i) as [fi|] eqn:E2; [|apply nth_error_None in E2; lia].
    destruct (nth_error fs i) as [ov|] eqn:E3; [|apply nth_error_None in E3; lia].
    now exists fd, fi, ov.
  Qed.

  Lemma sflag_present i : sflag i = true -> present fs i.
  Proof.
    intros H. unfold sflag in H. destruct (nth_error fis i) as [fi|] eqn:Efi; [|discriminate].
    assert (Hi : (i < length fs)%nat) by (rewrite <- Hlen2; apply nth_error_Some; congruence).
    destruct (pos_lookup i Hi) as (fd & fi' & ov & E1 & E2 & E3). rewrite Efi in E2. injection E2 as <-.
    pose proof (Hspec i fd fi ov E1 Efi E3) as Sp. unfold field_spec in Sp.
    destruct ov as [v|]; [exists v; exact E3|]. rewrite Sp in H. destruct (jf_bit fi); discriminate.
  Qed.

  Lemma ssets_present i : nth i ssets false = true -> present fs i.
  Proof. rewrite ssets_nth. apply sflag_present. Qed.

  Lemma spec_set_flags_suffix : forall fis' k, length fis = (k + length fis')%nat ->
    (forall i fi, nth_error fis' i = Some fi -> nth_error fis (k + i) = Some fi) ->
    set_flags fis' ms = JOk (map sflag (seq k (length fis'))).
  Proof.
    induction fis' as [|fi fis' IH]; intros k Hlen Hnth; cbn [set_flags length seq map]; [reflexivity|].
    pose proof (Hnth 0%nat fi eq_refl) as Hk. rewrite Nat.add_0_r in Hk.
    assert (Hkl : (k < length fs)%nat) by (cbn [length] in Hlen; lia).
    destruct (pos_lookup k Hkl) as (fd & fi' & ov & E1 & E2 & E3). rewrite Hk in E2. injection E2 as <-.
    pose proof (Hspec k fd fi ov E1 Hk E3) as Sp. unfold field_spec in Sp.
    assert (Hflag : (if jf_bit fi then bit_member (jf_name fi) ms else JOk (is_some (jfind (jf_name fi) ms))) = JOk (sflag k)).
    { unfold sflag. rewrite Hk. destruct (jf_bit fi) eqn:Eb; [|reflexivity]. unfold bit_member.
      destruct ov as [v|]; [destruct Sp as [-> _]|rewrite Sp]; reflexivity. }
    rewrite Hflag. cbn [jbind]. rewrite (IH (S k)).
    - reflexivity.
    - cbn [length] in Hlen. lia.
    - intros i fi' Hi. replace (S k + i)%nat with (k + S i)%nat by lia. now apply Hnth.
  Qed.

  Lemma spec_set_flags : set_flags fis ms = JOk ssets.
  Proof. apply (spec_set_flags_suffix fis 0); [reflexivity|intros; assumption]. Qed.

  Lemma spec_chain_ends : chain_ends_ok fds ssets ps = true.
  Proof. apply (chain_ends_ok_true ps fs fds Hcons ssets ssets_present). Qed.

  Lemma spec_adds_zero i : nth_error fs i = Some None -> add_bits_of i sadds = 0.
  Proof. intros H. apply (adds_zero ps fs fds Hcons ssets ssets_present). unfold field_nat. now rewrite H. Qed.

  Lemma spec_field_rt acc ov vs' fd fi :
    fs = acc ++ ov :: vs' ->
    nth_error fds (length acc) = Some fd -> nth_error fis (length acc) = Some fi ->
    field_ok (length acc) fd = true ->
    jr_field js recr rst tl2 ps fds fis ms ssets sadds fd fi (length acc) acc = JOk ov.
  Proof.
    intros Hfs Hfd Hfi Hok.
    assert (Hov : nth_error fs (length acc) = Some ov).
    { rewrite Hfs, nth_error_app2 by lia. now rewrite Nat.sub_diag. }
    assert (Hpres : field_present ps acc fd = field_present ps fs fd).
    { rewrite Hfs. symmetry. now apply field_present_prefix. }
    assert (Hargs : eval_args ps acc (f_args fd) = eval_args ps fs (f_args fd)).
    { rewrite Hfs. symmetry. apply eval_args_prefix. unfold field_ok in Hok. now apply andb_true_iff in Hok as [_ ?]. }
    clear Hok. remember (length acc) as idx eqn:Hidx. clear Hidx Hfs.
    pose proof (Hspec idx fd fi ov Hfd Hfi Hov) as Sp. unfold field_spec in Sp.
    pose proof (Hcons idx fd ov Hfd Hov) as Hc.
    unfold jr_field. rewrite Hpres, Hargs, ssets_nth.
    destruct ov as [v|]; cbn [is_some] in Hc; rewrite <- Hc.
    - (* present *)
      cbn [negb andb]. rewrite !andb_false_r. cbn [andb].
      destruct (jf_bit fi) eqn:Eb.
      + destruct Sp as [Sw ->]. rewrite Sw. unfold sflag. rewrite Hfi, Eb, Sw. cbn [negb andb is_some].
        rewrite !andb_false_r. reflexivity.
      + destruct (jfind (jf_name fi) ms) as [j|] eqn:Ew.
        * destruct Sp as (v0 & S1 & S2). rewrite S1. cbn [jbind]. now rewrite S2.
        * destruct (f_args fd) as [|a0 args0] eqn:Ea.
          -- destruct Sp as (v0 & S1 & S2). rewrite S1. cbn [jbind]. now rewrite S2.
          -- rewrite <- Ea in *. destruct Sp as [S1 S2]. rewrite S1, S2.
             destruct (if is_some (f_mask fd) then if tl2 then mask_bit_before fis ms ps fd else true else true); reflexivity.
    - (* absent *)
      cbn [negb andb].
      assert (Hm : is_some (f_mask fd) = true).
      { unfold field_present in Hc. destruct (f_mask fd); [reflexivity|discriminate]. }
      rewrite Hm, Sp. cbn [andb is_some negb].
      destruct (jf_bit fi) eqn:Eb.
      + cbn [negb andb]. rewrite !andb_false_r. cbn [jbind].
        now rewrite (true_not_nat js _ (Hbitty idx fd fi Hfd Hfi Eb)).
      + cbn [negb andb].
        destruct (is_nat_type js (f_ty fd)) eqn:En; cbn [negb andb]; [|reflexivity].
        destruct (Hnat (f_ty fd) [] En) as [N1 _]. destruct (Hnat (f_ty fd) (eval_args ps fs (f_args fd)) En) as [N2 N3].
        rewrite (spec_adds_zero idx Hov).
        destruct (f_args fd) as [|a0 args0] eqn:Ea.
        * rewrite N1. cbn [jbind or_nat N.lor]. rewrite andb_false_r. reflexivity.
        * rewrite <- Ea in *. rewrite N2, N3.
          destruct (if tl2 then mask_bit_before fis ms ps fd else false); cbn [jbind]; rewrite andb_false_r; reflexivity.
  Qed.

  Lemma spec_fields_rt : forall vs' acc fds' fis',
    fs = acc ++ vs' ->
    (forall i fd, nth_error fds' i = Some fd -> nth_error fds (length acc + i) = Some fd) ->
    (forall i fi, nth_error fis' i = Some fi -> nth_error fis (length acc + i) = Some fi) ->
    length fds' = length vs' -> length fis' = length vs' ->
    fields_ok (length acc) fds' = true ->
    jr_fields js recr rst tl2 ps fds fis ms ssets sadds fds' fis' (length acc) acc = JOk fs.
  Proof.
    induction vs' as [|ov vs' IH]; intros acc fds' fis' Hfs Hfd Hfi L1 L2 Hok.
    - destruct fds', fis'; try discriminate. cbn [jr_fields]. now rewrite Hfs, app_nil_r.
    - destruct fds' as [|fd fds'], fis' as [|fi fis']; try discriminate.
      cbn [fields_ok] in Hok. apply andb_true_iff in Hok as [Hok1 Hok2].
      cbn [jr_fields].
      pose proof (Hfd 0%nat fd eq_refl) as Hfd0. pose proof (Hfi 0%nat fi eq_refl) as Hfi0.
      rewrite Nat.add_0_r in Hfd0, Hfi0.
      rewrite (spec_field_rt acc ov vs' fd fi Hfs Hfd0 Hfi0 Hok1). cbn [jbind].
      replace (S (length acc)) with (length (acc ++ [ov])) by (rewrite app_length; cbn [length]; lia).
      apply IH.
      + now rewrite <- app_assoc.
      + intros i fd' Hi. rewrite app_length. cbn [length]. replace (length acc + 1 + i)%nat with (length acc + S i)%nat by lia. now apply Hfd.
      + intros i fi' Hi. rewrite app_length. cbn [length]. replace (length acc + 1 + i)%nat with (length acc + S i)%nat by lia. now apply Hfi.
      + cbn [length] in L1. lia.
      + cbn [length] in L2. lia.
      + rewrite app_length. cbn [length]. now rewrite Nat.add_1_r.
  Qed.

  Theorem spec_body_rt : jr_body js recr rst tl2 false fds fis ps (Some (JObj ms)) = JOk fs.
  Proof.
    unfold jr_body. rewrite Hmem. cbn [jbind]. rewrite spec_set_flags. cbn [jbind].
    rewrite spec_chain_ends. cbn [negb]. rewrite andb_false_r.
    exact (spec_fields_rt fs [] fds fis eq_refl (fun i fd H => H) (fun i fi H => H) Hlen1 Hlen2 Hfok).
  Qed.
End SpecCtx.

(** ** what [jw_fields_alt] writes, seen through [jfind] *)
Section AltFields.
  Variable ffmt : bool -> N -> bytes.
  Variable js : jschema.

  Lemma jw_field_alt_key rec c ps all implied fd fi idx ov m :
    jw_field_alt ffmt js rec c ps all implied fd fi idx ov = Some (Some m) -> fst m = JStr (jf_name fi).
  Proof.
    unfold jw_field_alt. destruct ov as [v|].
    - destruct (negb (field_present ps all fd)); [discriminate|].
      match goal with |- bind_opt ?jo _ = _ -> _ => destruct jo as [j|]; [|discriminate] end. cbn [bind_opt].
      destruct (jf_bit fi); [now intros [= <-]|].
      destruct (is_true_type js (f_ty fd)).
      { destruct (negb (is_some (f_mask fd)) && (pick (mix c idx) 1 4 =? 1)); [now intros [= <-]|discriminate]. }
      match goal with |- Some (if ?b then _ else _) = _ -> _ => destruct b; [now intros [= <-]|] end.
      destruct (pick (mix c idx) 1 3 =? 1); [now intros [= <-]|discriminate].
    - destruct (field_present ps all fd); discriminate.
  Qed.

  Lemma jw_fields_alt_nth rec c ps all implied : forall vs fds fis idx ms,
    jw_fields_alt ffmt js rec c ps all implied fds fis idx vs = Some ms ->
    plain_names fis -> names_distinct (map jf_name fis) = true ->
    length fds = length vs /\ length fis = length vs /\
    keys_nodup ms = true /\
    (forall m, In m ms -> exists fi, In fi fis /\ fst m = JStr (jf_name fi)) /\
    forall i fd fi ov, nth_error fds i = Some fd -> nth_error fis i = Some fi -> nth_error vs i = Some ov ->
      exists om, jw_field_alt ffmt js rec c ps all implied fd fi (idx + i) ov = Some om
                 /\ jfind (jf_name fi) ms = option_map snd om.
  Proof.
    unfold plain_names.
    induction vs as [|ov vs IH]; intros fds fis idx ms H Hpl Hnd.
    - destruct fds, fis; cbn [jw_fields_alt] in H; try discriminate. injection H as <-.
      repeat split; try reflexivity; [intros ? []|]. intros [|i] ? ? ? ?; discriminate.
    - destruct fds as [|fd0 fds], fis as [|fi0 fis]; cbn [jw_fields_alt] in H; try discriminate.
      destruct (jw_field_alt ffmt js rec c ps all implied fd0 fi0 idx ov) as [om0|] eqn:E0; [|discriminate]. cbn [bind_opt] in H.
      destruct (jw_fields_alt ffmt js rec c ps all implied fds fis (S idx) vs) as [rest|] eqn:Er; [|discriminate]. cbn [bind_opt] in H.
      injection H as <-.
      apply Forall_cons_iff in Hpl as [Hp0 Hpl].
      cbn [map names_distinct] in Hnd. apply andb_true_iff in Hnd as [Hn0 Hnd]. apply negb_true_iff in Hn0.
      destruct (IH fds fis (S idx) rest Er Hpl Hnd) as (L1 & L2 & Nd & Keys & Nth).
      assert (Hrest0 : jfind (jf_name fi0) rest = None).
      { apply jfind_notin. intros m Hm. destruct (Keys m Hm) as (fi & Hfi & Ek).
        exists (jf_name fi). split; [exact Ek|]. rewrite Forall_forall in Hpl. split; [now apply Hpl|].
        intros Heq. apply (existsb_eqb_notin _ _ Hn0). rewrite <- Heq. now apply in_map. }
      repeat split.
      + cbn [length]. now rewrite L1.
      + cbn [length]. now rewrite L2.
      + destruct om0 as [m0|]; [|exact Nd].
        rewrite (surjective_pairing m0), (jw_field_alt_key _ _ _ _ _ _ _ _ _ _ E0). cbn [keys_nodup].
        rewrite (name_plain_raw _ Hp0), Hrest0, Nd. reflexivity.
      + intros m Hm. destruct om0 as [m0|].
        * destruct Hm as [<-|Hm].
          -- exists fi0. split; [now left|]. exact (jw_field_alt_key _ _ _ _ _ _ _ _ _ _ E0).
          -- destruct (Keys m Hm) as (fi & Hfi & Ek). exists fi. split; [now right|exact Ek].
        * destruct (Keys m Hm) as (fi & Hfi & Ek). exists fi. split; [now right|exact Ek].
      + intros [|i] fd fi ov' Hfd Hfi Hov; cbn [nth_error] in Hfd, Hfi, Hov.
        * injection Hfd as <-. injection Hfi as <-. injection Hov as <-. rewrite Nat.add_0_r.
          exists om0. split; [exact E0|]. destruct om0 as [m0|]; [|exact Hrest0].
          rewrite (surjective_pairing m0), (jw_field_alt_key _ _ _ _ _ _ _ _ _ _ E0). cbn [jfind option_map snd].
          now rewrite (key_is_plain _ _ Hp0), bytes_eqb_refl.
        * destruct (Nth i fd fi ov' Hfd Hfi Hov) as (om & Eo & Ef). exists om.
          replace (idx + S i)%nat with (S idx + i)%nat by lia. split; [exact Eo|].
          destruct om0 as [m0|]; [|exact Ef].
          rewrite (surjective_pairing m0), (jw_field_alt_key _ _ _ _ _ _ _ _ _ _ E0). cbn [jfind].
          rewrite (key_is_plain _ _ Hp0).
          assert (Hne : jf_name fi0 <> jf_name fi).
          { intros Heq. apply (existsb_eqb_notin _ _ Hn0). rewrite Heq. apply in_map. eapply nth_error_In; eauto. }
          now rewrite (bytes_eqb_neq _ _ Hne).
  Qed.

  Lemma rotate_perm {A} n (l : list A) : Permutation l (rotate n l).
  Proof.
    unfold rotate. destruct l as [|a l]; [constructor|].
    set (k := N.to_nat (n mod N.of_nat (length (a :: l)))).
    rewrite <- (firstn_skipn k (a :: l)) at 1. apply Permutation_app_comm.
  Qed.
End AltFields.

Lemma nth_map_error {A B} (f : A -> B) (l : list A) i x d : nth_error l i = Some x -> nth i (map f l) d = f x.
Proof. revert i. induction l as [|a l IH]; intros [|i] H; cbn in *; try discriminate; [now injection H as ->|now apply IH]. Qed.

(** ** mask bits *)
Lemma testbit_add_bits g l b :
  N.testbit (add_bits_of g l) b = existsb (fun p => Nat.eqb (fst p) g && (snd p =? b)) l.
Proof.
  induction l as [|p l IH]; cbn [add_bits_of fold_right existsb]; [apply N.bits_0|].
  fold (add_bits_of g l). destruct (Nat.eqb (fst p) g); cbn [andb].
  - now rewrite N.lor_spec, N.pow2_bits_eqb, IH.
  - exact IH.
Qed.

Lemma add_bits_sub g l1 l2 b :
  (forall p, In p l1 -> fst p = g -> In p l2) ->
  N.testbit (add_bits_of g l1) b = true -> N.testbit (add_bits_of g l2) b = true.
Proof.
  intros H. rewrite !testbit_add_bits. intros E. apply existsb_exists in E as (p & Hp & Hc).
  apply andb_true_iff in Hc as [H1 H2]. apply existsb_exists. exists p. split.
  - apply H; [exact Hp|now apply Nat.eqb_eq].
  - now rewrite H1, H2.
Qed.

Lemma mask_chain_unmasked fuel fds i fd : nth_error fds i = Some fd -> f_mask fd = None ->
  fst (mask_chain fuel fds i) = [].
Proof. intros H1 H2. destruct fuel; cbn [mask_chain]; [reflexivity|]. now rewrite H1, H2. Qed.

Lemma all_adds_mono fds s1 s2 :
  (forall i fd, nth_error fds i = Some fd -> is_some (f_mask fd) = true -> nth i s1 false = true -> nth i s2 false = true) ->
  forall p, In p (all_adds fds s1) -> In p (all_adds fds s2).
Proof.
  intros H p Hp. unfold all_adds in *. apply in_flat_map in Hp as (i & Hi & Hin).
  apply in_flat_map. exists i. split; [exact Hi|].
  destruct (nth i s1 false) eqn:E1; [|destruct Hin].
  destruct (nth_error fds i) as [fd|] eqn:Efd.
  - destruct (f_mask fd) eqn:Em.
    + rewrite (H i fd Efd ltac:(rewrite Em; reflexivity) E1). exact Hin.
    + rewrite (mask_chain_unmasked _ _ _ _ Efd Em) in Hin. destruct Hin.
  - destruct (length fds); cbn [mask_chain] in Hin; [destruct Hin|]. rewrite Efd in Hin. destruct Hin.
Qed.

Lemma mask_clear_restore n I r A : n < 4294967296 ->
  (forall b, N.testbit I b = true -> N.testbit A b = true) ->
  (forall b, N.testbit A b = true -> N.testbit n b = true) ->
  N.lor (N.land n (N.lnot (N.land I r) 32)) A = n.
Proof.
  intros Hn HI HA. apply N.bits_inj. intros b.
  rewrite N.lor_spec, N.land_spec.
  destruct (N.testbit A b) eqn:EA.
  - rewrite orb_true_r. symmetry. now apply HA.
  - rewrite orb_false_r. destruct (b <? 32) eqn:Eb.
    + rewrite N.lnot_spec_low by lia. rewrite N.land_spec.
      destruct (N.testbit I b) eqn:EI; [rewrite (HI b EI) in EA; discriminate|]. cbn [andb negb]. apply andb_true_r.
    + (* n has no bit at or above 32 *)
      assert (Hb : N.testbit n b = false).
      { destruct (N.eq_dec n 0) as [->|Hnz]; [apply N.bits_0|]. apply N.bits_above_log2.
        assert (N.log2 n < 32); [|lia]. apply N.log2_lt_pow2; [lia|]. change (2 ^ 32) with 4294967296. lia. }
      now rewrite Hb.
Qed.


(** ** a map filled in rotated order is the same map *)
Lemma keys_sorted_app_r kp a : forall b, keys_sorted kp (a ++ b) = true -> keys_sorted kp b = true.
Proof.
  induction a as [|x a IH]; intros b H; [exact H|]. apply IH. exact (keys_sorted_tail kp x (a ++ b) H).
Qed.

Lemma sorted_head_lt kp : forall l a, keys_sorted kp (a :: l) = true ->
  forall x, In x l -> key_lt kp (entry_key a) (entry_key x) = true.
Proof.
  induction l as [|b l IH]; intros a H x Hx; [destruct Hx|].
  cbn [keys_sorted] in H. apply andb_true_iff in H as [Hab Hs].
  destruct Hx as [<-|Hx]; [exact Hab|].
  eapply key_lt_trans; [exact Hab|]. now apply (IH b Hs).
Qed.

Lemma dict_insert_mid kp a : forall A' B, all_lt kp A' a ->
  (forall x, In x B -> key_lt kp (entry_key a) (entry_key x) = true) ->
  dict_insert kp a (A' ++ B) = A' ++ a :: B.
Proof.
  induction A' as [|e A' IH]; intros B HA HB; cbn [app].
  - destruct B as [|b B]; [reflexivity|]. cbn [dict_insert]. now rewrite (HB b (or_introl eq_refl)).
  - apply Forall_cons_iff in HA as [H1 H2]. cbn [dict_insert].
    rewrite (key_lt_asym _ _ _ H1), H1. now rewrite (IH B H2 HB).
Qed.

Lemma dict_fold_mid kp : forall A A' B, keys_sorted kp (A' ++ A ++ B) = true ->
  fold_left (fun acc e => dict_insert kp e acc) A (A' ++ B) = A' ++ A ++ B.
Proof.
  induction A as [|a A IH]; intros A' B H; cbn [fold_left app]; [reflexivity|].
  rewrite dict_insert_mid.
  - replace (A' ++ a :: B) with ((A' ++ [a]) ++ B) by (rewrite <- app_assoc; reflexivity).
    rewrite IH; rewrite <- app_assoc; [reflexivity|exact H].
  - exact (sorted_all_lt kp A' a (A ++ B) H).
  - intros x Hx. apply keys_sorted_app_r in H. cbn [app] in H.
    apply (sorted_head_lt kp (A ++ B) a H). apply in_or_app. now right.
Qed.

Lemma dict_fold_rotate kp n es : keys_sorted kp es = true ->
  fold_left (fun acc e => dict_insert kp e acc) (rotate n es) [] = es.
Proof.
  intros H. unfold rotate. destruct es as [|e0 es0]; [reflexivity|].
  set (es := e0 :: es0) in *. set (k := N.to_nat (n mod N.of_nat (length es))).
  rewrite fold_left_app.
  assert (Hs : keys_sorted kp (firstn k es ++ skipn k es) = true) by now rewrite firstn_skipn.
  rewrite (dict_fold_sorted kp (skipn k es) []) by (cbn [app]; exact (keys_sorted_app_r kp _ _ Hs)).
  cbn [app].
  pose proof (dict_fold_mid kp (firstn k es) [] (skipn k es)) as G. cbn [app] in G.
  rewrite G by exact Hs. apply firstn_skipn.
Qed.

Lemma Forall2_firstn_skipn {A B} (P : A -> B -> Prop) k : forall a b, Forall2 P a b ->
  Forall2 P (firstn k a) (firstn k b) /\ Forall2 P (skipn k a) (skipn k b).
Proof.
  induction k as [|k IH]; intros a b H; cbn [firstn skipn]; [split; [constructor|exact H]|].
  destruct H as [|x y a b Hxy H]; [split; constructor|].
  destruct (IH a b H) as [H1 H2]. split; [now constructor|exact H2].
Qed.

Lemma Forall2_len {A B} (P : A -> B -> Prop) a b : Forall2 P a b -> length a = length b.
Proof. induction 1; cbn [length]; congruence. Qed.

Lemma Forall2_rotate {A B} (P : A -> B -> Prop) n a b : Forall2 P a b -> Forall2 P (rotate n a) (rotate n b).
Proof.
  intros H. pose proof (Forall2_len P _ _ H) as Hl. unfold rotate.
  destruct a as [|x a], b as [|y b]; try discriminate; [constructor|].
  rewrite <- Hl. set (k := N.to_nat (n mod N.of_nat (length (x :: a)))).
  destruct (Forall2_firstn_skipn P k _ _ H) as [H1 H2]. now apply Forall2_app.
Qed.

(** ** the alternative writer, read back *)
Section AltRT.
  Variable ffmt : bool -> N -> bytes.
  Variable fparse : bool -> bytes -> option N.
  Variable js : jschema.
  Hypothesis Hfmt : forall is64 b, ffinite is64 b = true -> num_ok (ffmt is64 b) = true.
  Hypothesis Hparse : forall is64 b, ffinite is64 b = true -> fparse is64 (ffmt is64 b) = Some b.
  Hypothesis Hwf : wf_jschema js = true.

  Notation W := (jsonw ffmt js).
  Variable rot : bool.   (* also reorder the members of dictionaries *)
  Notation WA := (jsonw_alt ffmt js rot).
  Notation R := (jsonr fparse js).

  (** *** primitives *)
  Lemma num_alt_rt c p j0 v : jw_prim ffmt p v = Some j0 ->
    match p with PString => True | _ => jr_prim fparse p (Some (num_alt c j0)) = jr_prim fparse p (Some j0) end.
  Proof.
    intros H. destruct p; try exact I; unfold num_alt; destruct j0 as [| |t| | |]; try reflexivity;
      destruct (pick c 0 2 =? 1); try reflexivity;
      destruct v; cbn [jw_prim] in H; try discriminate.
    - destruct (n <? 4294967296); [|discriminate]. injection H as <-.
      exact (alt_number_as_string fparse PNat _ (num_ok_print_N n)).
    - destruct (n <? 4294967296); [|discriminate]. injection H as <-.
      exact (alt_number_as_string fparse PInt _ (num_ok_print_Z _)).
    - destruct (n <? 4294967296); [|discriminate]. injection H as H. unfold jw_float in H.
      destruct (fl_is_nan 8 23 n) eqn:E1; [discriminate|]. destruct (fl_is_inf 8 23 n) eqn:E2; [destruct (fl_neg 8 23 n); discriminate|].
      injection H as <-. apply (alt_number_as_string fparse PFloat). apply Hfmt. unfold ffinite. now rewrite E1, E2.
    - destruct (n <? 18446744073709551616); [|discriminate]. injection H as <-.
      exact (alt_number_as_string fparse PLong _ (num_ok_print_Z _)).
    - destruct (n <? 18446744073709551616); [|discriminate]. injection H as H. unfold jw_float in H.
      destruct (fl_is_nan 11 52 n) eqn:E1; [discriminate|]. destruct (fl_is_inf 11 52 n) eqn:E2; [destruct (fl_neg 11 52 n); discriminate|].
      injection H as <-. apply (alt_number_as_string fparse PDouble). apply Hfmt. unfold ffinite. now rewrite E1, E2.
  Qed.

  Lemma prim_alt_rt c p v j0 j : jw_prim ffmt p v = Some j0 -> jw_prim_alt ffmt c p v = Some j ->
    prim_diag p v = [] -> jr_prim fparse p (Some j) = JOk v.
  Proof.
    intros H0 Ha Hd.
    assert (G : match p with PString => True | _ => j = num_alt c j0 end).
    { destruct p; try exact I; unfold jw_prim_alt in Ha; destruct v; rewrite ?H0 in Ha; cbn [option_map] in Ha;
        try discriminate; now injection Ha as <-. }
    destruct p; try (subst j; pose proof (num_alt_rt c _ j0 _ H0) as E; cbn beta iota in E; rewrite E; now apply (prim_rt ffmt fparse js Hfmt Hparse)).
    - (* string *)
      destruct v; try discriminate. unfold jw_prim_alt in Ha. cbn [jw_prim] in H0.
      destruct (bytes_okb s) eqn:Es; [|discriminate]. injection Ha as <-.
      destruct (pick c 0 3 =? 1).
      + cbn [jr_prim]. rewrite (alt_string_as_base64 s); [reflexivity|].
        apply Forall_forall. intros x Hx. unfold bytes_okb in Es. rewrite forallb_forall in Es. specialize (Es x Hx). unfold byte_ok. lia.
      + cbn [jr_prim]. now rewrite (string_rt ffmt fparse js Hfmt Hparse s Es).
  Qed.

  (** *** the statement: every spelling [jsonw_alt] makes of a value is read back as the value *)
  Definition ARTP (fuel : nat) (v : value) : Prop :=
    forall c t ps j0 j, W t ps v = Some j0 -> WA c t ps v = Some j -> jdiag js t ps false v = [] ->
      R fuel t ps (Some j) = JOk v.

  (** *** a struct body *)
  Section AltBody.
    Variables (f' : nat) (tl2 : bool) (fds : list field) (fis : list jfinfo) (ps : list N) (fs : list (option value)).
    Variables (c k : N) (msc ms0 : list (json * json)).
    Hypothesis L : length fds = length fis.
    Hypothesis Hann : forallb (field_ann_ok js) (combine fds fis) = true.
    Hypothesis Hnd : names_distinct (map jf_name fis) = true.
    Hypothesis Hfok : fields_ok 0 fds = true.
    Let recA := fun c' t' ps' v' => WA c' t' ps' v'.
    Let implied := fun g => add_bits_of g (all_adds fds (written_flags js fds fis fs)).
    Hypothesis Hwc : jw_fields js (fun t' ps' v' => W t' ps' v') ps fs fds fis fs = Some msc.
    Hypothesis Hwa : jw_fields_alt ffmt js recA c ps fs implied fds fis 0 fs = Some ms0.
    Hypothesis Hd : jd_fields (fun t' ps' o' v' => jdiag js t' ps' o' v') ps fs fds fs = [].
    Hypothesis IHa : forall x, In (Some x) fs -> ARTP (S f') x.
    Let ms := rotate k ms0.

    Lemma ab_pl : plain_names fis.
    Proof. exact (ann_plain js fds fis L Hann). Qed.

    Lemma ab_cons i fd ov : nth_error fds i = Some fd -> nth_error fs i = Some ov -> is_some ov = field_present ps fs fd.
    Proof. exact (sc_cons js _ ps fs fds fis msc Hwc ab_pl Hnd i fd ov). Qed.

    Lemma ab_find i fd fi ov : nth_error fds i = Some fd -> nth_error fis i = Some fi -> nth_error fs i = Some ov ->
      exists om, jw_field_alt ffmt js recA c ps fs implied fd fi i ov = Some om /\ jfind (jf_name fi) ms = option_map snd om.
    Proof.
      intros Hfd Hfi Hov.
      destruct (jw_fields_alt_nth ffmt js recA c ps fs implied fs fds fis 0 ms0 Hwa ab_pl Hnd) as (_ & _ & Nd & _ & Nth).
      destruct (Nth i fd fi ov Hfd Hfi Hov) as (om & Eo & Ef). exists om. split; [exact Eo|].
      unfold ms. rewrite <- (jfind_perm _ ms0 (rotate k ms0) (rotate_perm k ms0) Nd). exact Ef.
    Qed.

    Lemma ab_members : members (map jf_name fis) (Some (JObj ms)) = JOk ms.
    Proof.
      destruct (jw_fields_alt_nth ffmt js recA c ps fs implied fs fds fis 0 ms0 Hwa ab_pl Hnd) as (_ & _ & Nd & Keys & _).
      cbn [members]. unfold ms.
      rewrite <- (keys_known_perm _ ms0 _ (rotate_perm k ms0)), <- (keys_nodup_perm ms0 _ (rotate_perm k ms0)).
      now rewrite (keys_known_names fis ms0 ab_pl Keys), Nd.
    Qed.

    Lemma ab_canon i fd fi v : nth_error fds i = Some fd -> nth_error fis i = Some fi -> nth_error fs i = Some (Some v) ->
      exists jc, W (f_ty fd) (eval_args ps fs (f_args fd)) v = Some jc.
    Proof.
      intros Hfd Hfi Hv.
      destruct (sc_field js _ ps fs fds fis msc Hwc ab_pl Hnd i fd fi (Some v) Hfd Hfi Hv) as (om & Eo & _).
      unfold jw_field in Eo. destruct (negb (field_present ps fs fd)); [discriminate|].
      destruct (W (f_ty fd) (eval_args ps fs (f_args fd)) v) as [jc|]; [eauto|discriminate].
    Qed.

    (** the member of an absent field is absent *)
    Lemma ab_absent i fd fi : nth_error fds i = Some fd -> nth_error fis i = Some fi -> nth_error fs i = Some None ->
      jfind (jf_name fi) ms = None.
    Proof.
      intros Hfd Hfi Hov. destruct (ab_find i fd fi None Hfd Hfi Hov) as (om & Eo & Ef).
      unfold jw_field_alt in Eo. destruct (field_present ps fs fd); [discriminate|]. injection Eo as <-. exact Ef.
    Qed.

    Lemma ab_sets_present i : nth i (ssets fis ms) false = true -> present fs i.
    Proof.
      rewrite ssets_nth. unfold sflag. intros H.
      destruct (nth_error fis i) as [fi|] eqn:Efi; [|discriminate].
      destruct (sc_len js _ ps fs fds fis msc Hwc ab_pl Hnd) as [L1 L2].
      assert (Hi : (i < length fs)%nat) by (rewrite <- L2; apply nth_error_Some; congruence).
      destruct (nth_error fds i) as [fd|] eqn:Efd; [|apply nth_error_None in Efd; lia].
      destruct (nth_error fs i) as [[v|]|] eqn:Ev; [exists v; exact Ev| |apply nth_error_None in Ev; lia].
      rewrite (ab_absent i fd fi Efd Efi Ev) in H. destruct (jf_bit fi); discriminate.
    Qed.

    (** a written masked member sets its flag *)
    Lemma ab_flag_written i fd fi v : nth_error fds i = Some fd -> nth_error fis i = Some fi -> nth_error fs i = Some (Some v) ->
      is_some (f_mask fd) = true -> jf_bit fi || negb (is_true_type js (f_ty fd)) = true ->
      nth i (ssets fis ms) false = true.
    Proof.
      intros Hfd Hfi Hv Hm Hw. rewrite ssets_nth. unfold sflag. rewrite Hfi.
      destruct (ab_find i fd fi (Some v) Hfd Hfi Hv) as (om & Eo & Ef). rewrite Ef.
      unfold jw_field_alt in Eo. destruct (negb (field_present ps fs fd)); [discriminate|].
      match type of Eo with bind_opt ?jo _ = _ => destruct jo as [j|]; [|discriminate] end. cbn [bind_opt] in Eo.
      destruct (jf_bit fi) eqn:Eb; [now injection Eo as <-|].
      cbn [orb] in Hw. apply negb_true_iff in Hw. rewrite Hw, Hm in Eo. cbn [orb] in Eo. now injection Eo as <-.
    Qed.

    Lemma ab_implied_sub i b : N.testbit (implied i) b = true -> N.testbit (add_bits_of i (sadds fds fis ms)) b = true.
    Proof.
      unfold implied, sadds. apply add_bits_sub. intros p Hp _. revert p Hp. apply all_adds_mono.
      intros i' fd' Hfd' Hm' Hw'.
      unfold written_flags in Hw'.
      destruct (sc_len js _ ps fs fds fis msc Hwc ab_pl Hnd) as [L1 L2].
      assert (Hi : (i' < length fs)%nat) by (rewrite <- L1; apply nth_error_Some; congruence).
      destruct (nth_error fis i') as [fi'|] eqn:Efi'; [|apply nth_error_None in Efi'; lia].
      destruct (nth_error fs i') as [ov'|] eqn:Eov'; [|apply nth_error_None in Eov'; lia].
      assert (Hc : nth_error (combine (combine fds fis) fs) i' = Some (fd', fi', ov')).
      { clear - Hfd' Efi' Eov'. revert fis fs i' Hfd' Efi' Eov'. induction fds as [|a l IH]; intros [|b l2] [|c0 l3] [|n]; cbn; try discriminate.
        - now intros [= ->] [= ->] [= ->].
        - intros. now apply IH. }
      rewrite (nth_map_error _ _ _ _ false Hc) in Hw'.
      destruct ov' as [v'|]; [|discriminate].
      exact (ab_flag_written i' fd' fi' v' Hfd' Efi' Eov' Hm' Hw').
    Qed.

    Lemma ab_adds_sub i n b : nth_error fs i = Some (Some (VNum n)) ->
      N.testbit (add_bits_of i (sadds fds fis ms)) b = true -> N.testbit n b = true.
    Proof.
      intros Hv H. rewrite testbit_add_bits in H. apply existsb_exists in H as (p & Hp & Hc).
      apply andb_true_iff in Hc as [H1 H2]. apply Nat.eqb_eq in H1. apply N.eqb_eq in H2.
      pose proof (all_adds_bits ps fs fds ab_cons (ssets fis ms) ab_sets_present p Hp) as B.
      rewrite H1, H2 in B. unfold field_nat in B. now rewrite Hv in B.
    Qed.

    Lemma ab_or_nat i v : nth_error fs i = Some (Some v) -> or_nat v (add_bits_of i (sadds fds fis ms)) = v.
    Proof.
      intros H. destruct v; cbn [or_nat]; try reflexivity.
      pose proof (adds_absorb ps fs fds ab_cons (ssets fis ms) ab_sets_present i) as A.
      unfold field_nat in A. rewrite H in A. unfold sadds. now rewrite A.
    Qed.
    Hypothesis Hdep : forall x, In (Some x) fs -> (vdepth x < S f')%nat.

    Lemma nat_not_true t : is_nat_type js t = true -> is_true_type js t = false.
    Proof. intros H. destruct (is_true_type js t) eqn:E; [|reflexivity]. now rewrite (true_not_nat js t E) in H. Qed.

    Lemma ab_diag i fd v : nth_error fds i = Some fd -> nth_error fs i = Some (Some v) ->
      jdiag js (f_ty fd) (eval_args ps fs (f_args fd)) false v = []
      /\ (f_mask fd = None -> jdiag js (f_ty fd) (eval_args ps fs (f_args fd)) true v = []).
    Proof.
      intros Hfd Hv. pose proof (jd_fields_nil _ ps fs fs fds Hd i fd v Hfd Hv) as Hdi. cbn beta in Hdi.
      destruct (f_mask fd); cbn [is_some negb] in Hdi.
      - split; [exact Hdi|discriminate].
      - split; [now apply jdiag_mono|intros _; exact Hdi].
    Qed.

    (** reading a written member of any type but a cleared mask *)
    Lemma ab_read i fd fi v j : nth_error fds i = Some fd -> nth_error fis i = Some fi -> nth_error fs i = Some (Some v) ->
      recA (mix c i) (f_ty fd) (eval_args ps fs (f_args fd)) v = Some j ->
      exists v0, R (S f') (f_ty fd) (eval_args ps fs (f_args fd)) (Some j) = JOk v0
                 /\ or_nat v0 (add_bits_of i (sadds fds fis ms)) = v.
    Proof.
      intros Hfd Hfi Hv Hj. exists v. split; [|exact (ab_or_nat i v Hv)].
      destruct (ab_canon i fd fi v Hfd Hfi Hv) as (jc & Hjc).
      exact (IHa v (nth_error_In _ _ Hv) _ _ _ _ _ Hjc Hj (proj1 (ab_diag i fd v Hfd Hv))).
    Qed.

    (** a present member that is not written: empty value or a type without fields *)
    Lemma ab_skip i fd fi v : nth_error fds i = Some fd -> nth_error fis i = Some fi -> nth_error fs i = Some (Some v) ->
      is_true_type js (f_ty fd) = true \/ (f_mask fd = None /\ nonempty js (f_ty fd) v = false) ->
      match f_args fd with
      | [] => exists v0, reset_value js (S f') (f_ty fd) [] = JOk v0 /\ or_nat v0 (add_bits_of i (sadds fds fis ms)) = v
      | _ => R (S f') (f_ty fd) (eval_args ps fs (f_args fd)) None = JOk v
             /\ reset_value js (S f') (f_ty fd) (eval_args ps fs (f_args fd)) = JOk v
      end.
    Proof.
      intros Hfd Hfi Hv Hc.
      destruct (ab_canon i fd fi v Hfd Hfi Hv) as (jc & Hjc).
      assert (G : R (S f') (f_ty fd) (eval_args ps fs (f_args fd)) None = JOk v
                  /\ forall ps', reset_value js (S f') (f_ty fd) ps' = JOk v).
      { destruct Hc as [Ett|[Hm Hne]].
        - rewrite (W_true_type ffmt js Hwf _ _ _ _ Ett Hjc). split.
          + exact (proj1 (true_type_default fparse js Hwf f' _ _ Ett)).
          + intros ps'. exact (proj2 (true_type_default fparse js Hwf f' _ ps' Ett)).
        - destruct (rt_all ffmt fparse js Hfmt Hparse Hwf (S f') v (Hdep v (nth_error_In _ _ Hv))) as [_ Hemp].
          exact (Hemp _ _ _ Hjc Hne (proj2 (ab_diag i fd v Hfd Hv) Hm)). }
      destruct G as [G1 G2].
      destruct (f_args fd) as [|a0 l0] eqn:Ea.
      - exists v. split; [apply G2|exact (ab_or_nat i v Hv)].
      - rewrite <- Ea in *. split; [exact G1|apply G2].
    Qed.

    Lemma ab_spec i fd fi ov : nth_error fds i = Some fd -> nth_error fis i = Some fi -> nth_error fs i = Some ov ->
      field_spec ps fs fds fis ms (R (S f')) (reset_value js (S f')) i fd fi ov.
    Proof.
      intros Hfd Hfi Hov. destruct (ab_find i fd fi ov Hfd Hfi Hov) as (om & Eo & Ef).
      unfold field_spec. rewrite Ef.
      destruct ov as [v|].
      2: { unfold jw_field_alt in Eo. destruct (field_present ps fs fd); [discriminate|]. now injection Eo as <-. }
      destruct (ab_canon i fd fi v Hfd Hfi Hov) as (jc & Hjc).
      unfold jw_field_alt in Eo. destruct (negb (field_present ps fs fd)); [discriminate|].
      destruct (jf_bit fi) eqn:Eb.
      { match type of Eo with bind_opt ?jo _ = _ => destruct jo as [j|]; [|discriminate] end. cbn [bind_opt] in Eo.
        injection Eo as <-. cbn [option_map snd]. split; [reflexivity|].
        exact (W_true_type ffmt js Hwf _ _ _ _ (ann_bit js _ _ _ _ _ Hann Hfd Hfi Eb) Hjc). }
      (* not a true-typed masked field *)
      destruct (is_nat_type js (f_ty fd)) eqn:En.
      - (* a # field: possibly with implied bits cleared *)
        assert (Et : exists a0, nth_error js (f_ty fd) = Some (TPrim PNat, a0)).
        { unfold is_nat_type in En. destruct (nth_error js (f_ty fd)) as [[[[]|?|?|? ?|? ?] a0]|]; try discriminate. eauto. }
        destruct Et as [a0 Et].
        assert (Hv : exists n, v = VNum n /\ n < 4294967296).
        { destruct v; cbn [jsonw] in Hjc; rewrite Et in Hjc; cbn [jw_prim] in Hjc; try discriminate.
          destruct (n <? 4294967296) eqn:E; [|discriminate]. exists n. split; [reflexivity|lia]. }
        destruct Hv as (n & -> & Hn).
        rewrite (nat_not_true _ En) in Eo.
        pose proof (ann_nat_args js fds fis i fd L Hann Hfd En) as Hargs.
        set (n' := N.land n (N.lnot (N.land (implied i) (mix (mix c i) 7)) 32)) in *.
        destruct (jw_prim_alt ffmt (mix c i) PNat (VNum n')) as [j|] eqn:Ej; [|discriminate]. cbn [bind_opt] in Eo.
        assert (Hrest : N.lor n' (add_bits_of i (sadds fds fis ms)) = n).
        { unfold n'. apply mask_clear_restore; [exact Hn| |].
          - intros b. apply ab_implied_sub.
          - intros b. apply (ab_adds_sub i n b Hov). }
        assert (Hne : nonempty js (f_ty fd) (VNum n') = negb (n' =? 0)).
        { cbn [nonempty]. now rewrite Et. }
        rewrite Hne in Eo.
        destruct (is_some (f_mask fd) || negb (n' =? 0)) eqn:Ec.
        + injection Eo as <-. cbn [option_map snd].
          assert (Hj0 : exists j0, jw_prim ffmt PNat (VNum n') = Some j0).
          { unfold jw_prim_alt in Ej. destruct (jw_prim ffmt PNat (VNum n')); [eauto|discriminate]. }
          destruct Hj0 as [j0 Hj0].
          exists (VNum n'). split.
          * cbn [jsonr]. rewrite Et. exact (prim_alt_rt _ PNat _ _ _ Hj0 Ej eq_refl).
          * cbn [or_nat]. now rewrite Hrest.
        + apply orb_false_iff in Ec as [Em Ez]. apply negb_false_iff, N.eqb_eq in Ez.
          assert (Hadd : add_bits_of i (sadds fds fis ms) = n) by (rewrite Ez, N.lor_0_l in Hrest; exact Hrest).
          destruct (pick (mix c i) 1 3 =? 1).
          * injection Eo as <-. cbn [option_map snd].
            assert (Hj0 : exists j0, jw_prim ffmt PNat (VNum n') = Some j0).
            { unfold jw_prim_alt in Ej. destruct (jw_prim ffmt PNat (VNum n')); [eauto|discriminate]. }
            destruct Hj0 as [j0 Hj0].
            exists (VNum n'). split.
            -- cbn [jsonr]. rewrite Et. exact (prim_alt_rt _ PNat _ _ _ Hj0 Ej eq_refl).
            -- cbn [or_nat]. now rewrite Hrest.
          * injection Eo as <-. cbn [option_map]. rewrite Hargs.
            exists (VNum 0). split; [exact (proj1 (nat_type_default fparse js f' _ [] En))|].
            cbn [or_nat]. now rewrite N.lor_0_l, Hadd.
      - (* any other field: the value itself is spelled *)
        assert (Eo' : bind_opt (recA (mix c i) (f_ty fd) (eval_args ps fs (f_args fd)) v) (fun j =>
                  Some (if is_true_type js (f_ty fd)
                        then (if negb (is_some (f_mask fd)) && (pick (mix c i) 1 4 =? 1) then Some (JStr (jf_name fi), j) else None)
                        else if is_some (f_mask fd) || nonempty js (f_ty fd) v then Some (JStr (jf_name fi), j)
                        else if pick (mix c i) 1 3 =? 1 then Some (JStr (jf_name fi), j) else None)) = Some om).
        { destruct v; exact Eo. }
        clear Eo. rename Eo' into Eo.
        destruct (recA (mix c i) (f_ty fd) (eval_args ps fs (f_args fd)) v) as [j|] eqn:Ej; [|discriminate]. cbn [bind_opt] in Eo.
        destruct (is_true_type js (f_ty fd)) eqn:Ett.
        + destruct (negb (is_some (f_mask fd)) && (pick (mix c i) 1 4 =? 1)); injection Eo as <-; cbn [option_map snd].
          * exact (ab_read i fd fi v j Hfd Hfi Hov Ej).
          * exact (ab_skip i fd fi v Hfd Hfi Hov (or_introl Ett)).
        + destruct (is_some (f_mask fd) || nonempty js (f_ty fd) v) eqn:Ec.
          * injection Eo as <-. cbn [option_map snd]. exact (ab_read i fd fi v j Hfd Hfi Hov Ej).
          * apply orb_false_iff in Ec as [Em Ene].
            destruct (pick (mix c i) 1 3 =? 1); injection Eo as <-; cbn [option_map snd].
            -- exact (ab_read i fd fi v j Hfd Hfi Hov Ej).
            -- apply (ab_skip i fd fi v Hfd Hfi Hov). right. split; [|exact Ene]. destruct (f_mask fd); [discriminate|reflexivity].
    Qed.

    Theorem alt_body_rt : jr_body js (R (S f')) (reset_value js (S f')) tl2 false fds fis ps (Some (JObj ms)) = JOk fs.
    Proof.
      destruct (sc_len js _ ps fs fds fis msc Hwc ab_pl Hnd) as [L1 L2].
      apply (spec_body_rt js ps fs fds fis ms (R (S f')) (reset_value js (S f')) tl2 L1 L2 ab_members ab_cons Hfok ab_spec).
      - intros i fd fi Hfd Hfi Hb. exact (ann_bit js _ _ _ _ _ Hann Hfd Hfi Hb).
      - intros t a Hn. exact (nat_type_default fparse js f' t a Hn).
    Qed.
  End AltBody.

  (** *** bodies, arrays, dictionaries *)
  Lemma alt_body_any f' tl2 td fds fis ps fs c jbc jba :
    length fds = length fis -> forallb (field_ann_ok js) (combine fds fis) = true ->
    names_distinct (map jf_name fis) = true -> fields_ok 0 fds = true ->
    (td = true -> exists fd, fds = [fd] /\ f_mask fd = None) ->
    (forall x, In (Some x) fs -> ARTP (S f') x) ->
    (forall x, In (Some x) fs -> (vdepth x < S f')%nat) ->
    jw_body js (fun t' ps' v' => W t' ps' v') td fds fis ps fs = Some jbc ->
    jw_body_alt ffmt js (fun c' t' ps' v' => WA c' t' ps' v') c td fds fis ps fs = Some jba ->
    (if td then match fds, fs with
                | [fd], [Some v'] => jdiag js (f_ty fd) (eval_args ps fs (f_args fd)) false v' = []
                | _, _ => True
                end
     else jd_fields (fun t' ps' o' v' => jdiag js t' ps' o' v') ps fs fds fs = []) ->
    jr_body js (R (S f')) (reset_value js (S f')) tl2 td fds fis ps (Some jba) = JOk fs.
  Proof.
    intros L Hann Hnd Hfok Htd IHa Hdep Hc Ha Hd.
    unfold jw_body in Hc. unfold jw_body_alt in Ha. destruct td.
    - destruct (Htd eq_refl) as (fd & -> & Hm). destruct fs as [|[v'|] [|? ?]]; try discriminate.
      cbn [fields_ok] in Hfok. apply andb_true_iff in Hfok as [Hfok _]. unfold field_ok in Hfok.
      apply andb_true_iff in Hfok as [_ Hargs].
      rewrite (eval_args_nofield ps _ _ Hargs) in Hc, Ha, Hd.
      unfold jr_body. rewrite (IHa v' (or_introl eq_refl) _ _ _ _ _ Hc Ha Hd). reflexivity.
    - destruct (jw_fields js _ ps fs fds fis fs) as [msc|] eqn:Ec; [|discriminate].
      destruct (jw_fields_alt ffmt js _ c ps fs _ fds fis 0 fs) as [ms0|] eqn:Ea; [|discriminate].
      cbn [option_map] in Ha. injection Ha as <-.
      exact (alt_body_rt f' tl2 fds fis ps fs c (pick c 2 7) msc ms0 L Hann Hnd Hfok Ec Ea Hd IHa Hdep).
  Qed.

  Lemma elems_alt_rt f t args c : forall es i l0 l, (forall e, In e es -> ARTP f e) ->
    jw_elems (fun e => W t args e) es = Some l0 ->
    jw_elems_alt (fun c' e => WA c' t args e) c i es = Some l ->
    flat_map (fun e => jdiag js t args false e) es = [] ->
    jr_elems (R f t args) l = JOk es /\ length l = length es.
  Proof.
    induction es as [|e es IH]; intros i l0 l Hrt Hw Ha Hd; cbn [jw_elems jw_elems_alt] in Hw, Ha.
    - injection Ha as <-. split; reflexivity.
    - destruct (W t args e) as [j0|] eqn:Ej0; [|discriminate]. cbn [bind_opt] in Hw.
      destruct (jw_elems _ es) as [r0|] eqn:Er0; [|discriminate].
      destruct (WA (mix c i) t args e) as [j|] eqn:Ej; [|discriminate]. cbn [bind_opt] in Ha.
      destruct (jw_elems_alt _ c (S i) es) as [r|] eqn:Er; [|discriminate]. injection Ha as <-.
      cbn [flat_map] in Hd. apply app_eq_nil in Hd as [Hd1 Hd2].
      destruct (IH (S i) r0 r (fun e0 H0 => Hrt e0 (or_intror H0)) eq_refl Er Hd2) as [I1 I2].
      cbn [jr_elems]. rewrite (Hrt e (or_introl eq_refl) _ _ _ _ _ Ej0 Ej Hd1). cbn [jbind]. rewrite I1. cbn [jbind length].
      split; [reflexivity|now rewrite I2].
  Qed.

  Lemma entries_alt_rt f t args kp c : forall es i ms0 ms,
    (forall k x, In (VStruct [Some k; Some x]) es -> ARTP f x) ->
    jw_entries (fun x => W t args x) kp es = Some ms0 ->
    jw_entries_alt (fun c' x => WA c' t args x) c kp i es = Some ms ->
    flat_map (fun e => match e with
                       | VStruct [Some k; Some x] => key_diag kp k ++ jdiag js t args false x
                       | _ => []
                       end) es = [] ->
    jr_entries (R f t args) kp ms = JOk es.
  Proof.
    induction es as [|e es IH]; intros i ms0 ms Hrt Hw Ha Hd; cbn [jw_entries jw_entries_alt] in Hw, Ha.
    - now injection Ha as <-.
    - destruct e as [| | |[|[k|] [|[x|] [|? ?]]]| |]; try discriminate.
      destruct (jw_key kp k) as [jk|] eqn:Ek; [|discriminate]. cbn [bind_opt] in Hw, Ha.
      destruct (W t args x) as [jx0|] eqn:Ex0; [|discriminate]. cbn [bind_opt] in Hw.
      destruct (jw_entries _ kp es) as [r0|] eqn:Er0; [|discriminate].
      destruct (WA (mix c i) t args x) as [jx|] eqn:Ex; [|discriminate]. cbn [bind_opt] in Ha.
      destruct (jw_entries_alt _ c kp (S i) es) as [r|] eqn:Er; [|discriminate]. injection Ha as <-.
      cbn [flat_map] in Hd. apply app_eq_nil in Hd as [Hd1 Hd2]. apply app_eq_nil in Hd1 as [Hdk Hdx].
      cbn [jr_entries]. rewrite (key_rt ffmt fparse js Hfmt Hparse _ _ _ Ek Hdk). cbn [jbind].
      rewrite (Hrt k x (or_introl eq_refl) _ _ _ _ _ Ex0 Ex Hdx). cbn [jbind].
      rewrite (IH (S i) r0 r (fun k0 x0 H0 => Hrt k0 x0 (or_intror H0)) eq_refl Er Hd2). reflexivity.
  Qed.

  Definition entry_ok (f t : nat) (args : list N) (kp : prim) (m : json * json) (e : value) : Prop :=
    exists k x, e = VStruct [Some k; Some x] /\ jr_key kp (fst m) = JOk k /\ R f t args (Some (snd m)) = JOk x.

  Lemma entries_forall2 f t args kp : forall ms es, Forall2 (entry_ok f t args kp) ms es ->
    jr_entries (R f t args) kp ms = JOk es.
  Proof.
    induction 1 as [|[jk jx] e ms es (k & x & -> & Hk & Hx) _ IH]; cbn [jr_entries]; [reflexivity|].
    cbn [fst snd] in Hk, Hx. rewrite Hk. cbn [jbind]. rewrite Hx. cbn [jbind]. now rewrite IH.
  Qed.

  Lemma entries_alt_f2 f t args kp c : forall es i ms0 ms,
    (forall k x, In (VStruct [Some k; Some x]) es -> ARTP f x) ->
    jw_entries (fun x => W t args x) kp es = Some ms0 ->
    jw_entries_alt (fun c' x => WA c' t args x) c kp i es = Some ms ->
    flat_map (fun e => match e with
                       | VStruct [Some k; Some x] => key_diag kp k ++ jdiag js t args false x
                       | _ => []
                       end) es = [] ->
    Forall2 (entry_ok f t args kp) ms es.
  Proof.
    induction es as [|e es IH]; intros i ms0 ms Hrt Hw Ha Hd; cbn [jw_entries jw_entries_alt] in Hw, Ha.
    - injection Ha as <-. constructor.
    - destruct e as [| | |[|[k|] [|[x|] [|? ?]]]| |]; try discriminate.
      destruct (jw_key kp k) as [jk|] eqn:Ek; [|discriminate]. cbn [bind_opt] in Hw, Ha.
      destruct (W t args x) as [jx0|] eqn:Ex0; [|discriminate]. cbn [bind_opt] in Hw.
      destruct (jw_entries _ kp es) as [r0|] eqn:Er0; [|discriminate].
      destruct (WA (mix c i) t args x) as [jx|] eqn:Ex; [|discriminate]. cbn [bind_opt] in Ha.
      destruct (jw_entries_alt _ c kp (S i) es) as [r|] eqn:Er; [|discriminate]. injection Ha as <-.
      cbn [flat_map] in Hd. apply app_eq_nil in Hd as [Hd1 Hd2]. apply app_eq_nil in Hd1 as [Hdk Hdx].
      constructor.
      + exists k, x. cbn [fst snd]. split; [reflexivity|]. split.
        * exact (key_rt ffmt fparse js Hfmt Hparse _ _ _ Ek Hdk).
        * exact (Hrt k x (or_introl eq_refl) _ _ _ _ _ Ex0 Ex Hdx).
      + exact (IH (S i) r0 r (fun k0 x0 H0 => Hrt k0 x0 (or_intror H0)) eq_refl Er Hd2).
  Qed.

  (** Maybe / union objects in the spellings [jsonw_alt] uses *)
  Lemma maybe_parts_false : jr_maybe_parts (Some (JObj [(JStr s_ok, JBool false)])) = JOk (false, None).
  Proof. reflexivity. Qed.
  Lemma maybe_parts_value_only jb : jr_maybe_parts (Some (JObj [(JStr s_value, jb)])) = JOk (true, Some jb).
  Proof. reflexivity. Qed.
  Lemma maybe_parts_value_ok jb : jr_maybe_parts (Some (JObj [(JStr s_value, jb); (JStr s_ok, JBool true)])) = JOk (true, Some jb).
  Proof. reflexivity. Qed.
  Lemma union_parts_value_type nm jb :
    jr_union_parts (Some (JObj [(JStr s_value, jb); (JStr s_type, JStr nm)])) = JOk (nm, Some jb).
  Proof. reflexivity. Qed.
  Lemma union_parts_str nm : jr_union_parts (Some (JStr nm)) = JOk (nm, None).
  Proof. reflexivity. Qed.

  (** *** the theorem *)
  Theorem alt_all : forall fuel v, (vdepth v < fuel)%nat -> ARTP fuel v.
  Proof.
    induction fuel as [|f IH]; intros v Hdep; [lia|].
    assert (Hf1 : exists f', f = S f') by (destruct f; [destruct v; cbn [vdepth] in Hdep; lia|eauto]).
    destruct Hf1 as [f' Ef].
    intros c t ps j0 j Hw Ha Hdg.
    destruct v as [n|str|bv|fs|idx fs|es]; cbn [jsonw jsonw_alt jdiag] in Hw, Ha, Hdg; cbn [jsonr];
      destruct (nth_error js t) as [[d a]|] eqn:Et; try discriminate; subst f.
    - destruct d as [p| | | |]; try discriminate; try (destruct a; discriminate).
      apply (prim_alt_rt c p _ j0 j Hw Ha). destruct p; try reflexivity; exact Hdg.
    - destruct d as [p| | | |]; try discriminate; try (destruct a; discriminate).
      apply (prim_alt_rt c p _ j0 j Hw Ha). destruct p; reflexivity.
    - destruct d as [p| | | |]; try discriminate; try (destruct a; discriminate).
      apply (prim_alt_rt c p _ j0 j Hw Ha). destruct p; reflexivity.
    - (* VStruct *)
      destruct d as [p|tag fds| | |]; try discriminate; try (destruct p; discriminate); try (destruct a; discriminate).
      destruct (ann_struct js Hwf _ _ _ _ Et) as (tl2 & td & fis & -> & L & Hann & Hnd & Htd & Hfok).
      assert (IHf : forall x, In (Some x) fs -> ARTP (S f') x).
      { intros x Hx. apply IH. cbn [vdepth] in Hdep. pose proof (depth_opts_le fs x Hx). lia. }
      assert (Hdf : forall x, In (Some x) fs -> (vdepth x < S f')%nat).
      { intros x Hx. cbn [vdepth] in Hdep. pose proof (depth_opts_le fs x Hx). lia. }
      rewrite (alt_body_any f' tl2 td fds fis ps fs c j0 j L Hann Hnd Hfok Htd IHf Hdf Hw Ha); [reflexivity|].
      destruct td; [|exact Hdg]. destruct fds as [|? [|? ?]]; try exact I. destruct fs as [|[?|] [|? ?]]; try exact I. exact Hdg.
    - (* VUnion *)
      destruct d as [p|tag fds|vars| |]; try discriminate; try (destruct p; discriminate); try (destruct a; discriminate).
      destruct a as [|tl2 is_enum is_maybe vns|]; try discriminate.
      destruct (nth_error vars idx) as [vt|] eqn:Evt; [|discriminate].
      destruct (nth_error vns idx) as [vn|] eqn:Evn; [|discriminate].
      destruct (nth_error js vt) as [[[?|tagv fdsv|?|? ?|? ?] [tl2v tdv fisv| |]]|] eqn:Ev; try discriminate.
      destruct (ann_struct js Hwf _ _ _ _ Ev) as (? & ? & ? & [= <- <- <-] & Lv & Hannv & Hndv & Htdv & Hfokv).
      pose proof (wf_ann js Hwf _ _ _ Et) as Hann. cbn [ann_ok] in Hann.
      apply andb_true_iff in Hann as [Hann Henum]. apply andb_true_iff in Hann as [Hann Hkind].
      apply andb_true_iff in Hann as [Hann Hvars]. apply andb_true_iff in Hann as [Hlen Hnames].
      assert (IHf : forall x, In (Some x) fs -> ARTP (S f') x).
      { intros x Hx. apply IH. cbn [vdepth] in Hdep. pose proof (depth_opts_le fs x Hx). lia. }
      assert (Hdf : forall x, In (Some x) fs -> (vdepth x < S f')%nat).
      { intros x Hx. cbn [vdepth] in Hdep. pose proof (depth_opts_le fs x Hx). lia. }
      destruct (jw_body js _ _ fdsv fisv ps fs) as [jbc|] eqn:Ebc; [|discriminate]. cbn [bind_opt] in Hw.
      destruct (jw_body_alt ffmt js _ c _ fdsv fisv ps fs) as [jba|] eqn:Eba; [|discriminate]. cbn [bind_opt] in Ha.
      destruct is_maybe.
      + (* Maybe *)
        destruct vars as [|v0 [|v1 [|? ?]]]; try discriminate.
        destruct (variant_fields js v0) as [[[|? ?] [|]]|] eqn:E0; try discriminate.
        destruct (variant_fields js v1) as [[[|fd1 [|? ?]] td1]|] eqn:E1; try discriminate.
        destruct idx as [|[|idx]]; cbn [nth_error] in Evt; try discriminate.
        * injection Evt as <-. unfold variant_fields in E0. rewrite Ev in E0. injection E0 as -> ->.
          destruct fisv; [|discriminate]. cbn [Nat.eqb negb andb orb] in Ebc. unfold jw_body in Ebc.
          destruct fs; [|discriminate].
          destruct (pick c 4 2 =? 1); injection Ha as <-; reflexivity.
        * injection Evt as <-. unfold variant_fields in E1. rewrite Ev in E1. injection E1 as -> ->.
          apply negb_true_iff in Hkind.
          cbn [Nat.eqb negb andb orb] in Ebc, Eba, Hdg. rewrite orb_true_r in Ebc, Eba, Hdg.
          assert (Hfs : exists v', fs = [Some v']).
          { unfold jw_body in Ebc. destruct fs as [|[v'|] [|? ?]]; try discriminate. eauto. }
          destruct Hfs as [v' ->].
          assert (Htd' : true = true -> exists fd, [fd1] = [fd] /\ f_mask fd = None).
          { intros _. exists fd1. split; [reflexivity|]. destruct (f_mask fd1); [discriminate|reflexivity]. }
          pose proof (alt_body_any f' tl2v true [fd1] fisv ps [Some v'] c jbc jba Lv Hannv Hndv Hfokv Htd' IHf Hdf Ebc Eba (jdiag_mono js _ _ _ Hdg)) as Hb.
          cbn [nth_error]. rewrite Ev.
          destruct (body_nonempty js true [fd1] [Some v'] || (pick c 4 2 =? 1)) eqn:Ene.
          -- destruct (pick c 5 3) as [|[?|?|]]; injection Ha as <-;
               rewrite ?maybe_parts_value, ?maybe_parts_value_only, ?maybe_parts_value_ok; cbn [jbind fst snd]; now rewrite Hb.
          -- injection Ha as <-. rewrite maybe_parts_ok. cbn [jbind fst snd].
             apply orb_false_iff in Ene as [Ene _]. cbn [body_nonempty] in Ene.
             cbn [fields_ok] in Hfokv. apply andb_true_iff in Hfokv as [Hfokv _].
             unfold field_ok in Hfokv. apply andb_true_iff in Hfokv as [_ Hargs].
             unfold jw_body in Ebc. rewrite (eval_args_nofield ps _ _ Hargs) in Ebc, Hdg.
             destruct (rt_all ffmt fparse js Hfmt Hparse Hwf (S f') v' (Hdf v' (or_introl eq_refl))) as [_ Hemp].
             destruct (Hemp _ _ _ Ebc Ene Hdg) as [E1' _].
             unfold jr_body. rewrite E1'. reflexivity.
        * destruct idx; discriminate.
      + (* plain union / enum *)
        rewrite forallb_forall in Hkind.
        assert (Hidx : In idx (seq 0 (length vars))).
        { apply in_seq. split; [lia|]. cbn. apply nth_error_Some. congruence. }
        specialize (Hkind idx Hidx). rewrite Evt, Evn in Hkind. apply andb_true_iff in Hkind as [Hk1 Hk2].
        set (name := if tl2 && (pick c 3 2 =? 1) then vn_var vn else wname vn) in *.
        assert (Eft : find_tag js tl2 vars vns name 0 = Some (idx, vt, false)).
        { assert (G : forall nm, tag_reads_as js tl2 vars vns nm idx vt = true -> find_tag js tl2 vars vns nm 0 = Some (idx, vt, false)).
          { intros nm H. unfold tag_reads_as in H. destruct (find_tag js tl2 vars vns nm 0) as [[[i' vt'] legacy]|]; [|discriminate].
            apply andb_true_iff in H as [H1 H3]. apply andb_true_iff in H1 as [H1 H2].
            apply Nat.eqb_eq in H1, H2. apply negb_true_iff in H3. now subst. }
          unfold name. destruct tl2; cbn [andb]; [|now apply G]. destruct (pick c 3 2 =? 1); now apply G. }
        clearbody name.
        assert (Henum' : is_enum = true -> fdsv = []).
        { intros ->. rewrite forallb_forall in Henum. specialize (Henum vt (nth_error_In _ _ Evt)).
          unfold variant_fields in Henum. rewrite Ev in Henum. destruct fdsv; [reflexivity|discriminate]. }
        assert (Hempty : fdsv = [] -> fs = []).
        { intros ->. cbn [orb] in Ebc. rewrite orb_false_r in Ebc. unfold jw_body in Ebc. destruct tdv.
          - destruct (Htdv eq_refl) as (? & ? & _). discriminate.
          - destruct fisv; [|discriminate]. destruct fs; [reflexivity|]. cbn [jw_fields] in Ebc. discriminate. }
        cbn [andb orb] in Ebc, Eba. rewrite orb_false_r in Ebc, Eba.
        destruct is_enum.
        * rewrite (Henum' eq_refl) in *. rewrite (Hempty eq_refl).
          destruct (pick c 4 2 =? 1); injection Ha as <-; rewrite ?union_parts_type, ?union_parts_str; cbn [jbind fst snd];
            now rewrite Eft, Ev.
        * (* reading the body, present or absent *)
          assert (Hd' : if tdv then match fdsv, fs with
                                    | [fd], [Some v'] => jdiag js (f_ty fd) (eval_args ps fs (f_args fd)) false v' = []
                                    | _, _ => True
                                    end
                        else jd_fields (fun t' ps' o' v' => jdiag js t' ps' o' v') ps fs fdsv fs = []).
          { cbn [orb] in Hdg. destruct tdv; [|exact Hdg].
            destruct fdsv as [|? [|? ?]]; try exact I. destruct fs as [|[?|] [|? ?]]; try exact I. now apply jdiag_mono. }
          pose proof (alt_body_any f' tl2v tdv fdsv fisv ps fs c jbc jba Lv Hannv Hndv Hfokv Htdv IHf Hdf Ebc Eba Hd') as Hb.
          assert (Hval : forall r, r = JOk (VUnion idx fs) ->
                    match fdsv with
                    | [] => JOk (VUnion idx [])
                    | _ :: _ => jbind (jr_body js (R (S f')) (reset_value js (S f')) tl2v tdv fdsv fisv ps (Some jba))
                                      (fun fs0 => JOk (VUnion idx fs0))
                    end = r).
          { intros r ->. destruct fdsv; [now rewrite (Hempty eq_refl)|now rewrite Hb]. }
          assert (Hnov : body_nonempty js tdv fdsv fs = false -> fdsv <> [] ->
                    jbind (jr_body js (R (S f')) (reset_value js (S f')) tl2v tdv fdsv fisv ps None)
                          (fun fs0 => JOk (VUnion idx fs0)) = JOk (VUnion idx fs)).
          { intros Ene _. unfold body_nonempty in Ene. destruct tdv; [|discriminate].
            destruct (Htdv eq_refl) as (fd & -> & Hm).
            unfold jw_body in Ebc. destruct fs as [|[v'|] [|? ?]]; try discriminate.
            cbn [fields_ok] in Hfokv. apply andb_true_iff in Hfokv as [Hfokv _].
            unfold field_ok in Hfokv. apply andb_true_iff in Hfokv as [_ Hargs].
            cbn [orb] in Hdg. rewrite (eval_args_nofield ps _ _ Hargs) in Ebc, Hdg.
            destruct (rt_all ffmt fparse js Hfmt Hparse Hwf (S f') v' (Hdf v' (or_introl eq_refl))) as [_ Hemp].
            destruct (Hemp _ _ _ Ebc Ene Hdg) as [E1' _].
            unfold jr_body. now rewrite E1'. }
          destruct fdsv as [|fd0 fdsv'] eqn:Efds.
          -- rewrite (Hempty eq_refl).
             destruct (pick c 4 3 =? 1); [destruct (pick c 5 2) as [|?]|destruct (pick c 5 2 =? 1)]; injection Ha as <-;
               rewrite ?union_parts_value, ?union_parts_value_type, ?union_parts_type, ?union_parts_str; cbn [jbind fst snd];
               now rewrite Eft, Ev.
          -- rewrite <- Efds in *.
             destruct (body_nonempty js tdv fdsv fs || (pick c 4 3 =? 1)) eqn:Ene.
             ++ destruct (pick c 5 2) as [|?]; injection Ha as <-;
                  rewrite ?union_parts_value, ?union_parts_value_type; cbn [jbind fst snd]; rewrite Eft, Ev;
                  rewrite Efds; rewrite <- Efds; now rewrite Hb.
             ++ apply orb_false_iff in Ene as [Ene _].
                assert (Hne : fdsv <> []) by (rewrite Efds; discriminate).
                destruct (pick c 5 2 =? 1); injection Ha as <-;
                  rewrite ?union_parts_type, ?union_parts_str; cbn [jbind fst snd]; rewrite Eft, Ev;
                  rewrite Efds; rewrite <- Efds; exact (Hnov Ene Hne).
    - (* VArr *)
      destruct d as [p| | |k ef|kp ef]; try discriminate; try (destruct p; discriminate); try (destruct a; discriminate).
      + destruct (jw_elems _ es) as [l0|] eqn:El0; [|discriminate]. cbn [bind_opt] in Hw.
        destruct (jw_elems_alt _ c 0 es) as [l|] eqn:El; [|discriminate]. cbn [bind_opt] in Ha.
        assert (IHe : forall e, In e es -> ARTP (S f') e).
        { intros e He. apply IH. cbn [vdepth] in Hdep. pose proof (depth_elems_le es e He). lia. }
        destruct (elems_alt_rt (S f') _ _ c es 0 l0 l IHe El0 El Hdg) as [E1 E2].
        assert (Hlen : lenN l = lenN es) by (unfold lenN; now rewrite E2).
        destruct k as [| |cnt].
        * injection Ha as <-. cbn [jr_array_items jbind]. rewrite E1. reflexivity.
        * destruct (lenN es =? nth 0 ps 0) eqn:Ec; [|discriminate]. injection Ha as <-.
          cbn [jr_array_items jbind]. rewrite Hlen, Ec, E1. reflexivity.
        * destruct (lenN es =? cnt) eqn:Ec; [|discriminate]. injection Ha as <-.
          cbn [jr_array_items jbind]. rewrite Hlen, Ec, E1. reflexivity.
      + destruct (dict_fields js (f_ty ef)) as [[kf vf]|] eqn:Edf; [|discriminate].
        destruct (keys_sorted kp es) eqn:Eks; [|discriminate].
        destruct (jw_entries _ kp es) as [ms0|] eqn:Em0; [|discriminate].
        destruct (jw_entries_alt _ c kp 0 es) as [ms|] eqn:Em; [|discriminate]. cbn [option_map] in Ha. injection Ha as <-.
        assert (IHx : forall k x, In (VStruct [Some k; Some x]) es -> ARTP (S f') x).
        { intros k x He. apply IH. cbn [vdepth] in Hdep. pose proof (depth_elems_le es _ He) as Hle.
          cbn [vdepth fold_right] in Hle. lia. }
        pose proof (entries_alt_f2 (S f') _ _ kp c es 0 ms0 ms IHx Em0 Em Hdg) as F2.
        destruct rot.
        * rewrite (entries_forall2 _ _ _ _ _ _ (Forall2_rotate _ (pick c 2 5) _ _ F2)). cbn [jbind].
          now rewrite (dict_fold_rotate kp _ es Eks).
        * rewrite (entries_forall2 _ _ _ _ _ _ F2). cbn [jbind].
          now rewrite (dict_fold_sorted kp es [] Eks).
  Qed.

  (** C06: every spelling the generator makes -- any seed, so any combination of the documented alternative
      forms, with or without reordering the members of dictionaries -- is read exactly like the canonical
      spelling: as the value *)
  Theorem jsonw_alt_jsonr c t ps v j0 j fuel :
    (vdepth v < fuel)%nat -> W t ps v = Some j0 -> WA c t ps v = Some j -> jdiag js t ps false v = [] ->
    R fuel t ps (Some j) = JOk v /\ R fuel t ps (Some j) = R fuel t ps (Some j0).
  Proof.
    intros Hd Hw Ha Hdg. split; [exact (alt_all fuel v Hd c t ps j0 j Hw Ha Hdg)|].
    rewrite (alt_all fuel v Hd c t ps j0 j Hw Ha Hdg).
    symmetry. exact (jsonw_jsonr ffmt fparse js Hfmt Hparse Hwf t ps v j0 fuel Hd Hw Hdg).
  Qed.
End AltRT.
