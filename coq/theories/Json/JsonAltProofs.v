(** Proofs about [Json], part 4 (C06): the reader maps the documented alternative spellings to what it reads
    from the canonical spelling, and rejects the documented invalid shapes. *)
From Coq Require Import ZArith Lia ZifyN ZifyNat ZifyBool Permutation.
From TLV Require Import Prim.PrimModel Tl1.Tl1Model Tl1.Tl1Proofs
  Jprim.JprimModel Jprim.JprimUtf8 Jprim.JprimEsc Jprim.JprimStr Jprim.JprimProofs
  Json.JsonModel Json.JsonText Json.JsonProofs Json.JsonRoundtrip.
Ltac Zify.zify_post_hook ::= Z.div_mod_to_equations.
Open Scope N_scope.

Section Alt.
  Variable fparse : bool -> bytes -> option N.
  Variable js : jschema.
  Notation R := (jsonr fparse js).

  (** ** rule: a number given as a decimal string *)
  Lemma num_ok_not_special t : num_ok t = true ->
    bytes_eqb t s_NaN = false /\ bytes_eqb t s_pInf = false /\ bytes_eqb t s_nInf = false.
  Proof.
    intros H. repeat split; apply bytes_eqb_neq; intros ->; vm_compute in H; discriminate.
  Qed.

  Theorem alt_number_as_string p t : num_ok t = true ->
    match p with PString | PBool _ _ | PNoTL1 => True | _ => jr_prim fparse p (Some (JStr t)) = jr_prim fparse p (Some (JNum t)) end.
  Proof.
    intros H. destruct p; try exact I; cbn [jr_prim jr_uint_t jr_int_t jr_float_t]; rewrite ?H; try reflexivity;
      destruct (num_ok_not_special t H) as (A & B & C); now rewrite A, B, C.
  Qed.

  (** ** rule: a string given as {"base64": ...} *)
  Theorem alt_string_as_base64 s : bytes_ok s ->
    jr_string_t (Some (JObj [(JStr s_base64, JStr (b64_enc s))])) = JOk s.
  Proof.
    intros Hb.
    cbn [jr_string_t members keys_known keys_nodup forallb existsb fst snd jfind is_some negb andb orb].
    replace (key_is s_base64 (JStr s_base64)) with true by reflexivity.
    cbn [andb orb jbind jfind]. replace (key_is s_base64 (JStr s_base64)) with true by reflexivity.
    now rewrite (b64_roundtrip s Hb).
  Qed.

  (** ** rules: Maybe with or without "ok" *)
  Theorem alt_maybe_ok_optional x :
    jr_maybe_parts (Some (JObj [(JStr s_value, x)])) = jr_maybe_parts (Some (JObj [(JStr s_ok, JBool true); (JStr s_value, x)]))
    /\ jr_maybe_parts (Some (JObj [(JStr s_value, x); (JStr s_ok, JBool true)])) = jr_maybe_parts (Some (JObj [(JStr s_ok, JBool true); (JStr s_value, x)])).
  Proof. split; reflexivity. Qed.

  Theorem alt_maybe_empty : jr_maybe_parts (Some (JObj [(JStr s_ok, JBool false)])) = jr_maybe_parts (Some (JObj []))
    /\ jr_maybe_parts None = jr_maybe_parts (Some (JObj [])).
  Proof. split; reflexivity. Qed.

  (** ** rules: enum as an object, union as a bare type string *)
  Theorem alt_union_type_string nm :
    jr_union_parts (Some (JStr nm)) = jr_union_parts (Some (JObj [(JStr s_type, JStr nm)])).
  Proof. reflexivity. Qed.

  Theorem alt_union_member_order nm x :
    jr_union_parts (Some (JObj [(JStr s_value, x); (JStr s_type, JStr nm)]))
    = jr_union_parts (Some (JObj [(JStr s_type, JStr nm); (JStr s_value, x)])).
  Proof. reflexivity. Qed.

  (** ** rejections *)
  (** unknown key *)
  Theorem reject_unknown_key f t ps tag fds tl2 fis ms :
    nth_error js t = Some (TStruct tag fds, AStruct tl2 false fis) ->
    keys_known (map jf_name fis) ms = false ->
    R (S f) t ps (Some (JObj ms)) = JReject.
  Proof. intros Et Hk. cbn [jsonr]. rewrite Et. unfold jr_body. cbn [members]. now rewrite Hk. Qed.

  (** a member whose name is none of the field names makes [keys_known] false *)
  Lemma keys_known_false names ms k x :
    In (k, x) ms -> (forall nm, In nm names -> key_is nm k = false) -> keys_known names ms = false.
  Proof.
    intros Hin Hno. unfold keys_known. apply not_true_is_false. intros H.
    rewrite forallb_forall in H. specialize (H _ Hin). cbn [fst] in H.
    apply existsb_exists in H as (nm & Hnm & Hk). now rewrite (Hno nm Hnm) in Hk.
  Qed.

  (** duplicate key *)
  Theorem reject_duplicate_key f t ps tag fds tl2 fis ms :
    nth_error js t = Some (TStruct tag fds, AStruct tl2 false fis) ->
    keys_nodup ms = false ->
    R (S f) t ps (Some (JObj ms)) = JReject.
  Proof. intros Et Hk. cbn [jsonr]. rewrite Et. unfold jr_body. cbn [members]. rewrite Hk. now rewrite andb_false_r. Qed.

  Lemma keys_nodup_dup k x y a b c : keys_nodup (a ++ (JStr k, x) :: b ++ (JStr k, y) :: c) = false.
  Proof.
    induction a as [|[k0 x0] a IH]; cbn [app keys_nodup].
    - assert (H : is_some (jfind (raw_str k) (b ++ (JStr k, y) :: c)) = true).
      { induction b as [|[k1 x1] b IHb]; cbn [app jfind key_is].
        - now rewrite bytes_eqb_refl.
        - destruct (key_is (raw_str k) k1); [reflexivity|exact IHb]. }
      now rewrite H.
    - destruct k0; try reflexivity. rewrite IH. apply andb_false_r.
  Qed.

  (** array length different from the size parameter *)
  Theorem reject_array_length f t ps k ef a l :
    nth_error js t = Some (TArray k ef, a) ->
    match k with
    | AVector => False
    | ATupleDyn => lenN l <> nth 0 ps 0
    | ATupleFixed c => lenN l <> c
    end ->
    R (S f) t ps (Some (JArr l)) = JReject.
  Proof.
    intros Et Hk. cbn [jsonr]. rewrite Et. cbn [jr_array_items jbind].
    destruct k as [| |c]; [destruct Hk| |].
    - replace (lenN l =? nth 0 ps 0) with false by lia. reflexivity.
    - replace (lenN l =? c) with false by lia. reflexivity.
  Qed.

  (** the same for an omitted tuple member (nil lexer) with a non-zero size *)
  Theorem reject_omitted_tuple f t ps k ef a :
    nth_error js t = Some (TArray k ef, a) ->
    match k with
    | AVector => False
    | ATupleDyn => nth 0 ps 0 <> 0
    | ATupleFixed c => c <> 0
    end ->
    R (S f) t ps None = JReject.
  Proof.
    intros Et Hk. cbn [jsonr]. rewrite Et. cbn [jr_array_items jbind lenN length N.of_nat].
    destruct k as [| |c]; [destruct Hk| |].
    - replace (0 =? nth 0 ps 0) with false by lia. reflexivity.
    - replace (0 =? c) with false by lia. reflexivity.
  Qed.

  (** Maybe: ok:false together with a value *)
  Theorem reject_maybe_ok_false_value f t ps vars tl2 is_enum vns ms x :
    nth_error js t = Some (TUnion vars, AUnion tl2 is_enum true vns) ->
    jfind s_ok ms = Some (JBool false) -> jfind s_value ms = Some x ->
    R (S f) t ps (Some (JObj ms)) = JReject.
  Proof.
    intros Et Hok Hv. cbn [jsonr]. rewrite Et. cbn [jr_maybe_parts members].
    destruct (keys_known [s_value; s_ok] ms && keys_nodup ms); [|reflexivity].
    cbn [jbind]. now rewrite Hok, Hv.
  Qed.

  (** a true-typed member given as false while its mask bit is set, in a type without TL2: the field step
      rejects (any kind of mask; [acc] = the fields read before it) *)
  Theorem reject_true_false_field recr rst ps allfds allfis ms sets adds fd fi idx acc :
    jf_bit fi = true -> jfind (jf_name fi) ms = Some (JBool false) -> nth idx sets false = false ->
    field_present ps acc fd = true ->
    jr_field js recr rst false ps allfds allfis ms sets adds fd fi idx acc = JReject.
  Proof.
    intros Hb Hf Hs Hp. unfold jr_field. rewrite Hb, Hf, Hs, Hp. cbn [negb andb is_some].
    rewrite !andb_false_r. reflexivity.
  Qed.

  (** ... and so does the whole object when the mask is an outer / constant one whose bit is set *)
  Lemma jr_fields_bit_false recr rst ps allfds allfis ms sets adds : forall fds fis idx acc k fd fi,
    nth_error fds k = Some fd -> nth_error fis k = Some fi ->
    jf_bit fi = true -> jfind (jf_name fi) ms = Some (JBool false) -> nth (idx + k) sets false = false ->
    (forall acc', field_present ps acc' fd = true) ->
    forall r, jr_fields js recr rst false ps allfds allfis ms sets adds fds fis idx acc <> JOk r.
  Proof.
    induction fds as [|fd0 fds IH]; intros fis idx acc k fd fi Hfd Hfi Hb Hf Hs Hp r; [destruct k; discriminate|].
    destruct fis as [|fi0 fis]; [destruct k; discriminate|].
    cbn [jr_fields]. destruct k as [|k]; cbn [nth_error] in Hfd, Hfi.
    - injection Hfd as <-. injection Hfi as <-. rewrite Nat.add_0_r in Hs.
      rewrite (reject_true_false_field recr rst ps allfds allfis ms sets adds fd0 fi0 idx acc Hb Hf Hs (Hp acc)).
      discriminate.
    - destruct (jr_field js recr rst false ps allfds allfis ms sets adds fd0 fi0 idx acc) as [o| | |]; cbn [jbind]; try discriminate.
      apply (IH fis (S idx) (acc ++ [o]) k fd fi); auto. now replace (S idx + k)%nat with (idx + S k)%nat by lia.
  Qed.

  Lemma set_flags_nth fis ms : forall sets, set_flags fis ms = JOk sets ->
    forall k fi, nth_error fis k = Some fi -> jf_bit fi = true -> jfind (jf_name fi) ms = Some (JBool false) ->
      nth k sets false = false.
  Proof.
    induction fis as [|fi0 fis IH]; intros sets H k fi Hfi Hb Hf; [destruct k; discriminate|].
    cbn [set_flags] in H.
    destruct (if jf_bit fi0 then bit_member (jf_name fi0) ms else JOk (is_some (jfind (jf_name fi0) ms))) as [b| | |] eqn:E0; try discriminate.
    cbn [jbind] in H. destruct (set_flags fis ms) as [l| | |] eqn:E1; try discriminate. cbn [jbind] in H. injection H as <-.
    destruct k as [|k]; cbn [nth_error nth] in *.
    - injection Hfi as <-. rewrite Hb in E0. unfold bit_member in E0. rewrite Hf in E0. now injection E0 as <-.
    - eapply IH; eauto.
  Qed.

  Theorem reject_true_false_outer_mask f t ps tag fds fis ms k fd fi a bit :
    nth_error js t = Some (TStruct tag fds, AStruct false false fis) ->
    nth_error fds k = Some fd -> nth_error fis k = Some fi ->
    jf_bit fi = true -> jfind (jf_name fi) ms = Some (JBool false) ->
    f_mask fd = Some (a, bit) -> (forall g, a <> NField g) -> N.testbit (eval_natarg ps [] a) bit = true ->
    forall r, R (S f) t ps (Some (JObj ms)) <> JOk r.
  Proof.
    intros Et Hfd Hfi Hb Hf Hm Ha Hbit r. cbn [jsonr]. rewrite Et. unfold jr_body. cbn [members].
    destruct (keys_known (map jf_name fis) ms && keys_nodup ms); [|discriminate]. cbn [jbind].
    destruct (set_flags fis ms) as [sets| | |] eqn:Es; cbn [jbind]; try discriminate.
    destruct (negb false && negb (chain_ends_ok fds sets ps)); [discriminate|].
    intros H.
    destruct (jr_fields js (R f) (reset_value js f) false ps fds fis ms sets (all_adds fds sets) fds fis 0 []) as [fs| | |] eqn:Ef; try discriminate.
    apply (jr_fields_bit_false (R f) (reset_value js f) ps fds fis ms sets (all_adds fds sets) fds fis 0%nat [] k fd fi Hfd Hfi Hb Hf
             (set_flags_nth fis ms sets Es k fi Hfi Hb Hf)) with (r := fs); [|exact Ef].
    intros acc'. unfold field_present. rewrite Hm.
    destruct a as [c|g|i]; [exact Hbit|exfalso; exact (Ha g eq_refl)|exact Hbit].
  Qed.

  (** ** rule: members in another order *)
  Definition rawk (m : json * json) : bytes := match fst m with JStr s => raw_str s | _ => [] end.
  Definition strkey (m : json * json) : Prop := exists s, fst m = JStr s.

  Lemma key_is_rawk nm m : strkey m -> key_is nm (fst m) = bytes_eqb (rawk m) nm.
  Proof. intros [s E]. unfold rawk. now rewrite E. Qed.

  Lemma jfind_none nm ms : Forall strkey ms -> (jfind nm ms = None <-> ~ In nm (map rawk ms)).
  Proof.
    induction ms as [|[k x] ms IH]; intros HF; cbn [jfind map In]; [tauto|].
    apply Forall_cons_iff in HF as [Hs HF]. specialize (IH HF).
    change k with (fst (k, x)) at 1. rewrite (key_is_rawk nm (k, x) Hs).
    destruct (bytes_eqb (rawk (k, x)) nm) eqn:E.
    - apply bytes_eqb_eq in E. split; [discriminate|]. intros H. exfalso. apply H. now left.
    - rewrite IH. split.
      + intros H [H1|H1]; [|tauto]. rewrite H1, bytes_eqb_refl in E. discriminate.
      + intros H H1. apply H. now right.
  Qed.

  Lemma keys_nodup_spec ms : keys_nodup ms = true <-> Forall strkey ms /\ NoDup (map rawk ms).
  Proof.
    induction ms as [|[k x] ms IH]; cbn [keys_nodup map].
    - split; [intros _; split; constructor|reflexivity].
    - destruct k; try (split; [discriminate|intros [H _]; apply Forall_cons_iff in H as [[s0 E] _]; discriminate]).
      rewrite andb_true_iff, negb_true_iff, IH. split.
      + intros [H1 [H2 H3]]. split; [constructor; [now exists s|exact H2]|].
        constructor; [|exact H3]. apply (jfind_none (raw_str s) ms H2).
        destruct (jfind (raw_str s) ms); [discriminate|reflexivity].
      + intros [H1 H2]. apply Forall_cons_iff in H1 as [_ H1]. apply NoDup_cons_iff in H2 as [H2 H3].
        split; [|split; assumption]. apply (jfind_none (raw_str s) ms H1) in H2. now rewrite H2.
  Qed.

  Lemma keys_nodup_perm ms ms' : Permutation ms ms' -> keys_nodup ms = keys_nodup ms'.
  Proof.
    intros HP.
    assert (G : forall a b, Permutation a b -> keys_nodup a = true -> keys_nodup b = true).
    { intros a b Hab Ha. apply keys_nodup_spec in Ha as [H1 H2]. apply keys_nodup_spec. split.
      - eapply Permutation_Forall; eauto.
      - eapply Permutation_NoDup; [apply Permutation_map; exact Hab|exact H2]. }
    destruct (keys_nodup ms) eqn:E1.
    - symmetry. now apply (G ms ms').
    - destruct (keys_nodup ms') eqn:E2; [|reflexivity]. rewrite (G ms' ms (Permutation_sym HP) E2) in E1. discriminate.
  Qed.

  Lemma keys_known_perm names ms ms' : Permutation ms ms' -> keys_known names ms = keys_known names ms'.
  Proof.
    intros HP. unfold keys_known.
    assert (G : forall (a b : list (json * json)) g, Permutation a b -> forallb g a = true -> forallb g b = true).
    { intros a b g Hab Ha. rewrite forallb_forall in *. intros y Hy. apply Ha. eapply Permutation_in; [apply Permutation_sym|]; eauto. }
    destruct (forallb _ ms) eqn:E1.
    - symmetry. eapply G; eauto.
    - destruct (forallb _ ms') eqn:E2; [|reflexivity]. rewrite (G ms' ms _ (Permutation_sym HP) E2) in E1. discriminate.
  Qed.

  (** with distinct names, [jfind] is membership *)
  Lemma jfind_some nm ms x : Forall strkey ms -> NoDup (map rawk ms) ->
    (jfind nm ms = Some x <-> exists k, In (k, x) ms /\ rawk (k, x) = nm).
  Proof.
    induction ms as [|[k0 x0] ms IH]; intros HF HN; cbn [jfind map In].
    - split; [discriminate|intros (k & [] & _)].
    - apply Forall_cons_iff in HF as [Hs HF]. cbn [map] in HN. apply NoDup_cons_iff in HN as [Hn HN].
      specialize (IH HF HN).
      change k0 with (fst (k0, x0)) at 1. rewrite (key_is_rawk nm (k0, x0) Hs).
      destruct (bytes_eqb (rawk (k0, x0)) nm) eqn:E.
      + apply bytes_eqb_eq in E. split.
        * intros [= <-]. exists k0. split; [now left|exact E].
        * intros (k & [Hin|Hin] & Hk); [now injection Hin as _ <-|].
          exfalso. apply Hn. rewrite E, <- Hk. now apply (in_map rawk ms (k, x)).
      + rewrite IH. split.
        * intros (k & Hin & Hk). exists k. split; [now right|exact Hk].
        * intros (k & [Hin|Hin] & Hk).
          -- injection Hin as <- <-. rewrite Hk, bytes_eqb_refl in E. discriminate.
          -- exists k. now split.
  Qed.

  Lemma jfind_perm nm ms ms' : Permutation ms ms' -> keys_nodup ms = true -> jfind nm ms = jfind nm ms'.
  Proof.
    intros HP Hn. pose proof Hn as Hn'. rewrite (keys_nodup_perm _ _ HP) in Hn'.
    apply keys_nodup_spec in Hn as [F1 N1]. apply keys_nodup_spec in Hn' as [F2 N2].
    destruct (jfind nm ms) as [x|] eqn:E1.
    - symmetry. apply (jfind_some nm ms' x F2 N2). apply (jfind_some nm ms x F1 N1) in E1 as (k & Hin & Hk).
      exists k. split; [eapply Permutation_in; eauto|exact Hk].
    - symmetry. apply (jfind_none nm ms' F2). apply (jfind_none nm ms F1) in E1. intros Hin. apply E1.
      eapply Permutation_in; [apply Permutation_sym, Permutation_map; exact HP|exact Hin].
  Qed.

  (** the struct reader uses the member list only through [jfind] *)
  Section Ext.
    Variables (ms ms' : list (json * json)).
    Hypothesis Hext : forall nm, jfind nm ms = jfind nm ms'.

    Lemma set_flags_ext fis : set_flags fis ms = set_flags fis ms'.
    Proof.
      induction fis as [|fi fis IH]; cbn [set_flags]; [reflexivity|].
      unfold bit_member. now rewrite Hext, IH.
    Qed.

    Lemma mask_bit_before_ext fis ps fd : mask_bit_before fis ms ps fd = mask_bit_before fis ms' ps fd.
    Proof. unfold mask_bit_before, base_nat. destruct (f_mask fd) as [[[c|g|i] bit]|]; try reflexivity.
      destruct (nth_error fis g); [|reflexivity]. now rewrite Hext. Qed.

    Lemma jr_field_ext recr rst tl2 ps allfds allfis sets adds fd fi idx acc :
      jr_field js recr rst tl2 ps allfds allfis ms sets adds fd fi idx acc
      = jr_field js recr rst tl2 ps allfds allfis ms' sets adds fd fi idx acc.
    Proof. unfold jr_field. now rewrite Hext, mask_bit_before_ext. Qed.

    Lemma jr_fields_ext recr rst tl2 ps allfds allfis sets adds : forall fds fis idx acc,
      jr_fields js recr rst tl2 ps allfds allfis ms sets adds fds fis idx acc
      = jr_fields js recr rst tl2 ps allfds allfis ms' sets adds fds fis idx acc.
    Proof.
      induction fds as [|fd fds IH]; intros [|fi fis] idx acc; cbn [jr_fields]; try reflexivity.
      rewrite jr_field_ext. destruct (jr_field js recr rst tl2 ps allfds allfis ms' sets adds fd fi idx acc); cbn [jbind]; auto.
    Qed.
  End Ext.

  Theorem alt_member_order_struct f t ps tag fds tl2 fis ms ms' :
    nth_error js t = Some (TStruct tag fds, AStruct tl2 false fis) ->
    Permutation ms ms' ->
    R (S f) t ps (Some (JObj ms')) = R (S f) t ps (Some (JObj ms)).
  Proof.
    intros Et HP. cbn [jsonr]. rewrite Et. unfold jr_body. cbn [members].
    rewrite <- (keys_known_perm _ _ _ HP), <- (keys_nodup_perm _ _ HP).
    destruct (keys_known (map jf_name fis) ms) eqn:Ek; [|reflexivity].
    destruct (keys_nodup ms) eqn:En; [|reflexivity]. cbn [andb jbind].
    assert (Hext : forall nm, jfind nm ms' = jfind nm ms) by (intros nm; symmetry; now apply jfind_perm).
    rewrite (set_flags_ext ms' ms Hext).
    destruct (set_flags fis ms) as [sets| | |]; cbn [jbind]; try reflexivity.
    now rewrite (jr_fields_ext ms' ms Hext).
  Qed.

  (** the same for the members of a dictionary is not a rewrite of the reader but of the map it fills:
      covered by the correspondence run only *)
End Alt.
