(** Proofs about [Json], part 1: the text printed for a well-formed tree is valid JSON
    (RFC 8259 grammar of Jprim.JprimModel [valid_json_text], UTF-8 encoded). *)
From Coq Require Import ZArith Lia ZifyN ZifyNat ZifyBool.
From TLV Require Import Jprim.JprimModel Jprim.JprimUtf8 Jprim.JprimEsc Jprim.JprimStr Jprim.JprimProofs Json.JsonModel.
Ltac Zify.zify_post_hook ::= Z.div_mod_to_equations.
Open Scope N_scope.

(** induction principle for the nested [json] type *)
Section JsonInd.
  Variable P : json -> Prop.
  Hypothesis HNull : P JNull.
  Hypothesis HBool : forall b, P (JBool b).
  Hypothesis HNum : forall t, P (JNum t).
  Hypothesis HStr : forall s, P (JStr s).
  Hypothesis HArr : forall es, Forall P es -> P (JArr es).
  Hypothesis HObj : forall ms, Forall (fun m => P (fst m) /\ P (snd m)) ms -> P (JObj ms).
  Fixpoint json_ind' (j : json) : P j :=
    match j with
    | JNull => HNull
    | JBool b => HBool b
    | JNum t => HNum t
    | JStr s => HStr s
    | JArr es => HArr es ((fix go (l : list json) : Forall P l :=
                             match l with
                             | [] => Forall_nil _
                             | x :: r => Forall_cons x (json_ind' x) (go r)
                             end) es)
    | JObj ms => HObj ms ((fix go (l : list (json * json)) : Forall (fun m => P (fst m) /\ P (snd m)) l :=
                             match l with
                             | [] => Forall_nil _
                             | m :: r => Forall_cons m (conj (json_ind' (fst m)) (json_ind' (snd m))) (go r)
                             end) ms)
    end.
End JsonInd.

(** a byte that ends a value: structural characters only (what [jprint] puts after a value) *)
Definition closer (c : N) : Prop := c = 44 \/ c = 93 \/ c = 125.
Definition closed (rest : bytes) : Prop := match rest with [] => True | c :: _ => closer c end.

Lemma closer_not_ws c : closer c -> is_ws c = false.
Proof. unfold closer, is_ws. lia. Qed.
Lemma closer_not_digit c : closer c -> is_digit c = false.
Proof. unfold closer, is_digit, in_rng. lia. Qed.

Lemma skip_ws_closed rest : closed rest -> skip_ws rest = rest.
Proof. destruct rest as [|c r]; [reflexivity|]. cbn [closed skip_ws]. intros H. now rewrite closer_not_ws. Qed.

(** ** numbers *)
Lemma skip_digits_app a : forall rest, closed rest -> skip_digits a = [] -> skip_digits (a ++ rest) = rest.
Proof.
  induction a as [|c a IH]; intros rest Hc H; cbn [app].
  - destruct rest as [|d r]; [reflexivity|]. cbn [skip_digits]. cbn [closed] in Hc. rewrite (closer_not_digit _ Hc). reflexivity.
  - cbn [skip_digits] in *. destruct (is_digit c); [now apply IH|discriminate].
Qed.

(** generalisation: whatever [skip_digits] leaves of [a], it leaves of [a ++ rest] followed by [rest] *)
Lemma skip_digits_app_gen a : forall rest, closed rest ->
  skip_digits (a ++ rest) = match skip_digits a with [] => rest | x => x ++ rest end.
Proof.
  induction a as [|c a IH]; intros rest Hc; cbn [app skip_digits].
  - destruct rest as [|d r]; [reflexivity|]. cbn [skip_digits]. cbn [closed] in Hc. rewrite (closer_not_digit _ Hc). reflexivity.
  - destruct (is_digit c); [now apply IH|reflexivity].
Qed.

Lemma p_digits1_app a rest x : closed rest -> p_digits1 a = Some x ->
  p_digits1 (a ++ rest) = Some (match x with [] => rest | _ => x ++ rest end).
Proof.
  intros Hc. destruct a as [|c a]; cbn [p_digits1 app]; [discriminate|].
  destruct (is_digit c); [|discriminate]. intros [= <-]. rewrite skip_digits_app_gen by exact Hc. destruct (skip_digits a); reflexivity.
Qed.

Lemma app_nonnil_match {A} (x rest : list A) :
  match x with [] => rest | _ => x ++ rest end = x ++ rest.
Proof. destruct x; reflexivity. Qed.

Definition frac_part (s : bytes) : option bytes :=
  match s with c :: r => if c =? 46 then p_digits1 r else Some s | [] => Some s end.
Definition exp_part (s2 : bytes) : option bytes :=
  match s2 with
  | c :: r =>
      if (c =? 101) || (c =? 69) then
        match r with
        | d :: r2 => if (d =? 43) || (d =? 45) then p_digits1 r2 else p_digits1 r
        | [] => None
        end
      else Some s2
  | [] => Some s2
  end.
Lemma p_frac_exp_split s : p_frac_exp s = match frac_part s with None => None | Some s2 => exp_part s2 end.
Proof. reflexivity. Qed.

Lemma frac_part_app a rest y : closed rest -> frac_part a = Some y -> frac_part (a ++ rest) = Some (y ++ rest).
Proof.
  intros Hc. unfold frac_part. destruct a as [|c r]; cbn [app].
  - intros [= <-]. destruct rest as [|d r']; [reflexivity|]. cbn [closed] in Hc.
    destruct (d =? 46) eqn:E; [unfold closer in Hc; lia|reflexivity].
  - destruct (c =? 46); [|now intros [= <-]].
    intros Hy. rewrite (p_digits1_app _ _ _ Hc Hy). now rewrite app_nonnil_match.
Qed.

Lemma exp_part_app a rest y : closed rest -> exp_part a = Some y -> exp_part (a ++ rest) = Some (y ++ rest).
Proof.
  intros Hc. unfold exp_part. destruct a as [|c r]; cbn [app].
  - intros [= <-]. destruct rest as [|d r']; [reflexivity|]. cbn [closed] in Hc.
    destruct ((d =? 101) || (d =? 69)) eqn:E; [unfold closer in Hc; lia|reflexivity].
  - destruct ((c =? 101) || (c =? 69)); [|now intros [= <-]].
    destruct r as [|d r2]; [discriminate|]. cbn [app].
    destruct ((d =? 43) || (d =? 45)); intros H.
    + rewrite (p_digits1_app _ _ _ Hc H). now rewrite app_nonnil_match.
    + change (d :: r2 ++ rest) with ((d :: r2) ++ rest).
      rewrite (p_digits1_app _ _ _ Hc H). now rewrite app_nonnil_match.
Qed.

Lemma p_frac_exp_app a rest x : closed rest -> p_frac_exp a = Some x -> p_frac_exp (a ++ rest) = Some (x ++ rest).
Proof.
  intros Hc. rewrite !p_frac_exp_split.
  destruct (frac_part a) as [s2|] eqn:E2; [|discriminate]. intros H.
  rewrite (frac_part_app _ _ _ Hc E2). now apply exp_part_app.
Qed.

Lemma p_frac_exp_nil_rest rest : closed rest -> p_frac_exp rest = Some rest.
Proof.
  intros Hc. rewrite p_frac_exp_split. unfold frac_part, exp_part.
  destruct rest as [|d r']; [reflexivity|]. cbn [closed] in Hc.
  destruct (d =? 46) eqn:E1; [unfold closer in Hc; lia|].
  destruct ((d =? 101) || (d =? 69)) eqn:E2; [unfold closer in Hc; lia|reflexivity].
Qed.

Lemma p_number_app t rest : closed rest -> p_number t = Some [] -> p_number (t ++ rest) = Some rest.
Proof.
  intros Hc H. unfold p_number in *.
  destruct t as [|c r]; [discriminate|].
  cbn [app].
  destruct (c =? 45) eqn:E.
  - destruct r as [|c2 r2]; [discriminate|]. cbn [app].
    destruct (c2 =? 48).
    + now rewrite (p_frac_exp_app _ _ _ Hc H).
    + destruct (in_rng 49 57 c2); [|discriminate].
      rewrite skip_digits_app_gen by assumption.
      destruct (skip_digits r2) as [|y ys] eqn:Es.
      * now apply p_frac_exp_nil_rest.
      * now rewrite (p_frac_exp_app _ _ _ Hc H).
  - destruct (c =? 48).
    + now rewrite (p_frac_exp_app _ _ _ Hc H).
    + destruct (in_rng 49 57 c); [|discriminate].
      rewrite skip_digits_app_gen by assumption.
      destruct (skip_digits r) as [|y ys] eqn:Es.
      * now apply p_frac_exp_nil_rest.
      * now rewrite (p_frac_exp_app _ _ _ Hc H).
Qed.

Lemma num_ok_spec t : num_ok t = true -> p_number t = Some [] /\ Forall (fun c => c < 128) t.
Proof.
  unfold num_ok. destruct (p_number t) as [[|? ?]|]; try discriminate. intros H. split; [reflexivity|].
  apply Forall_forall. intros x Hx. rewrite forallb_forall in H. specialize (H x Hx). lia.
Qed.

(** first byte of a number token *)
Lemma p_number_head t : p_number t = Some [] -> exists c r, t = c :: r /\ (c = 45 \/ 48 <= c <= 57).
Proof.
  unfold p_number. destruct t as [|c r]; [discriminate|]. intros H. exists c, r. split; [reflexivity|].
  destruct (c =? 45) eqn:E; [left; lia|right].
  destruct (c =? 48) eqn:E0; [lia|]. destruct (in_rng 49 57 c) eqn:E1; [unfold in_rng in E1; lia|discriminate].
Qed.

(** ** fuel *)
Fixpoint jsz (j : json) : nat :=
  match j with
  | JArr es => 2 + fold_right (fun e a => 1 + jsz e + a)%nat 0%nat es
  | JObj ms => 2 + fold_right (fun m a => 1 + jsz (snd m) + a)%nat 0%nat ms
  | _ => 1
  end.

Definition key_ok (k : json) : Prop := match k with JStr s => utf8_valid s = true | _ => False end.

(** a string token followed by anything *)
Lemma string_token s rest : utf8_valid s = true -> p_chars (raw_str s ++ 34 :: rest) = Some rest.
Proof.
  intros H. apply utf8_valid_iff in H.
  destruct (esc_loop_correct s H (length s) rest ltac:(lia)) as (_ & B & _). exact B.
Qed.

Lemma first_not_ws j : jvalid j = true -> exists c r, jprint j = c :: r /\ is_ws c = false /\ c <> 93 /\ c <> 125.
Proof.
  destruct j; cbn [jvalid jprint]; intros H.
  - eexists; eexists; split; [reflexivity|]. cbv. repeat split; discriminate.
  - destruct b; eexists; eexists; (split; [reflexivity|]); cbv; repeat split; discriminate.
  - apply num_ok_spec in H as [H _]. destruct (p_number_head _ H) as (c & r & -> & Hc).
    exists c, r. split; [reflexivity|]. unfold is_ws. lia.
  - eexists; eexists; split; [reflexivity|]. cbv. repeat split; discriminate.
  - eexists; eexists; split; [reflexivity|]. cbv. repeat split; discriminate.
  - eexists; eexists; split; [reflexivity|]. cbv. repeat split; discriminate.
Qed.

Lemma arr_open f e tail : jvalid e = true -> p_value (S f) (91 :: jprint e ++ tail) = p_elems f (jprint e ++ tail).
Proof.
  intros Hve. destruct (first_not_ws e Hve) as (c & r & Ec & Hws & Hn93 & _).
  cbn [p_value skip_ws is_ws N.eqb Pos.eqb orb]. rewrite Ec. cbn [app skip_ws]. rewrite Hws.
  replace (c =? 93) with false by lia. reflexivity.
Qed.

Lemma obj_open f tail : p_value (S f) (123 :: 34 :: tail) = p_members f (34 :: tail).
Proof. reflexivity. Qed.

Lemma strip_true rest : strip_prefix [114; 117; 101] ([114; 117; 101] ++ rest) = Some rest.
Proof. apply strip_prefix_app. Qed.

(** main lemma: with enough fuel, the recogniser consumes exactly the printed tree *)
Lemma p_value_jprint j : jvalid j = true ->
  forall f rest, (jsz j <= f)%nat -> closed rest -> p_value f (jprint j ++ rest) = Some rest.
Proof.
  induction j as [|b|t|s|es IH|ms IH] using json_ind'; intros Hv f rest Hf Hc;
    (destruct f as [|f]; [cbn [jsz] in Hf; lia|]).
  - cbn. apply (strip_prefix_app [117; 108; 108]).
  - destruct b; cbn.
    + apply (strip_prefix_app [114; 117; 101]).
    + apply (strip_prefix_app [97; 108; 115; 101]).
  - cbn [jvalid] in Hv. apply num_ok_spec in Hv as [Hn _].
    destruct (p_number_head _ Hn) as (c & r & -> & Hcc).
    cbn [jprint app p_value skip_ws].
    replace (is_ws c) with false by (unfold is_ws; lia).
    replace (c =? 34) with false by lia. replace (c =? 123) with false by lia.
    replace (c =? 91) with false by lia. replace (c =? 116) with false by lia.
    replace (c =? 102) with false by lia. replace (c =? 110) with false by lia.
    change (c :: r ++ rest) with ((c :: r) ++ rest). now apply p_number_app.
  - cbn [jvalid] in Hv. cbn [jprint app p_value skip_ws is_ws N.eqb Pos.eqb orb].
    rewrite <- app_assoc. cbn [app]. now apply string_token.
  - (* array *)
    cbn [jprint app].
    destruct es as [|e es].
    + cbn. reflexivity.
    + cbn [jvalid forallb] in Hv. apply andb_true_iff in Hv as [Hve Hves].
      cbn [sep_list]. rewrite <- !app_assoc. rewrite (arr_open f e _ Hve).
      (* p_elems over the remaining list *)
      cbn [jsz fold_right] in Hf.
      assert (G : forall l f0, Forall (fun x => jvalid x = true ->
                   forall f1 rest1, (jsz x <= f1)%nat -> closed rest1 -> p_value f1 (jprint x ++ rest1) = Some rest1) l ->
                 forallb jvalid l = true ->
                 (fold_right (fun e a => 1 + jsz e + a)%nat 0%nat l <= f0)%nat ->
                 forall x, jvalid x = true -> (1 + jsz x + fold_right (fun e a => 1 + jsz e + a)%nat 0%nat l <= S f0)%nat ->
                   (forall f1 rest1, (jsz x <= f1)%nat -> closed rest1 -> p_value f1 (jprint x ++ rest1) = Some rest1) ->
                 p_elems (S f0) (jprint x ++ sep_tail jprint l ++ 93 :: rest) = Some rest).
      { induction l as [|y l IHl]; intros f0 HF Hvl Hsz x Hvx Hszx Hx.
        - cbn [sep_tail app p_elems]. rewrite (Hx f0 (93 :: rest)) by (cbn [closed]; unfold closer; lia).
          cbn. reflexivity.
        - cbn [sep_tail]. cbn [p_elems].
          rewrite (Hx f0 ((44 :: jprint y ++ sep_tail jprint l) ++ 93 :: rest)).
          2: { cbn [fold_right] in Hszx. lia. }
          2: { cbn [app closed]. unfold closer. lia. }
          cbn [app skip_ws is_ws N.eqb Pos.eqb orb].
          cbn [forallb] in Hvl. apply andb_true_iff in Hvl as [Hvy Hvl].
          apply Forall_cons_iff in HF as [Hy HF].
          cbn [fold_right] in Hsz, Hszx.
          destruct f0 as [|f0]; [lia|].
          rewrite <- app_assoc.
          apply IHl; try assumption; try lia. now apply Hy. }
      inversion IH as [|? ? He Hes]; subst.
      replace (jprint e ++ sep_tail jprint es ++ [93] ++ rest) with (jprint e ++ sep_tail jprint es ++ 93 :: rest) by reflexivity.
      destruct f as [|f]; [lia|].
      apply G; try assumption; try lia. now apply He.
  - (* object *)
    cbn [jprint app].
    destruct ms as [|m ms].
    + cbn. reflexivity.
    + cbn [jvalid forallb] in Hv. apply andb_true_iff in Hv as [Hvm Hvms].
      assert (K : forall m0 : json * json,
                 (match fst m0 with JStr k => utf8_valid k | _ => false end && jvalid (snd m0)) = true ->
                 exists k, fst m0 = JStr k /\ utf8_valid k = true /\ jvalid (snd m0) = true).
      { intros m0 H0. apply andb_true_iff in H0 as [H1 H2]. destruct (fst m0); try discriminate. eauto. }
      destruct (K m Hvm) as (k & Ek & Hk & Hvv).
      cbn [sep_list]. rewrite Ek. cbn [jprint app]. rewrite obj_open.
      cbn [jsz fold_right] in Hf.
      assert (G : forall l f0,
                 Forall (fun m0 : json * json => (jvalid (fst m0) = true ->
                   forall f1 rest1, (jsz (fst m0) <= f1)%nat -> closed rest1 -> p_value f1 (jprint (fst m0) ++ rest1) = Some rest1) /\
                   (jvalid (snd m0) = true ->
                   forall f1 rest1, (jsz (snd m0) <= f1)%nat -> closed rest1 -> p_value f1 (jprint (snd m0) ++ rest1) = Some rest1)) l ->
                 forallb (fun m0 => match fst m0 with JStr k => utf8_valid k | _ => false end && jvalid (snd m0)) l = true ->
                 forall k0 x, utf8_valid k0 = true -> jvalid x = true ->
                   (1 + jsz x + fold_right (fun m0 a => 1 + jsz (snd m0) + a)%nat 0%nat l <= S f0)%nat ->
                   (forall f1 rest1, (jsz x <= f1)%nat -> closed rest1 -> p_value f1 (jprint x ++ rest1) = Some rest1) ->
                 p_members (S f0) (34 :: raw_str k0 ++ [34] ++ 58 :: jprint x
                                   ++ sep_tail (fun m0 => jprint (fst m0) ++ 58 :: jprint (snd m0)) l ++ 125 :: rest) = Some rest).
      { induction l as [|y l IHl]; intros f0 HF Hvl k0 x Hk0 Hvx Hszx Hx.
        - cbn [sep_tail app p_members skip_ws is_ws N.eqb Pos.eqb orb].
          rewrite string_token by assumption. cbn [skip_ws is_ws N.eqb Pos.eqb orb].
          rewrite (Hx f0 (125 :: rest)) by (cbn [closed fold_right] in *; unfold closer; lia).
          cbn. reflexivity.
        - cbn [sep_tail]. cbn [app p_members skip_ws is_ws N.eqb Pos.eqb orb].
          rewrite string_token by assumption. cbn [skip_ws is_ws N.eqb Pos.eqb orb].
          rewrite <- !app_assoc.
          cbn [forallb] in Hvl. apply andb_true_iff in Hvl as [Hvy Hvl].
          destruct (K y Hvy) as (ky & Eky & Hky & Hvyv).
          cbn [app].
          rewrite (Hx f0 (44 :: jprint (fst y) ++ 58 :: jprint (snd y) ++
                          sep_tail (fun m0 => jprint (fst m0) ++ 58 :: jprint (snd m0)) l ++ 125 :: rest)).
          2: { cbn [fold_right] in Hszx. lia. }
          2: { cbn [closed]. unfold closer. lia. }
          cbn [skip_ws is_ws N.eqb Pos.eqb orb].
          apply Forall_cons_iff in HF as [[_ Hy] HF].
          cbn [fold_right] in Hszx.
          destruct f0 as [|f0]; [lia|].
          rewrite Eky. cbn [jprint app]. rewrite <- app_assoc.
          apply IHl; try assumption; try lia. now apply Hy. }
      inversion IH as [|? ? [_ Hm] Hms]; subst.
      destruct f as [|f]; [lia|].
      rewrite <- !app_assoc. cbn [app].
      specialize (G ms f Hms Hvms k (snd m) Hk Hvv ltac:(lia) (Hm Hvv)).
      exact G.
Qed.

(** the text is at least one byte, and its length bounds the fuel *)
Lemma jprint_len j : jvalid j = true -> (jsz j <= 2 * length (jprint j) - 1)%nat /\ (1 <= length (jprint j))%nat.
Proof.
  induction j as [|b|t|s|es IH|ms IH] using json_ind'; intros Hv.
  - cbn. lia.
  - destruct b; cbn; lia.
  - cbn [jvalid] in Hv. apply num_ok_spec in Hv as [Hn _]. destruct (p_number_head _ Hn) as (c & r & -> & _).
    cbn [jsz jprint length]. lia.
  - cbn [jsz jprint length]. lia.
  - cbn [jsz jprint length]. rewrite app_length. cbn [length].
    cbn [jvalid] in Hv.
    assert (G : forall l, Forall (fun x => jvalid x = true -> (jsz x <= 2 * length (jprint x) - 1)%nat /\ (1 <= length (jprint x))%nat) l ->
              forallb jvalid l = true ->
              (fold_right (fun e a => 1 + jsz e + a)%nat 0%nat l <= 2 * length (sep_tail jprint l))%nat).
    { induction l as [|y l IHl]; intros HF Hvl; cbn [fold_right sep_tail length]; [lia|].
      cbn [forallb] in Hvl. apply andb_true_iff in Hvl as [Hvy Hvl].
      apply Forall_cons_iff in HF as [Hy HF]. specialize (IHl HF Hvl). destruct (Hy Hvy).
      rewrite app_length. lia. }
    destruct es as [|e es]; cbn [sep_list fold_right length]; [lia|].
    cbn [forallb] in Hv. apply andb_true_iff in Hv as [Hve Hves].
    apply Forall_cons_iff in IH as [He Hes]. destruct (He Hve). specialize (G es Hes Hves).
    rewrite app_length. lia.
  - cbn [jsz jprint length]. rewrite app_length. cbn [length].
    cbn [jvalid] in Hv.
    set (pm := fun m0 : json * json => jprint (fst m0) ++ 58 :: jprint (snd m0)).
    assert (G : forall l, Forall (fun m0 : json * json =>
                 (jvalid (fst m0) = true -> (jsz (fst m0) <= 2 * length (jprint (fst m0)) - 1)%nat /\ (1 <= length (jprint (fst m0)))%nat) /\
                 (jvalid (snd m0) = true -> (jsz (snd m0) <= 2 * length (jprint (snd m0)) - 1)%nat /\ (1 <= length (jprint (snd m0)))%nat)) l ->
              forallb (fun m0 => match fst m0 with JStr k => utf8_valid k | _ => false end && jvalid (snd m0)) l = true ->
              (fold_right (fun m0 a => 1 + jsz (snd m0) + a)%nat 0%nat l <= 2 * length (sep_tail pm l))%nat).
    { induction l as [|y l IHl]; intros HF Hvl; cbn [fold_right sep_tail length]; [lia|].
      cbn [forallb] in Hvl. apply andb_true_iff in Hvl as [Hvy Hvl]. apply andb_true_iff in Hvy as [_ Hvy].
      apply Forall_cons_iff in HF as [[_ Hy] HF]. specialize (IHl HF Hvl). destruct (Hy Hvy).
      unfold pm at 1. rewrite !app_length. cbn [length]. lia. }
    destruct ms as [|m ms]; cbn [sep_list fold_right length]; [lia|].
    cbn [forallb] in Hv. apply andb_true_iff in Hv as [Hvm Hvms]. apply andb_true_iff in Hvm as [_ Hvm].
    apply Forall_cons_iff in IH as [[_ Hm] Hms]. destruct (Hm Hvm). specialize (G ms Hms Hvms).
    fold pm. unfold pm at 1. rewrite !app_length. cbn [length]. lia.
Qed.

(** the text is well-formed UTF-8 *)
Lemma Utf8_cons_ascii c s : c < 128 -> Utf8 s -> Utf8 (c :: s).
Proof. intros H Hs. apply (Utf8_app [c]); [apply Utf8_ascii; repeat constructor; exact H|exact Hs]. Qed.

Lemma jprint_utf8 j : jvalid j = true -> Utf8 (jprint j).
Proof.
  induction j as [|b|t|s|es IH|ms IH] using json_ind'; intros Hv.
  - apply Utf8_ascii. repeat constructor; lia.
  - destruct b; apply Utf8_ascii; repeat constructor; lia.
  - cbn [jvalid] in Hv. apply num_ok_spec in Hv as [_ Ha]. now apply Utf8_ascii.
  - cbn [jvalid jprint] in *. apply utf8_valid_iff in Hv.
    destruct (esc_loop_correct s Hv (length s) [] ltac:(lia)) as (_ & _ & C).
    apply Utf8_cons_ascii; [lia|]. apply Utf8_app; [exact C|]. apply Utf8_ascii. repeat constructor; lia.
  - cbn [jvalid jprint] in *. apply Utf8_cons_ascii; [lia|]. apply Utf8_app; [|apply Utf8_ascii; repeat constructor; lia].
    assert (G : forall l, Forall (fun x => jvalid x = true -> Utf8 (jprint x)) l -> forallb jvalid l = true -> Utf8 (sep_tail jprint l)).
    { induction l as [|y l IHl]; intros HF Hvl; cbn [sep_tail]; [constructor|].
      cbn [forallb] in Hvl. apply andb_true_iff in Hvl as [Hvy Hvl]. apply Forall_cons_iff in HF as [Hy HF].
      apply Utf8_cons_ascii; [lia|]. apply Utf8_app; auto. }
    destruct es as [|e es]; cbn [sep_list]; [constructor|].
    cbn [forallb] in Hv. apply andb_true_iff in Hv as [Hve Hves]. apply Forall_cons_iff in IH as [He Hes].
    apply Utf8_app; auto.
  - cbn [jvalid jprint] in *. apply Utf8_cons_ascii; [lia|]. apply Utf8_app; [|apply Utf8_ascii; repeat constructor; lia].
    set (pm := fun m0 : json * json => jprint (fst m0) ++ 58 :: jprint (snd m0)).
    assert (M : forall m0 : json * json,
               ((jvalid (fst m0) = true -> Utf8 (jprint (fst m0))) /\ (jvalid (snd m0) = true -> Utf8 (jprint (snd m0)))) ->
               (match fst m0 with JStr k => utf8_valid k | _ => false end && jvalid (snd m0)) = true -> Utf8 (pm m0)).
    { intros m0 [H1 H2] H0. apply andb_true_iff in H0 as [Hk Hx]. unfold pm.
      apply Utf8_app; [|apply Utf8_cons_ascii; [lia|auto]].
      apply H1. destruct (fst m0); try discriminate. exact Hk. }
    assert (G : forall l, Forall (fun m0 : json * json => (jvalid (fst m0) = true -> Utf8 (jprint (fst m0))) /\ (jvalid (snd m0) = true -> Utf8 (jprint (snd m0)))) l ->
              forallb (fun m0 => match fst m0 with JStr k => utf8_valid k | _ => false end && jvalid (snd m0)) l = true -> Utf8 (sep_tail pm l)).
    { induction l as [|y l IHl]; intros HF Hvl; cbn [sep_tail]; [constructor|].
      cbn [forallb] in Hvl. apply andb_true_iff in Hvl as [Hvy Hvl]. apply Forall_cons_iff in HF as [Hy HF].
      apply Utf8_cons_ascii; [lia|]. apply Utf8_app; auto. }
    destruct ms as [|m ms]; cbn [sep_list]; [constructor|].
    cbn [forallb] in Hv. apply andb_true_iff in Hv as [Hvm Hvms]. apply Forall_cons_iff in IH as [Hm Hms].
    apply Utf8_app; auto.
Qed.

(** C05 (a), tree to text: a well-formed tree prints as a valid JSON text *)
Theorem jvalid_text j : jvalid j = true -> valid_json_text (jprint j) = true.
Proof.
  intros Hv. unfold valid_json_text. apply andb_true_intro. split.
  - apply utf8_valid_iff. now apply jprint_utf8.
  - unfold json_grammar_ok.
    destruct (jprint_len j Hv) as [H1 H2].
    rewrite <- (app_nil_r (jprint j)) at 2.
    rewrite (p_value_jprint j Hv (2 * length (jprint j) + 2)%nat [] ltac:(lia) I). reflexivity.
Qed.
