(** Proofs about [Json], part 2: what [jsonw] writes is a well-formed tree (so, by JsonText, valid JSON
    text) except for string-keyed dictionaries (F9); basic facts shared with the round-trip proof. *)
From Coq Require Import ZArith Lia ZifyN ZifyNat ZifyBool.
From TLV Require Import Prim.PrimModel Tl1.Tl1Model Tl1.Tl1Proofs
  Jprim.JprimModel Jprim.JprimUtf8 Jprim.JprimEsc Jprim.JprimStr Jprim.JprimProofs Json.JsonModel Json.JsonText.
Ltac Zify.zify_post_hook ::= Z.div_mod_to_equations.
Open Scope N_scope.

(** ** byte strings *)
Lemma strip_prefix_refl a : strip_prefix a a = Some [].
Proof. rewrite <- (app_nil_r a) at 2. apply strip_prefix_app. Qed.

Lemma bytes_eqb_refl a : bytes_eqb a a = true.
Proof. unfold bytes_eqb. now rewrite strip_prefix_refl. Qed.

Lemma strip_prefix_nil_eq a : forall b, strip_prefix a b = Some [] -> a = b.
Proof.
  induction a as [|x a IH]; intros b; cbn [strip_prefix].
  - now intros [= <-].
  - destruct b as [|y b]; [discriminate|]. destruct (x =? y) eqn:E; [|discriminate].
    intros H. apply N.eqb_eq in E. subst. f_equal. now apply IH.
Qed.

Lemma bytes_eqb_eq a b : bytes_eqb a b = true <-> a = b.
Proof.
  split; [|intros ->; apply bytes_eqb_refl].
  unfold bytes_eqb. destruct (strip_prefix a b) as [[|? ?]|] eqn:E; try discriminate.
  intros _. now apply strip_prefix_nil_eq.
Qed.

Lemma bytes_eqb_neq a b : a <> b -> bytes_eqb a b = false.
Proof. intros H. destruct (bytes_eqb a b) eqn:E; [|reflexivity]. apply bytes_eqb_eq in E. contradiction. Qed.

(** ** names the escaper leaves alone *)
Lemma name_plain_raw nm : name_plain nm = true -> raw_str nm = nm.
Proof.
  unfold raw_str, name_plain. induction nm as [|b r IH]; cbn [forallb length esc_loop]; [reflexivity|].
  intros H. apply andb_true_iff in H as [Hb Hr]. apply andb_true_iff in Hb as [H1 H2].
  rewrite H1, H2. f_equal. now apply IH.
Qed.

Lemma name_plain_utf8 nm : name_plain nm = true -> utf8_valid nm = true.
Proof.
  intros H. apply utf8_valid_iff. apply Utf8_ascii. apply Forall_forall. intros x Hx.
  unfold name_plain in H. rewrite forallb_forall in H. specialize (H x Hx). lia.
Qed.

Lemma key_is_plain nm k : name_plain k = true -> key_is nm (JStr k) = bytes_eqb k nm.
Proof. intros H. cbn [key_is]. now rewrite name_plain_raw. Qed.

Lemma plain_consts :
  name_plain s_base64 = true /\ name_plain s_type = true /\ name_plain s_value = true /\ name_plain s_ok = true
  /\ name_plain s_true = true /\ name_plain s_false = true /\ name_plain s_NaN = true /\ name_plain s_pInf = true
  /\ name_plain s_nInf = true.
Proof. vm_compute. repeat split. Qed.

(** ** number tokens *)
Lemma num_ok_print_N n : num_ok (print_N n) = true.
Proof.
  destruct (print_N_spec n) as (_ & d & ds & E & D1 & D2 & Z). rewrite E. unfold num_ok.
  destruct (p_number_digits d ds D1 D2) as [P _]. { intros H. now destruct (Z H). }
  rewrite P. pose proof (digits_ascii (d :: ds)) as A. cbn [forallb] in A. rewrite D1, D2 in A. specialize (A eq_refl).
  apply forallb_forall. intros x Hx. rewrite Forall_forall in A. specialize (A x Hx). lia.
Qed.

Lemma num_ok_print_Z z : num_ok (print_Z z) = true.
Proof.
  unfold print_Z. destruct (z <? 0)%Z; [|apply num_ok_print_N].
  destruct (print_N_spec (Z.to_N (- z))) as (_ & d & ds & E & D1 & D2 & Z). rewrite E. unfold num_ok.
  destruct (p_number_digits d ds D1 D2) as [_ P]. { intros H. now destruct (Z H). }
  rewrite P. pose proof (digits_ascii (d :: ds)) as A. cbn [forallb] in A. rewrite D1, D2 in A. specialize (A eq_refl).
  apply forallb_forall. intros x [<-|Hx]; [reflexivity|]. rewrite Forall_forall in A. specialize (A x Hx). lia.
Qed.

Lemma num_ok_utf8 t : num_ok t = true -> utf8_valid t = true.
Proof. intros H. apply num_ok_spec in H as [_ A]. apply utf8_valid_iff. now apply Utf8_ascii. Qed.

(** ** the weak tree recogniser: like [jvalid], but an object in key position is tolerated when not [strict] *)
Fixpoint jvalidk (strict : bool) (j : json) : bool :=
  match j with
  | JNull | JBool _ => true
  | JNum t => num_ok t
  | JStr s => utf8_valid s
  | JArr es => forallb (jvalidk strict) es
  | JObj ms => forallb (fun m => match fst m with JStr k => utf8_valid k | _ => negb strict end && jvalidk strict (snd m)) ms
  end.

Lemma jvalidk_true j : jvalidk true j = jvalid j.
Proof.
  induction j as [|b|t|s|es IH|ms IH] using json_ind'; cbn [jvalidk jvalid]; try reflexivity.
  - induction IH as [|x l Hx _ IHl]; cbn [forallb]; [reflexivity|]. now rewrite Hx, IHl.
  - induction IH as [|x l [_ Hx] _ IHl]; cbn [forallb]; [reflexivity|]. rewrite Hx, IHl.
    destruct (fst x); reflexivity.
Qed.

Definition no_str_dict (js : jschema) : bool :=
  forallb (fun p => match fst p with TDict PString _ => false | _ => true end) js.

(** a finite float32 / float64 bit pattern *)
Definition ffinite (is64 : bool) (b : N) : bool :=
  let eb : N := if is64 then 11 else 8 in
  let mb : N := if is64 then 52 else 23 in
  negb (fl_is_nan eb mb b) && negb (fl_is_inf eb mb b).

Section Valid.
  Variable ffmt : bool -> N -> bytes.
  Variable js : jschema.
  (** the float formatter yields number tokens for finite values (strconv is not modelled) *)
  Hypothesis Hfmt : forall is64 b, ffinite is64 b = true -> num_ok (ffmt is64 b) = true.
  Hypothesis Hwf : wf_jschema js = true.

  Lemma wf_ann t d a : nth_error js t = Some (d, a) -> ann_ok js (d, a) = true.
  Proof.
    intros H. unfold wf_jschema in Hwf. apply andb_true_iff in Hwf as [_ H2].
    rewrite forallb_forall in H2. apply H2. eapply nth_error_In; eauto.
  Qed.

  Lemma jw_float_valid b is64 k : jvalidk k (jw_float ffmt is64 b) = true.
  Proof.
    unfold jw_float. destruct (fl_is_nan _ _ b) eqn:E1; [destruct is64; reflexivity|].
    destruct (fl_is_inf _ _ b) eqn:E2; [destruct (fl_neg _ _ b); destruct is64; reflexivity|].
    cbn [jvalidk]. apply Hfmt. unfold ffinite. now rewrite E1, E2.
  Qed.

  Lemma jwstr_valid k s : bytes_okb s = true -> jvalidk k (jwstr s) = true.
  Proof.
    intros Hs. unfold jwstr. destruct (utf8_valid s) eqn:E; cbn [jvalidk forallb fst snd]; [exact E|].
    assert (Hb : bytes_ok s).
    { apply Forall_forall. intros x Hx. unfold bytes_okb in Hs. rewrite forallb_forall in Hs. specialize (Hs x Hx). unfold byte_ok. lia. }
    destruct (b64_enc_plain s Hb) as [_ A].
    replace (utf8_valid s_base64) with true by reflexivity.
    replace (utf8_valid (b64_enc s)) with true; [reflexivity|].
    symmetry. apply utf8_valid_iff. now apply Utf8_ascii.
  Qed.

  Lemma jw_prim_valid k p v j : jw_prim ffmt p v = Some j -> jvalidk k j = true.
  Proof.
    destruct p, v; cbn [jw_prim]; try discriminate.
    - destruct (n <? 4294967296); [|discriminate]. intros [= <-]. apply num_ok_print_N.
    - destruct (n <? 4294967296); [|discriminate]. intros [= <-]. apply num_ok_print_Z.
    - destruct (n <? 4294967296); [|discriminate]. intros [= <-]. apply jw_float_valid.
    - destruct (n <? 18446744073709551616); [|discriminate]. intros [= <-]. apply num_ok_print_Z.
    - destruct (n <? 18446744073709551616); [|discriminate]. intros [= <-]. apply jw_float_valid.
    - destruct (bytes_okb s) eqn:E; [|discriminate]. intros [= <-]. now apply jwstr_valid.
    - intros [= <-]. reflexivity.
  Qed.

  Definition VALID (k : bool) (v : value) : Prop :=
    forall t ps j, jsonw ffmt js t ps v = Some j -> jvalidk k j = true.

  Lemma jw_fields_valid k rec ps all :
    (forall t' ps' v' j', rec t' ps' v' = Some j' -> In (Some v') all -> jvalidk k j' = true) ->
    forall vs fds fis ms,
      (forall x, In x vs -> In x all) ->
      forallb (field_ann_ok js) (combine fds fis) = true ->
      jw_fields js rec ps all fds fis vs = Some ms ->
      forallb (fun m => match fst m with JStr k0 => utf8_valid k0 | _ => negb k end && jvalidk k (snd m)) ms = true.
  Proof.
    intros Hrec. induction vs as [|ov vs IH]; intros fds fis ms Hin Hann H.
    - destruct fds, fis; cbn [jw_fields] in H; try discriminate. now injection H as <-.
    - destruct fds as [|fd fds], fis as [|fi fis]; cbn [jw_fields] in H; try discriminate.
      cbn [combine forallb] in Hann. apply andb_true_iff in Hann as [Hfi Hann].
      destruct (jw_field js rec ps all fd fi ov) as [om|] eqn:E1; [|discriminate]. cbn [bind_opt] in H.
      destruct (jw_fields js rec ps all fds fis vs) as [rest|] eqn:E2; [|discriminate]. cbn [bind_opt] in H.
      injection H as <-.
      specialize (IH fds fis rest (fun x Hx => Hin x (or_intror Hx)) Hann E2).
      destruct om as [m|]; [|exact IH]. cbn [forallb]. rewrite IH, andb_true_r.
      unfold field_ann_ok in Hfi. cbn [fst snd] in Hfi. apply andb_true_iff in Hfi as [Hfi _]. apply andb_true_iff in Hfi as [Hname _].
      unfold jw_field in E1. destruct ov as [v|].
      + destruct (negb (field_present ps all fd)); [discriminate|].
        destruct (rec (f_ty fd) (eval_args ps all (f_args fd)) v) as [j|] eqn:Er; [|discriminate]. cbn [bind_opt] in E1.
        pose proof (Hrec _ _ _ _ Er (Hin _ (or_introl eq_refl))) as Hj.
        destruct (jf_bit fi).
        * injection E1 as <-. cbn [fst snd jvalidk]. now rewrite (name_plain_utf8 _ Hname).
        * destruct (is_true_type js (f_ty fd)); [discriminate|].
          destruct (is_some (f_mask fd) || nonempty js (f_ty fd) v); [|discriminate].
          injection E1 as <-. cbn [fst snd]. now rewrite (name_plain_utf8 _ Hname), Hj.
      + destruct (field_present ps all fd); discriminate.
  Qed.

  Lemma jw_body_valid k td fds fis ps fs jb :
    Forall (Popt (VALID k)) fs ->
    forallb (field_ann_ok js) (combine fds fis) = true ->
    jw_body js (fun t' ps' v' => jsonw ffmt js t' ps' v') td fds fis ps fs = Some jb -> jvalidk k jb = true.
  Proof.
    intros HF Hann H. unfold jw_body in H. destruct td.
    - destruct fds as [|fd [|? ?]]; try discriminate. destruct fs as [|[v'|] [|? ?]]; try discriminate.
      apply Forall_cons_iff in HF as [Hv _]. exact (Hv _ _ _ H).
    - destruct (jw_fields js _ ps fs fds fis fs) as [ms|] eqn:E; [|discriminate]. injection H as <-.
      cbn [jvalidk]. eapply (jw_fields_valid k _ ps fs); [|intros x Hx; exact Hx|exact Hann|exact E].
      intros t' ps' v' j' Hj Hin. rewrite Forall_forall in HF. exact (HF _ Hin _ _ _ Hj).
  Qed.

  Lemma jw_key_valid kp kv jk : jw_key kp kv = Some jk ->
    match jk with JStr k0 => utf8_valid k0 = true | _ => kp = PString end.
  Proof.
    destruct kp, kv; cbn [jw_key]; try discriminate.
    - destruct (n <? 4294967296); [|discriminate]. intros [= <-]. apply num_ok_utf8, num_ok_print_N.
    - destruct (n <? 4294967296); [|discriminate]. intros [= <-]. apply num_ok_utf8, num_ok_print_Z.
    - destruct (n <? 18446744073709551616); [|discriminate]. intros [= <-]. apply num_ok_utf8, num_ok_print_Z.
    - destruct (bytes_okb s); [|discriminate]. intros [= <-]. unfold jwstr. destruct (utf8_valid s) eqn:E; [exact E|reflexivity].
    - intros [= <-]. destruct b; reflexivity.
  Qed.

  (** C05 (a), value to tree: every tree [jsonw] writes is well formed, except that a dictionary with
      string keys may carry objects in key position *)
  Theorem jsonw_valid : forall v, VALID (no_str_dict js) v.
  Proof.
    set (k := no_str_dict js).
    assert (G : forall n v, (vdepth v <= n)%nat -> VALID k v).
    { induction n as [|n IHn]; intros v Hd; [destruct v; cbn [vdepth] in Hd; lia|].
      assert (IHf : forall fs, (vdepth (VStruct fs) <= S n)%nat -> Forall (Popt (VALID k)) fs).
      { intros fs Hfs. apply Forall_forall. intros [x|] Hx; [|exact I]. cbn [Popt]. apply IHn.
        cbn [vdepth] in Hfs. pose proof (depth_opts_le fs x Hx). lia. }
      intros t ps j H.
      destruct v as [nn|str|bv|fs|idx fs|es];
        cbn [jsonw] in H; destruct (nth_error js t) as [[d a]|] eqn:Et; try discriminate;
        pose proof (wf_ann _ _ _ Et) as Hann.
      1-3: destruct d; try discriminate; try (now apply (jw_prim_valid k) in H);
           destruct a; discriminate.
      - (* VStruct *)
        destruct d as [p|tag fds|vars|kk ef|kp ef]; try discriminate;
          try (now apply (jw_prim_valid k) in H); try (destruct a; discriminate).
        destruct a as [tl2 td fis| |]; try discriminate.
        cbn [ann_ok] in Hann. apply andb_true_iff in Hann as [Hann _]. apply andb_true_iff in Hann as [Hann _].
        apply andb_true_iff in Hann as [_ Hann].
        exact (jw_body_valid k td fds fis ps fs j (IHf fs Hd) Hann H).
      - (* VUnion *)
        destruct d as [p|tag fds|vars|kk ef|kp ef]; try discriminate;
          try (now apply (jw_prim_valid k) in H); try (destruct a; discriminate).
        destruct a as [|tl2 is_enum is_maybe vns|]; try discriminate.
        destruct (nth_error vars idx) as [vt|] eqn:Evt; [|discriminate].
        destruct (nth_error vns idx) as [vn|] eqn:Evn; [|discriminate].
        destruct (nth_error js vt) as [[[p|tag fds|?|? ?|? ?] [tl2' td fis| |]]|] eqn:Ev; try discriminate.
        pose proof (wf_ann _ _ _ Ev) as Hannv.
        cbn [ann_ok] in Hannv. apply andb_true_iff in Hannv as [Hannv _]. apply andb_true_iff in Hannv as [Hannv _].
        apply andb_true_iff in Hannv as [_ Hannv].
        destruct (jw_body js _ _ fds fis ps fs) as [jb|] eqn:Eb; [|discriminate]. cbn [bind_opt] in H.
        pose proof (jw_body_valid k _ _ _ _ _ _ (IHf fs Hd) Hannv Eb) as Hjb.
        cbn [ann_ok] in Hann. apply andb_true_iff in Hann as [Hann _]. apply andb_true_iff in Hann as [Hann _].
        apply andb_true_iff in Hann as [Hann _]. apply andb_true_iff in Hann as [_ Hnames].
        assert (Hw : utf8_valid (wname vn) = true).
        { rewrite forallb_forall in Hnames. specialize (Hnames vn (nth_error_In _ _ Evn)).
          apply andb_true_iff in Hnames as [H1 H2]. unfold wname. destruct (has_dunder (vn_tl vn)); now apply name_plain_utf8. }
        destruct is_maybe.
        + destruct idx; [now injection H as <-|].
          destruct (body_nonempty js true fds fs); injection H as <-; cbn [jvalidk forallb fst snd]; now rewrite ?Hjb.
        + destruct is_enum; [injection H as <-; exact Hw|].
          destruct fds as [|fd0 fds0].
          * injection H as <-. cbn [jvalidk forallb fst snd]. now rewrite Hw.
          * destruct (body_nonempty js td (fd0 :: fds0) fs); injection H as <-; cbn [jvalidk forallb fst snd]; now rewrite Hw, ?Hjb.
      - (* VArr *)
        assert (IHe : forall e, In e es -> VALID k e).
        { intros e He. apply IHn. cbn [vdepth] in Hd. pose proof (depth_elems_le es e He). lia. }
        assert (IHx : forall kv xv, In (VStruct [Some kv; Some xv]) es -> VALID k xv).
        { intros kv xv He. apply IHn. cbn [vdepth] in Hd. pose proof (depth_elems_le es _ He) as Hle.
          cbn [vdepth fold_right] in Hle. lia. }
        destruct d as [p|tag fds|vars|kk ef|kp ef]; try discriminate;
          try (now apply (jw_prim_valid k) in H); try (destruct a; discriminate).
        + (* array *)
          destruct (jw_elems _ es) as [l|] eqn:El; [|discriminate]. cbn [bind_opt] in H.
          assert (Hl : forallb (jvalidk k) l = true).
          { clear H Hd IHx. revert l El. induction es as [|e es' IHes]; intros l El; cbn [jw_elems] in El.
            - now injection El as <-.
            - destruct (jsonw ffmt js (f_ty ef) _ e) as [je|] eqn:Ee; [|discriminate]. cbn [bind_opt] in El.
              destruct (jw_elems _ es') as [r|] eqn:Er; [|discriminate]. injection El as <-.
              cbn [forallb]. rewrite (IHe e (or_introl eq_refl) _ _ _ Ee).
              now rewrite (IHes (fun e0 H0 => IHe e0 (or_intror H0)) r eq_refl). }
          destruct kk as [| |c].
          * injection H as <-. exact Hl.
          * destruct (lenN es =? nth 0 ps 0); [|discriminate]. injection H as <-. exact Hl.
          * destruct (lenN es =? c); [|discriminate]. injection H as <-. exact Hl.
        + (* dict *)
          destruct (dict_fields js (f_ty ef)) as [[kf vf]|]; [|discriminate].
          destruct (keys_sorted kp es); [|discriminate].
          destruct (jw_entries _ kp es) as [ms|] eqn:Em; [|discriminate]. injection H as <-.
          cbn [jvalidk].
          assert (Hk : kp = PString -> k = false).
          { intros ->. unfold k, no_str_dict. apply not_true_is_false. intros Hall.
            rewrite forallb_forall in Hall. specialize (Hall _ (nth_error_In _ _ Et)). discriminate. }
          clear Hd IHe. revert ms Em. induction es as [|e es' IHes]; intros ms Em; cbn [jw_entries] in Em.
          * now injection Em as <-.
          * destruct e as [| | |[|[kv|] [|[xv|] [|? ?]]]| |]; try discriminate.
            destruct (jw_key kp kv) as [jk|] eqn:Ek; [|discriminate]. cbn [bind_opt] in Em.
            destruct (jsonw ffmt js (f_ty vf) _ xv) as [jx|] eqn:Ex; [|discriminate]. cbn [bind_opt] in Em.
            destruct (jw_entries _ kp es') as [r|] eqn:Er; [|discriminate]. injection Em as <-.
            cbn [forallb fst snd].
            rewrite (IHes (fun kv0 xv0 H0 => IHx kv0 xv0 (or_intror H0)) r eq_refl), andb_true_r.
            rewrite (IHx kv xv (or_introl eq_refl) _ _ _ Ex), andb_true_r.
            pose proof (jw_key_valid _ _ _ Ek) as Hkey.
            destruct jk; try (rewrite (Hk Hkey); reflexivity). exact Hkey. }
    intros v. exact (G (vdepth v) v (le_n _)).
  Qed.

  (** a schema without string-keyed dictionaries: the text is valid JSON *)
  Corollary jsonw_text_valid t ps v j :
    no_str_dict js = true -> jsonw ffmt js t ps v = Some j -> valid_json_text (jprint j) = true.
  Proof.
    intros Hn H. apply jvalid_text. rewrite <- jvalidk_true. pose proof (jsonw_valid v _ _ _ H) as G. now rewrite Hn in G.
  Qed.
End Valid.
