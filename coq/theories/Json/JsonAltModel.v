(** M5 [Json], part 2 -- the documented alternative spellings of a value's JSON and syntactic
    mutations, as seed-driven generators (executable; used by the C06 correspondence run and
    characterised by the theorems of JsonAltProofs.v).

    [jsonw_alt c]: a writer that at every node chooses, from the seed [c], among the spellings the TL
    JSON mapping documents as equivalent:
      - a number as a decimal string;  a string as {"base64": ...};
      - a non-optional member holding the empty value: omitted or written explicitly;
      - an explicit field-mask member with the bits that present masked members imply cleared
        (and omitted when nothing remains);
      - members in another order;
      - enum as "T" / {"type":"T"};  a union whose value member is not needed as "T";
        the constructor name or (TL2-enabled unions) the variant name;
      - Maybe: {} / {"ok":false};  {"ok":true,"value":x} / {"value":x};  {"ok":true} with the
        empty value written explicitly.
    Every child gets an independent seed, so all combinations are reachable. *)
From Coq Require Export List NArith ZArith Bool.
From TLV Require Export Json.JsonModel.
Export ListNotations.
Open Scope N_scope.

Definition mix (c : N) (i : nat) : N :=
  (c * 6364136223846793005 + 1442695040888963407 + N.of_nat i * 2654435761) mod 18446744073709551616.
(** k-th decision at a node, out of [m] alternatives *)
Definition pick (c : N) (k : nat) (m : N) : N := (mix c (1000 + k) / 65536) mod m.

(** rotate a list left by [n mod length] *)
Definition rotate {A} (n : N) (l : list A) : list A :=
  match l with
  | [] => []
  | _ => let k := N.to_nat (n mod N.of_nat (length l)) in skipn k l ++ firstn k l
  end.

Section Alt.
  Variable ffmt : bool -> N -> bytes.
  Variable js : jschema.
  (** also reorder the members of dictionaries (the reader fills a map; only the struct / union / Maybe member
      order is covered by the theorems) *)
  Variable rot_dicts : bool.

  Definition num_alt (c : N) (j : json) : json :=
    match j with
    | JNum t => if pick c 0 2 =? 1 then JStr t else j
    | _ => j
    end.

  Definition jw_prim_alt (c : N) (p : prim) (v : value) : option json :=
    match p, v with
    | PString, VStr s =>
        if bytes_okb s then
          Some (if pick c 0 3 =? 1 then JObj [(JStr s_base64, JStr (b64_enc s))] else jwstr s)
        else None
    | _, _ => option_map (num_alt c) (jw_prim ffmt p v)
    end.

  Section AFields.
    Variable rec : N -> nat -> list N -> value -> option json.
    Variable c : N.
    Variable ps : list N.
    Variable all : list (option value).
    (** written masked members: those [jw_fields] emits (true-typed fields with a type other than
        [true] are never written, so they imply nothing) *)
    Variable implied : nat -> N.

    (** one field: like [jw_field], with the alternative choices *)
    Definition jw_field_alt (fd : field) (fi : jfinfo) (idx : nat) (ov : option value) : option (option (json * json)) :=
      let present := field_present ps all fd in
      let ci := mix c idx in
      match ov with
      | Some v =>
          if negb present then None else
          (* a local mask field may drop the bits implied by written members *)
          let v1 := match v with
                    | VNum n => if is_nat_type js (f_ty fd)
                                then VNum (N.land n (N.lnot (N.land (implied idx) (mix ci 7)) 32))
                                else v
                    | _ => v
                    end in
          let jo := match v with
                    | VNum _ => if is_nat_type js (f_ty fd) then jw_prim_alt ci PNat v1
                                else rec ci (f_ty fd) (eval_args ps all (f_args fd)) v
                    | _ => rec ci (f_ty fd) (eval_args ps all (f_args fd)) v
                    end in
          bind_opt jo (fun j =>
          Some (if jf_bit fi then Some (JStr (jf_name fi), JBool true)
                else if is_true_type js (f_ty fd) then
                  (* never written by Go; an explicit {} is accepted for an unmasked one *)
                  (if negb (is_some (f_mask fd)) && (pick ci 1 4 =? 1) then Some (JStr (jf_name fi), j) else None)
                else if is_some (f_mask fd) || nonempty js (f_ty fd) v1 then Some (JStr (jf_name fi), j)
                else if pick ci 1 3 =? 1 then Some (JStr (jf_name fi), j)   (* empty value written explicitly *)
                else None))
      | None => if present then None else Some None
      end.

    Fixpoint jw_fields_alt (fds : list field) (fis : list jfinfo) (idx : nat) (vs : list (option value)) {struct vs}
      : option (list (json * json)) :=
      match fds, fis, vs with
      | [], [], [] => Some []
      | fd :: fds', fi :: fis', ov :: vs' =>
          bind_opt (jw_field_alt fd fi idx ov) (fun om =>
          bind_opt (jw_fields_alt fds' fis' (S idx) vs') (fun rest =>
          Some (match om with Some m => m :: rest | None => rest end)))
      | _, _, _ => None
      end.
  End AFields.

  Section AElems.
    Variable rec : N -> value -> option json.
    Variable c : N.
    Fixpoint jw_elems_alt (i : nat) (es : list value) : option (list json) :=
      match es with
      | [] => Some []
      | e :: es' => bind_opt (rec (mix c i) e) (fun j => bind_opt (jw_elems_alt (S i) es') (fun r => Some (j :: r)))
      end.
  End AElems.

  Section AEntries.
    Variable rec : N -> value -> option json.
    Variable c : N.
    Variable kp : prim.
    Fixpoint jw_entries_alt (i : nat) (es : list value) : option (list (json * json)) :=
      match es with
      | [] => Some []
      | e :: es' =>
          match e with
          | VStruct [Some k; Some x] =>
              bind_opt (jw_key kp k) (fun jk =>
              bind_opt (rec (mix c i) x) (fun jx =>
              bind_opt (jw_entries_alt (S i) es') (fun r => Some ((jk, jx) :: r))))
          | _ => None
          end
      end.
  End AEntries.

  (** written members of a struct imply mask bits only when they are really emitted *)
  Definition written_flags (fds : list field) (fis : list jfinfo) (vs : list (option value)) : list bool :=
    map (fun p => match p with
                  | (fd, fi, Some _) => jf_bit fi || negb (is_true_type js (f_ty fd))
                  | _ => false
                  end) (combine (combine fds fis) vs).

  Definition jw_body_alt (rec : N -> nat -> list N -> value -> option json) (c : N) (td : bool)
             (fds : list field) (fis : list jfinfo) (ps : list N) (fs : list (option value)) : option json :=
    if td then
      match fds, fs with
      | [fd], [Some v'] => rec (mix c 0) (f_ty fd) (eval_args ps fs (f_args fd)) v'
      | _, _ => None
      end
    else
      let implied := fun g => add_bits_of g (all_adds fds (written_flags fds fis fs)) in
      option_map (fun ms => JObj (rotate (pick c 2 7) ms))
                 (jw_fields_alt rec c ps fs implied fds fis 0 fs).

  Fixpoint jsonw_alt (c : N) (t : nat) (ps : list N) (v : value) {struct v} : option json :=
    match nth_error js t with
    | None => None
    | Some (TPrim p, _) => jw_prim_alt c p v
    | Some (TStruct _ fds, AStruct _ td fis) =>
        match v with
        | VStruct fs => jw_body_alt (fun c' t' ps' v' => jsonw_alt c' t' ps' v') c td fds fis ps fs
        | _ => None
        end
    | Some (TUnion vars, AUnion tl2 is_enum is_maybe vns) =>
        match v with
        | VUnion idx fs =>
            match nth_error vars idx, nth_error vns idx with
            | Some vt, Some vn =>
                match nth_error js vt with
                | Some (TStruct _ fds, AStruct _ td fis) =>
                    bind_opt (jw_body_alt (fun c' t' ps' v' => jsonw_alt c' t' ps' v') c
                                          (td || (is_maybe && negb (Nat.eqb idx 0))) fds fis ps fs) (fun jb =>
                    let name := if tl2 && (pick c 3 2 =? 1) then vn_var vn else wname vn in
                    if is_maybe then
                      match idx with
                      | O => Some (if pick c 4 2 =? 1 then JObj [(JStr s_ok, JBool false)] else JObj [])
                      | _ =>
                          if body_nonempty js true fds fs || (pick c 4 2 =? 1) then
                            Some (match pick c 5 3 with
                                  | 0 => JObj [(JStr s_ok, JBool true); (JStr s_value, jb)]
                                  | 1 => JObj [(JStr s_value, jb)]
                                  | _ => JObj [(JStr s_value, jb); (JStr s_ok, JBool true)]
                                  end)
                          else Some (JObj [(JStr s_ok, JBool true)])
                      end
                    else if is_enum then
                      Some (if pick c 4 2 =? 1 then JObj [(JStr s_type, JStr name)] else JStr name)
                    else
                      let with_value := match pick c 5 2 with
                                        | 0 => JObj [(JStr s_type, JStr name); (JStr s_value, jb)]
                                        | _ => JObj [(JStr s_value, jb); (JStr s_type, JStr name)]
                                        end in
                      let without := if pick c 5 2 =? 1 then JStr name else JObj [(JStr s_type, JStr name)] in
                      match fds with
                      | [] => Some (if pick c 4 3 =? 1 then with_value else without)   (* value of an empty variant is ignored *)
                      | _ => if body_nonempty js td fds fs || (pick c 4 3 =? 1) then Some with_value else Some without
                      end)
                | _ => None
                end
            | _, _ => None
            end
        | _ => None
        end
    | Some (TArray k ef, _) =>
        match v with
        | VArr es =>
            let n := lenN es in
            let eargs := eval_args ps [] (f_args ef) in
            bind_opt (jw_elems_alt (fun c' e => jsonw_alt c' (f_ty ef) eargs e) c 0 es) (fun l =>
            match k with
            | AVector => Some (JArr l)
            | ATupleDyn => if n =? nth 0 ps 0 then Some (JArr l) else None
            | ATupleFixed cnt => if n =? cnt then Some (JArr l) else None
            end)
        | _ => None
        end
    | Some (TDict kp ef, _) =>
        match v with
        | VArr es =>
            let eargs := eval_args ps [] (f_args ef) in
            match dict_fields js (f_ty ef) with
            | Some (kf, vf) =>
                if keys_sorted kp es then
                  option_map (fun ms => JObj (if rot_dicts then rotate (pick c 2 5) ms else ms))
                    (jw_entries_alt (fun c' x => jsonw_alt c' (f_ty vf) (eval_args eargs [] (f_args vf)) x) c kp 0 es)
                else None
            | None => None
            end
        | _ => None
        end
    | Some (_, _) => None
    end.
End Alt.

(** * Syntactic mutations (most of them invalidate the text; the verdict is [jsonr]'s) *)
Definition s_unknown : bytes := [122; 122; 95; 117; 110; 107; 110; 111; 119; 110].   (* zz_unknown *)
Definition t_big : bytes := repeat 57 25.                                             (* 9999...9 *)

Definition set_ok_false (ms : list (json * json)) : list (json * json) :=
  map (fun m => match fst m with
                | JStr k => if bytes_eqb k s_ok then (fst m, JBool false) else m
                | _ => m
                end) ms.

Fixpoint replace_nth {A} (n : nat) (x : A) (l : list A) : list A :=
  match l, n with
  | [], _ => []
  | _ :: r, O => x :: r
  | a :: r, S n' => a :: replace_nth n' x r
  end.

Definition mutate_here (c : N) (j : json) : json :=
  match j with
  | JObj ms =>
      match pick c 1 6 with
      | 0 => JObj (ms ++ [(JStr s_unknown, JNum [48])])                     (* unknown key *)
      | 1 => match ms with m :: _ => JObj (ms ++ [m]) | [] => JObj [(JStr s_unknown, JNull)] end   (* duplicate key *)
      | 2 => JObj (set_ok_false ms)                                          (* ok:false with value *)
      | 3 => JObj (removelast ms)
      | 4 => JObj (rev (set_ok_false ms))                                    (* the same, members in the other order *)
      | _ => JArr []
      end
  | JArr es =>
      match pick c 1 3 with
      | 0 => JArr (es ++ [last es (JNum [48])])                             (* one element too many *)
      | 1 => JArr (removelast es)                                           (* one element too few *)
      | _ => JObj []
      end
  | JBool b => JBool (negb b)                                               (* true-typed member given false *)
  | JNum t => match pick c 1 3 with 0 => JNum t_big | 1 => JBool true | _ => JNum (45 :: t) end
  | JStr s => match pick c 1 3 with 0 => JNum [49] | 1 => JStr (s ++ [120]) | _ => JNull end
  | JNull => JBool false
  end.

(** descend along a seed-chosen path of at most [depth] steps, then mutate *)
Fixpoint mutate (depth : nat) (c : N) (j : json) : json :=
  match depth with
  | O => mutate_here c j
  | S d =>
      match j with
      | JObj ms =>
          match ms with
          | [] => mutate_here c j
          | _ =>
              if pick c 0 4 =? 0 then mutate_here c j else
              let i := N.to_nat (pick c 2 (N.of_nat (length ms))) in
              match nth_error ms i with
              | Some (k, x) => JObj (replace_nth i (k, mutate d (mix c i) x) ms)
              | None => mutate_here c j
              end
          end
      | JArr es =>
          match es with
          | [] => mutate_here c j
          | _ =>
              if pick c 0 4 =? 0 then mutate_here c j else
              let i := N.to_nat (pick c 2 (N.of_nat (length es))) in
              match nth_error es i with
              | Some x => JArr (replace_nth i (mutate d (mix c i) x) es)
              | None => mutate_here c j
              end
          end
      | _ => mutate_here c j
      end
  end.

(** * Maybe objects, exhaustively: at EVERY object of the tree that looks like a Maybe (member names among
    "ok" / "value"), every shape the reader has a rule for, in both member orders -- the reader's checks
    (Json2ReadMaybe) run after its member loop and must not depend on the order *)
Definition key_named (nm : bytes) (m : json * json) : bool :=
  match fst m with JStr k => bytes_eqb k nm | _ => false end.

Definition maybe_forms (ms : list (json * json)) : list json :=
  if forallb (fun m => key_named s_ok m || key_named s_value m) ms then
    match find (key_named s_value) ms with
    | Some (_, x) =>
        [ JObj [(JStr s_ok, JBool false); (JStr s_value, x)];          (* ok:false with a value: rejected *)
          JObj [(JStr s_value, x); (JStr s_ok, JBool false)];          (* ... whatever the order *)
          JObj [(JStr s_ok, JBool true); (JStr s_value, x)];
          JObj [(JStr s_value, x); (JStr s_ok, JBool true)];
          JObj [(JStr s_value, x)];
          JObj [(JStr s_ok, JBool true)];                              (* value absent: the empty value *)
          JObj [(JStr s_ok, JBool false)];
          JObj [(JStr s_value, x); (JStr s_value, x)];                 (* duplicates *)
          JObj [(JStr s_value, x); (JStr s_ok, JBool true); (JStr s_value, x)];
          JObj [(JStr s_ok, JBool true); (JStr s_value, x); (JStr s_ok, JBool true)];
          JObj [(JStr s_ok, JBool false); (JStr s_ok, JBool true); (JStr s_value, x)];
          JObj [(JStr s_value, x); (JStr s_ok, JNum [49])];            (* ok that is not a boolean *)
          JObj [(JStr s_value, x); (JStr s_ok, JBool true); (JStr s_unknown, JNull)] ]
    | None =>
        match ms with
        | [] => []                                                       (* {} may be any empty struct *)
        | _ => [ JObj [(JStr s_ok, JBool false)]; JObj [(JStr s_ok, JBool true)];
                 JObj [(JStr s_ok, JBool true); (JStr s_ok, JBool true)];
                 JObj [(JStr s_ok, JBool false); (JStr s_ok, JBool false)];
                 JObj [(JStr s_ok, JNull)] ]
        end
    end
  else [].

(** all trees that differ from [j] in exactly one Maybe-like object *)
Fixpoint jvariants (j : json) : list json :=
  match j with
  | JObj ms =>
      maybe_forms ms
      ++ map JObj ((fix go (l : list (json * json)) : list (list (json * json)) :=
                      match l with
                      | [] => []
                      | m :: r => map (fun x' => (fst m, x') :: r) (jvariants (snd m)) ++ map (cons m) (go r)
                      end) ms)
  | JArr es =>
      map JArr ((fix go (l : list json) : list (list json) :=
                   match l with
                   | [] => []
                   | e :: r => map (fun e' => e' :: r) (jvariants e) ++ map (cons e) (go r)
                   end) es)
  | _ => []
  end.
