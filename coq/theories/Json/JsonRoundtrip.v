(** Proofs about [Json], part 3: reading back what [jsonw] wrote yields the value (C05 b). *)
From Coq Require Import ZArith Lia ZifyN ZifyNat ZifyBool.
From TLV Require Import Prim.PrimModel Tl1.Tl1Model Tl1.Tl1Proofs
  Jprim.JprimModel Jprim.JprimUtf8 Jprim.JprimEsc Jprim.JprimStr Jprim.JprimProofs
  Json.JsonModel Json.JsonText Json.JsonProofs.
Ltac Zify.zify_post_hook ::= Z.div_mod_to_equations.
Open Scope N_scope.

(** ** integers *)
Lemma parse_uint_print bits n : n < 2 ^ bits -> parse_uint bits (print_N n) = Some n.
Proof.
  intros Hn. unfold parse_uint. rewrite print_N_roundtrip. now replace (n <? 2 ^ bits) with true by lia.
Qed.

Lemma parse_int_print bits z : 0 < bits ->
  (- Z.of_N (2 ^ (bits - 1)) <= z < Z.of_N (2 ^ (bits - 1)))%Z -> parse_int bits (print_Z z) = Some z.
Proof.
  intros Hb Hz. unfold print_Z.
  destruct (z <? 0)%Z eqn:S.
  - unfold parse_int. cbn [N.eqb Pos.eqb]. rewrite print_N_roundtrip.
    replace (Z.to_N (- z) <=? 2 ^ (bits - 1)) with true by lia. f_equal. lia.
  - destruct (print_N_spec (Z.to_N z)) as (V & d & ds & E & D1 & _). rewrite E in *.
    unfold parse_int.
    replace (d =? 45) with false by (unfold is_digit, in_rng in D1; lia).
    replace (d =? 43) with false by (unfold is_digit, in_rng in D1; lia).
    rewrite V. replace (Z.to_N z <? 2 ^ (bits - 1)) with true by lia. f_equal. lia.
Qed.

Lemma unsgn_sgn32 n : n < 4294967296 -> unsgn 32 (sgn32 n) = n.
Proof.
  intros H. unfold unsgn, sgn32. change (2 ^ 32) with 4294967296.
  destruct (n <? 2147483648) eqn:E.
  - rewrite Z.mod_small by lia. lia.
  - replace (Z.of_N n - 4294967296)%Z with (Z.of_N n + (-1) * Z.of_N 4294967296)%Z by lia.
    rewrite Z.mod_add by lia. rewrite Z.mod_small by lia. lia.
Qed.

Lemma unsgn_sgn64 n : n < 18446744073709551616 -> unsgn 64 (sgn64 n) = n.
Proof.
  intros H. unfold unsgn, sgn64. change (2 ^ 64) with 18446744073709551616.
  destruct (n <? 9223372036854775808) eqn:E.
  - rewrite Z.mod_small by lia. lia.
  - replace (Z.of_N n - 18446744073709551616)%Z with (Z.of_N n + (-1) * Z.of_N 18446744073709551616)%Z by lia.
    rewrite Z.mod_add by lia. rewrite Z.mod_small by lia. lia.
Qed.

Lemma sgn32_range n : n < 4294967296 -> (- Z.of_N (2 ^ (32 - 1)) <= sgn32 n < Z.of_N (2 ^ (32 - 1)))%Z.
Proof. intros H. unfold sgn32. change (2 ^ (32 - 1)) with 2147483648. destruct (n <? 2147483648) eqn:E; lia. Qed.
Lemma sgn64_range n : n < 18446744073709551616 -> (- Z.of_N (2 ^ (64 - 1)) <= sgn64 n < Z.of_N (2 ^ (64 - 1)))%Z.
Proof. intros H. unfold sgn64. change (2 ^ (64 - 1)) with 9223372036854775808. destruct (n <? 9223372036854775808) eqn:E; lia. Qed.

(** ** bits *)
Lemma lor_pow2_absorb n b : N.testbit n b = true -> N.lor n (2 ^ b) = n.
Proof.
  intros H. apply N.bits_inj. intros k. rewrite N.lor_spec, N.pow2_bits_eqb.
  destruct (b =? k) eqn:E; [|now rewrite orb_false_r].
  apply N.eqb_eq in E. subst. now rewrite H.
Qed.

Lemma add_bits_absorb g n l :
  (forall p, In p l -> fst p = g -> N.testbit n (snd p) = true) -> N.lor n (add_bits_of g l) = n.
Proof.
  induction l as [|p l IH]; intros H; cbn [add_bits_of fold_right].
  - apply N.lor_0_r.
  - fold (add_bits_of g l). destruct (Nat.eqb (fst p) g) eqn:E.
    + apply Nat.eqb_eq in E. rewrite N.lor_assoc, (lor_pow2_absorb n (snd p)) by (apply H; [now left|exact E]).
      apply IH. intros q Hq. apply H. now right.
    + apply IH. intros q Hq. apply H. now right.
Qed.

Lemma add_bits_none g l : (forall p, In p l -> fst p <> g) -> add_bits_of g l = 0.
Proof.
  induction l as [|p l IH]; intros H; cbn [add_bits_of fold_right]; [reflexivity|].
  fold (add_bits_of g l). destruct (Nat.eqb (fst p) g) eqn:E.
  - apply Nat.eqb_eq in E. exfalso. exact (H p (or_introl eq_refl) E).
  - apply IH. intros q Hq. apply H. now right.
Qed.

(** ** local mask chains against a consistent field list *)
Section Chains.
  Variables (ps : list N) (fs : list (option value)) (fds : list field).
  (** presence of every field agrees with its mask bit (what the writers insist on) *)
  Hypothesis Hcons : forall i fd ov, nth_error fds i = Some fd -> nth_error fs i = Some ov ->
    is_some ov = field_present ps fs fd.
  Hypothesis Hlen : length fs = length fds.

  Definition present (i : nat) : Prop := exists v, nth_error fs i = Some (Some v).

  Lemma field_nat_nonzero g : field_nat fs g <> 0 -> present g.
  Proof.
    unfold field_nat, present. destruct (nth_error fs g) as [[[n| | | | |]|]|]; try tauto. eauto.
  Qed.

  Lemma chain_bits fuel : forall i, present i ->
    (forall p, In p (fst (mask_chain fuel fds i)) -> N.testbit (field_nat fs (fst p)) (snd p) = true)
    /\ (forall a bit, snd (mask_chain fuel fds i) = Some (a, bit) -> N.testbit (eval_natarg ps [] a) bit = true).
  Proof.
    induction fuel as [|f IH]; intros i Hp; cbn [mask_chain]; [split; [intros ? []|discriminate]|].
    destruct (nth_error fds i) as [fd|] eqn:Efd; [|split; [intros ? []|discriminate]].
    destruct Hp as [v Hv].
    pose proof (Hcons i fd (Some v) Efd Hv) as Hpr. cbn [is_some] in Hpr. unfold field_present in Hpr.
    destruct (f_mask fd) as [[a bit]|] eqn:Em; [|split; [intros ? []|discriminate]].
    destruct a as [c|g|k].
    - split; [intros ? []|]. cbn [snd]. intros a' bit' [= <- <-]. cbn [eval_natarg] in *. now symmetry.
    - assert (Hg : present g).
      { apply field_nat_nonzero. cbn [eval_natarg] in Hpr. intros Z. rewrite Z in Hpr. now rewrite N.bits_0 in Hpr. }
      destruct (IH g Hg) as [I1 I2]. destruct (mask_chain f fds g) as [l e] eqn:El. cbn [fst snd] in *.
      split.
      + intros p [<-|Hin]; [cbn [fst snd eval_natarg] in *; now symmetry|]. now apply I1.
      + exact I2.
    - split; [intros ? []|]. cbn [snd]. intros a' bit' [= <- <-]. cbn [eval_natarg] in *. now symmetry.
  Qed.

  (** [sets]: flags of fields that are present *)
  Variable sets : list bool.
  Hypothesis Hsets : forall i, nth i sets false = true -> present i.

  Lemma all_adds_bits p : In p (all_adds fds sets) -> N.testbit (field_nat fs (fst p)) (snd p) = true.
  Proof.
    unfold all_adds. intros H. apply in_flat_map in H as (i & _ & Hi).
    destruct (nth i sets false) eqn:E; [|destruct Hi].
    exact (proj1 (chain_bits (length fds) i (Hsets i E)) p Hi).
  Qed.

  Lemma chain_ends_ok_true : chain_ends_ok fds sets ps = true.
  Proof.
    unfold chain_ends_ok. apply forallb_forall. intros i _.
    destruct (nth i sets false) eqn:E; [|reflexivity].
    destruct (snd (mask_chain (length fds) fds i)) as [[a bit]|] eqn:Ec; [|reflexivity].
    exact (proj2 (chain_bits (length fds) i (Hsets i E)) a bit Ec).
  Qed.

  Lemma adds_absorb g : N.lor (field_nat fs g) (add_bits_of g (all_adds fds sets)) = field_nat fs g.
  Proof. apply add_bits_absorb. intros p Hp <-. now apply all_adds_bits. Qed.

  Lemma adds_zero g : field_nat fs g = 0 -> add_bits_of g (all_adds fds sets) = 0.
  Proof.
    intros Z. apply add_bits_none. intros p Hp E. pose proof (all_adds_bits p Hp) as B.
    rewrite E, Z in B. now rewrite N.bits_0 in B.
  Qed.
End Chains.

Definition fwidth (is64 : bool) : N := if is64 then 64 else 32.

(** ** the round trip *)
Section RT.
  Variable ffmt : bool -> N -> bytes.
  Variable fparse : bool -> bytes -> option N.
  Variable js : jschema.
  (** strconv is an oracle: for finite values the formatter yields a number token which the parser maps back *)
  Hypothesis Hfmt : forall is64 b, ffinite is64 b = true -> num_ok (ffmt is64 b) = true.
  Hypothesis Hparse : forall is64 b, ffinite is64 b = true -> fparse is64 (ffmt is64 b) = Some b.
  Hypothesis Hwf : wf_jschema js = true.

  Notation W := (jsonw ffmt js).
  Notation R := (jsonr fparse js).

  Lemma wf_tl1 : wf_schema (sch js) = true.
  Proof. unfold wf_jschema in Hwf. now apply andb_true_iff in Hwf as [H _]. Qed.

  Lemma sch_lookup t d a : nth_error js t = Some (d, a) -> nth_error (sch js) t = Some d.
  Proof. intros H. unfold sch. now rewrite nth_error_map, H. Qed.

  Lemma wf_def t d a : nth_error js t = Some (d, a) -> tydef_ok (sch js) d = true.
  Proof. intros H. exact (wf_lookup _ _ _ wf_tl1 (sch_lookup _ _ _ H)). Qed.

  (** *** primitives *)
  Lemma float_rt is64 n : n < 2 ^ fwidth is64 -> float_diag is64 false n = [] ->
    jr_float_t fparse is64 (Some (jw_float ffmt is64 n)) = JOk n.
  Proof.
    intros Hn Hd. unfold float_diag in Hd. cbn [andb app] in Hd.
    unfold jw_float, jr_float_t.
    set (eb := (if is64 then 11 else 8) : N) in *. set (mb := (if is64 then 52 else 23) : N) in *.
    destruct (fl_is_nan eb mb n) eqn:E1.
    - cbn [andb] in Hd. destruct (n =? fl_nan eb mb) eqn:E; [|discriminate].
      apply N.eqb_eq in E. rewrite bytes_eqb_refl. now rewrite E.
    - destruct (fl_is_inf eb mb n) eqn:E2.
      + assert (Hb : n < 2 ^ (1 + eb + mb)) by (destruct is64; exact Hn).
        pose proof (fl_inf_bits eb mb n Hb E2) as I.
        destruct (fl_neg eb mb n).
        * replace (bytes_eqb s_nInf s_NaN) with false by reflexivity.
          replace (bytes_eqb s_nInf s_pInf) with false by reflexivity.
          rewrite bytes_eqb_refl. now rewrite I.
        * replace (bytes_eqb s_pInf s_NaN) with false by reflexivity.
          rewrite bytes_eqb_refl. now rewrite I.
      + assert (F : ffinite is64 n = true) by (unfold ffinite; fold eb mb; now rewrite E1, E2).
        rewrite (Hfmt _ _ F), (Hparse _ _ F). reflexivity.
  Qed.

  Lemma string_rt s : bytes_okb s = true -> jr_string_t (Some (jwstr s)) = JOk s.
  Proof.
    intros Hs. unfold jwstr. destruct (utf8_valid s); [reflexivity|].
    assert (Hb : bytes_ok s).
    { apply Forall_forall. intros x Hx. unfold bytes_okb in Hs. rewrite forallb_forall in Hs. specialize (Hs x Hx). unfold byte_ok. lia. }
    cbn [jr_string_t members keys_known keys_nodup forallb existsb fst snd jfind is_some negb andb orb].
    replace (key_is s_base64 (JStr s_base64)) with true by reflexivity.
    cbn [andb orb jbind jfind]. replace (key_is s_base64 (JStr s_base64)) with true by reflexivity.
    now rewrite (b64_roundtrip s Hb).
  Qed.

  Definition prim_diag (p : prim) (v : value) : list N :=
    match p, v with
    | PFloat, VNum n => float_diag false false n
    | PDouble, VNum n => float_diag true false n
    | _, _ => []
    end.

  Lemma prim_rt p v j : jw_prim ffmt p v = Some j -> prim_diag p v = [] -> jr_prim fparse p (Some j) = JOk v.
  Proof.
    destruct p, v; cbn [jw_prim prim_diag]; try discriminate.
    - destruct (n <? 4294967296) eqn:E; [|discriminate]. intros [= <-] _.
      cbn [jr_prim jr_uint_t]. rewrite num_ok_print_N, parse_uint_print by (change (2 ^ 32) with 4294967296; lia). reflexivity.
    - destruct (n <? 4294967296) eqn:E; [|discriminate]. intros [= <-] _.
      cbn [jr_prim jr_int_t]. rewrite num_ok_print_Z, parse_int_print by (try apply sgn32_range; lia).
      cbn [of_opt jbind]. rewrite unsgn_sgn32 by lia. reflexivity.
    - destruct (n <? 4294967296) eqn:E; [|discriminate]. intros [= <-] Hd.
      cbn [jr_prim]. rewrite float_rt by (try exact Hd; change (2 ^ fwidth false) with 4294967296; lia). reflexivity.
    - destruct (n <? 18446744073709551616) eqn:E; [|discriminate]. intros [= <-] _.
      cbn [jr_prim jr_int_t]. rewrite num_ok_print_Z, parse_int_print by (try apply sgn64_range; lia).
      cbn [of_opt jbind]. rewrite unsgn_sgn64 by lia. reflexivity.
    - destruct (n <? 18446744073709551616) eqn:E; [|discriminate]. intros [= <-] Hd.
      cbn [jr_prim]. rewrite float_rt by (try exact Hd; change (2 ^ fwidth true) with 18446744073709551616; lia). reflexivity.
    - destruct (bytes_okb s) eqn:E; [|discriminate]. intros [= <-] _.
      cbn [jr_prim]. now rewrite string_rt.
    - intros [= <-] _. reflexivity.
  Qed.
  (** *** what [jw_fields] writes, seen through [jfind] *)
  Definition plain_names (fis : list jfinfo) : Prop := Forall (fun fi => name_plain (jf_name fi) = true) fis.

  Lemma existsb_eqb_notin a r : existsb (bytes_eqb a) r = false -> ~ In a r.
  Proof.
    intros H Hin. assert (existsb (bytes_eqb a) r = true); [|congruence].
    apply existsb_exists. exists a. split; [exact Hin|apply bytes_eqb_refl].
  Qed.

  Lemma jw_field_key rec ps all fd fi ov m :
    jw_field js rec ps all fd fi ov = Some (Some m) -> fst m = JStr (jf_name fi).
  Proof.
    unfold jw_field. destruct ov as [v|].
    - destruct (negb (field_present ps all fd)); [discriminate|].
      destruct (rec _ _ v) as [j|]; [|discriminate]. cbn [bind_opt].
      destruct (jf_bit fi); [now intros [= <-]|].
      destruct (is_true_type js (f_ty fd)); [discriminate|].
      destruct (is_some (f_mask fd) || nonempty js (f_ty fd) v); [now intros [= <-]|discriminate].
    - destruct (field_present ps all fd); discriminate.
  Qed.

  Lemma jfind_notin nm ms :
    (forall m, In m ms -> exists k, fst m = JStr k /\ name_plain k = true /\ k <> nm) -> jfind nm ms = None.
  Proof.
    induction ms as [|[k x] ms IH]; intros H; cbn [jfind]; [reflexivity|].
    destruct (H (k, x) (or_introl eq_refl)) as (k0 & Ek & Hp & Hne). cbn [fst] in Ek. subst k.
    rewrite (key_is_plain nm k0 Hp), (bytes_eqb_neq _ _ Hne).
    apply IH. intros m Hm. apply H. now right.
  Qed.

  Lemma jw_fields_nth rec ps all : forall vs fds fis ms,
    jw_fields js rec ps all fds fis vs = Some ms ->
    plain_names fis -> names_distinct (map jf_name fis) = true ->
    length fds = length vs /\ length fis = length vs /\
    keys_nodup ms = true /\
    (forall m, In m ms -> exists fi, In fi fis /\ fst m = JStr (jf_name fi)) /\
    forall i fd fi ov, nth_error fds i = Some fd -> nth_error fis i = Some fi -> nth_error vs i = Some ov ->
      exists om, jw_field js rec ps all fd fi ov = Some om /\ jfind (jf_name fi) ms = option_map snd om.
  Proof.
    unfold plain_names.
    induction vs as [|ov vs IH]; intros fds fis ms H Hpl Hnd.
    - destruct fds, fis; cbn [jw_fields] in H; try discriminate. injection H as <-.
      repeat split; try reflexivity; [intros ? []|]. intros [|i] ? ? ? ?; discriminate.
    - destruct fds as [|fd0 fds], fis as [|fi0 fis]; cbn [jw_fields] in H; try discriminate.
      destruct (jw_field js rec ps all fd0 fi0 ov) as [om0|] eqn:E0; [|discriminate]. cbn [bind_opt] in H.
      destruct (jw_fields js rec ps all fds fis vs) as [rest|] eqn:Er; [|discriminate]. cbn [bind_opt] in H.
      injection H as <-.
      apply Forall_cons_iff in Hpl as [Hp0 Hpl].
      cbn [map names_distinct] in Hnd. apply andb_true_iff in Hnd as [Hn0 Hnd]. apply negb_true_iff in Hn0.
      destruct (IH fds fis rest Er Hpl Hnd) as (L1 & L2 & Nd & Keys & Nth).
      assert (Hrest0 : jfind (jf_name fi0) rest = None).
      { apply jfind_notin. intros m Hm. destruct (Keys m Hm) as (fi & Hfi & Ek).
        exists (jf_name fi). split; [exact Ek|]. rewrite Forall_forall in Hpl. split; [now apply Hpl|].
        intros Heq. apply (existsb_eqb_notin _ _ Hn0). rewrite <- Heq. now apply in_map. }
      repeat split.
      + cbn [length]. now rewrite L1.
      + cbn [length]. now rewrite L2.
      + destruct om0 as [m0|]; [|exact Nd].
        rewrite (surjective_pairing m0), (jw_field_key _ _ _ _ _ _ _ E0). cbn [keys_nodup].
        rewrite (name_plain_raw _ Hp0), Hrest0, Nd. reflexivity.
      + intros m Hm. destruct om0 as [m0|].
        * destruct Hm as [<-|Hm].
          -- exists fi0. split; [now left|]. exact (jw_field_key _ _ _ _ _ _ _ E0).
          -- destruct (Keys m Hm) as (fi & Hfi & Ek). exists fi. split; [now right|exact Ek].
        * destruct (Keys m Hm) as (fi & Hfi & Ek). exists fi. split; [now right|exact Ek].
      + intros [|i] fd fi ov' Hfd Hfi Hov; cbn [nth_error] in Hfd, Hfi, Hov.
        * injection Hfd as <-. injection Hfi as <-. injection Hov as <-.
          exists om0. split; [exact E0|]. destruct om0 as [m0|]; [|exact Hrest0].
          rewrite (surjective_pairing m0), (jw_field_key _ _ _ _ _ _ _ E0). cbn [jfind option_map snd].
          now rewrite (key_is_plain _ _ Hp0), bytes_eqb_refl.
        * destruct (Nth i fd fi ov' Hfd Hfi Hov) as (om & Eo & Ef). exists om. split; [exact Eo|].
          destruct om0 as [m0|]; [|exact Ef].
          rewrite (surjective_pairing m0), (jw_field_key _ _ _ _ _ _ _ E0). cbn [jfind].
          rewrite (key_is_plain _ _ Hp0).
          assert (Hne : jf_name fi0 <> jf_name fi).
          { intros Heq. apply (existsb_eqb_notin _ _ Hn0). rewrite Heq. apply in_map. eapply nth_error_In; eauto. }
          now rewrite (bytes_eqb_neq _ _ Hne).
  Qed.

  Lemma keys_known_names fis ms :
    plain_names fis ->
    (forall m, In m ms -> exists fi, In fi fis /\ fst m = JStr (jf_name fi)) ->
    keys_known (map jf_name fis) ms = true.
  Proof.
    unfold plain_names. intros Hpl H. unfold keys_known. apply forallb_forall. intros m Hm.
    destruct (H m Hm) as (fi & Hfi & Ek). apply existsb_exists. exists (jf_name fi). split; [now apply in_map|].
    rewrite Ek. rewrite Forall_forall in Hpl. rewrite (key_is_plain _ _ (Hpl fi Hfi)). apply bytes_eqb_refl.
  Qed.
  (** *** one struct body: the members [jw_fields] wrote, read back by [jr_fields] *)
  Lemma true_not_nat t : is_true_type js t = true -> is_nat_type js t = false.
  Proof.
    unfold is_true_type, is_nat_type. destruct (nth_error js t) as [[d a]|]; [|discriminate].
    destruct d; try discriminate; intros _; reflexivity.
  Qed.

  Section StructCtx.
    Variables (recw : nat -> list N -> value -> option json) (ps : list N) (fs : list (option value))
              (fds : list field) (fis : list jfinfo) (ms : list (json * json)).
    Hypothesis Hw : jw_fields js recw ps fs fds fis fs = Some ms.
    Hypothesis Hpl : plain_names fis.
    Hypothesis Hnd : names_distinct (map jf_name fis) = true.

    Let facts := jw_fields_nth recw ps fs fs fds fis ms Hw Hpl Hnd.

    Lemma sc_len : length fds = length fs /\ length fis = length fs.
    Proof. destruct facts as (A & B & _). now split. Qed.

    Lemma sc_field i fd fi ov : nth_error fds i = Some fd -> nth_error fis i = Some fi -> nth_error fs i = Some ov ->
      exists om, jw_field js recw ps fs fd fi ov = Some om /\ jfind (jf_name fi) ms = option_map snd om.
    Proof. destruct facts as (_ & _ & _ & _ & F). apply F. Qed.

    Lemma sc_members : members (map jf_name fis) (Some (JObj ms)) = JOk ms.
    Proof.
      destruct facts as (_ & _ & Nd & Keys & _). cbn [members].
      now rewrite (keys_known_names fis ms Hpl Keys), Nd.
    Qed.

    (** consistency of presence with the mask bits *)
    Lemma jw_field_cons fd fi ov om : jw_field js recw ps fs fd fi ov = Some om -> is_some ov = field_present ps fs fd.
    Proof.
      unfold jw_field. destruct ov as [v|]; cbn [is_some].
      - destruct (field_present ps fs fd); [reflexivity|discriminate].
      - destruct (field_present ps fs fd); [discriminate|reflexivity].
    Qed.

    Lemma sc_cons i fd ov : nth_error fds i = Some fd -> nth_error fs i = Some ov -> is_some ov = field_present ps fs fd.
    Proof.
      intros Hfd Hov. destruct sc_len as [L1 L2].
      destruct (nth_error fis i) as [fi|] eqn:Efi.
      - destruct (sc_field i fd fi ov Hfd Efi Hov) as (om & Eo & _). eapply jw_field_cons; eauto.
      - exfalso. apply nth_error_None in Efi. assert (i < length fs)%nat by (apply nth_error_Some; congruence). lia.
    Qed.

    (** the [set] flag of a field: its member was written *)
    Definition wflag (i : nat) : bool :=
      match nth_error fds i, nth_error fis i, nth_error fs i with
      | Some fd, Some fi, Some ov => match jw_field js recw ps fs fd fi ov with Some (Some _) => true | _ => false end
      | _, _, _ => false
      end.
    Definition wsets : list bool := map wflag (seq 0 (length fis)).

    Lemma wsets_nth i : nth i wsets false = wflag i.
    Proof.
      unfold wsets. destruct (Nat.ltb i (length fis)) eqn:E.
      - apply Nat.ltb_lt in E. rewrite (nth_indep _ false (wflag 0%nat)) by (rewrite map_length, seq_length; exact E).
        rewrite map_nth. now rewrite seq_nth.
      - apply Nat.ltb_ge in E. rewrite nth_overflow by (rewrite map_length, seq_length; exact E).
        unfold wflag. destruct (nth_error fds i); [|reflexivity].
        replace (nth_error fis i) with (@None jfinfo); [reflexivity|]. symmetry. now apply nth_error_None.
    Qed.

    Lemma wflag_present i : wflag i = true -> present fs i.
    Proof.
      unfold wflag, present. destruct (nth_error fds i) as [fd|]; [|discriminate].
      destruct (nth_error fis i) as [fi|]; [|discriminate]. destruct (nth_error fs i) as [[v|]|]; try discriminate; [eauto|].
      unfold jw_field. destruct (field_present ps fs fd); discriminate.
    Qed.

    Lemma bit_field_member fd fi ov om : jf_bit fi = true -> jw_field js recw ps fs fd fi ov = Some om ->
      om = match ov with Some _ => Some (JStr (jf_name fi), JBool true) | None => None end.
    Proof.
      intros Hb. unfold jw_field. rewrite Hb. destruct ov as [v|].
      - destruct (negb (field_present ps fs fd)); [discriminate|]. destruct (recw _ _ v); [|discriminate]. now intros [= <-].
      - destruct (field_present ps fs fd); [discriminate|]. now intros [= <-].
    Qed.

    Lemma set_flags_suffix : forall fis' k, length fis = (k + length fis')%nat ->
      (forall i fi, nth_error fis' i = Some fi -> nth_error fis (k + i) = Some fi) ->
      set_flags fis' ms = JOk (map wflag (seq k (length fis'))).
    Proof.
      induction fis' as [|fi fis' IH]; intros k Hlen Hnth; cbn [set_flags length seq map]; [reflexivity|].
      pose proof (Hnth 0%nat fi eq_refl) as Hk. rewrite Nat.add_0_r in Hk.
      destruct sc_len as [L1 L2].
      assert (Hkl : (k < length fs)%nat) by (cbn [length] in Hlen; lia).
      destruct (nth_error fds k) as [fd|] eqn:Efd; [|apply nth_error_None in Efd; lia].
      destruct (nth_error fs k) as [ov|] eqn:Eov; [|apply nth_error_None in Eov; lia].
      destruct (sc_field k fd fi ov Efd Hk Eov) as (om & Eo & Ef).
      assert (Hflag : (if jf_bit fi then bit_member (jf_name fi) ms else JOk (is_some (jfind (jf_name fi) ms))) = JOk (wflag k)).
      { unfold wflag. rewrite Efd, Hk, Eov, Eo. destruct (jf_bit fi) eqn:Eb.
        - rewrite (bit_field_member fd fi ov om Eb Eo) in *. unfold bit_member. rewrite Ef.
          destruct ov; reflexivity.
        - rewrite Ef. destruct om; reflexivity. }
      rewrite Hflag. cbn [jbind].
      rewrite (IH (S k)).
      + reflexivity.
      + cbn [length] in Hlen. lia.
      + intros i fi' Hi. replace (S k + i)%nat with (k + S i)%nat by lia. now apply Hnth.
    Qed.

    Lemma sc_set_flags : set_flags fis ms = JOk wsets.
    Proof. apply (set_flags_suffix fis 0); [reflexivity|intros; assumption]. Qed.

    Lemma sc_sets_present i : nth i wsets false = true -> present fs i.
    Proof. rewrite wsets_nth. apply wflag_present. Qed.

    Definition wadds : list (nat * N) := all_adds fds wsets.

    Lemma sc_chain_ends : chain_ends_ok fds wsets ps = true.
    Proof. apply (chain_ends_ok_true ps fs fds sc_cons wsets sc_sets_present). Qed.

    Lemma sc_or_nat i v : nth_error fs i = Some (Some v) -> or_nat v (add_bits_of i wadds) = v.
    Proof.
      intros H. destruct v; cbn [or_nat]; try reflexivity.
      pose proof (adds_absorb ps fs fds sc_cons wsets sc_sets_present i) as A.
      unfold field_nat in A. rewrite H in A. unfold wadds. now rewrite A.
    Qed.

    Lemma sc_adds_zero i : nth_error fs i = Some None -> add_bits_of i wadds = 0.
    Proof.
      intros H. apply (adds_zero ps fs fds sc_cons wsets sc_sets_present). unfold field_nat. now rewrite H.
    Qed.

    (** **** reading *)
    Variables (recr : nat -> list N -> option json -> jres value) (rst : nat -> list N -> jres value) (tl2 : bool).
    (** a written member is read back as the value *)
    Hypothesis Hrec : forall i fd v j, nth_error fds i = Some fd -> nth_error fs i = Some (Some v) ->
      recw (f_ty fd) (eval_args ps fs (f_args fd)) v = Some j ->
      recr (f_ty fd) (eval_args ps fs (f_args fd)) (Some j) = JOk v.
    (** a present field whose member is not written (empty value, or a type without fields) is restored *)
    Hypothesis Hskip : forall i fd fi v j, nth_error fds i = Some fd -> nth_error fis i = Some fi -> nth_error fs i = Some (Some v) ->
      recw (f_ty fd) (eval_args ps fs (f_args fd)) v = Some j ->
      jw_field js recw ps fs fd fi (Some v) = Some None ->
      rst (f_ty fd) [] = JOk v /\ rst (f_ty fd) (eval_args ps fs (f_args fd)) = JOk v
      /\ recr (f_ty fd) (eval_args ps fs (f_args fd)) None = JOk v.
    (** true-typed masked fields hold the empty struct *)
    Hypothesis Hbit : forall i fd fi v, nth_error fds i = Some fd -> nth_error fis i = Some fi -> nth_error fs i = Some (Some v) ->
      jf_bit fi = true -> v = VStruct [].
    Hypothesis Hbitty : forall i fd fi, nth_error fds i = Some fd -> nth_error fis i = Some fi ->
      jf_bit fi = true -> is_true_type js (f_ty fd) = true.
    Hypothesis Hnat : forall t a, is_nat_type js t = true -> rst t a = JOk (VNum 0) /\ recr t a None = JOk (VNum 0).

    Lemma jr_field_rt acc ov vs' fd fi :
      fs = acc ++ ov :: vs' ->
      nth_error fds (length acc) = Some fd -> nth_error fis (length acc) = Some fi ->
      field_ok (length acc) fd = true ->
      jr_field js recr rst tl2 ps fds fis ms wsets wadds fd fi (length acc) acc = JOk ov.
    Proof.
      intros Hfs Hfd Hfi Hok.
      assert (Hov : nth_error fs (length acc) = Some ov).
      { rewrite Hfs, nth_error_app2 by lia. now rewrite Nat.sub_diag. }
      assert (Hpres : field_present ps acc fd = field_present ps fs fd).
      { rewrite Hfs. symmetry. now apply field_present_prefix. }
      assert (Hargs : eval_args ps acc (f_args fd) = eval_args ps fs (f_args fd)).
      { rewrite Hfs. symmetry. apply eval_args_prefix. unfold field_ok in Hok. now apply andb_true_iff in Hok as [_ ?]. }
      clear Hok. remember (length acc) as idx eqn:Hidx. clear Hidx Hfs.
      destruct (sc_field idx fd fi ov Hfd Hfi Hov) as (om & Eo & Ef).
      pose proof (jw_field_cons _ _ _ _ Eo) as Hc.
      unfold jr_field. rewrite Hpres, Hargs, Ef, wsets_nth.
      destruct ov as [v|]; cbn [is_some] in Hc; rewrite <- Hc.
      - (* present *)
        cbn [negb andb]. rewrite !andb_false_r. cbn [andb].
        assert (Hflag : wflag idx = is_some om).
        { unfold wflag. rewrite Hfd, Hfi, Hov, Eo. destruct om; reflexivity. }
        destruct (jf_bit fi) eqn:Eb.
        + rewrite (Hbit idx fd fi v Hfd Hfi Hov Eb) in *.
          rewrite (bit_field_member fd fi _ om Eb Eo) in *. cbn [option_map snd is_some] in *.
          rewrite Hflag. cbn [negb andb]. rewrite !andb_false_r. reflexivity.
        + unfold jw_field in Eo. cbn [negb] in Eo. rewrite <- Hc in Eo. cbn [negb] in Eo.
          destruct (recw (f_ty fd) (eval_args ps fs (f_args fd)) v) as [j|] eqn:Ew; [|discriminate].
          cbn [bind_opt] in Eo. rewrite Eb in Eo.
          destruct om as [m|].
          * (* written *)
            assert (Em : m = (JStr (jf_name fi), j)).
            { destruct (is_true_type js (f_ty fd)); [discriminate|].
              destruct (is_some (f_mask fd) || nonempty js (f_ty fd) v); [|discriminate]. now injection Eo as <-. }
            subst m. cbn [option_map snd].
            rewrite (Hrec idx fd v j Hfd Hov Ew). cbn [jbind]. now rewrite (sc_or_nat idx v Hov).
          * (* present but not written *)
            cbn [option_map].
            assert (Es : jw_field js recw ps fs fd fi (Some v) = Some None).
            { unfold jw_field. rewrite <- Hc. cbn [negb]. rewrite Ew. cbn [bind_opt]. rewrite Eb. exact Eo. }
            destruct (Hskip idx fd fi v j Hfd Hfi Hov Ew Es) as (S1 & S2 & S3).
            destruct (f_args fd) as [|a0 args0] eqn:Ea.
            -- rewrite S1. cbn [jbind]. now rewrite (sc_or_nat idx v Hov).
            -- rewrite <- Ea in *. rewrite S2, S3.
               destruct (if is_some (f_mask fd) then if tl2 then mask_bit_before fis ms ps fd else true else true); reflexivity.
      - (* absent: the mask bit is clear *)
        cbn [negb andb].
        assert (Hm : is_some (f_mask fd) = true).
        { unfold field_present in Hc. destruct (f_mask fd); [reflexivity|discriminate]. }
        rewrite Hm. cbn [andb].
        assert (Eom : om = None).
        { unfold jw_field in Eo. rewrite <- Hc in Eo. now injection Eo as <-. }
        subst om. cbn [option_map is_some negb andb].
        destruct (jf_bit fi) eqn:Eb.
        + cbn [negb andb]. rewrite !andb_false_r. cbn [jbind].
          (* a true-typed field is not a # field *)
          now rewrite (true_not_nat _ (Hbitty idx fd fi Hfd Hfi Eb)).
        + cbn [negb andb].
          destruct (is_nat_type js (f_ty fd)) eqn:En; cbn [negb andb]; [|reflexivity].
          destruct (Hnat (f_ty fd) [] En) as [N1 _]. destruct (Hnat (f_ty fd) (eval_args ps fs (f_args fd)) En) as [N2 N3].
          rewrite (sc_adds_zero idx Hov).
          destruct (f_args fd) as [|a0 args0] eqn:Ea.
          * rewrite N1. cbn [jbind or_nat N.lor]. rewrite andb_false_r. reflexivity.
          * rewrite <- Ea in *. rewrite N2, N3.
            destruct (if tl2 then mask_bit_before fis ms ps fd else false); cbn [jbind]; rewrite andb_false_r; reflexivity.
    Qed.
      Lemma jr_fields_rt : forall vs' acc fds' fis',
      fs = acc ++ vs' ->
      (forall i fd, nth_error fds' i = Some fd -> nth_error fds (length acc + i) = Some fd) ->
      (forall i fi, nth_error fis' i = Some fi -> nth_error fis (length acc + i) = Some fi) ->
      length fds' = length vs' -> length fis' = length vs' ->
      fields_ok (length acc) fds' = true ->
      jr_fields js recr rst tl2 ps fds fis ms wsets wadds fds' fis' (length acc) acc = JOk fs.
    Proof.
      induction vs' as [|ov vs' IH]; intros acc fds' fis' Hfs Hfd Hfi L1 L2 Hok.
      - destruct fds', fis'; try discriminate. cbn [jr_fields]. now rewrite Hfs, app_nil_r.
      - destruct fds' as [|fd fds'], fis' as [|fi fis']; try discriminate.
        cbn [fields_ok] in Hok. apply andb_true_iff in Hok as [Hok1 Hok2].
        cbn [jr_fields].
        pose proof (Hfd 0%nat fd eq_refl) as Hfd0. pose proof (Hfi 0%nat fi eq_refl) as Hfi0.
        rewrite Nat.add_0_r in Hfd0, Hfi0.
        rewrite (jr_field_rt acc ov vs' fd fi Hfs Hfd0 Hfi0 Hok1). cbn [jbind].
        replace (S (length acc)) with (length (acc ++ [ov])) by (rewrite app_length; cbn [length]; lia).
        apply IH.
        + now rewrite <- app_assoc.
        + intros i fd' Hi. rewrite app_length. cbn [length]. replace (length acc + 1 + i)%nat with (length acc + S i)%nat by lia. now apply Hfd.
        + intros i fi' Hi. rewrite app_length. cbn [length]. replace (length acc + 1 + i)%nat with (length acc + S i)%nat by lia. now apply Hfi.
        + cbn [length] in L1. lia.
        + cbn [length] in L2. lia.
        + rewrite app_length. cbn [length]. now rewrite Nat.add_1_r.
    Qed.

    Hypothesis Hfok : fields_ok 0 fds = true.

    Lemma jr_body_rt : jr_body js recr rst tl2 false fds fis ps (Some (JObj ms)) = JOk fs.
    Proof.
      unfold jr_body. rewrite sc_members. cbn [jbind]. rewrite sc_set_flags. cbn [jbind].
      rewrite sc_chain_ends. cbn [negb]. rewrite andb_false_r.
      destruct sc_len as [L1 L2].
      exact (jr_fields_rt fs [] fds fis eq_refl (fun i fd H => H) (fun i fi H => H) L1 L2 Hfok).
    Qed.
  End StructCtx.
  (** *** auxiliary facts about types and diagnostics *)
  Lemma eval_args_nofield ps fs args : forallb (natarg_ok 0) args = true -> eval_args ps fs args = eval_args ps [] args.
  Proof. intros H. exact (eval_args_prefix ps [] fs args H). Qed.

  Lemma ann_struct t tag fds a : nth_error js t = Some (TStruct tag fds, a) ->
    exists tl2 td fis, a = AStruct tl2 td fis /\ length fds = length fis /\
      forallb (field_ann_ok js) (combine fds fis) = true /\ names_distinct (map jf_name fis) = true /\
      (td = true -> exists fd, fds = [fd] /\ f_mask fd = None) /\ fields_ok 0 fds = true.
  Proof.
    intros Et. pose proof (wf_ann js Hwf _ _ _ Et) as Ha. pose proof (wf_def _ _ _ Et) as Hd.
    destruct a as [tl2 td fis| |]; cbn [ann_ok] in Ha; try discriminate.
    apply andb_true_iff in Ha as [Ha Htd]. apply andb_true_iff in Ha as [Ha Hnd]. apply andb_true_iff in Ha as [Hl Hann].
    exists tl2, td, fis. repeat split; auto.
    - now apply Nat.eqb_eq.
    - intros ->. destruct fds as [|fd [|? ?]]; try discriminate. exists fd. split; [reflexivity|].
      destruct (f_mask fd); [discriminate|reflexivity].
    - cbn [tydef_ok] in Hd. now apply andb_true_iff in Hd as [_ ?].
  Qed.

  Lemma ann_plain fds fis : length fds = length fis -> forallb (field_ann_ok js) (combine fds fis) = true -> plain_names fis.
  Proof.
    unfold plain_names. revert fis. induction fds as [|fd fds IH]; intros [|fi fis] L H; try discriminate; [constructor|].
    cbn [combine forallb] in H. apply andb_true_iff in H as [H1 H2]. constructor.
    - unfold field_ann_ok in H1. cbn [fst snd] in H1. apply andb_true_iff in H1 as [H1 _]. now apply andb_true_iff in H1 as [? _].
    - apply IH; [cbn [length] in L; lia|exact H2].
  Qed.

  Lemma ann_bit fds fis i fd fi : forallb (field_ann_ok js) (combine fds fis) = true ->
    nth_error fds i = Some fd -> nth_error fis i = Some fi -> jf_bit fi = true -> is_true_type js (f_ty fd) = true.
  Proof.
    revert fis i. induction fds as [|fd0 fds IH]; intros [|fi0 fis] [|i] H Hfd Hfi Hb; try discriminate;
      cbn [combine forallb] in H; apply andb_true_iff in H as [H1 H2]; cbn [nth_error] in Hfd, Hfi.
    - injection Hfd as <-. injection Hfi as <-. unfold field_ann_ok in H1. cbn [fst snd] in H1.
      apply andb_true_iff in H1 as [H1 _]. apply andb_true_iff in H1 as [_ H1]. rewrite Hb in H1. now apply andb_true_iff in H1 as [_ ?].
    - eapply IH; eauto.
  Qed.

  Lemma ann_nat_args fds fis i fd : length fds = length fis -> forallb (field_ann_ok js) (combine fds fis) = true ->
    nth_error fds i = Some fd -> is_nat_type js (f_ty fd) = true -> f_args fd = [].
  Proof.
    revert fis i. induction fds as [|fd0 fds IH]; intros [|fi0 fis] [|i] L H Hfd Hn; try discriminate;
      cbn [combine forallb] in H; apply andb_true_iff in H as [H1 H2]; cbn [nth_error] in Hfd.
    - injection Hfd as <-. unfold field_ann_ok in H1. cbn [fst snd] in H1.
      apply andb_true_iff in H1 as [_ H1]. rewrite Hn in H1. destruct (f_args fd0); [reflexivity|discriminate].
    - eapply IH; eauto.
  Qed.

  Lemma W_true_type t ps v j : is_true_type js t = true -> W t ps v = Some j -> v = VStruct [].
  Proof.
    unfold is_true_type. intros Ht H. destruct (nth_error js t) as [[[?|tag fds|?|? ?|? ?] a]|] eqn:Et; try discriminate.
    destruct fds; [|discriminate].
    destruct (ann_struct _ _ _ _ Et) as (tl2 & td & fis & -> & L & _ & _ & Htd & _).
    destruct v; cbn [jsonw] in H; rewrite Et in H; try discriminate.
    unfold jw_body in H. destruct td.
    - destruct (Htd eq_refl) as (fd & Ef & _). discriminate.
    - destruct fis; [|discriminate]. destruct fs; [reflexivity|]. cbn [jw_fields] in H. discriminate.
  Qed.

  Lemma true_type_default f t ps : is_true_type js t = true ->
    R (S f) t ps None = JOk (VStruct []) /\ reset_value js (S f) t ps = JOk (VStruct []).
  Proof.
    unfold is_true_type. intros Ht. destruct (nth_error js t) as [[[?|tag fds|?|? ?|? ?] a]|] eqn:Et; try discriminate.
    destruct fds; [|discriminate].
    destruct (ann_struct _ _ _ _ Et) as (tl2 & td & fis & -> & L & _ & _ & Htd & _).
    destruct td; [destruct (Htd eq_refl) as (fd & Ef & _); discriminate|].
    destruct fis; [|discriminate].
    cbn [jsonr reset_value]. rewrite Et. split; [|reflexivity].
    unfold jr_body. cbn [map members jbind set_flags]. unfold chain_ends_ok. cbn [length seq forallb negb andb].
    rewrite andb_false_r. reflexivity.
  Qed.

  Lemma nat_type_default f t a : is_nat_type js t = true ->
    reset_value js (S f) t a = JOk (VNum 0) /\ R (S f) t a None = JOk (VNum 0).
  Proof.
    unfold is_nat_type. intros Ht. destruct (nth_error js t) as [[[[]|?|?|? ?|? ?] a0]|] eqn:Et; try discriminate.
    cbn [jsonr reset_value]. rewrite Et. split; reflexivity.
  Qed.

  Lemma float_diag_mono is64 n : float_diag is64 true n = [] -> float_diag is64 false n = [].
  Proof. unfold float_diag. cbn [andb app]. intros H. now apply app_eq_nil in H as [_ ?]. Qed.

  Lemma jd_fields_nil rec ps all : forall vs fds,
    jd_fields rec ps all fds vs = [] ->
    forall i fd v, nth_error fds i = Some fd -> nth_error vs i = Some (Some v) ->
      rec (f_ty fd) (eval_args ps all (f_args fd)) (negb (is_some (f_mask fd))) v = [].
  Proof.
    induction vs as [|ov vs IH]; intros fds H i fd v Hfd Hv; [destruct i; discriminate|].
    destruct fds as [|fd0 fds]; [destruct i; discriminate|].
    cbn [jd_fields] in H. apply app_eq_nil in H as [H1 H2].
    destruct i as [|i]; cbn [nth_error] in Hfd, Hv.
    - injection Hfd as <-. injection Hv as ->. exact H1.
    - eapply IH; eauto.
  Qed.

  Lemma jdiag_mono : forall v t ps, jdiag js t ps true v = [] -> jdiag js t ps false v = [].
  Proof.
    induction v as [n|str|bv|fs IH|idx fs IH|es IH] using value_ind'; intros t ps H;
      cbn [jdiag] in *; destruct (nth_error js t) as [[d a]|] eqn:Et; try reflexivity.
    - destruct d as [[]| | | |]; try exact H; try reflexivity; now apply float_diag_mono.
    - destruct d as [[]| | | |]; try exact H; reflexivity.
    - destruct d as [[]| | | |]; try exact H; reflexivity.
    - destruct d as [[]|tag fds| | |]; try exact H; try reflexivity.
      destruct a as [tl2 td fis| |]; try exact H. destruct td; [|exact H].
      destruct fds as [|fd [|? ?]]; try exact H. destruct fs as [|[v'|] [|? ?]]; try exact H.
      apply Forall_cons_iff in IH as [IHv _]. now apply IHv.
    - exact H.
    - exact H.
  Qed.
  (** *** the two statements proved together, by induction on the fuel *)
  Definition RTP (fuel : nat) (v : value) : Prop :=
    forall t ps j, W t ps v = Some j -> jdiag js t ps false v = [] -> R fuel t ps (Some j) = JOk v.
  (** an omitted member (empty value) is restored by the nil-lexer read and by Reset *)
  Definition EMP (fuel : nat) (v : value) : Prop :=
    forall t ps j, W t ps v = Some j -> nonempty js t v = false -> jdiag js t ps true v = [] ->
      R fuel t ps None = JOk v /\ forall ps', reset_value js fuel t ps' = JOk v.

  Lemma emp_step f v : (forall x, (vdepth x < vdepth v)%nat -> EMP f x) -> EMP (S f) v.
  Proof.
    intros IH t ps j Hw Hne Hd.
    destruct v as [n|str|bv|fs|idx fs|es]; cbn [jsonw nonempty jdiag] in *;
      destruct (nth_error js t) as [[d a]|] eqn:Et; try discriminate.
    - (* numbers *)
      destruct d as [p| | | |]; try discriminate; try (destruct a; discriminate).
      cbn [jsonr reset_value]. rewrite Et.
      destruct p; cbn [jw_prim] in Hw; try discriminate; cbn [jr_prim jr_uint_t jr_int_t jr_float_t jbind].
      + apply negb_false_iff, N.eqb_eq in Hne. subst. split; reflexivity.
      + apply negb_false_iff, N.eqb_eq in Hne. subst. split; reflexivity.
      + destruct (n <? 4294967296) eqn:E; [|discriminate].
        apply negb_false_iff, N.eqb_eq in Hne. unfold float_diag in Hd. cbn [andb] in Hd.
        change (2 ^ (8 + 23)) with 2147483648 in Hd.
        destruct (n =? 2147483648) eqn:E2; [discriminate|].
        assert (n = 0) by lia. subst. split; reflexivity.
      + apply negb_false_iff, N.eqb_eq in Hne. subst. split; reflexivity.
      + destruct (n <? 18446744073709551616) eqn:E; [|discriminate].
        apply negb_false_iff, N.eqb_eq in Hne. unfold float_diag in Hd. cbn [andb] in Hd.
        change (2 ^ (11 + 52)) with 9223372036854775808 in Hd.
        destruct (n =? 9223372036854775808) eqn:E2; [discriminate|].
        assert (n = 0) by lia. subst. split; reflexivity.
    - (* strings *)
      destruct d as [p| | | |]; try discriminate; try (destruct a; discriminate).
      cbn [jsonr reset_value]. rewrite Et.
      destruct p; cbn [jw_prim] in Hw; try discriminate.
      apply negb_false_iff in Hne. destruct str; [|discriminate]. split; reflexivity.
    - (* bool *)
      destruct d as [p| | | |]; try discriminate; try (destruct a; discriminate).
      cbn [jsonr reset_value]. rewrite Et.
      destruct p; cbn [jw_prim] in Hw; try discriminate. subst. split; reflexivity.
    - (* struct: only a typedef can be empty *)
      destruct d as [p|tag fds| | |]; try discriminate; try (destruct p; discriminate); try (destruct a; discriminate).
      destruct (ann_struct _ _ _ _ Et) as (tl2 & td & fis & -> & L & _ & _ & Htd & Hfok).
      destruct td; [|discriminate].
      destruct (Htd eq_refl) as (fd & -> & Hm).
      destruct fs as [|[v'|] [|? ?]]; try discriminate.
      unfold jw_body in Hw.
      cbn [fields_ok] in Hfok. apply andb_true_iff in Hfok as [Hfok _]. unfold field_ok in Hfok.
      apply andb_true_iff in Hfok as [_ Hargs].
      rewrite (eval_args_nofield ps _ _ Hargs) in Hw, Hd.
      assert (Hx : (vdepth v' < vdepth (VStruct [Some v']))%nat) by (cbn [vdepth fold_right]; lia).
      destruct (IH v' Hx _ _ _ Hw Hne Hd) as [E1 E2].
      cbn [jsonr reset_value]. rewrite Et. unfold jr_body. rewrite E1. cbn [jbind]. split; [reflexivity|].
      intros ps'. cbn [reset_fields]. unfold field_present. rewrite Hm.
      rewrite E2. reflexivity.
    - (* union: only Maybe *)
      destruct d as [p|tag fds|vars| |]; try discriminate; try (destruct p; discriminate); try (destruct a; discriminate).
      destruct a as [|tl2 is_enum is_maybe vns|]; try discriminate.
      destruct is_maybe; [|discriminate].
      apply negb_false_iff, Nat.eqb_eq in Hne. subst idx.
      pose proof (wf_ann js Hwf _ _ _ Et) as Ha. cbn [ann_ok] in Ha.
      apply andb_true_iff in Ha as [Ha _]. apply andb_true_iff in Ha as [_ Ha].
      destruct vars as [|v0 [|v1 [|? ?]]]; try discriminate.
      unfold variant_fields in Ha.
      destruct (nth_error js v0) as [[[?|tag0 fds0|?|? ?|? ?] [tl20 td0 fis0| |]]|] eqn:E0; try discriminate.
      destruct fds0; [|discriminate]. destruct td0; [discriminate|].
      cbn [nth_error] in Hw. destruct vns as [|vn0 vns]; [discriminate|]. cbn [nth_error] in Hw. rewrite E0 in Hw.
      destruct (ann_struct _ _ _ _ E0) as (? & ? & ? & [= <- <- <-] & L0 & _).
      destruct fis0; [|discriminate].
      cbn [Nat.eqb negb andb orb] in Hw. unfold jw_body in Hw. destruct fs; [|discriminate].
      cbn [jsonr reset_value]. rewrite Et. cbn [jr_maybe_parts jbind fst]. rewrite E0. split; reflexivity.
    - (* arrays and dictionaries *)
      destruct d as [p| | |k ef|kp ef]; try discriminate; try (destruct p; discriminate); try (destruct a; discriminate).
      + destruct k as [| |c]; try discriminate; apply negb_false_iff in Hne; destruct es; try discriminate;
          cbn [jw_elems bind_opt] in Hw; cbn [jsonr reset_value]; rewrite Et; cbn [jr_array_items jbind lenN length N.of_nat].
        * split; reflexivity.
        * cbn [lenN length N.of_nat] in Hw. destruct (0 =? nth 0 ps 0) eqn:E; [|discriminate]. split; reflexivity.
      + apply negb_false_iff in Hne. destruct es; [|discriminate].
        destruct (dict_fields js (f_ty ef)) as [[kf vf]|] eqn:Ed; [|discriminate].
        cbn [jsonr reset_value]. rewrite Et, Ed. split; reflexivity.
  Qed.
  (** *** bodies of structs and union variants *)
  Lemma body_rt_td f tl2 fd fis ps v' jb :
    field_ok 0 fd = true -> RTP f v' ->
    W (f_ty fd) (eval_args ps [Some v'] (f_args fd)) v' = Some jb ->
    jdiag js (f_ty fd) (eval_args ps [Some v'] (f_args fd)) false v' = [] ->
    jr_body js (R f) (reset_value js f) tl2 true [fd] fis ps (Some jb) = JOk [Some v'].
  Proof.
    intros Hok Hrt Hw Hd. unfold field_ok in Hok. apply andb_true_iff in Hok as [_ Hargs].
    rewrite (eval_args_nofield ps _ _ Hargs) in Hw, Hd.
    unfold jr_body. now rewrite (Hrt _ _ _ Hw Hd).
  Qed.

  Lemma body_rt_fields f tl2 fds fis ps fs ms :
    length fds = length fis -> forallb (field_ann_ok js) (combine fds fis) = true ->
    names_distinct (map jf_name fis) = true -> fields_ok 0 fds = true ->
    (forall x, In (Some x) fs -> RTP (S f) x /\ EMP (S f) x) ->
    jw_fields js (fun t' ps' v' => W t' ps' v') ps fs fds fis fs = Some ms ->
    jd_fields (fun t' ps' o' v' => jdiag js t' ps' o' v') ps fs fds fs = [] ->
    jr_body js (R (S f)) (reset_value js (S f)) tl2 false fds fis ps (Some (JObj ms)) = JOk fs.
  Proof.
    intros L Hann Hnd Hfok IH Hw Hd.
    pose proof (ann_plain fds fis L Hann) as Hpl.
    apply (jr_body_rt (fun t' ps' v' => W t' ps' v') ps fs fds fis ms Hw Hpl Hnd); auto.
    - (* written members *)
      intros i fd v j Hfd Hv Hj.
      destruct (IH v (nth_error_In _ _ Hv)) as [Hrt _]. apply Hrt; [exact Hj|].
      pose proof (jd_fields_nil _ ps fs fs fds Hd i fd v Hfd Hv) as Hdi. cbn beta in Hdi.
      destruct (negb (is_some (f_mask fd))); [now apply jdiag_mono|exact Hdi].
    - (* present, not written *)
      intros i fd fi v j Hfd Hfi Hv Hj Hs.
      unfold jw_field in Hs. destruct (negb (field_present ps fs fd)); [discriminate|].
      rewrite Hj in Hs. cbn [bind_opt] in Hs.
      destruct (jf_bit fi); [discriminate|].
      destruct (is_true_type js (f_ty fd)) eqn:Ett.
      + rewrite (W_true_type _ _ _ _ Ett Hj). destruct (true_type_default f (f_ty fd) []  Ett) as [_ A2].
        destruct (true_type_default f (f_ty fd) (eval_args ps fs (f_args fd)) Ett) as [B1 B2]. auto.
      + destruct (is_some (f_mask fd) || nonempty js (f_ty fd) v) eqn:Ec; [discriminate|].
        apply orb_false_iff in Ec as [Em Ene].
        destruct (IH v (nth_error_In _ _ Hv)) as [_ Hemp].
        pose proof (jd_fields_nil _ ps fs fs fds Hd i fd v Hfd Hv) as Hdi. cbn beta in Hdi. rewrite Em in Hdi. cbn [negb] in Hdi.
        destruct (Hemp _ _ _ Hj Ene Hdi) as [E1 E2]. auto.
    - (* true-typed masked fields *)
      intros i fd fi v Hfd Hfi Hv Hb.
      pose proof (ann_bit _ _ _ _ _ Hann Hfd Hfi Hb) as Ett.
      destruct sc_len with (recw := fun t' ps' v' => W t' ps' v') (ps := ps) (fs := fs) (fds := fds) (fis := fis) (ms := ms) as [L1 L2]; auto.
      destruct (sc_field (fun t' ps' v' => W t' ps' v') ps fs fds fis ms Hw Hpl Hnd i fd fi (Some v) Hfd Hfi Hv) as (om & Eo & _).
      unfold jw_field in Eo. destruct (negb (field_present ps fs fd)); [discriminate|].
      destruct (W (f_ty fd) (eval_args ps fs (f_args fd)) v) as [j|] eqn:Ej; [|discriminate].
      exact (W_true_type _ _ _ _ Ett Ej).
    - intros i fd fi Hfd Hfi Hb. exact (ann_bit _ _ _ _ _ Hann Hfd Hfi Hb).
    - intros t a Hn. apply nat_type_default. exact Hn.
  Qed.
  (** *** arrays and dictionaries *)
  Lemma elems_rt f t args : forall es l, (forall e, In e es -> RTP f e) ->
    jw_elems (fun e => W t args e) es = Some l ->
    flat_map (fun e => jdiag js t args false e) es = [] ->
    jr_elems (R f t args) l = JOk es /\ length l = length es.
  Proof.
    induction es as [|e es IH]; intros l Hrt Hw Hd; cbn [jw_elems] in Hw.
    - injection Hw as <-. split; reflexivity.
    - destruct (W t args e) as [j|] eqn:Ej; [|discriminate]. cbn [bind_opt] in Hw.
      destruct (jw_elems _ es) as [r|] eqn:Er; [|discriminate]. injection Hw as <-.
      cbn [flat_map] in Hd. apply app_eq_nil in Hd as [Hd1 Hd2].
      destruct (IH r (fun e0 H0 => Hrt e0 (or_intror H0)) eq_refl Hd2) as [I1 I2].
      cbn [jr_elems]. rewrite (Hrt e (or_introl eq_refl) _ _ _ Ej Hd1). cbn [jbind]. rewrite I1. cbn [jbind length].
      split; [reflexivity|now rewrite I2].
  Qed.

  Lemma key_rt kp k jk : jw_key kp k = Some jk -> key_diag kp k = [] -> jr_key kp jk = JOk k.
  Proof.
    destruct kp, k; cbn [jw_key key_diag]; try discriminate.
    - destruct (n <? 4294967296) eqn:E; [|discriminate]. intros [= <-] _.
      cbn [jr_key jr_uint_t]. rewrite num_ok_print_N, parse_uint_print by (change (2 ^ 32) with 4294967296; lia). reflexivity.
    - destruct (n <? 4294967296) eqn:E; [|discriminate]. intros [= <-] _.
      cbn [jr_key jr_int_t]. rewrite num_ok_print_Z, parse_int_print by (try apply sgn32_range; lia).
      cbn [of_opt jbind]. rewrite unsgn_sgn32 by lia. reflexivity.
    - destruct (n <? 18446744073709551616) eqn:E; [|discriminate]. intros [= <-] _.
      cbn [jr_key jr_int_t]. rewrite num_ok_print_Z, parse_int_print by (try apply sgn64_range; lia).
      cbn [of_opt jbind]. rewrite unsgn_sgn64 by lia. reflexivity.
    - destruct (bytes_okb s) eqn:E; [|discriminate]. intros [= <-].
      unfold jwstr. destruct (utf8_valid s); cbn [negb]; [|discriminate].
      destruct (bytes_eqb (raw_str s) s) eqn:Er; [|discriminate]. intros _.
      apply bytes_eqb_eq in Er. cbn [jr_key]. now rewrite Er.
    - intros [= <-] _. destruct b; reflexivity.
  Qed.

  Lemma entries_rt f t args kp : forall es ms,
    (forall k x, In (VStruct [Some k; Some x]) es -> RTP f x) ->
    jw_entries (fun x => W t args x) kp es = Some ms ->
    flat_map (fun e => match e with
                       | VStruct [Some k; Some x] => key_diag kp k ++ jdiag js t args false x
                       | _ => []
                       end) es = [] ->
    jr_entries (R f t args) kp ms = JOk es.
  Proof.
    induction es as [|e es IH]; intros ms Hrt Hw Hd; cbn [jw_entries] in Hw.
    - now injection Hw as <-.
    - destruct e as [| | |[|[k|] [|[x|] [|? ?]]]| |]; try discriminate.
      destruct (jw_key kp k) as [jk|] eqn:Ek; [|discriminate]. cbn [bind_opt] in Hw.
      destruct (W t args x) as [jx|] eqn:Ex; [|discriminate]. cbn [bind_opt] in Hw.
      destruct (jw_entries _ kp es) as [r|] eqn:Er; [|discriminate]. injection Hw as <-.
      cbn [flat_map] in Hd. apply app_eq_nil in Hd as [Hd1 Hd2]. apply app_eq_nil in Hd1 as [Hdk Hdx].
      cbn [jr_entries]. rewrite (key_rt _ _ _ Ek Hdk). cbn [jbind].
      rewrite (Hrt k x (or_introl eq_refl) _ _ _ Ex Hdx). cbn [jbind].
      rewrite (IH r (fun k0 x0 H0 => Hrt k0 x0 (or_intror H0)) eq_refl Hd2). reflexivity.
  Qed.

  (** *** fixed key sets *)
  Lemma members_type_value nm jb :
    members [s_value; s_type] (Some (JObj [(JStr s_type, JStr nm); (JStr s_value, jb)]))
      = JOk [(JStr s_type, JStr nm); (JStr s_value, jb)].
  Proof. reflexivity. Qed.
  Lemma members_type nm :
    members [s_value; s_type] (Some (JObj [(JStr s_type, JStr nm)])) = JOk [(JStr s_type, JStr nm)].
  Proof. reflexivity. Qed.
  Lemma members_ok_value jb :
    members [s_value; s_ok] (Some (JObj [(JStr s_ok, JBool true); (JStr s_value, jb)]))
      = JOk [(JStr s_ok, JBool true); (JStr s_value, jb)].
  Proof. reflexivity. Qed.
  Lemma members_ok : members [s_value; s_ok] (Some (JObj [(JStr s_ok, JBool true)])) = JOk [(JStr s_ok, JBool true)].
  Proof. reflexivity. Qed.
  Lemma maybe_parts_value jb :
    jr_maybe_parts (Some (JObj [(JStr s_ok, JBool true); (JStr s_value, jb)])) = JOk (true, Some jb).
  Proof. reflexivity. Qed.
  Lemma maybe_parts_ok : jr_maybe_parts (Some (JObj [(JStr s_ok, JBool true)])) = JOk (true, None).
  Proof. reflexivity. Qed.
  Lemma maybe_parts_empty : jr_maybe_parts (Some (JObj [])) = JOk (false, None).
  Proof. reflexivity. Qed.
  Lemma union_parts_type nm : jr_union_parts (Some (JObj [(JStr s_type, JStr nm)])) = JOk (nm, None).
  Proof. reflexivity. Qed.
  Lemma union_parts_value nm jb :
    jr_union_parts (Some (JObj [(JStr s_type, JStr nm); (JStr s_value, jb)])) = JOk (nm, Some jb).
  Proof. reflexivity. Qed.
  (** *** the theorem *)
  Lemma vdepth_pos v : (1 <= vdepth v)%nat.
  Proof. destruct v; cbn [vdepth]; lia. Qed.

  Lemma variant_struct vt : is_some (variant_fields js vt) = true ->
    exists tag fds tl2 td fis, nth_error js vt = Some (TStruct tag fds, AStruct tl2 td fis).
  Proof.
    unfold variant_fields. destruct (nth_error js vt) as [[[?|tag fds|?|? ?|? ?] [tl2 td fis| |]]|]; try discriminate.
    intros _. now exists tag, fds, tl2, td, fis.
  Qed.

  Theorem rt_all : forall fuel v, (vdepth v < fuel)%nat -> RTP fuel v /\ EMP fuel v.
  Proof.
    induction fuel as [|f IH]; intros v Hdep; [lia|].
    split; [|apply emp_step; intros x Hx; apply IH; lia].
    assert (Hf1 : exists f', f = S f') by (pose proof (vdepth_pos v); destruct f; [lia|eauto]).
    destruct Hf1 as [f' Ef].
    intros t ps j Hw Hdg.
    destruct v as [n|str|bv|fs|idx fs|es]; cbn [jsonw jdiag] in Hw, Hdg; cbn [jsonr];
      destruct (nth_error js t) as [[d a]|] eqn:Et; try discriminate; subst f.
    - (* VNum *)
      destruct d as [p| | | |]; try discriminate; try (destruct a; discriminate).
      apply prim_rt; [exact Hw|]. destruct p; try reflexivity; exact Hdg.
    - destruct d as [p| | | |]; try discriminate; try (destruct a; discriminate).
      apply prim_rt; [exact Hw|]. destruct p; reflexivity.
    - destruct d as [p| | | |]; try discriminate; try (destruct a; discriminate).
      apply prim_rt; [exact Hw|]. destruct p; reflexivity.
    - (* VStruct *)
      destruct d as [p|tag fds| | |]; try discriminate; try (destruct p; discriminate); try (destruct a; discriminate).
      destruct (ann_struct _ _ _ _ Et) as (tl2 & td & fis & -> & L & Hann & Hnd & Htd & Hfok).
      assert (IHf : forall x, In (Some x) fs -> RTP (S f') x /\ EMP (S f') x).
      { intros x Hx. apply IH. cbn [vdepth] in Hdep. pose proof (depth_opts_le fs x Hx). lia. }
      unfold jw_body in Hw. destruct td.
      + destruct (Htd eq_refl) as (fd & -> & Hm). destruct fs as [|[v'|] [|? ?]]; try discriminate.
        cbn [fields_ok] in Hfok. apply andb_true_iff in Hfok as [Hfok _].
        rewrite (body_rt_td (S f') tl2 fd fis ps v' j Hfok (proj1 (IHf v' (or_introl eq_refl))) Hw Hdg). reflexivity.
      + destruct (jw_fields js _ ps fs fds fis fs) as [ms|] eqn:Ems; [|discriminate]. injection Hw as <-.
        rewrite (body_rt_fields f' tl2 fds fis ps fs ms L Hann Hnd Hfok IHf Ems Hdg). reflexivity.
    - (* VUnion *)
      destruct d as [p|tag fds|vars| |]; try discriminate; try (destruct p; discriminate); try (destruct a; discriminate).
      destruct a as [|tl2 is_enum is_maybe vns|]; try discriminate.
      destruct (nth_error vars idx) as [vt|] eqn:Evt; [|discriminate].
      destruct (nth_error vns idx) as [vn|] eqn:Evn; [|discriminate].
      destruct (nth_error js vt) as [[[?|tagv fdsv|?|? ?|? ?] [tl2v tdv fisv| |]]|] eqn:Ev; try discriminate.
      destruct (ann_struct _ _ _ _ Ev) as (? & ? & ? & [= <- <- <-] & Lv & Hannv & Hndv & Htdv & Hfokv).
      pose proof (wf_ann js Hwf _ _ _ Et) as Ha. cbn [ann_ok] in Ha.
      apply andb_true_iff in Ha as [Ha Henum]. apply andb_true_iff in Ha as [Ha Hkind].
      apply andb_true_iff in Ha as [Ha Hvars]. apply andb_true_iff in Ha as [Hlen Hnames].
      assert (IHf : forall x, In (Some x) fs -> RTP (S f') x /\ EMP (S f') x).
      { intros x Hx. apply IH. cbn [vdepth] in Hdep. pose proof (depth_opts_le fs x Hx). lia. }
      destruct (jw_body js _ _ fdsv fisv ps fs) as [jb|] eqn:Eb; [|discriminate]. cbn [bind_opt] in Hw.
      destruct is_maybe.
      + (* Maybe *)
        destruct vars as [|v0 [|v1 [|? ?]]]; try discriminate.
        destruct (variant_fields js v0) as [[[|? ?] [|]]|] eqn:E0; try discriminate.
        destruct (variant_fields js v1) as [[[|fd1 [|? ?]] td1]|] eqn:E1; try discriminate.
        destruct idx as [|[|idx]]; cbn [nth_error] in Evt; try discriminate.
        * injection Evt as <-. unfold variant_fields in E0. rewrite Ev in E0. injection E0 as -> ->.
          destruct fisv; [|discriminate]. cbn [Nat.eqb negb andb orb] in Eb. unfold jw_body in Eb.
          destruct fs; [|discriminate]. injection Hw as <-.
          reflexivity.
        * injection Evt as <-. unfold variant_fields in E1. rewrite Ev in E1. injection E1 as -> ->.
          apply negb_true_iff in Hkind.
          cbn [Nat.eqb negb andb orb] in Eb, Hdg. rewrite orb_true_r in Eb, Hdg. unfold jw_body in Eb.
          destruct fs as [|[v'|] [|? ?]]; try discriminate.
          cbn [fields_ok] in Hfokv. apply andb_true_iff in Hfokv as [Hfokv _].
          destruct (IHf v' (or_introl eq_refl)) as [Hrt Hemp].
          cbn [nth_error]. rewrite Ev.
          destruct (body_nonempty js true [fd1] [Some v']) eqn:Ene; injection Hw as <-.
          -- rewrite maybe_parts_value. cbn [jbind fst snd].
             rewrite (body_rt_td (S f') tl2v fd1 fisv ps v' jb Hfokv Hrt Eb (jdiag_mono _ _ _ Hdg)). reflexivity.
          -- rewrite maybe_parts_ok. cbn [jbind fst snd].
             unfold field_ok in Hfokv. apply andb_true_iff in Hfokv as [_ Hargs].
             rewrite (eval_args_nofield ps _ _ Hargs) in Eb, Hdg.
             cbn [body_nonempty] in Ene.
             destruct (Hemp _ _ _ Eb Ene Hdg) as [E1' _].
             unfold jr_body. rewrite E1'. reflexivity.
        * destruct idx; discriminate.
      + (* plain union / enum *)
        rewrite forallb_forall in Hkind.
        assert (Hidx : In idx (seq 0 (length vars))).
        { apply in_seq. split; [lia|]. cbn. apply nth_error_Some. congruence. }
        specialize (Hkind idx Hidx). rewrite Evt, Evn in Hkind. apply andb_true_iff in Hkind as [Hkind _].
        unfold tag_reads_as in Hkind.
        destruct (find_tag js tl2 vars vns (wname vn) 0) as [[[i' vt'] legacy]|] eqn:Eft; [|discriminate].
        apply andb_true_iff in Hkind as [Hk1 Hleg]. apply andb_true_iff in Hk1 as [Hk1 Hk2].
        apply Nat.eqb_eq in Hk1, Hk2. apply negb_true_iff in Hleg. subst i' vt' legacy.
        assert (Henum' : is_enum = true -> fdsv = []).
        { intros ->. rewrite forallb_forall in Henum. specialize (Henum vt (nth_error_In _ _ Evt)).
          unfold variant_fields in Henum. rewrite Ev in Henum. destruct fdsv; [reflexivity|discriminate]. }
        assert (Hempty : fdsv = [] -> fs = []).
        { intros ->. cbn [orb] in Eb. rewrite orb_false_r in Eb. unfold jw_body in Eb. destruct tdv.
          - destruct (Htdv eq_refl) as (? & ? & _). discriminate.
          - destruct fisv; [|discriminate]. destruct fs; [reflexivity|]. cbn [jw_fields] in Eb. discriminate. }
        cbn [andb orb] in Eb. rewrite orb_false_r in Eb.
        destruct is_enum.
        * injection Hw as <-. cbn [jr_union_parts jbind fst snd]. rewrite Eft, Ev, (Henum' eq_refl).
          now rewrite (Hempty (Henum' eq_refl)).
        * destruct tdv.
          -- (* typedef variant *)
             destruct (Htdv eq_refl) as (fd & -> & Hm).
             unfold jw_body in Eb. destruct fs as [|[v'|] [|? ?]]; try discriminate.
             cbn [fields_ok] in Hfokv. apply andb_true_iff in Hfokv as [Hfokv _].
             cbn [orb] in Hdg.
             destruct (IHf v' (or_introl eq_refl)) as [Hrt Hemp].
             destruct (body_nonempty js true [fd] [Some v']) eqn:Ene; injection Hw as <-.
             ++ rewrite union_parts_value. cbn [jbind fst snd]. rewrite Eft, Ev.
                rewrite (body_rt_td (S f') tl2v fd fisv ps v' jb Hfokv Hrt Eb (jdiag_mono _ _ _ Hdg)). reflexivity.
             ++ rewrite union_parts_type. cbn [jbind fst snd]. rewrite Eft, Ev.
                unfold field_ok in Hfokv. apply andb_true_iff in Hfokv as [_ Hargs].
                rewrite (eval_args_nofield ps _ _ Hargs) in Eb, Hdg.
                cbn [body_nonempty] in Ene.
                destruct (Hemp _ _ _ Eb Ene Hdg) as [E1' _].
                unfold jr_body. rewrite E1'. reflexivity.
          -- (* variant with named fields *)
             cbn [orb] in Hdg. unfold jw_body in Eb.
             destruct (jw_fields js _ ps fs fdsv fisv fs) as [ms|] eqn:Ems; [|discriminate]. injection Eb as <-.
             pose proof (body_rt_fields f' tl2v fdsv fisv ps fs ms Lv Hannv Hndv Hfokv IHf Ems Hdg) as Hb.
             destruct fdsv as [|fd0 fdsv'].
             ++ injection Hw as <-. rewrite union_parts_type. cbn [jbind fst snd]. rewrite Eft, Ev.
                now rewrite (Hempty eq_refl).
             ++ cbn [body_nonempty] in Hw. injection Hw as <-.
                rewrite union_parts_value. cbn [jbind fst snd]. rewrite Eft, Ev. now rewrite Hb.
    - (* VArr *)
      destruct d as [p| | |k ef|kp ef]; try discriminate; try (destruct p; discriminate); try (destruct a; discriminate).
      + (* array *)
        destruct (jw_elems _ es) as [l|] eqn:El; [|discriminate]. cbn [bind_opt] in Hw.
        assert (IHe : forall e, In e es -> RTP (S f') e).
        { intros e He. apply IH. cbn [vdepth] in Hdep. pose proof (depth_elems_le es e He). lia. }
        destruct (elems_rt (S f') _ _ es l IHe El Hdg) as [E1 E2].
        assert (Hlen : lenN l = lenN es) by (unfold lenN; now rewrite E2).
        destruct k as [| |c].
        * injection Hw as <-. cbn [jr_array_items jbind]. rewrite E1. reflexivity.
        * destruct (lenN es =? nth 0 ps 0) eqn:Ec; [|discriminate]. injection Hw as <-.
          cbn [jr_array_items jbind]. rewrite Hlen, Ec, E1. reflexivity.
        * destruct (lenN es =? c) eqn:Ec; [|discriminate]. injection Hw as <-.
          cbn [jr_array_items jbind]. rewrite Hlen, Ec, E1. reflexivity.
      + (* dictionary *)
        destruct (dict_fields js (f_ty ef)) as [[kf vf]|] eqn:Edf; [|discriminate].
        destruct (keys_sorted kp es) eqn:Eks; [|discriminate].
        destruct (jw_entries _ kp es) as [ms|] eqn:Em; [|discriminate]. injection Hw as <-.
        assert (IHx : forall k x, In (VStruct [Some k; Some x]) es -> RTP (S f') x).
        { intros k x He. apply IH. cbn [vdepth] in Hdep. pose proof (depth_elems_le es _ He) as Hle.
          cbn [vdepth fold_right] in Hle. lia. }
        rewrite (entries_rt (S f') _ _ kp es ms IHx Em Hdg). cbn [jbind].
        now rewrite (dict_fold_sorted kp es [] Eks).
  Qed.

  (** C05 (b): reading back what was written gives the value itself (hence equal TL1 / TL2 / JSON re-encodings),
      for every value without the constructs [jdiag] lists *)
  Theorem jsonw_jsonr t ps v j fuel :
    (vdepth v < fuel)%nat -> W t ps v = Some j -> jdiag js t ps false v = [] -> R fuel t ps (Some j) = JOk v.
  Proof. intros Hd Hw Hdg. exact (proj1 (rt_all fuel v Hd) t ps j Hw Hdg). Qed.
End RT.
