(** M5 [Json] -- TL <-> JSON mapping of the generated Go code.

    Mirrors the JSON parts of internal/puregen/gengo/qt_struct.qtpl (WriteJSONOpt, ReadJSONGeneral),
    qt_union.qtpl, qt_maybe.qtpl, qt_brackets.qtpl, qt_dict.qtpl, the Json2Read* helpers of
    qt_helpers.qtpl and the per-kind snippets typeJSONEmptyCondition / typeJSONWritingCode /
    typeJSON2ReadingCode / typeResettingCode of type_rw_*.go.  Executable definitions only.

    - [json]: syntax tree of a JSON text.  A key position holds an arbitrary tree because the
      generated code can put an object there (finding F9).
    - [jprint]: the text the Go writers emit for a tree (no white space).
    - [jsonw]: WriteJSONOpt with the default JSONWriteContext (IsTL2 = LegacyTypeNames = Short = false)
      over wire values of Tl1Model ([None] = field absent because its mask bit is clear; after
      ReadTL1 the tl2mask presence bits of a TL2-enabled struct equal the TL1 mask bits, so both
      generated variants write the same members).
    - [jsonr]: ReadJSONGeneral with JSONReadContext{} (legacy type names rejected) into a fresh
      object, observed through the TL1 writer: the result is the wire value WriteTL1 would encode.
      [JUnrep] = the Go object state after the read has no wire-value counterpart (only for
      TL2-enabled structs: a # field that is referenced as mask/size, holds a non-zero value and
      is switched off by an outer/constant mask bit).
    Primitive texts come from Jprim (JSONWriteString escaper, integer printers/parsers, base64).
    Float <-> text (strconv.AppendFloat / ParseFloat on finite values) is NOT modelled: [ffmt] and
    [fparse] are parameters (oracle); NaN / +Inf / -Inf strings are transcribed. *)
From Coq Require Export List NArith ZArith Bool.
From TLV Require Export Prim.PrimModel Tl1.Tl1Model Jprim.JprimModel.
Export ListNotations.
Open Scope N_scope.

(** * JSON trees and their text *)
Inductive json :=
| JNull
| JBool (b : bool)
| JNum (t : bytes)                  (* number token, raw text *)
| JStr (s : bytes)                  (* string token, decoded content *)
| JArr (es : list json)
| JObj (ms : list (json * json)).   (* members in order; duplicate keys representable *)

(** what is between the quotes of a string token written by JSONWriteString for valid UTF-8 *)
Definition raw_str (s : bytes) : bytes := esc_loop (length s) s.

Definition t_null : bytes := [110; 117; 108; 108].

Section Sep.
  Context {A : Type} (f : A -> bytes).
  Fixpoint sep_tail (l : list A) : bytes :=
    match l with
    | [] => []
    | x :: r => 44 :: f x ++ sep_tail r
    end.
  Definition sep_list (l : list A) : bytes :=
    match l with
    | [] => []
    | x :: r => f x ++ sep_tail r
    end.
End Sep.

Fixpoint jprint (j : json) : bytes :=
  match j with
  | JNull => t_null
  | JBool b => jw_bool b
  | JNum t => t
  | JStr s => 34 :: raw_str s ++ [34]
  | JArr es => 91 :: sep_list jprint es ++ [93]
  | JObj ms => 123 :: sep_list (fun m => jprint (fst m) ++ 58 :: jprint (snd m)) ms ++ [125]
  end.

(** tree-level RFC 8259 well-formedness: numbers follow the number grammar, strings are
    valid UTF-8 (so that the escaper emits a string token), member names are strings *)
Definition num_ok (t : bytes) : bool :=
  match p_number t with Some [] => forallb (fun c => c <? 128) t | _ => false end.

Fixpoint jvalid (j : json) : bool :=
  match j with
  | JNull | JBool _ => true
  | JNum t => num_ok t
  | JStr s => utf8_valid s
  | JArr es => forallb jvalid es
  | JObj ms => forallb (fun m => match fst m with JStr k => utf8_valid k | _ => false end && jvalid (snd m)) ms
  end.

(** * Schema annotations (what the JSON mapping needs beyond the TL1 IR) *)
Record jfinfo := mkJF { jf_name : bytes; jf_bit : bool (* Field.IsBit(): masked field of type true *) }.
Record jvname := mkVN { vn_tl : bytes (* constructor TL name *); vn_var : bytes (* TL2 variant name *) }.

Inductive jann :=
| AStruct (has_tl2 typedef : bool) (fis : list jfinfo)
| AUnion (has_tl2 is_enum is_maybe : bool) (vns : list jvname)
| ANone.

Definition jschema := list (tydef * jann).
Definition sch (js : jschema) : schema := map fst js.

Definition s_base64 : bytes := [98; 97; 115; 101; 54; 52].
Definition s_type : bytes := [116; 121; 112; 101].
Definition s_value : bytes := [118; 97; 108; 117; 101].
Definition s_ok : bytes := [111; 107].
Definition s_true : bytes := [116; 114; 117; 101].
Definition s_false : bytes := [102; 97; 108; 115; 101].
Definition s_NaN : bytes := [78; 97; 78].
Definition s_pInf : bytes := [43; 73; 110; 102].
Definition s_nInf : bytes := [45; 73; 110; 102].

(** JSONWriteString: valid UTF-8 -> string token, anything else -> {"base64":"..."} *)
Definition jwstr (s : bytes) : json :=
  if utf8_valid s then JStr s else JObj [(JStr s_base64, JStr (b64_enc s))].

Definition is_some {A} (o : option A) : bool := match o with Some _ => true | None => false end.

(** "__" in a constructor name: the variant was migrated, only its variant name is used *)
Fixpoint has_dunder (s : bytes) : bool :=
  match s with
  | a :: ((b :: _) as r) => ((a =? 95) && (b =? 95)) || has_dunder r
  | _ => false
  end.
Definition wname (vn : jvname) : bytes := if has_dunder (vn_tl vn) then vn_var vn else vn_tl vn.

Fixpoint hex8_aux (k : nat) (n : N) (acc : bytes) : bytes :=
  match k with
  | O => acc
  | S k' => hex8_aux k' (n / 16) (hexd (n mod 16) :: acc)
  end.
(** fmt.Sprintf("#%08x", tag) *)
Definition tag_text (tag : N) : bytes := 35 :: hex8_aux 8 tag [].

Section Model.
  (** oracle: strconv.AppendFloat(nil, v, 'f', -1, 32|64) and strconv.ParseFloat(s, 32|64)
      on bit patterns; first argument = is 64 bit *)
  Variable ffmt : bool -> N -> bytes.
  Variable fparse : bool -> bytes -> option N.
  Variable js : jschema.

  (** ** writer *)
  Definition jw_float (is64 : bool) (b : N) : json :=
    let eb := if is64 then 11 else 8 in
    let mb := if is64 then 52 else 23 in
    if fl_is_nan eb mb b then JStr s_NaN
    else if fl_is_inf eb mb b then (if fl_neg eb mb b then JStr s_nInf else JStr s_pInf)
    else JNum (ffmt is64 b).

  Definition jw_prim (p : prim) (v : value) : option json :=
    match p, v with
    | PNat, VNum n => if n <? 4294967296 then Some (JNum (print_N n)) else None
    | PInt, VNum n => if n <? 4294967296 then Some (JNum (print_Z (sgn32 n))) else None
    | PLong, VNum n => if n <? 18446744073709551616 then Some (JNum (print_Z (sgn64 n))) else None
    | PFloat, VNum n => if n <? 4294967296 then Some (jw_float false n) else None
    | PDouble, VNum n => if n <? 18446744073709551616 then Some (jw_float true n) else None
    | PString, VStr s => if bytes_okb s then Some (jwstr s) else None
    | PBool _ _, VBool b => Some (JBool b)
    | _, _ => None
    end.

  (** typeJSONEmptyCondition: [true] = the member is kept (value differs from the empty value,
      or the kind has no condition).  Go compares floats with [!= 0], so -0.0 counts as empty. *)
  Fixpoint nonempty (t : nat) (v : value) {struct v} : bool :=
    match nth_error js t with
    | Some (TPrim p, _) =>
        match p, v with
        | PNat, VNum n | PInt, VNum n | PLong, VNum n => negb (n =? 0)
        | PFloat, VNum n => negb (n mod 2147483648 =? 0)
        | PDouble, VNum n => negb (n mod 9223372036854775808 =? 0)
        | PString, VStr s => negb (is_nil s)
        | PBool _ _, VBool b => b
        | _, _ => true
        end
    | Some (TStruct _ fds, AStruct _ true _) =>
        match fds, v with
        | [fd], VStruct [Some v'] => nonempty (f_ty fd) v'
        | _, _ => true
        end
    | Some (TUnion _, AUnion _ _ true _) =>
        match v with VUnion idx _ => negb (Nat.eqb idx 0) | _ => true end
    | Some (TArray (ATupleFixed _) _, _) => true
    | Some (TArray _ _, _) | Some (TDict _ _, _) =>
        match v with VArr es => negb (is_nil es) | _ => true end
    | _ => true
    end.

  (** TypeRWWrapper.IsTrueType: a struct without fields *)
  Definition is_true_type (t : nat) : bool :=
    match nth_error js t with Some (TStruct _ [], _) => true | _ => false end.

  Section WFields.
    Variable rec : nat -> list N -> value -> option json.
    Variable ps : list N.
    Variable all : list (option value).
    (** one field: [None] = write error, [Some None] = no member, [Some (Some m)] = the member *)
    Definition jw_field (fd : field) (fi : jfinfo) (ov : option value) : option (option (json * json)) :=
      let present := field_present ps all fd in
      match ov with
      | Some v =>
          if negb present then None else
          bind_opt (rec (f_ty fd) (eval_args ps all (f_args fd)) v) (fun j =>
          Some (if jf_bit fi then Some (JStr (jf_name fi), JBool true)
                else if is_true_type (f_ty fd) then None
                else if is_some (f_mask fd) || nonempty (f_ty fd) v then Some (JStr (jf_name fi), j)
                else None))
      | None => if present then None else Some None
      end.
    Fixpoint jw_fields (fds : list field) (fis : list jfinfo) (vs : list (option value)) {struct vs}
      : option (list (json * json)) :=
      match fds, fis, vs with
      | [], [], [] => Some []
      | fd :: fds', fi :: fis', ov :: vs' =>
          bind_opt (jw_field fd fi ov) (fun om =>
          bind_opt (jw_fields fds' fis' vs') (fun rest =>
          Some (match om with Some m => m :: rest | None => rest end)))
      | _, _, _ => None
      end.
  End WFields.

  Section WElems.
    Variable rec : value -> option json.
    Fixpoint jw_elems (es : list value) : option (list json) :=
      match es with
      | [] => Some []
      | e :: es' => bind_opt (rec e) (fun j => bind_opt (jw_elems es') (fun r => Some (j :: r)))
      end.
  End WElems.

  (** key of a map-backed dictionary: JSONWriteString for strings (possibly an OBJECT, F9),
      otherwise the quoted text of the key's own writer *)
  Definition jw_key (kp : prim) (k : value) : option json :=
    match kp, k with
    | PString, VStr s => if bytes_okb s then Some (jwstr s) else None
    | PNat, VNum n => if n <? 4294967296 then Some (JStr (print_N n)) else None
    | PInt, VNum n => if n <? 4294967296 then Some (JStr (print_Z (sgn32 n))) else None
    | PLong, VNum n => if n <? 18446744073709551616 then Some (JStr (print_Z (sgn64 n))) else None
    | PBool _ _, VBool b => Some (JStr (jw_bool b))
    | _, _ => None
    end.

  Section WEntries.
    Variable rec : value -> option json.     (* value writer *)
    Variable kp : prim.
    Fixpoint jw_entries (es : list value) : option (list (json * json)) :=
      match es with
      | [] => Some []
      | e :: es' =>
          match e with
          | VStruct [Some k; Some x] =>
              bind_opt (jw_key kp k) (fun jk =>
              bind_opt (rec x) (fun jx =>
              bind_opt (jw_entries es') (fun r => Some ((jk, jx) :: r))))
          | _ => None
          end
      end.
  End WEntries.

  (** fields of the dictionary element struct *)
  Definition dict_fields (t : nat) : option (field * field) :=
    match nth_error js t with
    | Some (TStruct _ [kf; vf], _) => Some (kf, vf)
    | _ => None
    end.

  (** body of a struct or of a union variant: typedef -> the JSON of the only field *)
  Definition jw_body (rec : nat -> list N -> value -> option json) (td : bool)
             (fds : list field) (fis : list jfinfo) (ps : list N) (fs : list (option value)) : option json :=
    if td then
      match fds, fs with
      | [fd], [Some v'] => rec (f_ty fd) (eval_args ps fs (f_args fd)) v'
      | _, _ => None
      end
    else option_map JObj (jw_fields rec ps fs fds fis fs).

  Definition body_nonempty (td : bool) (fds : list field) (fs : list (option value)) : bool :=
    if td then
      match fds, fs with
      | [fd], [Some v'] => nonempty (f_ty fd) v'
      | _, _ => true
      end
    else true.

  Fixpoint jsonw (t : nat) (ps : list N) (v : value) {struct v} : option json :=
    match nth_error js t with
    | None => None
    | Some (TPrim p, _) => jw_prim p v
    | Some (TStruct _ fds, AStruct _ td fis) =>
        match v with
        | VStruct fs => jw_body (fun t' ps' v' => jsonw t' ps' v') td fds fis ps fs
        | _ => None
        end
    | Some (TUnion vars, AUnion _ is_enum is_maybe vns) =>
        match v with
        | VUnion idx fs =>
            match nth_error vars idx, nth_error vns idx with
            | Some vt, Some vn =>
                match nth_error js vt with
                | Some (TStruct _ fds, AStruct _ td fis) =>
                    bind_opt (jw_body (fun t' ps' v' => jsonw t' ps' v') (td || (is_maybe && negb (Nat.eqb idx 0))) fds fis ps fs) (fun jb =>
                    if is_maybe then
                      match idx with
                      | O => Some (JObj [])
                      | _ => if body_nonempty true fds fs
                             then Some (JObj [(JStr s_ok, JBool true); (JStr s_value, jb)])
                             else Some (JObj [(JStr s_ok, JBool true)])
                      end
                    else if is_enum then Some (JStr (wname vn))
                    else
                      match fds with
                      | [] => Some (JObj [(JStr s_type, JStr (wname vn))])
                      | _ => if body_nonempty td fds fs
                             then Some (JObj [(JStr s_type, JStr (wname vn)); (JStr s_value, jb)])
                             else Some (JObj [(JStr s_type, JStr (wname vn))])
                      end)
                | _ => None
                end
            | _, _ => None
            end
        | _ => None
        end
    | Some (TArray k ef, _) =>
        match v with
        | VArr es =>
            let n := lenN es in
            let eargs := eval_args ps [] (f_args ef) in
            bind_opt (jw_elems (fun e => jsonw (f_ty ef) eargs e) es) (fun l =>
            match k with
            | AVector => Some (JArr l)
            | ATupleDyn => if n =? nth 0 ps 0 then Some (JArr l) else None
            | ATupleFixed c => if n =? c then Some (JArr l) else None
            end)
        | _ => None
        end
    | Some (TDict kp ef, _) =>
        match v with
        | VArr es =>
            let eargs := eval_args ps [] (f_args ef) in
            match dict_fields (f_ty ef) with
            | Some (kf, vf) =>
                if keys_sorted kp es then
                  option_map JObj
                    (jw_entries (fun x => jsonw (f_ty vf) (eval_args eargs [] (f_args vf)) x) kp es)
                else None
            | None => None
            end
        | _ => None
        end
    | Some (_, _) => None
    end.

  (** ** side conditions of the round trip (diagnostics: which construct of a value the JSON text loses)
      1 = -0.0 where the empty value is omitted;  2 = NaN with a payload other than the canonical one;
      3 = dictionary string key that is not valid UTF-8 (F9);  4 = dictionary string key changed by the escaper *)
  Definition float_diag (is64 omittable : bool) (n : N) : list N :=
    let eb := if is64 then 11 else 8 in
    let mb := if is64 then 52 else 23 in
    (if omittable && (n =? 2 ^ (eb + mb)) then [1] else [])
    ++ (if fl_is_nan eb mb n && negb (n =? fl_nan eb mb) then [2] else []).

  Definition key_diag (kp : prim) (k : value) : list N :=
    match kp, k with
    | PString, VStr s => if negb (utf8_valid s) then [3] else if bytes_eqb (raw_str s) s then [] else [4]
    | _, _ => []
    end.

  Section DFields.
    Variable rec : nat -> list N -> bool -> value -> list N.
    Variable ps : list N.
    Variable all : list (option value).
    Fixpoint jd_fields (fds : list field) (vs : list (option value)) {struct vs} : list N :=
      match fds, vs with
      | fd :: fds', ov :: vs' =>
          match ov with
          | Some v => rec (f_ty fd) (eval_args ps all (f_args fd)) (negb (is_some (f_mask fd))) v
          | None => []
          end ++ jd_fields fds' vs'
      | _, _ => []
      end.
  End DFields.

  Fixpoint jdiag (t : nat) (ps : list N) (omittable : bool) (v : value) {struct v} : list N :=
    match nth_error js t with
    | Some (TPrim PFloat, _) => match v with VNum n => float_diag false omittable n | _ => [] end
    | Some (TPrim PDouble, _) => match v with VNum n => float_diag true omittable n | _ => [] end
    | Some (TStruct _ fds, AStruct _ td _) =>
        match v with
        | VStruct fs =>
            if td then
              match fds, fs with
              | [fd], [Some v'] => jdiag (f_ty fd) (eval_args ps fs (f_args fd)) omittable v'
              | _, _ => []
              end
            else jd_fields (fun t' ps' o' v' => jdiag t' ps' o' v') ps fs fds fs
        | _ => []
        end
    | Some (TUnion vars, AUnion _ _ is_maybe _) =>
        match v with
        | VUnion idx fs =>
            match nth_error vars idx with
            | Some vt =>
                match nth_error js vt with
                | Some (TStruct _ fds, AStruct _ td _) =>
                    if td || is_maybe then
                      match fds, fs with
                      | [fd], [Some v'] => jdiag (f_ty fd) (eval_args ps fs (f_args fd)) true v'
                      | _, _ => []
                      end
                    else jd_fields (fun t' ps' o' v' => jdiag t' ps' o' v') ps fs fds fs
                | _ => []
                end
            | None => []
            end
        | _ => []
        end
    | Some (TArray _ ef, _) =>
        match v with
        | VArr es => flat_map (fun e => jdiag (f_ty ef) (eval_args ps [] (f_args ef)) false e) es
        | _ => []
        end
    | Some (TDict kp ef, _) =>
        match v with
        | VArr es =>
            match dict_fields (f_ty ef) with
            | Some (kf, vf) =>
                flat_map (fun e => match e with
                                   | VStruct [Some k; Some x] =>
                                       key_diag kp k ++ jdiag (f_ty vf) (eval_args (eval_args ps [] (f_args ef)) [] (f_args vf)) false x
                                   | _ => []
                                   end) es
            | None => []
            end
        | _ => []
        end
    | _ => []
    end.

  (** ** reader *)
  Inductive jres (A : Type) :=
  | JOk (a : A)
  | JReject
  | JUnrep        (* accepted by the Go reader, but the object state is not a wire value *)
  | JFuel.
  Arguments JOk {A} a.
  Arguments JReject {A}.
  Arguments JUnrep {A}.
  Arguments JFuel {A}.

  Definition jbind {A B} (x : jres A) (f : A -> jres B) : jres B :=
    match x with
    | JOk a => f a
    | JReject => JReject
    | JUnrep => JUnrep
    | JFuel => JFuel
    end.

  Definition of_opt {A} (o : option A) : jres A := match o with Some a => JOk a | None => JReject end.

  Definition unsgn (bits : N) (z : Z) : N := Z.to_N (z mod Z.of_N (2 ^ bits))%Z.

  (** Json2ReadUint32: nil lexer -> 0; string token -> ParseUint on its content; number token -> ParseUint *)
  Definition jr_uint_t (bits : N) (oj : option json) : jres N :=
    match oj with
    | None => JOk 0
    | Some (JStr s) => of_opt (parse_uint bits s)
    | Some (JNum t) => if num_ok t then of_opt (parse_uint bits t) else JReject
    | Some _ => JReject
    end.
  Definition jr_int_t (bits : N) (oj : option json) : jres N :=
    match oj with
    | None => JOk 0
    | Some (JStr s) => jbind (of_opt (parse_int bits s)) (fun z => JOk (unsgn bits z))
    | Some (JNum t) => if num_ok t then jbind (of_opt (parse_int bits t)) (fun z => JOk (unsgn bits z)) else JReject
    | Some _ => JReject
    end.
  Definition jr_float_t (is64 : bool) (oj : option json) : jres N :=
    let eb := if is64 then 11 else 8 in
    let mb := if is64 then 52 else 23 in
    match oj with
    | None => JOk 0
    | Some (JStr s) =>
        if bytes_eqb s s_NaN then JOk (fl_nan eb mb)
        else if bytes_eqb s s_pInf then JOk (fl_pinf eb mb)
        else if bytes_eqb s s_nInf then JOk (fl_ninf eb mb)
        else of_opt (fparse is64 s)
    | Some (JNum t) => if num_ok t then of_opt (fparse is64 t) else JReject
    | Some _ => JReject
    end.
  Definition jr_bool_t (oj : option json) : jres bool :=
    match oj with
    | None => JOk false
    | Some (JBool b) => JOk b
    | Some _ => JReject
    end.

  (** member names are compared WITHOUT unescaping (UnsafeFieldName(true)): what the reader sees
      for a key printed by [jprint] is its raw text *)
  Definition key_is (nm : bytes) (k : json) : bool :=
    match k with JStr s => bytes_eqb (raw_str s) nm | _ => false end.

  Fixpoint jfind (nm : bytes) (ms : list (json * json)) : option json :=
    match ms with
    | [] => None
    | (k, x) :: r => if key_is nm k then Some x else jfind nm r
    end.

  Definition keys_known (names : list bytes) (ms : list (json * json)) : bool :=
    forallb (fun m => existsb (fun nm => key_is nm (fst m)) names) ms.

  (** no member name occurs twice (names compared raw) *)
  Fixpoint keys_nodup (ms : list (json * json)) : bool :=
    match ms with
    | [] => true
    | (k, _) :: r =>
        match k with
        | JStr s => negb (is_some (jfind (raw_str s) r)) && keys_nodup r
        | _ => false
        end
    end.

  (** object with a fixed key set (struct, Json2ReadUnion, Json2ReadMaybe, base64 wrapper);
      nil lexer = no members *)
  Definition members (names : list bytes) (oj : option json) : jres (list (json * json)) :=
    match oj with
    | None => JOk []
    | Some (JObj ms) => if keys_known names ms && keys_nodup ms then JOk ms else JReject
    | Some _ => JReject
    end.

  (** Json2ReadString *)
  Definition jr_string_t (oj : option json) : jres bytes :=
    match oj with
    | None => JOk []
    | Some (JStr s) => JOk s
    | Some (JObj ms) =>
        jbind (members [s_base64] oj) (fun ms =>
        match jfind s_base64 ms with
        | Some (JStr t) => of_opt (b64_dec t)
        | _ => JReject
        end)
    | Some _ => JReject
    end.

  Definition jr_prim (p : prim) (oj : option json) : jres value :=
    match p with
    | PNat => jbind (jr_uint_t 32 oj) (fun n => JOk (VNum n))
    | PInt => jbind (jr_int_t 32 oj) (fun n => JOk (VNum n))
    | PLong => jbind (jr_int_t 64 oj) (fun n => JOk (VNum n))
    | PFloat => jbind (jr_float_t false oj) (fun n => JOk (VNum n))
    | PDouble => jbind (jr_float_t true oj) (fun n => JOk (VNum n))
    | PString => jbind (jr_string_t oj) (fun s => JOk (VStr s))
    | PBool _ _ => jbind (jr_bool_t oj) (fun b => JOk (VBool b))
    | PNoTL1 => JUnrep
    end.

  (** *** Reset(): the value a field without nat arguments takes when its member is absent,
      and the state of a fresh object *)
  Section ResetFields.
    Variable rec : nat -> list N -> jres value.
    Variable ps : list N.
    Fixpoint reset_fields (fds : list field) (acc : list (option value)) : jres (list (option value)) :=
      match fds with
      | [] => JOk acc
      | fd :: fds' =>
          if field_present ps acc fd then
            jbind (rec (f_ty fd) (eval_args ps acc (f_args fd))) (fun v => reset_fields fds' (acc ++ [Some v]))
          else reset_fields fds' (acc ++ [None])
      end.
  End ResetFields.

  Definition N_repeat {A} (x : A) (n : N) : list A := repeat x (N.to_nat n).

  Fixpoint reset_value (fuel : nat) (t : nat) (ps : list N) : jres value :=
    match fuel with
    | O => JFuel
    | S f =>
        match nth_error js t with
        | None => JReject
        | Some (TPrim p, _) =>
            match p with
            | PString => JOk (VStr [])
            | PBool _ _ => JOk (VBool false)
            | PNoTL1 => JUnrep
            | _ => JOk (VNum 0)
            end
        | Some (TStruct _ fds, _) => jbind (reset_fields (reset_value f) ps fds []) (fun fs => JOk (VStruct fs))
        | Some (TUnion vars, _) =>
            match vars with
            | vt :: _ =>
                match nth_error js vt with
                | Some (TStruct _ fds, _) => jbind (reset_fields (reset_value f) ps fds []) (fun fs => JOk (VUnion 0 fs))
                | _ => JReject
                end
            | [] => JReject
            end
        | Some (TArray (ATupleFixed c) ef, _) =>
            jbind (reset_value f (f_ty ef) (eval_args ps [] (f_args ef))) (fun e => JOk (VArr (N_repeat e c)))
        | Some (TArray _ _, _) | Some (TDict _ _, _) => JOk (VArr [])
        end
    end.

  (** *** struct members *)
  (** chain of local field masks above field [i]: the (field index, bit) pairs ReadJSONGeneral sets,
      and the outer/constant mask the chain ends in (BLOCK "set TL1 field masks recursively") *)
  Fixpoint mask_chain (fuel : nat) (fds : list field) (i : nat) : list (nat * N) * option (natarg * N) :=
    match fuel with
    | O => ([], None)
    | S f =>
        match nth_error fds i with
        | Some fd =>
            match f_mask fd with
            | Some (NField g, bit) => let (l, e) := mask_chain f fds g in ((g, bit) :: l, e)
            | Some (a, bit) => ([], Some (a, bit))
            | None => ([], None)
            end
        | None => ([], None)
        end
    end.

  Definition add_bits_of (g : nat) (l : list (nat * N)) : N :=
    fold_right (fun p acc => if Nat.eqb (fst p) g then N.lor (2 ^ snd p) acc else acc) 0 l.

  Record sinfo := mkSI {
    si_ms : list (json * json);         (* the members *)
    si_set : list bool                  (* per field: member present (true-typed: present with value true) *)
  }.

  (** value of a true-typed masked field's member: absent -> false *)
  Definition bit_member (nm : bytes) (ms : list (json * json)) : jres bool :=
    match jfind nm ms with
    | None => JOk false
    | Some (JBool b) => JOk b
    | Some _ => JReject
    end.

  Fixpoint set_flags (fis : list jfinfo) (ms : list (json * json)) : jres (list bool) :=
    match fis with
    | [] => JOk []
    | fi :: r =>
        jbind (if jf_bit fi then bit_member (jf_name fi) ms else JOk (is_some (jfind (jf_name fi) ms))) (fun b =>
        jbind (set_flags r ms) (fun l => JOk (b :: l)))
    end.

  (** all (field, bit) pairs to OR into local mask fields, over every set masked field *)
  Definition all_adds (fds : list field) (sets : list bool) : list (nat * N) :=
    flat_map (fun i => if nth i sets false then fst (mask_chain (length fds) fds i) else [])
             (seq 0 (length fds)).

  (** non-TL2 types: a set field whose mask chain ends in an outer/constant mask with the bit clear
      is an error ("is set, but will be ignored") *)
  Definition chain_ends_ok (fds : list field) (sets : list bool) (ps : list N) : bool :=
    forallb (fun i =>
      if nth i sets false then
        match snd (mask_chain (length fds) fds i) with
        | Some (a, bit) => N.testbit (eval_natarg ps [] a) bit
        | None => true
        end
      else true) (seq 0 (length fds)).

  (** value of a # field as given in the JSON, before mask bits are added (used by the
      TL2 block "set TL2 masks from TL1 masks") *)
  Definition base_nat (fis : list jfinfo) (ms : list (json * json)) (g : nat) : N :=
    match nth_error fis g with
    | Some fi =>
        match jr_uint_t 32 (jfind (jf_name fi) ms) with
        | JOk n => n
        | _ => 0
        end
    | None => 0
    end.

  Definition mask_bit_before (fis : list jfinfo) (ms : list (json * json)) (ps : list N) (fd : field) : bool :=
    match f_mask fd with
    | None => true
    | Some (NField g, bit) => N.testbit (base_nat fis ms g) bit
    | Some (a, bit) => N.testbit (eval_natarg ps [] a) bit
    end.

  (** is field [i] referenced by a later field as mask or nat argument *)
  Definition mentions (i : nat) (a : natarg) : bool :=
    match a with NField j => Nat.eqb i j | _ => false end.
  Definition field_referenced (i : nat) (fds : list field) : bool :=
    existsb (fun fd => match f_mask fd with Some (a, _) => mentions i a | None => false end
                       || existsb (mentions i) (f_args fd)) fds.

  Definition has_field_arg (fd : field) : bool :=
    existsb (fun a => match a with NField _ => true | _ => false end) (f_args fd).

  Definition is_nat_type (t : nat) : bool :=
    match nth_error js t with Some (TPrim PNat, _) => true | _ => false end.

  Definition or_nat (v : value) (add : N) : value :=
    match v with VNum n => VNum (N.lor n add) | _ => v end.

  Section RFields.
    Variable rec : nat -> list N -> option json -> jres value.     (* ReadJSONGeneral of a field type *)
    Variable rst : nat -> list N -> jres value.                    (* Reset / fresh state *)
    Variable tl2 : bool.
    Variable ps : list N.
    Variable allfds : list field.
    Variable allfis : list jfinfo.
    Variable ms : list (json * json).
    Variable sets : list bool.
    Variable adds : list (nat * N).

    (** one field, given the wire values [acc] of the fields before it (every local mask already holds
        its final value): the wire value of the field, [None] when WriteTL1 skips it *)
    Definition jr_field (fd : field) (fi : jfinfo) (idx : nat) (acc : list (option value)) : jres (option value) :=
      let oj := jfind (jf_name fi) ms in
      let args := eval_args ps acc (f_args fd) in
      let bit1 := field_present ps acc fd in
      let masked := is_some (f_mask fd) in
      let goval : jres value :=
        if jf_bit fi then
          (* BLOCK: trueType with false values validation (types without TL2 only) *)
          if negb tl2 && is_some oj && negb (nth idx sets false) && bit1 then JReject
          else JOk (VStruct [])
        else
          match oj with
          | Some j => jbind (rec (f_ty fd) args (Some j)) (fun v => JOk (or_nat v (add_bits_of idx adds)))
          | None =>
              match f_args fd with
              | [] => jbind (rst (f_ty fd) []) (fun v => JOk (or_nat v (add_bits_of idx adds)))
              | _ =>
                  if (if masked then (if tl2 then mask_bit_before allfis ms ps fd else bit1) else true)
                  then rec (f_ty fd) args None
                  else rst (f_ty fd) args
              end
          end in
      if masked && negb bit1 && negb (is_some oj) && negb (jf_bit fi) && negb (is_nat_type (f_ty fd))
      then JOk None                                   (* absent and switched off: nothing is read *)
      else
      jbind goval (fun v =>
      if masked && negb bit1 then
        (* Go keeps [v] in the struct but WriteTL1 skips it *)
        if is_nat_type (f_ty fd) && field_referenced idx allfds
           && negb (match v with VNum 0 => true | _ => false end)
        then JUnrep
        else JOk None
      else JOk (Some v)).

    (** one pass over the fields in schema order *)
    Fixpoint jr_fields (fds : list field) (fis : list jfinfo) (idx : nat) (acc : list (option value))
      : jres (list (option value)) :=
      match fds, fis with
      | [], [] => JOk acc
      | fd :: fds', fi :: fis' =>
          jbind (jr_field fd fi idx acc) (fun o => jr_fields fds' fis' (S idx) (acc ++ [o]))
      | _, _ => JReject
      end.
  End RFields.

  (** ReadJSONGeneral of a struct body (also a union variant's body) *)
  Definition jr_body (rec : nat -> list N -> option json -> jres value) (rst : nat -> list N -> jres value)
             (tl2 td : bool) (fds : list field) (fis : list jfinfo) (ps : list N) (oj : option json)
    : jres (list (option value)) :=
    if td then
      match fds with
      | [fd] => jbind (rec (f_ty fd) (eval_args ps [] (f_args fd)) oj) (fun v => JOk [Some v])
      | _ => JReject
      end
    else
      jbind (members (map jf_name fis) oj) (fun ms =>
      jbind (set_flags fis ms) (fun sets =>
      if negb tl2 && negb (chain_ends_ok fds sets ps) then JReject
      else jr_fields rec rst tl2 ps fds fis ms sets (all_adds fds sets) fds fis 0 [])).

  (** *** unions *)
  (** the spellings of a variant accepted in "type" and whether each is a legacy spelling
      (rejected when JSONReadContext.LegacyTypeNames is false, as in the harness) *)
  Definition variant_tags (tl2 : bool) (vn : jvname) (tag : N) : list (bytes * bool) :=
    let name := vn_tl vn in
    let has_old := negb (has_dunder name) && negb (tl2 && bytes_eqb (vn_var vn) name) in
    (if tl2 then [(vn_var vn, false)] else [])
    ++ [(name ++ tag_text tag, true)]
    ++ (if has_old then [(name, false)] else [])
    ++ [(tag_text tag, true)].

  Fixpoint find_tag (tl2 : bool) (vars : list nat) (vns : list jvname) (tg : bytes) (idx : nat)
    : option (nat * nat * bool) :=
    match vars, vns with
    | vt :: vars', vn :: vns' =>
        match nth_error js vt with
        | Some (TStruct tag _, _) =>
            match find (fun p => bytes_eqb (fst p) tg) (variant_tags tl2 vn tag) with
            | Some (_, legacy) => Some (idx, vt, legacy)
            | None => find_tag tl2 vars' vns' tg (S idx)
            end
        | _ => find_tag tl2 vars' vns' tg (S idx)
        end
    | _, _ => None
    end.

  (** Json2ReadUnion: (type string, raw value) *)
  Definition jr_union_parts (oj : option json) : jres (bytes * option json) :=
    match oj with
    | None => JReject
    | Some (JStr s) => JOk (s, None)
    | Some (JObj _) =>
        jbind (members [s_value; s_type] oj) (fun ms =>
        match jfind s_type ms with
        | Some (JStr s) => JOk (s, jfind s_value ms)
        | _ => JReject
        end)
    | Some _ => JReject
    end.

  (** Json2ReadMaybe: (ok, raw value) *)
  Definition jr_maybe_parts (oj : option json) : jres (bool * option json) :=
    match oj with
    | None => JOk (false, None)
    | Some (JObj _) =>
        jbind (members [s_value; s_ok] oj) (fun ms =>
        let vj := jfind s_value ms in
        match jfind s_ok ms with
        | Some (JBool okv) => if negb okv && is_some vj then JReject else JOk (okv, vj)
        | Some _ => JReject
        | None => JOk (is_some vj, vj)
        end)
    | Some _ => JReject
    end.

  (** *** arrays and dictionaries *)
  Section RElems.
    Variable rec : option json -> jres value.
    Fixpoint jr_elems (l : list json) : jres (list value) :=
      match l with
      | [] => JOk []
      | j :: r => jbind (rec (Some j)) (fun v => jbind (jr_elems r) (fun vs => JOk (v :: vs)))
      end.
  End RElems.

  Definition jr_array_items (oj : option json) : jres (list json) :=
    match oj with
    | None => JOk []
    | Some (JArr l) => JOk l
    | Some _ => JReject
    end.

  (** key of a map-backed dictionary.  String keys are NOT unescaped (UnsafeFieldName(true));
      other keys are unescaped and handed to the key type's reader as a JSON text of their own
      (only the number / true / false tokens are modelled) *)
  Definition jr_key (kp : prim) (k : json) : jres value :=
    match k with
    | JStr s =>
        match kp with
        | PString => JOk (VStr (raw_str s))
        | PNat => jbind (jr_uint_t 32 (Some (JNum s))) (fun n => JOk (VNum n))
        | PInt => jbind (jr_int_t 32 (Some (JNum s))) (fun n => JOk (VNum n))
        | PLong => jbind (jr_int_t 64 (Some (JNum s))) (fun n => JOk (VNum n))
        | PBool _ _ =>
            if bytes_eqb s s_true then JOk (VBool true)
            else if bytes_eqb s s_false then JOk (VBool false) else JReject
        | _ => JUnrep
        end
    | _ => JReject
    end.

  Section REntries.
    Variable rec : option json -> jres value.
    Variable kp : prim.
    Fixpoint jr_entries (ms : list (json * json)) : jres (list value) :=
      match ms with
      | [] => JOk []
      | (k, x) :: r =>
          jbind (jr_key kp k) (fun kv =>
          jbind (rec (Some x)) (fun xv =>
          jbind (jr_entries r) (fun vs => JOk (VStruct [Some kv; Some xv] :: vs))))
      end.
  End REntries.

  Fixpoint jsonr (fuel : nat) (t : nat) (ps : list N) (oj : option json) : jres value :=
    match fuel with
    | O => JFuel
    | S f =>
        match nth_error js t with
        | None => JReject
        | Some (TPrim p, _) => jr_prim p oj
        | Some (TStruct _ fds, AStruct tl2 td fis) =>
            jbind (jr_body (jsonr f) (reset_value f) tl2 td fds fis ps oj) (fun fs => JOk (VStruct fs))
        | Some (TUnion vars, AUnion tl2 is_enum is_maybe vns) =>
            if is_maybe then
              jbind (jr_maybe_parts oj) (fun p =>
              if fst p then
                match nth_error vars 1 with
                | Some vt =>
                    match nth_error js vt with
                    | Some (TStruct _ fds, AStruct tl2' td fis) =>
                        jbind (jr_body (jsonr f) (reset_value f) tl2' true fds fis ps (snd p)) (fun fs => JOk (VUnion 1 fs))
                    | _ => JReject
                    end
                | None => JReject
                end
              else JOk (VUnion 0 []))
            else
              jbind (jr_union_parts oj) (fun p =>
              match find_tag tl2 vars vns (fst p) 0 with
              | Some (idx, vt, legacy) =>
                  if legacy then JReject else
                  match nth_error js vt with
                  | Some (TStruct _ fds, AStruct tl2' td fis) =>
                      match fds with
                      | [] => JOk (VUnion idx [])           (* enum element / empty variant: value ignored *)
                      | _ => if is_enum then JOk (VUnion idx []) else
                             jbind (jr_body (jsonr f) (reset_value f) tl2' td fds fis ps (snd p)) (fun fs => JOk (VUnion idx fs))
                      end
                  | _ => JReject
                  end
              | None => JReject
              end)
        | Some (TArray k ef, _) =>
            let eargs := eval_args ps [] (f_args ef) in
            jbind (jr_array_items oj) (fun l =>
            let n := lenN l in
            let ok := match k with
                      | AVector => true
                      | ATupleDyn => n =? nth 0 ps 0
                      | ATupleFixed c => n =? c
                      end in
            if ok then jbind (jr_elems (jsonr f (f_ty ef) eargs) l) (fun vs => JOk (VArr vs)) else JReject)
        | Some (TDict kp ef, _) =>
            let eargs := eval_args ps [] (f_args ef) in
            match dict_fields (f_ty ef) with
            | Some (kf, vf) =>
                match oj with
                | None => JOk (VArr [])
                | Some (JObj ms) =>
                    jbind (jr_entries (jsonr f (f_ty vf) (eval_args eargs [] (f_args vf))) kp ms) (fun es =>
                    JOk (VArr (fold_left (fun acc e => dict_insert kp e acc) es [])))
                | Some _ => JReject
                end
            | None => JReject
            end
        | Some (_, _) => JReject
        end
    end.
  (** ** well-formedness of an annotated schema (boolean; evaluated on every kernel dump by the checks) *)
  (** a name the escaper leaves alone: safe ASCII only *)
  Definition name_plain (nm : bytes) : bool := forallb (fun b => (b <? 128) && safe b) nm.

  Fixpoint names_distinct (l : list bytes) : bool :=
    match l with
    | [] => true
    | a :: r => negb (existsb (bytes_eqb a) r) && names_distinct r
    end.

  Definition field_ann_ok (p : field * jfinfo) : bool :=
    name_plain (jf_name (snd p))
    && (if jf_bit (snd p) then is_some (f_mask (fst p)) && is_true_type (f_ty (fst p)) else true)
    && (if is_nat_type (f_ty (fst p)) then is_nil (f_args (fst p)) else true).    (* # takes no nat arguments *)

  Definition variant_fields (vt : nat) : option (list field * bool) :=
    match nth_error js vt with
    | Some (TStruct _ fds, AStruct _ td _) => Some (fds, td)
    | _ => None
    end.

  (** the spelling [nm] of a variant is read back as variant [i] (and is not a legacy spelling) *)
  Definition tag_reads_as (tl2 : bool) (vars : list nat) (vns : list jvname) (nm : bytes) (i vt : nat) : bool :=
    match find_tag tl2 vars vns nm 0 with
    | Some (i', vt', legacy) => Nat.eqb i' i && Nat.eqb vt' vt && negb legacy
    | None => false
    end.

  Definition ann_ok (p : tydef * jann) : bool :=
    match p with
    | (TStruct _ fds, AStruct _ td fis) =>
        Nat.eqb (length fds) (length fis) && forallb field_ann_ok (combine fds fis)
        && names_distinct (map jf_name fis)
        && (if td then match fds with [fd] => negb (is_some (f_mask fd)) | _ => false end else true)
    | (TUnion vars, AUnion tl2 is_enum is_maybe vns) =>
        Nat.eqb (length vars) (length vns)
        && forallb (fun vn => name_plain (vn_tl vn) && name_plain (vn_var vn)) vns
        && forallb (fun vt => is_some (variant_fields vt)) vars
        && (if is_maybe then
              match vars with
              | [v0; v1] =>
                  match variant_fields v0, variant_fields v1 with
                  | Some ([], false), Some ([fd], _) => negb (is_some (f_mask fd))
                  | _, _ => false
                  end
              | _ => false
              end
            else
              (* the name the writer emits for a variant is read back as that variant *)
              forallb (fun i => match nth_error vars i, nth_error vns i with
                                | Some vt, Some vn =>
                                    tag_reads_as tl2 vars vns (wname vn) i vt
                                    && (if tl2 then tag_reads_as tl2 vars vns (vn_var vn) i vt else true)
                                | _, _ => false
                                end) (seq 0 (length vars)))
        && (if is_enum then forallb (fun vt => match variant_fields vt with Some ([], _) => true | _ => false end) vars else true)
    | (TPrim _, _) | (TArray _ _, _) | (TDict _ _, _) => true
    | _ => false
    end.

  Definition wf_jschema : bool := wf_schema (sch js) && forallb ann_ok js.
End Model.

Arguments JOk {A} a.
Arguments JReject {A}.
Arguments JUnrep {A}.
Arguments JFuel {A}.
