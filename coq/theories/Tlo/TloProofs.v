(** Proofs about the GenerateTLO model (Tlo/TloModel.v): the types table (per-type characterisation of the fold),
    sorting, parameter-kind bits, and the statements used by Props/C26.v. *)
From Coq Require Import List NArith ZArith Bool Lia Permutation Sorted.
From TLV Require Import Prim.PrimModel Tl1.Tl1Model Tl1.Tl1Proofs Tlo.TloModel.
Import ListNotations.
Open Scope N_scope.


(** * byte-string equality *)
Lemma beqb_refl a : beqb a a = true.
Proof. induction a as [|x a IH]; cbn; [reflexivity|]. rewrite N.eqb_refl, IH. reflexivity. Qed.

Lemma beqb_eq a : forall b, beqb a b = true -> a = b.
Proof.
  induction a as [|x a IH]; intros [|y b] H; cbn in H; try discriminate; [reflexivity|].
  apply andb_true_iff in H. destruct H as [H1 H2]. apply N.eqb_eq in H1. subst. f_equal. apply IH, H2.
Qed.

Lemma beqb_true_iff a b : beqb a b = true <-> a = b.
Proof. split; [apply beqb_eq|intros ->; apply beqb_refl]. Qed.

Lemma beqb_sym a b : beqb a b = beqb b a.
Proof.
  destruct (beqb a b) eqn:E.
  - apply beqb_eq in E. subst. symmetry. apply beqb_refl.
  - destruct (beqb b a) eqn:E2; [|reflexivity]. apply beqb_eq in E2. subst. rewrite beqb_refl in E. discriminate.
Qed.

Lemma beqb_false_neq a b : beqb a b = false <-> a <> b.
Proof.
  split.
  - intros H ->. rewrite beqb_refl in H. discriminate.
  - intros H. destruct (beqb a b) eqn:E; [|reflexivity]. apply beqb_eq in E. contradiction.
Qed.

(** * the types table *)
Definition idp (T : bytes) (t : ttype) : bool := beqb (t_id t) T.

Lemma find_type_unfold tbl T : find_type tbl T = find (idp T) tbl.
Proof. reflexivity. Qed.

Lemma find_map_preserve {A} (p : A -> bool) (g : A -> A) l :
  (forall x, p (g x) = p x) -> find p (map g l) = option_map g (find p l).
Proof.
  intros H. induction l as [|x l IH]; cbn; [reflexivity|]. rewrite H. destruct (p x); [reflexivity|apply IH].
Qed.

Lemma find_app {A} (p : A -> bool) l1 l2 :
  find p (l1 ++ l2) = match find p l1 with Some x => Some x | None => find p l2 end.
Proof. induction l1 as [|x l1 IH]; cbn; [reflexivity|]. destruct (p x); [reflexivity|apply IH]. Qed.

Lemma has_type_find tbl T : has_type tbl T = match find_type tbl T with Some _ => true | None => false end.
Proof.
  unfold has_type, find_type. induction tbl as [|t tbl IH]; cbn; [reflexivity|].
  destruct (beqb (t_id t) T); cbn; [reflexivity|apply IH].
Qed.

Lemma find_type_id tbl T t : find_type tbl T = Some t -> t_id t = T.
Proof. unfold find_type. intros H. apply find_some in H. destruct H as [_ H]. apply beqb_eq, H. Qed.

Lemma bump_id c t : t_id (bump c t) = t_id t.
Proof. reflexivity. Qed.

Definition dflt (c : comb) (o : option ttype) : ttype := match o with Some t => t | None => new_type c end.

Definition step (T : bytes) (o : option ttype) (c : comb) : option ttype :=
  if c_fun c then o else if beqb (c_res c) T then Some (bump c (dflt c o)) else o.

Lemma upd_type_find tbl c T : find_type (upd_type tbl c) T = step T (find_type tbl T) c.
Proof.
  unfold upd_type, step. destruct (c_fun c); [reflexivity|].
  set (g := fun t => if beqb (t_id t) (c_res c) then bump c t else t).
  assert (Hg : forall x, idp T (g x) = idp T x).
  { intros x. unfold g, idp. destruct (beqb (t_id x) (c_res c)); reflexivity. }
  rewrite find_type_unfold, (find_map_preserve _ g _ Hg).
  rewrite has_type_find.
  destruct (beqb (c_res c) T) eqn:E.
  - apply beqb_eq in E. subst T.
    destruct (find_type tbl (c_res c)) as [t|] eqn:F.
    + rewrite <- find_type_unfold, F. cbn. unfold g. rewrite (find_type_id _ _ _ F), beqb_refl. reflexivity.
    + rewrite find_app. rewrite <- find_type_unfold, F. cbn. unfold idp. cbn. rewrite beqb_refl. cbn.
      unfold g. cbn. rewrite beqb_refl. reflexivity.
  - destruct (find_type tbl (c_res c)) as [t0|] eqn:F0.
    + rewrite <- find_type_unfold. destruct (find_type tbl T) as [t|] eqn:F; cbn; [|reflexivity].
      unfold g. rewrite (find_type_id _ _ _ F). rewrite beqb_sym, E. reflexivity.
    + rewrite find_app, <- find_type_unfold. destruct (find_type tbl T) as [t|] eqn:F; cbn.
      * unfold g. rewrite (find_type_id _ _ _ F). rewrite beqb_sym, E. reflexivity.
      * unfold idp. cbn. rewrite E. reflexivity.
Qed.

Lemma table_find cs : forall tbl T, find_type (fold_left upd_type cs tbl) T = fold_left (step T) cs (find_type tbl T).
Proof.
  induction cs as [|c cs IH]; intros tbl T; cbn [fold_left]; [reflexivity|]. rewrite IH, upd_type_find. reflexivity.
Qed.

Definition ctors_of (cs : list comb) (T : bytes) : list comb :=
  filter (fun c => negb (c_fun c) && beqb (c_res c) T) cs.

Definition bumps (l : list comb) (t : ttype) : ttype := fold_left (fun t c => bump c t) l t.

Lemma step_fold T cs : forall o,
  fold_left (step T) cs o =
  match o, ctors_of cs T with
  | Some t0, l => Some (bumps l t0)
  | None, [] => None
  | None, c0 :: l => Some (bumps (c0 :: l) (new_type c0))
  end.
Proof.
  induction cs as [|c cs IH]; intros o; cbn [fold_left].
  - destruct o; reflexivity.
  - rewrite IH. unfold step, ctors_of. cbn [filter]. destruct (c_fun c); cbn [negb andb]; [reflexivity|].
    destruct (beqb (c_res c) T); cbn [negb andb]; [|reflexivity]. destruct o; reflexivity.
Qed.

Theorem types_table_find cs T :
  find_type (types_table cs) T =
  match find_type seed_types T, ctors_of cs T with
  | Some t0, l => Some (bumps l t0)
  | None, [] => None
  | None, c0 :: l => Some (bumps (c0 :: l) (new_type c0))
  end.
Proof. unfold types_table. rewrite table_find. apply step_fold. Qed.


Definition xor_tags (l : list comb) : N := fold_left (fun x c => N.lxor x (w32 (c_tag c))) l 0.

Lemma xor_fold l : forall a, fold_left (fun x c => N.lxor x (w32 (c_tag c))) l a = N.lxor a (xor_tags l).
Proof.
  unfold xor_tags. induction l as [|c l IH]; intros a; cbn [fold_left].
  - rewrite N.lxor_0_r. reflexivity.
  - rewrite IH, (IH (N.lxor 0 _)). rewrite N.lxor_0_l, N.lxor_assoc. reflexivity.
Qed.

Lemma w32_idem n : w32 (w32 n) = w32 n.
Proof. unfold w32. apply N.mod_mod. discriminate. Qed.
Lemma w32_succ n : w32 (w32 n + 1) = w32 (n + 1).
Proof. unfold w32. rewrite N.add_mod_idemp_l by discriminate. reflexivity. Qed.

Lemma bumps_spec l : forall t,
  t_id (bumps l t) = t_id t /\ t_arity (bumps l t) = t_arity t /\ t_ptype (bumps l t) = t_ptype t /\
  t_name (bumps l t) = N.lxor (t_name t) (xor_tags l) /\
  w32 (t_cnum (bumps l t)) = w32 (t_cnum t + lenN l).
Proof.
  unfold bumps. induction l as [|c l IH]; intros t; cbn [fold_left].
  - unfold xor_tags, lenN. cbn. rewrite N.lxor_0_r, N.add_0_r. repeat split; reflexivity.
  - destruct (IH (bump c t)) as (H1 & H2 & H3 & H4 & H5). rewrite H1, H2, H3, H4, H5. cbn [bump t_id t_arity t_ptype t_name t_cnum].
    repeat split; try reflexivity.
    + unfold xor_tags at 2. cbn [fold_left]. rewrite (xor_fold l (N.lxor 0 _)), N.lxor_0_l, N.lxor_assoc. reflexivity.
    + unfold lenN. cbn [length]. rewrite Nat2N.inj_succ. unfold w32.
      rewrite <- N.add_mod_idemp_l by discriminate. rewrite N.mod_mod by discriminate.
      rewrite N.add_mod_idemp_l by discriminate. f_equal. lia.
Qed.

Lemma bumps_cnum_lt l t : l <> [] -> t_cnum (bumps l t) < 4294967296.
Proof.
  intros H. destruct (exists_last H) as (l' & c & ->). unfold bumps. rewrite fold_left_app. cbn [fold_left bump t_cnum].
  unfold w32. apply N.mod_lt. discriminate.
Qed.

(** ids in the table stay distinct *)
Lemma in_ids_find tbl T : In T (map t_id tbl) <-> find_type tbl T <> None.
Proof.
  unfold find_type. induction tbl as [|t tbl IH]; cbn.
  - split; [intros []|intros H; apply H; reflexivity].
  - destruct (beqb (t_id t) T) eqn:E.
    + apply beqb_eq in E. split; [discriminate|auto].
    + apply beqb_false_neq in E. rewrite <- IH. split; [intros [H|H]; [contradiction|exact H]|auto].
Qed.

Lemma upd_type_ids tbl c :
  map t_id (upd_type tbl c) =
  if c_fun c then map t_id tbl else if has_type tbl (c_res c) then map t_id tbl else map t_id tbl ++ [c_res c].
Proof.
  unfold upd_type. destruct (c_fun c); [reflexivity|].
  rewrite map_map.
  assert (E : forall l, map (fun x => t_id (if beqb (t_id x) (c_res c) then bump c x else x)) l = map t_id l).
  { intros l. apply map_ext. intros x. destruct (beqb (t_id x) (c_res c)); reflexivity. }
  rewrite E. destruct (has_type tbl (c_res c)); [reflexivity|]. rewrite map_app. reflexivity.
Qed.

Lemma NoDup_snoc {A} (l : list A) x : NoDup l -> ~ In x l -> NoDup (l ++ [x]).
Proof.
  induction l as [|y l IH]; intros H Hn; cbn.
  - constructor; [intros []|constructor].
  - inversion H; subst. constructor.
    + rewrite in_app_iff. intros [Hi|[Hi|[]]]; [contradiction|]. subst. apply Hn. left. reflexivity.
    + apply IH; [assumption|]. intros Hi. apply Hn. right. exact Hi.
Qed.

Lemma upd_type_nodup tbl c : NoDup (map t_id tbl) -> NoDup (map t_id (upd_type tbl c)).
Proof.
  intros H. rewrite upd_type_ids. destruct (c_fun c); [exact H|].
  destruct (has_type tbl (c_res c)) eqn:E; [exact H|].
  apply NoDup_snoc; [exact H|]. intros Hin. apply in_ids_find in Hin. rewrite has_type_find in E.
  destruct (find_type tbl (c_res c)); [discriminate|]. apply Hin. reflexivity.
Qed.


Lemma table_nodup cs : forall tbl, NoDup (map t_id tbl) -> NoDup (map t_id (fold_left upd_type cs tbl)).
Proof. induction cs as [|c cs IH]; intros tbl H; cbn [fold_left]; [exact H|]. apply IH, upd_type_nodup, H. Qed.

Lemma seed_nodup : NoDup (map t_id seed_types).
Proof.
  cbn. constructor; [|constructor; [intros []|constructor]].
  intros [H|[]]. discriminate H.
Qed.

Lemma types_table_nodup cs : NoDup (map t_id (types_table cs)).
Proof. apply table_nodup, seed_nodup. Qed.

Lemma nodup_in_find tbl t : NoDup (map t_id tbl) -> In t tbl -> find_type tbl (t_id t) = Some t.
Proof.
  unfold find_type. induction tbl as [|u tbl IH]; intros Hn Hi; [destruct Hi|].
  cbn in Hn. inversion Hn; subst. cbn. destruct Hi as [->|Hi].
  - rewrite beqb_refl. reflexivity.
  - destruct (beqb (t_id u) (t_id t)) eqn:E.
    + apply beqb_eq in E. exfalso. apply H1. rewrite E. apply in_map, Hi.
    + apply IH; assumption.
Qed.

Lemma find_in tbl T t : find_type tbl T = Some t -> In t tbl.
Proof. unfold find_type. intros H. apply find_some in H. apply H. Qed.

(** * stable insertion sort *)
Section SortFacts.
  Context {A : Type} (key : A -> bytes).
  Definition kle (a b : A) : Prop := bytes_lt (key b) (key a) = false.

  Lemma insert_perm x l : Permutation (insert_by key x l) (x :: l).
  Proof.
    induction l as [|y l IH]; cbn; [apply Permutation_refl|].
    destruct (bytes_lt (key y) (key x)); [|apply Permutation_refl].
    eapply Permutation_trans; [apply perm_skip, IH|apply perm_swap].
  Qed.

  Lemma sort_perm l : Permutation (sort_by key l) l.
  Proof.
    unfold sort_by. induction l as [|x l IH]; cbn; [constructor|].
    eapply Permutation_trans; [apply insert_perm|apply perm_skip, IH].
  Qed.

  Lemma insert_sorted x l : Sorted kle l -> Sorted kle (insert_by key x l).
  Proof.
    induction l as [|y l IH]; intros H; cbn.
    - constructor; constructor.
    - destruct (bytes_lt (key y) (key x)) eqn:E.
      + inversion H; subst. constructor; [apply IH; assumption|].
        destruct l as [|z l]; cbn.
        * constructor. unfold kle. apply bytes_lt_asym, E.
        * destruct (bytes_lt (key z) (key x)).
          -- inversion H3; subst. constructor. assumption.
          -- constructor. unfold kle. apply bytes_lt_asym, E.
      + constructor; [exact H|]. constructor. exact E.
  Qed.

  Lemma sort_sorted l : Sorted kle (sort_by key l).
  Proof. unfold sort_by. induction l as [|x l IH]; cbn; [constructor|apply insert_sorted, IH]. Qed.
End SortFacts.

(** * parameter kinds *)
Lemma ptype_bits_spec l : forall k i,
  N.testbit (ptype_bits k l) i =
  (k <=? i) && (i <? 64) && match nth_error (map ta_nat l) (N.to_nat (i - k)) with Some b => b | None => false end.
Proof.
  induction l as [|a l IH]; intros k i; cbn [ptype_bits map].
  - rewrite N.bits_0. destruct (N.to_nat (i - k)); cbn; rewrite andb_false_r; reflexivity.
  - rewrite N.lor_spec, IH.
    destruct (k <=? i) eqn:Eki; cbn [andb].
    + apply N.leb_le in Eki. destruct (N.eq_dec i k) as [->|Hne].
      * rewrite N.sub_diag. cbn [N.to_nat nth_error].
        replace (k + 1 <=? k) with false by (symmetry; apply N.leb_gt; lia). cbn [andb]. rewrite orb_false_r.
        destruct (ta_nat a); cbn [andb].
        -- destruct (k <? 64); [|apply N.bits_0]. rewrite N.shiftl_1_l, N.pow2_bits_true. reflexivity.
        -- rewrite N.bits_0. rewrite andb_false_r. reflexivity.
      * replace (k + 1 <=? i) with true by (symmetry; apply N.leb_le; lia). cbn [andb].
        replace (N.to_nat (i - k)) with (S (N.to_nat (i - (k + 1)))) by lia. cbn [nth_error].
        assert (Hz : N.testbit (if ta_nat a && (k <? 64) then N.shiftl 1 k else 0) i = false).
        { destruct (ta_nat a && (k <? 64)); [|apply N.bits_0]. rewrite N.shiftl_1_l. apply N.pow2_bits_false. auto. }
        rewrite Hz. reflexivity.
    + apply N.leb_gt in Eki.
      replace (k + 1 <=? i) with false by (symmetry; apply N.leb_gt; lia). cbn [andb]. rewrite orb_false_r.
      destruct (ta_nat a && (k <? 64)); [|apply N.bits_0]. rewrite N.shiftl_1_l. apply N.pow2_bits_false. lia.
Qed.


Definition is_seed (T : bytes) : bool := beqb T n_hash || beqb T n_Type.
Definition seed_name (T : bytes) : N :=
  if beqb T n_hash then tlo_natTag else if beqb T n_Type then tlo_typeTag else 0.

Lemma find_seed T :
  find_type seed_types T =
  if beqb T n_hash then Some (mkTType tlo_natTag n_hash 0 0 0 0)
  else if beqb T n_Type then Some (mkTType tlo_typeTag n_Type 0 0 0 0) else None.
Proof.
  unfold find_type, seed_types. cbn [find t_id]. rewrite (beqb_sym n_hash T), (beqb_sym n_Type T). reflexivity.
Qed.

Lemma tlo_inv v now cs d : tlo v now cs = Some d ->
  forallb entry_ok cs = true /\ names_distinct (sort_by t_id (types_table cs)) = true /\
  d_version d = w32 v /\ d_date d = (if v =? 0 then w32 now else w32 v) /\
  d_types d = sort_by t_id (types_table cs) /\
  d_constructors d = map (entry (types_table cs)) (filter goes_ctor cs) /\
  d_functions d = sort_by ce_id (map (entry (types_table cs)) (filter (fun c => negb (goes_ctor c)) cs)).
Proof.
  unfold tlo. destruct (forallb entry_ok cs && names_distinct (sort_by t_id (types_table cs))) eqn:E; [|discriminate].
  intros H. injection H as <-. apply andb_true_iff in E. destruct E as [E1 E2]. cbn. repeat split; assumption.
Qed.

Lemma in_types_find v now cs d t : tlo v now cs = Some d -> In t (d_types d) ->
  find_type (types_table cs) (t_id t) = Some t.
Proof.
  intros H Hi. destruct (tlo_inv _ _ _ _ H) as (_ & _ & _ & _ & Ht & _). rewrite Ht in Hi.
  apply nodup_in_find; [apply types_table_nodup|].
  eapply Permutation_in; [apply sort_perm|exact Hi].
Qed.

Lemma ctors_of_in cs T c : In c (ctors_of cs T) <-> In c cs /\ c_fun c = false /\ c_res c = T.
Proof.
  unfold ctors_of. rewrite filter_In, andb_true_iff, negb_true_iff, beqb_true_iff. tauto.
Qed.

(** every listed type: id = XOR of the tags of its constructors (seeded with the "#"/"Type" tag for those two names),
    constructor count, and arity / parameter kinds of its first constructor *)
Theorem tlo_types_spec v now cs d t : tlo v now cs = Some d -> In t (d_types d) ->
  let l := ctors_of cs (t_id t) in
  t_name t = N.lxor (seed_name (t_id t)) (xor_tags l) /\
  t_cnum t = w32 (lenN l) /\
  (is_seed (t_id t) = false ->
   exists c0 l', l = c0 :: l' /\ t_arity t = w32 (c_arity c0) /\ t_ptype t = ptype_bits 0 (c_targs c0)).
Proof.
  intros H Hi l. pose proof (in_types_find _ _ _ _ _ H Hi) as F.
  rewrite types_table_find, find_seed in F. fold l in F. unfold seed_name, is_seed.
  clearbody l.
  assert (Hc : forall l0 t0, (l0 = [] -> t_cnum t0 = 0) -> t_cnum (bumps l0 t0) = w32 (t_cnum t0 + lenN l0)).
  { intros l0 t0 H0. destruct (bumps_spec l0 t0) as (_ & _ & _ & _ & E). rewrite <- E. unfold w32. symmetry. apply N.mod_small.
    destruct l0 as [|c0 l0]; [cbn; rewrite (H0 eq_refl); reflexivity|]. apply bumps_cnum_lt. discriminate. }
  destruct (beqb (t_id t) n_hash) eqn:E1; [|destruct (beqb (t_id t) n_Type) eqn:E2].
  - injection F as Ft. rewrite <- Ft. destruct (bumps_spec l (mkTType tlo_natTag n_hash 0 0 0 0)) as (_ & _ & _ & Hn & _).
    rewrite Hn, Hc by reflexivity. cbn [t_name t_cnum]. rewrite N.add_0_l. repeat split; try reflexivity. discriminate.
  - injection F as Ft. rewrite <- Ft. destruct (bumps_spec l (mkTType tlo_typeTag n_Type 0 0 0 0)) as (_ & _ & _ & Hn & _).
    rewrite Hn, Hc by reflexivity. cbn [t_name t_cnum]. rewrite N.add_0_l. repeat split; try reflexivity. discriminate.
  - destruct l as [|c0 l']; [discriminate|]. injection F as Ft. rewrite <- Ft. change (bumps l' (bump c0 (new_type c0))) with (bumps (c0 :: l') (new_type c0)).
    destruct (bumps_spec (c0 :: l') (new_type c0)) as (_ & Ha & Hp & Hn & _).
    rewrite Hn, Ha, Hp, Hc by discriminate. cbn [new_type t_name t_cnum t_arity t_ptype]. rewrite N.add_0_l.
    repeat split; try reflexivity. intros _. exists c0, l'. repeat split; reflexivity.
Qed.

(** which types are listed: "#", "Type" and exactly the result types of the schema's constructors *)
Theorem tlo_types_listed v now cs d T : tlo v now cs = Some d ->
  (In T (map t_id (d_types d)) <-> is_seed T = true \/ exists c, In c cs /\ c_fun c = false /\ c_res c = T).
Proof.
  intros H. destruct (tlo_inv _ _ _ _ H) as (_ & _ & _ & _ & Ht & _). rewrite Ht.
  assert (P : Permutation (map t_id (sort_by t_id (types_table cs))) (map t_id (types_table cs))) by apply Permutation_map, sort_perm.
  assert (E : In T (map t_id (sort_by t_id (types_table cs))) <-> In T (map t_id (types_table cs))).
  { split; apply Permutation_in; [exact P|apply Permutation_sym, P]. }
  rewrite E, in_ids_find, types_table_find, find_seed. unfold is_seed.
  destruct (beqb T n_hash); [split; [left; reflexivity|discriminate]|].
  destruct (beqb T n_Type); [split; [left; reflexivity|discriminate]|]. cbn [orb].
  destruct (ctors_of cs T) as [|c0 l'] eqn:El.
  - split; [intros Hn; exfalso; apply Hn; reflexivity|]. intros [Hf|(c & Hc)]; [discriminate|].
    apply ctors_of_in in Hc. rewrite El in Hc. destruct Hc.
  - split; [|discriminate]. intros _. right. exists c0. apply ctors_of_in. rewrite El. left. reflexivity.
Qed.

Theorem tlo_types_sorted v now cs d : tlo v now cs = Some d ->
  Sorted (kle t_id) (d_types d) /\ NoDup (map t_id (d_types d)).
Proof.
  intros H. destruct (tlo_inv _ _ _ _ H) as (_ & _ & _ & _ & Ht & _). rewrite Ht. split; [apply sort_sorted|].
  eapply Permutation_NoDup; [apply Permutation_sym, Permutation_map, sort_perm|apply types_table_nodup].
Qed.

Lemma names_distinct_nodup l : names_distinct l = true -> NoDup (map t_name l).
Proof.
  induction l as [|t l IH]; cbn; [constructor|]. intros H. apply andb_true_iff in H. destruct H as [H1 H2].
  constructor; [|apply IH, H2]. intros Hi. apply in_map_iff in Hi. destruct Hi as (u & Hu & Hin).
  apply negb_true_iff in H1. assert (X : existsb (fun u0 => t_name u0 =? t_name t) l = true).
  { apply existsb_exists. exists u. split; [exact Hin|]. apply N.eqb_eq, Hu. }
  rewrite X in H1. discriminate.
Qed.

(** the "prevent id collision" check: listed types have pairwise different ids *)
Theorem tlo_type_ids_distinct v now cs d : tlo v now cs = Some d -> NoDup (map t_name (d_types d)).
Proof.
  intros H. destruct (tlo_inv _ _ _ _ H) as (_ & Hd & _ & _ & Ht & _). rewrite Ht. apply names_distinct_nodup, Hd.
Qed.

(** * combinators *)
Definition listed_tag (c : comb) : N :=
  match builtin_tag (c_name c) with Some tg => tg | None => w32 (c_tag c) end.

Lemma entry_id tbl c : ce_id (entry tbl c) = c_name c.
Proof. unfold entry. destruct (builtin_tag (c_name c)); reflexivity. Qed.
Lemma entry_name tbl c : ce_name (entry tbl c) = listed_tag c.
Proof. unfold entry, listed_tag. destruct (builtin_tag (c_name c)); reflexivity. Qed.

Lemma filter_partition_perm {A} (p : A -> bool) l :
  Permutation (filter p l ++ filter (fun x => negb (p x)) l) l.
Proof.
  induction l as [|x l IH]; cbn; [constructor|]. destruct (p x); cbn.
  - apply perm_skip, IH.
  - apply Permutation_sym. eapply Permutation_trans; [apply perm_skip, Permutation_sym, IH|]. apply Permutation_middle.
Qed.

(** constructors: the non-function (or builtin-named) combinators, in schema order; functions: the others, sorted by name *)
Theorem tlo_sections v now cs d : tlo v now cs = Some d ->
  d_constructors d = map (entry (types_table cs)) (filter goes_ctor cs) /\
  Permutation (d_functions d) (map (entry (types_table cs)) (filter (fun c => negb (goes_ctor c)) cs)) /\
  Sorted (kle ce_id) (d_functions d).
Proof.
  intros H. destruct (tlo_inv _ _ _ _ H) as (_ & _ & _ & _ & _ & Hc & Hf). rewrite Hc, Hf.
  split; [reflexivity|]. split; [apply sort_perm|apply sort_sorted].
Qed.

(** every combinator of the schema is listed exactly as often as it occurs (multiset equality), with its name and
    [listed_tag] *)
Theorem tlo_lists_each_once v now cs d : tlo v now cs = Some d ->
  Permutation (map (fun e => (ce_id e, ce_name e)) (d_constructors d ++ d_functions d))
              (map (fun c => (c_name c, listed_tag c)) cs).
Proof.
  intros H. destruct (tlo_sections _ _ _ _ H) as (Hc & Hf & _). rewrite Hc.
  set (tbl := types_table cs) in *.
  assert (E : forall l, map (fun e => (ce_id e, ce_name e)) (map (entry tbl) l) = map (fun c => (c_name c, listed_tag c)) l).
  { intros l. rewrite map_map. apply map_ext. intros c. rewrite entry_id, entry_name. reflexivity. }
  rewrite map_app, E.
  eapply Permutation_trans.
  - apply Permutation_app_head. apply Permutation_map. exact Hf.
  - rewrite E, <- map_app. apply Permutation_map, filter_partition_perm.
Qed.

Definition builtins_canonical (cs : list comb) : Prop :=
  forall c tg, In c cs -> builtin_tag (c_name c) = Some tg -> c_tag c = tg.
Definition tags_ok (cs : list comb) : Prop := forall c, In c cs -> c_tag c < 4294967296.

Lemma listed_tag_canonical cs : builtins_canonical cs -> tags_ok cs ->
  map (fun c => (c_name c, listed_tag c)) cs = map (fun c => (c_name c, c_tag c)) cs.
Proof.
  intros Hb Ht. apply map_ext_in. intros c Hc. unfold listed_tag. destruct (builtin_tag (c_name c)) eqn:E.
  - rewrite (Hb c n Hc E). reflexivity.
  - unfold w32. rewrite N.mod_small by (apply Ht, Hc). reflexivity.
Qed.

Corollary tlo_lists_each_once_with_tag v now cs d : tlo v now cs = Some d -> builtins_canonical cs -> tags_ok cs ->
  Permutation (map (fun e => (ce_id e, ce_name e)) (d_constructors d ++ d_functions d))
              (map (fun c => (c_name c, c_tag c)) cs).
Proof. intros H Hb Ht. rewrite <- (listed_tag_canonical cs Hb Ht). apply (tlo_lists_each_once _ _ _ _ H). Qed.

Corollary tlo_ids_nodup v now cs d : tlo v now cs = Some d -> NoDup (map c_name cs) ->
  NoDup (map ce_id (d_constructors d ++ d_functions d)).
Proof.
  intros H Hn. pose proof (tlo_lists_each_once _ _ _ _ H) as P.
  apply (Permutation_map fst) in P. rewrite !map_map in P. cbn [fst] in P.
  eapply Permutation_NoDup; [apply Permutation_sym, P|exact Hn].
Qed.

(** the type id a constructor carries is the id of its listed type *)
Theorem tlo_ctor_type_name v now cs d c : tlo v now cs = Some d -> In c cs -> c_fun c = false -> is_builtin c = false ->
  exists t, In t (d_types d) /\ t_id t = c_res c /\ ce_tname (entry (types_table cs) c) = t_name t.
Proof.
  intros H Hi Hf Hb. destruct (tlo_inv _ _ _ _ H) as (_ & _ & _ & _ & Ht & _).
  assert (Hl : In (c_res c) (map t_id (d_types d))).
  { apply (tlo_types_listed _ _ _ _ _ H). right. exists c. auto. }
  apply in_map_iff in Hl. destruct Hl as (t & Hid & Hin). exists t. split; [exact Hin|]. split; [exact Hid|].
  pose proof (in_types_find _ _ _ _ _ H Hin) as F. rewrite Hid in F.
  unfold entry, is_builtin in *. destruct (builtin_tag (c_name c)); [discriminate|]. cbn [ce_tname].
  unfold type_name_of. rewrite F. reflexivity.
Qed.

(** functions carry the id of their result type when that type is listed, 0 otherwise *)
Theorem tlo_fun_type_name v now cs d c : tlo v now cs = Some d -> is_builtin c = false ->
  (forall t, In t (d_types d) -> t_id t = c_res c -> ce_tname (entry (types_table cs) c) = t_name t) /\
  (~ In (c_res c) (map t_id (d_types d)) -> ce_tname (entry (types_table cs) c) = 0).
Proof.
  intros H Hb. unfold entry, is_builtin in *. destruct (builtin_tag (c_name c)); [discriminate|]. cbn [ce_tname]. unfold type_name_of. split.
  - intros t Hin Hid. pose proof (in_types_find _ _ _ _ _ H Hin) as F. rewrite Hid in F. rewrite F. reflexivity.
  - intros Hn. destruct (find_type (types_table cs) (c_res c)) as [t|] eqn:F; [|reflexivity]. exfalso. apply Hn.
    destruct (tlo_inv _ _ _ _ H) as (_ & _ & _ & _ & Ht & _). rewrite Ht.
    eapply Permutation_in; [apply Permutation_sym, Permutation_map, sort_perm|].
    apply in_ids_find. rewrite F. discriminate.
Qed.

(** arity and parameter kinds, for every constructor, when the constructors of one type agree (kernel-enforced) *)
Definition consistent (cs : list comb) : Prop :=
  forall c c', In c cs -> In c' cs -> c_fun c = false -> c_fun c' = false -> c_res c = c_res c' ->
    c_arity c = c_arity c' /\ map ta_nat (c_targs c) = map ta_nat (c_targs c').

Lemma ptype_bits_ext l l' : map ta_nat l = map ta_nat l' -> ptype_bits 0 l = ptype_bits 0 l'.
Proof. intros E. apply N.bits_inj. intros i. rewrite !ptype_bits_spec, E. reflexivity. Qed.

Theorem tlo_type_params v now cs d t c : tlo v now cs = Some d -> consistent cs ->
  In t (d_types d) -> is_seed (t_id t) = false -> In c cs -> c_fun c = false -> c_res c = t_id t ->
  t_arity t = w32 (c_arity c) /\
  forall i, N.testbit (t_ptype t) i = (i <? 64) && nth (N.to_nat i) (map ta_nat (c_targs c)) false.
Proof.
  intros H Hcons Hin Hs Hc Hf Hr.
  destruct (tlo_types_spec _ _ _ _ _ H Hin) as (_ & _ & Hx). destruct (Hx Hs) as (c0 & l' & El & Ha & Hp).
  assert (Hc0 : In c0 (ctors_of cs (t_id t))) by (rewrite El; left; reflexivity).
  apply ctors_of_in in Hc0. destruct Hc0 as (Hc0 & Hf0 & Hr0).
  destruct (Hcons c0 c Hc0 Hc Hf0 Hf) as (Ea & Ek); [congruence|].
  split; [rewrite Ha, Ea; reflexivity|]. intros i. rewrite Hp, (ptype_bits_ext _ _ Ek), ptype_bits_spec.
  rewrite N.sub_0_r. cbn [N.leb]. replace (0 <=? i) with true by (symmetry; apply N.leb_le; lia). cbn [andb].
  destruct (nth_error (map ta_nat (c_targs c)) (N.to_nat i)) eqn:En.
  - rewrite (nth_error_nth _ _ _ En). reflexivity.
  - rewrite nth_overflow by (apply nth_error_None, En). reflexivity.
Qed.

(** * the byte-string literals of TloModel.v are the Go string literals *)
From Coq Require Import Ascii String.
Definition bytes_of_string (s : string) : bytes := map (fun a => N.of_nat (nat_of_ascii a)) (list_ascii_of_string s).
Example literal_names :
  n_hash = bytes_of_string "#" /\ n_Type = bytes_of_string "Type" /\ n_underscore = bytes_of_string "_" /\
  n_Int = bytes_of_string "Int" /\ n_Long = bytes_of_string "Long" /\ n_Float = bytes_of_string "Float" /\
  n_Double = bytes_of_string "Double" /\ n_String = bytes_of_string "String" /\
  n_int = bytes_of_string "int" /\ n_long = bytes_of_string "long" /\ n_float = bytes_of_string "float" /\
  n_double = bytes_of_string "double" /\ n_string = bytes_of_string "string" /\
  n_read = bytes_of_string "read" /\ n_write = bytes_of_string "write" /\ n_readwrite = bytes_of_string "readwrite" /\
  n_internal = bytes_of_string "internal" /\ n_kphp = bytes_of_string "kphp".
Proof. repeat split; reflexivity. Qed.
