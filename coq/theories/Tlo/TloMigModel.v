(** M-mig -- certified checker for the TL1 -> TL2 migration (internal/pure/migration.go), C27.

    Both schemas (the original TL1 schema resolved with --tl2WhiteList, and the migrated .tl2 schema) are given as
    their *TL2 view*: the kernel's resolved type instances (translator overlay/cmd/verifdump) reduced to the attributes
    the TL2 and JSON builders of the generated code read (lib/tlo_lib.py: mig_view):
      primitive name; alias/typedef/unwrap transparency; per struct: TL name, union index, function tag and result type,
      and per field: JSON/TL name, TL2 presence-bit number (None = not optional), is-bit (a masked [true] / [bit]:
      presence only), element type; per union: is-enum, is-Maybe, variant names, variant structs (in order); arrays:
      fixed count or none (vector and dynamically sized tuple are the same thing in TL2: the length is on the wire);
      dictionaries: the entry struct.
    NOT part of the view (TL1-only): tags of non-functions, bare/boxed, nat parameters and arguments, TL1 field-mask
    references and bit numbers (the TL1 mask field itself stays an ordinary field).

    [tl2_equiv A B phi]: boolean bisimulation check of a candidate correspondence [phi] between instances.
    [enc_abs]: ANY compositional encoder that reads only these attributes, given as an algebra
    (aprim/astruct/aunion/aarray/adict); the TL2 writer and the JSON writer are two such algebras (that the real
    builders are such algebras is the model of the Tl2/Json families, not proved here).
    Values are Tl1Model.value with aliases transparent (an alias has the value of its target).
    Executable definitions only. *)
From Coq Require Export List NArith Bool.
From TLV Require Export Prim.PrimModel Tl1.Tl1Model.
Export ListNotations.
Open Scope N_scope.

Fixpoint mbeqb (a b : bytes) : bool :=
  match a, b with
  | [], [] => true
  | x :: a', y :: b' => (x =? y) && mbeqb a' b'
  | _, _ => false
  end.

Definition optN_eqb (a b : option N) : bool :=
  match a, b with
  | None, None => true
  | Some x, Some y => x =? y
  | _, _ => false
  end.

(** * TL2 view of a schema *)
Record fattr := mkFA { fa_name : bytes; fa_bit : option N; fa_isbit : bool }.
Record mfield := mkMF { mf_attr : fattr; mf_ty : nat }.

Record sattr := mkSA { sa_name : bytes;          (* TL name (for a union element: the name JSON prints as "type") *)
                       sa_uidx : N;              (* UnionIndex() *)
                       sa_fun : option N }.      (* functions: the magic *)
Record uattr := mkUA { ua_enum : bool; ua_maybe : bool; ua_names : list bytes }.

Inductive mdef :=
| MPrim (name : bytes)
| MAlias (target : nat)
| MStruct (a : sattr) (fields : list mfield) (result : option nat)
| MUnion (a : uattr) (variants : list nat)
| MArray (fixed : option N) (elem : nat)
| MDict (elem : nat).

Definition mschema := list mdef.

(** follow aliases (fuel = number of instances: an alias chain cannot be longer without a cycle) *)
Fixpoint resolve_f (fuel : nat) (s : mschema) (t : nat) : nat :=
  match fuel with
  | O => t
  | S f => match nth_error s t with
           | Some (MAlias u) => resolve_f f s u
           | _ => t
           end
  end.
Definition resolve (s : mschema) (t : nat) : nat := resolve_f (length s) s t.

(** * attribute equality *)
Definition fattr_eqb (a b : fattr) : bool :=
  mbeqb (fa_name a) (fa_name b) && optN_eqb (fa_bit a) (fa_bit b) && Bool.eqb (fa_isbit a) (fa_isbit b).
Definition sattr_eqb (a b : sattr) : bool :=
  mbeqb (sa_name a) (sa_name b) && (sa_uidx a =? sa_uidx b) && optN_eqb (sa_fun a) (sa_fun b).
Fixpoint names_eqb (a b : list bytes) : bool :=
  match a, b with
  | [], [] => true
  | x :: a', y :: b' => mbeqb x y && names_eqb a' b'
  | _, _ => false
  end.
Definition uattr_eqb (a b : uattr) : bool :=
  Bool.eqb (ua_enum a) (ua_enum b) && Bool.eqb (ua_maybe a) (ua_maybe b) && names_eqb (ua_names a) (ua_names b).

(** * the checker *)
Definition pair_eqb (p q : nat * nat) : bool := Nat.eqb (fst p) (fst q) && Nat.eqb (snd p) (snd q).
Definition in_phi (phi : list (nat * nat)) (p : nat * nat) : bool := existsb (pair_eqb p) phi.

(** instances [a] of A and [b] of B are related when their alias targets are paired by [phi] *)
Definition relb (A B : mschema) (phi : list (nat * nat)) (a b : nat) : bool :=
  in_phi phi (resolve A a, resolve B b).

Fixpoint fields_equiv (A B : mschema) (phi : list (nat * nat)) (fa fb : list mfield) : bool :=
  match fa, fb with
  | [], [] => true
  | x :: fa', y :: fb' =>
      fattr_eqb (mf_attr x) (mf_attr y) &&
      (fa_isbit (mf_attr x) || relb A B phi (mf_ty x) (mf_ty y)) &&
      fields_equiv A B phi fa' fb'
  | _, _ => false
  end.

(** variant structs are paired directly (a variant is never an alias) *)
Fixpoint variants_equiv (phi : list (nat * nat)) (va vb : list nat) : bool :=
  match va, vb with
  | [], [] => true
  | x :: va', y :: vb' => in_phi phi (x, y) && variants_equiv phi va' vb'
  | _, _ => false
  end.

Definition result_equiv (A B : mschema) (phi : list (nat * nat)) (ra rb : option nat) : bool :=
  match ra, rb with
  | None, None => true
  | Some x, Some y => relb A B phi x y
  | _, _ => false
  end.

Definition equiv_pair (A B : mschema) (phi : list (nat * nat)) (p : nat * nat) : bool :=
  match nth_error A (fst p), nth_error B (snd p) with
  | Some (MPrim n), Some (MPrim m) => mbeqb n m
  | Some (MStruct sa fa ra), Some (MStruct sb fb rb) =>
      sattr_eqb sa sb && fields_equiv A B phi fa fb && result_equiv A B phi ra rb
  | Some (MUnion ua va), Some (MUnion ub vb) => uattr_eqb ua ub && variants_equiv phi va vb
  | Some (MArray ca ea), Some (MArray cb eb) => optN_eqb ca cb && relb A B phi ea eb
  | Some (MDict ea), Some (MDict eb) => relb A B phi ea eb
  | _, _ => false
  end.

Definition tl2_equiv (A B : mschema) (phi : list (nat * nat)) : bool := forallb (equiv_pair A B phi) phi.

(** the first pair of [phi] the check fails on (diagnostics) *)
Fixpoint first_bad (A B : mschema) (phi all : list (nat * nat)) : option (nat * nat) :=
  match phi with
  | [] => None
  | p :: r => if equiv_pair A B all p then first_bad A B r all else Some p
  end.

(** all pairs the check fails on (the run reports each of them) *)
Definition all_bad (A B : mschema) (phi : list (nat * nat)) : list (nat * nat) :=
  filter (fun p => negb (equiv_pair A B phi p)) phi.

(** every root (a migrated type and its origin) is covered by the correspondence *)
Definition roots_covered (A B : mschema) (phi roots : list (nat * nat)) : bool :=
  forallb (fun p => relb A B phi (fst p) (snd p)) roots.

(** * abstract encoders: an algebra over the compared attributes *)
Section Abs.
  Variable O : Type.
  Variable aprim : bytes -> value -> O.
  (** per field: attributes and [None] = absent, [Some None] = present bit-field, [Some (Some o)] = present with encoding o *)
  Variable astruct : sattr -> list (fattr * option (option O)) -> O.
  Variable aunion : uattr -> nat -> O -> O.
  Variable aarray : option N -> list O -> O.
  Variable adict : list O -> O.
  Variable abad : O.          (* the value does not have the shape of the type *)

  Section Items.
    Variable rec : nat -> value -> O.
    Fixpoint abs_items (fds : list mfield) (vs : list (option value)) {struct vs}
      : option (list (fattr * option (option O))) :=
      match fds, vs with
      | [], [] => Some []
      | fd :: fds', ov :: vs' =>
          match abs_items fds' vs' with
          | Some r =>
              Some ((mf_attr fd,
                     match ov with
                     | None => None
                     | Some v => if fa_isbit (mf_attr fd) then Some None else Some (Some (rec (mf_ty fd) v))
                     end) :: r)
          | None => None
          end
      | _, _ => None
      end.
  End Items.

  Fixpoint enc_abs (s : mschema) (t : nat) (v : value) {struct v} : O :=
    match nth_error s (resolve s t) with
    | None => abad
    | Some (MPrim n) => aprim n v
    | Some (MAlias _) => abad                     (* alias cycle *)
    | Some (MStruct sa fds _) =>
        match v with
        | VStruct fs =>
            match abs_items (fun t' v' => enc_abs s t' v') fds fs with
            | Some items => astruct sa items
            | None => abad
            end
        | _ => abad
        end
    | Some (MUnion ua vars) =>
        match v with
        | VUnion idx fs =>
            match nth_error vars idx with
            | Some vt =>
                match nth_error s vt with
                | Some (MStruct sa fds _) =>
                    match abs_items (fun t' v' => enc_abs s t' v') fds fs with
                    | Some items => aunion ua idx (astruct sa items)
                    | None => abad
                    end
                | _ => abad
                end
            | None => abad
            end
        | _ => abad
        end
    | Some (MArray c e) =>
        match v with
        | VArr es => aarray c (map (fun x => enc_abs s e x) es)
        | _ => abad
        end
    | Some (MDict e) =>
        match v with
        | VArr es => adict (map (fun x => enc_abs s e x) es)
        | _ => abad
        end
    end.
End Abs.
