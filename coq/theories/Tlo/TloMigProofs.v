(** Soundness of the migration checker (Tlo/TloMigModel.v): a correspondence accepted by [tl2_equiv] makes EVERY
    attribute-only compositional encoder agree on every value of every related pair of types. *)
From Coq Require Import List NArith Bool Lia.
From TLV Require Import Prim.PrimModel Tl1.Tl1Model Tl1.Tl1Proofs Tlo.TloMigModel.
Import ListNotations.
Open Scope N_scope.

Lemma mbeqb_eq a : forall b, mbeqb a b = true -> a = b.
Proof.
  induction a as [|x a IH]; intros [|y b] H; cbn in H; try discriminate; [reflexivity|].
  apply andb_true_iff in H. destruct H as [H1 H2]. apply N.eqb_eq in H1. subst. f_equal. apply IH, H2.
Qed.

Lemma mbeqb_refl a : mbeqb a a = true.
Proof. induction a as [|x a IH]; cbn; [reflexivity|]. rewrite N.eqb_refl, IH. reflexivity. Qed.

Lemma optN_eqb_eq a b : optN_eqb a b = true -> a = b.
Proof. destruct a, b; cbn; intros H; try discriminate; [apply N.eqb_eq in H; subst|]; reflexivity. Qed.

Lemma names_eqb_eq a : forall b, names_eqb a b = true -> a = b.
Proof.
  induction a as [|x a IH]; intros [|y b] H; cbn in H; try discriminate; [reflexivity|].
  apply andb_true_iff in H. destruct H as [H1 H2]. apply mbeqb_eq in H1. subst. f_equal. apply IH, H2.
Qed.

Lemma fattr_eqb_eq a b : fattr_eqb a b = true -> a = b.
Proof.
  destruct a as [n1 b1 i1], b as [n2 b2 i2]. unfold fattr_eqb. cbn. intros H.
  apply andb_true_iff in H. destruct H as [H H3]. apply andb_true_iff in H. destruct H as [H1 H2].
  apply mbeqb_eq in H1. apply optN_eqb_eq in H2. apply Bool.eqb_prop in H3. subst. reflexivity.
Qed.

Lemma sattr_eqb_eq a b : sattr_eqb a b = true -> a = b.
Proof.
  destruct a as [n1 u1 f1], b as [n2 u2 f2]. unfold sattr_eqb. cbn. intros H.
  apply andb_true_iff in H. destruct H as [H H3]. apply andb_true_iff in H. destruct H as [H1 H2].
  apply mbeqb_eq in H1. apply N.eqb_eq in H2. apply optN_eqb_eq in H3. subst. reflexivity.
Qed.

Lemma uattr_eqb_eq a b : uattr_eqb a b = true -> a = b.
Proof.
  destruct a as [e1 m1 n1], b as [e2 m2 n2]. unfold uattr_eqb. cbn. intros H.
  apply andb_true_iff in H. destruct H as [H H3]. apply andb_true_iff in H. destruct H as [H1 H2].
  apply Bool.eqb_prop in H1. apply Bool.eqb_prop in H2. apply names_eqb_eq in H3. subst. reflexivity.
Qed.

Lemma in_phi_In phi p : in_phi phi p = true -> In p phi.
Proof.
  unfold in_phi. intros H. apply existsb_exists in H. destruct H as (q & Hq & He).
  unfold pair_eqb in He. apply andb_true_iff in He. destruct He as [H1 H2].
  apply Nat.eqb_eq in H1. apply Nat.eqb_eq in H2. destruct p, q. cbn in *. subst. exact Hq.
Qed.

Lemma equiv_at A B phi p : tl2_equiv A B phi = true -> in_phi phi p = true -> equiv_pair A B phi p = true.
Proof.
  intros H Hi. unfold tl2_equiv in H. rewrite forallb_forall in H. apply H, in_phi_In, Hi.
Qed.

Section Sound.
  Variable O : Type.
  Variable aprim : bytes -> value -> O.
  Variable astruct : sattr -> list (fattr * option (option O)) -> O.
  Variable aunion : uattr -> nat -> O -> O.
  Variable aarray : option N -> list O -> O.
  Variable adict : list O -> O.
  Variable abad : O.
  Variables A B : mschema.
  Variable phi : list (nat * nat).
  Hypothesis Heq : tl2_equiv A B phi = true.

  Notation EA := (enc_abs O aprim astruct aunion aarray adict abad A).
  Notation EB := (enc_abs O aprim astruct aunion aarray adict abad B).

  Definition agree (v : value) : Prop := forall a b, relb A B phi a b = true -> EA a v = EB b v.

  Lemma items_agree : forall fs fa fb,
    Forall (Popt agree) fs -> fields_equiv A B phi fa fb = true ->
    abs_items O (fun t v => EA t v) fa fs = abs_items O (fun t v => EB t v) fb fs.
  Proof.
    induction fs as [|ov fs IH]; intros fa fb HF He.
    - destruct fa, fb; cbn in He; try discriminate; reflexivity.
    - destruct fa as [|x fa], fb as [|y fb]; cbn in He; try discriminate; [reflexivity|].
      apply andb_true_iff in He. destruct He as [He He3]. apply andb_true_iff in He. destruct He as [He1 He2].
      inversion HF as [|? ? Hov HF']; subst. cbn [abs_items].
      rewrite (IH fa fb HF' He3). apply fattr_eqb_eq in He1. rewrite He1.
      destruct (abs_items O (fun t v => EB t v) fb fs); [|reflexivity].
      destruct ov as [v|]; [|reflexivity].
      destruct (fa_isbit (mf_attr y)) eqn:Eb; [reflexivity|].
      rewrite He1, Eb in He2. cbn [orb] in He2. cbn [Popt] in Hov. rewrite (Hov _ _ He2). reflexivity.
  Qed.

  Lemma variants_nth : forall va vb idx, variants_equiv phi va vb = true ->
    match nth_error va idx, nth_error vb idx with
    | Some x, Some y => in_phi phi (x, y) = true
    | None, None => True
    | _, _ => False
    end.
  Proof.
    induction va as [|x va IH]; intros [|y vb] idx H; cbn in H; try discriminate.
    - destruct idx; exact I.
    - apply andb_true_iff in H. destruct H as [H1 H2]. destruct idx as [|idx]; cbn; [exact H1|apply IH, H2].
  Qed.

  Theorem sound_all : forall v, agree v.
  Proof.
    induction v as [n|str|bv|fs IH|idx fs IH|es IH] using value_ind'; intros a b Hr;
      pose proof (equiv_at A B phi _ Heq Hr) as Hp; unfold equiv_pair in Hp; cbn [fst snd] in Hp;
      cbn [enc_abs];
      destruct (nth_error A (resolve A a)) as [[na|ta|sa fa ra|ua va|ca ea|ea]|];
      destruct (nth_error B (resolve B b)) as [[nb|tb|sb fb rb|ub vb|cb eb|eb]|]; try discriminate Hp;
      try reflexivity.
    all: try (apply mbeqb_eq in Hp; subst; reflexivity).
    - (* VStruct / struct *)
      apply andb_true_iff in Hp. destruct Hp as [Hp _]. apply andb_true_iff in Hp. destruct Hp as [Hs Hf].
      apply sattr_eqb_eq in Hs. subst sb. rewrite (items_agree fs fa fb IH Hf). reflexivity.
    - (* VUnion / union *)
      apply andb_true_iff in Hp. destruct Hp as [Hu Hv]. apply uattr_eqb_eq in Hu. subst ub.
      pose proof (variants_nth va vb idx Hv) as Hn.
      destruct (nth_error va idx) as [x|], (nth_error vb idx) as [y|]; try contradiction; [|reflexivity].
      pose proof (equiv_at A B phi _ Heq Hn) as Hq. unfold equiv_pair in Hq. cbn [fst snd] in Hq.
      destruct (nth_error A x) as [[?|?|sa fa ra|?|? ?|?]|]; destruct (nth_error B y) as [[?|?|sb fb rb|?|? ?|?]|];
        try discriminate Hq; try reflexivity.
      apply andb_true_iff in Hq. destruct Hq as [Hq _]. apply andb_true_iff in Hq. destruct Hq as [Hs Hf].
      apply sattr_eqb_eq in Hs. subst sb. rewrite (items_agree fs fa fb IH Hf). reflexivity.
    - (* VArr / array *)
      apply andb_true_iff in Hp. destruct Hp as [Hc He]. apply optN_eqb_eq in Hc. subst cb. f_equal.
      apply map_ext_in. intros x Hx. rewrite Forall_forall in IH. apply (IH x Hx), He.
    - (* VArr / dict *)
      f_equal. apply map_ext_in. intros x Hx. rewrite Forall_forall in IH. apply (IH x Hx), Hp.
  Qed.
End Sound.

(** [tl2_equiv] accepts => every attribute-only compositional encoder (in particular the TL2 writer and the JSON writer
    seen as such algebras) gives the same result under both schemas, for every value, at every related pair of types *)
Theorem tl2_equiv_sound : forall (O : Type) aprim astruct aunion aarray adict (abad : O) A B phi,
  tl2_equiv A B phi = true ->
  forall v a b, relb A B phi a b = true ->
    enc_abs O aprim astruct aunion aarray adict abad A a v = enc_abs O aprim astruct aunion aarray adict abad B b v.
Proof. intros O ap ast au aa ad ab A B phi H v. exact (sound_all O ap ast au aa ad ab A B phi H v). Qed.

(** ... in particular at the roots the run checks to be covered *)
Corollary tl2_equiv_sound_roots : forall (O : Type) aprim astruct aunion aarray adict (abad : O) A B phi roots,
  tl2_equiv A B phi = true -> roots_covered A B phi roots = true ->
  forall a b, In (a, b) roots -> forall v,
    enc_abs O aprim astruct aunion aarray adict abad A a v = enc_abs O aprim astruct aunion aarray adict abad B b v.
Proof.
  intros O ap ast au aa ad ab A B phi roots H Hr a b Hi v. apply tl2_equiv_sound with (phi := phi); [exact H|].
  unfold roots_covered in Hr. rewrite forallb_forall in Hr. exact (Hr (a, b) Hi).
Qed.

Lemma first_bad_none A B all : forall phi, first_bad A B phi all = None -> forallb (equiv_pair A B all) phi = true.
Proof.
  induction phi as [|p r IH]; cbn; [reflexivity|]. destruct (equiv_pair A B all p); [|discriminate]. exact IH.
Qed.

Lemma all_bad_nil A B phi : all_bad A B phi = [] -> tl2_equiv A B phi = true.
Proof.
  unfold all_bad, tl2_equiv. intros H. apply forallb_forall. intros p Hp.
  destruct (equiv_pair A B phi p) eqn:E; [reflexivity|]. exfalso.
  assert (Hin : In p (filter (fun q => negb (equiv_pair A B phi q)) phi)) by (apply filter_In; rewrite E; auto).
  rewrite H in Hin. destruct Hin.
Qed.
