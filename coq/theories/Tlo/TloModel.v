(** M-tlo -- model of [TL.GenerateTLO] (internal/tlast/tlgen_tlo.go): the TLO description of a TL1 schema.
    Input: the parsed combinators ([kernel.TL1()], dumped from the real parser by the overlay translator
    overlay/internal/tlast/verif_tlo_test.go, op [dump]), reduced to the attributes GenerateTLO reads for the
    parts modelled here.  Output: [tlo_desc] = version/date, the types section (all six fields of tls.type),
    and for every combinator: tag, name, type id, flags, builtin-or-not, number of arguments, the template
    arguments in full, the field names, and the right-hand side (in full for constructors; head only for
    functions).  NOT modelled: the type expression trees of fields (typeRefToTypeExpr, repeatedToTypeExpr),
    field flags / var numbers, children of a function's result expression, and the errors those conversions
    can return.  The TLO container itself is TL1 data under internal/tlast/tls.tl: [tls_ir] is the kernel's
    resolved IR of tls.tl (checked against a fresh dump on every run), decoded with Tl1Model.dec1.
    Executable definitions only. *)
From Coq Require Export List NArith ZArith Bool.
From TLV Require Export Prim.PrimModel Tl1.Tl1Model Gen.TloConsts.
Export ListNotations.
Open Scope N_scope.

(** * Input: combinators as the parser produced them *)
Record targ := mkTarg { ta_name : bytes; ta_nat : bool }.            (* TemplateArgument: FieldName, IsNat *)
Record cfield := mkCField { cf_name : bytes;
                            cf_natvar : bool;                         (* !IsRepeated && FieldType.Type.String() == "#" *)
                            cf_excl : bool }.                         (* Field.Excl *)
Record comb := mkComb {
  c_name : bytes;          (* Construct.Name.String() *)
  c_tag : N;               (* Crc32() *)
  c_fun : bool;            (* IsFunction *)
  c_res : bytes;           (* TypeDecl.Name.String() for constructors, FuncDecl.Type.String() for functions *)
  c_arity : N;             (* len(TypeDecl.Arguments) *)
  c_mods : list bytes;     (* Modifiers[i].Name *)
  c_targs : list targ;     (* TemplateArguments *)
  c_fields : list cfield   (* Fields *)
}.

(** * Output *)
Record ttype := mkTType { t_name : N; t_id : bytes; t_cnum : N; t_flags : N; t_arity : N; t_ptype : N }.
(** int32/int64 fields are kept as their 32/64-bit patterns *)

Record targ_out := mkTargOut { ao_id : bytes; ao_flags : N; ao_var : N; ao_tname : N }.
(** tls.arg of a template argument: Id, Flags, VarNum, Type = TypeExpr0{Name: ao_tname} (no flags, no children) *)

Inductive rhs :=
| RVar (n : N)                                        (* tls.typeVar var_num:n flags:0 *)
| RExpr (name : N) (children : option (list (bool * N))).
(** tls.typeExpr name flags:0; children = Some l: exactly the variables l ((true,i) = natVar dif:0 var_num:i,
    (false,i) = typeVar var_num:i flags:0); None: children not modelled *)

Record centry := mkCEntry {
  ce_name : N; ce_id : bytes; ce_tname : N; ce_flags : N;
  ce_builtin : bool;               (* Left = combinatorLeftBuiltin *)
  ce_argsnum : N;
  ce_targs : list targ_out;        (* the first arguments *)
  ce_fields : list bytes;          (* ids of the remaining arguments *)
  ce_right : rhs }.

Record tlo_desc := mkDesc { d_version : N; d_date : N; d_types : list ttype;
                            d_constructors : list centry; d_functions : list centry }.

(** * Helpers *)
Definition w32 (n : N) : N := n mod 4294967296.

Fixpoint beqb (a b : bytes) : bool :=
  match a, b with
  | [], [] => true
  | x :: a', y :: b' => (x =? y) && beqb a' b'
  | _, _ => false
  end.

(** names that occur as literals in tlgen_tlo.go (checked against string literals in TloProofs.v) *)
Definition n_hash : bytes := [35].                                   (* "#" *)
Definition n_Type : bytes := [84; 121; 112; 101].                    (* "Type" *)
Definition n_underscore : bytes := [95].                             (* "_" *)
Definition n_Int : bytes := [73; 110; 116].
Definition n_Long : bytes := [76; 111; 110; 103].
Definition n_Float : bytes := [70; 108; 111; 97; 116].
Definition n_Double : bytes := [68; 111; 117; 98; 108; 101].
Definition n_String : bytes := [83; 116; 114; 105; 110; 103].
Definition n_int : bytes := [105; 110; 116].
Definition n_long : bytes := [108; 111; 110; 103].
Definition n_float : bytes := [102; 108; 111; 97; 116].
Definition n_double : bytes := [100; 111; 117; 98; 108; 101].
Definition n_string : bytes := [115; 116; 114; 105; 110; 103].
Definition n_read : bytes := [114; 101; 97; 100].
Definition n_write : bytes := [119; 114; 105; 116; 101].
Definition n_readwrite : bytes := [114; 101; 97; 100; 119; 114; 105; 116; 101].
Definition n_internal : bytes := [105; 110; 116; 101; 114; 110; 97; 108].
Definition n_kphp : bytes := [107; 112; 104; 112].

(** builtinCombinators: name -> tag (the int32 constants as 32-bit patterns) *)
Definition builtin_tag (n : bytes) : option N :=
  if beqb n n_int then Some (4294967296 - tlo_intTadInt32_neg)
  else if beqb n n_long then Some tlo_longTagInt32
  else if beqb n n_float then Some (4294967296 - tlo_floatTagInt32_neg)
  else if beqb n n_double then Some tlo_doubleTagInt32
  else if beqb n n_string then Some (4294967296 - tlo_stringTagInt32_neg)
  else None.

Definition is_builtin (c : comb) : bool :=
  match builtin_tag (c_name c) with Some _ => true | None => false end.

(** * First loop: the types table (tlsTypes + typeDeclNames, in insertion order) *)
Definition bare_type_name (n : bytes) : bool :=
  beqb n n_Int || beqb n n_Long || beqb n n_Float || beqb n n_Double || beqb n n_String.

(** ParamsType |= 1 << i (int64: the shift yields 0 from i = 64 on) *)
Fixpoint ptype_bits (i : N) (l : list targ) : N :=
  match l with
  | [] => 0
  | a :: r => N.lor (if ta_nat a && (i <? 64) then N.shiftl 1 i else 0) (ptype_bits (i + 1) r)
  end.

Definition new_type (c : comb) : ttype :=
  mkTType 0 (c_res c) 0 (if bare_type_name (c_res c) then 1 else 0) (w32 (c_arity c)) (ptype_bits 0 (c_targs c)).

Definition bump (c : comb) (t : ttype) : ttype :=
  let f1 := if existsb cf_excl (c_fields c) then N.lor (t_flags t) 262144 else t_flags t in      (* 1 << 18 *)
  let f2 := if beqb (c_name c) n_underscore then N.lor f1 33554432 else f1 in                     (* 1 << 25 *)
  let cn := w32 (t_cnum t + 1) in
  let f3 := if (1 <? sgn32 cn)%Z then N.lor f2 16 else f2 in                                      (* 1 << 4 *)
  mkTType (N.lxor (t_name t) (w32 (c_tag c))) (t_id t) cn f3 (t_arity t) (t_ptype t).

Definition has_type (tbl : list ttype) (n : bytes) : bool := existsb (fun t => beqb (t_id t) n) tbl.

Definition upd_type (tbl : list ttype) (c : comb) : list ttype :=
  if c_fun c then tbl else
  let tbl1 := if has_type tbl (c_res c) then tbl else tbl ++ [new_type c] in
  map (fun t => if beqb (t_id t) (c_res c) then bump c t else t) tbl1.

Definition seed_types : list ttype :=
  [ mkTType tlo_natTag n_hash 0 0 0 0; mkTType tlo_typeTag n_Type 0 0 0 0 ].

Definition types_table (cs : list comb) : list ttype := fold_left upd_type cs seed_types.

Definition find_type (tbl : list ttype) (n : bytes) : option ttype := find (fun t => beqb (t_id t) n) tbl.

Definition type_name_of (tbl : list ttype) (n : bytes) : N :=
  match find_type tbl n with Some t => t_name t | None => 0 end.

(** * sort.Strings / sort.Slice by Id: stable insertion sort on the byte order of Go strings *)
Section Sort.
  Context {A : Type}.
  Variable key : A -> bytes.
  Fixpoint insert_by (x : A) (l : list A) : list A :=
    match l with
    | [] => [x]
    | y :: r => if bytes_lt (key y) (key x) then y :: insert_by x r else x :: l
    end.
  Definition sort_by (l : list A) : list A := fold_right insert_by [] l.
End Sort.

(** * Second loop: one entry per combinator *)
Definition mod_flag (m : bytes) : N :=
  if beqb m n_read then 1 else if beqb m n_write then 2 else if beqb m n_readwrite then 3
  else if beqb m n_internal then 4 else if beqb m n_kphp then 8 else 0.
Definition mods_flags (l : list bytes) : N := fold_left (fun a m => N.lor a (mod_flag m)) l 0.

Fixpoint targs_out (i : N) (l : list targ) : list targ_out :=
  match l with
  | [] => []
  | a :: r => mkTargOut (ta_name a) 131075 (w32 i) (if ta_nat a then tlo_natTag else tlo_typeTag) :: targs_out (i + 1) r
  end.                                   (* 131075 = 1<<17 | 1<<0 | 1<<1 *)

(** paramScope after the loop over template arguments and fields: names in append order *)
Definition scope_names (c : comb) : list bytes :=
  map ta_name (c_targs c) ++ map cf_name (filter cf_natvar (c_fields c)).

(** paramScope.find by name: the LAST match; result = its absolute index *)
Fixpoint find_last (n : bytes) (l : list bytes) (i : N) (acc : option N) : option N :=
  match l with
  | [] => acc
  | x :: r => find_last n r (i + 1) (if beqb x n then Some i else acc)
  end.

Fixpoint var_children (i : N) (l : list targ) : list (bool * N) :=
  match l with
  | [] => []
  | a :: r => (ta_nat a, w32 i) :: var_children (i + 1) r
  end.

(** constructors index TemplateArguments[i] for every i < len(TypeDecl.Arguments): a run-time panic when there are
    fewer template arguments (the parser never produces that) *)
Definition entry_ok (c : comb) : bool :=
  is_builtin c || c_fun c || (N.to_nat (c_arity c) <=? length (c_targs c))%nat.

Definition entry (tbl : list ttype) (c : comb) : centry :=
  match builtin_tag (c_name c) with
  | Some tg => mkCEntry tg (c_name c) tg 0 true 0 [] [] (RExpr tg (Some []))
  | None =>
      let tn := type_name_of tbl (c_res c) in
      let right :=
        if c_fun c then
          match find_last (c_res c) (scope_names c) 0 None with
          | Some i => RVar (w32 i)
          | None => RExpr tn None
          end
        else RExpr tn (Some (var_children 0 (firstn (N.to_nat (c_arity c)) (c_targs c)))) in
      mkCEntry (w32 (c_tag c)) (c_name c) tn (mods_flags (c_mods c)) false
               (w32 (lenN (c_targs c) + lenN (c_fields c)))
               (targs_out 0 (c_targs c)) (map cf_name (c_fields c)) right
  end.

Definition goes_ctor (c : comb) : bool := is_builtin c || negb (c_fun c).

(** "prevent id collision": no two listed types may have the same Name *)
Fixpoint names_distinct (l : list ttype) : bool :=
  match l with
  | [] => true
  | t :: r => negb (existsb (fun u => t_name u =? t_name t) r) && names_distinct r
  end.

(** [now] = time.Now().Unix() (used for Date only when version = 0) *)
Definition tlo (version now : N) (cs : list comb) : option tlo_desc :=
  let tbl := types_table cs in
  let types := sort_by t_id tbl in
  if forallb entry_ok cs && names_distinct types then
    Some (mkDesc (w32 version) (if version =? 0 then w32 now else w32 version) types
                 (map (entry tbl) (filter goes_ctor cs))
                 (sort_by ce_id (map (entry tbl) (filter (fun c => negb (goes_ctor c)) cs))))
  else None.

(** * The TLO container: kernel IR of internal/tlast/tls.tl (translator: overlay/cmd/verifdump; this constant is
    compared with a fresh dump on every run by lib/checks/C26.py).  [bool] has no TL1 constructors in tls.tl and is
    not reachable: PNoTL1. *)
Definition tls_ir : schema :=
  [ TPrim PNat;  (* 0 uint32 *)
    TPrim PInt;  (* 1 int32 *)
    TPrim PFloat;  (* 2 float32 *)
    TPrim PNoTL1;  (* 3 uint64 *)
    TPrim PLong;  (* 4 int64 *)
    TPrim PDouble;  (* 5 float64 *)
    TPrim PNoTL1;  (* 6 byte *)
    TPrim PNoTL1;  (* 7 bool *)
    TPrim PNoTL1;  (* 8 bit *)
    TPrim PString;  (* 9 string *)
    TUnion [23%nat; 24%nat; 25%nat];  (* 10 tls.Schema *)
    TArray ATupleDyn (mkField 12 false None []);  (* 11 [*]+tls.type *)
    TStruct 317408134 [mkField 1 true None []; mkField 9 true None []; mkField 1 true None []; mkField 1 true None []; mkField 1 true None []; mkField 4 true None []];  (* 12 tls.type *)
    TArray ATupleDyn (mkField 14 false None []);  (* 13 [*]tls.Combinator *)
    TUnion [26%nat; 27%nat];  (* 14 tls.Combinator *)
    TUnion [28%nat; 29%nat];  (* 15 tls.CombinatorLeft *)
    TArray ATupleDyn (mkField 17 false None []);  (* 16 [*]+tls.arg *)
    TStruct 702539291 [mkField 9 true None []; mkField 0 true None []; mkField 1 true (Some (NField 1, 1)) []; mkField 1 true (Some (NField 1, 2)) []; mkField 1 true (Some (NField 1, 2)) []; mkField 18 false None []];  (* 17 tls.arg *)
    TUnion [30%nat; 31%nat; 32%nat];  (* 18 tls.TypeExpr *)
    TUnion [33%nat; 34%nat];  (* 19 tls.NatExpr *)
    TArray ATupleDyn (mkField 21 false None []);  (* 20 [*]tls.Expr *)
    TUnion [35%nat; 36%nat];  (* 21 tls.Expr *)
    TStruct 738607986 [mkField 18 false None []];  (* 22 tls.combinatorRight *)
    TStruct 976198626 [mkField 1 true None []; mkField 1 true None []; mkField 0 true None []; mkField 11 true None [NField 2]; mkField 0 true None []; mkField 13 true None [NField 4]; mkField 0 true None []; mkField 13 true None [NField 6]];  (* 23 tls.schema_v2 *)
    TStruct 3836239947 [mkField 1 true None []; mkField 1 true None []; mkField 0 true None []; mkField 11 true None [NField 2]; mkField 0 true None []; mkField 13 true None [NField 4]; mkField 0 true None []; mkField 13 true None [NField 6]];  (* 24 tls.schema_v3 *)
    TStruct 2427226327 [mkField 1 true None []; mkField 1 true None []; mkField 0 true None []; mkField 11 true None [NField 2]; mkField 0 true None []; mkField 13 true None [NField 4]; mkField 0 true None []; mkField 13 true None [NField 6]];  (* 25 tls.schema_v4 *)
    TStruct 1544167125 [mkField 1 true None []; mkField 9 true None []; mkField 1 true None []; mkField 15 false None []; mkField 22 false None []];  (* 26 tls.combinator *)
    TStruct 3910570709 [mkField 1 true None []; mkField 9 true None []; mkField 1 true None []; mkField 15 false None []; mkField 22 false None []; mkField 1 true None []];  (* 27 tls.combinator_v4 *)
    TStruct 3441500003 [];  (* 28 tls.combinatorLeftBuiltin *)
    TStruct 1276298969 [mkField 0 true None []; mkField 16 true None [NField 0]];  (* 29 tls.combinatorLeft *)
    TStruct 21155502 [mkField 1 true None []; mkField 1 true None []];  (* 30 tls.typeVar *)
    TStruct 3657113822 [mkField 19 false None []; mkField 0 true None []; mkField 16 true None [NField 1]];  (* 31 tls.array *)
    TStruct 3246800136 [mkField 1 true None []; mkField 1 true None []; mkField 0 true None []; mkField 20 true None [NField 2]];  (* 32 tls.typeExpr *)
    TStruct 2364096689 [mkField 1 true None []];  (* 33 tls.natConst *)
    TStruct 1317672176 [mkField 1 true None []; mkField 1 true None []];  (* 34 tls.natVar *)
    TStruct 3972651640 [mkField 18 false None []];  (* 35 tls.exprType *)
    TStruct 3702823896 [mkField 19 false None []] ].  (* 36 tls.exprNat *)

Definition tls_schema_type : nat := 10.   (* tls.Schema (boxed union): what gentlo writes with WriteTL1Boxed *)
