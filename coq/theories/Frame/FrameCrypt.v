(** The encrypted layer of M9 [Frame]: CBC over an abstract block cipher, the cryptoReader that decrypts
    whole blocks of an arbitrarily chunked stream, and the round trip through both. *)
From Coq Require Import ZArith Lia ZifyN ZifyNat ZifyBool.
From TLV Require Import Prim.PrimModel Prim.PrimProofs Frame.FrameModel Frame.FrameCrc Frame.FrameProofs.
Ltac Zify.zify_post_hook ::= Z.div_mod_to_equations.
Open Scope N_scope.

Definition block_ok (b : bytes) : Prop := length b = 16%nat /\ bytes_ok b.

(** * cutting into blocks *)
Lemma to_blocks_concat bl : forall tl fuel,
  Forall (fun b => length b = 16%nat) bl -> lenN tl < blockSize ->
  (length (concat bl ++ tl) <= fuel)%nat ->
  to_blocks fuel (concat bl ++ tl) = (bl, tl).
Proof.
  induction bl as [|b r IH]; intros tl fuel Hb Ht Hf; cbn [concat app].
  - destruct fuel as [|f]; cbn [to_blocks]; [reflexivity|].
    assert (split_at tl blockSize = None) as -> by (apply split_at_none; exact Ht). reflexivity.
  - inversion Hb as [|? ? Hb1 Hb2]; subst.
    destruct fuel as [|f]; [cbn [concat] in Hf; rewrite !app_length in Hf; lia|]. cbn [to_blocks].
    rewrite <- app_assoc. rewrite split_at_app_n by (unfold lenN, blockSize; rewrite Hb1; reflexivity).
    rewrite IH; [reflexivity|assumption|assumption|].
    cbn [concat] in Hf. rewrite <- app_assoc, app_length in Hf. lia.
Qed.

Lemma to_blocks_inv fuel : forall x bl tl, (length x <= fuel)%nat -> to_blocks fuel x = (bl, tl) ->
  x = concat bl ++ tl /\ Forall (fun b => length b = 16%nat) bl /\ lenN tl < blockSize.
Proof.
  induction fuel as [|f IH]; intros x bl tl Hf H; cbn [to_blocks] in H.
  - destruct x; [|cbn in Hf; lia]. injection H as <- <-. repeat split; try constructor; reflexivity.
  - destruct (split_at x blockSize) as [[b t]|] eqn:E.
    + destruct (to_blocks f t) as [bl' tl'] eqn:E2. injection H as <- <-.
      apply split_at_spec in E. destruct E as [-> Hl].
      destruct (IH t bl' tl') as (-> & HF & Ht); [|exact E2|].
      * rewrite app_length in Hf. unfold lenN, blockSize in Hl. lia.
      * cbn [concat]. rewrite <- app_assoc. repeat split; [|exact Ht].
        constructor; [unfold lenN, blockSize in Hl; lia|exact HF].
    + injection H as <- <-. apply split_at_none in E. repeat split; [constructor|exact E].
Qed.

Lemma blocks_of_concat bl tl :
  Forall (fun b => length b = 16%nat) bl -> lenN tl < blockSize -> blocks_of (concat bl ++ tl) = (bl, tl).
Proof. intros. unfold blocks_of. apply to_blocks_concat; auto. Qed.

Lemma blocks_of_inv x bl tl : blocks_of x = (bl, tl) ->
  x = concat bl ++ tl /\ Forall (fun b => length b = 16%nat) bl /\ lenN tl < blockSize.
Proof. unfold blocks_of. apply to_blocks_inv. lia. Qed.

Lemma blocks_of_app x y bl tl bl2 tl2 :
  blocks_of x = (bl, tl) -> blocks_of (tl ++ y) = (bl2, tl2) -> blocks_of (x ++ y) = (bl ++ bl2, tl2).
Proof.
  intros H1 H2. apply blocks_of_inv in H1. destruct H1 as (-> & F1 & _).
  apply blocks_of_inv in H2. destruct H2 as (E & F2 & T2).
  rewrite <- app_assoc, E, app_assoc, <- concat_app.
  apply blocks_of_concat; [apply Forall_app; split; assumption|exact T2].
Qed.

Lemma blocks_of_aligned x : lenN x mod blockSize = 0 -> exists bl, blocks_of x = (bl, []) /\ concat bl = x.
Proof.
  intros H. destruct (blocks_of x) as [bl tl] eqn:E. pose proof (blocks_of_inv _ _ _ E) as (Ex & F & T).
  assert (lenN (concat bl) mod blockSize = 0).
  { clear - F. induction bl as [|b r IH]; [reflexivity|]. inversion F; subst. cbn [concat].
    rewrite lenN_app. unfold lenN at 1. rewrite H1. specialize (IH H2). unfold blockSize in *. lia. }
  assert (tl = []).
  { rewrite Ex, lenN_app in H. unfold blockSize in *. destruct tl; [reflexivity|]. rewrite lenN_cons in *. lia. }
  subst tl. exists bl. split; [reflexivity|]. rewrite Ex, app_nil_r. reflexivity.
Qed.

(** * CBC *)
Lemma xor_bytes_length a b : length a = length b -> length (xor_bytes a b) = length a.
Proof. intros H. unfold xor_bytes. rewrite map_length, combine_length. lia. Qed.

Lemma xor_bytes_ok a b : bytes_ok a -> bytes_ok b -> bytes_ok (xor_bytes a b).
Proof.
  revert b; induction a as [|x a IH]; intros b Ha Hb; [constructor|].
  destruct b as [|y b]; [constructor|]. apply bytes_ok_cons_inv in Ha, Hb.
  cbn. constructor; [|apply IH; tauto].
  unfold byte_ok in *. change 256 with (2 ^ 8). apply lxor_lt_pow2; tauto.
Qed.

Lemma xor_bytes_involutive a b : length a = length b -> xor_bytes (xor_bytes a b) b = a.
Proof.
  revert b; induction a as [|x a IH]; intros b H; destruct b as [|y b]; try discriminate; [reflexivity|].
  cbn in *. rewrite N.lxor_assoc, N.lxor_nilpotent, N.lxor_0_r. f_equal. apply IH. lia.
Qed.

Lemma last_cons {A} (l : list A) : forall x d, last (x :: l) d = last l x.
Proof.
  induction l as [|y l IH]; intros x d; [reflexivity|].
  change (last (x :: y :: l) d) with (last (y :: l) d). rewrite !IH. reflexivity.
Qed.

Section CbcProofs.
  Variables E D : bytes -> bytes.
  Hypothesis E_block : forall x, block_ok x -> block_ok (E x).
  Hypothesis DE : forall x, block_ok x -> D (E x) = x.

  Lemma cbc_dec_enc bl : forall iv, block_ok iv -> Forall block_ok bl -> cbc_dec D iv (cbc_enc E iv bl) = bl.
  Proof.
    induction bl as [|p r IH]; intros iv Hiv Hbl; [reflexivity|].
    inversion Hbl as [|? ? Hp Hr]; subst. cbn [cbc_enc cbc_dec].
    assert (Hx : block_ok (xor_bytes p iv)).
    { destruct Hp, Hiv. split; [rewrite xor_bytes_length; lia|apply xor_bytes_ok; assumption]. }
    rewrite DE by exact Hx. rewrite xor_bytes_involutive by (destruct Hp, Hiv; lia).
    f_equal. apply IH; [apply E_block; exact Hx|exact Hr].
  Qed.

  Lemma cbc_enc_blocks bl : forall iv, block_ok iv -> Forall block_ok bl -> Forall block_ok (cbc_enc E iv bl).
  Proof.
    induction bl as [|p r IH]; intros iv Hiv Hbl; [constructor|].
    inversion Hbl as [|? ? Hp Hr]; subst. cbn [cbc_enc].
    assert (Hx : block_ok (xor_bytes p iv)).
    { destruct Hp, Hiv. split; [rewrite xor_bytes_length; lia|apply xor_bytes_ok; assumption]. }
    constructor; [apply E_block; exact Hx|]. apply IH; [apply E_block; exact Hx|exact Hr].
  Qed.

  Lemma cbc_dec_app bl1 : forall iv bl2,
    cbc_dec D iv (bl1 ++ bl2) = cbc_dec D iv bl1 ++ cbc_dec D (last_block iv bl1) bl2.
  Proof.
    induction bl1 as [|ct r IH]; intros iv bl2; [reflexivity|].
    cbn [app cbc_dec]. rewrite IH. f_equal. f_equal. unfold last_block. rewrite last_cons. reflexivity.
  Qed.

  Lemma blocks_split_ok x bl tl : bytes_ok x -> blocks_of x = (bl, tl) -> Forall block_ok bl.
  Proof.
    intros Hx H. apply blocks_of_inv in H. destruct H as (-> & F & _).
    apply Forall_app in Hx. destruct Hx as [Hx _]. clear tl.
    induction bl as [|b r IH]; [constructor|]. inversion F; subst. cbn [concat] in Hx.
    apply Forall_app in Hx. destruct Hx. constructor; [split; assumption|apply IH; assumption].
  Qed.

  (** a receiver that has the whole wire gets back the whole blocks of the plaintext stream *)
  Theorem wire_dec_enc iv plain : block_ok iv -> bytes_ok plain ->
    wire_dec D iv (wire_enc E iv plain) = concat (fst (blocks_of plain)).
  Proof.
    intros Hiv Hp. unfold wire_dec, wire_enc.
    destruct (blocks_of plain) as [bl tl] eqn:Eb. cbn [fst].
    pose proof (blocks_split_ok _ _ _ Hp Eb) as Hbl.
    pose proof (cbc_enc_blocks bl iv Hiv Hbl) as Hct.
    rewrite <- (app_nil_r (concat (cbc_enc E iv bl))).
    rewrite blocks_of_concat.
    - cbn [fst]. rewrite cbc_dec_enc; [reflexivity|assumption|assumption].
    - eapply Forall_impl; [|exact Hct]. intros b [H _]. exact H.
    - reflexivity.
  Qed.

  (** * the decrypting buffered reader sees the decrypted stream, however the wire is chunked *)
  Definition csrc_rel (s : csrc) (bs : bytes) : Prop :=
    lenN (cs_tail s) < blockSize /\
    bs = cs_plain s ++ concat (cbc_dec D (cs_iv s) (fst (blocks_of (cs_tail s ++ concat (cs_chunks s))))).

  Lemma take_cchunks_flat chunks : forall n plain tail iv,
    lenN tail < blockSize ->
    tres_rel csrc_rel (take_cchunks D n plain tail iv chunks)
             (take_flat n (plain ++ concat (cbc_dec D iv (fst (blocks_of (tail ++ concat chunks)))))).
  Proof.
    induction chunks as [|ch cs IH]; intros n plain tail iv Ht; cbn [take_cchunks concat].
    - rewrite app_nil_r.
      assert (blocks_of tail = ([], tail)) as Eb.
      { rewrite <- (app_nil_l tail) at 1. change (@nil N) with (concat (@nil bytes)) at 1.
        apply blocks_of_concat; [constructor|exact Ht]. }
      rewrite Eb. cbn [fst cbc_dec concat]. rewrite app_nil_r.
      unfold take_flat. destruct (split_at plain n) as [[a t]|] eqn:Es.
      + cbn. split; [reflexivity|]. split; [exact Ht|]. cbn [cs_plain cs_tail cs_iv cs_chunks concat].
        rewrite app_nil_r, Eb. cbn. rewrite app_nil_r. reflexivity.
      + destruct plain; exact I.
    - destruct (split_at plain n) as [[a t]|] eqn:Es.
      + unfold take_flat. rewrite (split_at_app_some _ _ _ _ _ Es). cbn. split; [reflexivity|].
        split; [exact Ht|]. reflexivity.
      + destruct (blocks_of (tail ++ ch)) as [bl tl] eqn:Eb.
        destruct (blocks_of (tl ++ concat cs)) as [bl2 tl2] eqn:Eb2.
        pose proof (blocks_of_app _ (concat cs) _ _ _ _ Eb Eb2) as Eb3.
        rewrite <- app_assoc in Eb3. rewrite Eb3. cbn [fst].
        rewrite cbc_dec_app, concat_app, app_assoc.
        apply blocks_of_inv in Eb. destruct Eb as (_ & _ & Htl).
        specialize (IH n (plain ++ concat (cbc_dec D iv bl)) tl (last_block iv bl) Htl).
        rewrite Eb2 in IH. cbn [fst] in IH. exact IH.
  Qed.

  Theorem cchunking_irrelevant c seq iv chunks :
    read_cchunked D c seq iv chunks
    = read_all bytes take_flat c (S (length (concat chunks))) seq (wire_dec D iv (concat chunks)).
  Proof.
    unfold read_cchunked, wire_dec.
    apply (read_all_sim (take_cchunked D) take_flat csrc_rel).
    - intros n [plain tail iv' chs] bs [Ht ->]. cbn [cs_plain cs_tail cs_iv cs_chunks] in *.
      unfold take_cchunked. cbn [cs_plain cs_tail cs_iv cs_chunks]. apply take_cchunks_flat. exact Ht.
    - split; [reflexivity|]. reflexivity.
  Qed.
End CbcProofs.

(** * round trip through encryption, for every chunking of the cipher stream *)
Section EncRoundTrip.
  Variables E D : bytes -> bytes.
  Hypothesis E_block : forall x, block_ok x -> block_ok (E x).
  Hypothesis DE : forall x, block_ok x -> D (E x) = x.

  Lemma concat_blocks_length (bl : list bytes) :
    Forall (fun b => length b = 16%nat) bl -> length (concat bl) = (16 * length bl)%nat.
  Proof.
    induction 1 as [|b r Hb Hr IH]; [reflexivity|]. cbn [concat length]. rewrite app_length, IH, Hb. lia.
  Qed.

  Lemma cbc_enc_length bl : forall iv, length (cbc_enc E iv bl) = length bl.
  Proof. induction bl as [|p r IH]; intros iv; cbn [cbc_enc length]; [reflexivity|]. rewrite IH. reflexivity. Qed.

  Theorem enc_roundtrip c seq pos ops iv chunks :
    block_ok iv -> cfg_ok c -> c_enc c = true -> (startSeq < seq)%Z -> pos mod blockSize = 0 ->
    ops_ok c seq ops ->
    concat chunks = wire_enc E iv (frames c seq pos (ops ++ [WFlush])) ->
    read_cchunked D c seq iv chunks = (packets_of ops, VEof).
  Proof.
    intros Hiv Hc He Hseq Hpos Hok Hw.
    set (plain := frames c seq pos (ops ++ [WFlush])) in *.
    assert (Hok' : ops_ok c seq (ops ++ [WFlush])) by (apply ops_ok_app; [exact Hok|exact I]).
    assert (Hpl : bytes_ok plain) by (apply frames_ok; exact Hok').
    assert (Hp4 : pos mod 4 = 0) by (unfold blockSize in Hpos; lia).
    assert (Hal : lenN plain mod blockSize = 0).
    { pose proof (frames_flushed_aligned c seq pos ops He Hp4) as H. fold plain in H. unfold blockSize in *. lia. }
    destruct (blocks_of_aligned plain Hal) as (bl & Eb & Ec).
    rewrite (cchunking_irrelevant D c seq iv chunks), Hw.
    rewrite (wire_dec_enc E D E_block DE iv plain Hiv Hpl), Eb. cbn [fst]. rewrite Ec.
    assert (Hlen : length (wire_enc E iv plain) = length plain).
    { unfold wire_enc. rewrite Eb. cbn [fst].
      pose proof (blocks_split_ok _ _ _ Hpl Eb) as Hbl.
      pose proof (cbc_enc_blocks E D E_block DE bl iv Hiv Hbl) as Hct.
      rewrite concat_blocks_length by (eapply Forall_impl; [|exact Hct]; intros b [H _]; exact H).
      rewrite cbc_enc_length, <- Ec.
      rewrite concat_blocks_length by (eapply Forall_impl; [|exact Hbl]; intros b [H _]; exact H). reflexivity. }
    rewrite Hlen. unfold plain.
    rewrite (frames_roundtrip_fuel c seq pos (ops ++ [WFlush]) (S (length (frames c seq pos (ops ++ [WFlush])))) Hc).
    - rewrite packets_of_app. cbn [packets_of]. rewrite app_nil_r. reflexivity.
    - lia.
    - intros; lia.
    - intros _. exact Hp4.
    - exact Hok'.
    - pose proof (frames_length_ge c (ops ++ [WFlush]) seq pos). lia.
  Qed.
End EncRoundTrip.
