(** M9b [FrameHdr] -- RPC request/response headers of pkg/rpc/rpc_format.go:
    preparePacket / ParseInvokeReq and prepareResponseBody / parseResponseExtra, with the TL1
    codecs of the extras (generated code under pkg/rpc/internal/gen/internal: rpcInvokeReqExtra.go,
    rpcReqResultExtra.go, tracing.traceContext.go, exactlyOnce.persistentRequest.go, dict_field.go,
    string.go, long.go, net.pid.go).  Both body formats: the "TL2 form" of a request/response is
    the same header followed by the rpcTL2Marker tag.
    Integers are their unsigned wire patterns (int32/int64/double as uint32/uint64 bit patterns);
    Go maps are association lists sorted by key (the order WriteTL1 emits them in).
    Executable definitions only; proofs live in FrameHdrProofs.v. *)
From Coq Require Export List NArith Bool.
From TLV Require Export Prim.PrimModel Gen.FrameConsts.
Export ListNotations.
Open Scope N_scope.

Notation "'do' ( x , r ) <- e ; k" :=
  (match e with Ok (x, r) => k | Eof => Eof | Reject => Reject end)
  (at level 200, x name, r name, e at level 100, k at level 200).

Definition bit (f i : N) : bool := N.testbit f i.

(** basictl.StringWrite; lengths above maxHugeStringLen (2^56-1) panic in Go and are excluded by the
    well-formedness premises of the theorems *)
Definition str_w (s : bytes) : bytes := match str1_w s with Some b => b | None => [] end.

Definition opt_w (b : bool) (bs : bytes) : bytes := if b then bs else [].
Definition opt_r {A} (b : bool) (rd : bytes -> res (A * bytes)) (dflt : A) (r : bytes) : res (A * bytes) :=
  if b then rd r else Ok (dflt, r).

(** vectors: BuiltinVector*ReadTL1 / WriteTL1 *)
Fixpoint read_n {A} (rd : bytes -> res (A * bytes)) (k : nat) (r : bytes) : res (list A * bytes) :=
  match k with
  | O => Ok ([], r)
  | S k' => do (a, r1) <- rd r; do (l, r2) <- read_n rd k' r1; Ok (a :: l, r2)
  end.
Definition vec_w {A} (w : A -> bytes) (l : list A) : bytes := nat_w (lenN l) ++ concat (map w l).
Definition vec_r {A} (rd : bytes -> res (A * bytes)) (r : bytes) : res (list A * bytes) :=
  do (n, r1) <- nat_r r;
  if check_length_sanity r1 n 4 then read_n rd (N.to_nat n) r1 else Eof.

(** maps: BuiltinDictString*ReadTL1 / WriteTL1 (keys written in sort.Strings order) *)
Fixpoint bytes_cmp (a b : bytes) : comparison :=
  match a, b with
  | [], [] => Eq
  | [], _ => Lt
  | _, [] => Gt
  | x :: a', y :: b' => match x ?= y with Eq => bytes_cmp a' b' | c => c end
  end.
Fixpoint dict_set {V} (k : bytes) (v : V) (m : list (bytes * V)) : list (bytes * V) :=
  match m with
  | [] => [(k, v)]
  | (k', v') :: r =>
      match bytes_cmp k k' with
      | Lt => (k, v) :: m
      | Eq => (k, v) :: r
      | Gt => (k', v') :: dict_set k v r
      end
  end.
Definition dict_of {V} (l : list (bytes * V)) : list (bytes * V) :=
  fold_left (fun m kv => dict_set (fst kv) (snd kv) m) l [].
Definition field_w {V} (wv : V -> bytes) (kv : bytes * V) : bytes := str_w (fst kv) ++ wv (snd kv).
Definition field_r {V} (rv : bytes -> res (V * bytes)) (r : bytes) : res ((bytes * V) * bytes) :=
  do (k, r1) <- str1_r r; do (v, r2) <- rv r1; Ok ((k, v), r2).
Definition dict_w {V} (wv : V -> bytes) (m : list (bytes * V)) : bytes := vec_w (field_w wv) m.
Definition dict_r {V} (rv : bytes -> res (V * bytes)) (r : bytes) : res (list (bytes * V) * bytes) :=
  do (l, r1) <- vec_r (field_r rv) r; Ok (dict_of l, r1).

(** * Request extra: rpcInvokeReqExtra *)
Record uuid := { u_lo : N; u_hi : N }.
Definition uuid0 : uuid := {| u_lo := 0; u_hi := 0 |}.
Definition uuid_w (u : uuid) : bytes := long_w (u_lo u) ++ long_w (u_hi u).
Definition uuid_r (r : bytes) : res (uuid * bytes) :=
  do (lo, r1) <- long_r r; do (hi, r2) <- long_r r1; Ok ({| u_lo := lo; u_hi := hi |}, r2).

(** exactlyOnce.PersistentRequest (union, boxed) *)
Inductive persistent := PPrepare (q : uuid) | PCommit (q s : uuid).
Definition persistent0 : persistent := PPrepare uuid0.
Definition persistent_w (p : persistent) : bytes :=
  match p with
  | PPrepare q => nat_w tag_exactlyOncePrepareRequest ++ uuid_w q
  | PCommit q s => nat_w tag_exactlyOnceCommitRequest ++ uuid_w q ++ uuid_w s
  end.
Definition persistent_r (r : bytes) : res (persistent * bytes) :=
  do (t, r1) <- nat_r r;
  if t =? tag_exactlyOncePrepareRequest then do (q, r2) <- uuid_r r1; Ok (PPrepare q, r2)
  else if t =? tag_exactlyOnceCommitRequest then
    do (q, r2) <- uuid_r r1; do (s, r3) <- uuid_r r2; Ok (PCommit q s, r3)
  else Reject.

(** tracing.traceContext (bare) *)
Record trace_ctx := { tc_mask : N; tc_id : uuid; tc_parent : N; tc_source : bytes }.
Definition trace0 : trace_ctx := {| tc_mask := 0; tc_id := uuid0; tc_parent := 0; tc_source := [] |}.
Definition trace_w (t : trace_ctx) : bytes :=
  nat_w (tc_mask t) ++ uuid_w (tc_id t)
  ++ opt_w (bit (tc_mask t) 2) (long_w (tc_parent t))
  ++ opt_w (bit (tc_mask t) 3) (str_w (tc_source t)).
Definition trace_r (r : bytes) : res (trace_ctx * bytes) :=
  do (m, r1) <- nat_r r;
  do (id, r2) <- uuid_r r1;
  do (p, r3) <- opt_r (bit m 2) long_r 0 r2;
  do (s, r4) <- opt_r (bit m 3) str1_r [] r3;
  Ok ({| tc_mask := m; tc_id := id; tc_parent := p; tc_source := s |}, r4).

Record req_extra := {
  rq_flags : N;
  rq_requester_id : N;                    (* flags.9  long *)
  rq_wait_shards : list (bytes * N);      (* flags.15 Dictionary long *)
  rq_wait_binlog_pos : N;                 (* flags.16 long *)
  rq_string_forward_keys : list bytes;    (* flags.18 Vector string *)
  rq_int_forward_keys : list N;           (* flags.19 Vector long *)
  rq_string_forward : bytes;              (* flags.20 string *)
  rq_int_forward : N;                     (* flags.21 long *)
  rq_custom_timeout_ms : N;               (* flags.23 int *)
  rq_supported_compression : N;           (* flags.25 int *)
  rq_random_delay : N;                    (* flags.26 double *)
  rq_persistent : persistent;             (* flags.28 exactlyOnce.PersistentRequest *)
  rq_trace : trace_ctx;                   (* flags.29 tracing.TraceContext *)
  rq_exec_ctx : bytes                     (* flags.30 string *)
}.
Definition req_extra0 : req_extra :=
  {| rq_flags := 0; rq_requester_id := 0; rq_wait_shards := []; rq_wait_binlog_pos := 0;
     rq_string_forward_keys := []; rq_int_forward_keys := []; rq_string_forward := [];
     rq_int_forward := 0; rq_custom_timeout_ms := 0; rq_supported_compression := 0;
     rq_random_delay := 0; rq_persistent := persistent0; rq_trace := trace0; rq_exec_ctx := [] |}.

(** RpcInvokeReqExtra.WriteTL1 *)
Definition req_extra_w (e : req_extra) : bytes :=
  let f := rq_flags e in
  nat_w f
  ++ opt_w (bit f 9) (long_w (rq_requester_id e))
  ++ opt_w (bit f 15) (dict_w long_w (rq_wait_shards e))
  ++ opt_w (bit f 16) (long_w (rq_wait_binlog_pos e))
  ++ opt_w (bit f 18) (vec_w str_w (rq_string_forward_keys e))
  ++ opt_w (bit f 19) (vec_w long_w (rq_int_forward_keys e))
  ++ opt_w (bit f 20) (str_w (rq_string_forward e))
  ++ opt_w (bit f 21) (long_w (rq_int_forward e))
  ++ opt_w (bit f 23) (nat_w (rq_custom_timeout_ms e))
  ++ opt_w (bit f 25) (nat_w (rq_supported_compression e))
  ++ opt_w (bit f 26) (long_w (rq_random_delay e))
  ++ opt_w (bit f 28) (persistent_w (rq_persistent e))
  ++ opt_w (bit f 29) (trace_w (rq_trace e))
  ++ opt_w (bit f 30) (str_w (rq_exec_ctx e)).

(** RpcInvokeReqExtra.ReadTL1 (fields whose bit is clear are reset) *)
Definition req_extra_r (r : bytes) : res (req_extra * bytes) :=
  do (f, r0) <- nat_r r;
  do (x9, r1) <- opt_r (bit f 9) long_r 0 r0;
  do (x15, r2) <- opt_r (bit f 15) (dict_r long_r) [] r1;
  do (x16, r3) <- opt_r (bit f 16) long_r 0 r2;
  do (x18, r4) <- opt_r (bit f 18) (vec_r str1_r) [] r3;
  do (x19, r5) <- opt_r (bit f 19) (vec_r long_r) [] r4;
  do (x20, r6) <- opt_r (bit f 20) str1_r [] r5;
  do (x21, r7) <- opt_r (bit f 21) long_r 0 r6;
  do (x23, r8) <- opt_r (bit f 23) nat_r 0 r7;
  do (x25, r9) <- opt_r (bit f 25) nat_r 0 r8;
  do (x26, r10) <- opt_r (bit f 26) long_r 0 r9;
  do (x28, r11) <- opt_r (bit f 28) persistent_r persistent0 r10;
  do (x29, r12) <- opt_r (bit f 29) trace_r trace0 r11;
  do (x30, r13) <- opt_r (bit f 30) str1_r [] r12;
  Ok ({| rq_flags := f; rq_requester_id := x9; rq_wait_shards := x15; rq_wait_binlog_pos := x16;
         rq_string_forward_keys := x18; rq_int_forward_keys := x19; rq_string_forward := x20;
         rq_int_forward := x21; rq_custom_timeout_ms := x23; rq_supported_compression := x25;
         rq_random_delay := x26; rq_persistent := x28; rq_trace := x29; rq_exec_ctx := x30 |}, r13).

(** what a reader can observe of an extra: fields whose bit is clear are at their zero value *)
Definition norm_trace (t : trace_ctx) : trace_ctx :=
  {| tc_mask := tc_mask t; tc_id := tc_id t;
     tc_parent := if bit (tc_mask t) 2 then tc_parent t else 0;
     tc_source := if bit (tc_mask t) 3 then tc_source t else [] |}.
Definition norm_req (e : req_extra) : req_extra :=
  let f := rq_flags e in
  {| rq_flags := f;
     rq_requester_id := if bit f 9 then rq_requester_id e else 0;
     rq_wait_shards := if bit f 15 then rq_wait_shards e else [];
     rq_wait_binlog_pos := if bit f 16 then rq_wait_binlog_pos e else 0;
     rq_string_forward_keys := if bit f 18 then rq_string_forward_keys e else [];
     rq_int_forward_keys := if bit f 19 then rq_int_forward_keys e else [];
     rq_string_forward := if bit f 20 then rq_string_forward e else [];
     rq_int_forward := if bit f 21 then rq_int_forward e else 0;
     rq_custom_timeout_ms := if bit f 23 then rq_custom_timeout_ms e else 0;
     rq_supported_compression := if bit f 25 then rq_supported_compression e else 0;
     rq_random_delay := if bit f 26 then rq_random_delay e else 0;
     rq_persistent := if bit f 28 then rq_persistent e else persistent0;
     rq_trace := if bit f 29 then norm_trace (rq_trace e) else trace0;
     rq_exec_ctx := if bit f 30 then rq_exec_ctx e else [] |}.

(** * Request header: preparePacket / ParseInvokeReq *)
(** wire bytes of the packet body = header ++ user body (the header is serialised behind the body in
    req.Body and written first: Body[extraStart:] ++ Body[:extraStart]); [None] = validBodyLen error *)
Definition request_header (qid actor : N) (e : req_extra) (tl2 : bool) : bytes :=
  long_w qid
  ++ (if negb (actor =? 0) && negb (rq_flags e =? 0) then
        nat_w tag_rpcDestActorFlags ++ long_w actor ++ req_extra_w e
      else if negb (rq_flags e =? 0) then nat_w tag_rpcDestFlags ++ req_extra_w e
      else if negb (actor =? 0) then nat_w tag_rpcDestActor ++ long_w actor
      else [])
  ++ (if tl2 then nat_w tag_rpcTL2Marker else []).

Definition prepare_request (qid actor : N) (e : req_extra) (tl2 : bool) (body : bytes) : option bytes :=
  let h := request_header qid actor e tl2 in
  if maxPacketLen - packetOverhead <? lenN body + lenN h then None else Some (h ++ body).

Record parsed_req := { q_id : N; q_actor : N; q_extra : req_extra; q_tl2 : bool; q_tag : N; q_body : bytes }.

Fixpoint parse_wrappers (fuel : nat) (qid actor : N) (e : req_extra) (actorSet extraSet tl2Set : N)
         (tl2NotLast : bool) (r : bytes) : res parsed_req :=
  match fuel with
  | O => Reject (* unreachable: every wrapper consumes at least 4 bytes *)
  | S f =>
      do (tag, after) <- nat_r r;
      if tag =? tag_rpcDestActor then
        do (a, r1) <- long_r after;
        parse_wrappers f qid a e (actorSet + 1) extraSet tl2Set (tl2NotLast || negb (tl2Set =? 0)) r1
      else if tag =? tag_rpcDestFlags then
        do (e1, r1) <- req_extra_r after;
        parse_wrappers f qid actor e1 actorSet (extraSet + 1) tl2Set (tl2NotLast || negb (tl2Set =? 0)) r1
      else if tag =? tag_rpcDestActorFlags then
        do (a, r1) <- long_r after;
        do (e1, r2) <- req_extra_r r1;
        parse_wrappers f qid a e1 (actorSet + 1) (extraSet + 1) tl2Set (tl2NotLast || negb (tl2Set =? 0)) r2
      else if tag =? tag_rpcTL2Marker then
        parse_wrappers f qid actor e actorSet extraSet (tl2Set + 1) tl2NotLast after
      else if (1 <? actorSet) || (1 <? extraSet) then Reject
      else if 1 <? tl2Set then Reject
      else if tl2NotLast then Reject
      else Ok {| q_id := qid; q_actor := actor; q_extra := e; q_tl2 := negb (tl2Set =? 0);
                 q_tag := tag; q_body := r |}
  end.

Definition parse_request (r : bytes) : res parsed_req :=
  do (qid, r1) <- long_r r;
  parse_wrappers (S (length r1)) qid 0 req_extra0 0 0 0 false r1.

(** * Response extra: rpcReqResultExtra *)
Record pid := { pid_ip : N; pid_port_pid : N; pid_utime : N }.
Definition pid0 : pid := {| pid_ip := 0; pid_port_pid := 0; pid_utime := 0 |}.
Definition pid_w (p : pid) : bytes := nat_w (pid_ip p) ++ nat_w (pid_port_pid p) ++ nat_w (pid_utime p).
Definition pid_r (r : bytes) : res (pid * bytes) :=
  do (a, r1) <- nat_r r; do (b, r2) <- nat_r r1; do (c, r3) <- nat_r r2;
  Ok ({| pid_ip := a; pid_port_pid := b; pid_utime := c |}, r3).

Record resp_extra := {
  rs_flags : N;
  rs_binlog_pos : N;                       (* flags.0 long *)
  rs_binlog_time : N;                      (* flags.1 long *)
  rs_engine_pid : pid;                     (* flags.2 net.Pid *)
  rs_request_size : N;                     (* flags.3 int *)
  rs_response_size : N;                    (* flags.3 int *)
  rs_failed_subqueries : N;                (* flags.4 int *)
  rs_compression_version : N;              (* flags.5 int *)
  rs_stats : list (bytes * bytes);         (* flags.6 Dictionary string *)
  rs_shards_binlog_pos : list (bytes * N); (* flags.14 Dictionary long *)
  rs_epoch_number : N;                     (* flags.27 long *)
  rs_view_number : N                       (* flags.27 long *)
}.
Definition resp_extra0 : resp_extra :=
  {| rs_flags := 0; rs_binlog_pos := 0; rs_binlog_time := 0; rs_engine_pid := pid0; rs_request_size := 0;
     rs_response_size := 0; rs_failed_subqueries := 0; rs_compression_version := 0; rs_stats := [];
     rs_shards_binlog_pos := []; rs_epoch_number := 0; rs_view_number := 0 |}.

Definition resp_extra_w (e : resp_extra) : bytes :=
  let f := rs_flags e in
  nat_w f
  ++ opt_w (bit f 0) (long_w (rs_binlog_pos e))
  ++ opt_w (bit f 1) (long_w (rs_binlog_time e))
  ++ opt_w (bit f 2) (pid_w (rs_engine_pid e))
  ++ opt_w (bit f 3) (nat_w (rs_request_size e))
  ++ opt_w (bit f 3) (nat_w (rs_response_size e))
  ++ opt_w (bit f 4) (nat_w (rs_failed_subqueries e))
  ++ opt_w (bit f 5) (nat_w (rs_compression_version e))
  ++ opt_w (bit f 6) (dict_w str_w (rs_stats e))
  ++ opt_w (bit f 14) (dict_w long_w (rs_shards_binlog_pos e))
  ++ opt_w (bit f 27) (long_w (rs_epoch_number e))
  ++ opt_w (bit f 27) (long_w (rs_view_number e)).

Definition resp_extra_r (r : bytes) : res (resp_extra * bytes) :=
  do (f, r0) <- nat_r r;
  do (x0, r1) <- opt_r (bit f 0) long_r 0 r0;
  do (x1, r2) <- opt_r (bit f 1) long_r 0 r1;
  do (x2, r3) <- opt_r (bit f 2) pid_r pid0 r2;
  do (x3a, r4) <- opt_r (bit f 3) nat_r 0 r3;
  do (x3b, r5) <- opt_r (bit f 3) nat_r 0 r4;
  do (x4, r6) <- opt_r (bit f 4) nat_r 0 r5;
  do (x5, r7) <- opt_r (bit f 5) nat_r 0 r6;
  do (x6, r8) <- opt_r (bit f 6) (dict_r str1_r) [] r7;
  do (x14, r9) <- opt_r (bit f 14) (dict_r long_r) [] r8;
  do (x27a, r10) <- opt_r (bit f 27) long_r 0 r9;
  do (x27b, r11) <- opt_r (bit f 27) long_r 0 r10;
  Ok ({| rs_flags := f; rs_binlog_pos := x0; rs_binlog_time := x1; rs_engine_pid := x2;
         rs_request_size := x3a; rs_response_size := x3b; rs_failed_subqueries := x4;
         rs_compression_version := x5; rs_stats := x6; rs_shards_binlog_pos := x14;
         rs_epoch_number := x27a; rs_view_number := x27b |}, r11).

(** the extra as the client can observe it: flags masked by the request's flags, other fields reset *)
Definition norm_resp (f : N) (e : resp_extra) : resp_extra :=
  {| rs_flags := f;
     rs_binlog_pos := if bit f 0 then rs_binlog_pos e else 0;
     rs_binlog_time := if bit f 1 then rs_binlog_time e else 0;
     rs_engine_pid := if bit f 2 then rs_engine_pid e else pid0;
     rs_request_size := if bit f 3 then rs_request_size e else 0;
     rs_response_size := if bit f 3 then rs_response_size e else 0;
     rs_failed_subqueries := if bit f 4 then rs_failed_subqueries e else 0;
     rs_compression_version := if bit f 5 then rs_compression_version e else 0;
     rs_stats := if bit f 6 then rs_stats e else [];
     rs_shards_binlog_pos := if bit f 14 then rs_shards_binlog_pos e else [];
     rs_epoch_number := if bit f 27 then rs_epoch_number e else 0;
     rs_view_number := if bit f 27 then rs_view_number e else 0 |}.
Definition with_flags (f : N) (e : resp_extra) : resp_extra :=
  {| rs_flags := f; rs_binlog_pos := rs_binlog_pos e; rs_binlog_time := rs_binlog_time e;
     rs_engine_pid := rs_engine_pid e; rs_request_size := rs_request_size e;
     rs_response_size := rs_response_size e; rs_failed_subqueries := rs_failed_subqueries e;
     rs_compression_version := rs_compression_version e; rs_stats := rs_stats e;
     rs_shards_binlog_pos := rs_shards_binlog_pos e; rs_epoch_number := rs_epoch_number e;
     rs_view_number := rs_view_number e |}.

(** * Response header: prepareResponseBody / parseResponseExtra *)
Definition unknown_code : N := 4294967296 - errcode_Unknown_neg.  (* int32(-4000) as uint32 *)

Inductive presp := PNoResult | PTooLarge | PWire (w : bytes).

(** [err = Some (code, description)]: the handler returned an *rpc.Error (the errors.As case);
    [mask] = requestExtraFieldsmask (flags of the request's extra; bit 7 = no_result) *)
Definition response_header (qid mask : N) (tl2 : bool) (e : resp_extra) (is_err : bool) : bytes :=
  let f := N.land (rs_flags e) mask in
  long_w qid
  ++ (if f =? 0 then [] else nat_w tag_reqResultHeader ++ resp_extra_w (with_flags f e))
  ++ (if negb is_err && tl2 then nat_w tag_rpcTL2Marker else []).

Definition error_body (qid code : N) (desc : bytes) : bytes :=
  nat_w tag_rpcReqResultError ++ long_w qid
  ++ nat_w (if code =? 0 then unknown_code else code) ++ str_w desc.

Definition prepare_response (qid mask : N) (tl2 : bool) (e : resp_extra) (err : option (N * bytes))
           (body : bytes) : presp :=
  let body' := match err with Some (code, desc) => error_body qid code desc | None => body end in
  if bit mask 7 then PNoResult
  else
    let h := response_header qid mask tl2 e (match err with Some _ => true | None => false end) in
    if maxPacketLen - packetOverhead <? lenN body' + lenN h then PTooLarge else PWire (h ++ body').

Inductive outcome := OBody (b : bytes) | OError (code : N) (desc : bytes) (rest : bytes).
Record parsed_resp := { a_id : N; a_extra : resp_extra; a_out : outcome }.

Definition err_int_string (r : bytes) : res outcome :=
  do (c, r1) <- nat_r r; do (d, r2) <- str1_r r1; Ok (OError c d r2).

Fixpoint parse_resp_extra (fuel : nat) (tl2 : bool) (qid : N) (e : resp_extra) (extraSet : N) (r : bytes)
  : res parsed_resp :=
  match fuel with
  | O => Reject (* unreachable *)
  | S f =>
      do (tag, after) <- nat_r r;
      if tag =? tag_reqResultHeader then
        do (e1, r1) <- resp_extra_r after;
        parse_resp_extra f tl2 qid e1 (extraSet + 1) r1
      else if 1 <? extraSet then Reject
      else if tag =? tag_reqError then
        match err_int_string after with
        | Ok o => Ok {| a_id := qid; a_extra := e; a_out := o |}
        | Eof => Eof | Reject => Reject
        end
      else if tag =? tag_rpcReqResultError then
        do (_q, r1) <- long_r after;
        match err_int_string r1 with
        | Ok o => Ok {| a_id := qid; a_extra := e; a_out := o |}
        | Eof => Eof | Reject => Reject
        end
      else if tag =? tag_rpcReqResultErrorWrapped then
        match err_int_string after with
        | Ok o => Ok {| a_id := qid; a_extra := e; a_out := o |}
        | Eof => Eof | Reject => Reject
        end
      else if tl2 then
        if tag =? tag_rpcTL2Marker then Ok {| a_id := qid; a_extra := e; a_out := OBody after |}
        else Reject
      else Ok {| a_id := qid; a_extra := e; a_out := OBody r |}
  end.

(** clientConn.handlePacket for packet type rpcReqResultHeader + finishCall/parseResponseExtra *)
Definition parse_response (tl2 : bool) (r : bytes) : res parsed_resp :=
  do (qid, r1) <- long_r r;
  parse_resp_extra (S (length r1)) tl2 qid resp_extra0 0 r1.

(** * The handler context and the longpoll save / restore (server_hctx.go, server.go, server_conn_tcp.go)

    [hctx_fields] = the struct [handlerContextFields] embedded in HandlerContext -- restricted to the members
    that decide what is written into a response: actorID, requestExtraFieldsmask, reqTag, bodyFormatTL2,
    noResult.  It is exactly what [toLongpollContext] copies into the per-longpoll record (longpollHctx) and what
    [finishLongpoll2] copies back into the FRESH HandlerContext that FinishLongpoll / SendEmptyResponse hand to
    the user; the query ID travels in the LongpollHandle.  Everything else of the original context is gone by
    then (it was released when the SyncHandler returned). *)
Record hctx_fields := { hf_actor : N; hf_mask : N; hf_tag : N; hf_tl2 : bool; hf_noresult : bool }.

Record hctx := { h_qid : N; h_fields : hctx_fields }.

(** ParseInvokeReq + fillInvokeReqInternals *)
Definition hctx_of_request (q : parsed_req) : hctx :=
  {| h_qid := q_id q;
     h_fields := {| hf_actor := q_actor q; hf_mask := rq_flags (q_extra q); hf_tag := q_tag q;
                    hf_tl2 := q_tl2 q; hf_noresult := bit (rq_flags (q_extra q)) 7 |} |}.

(** the names of the members of handlerContextFields the model relies on (pinned against the Go struct by
    reflection on every run, op "lpfields") *)
Inductive hfield := HF_actorID | HF_requestExtraFieldsmask | HF_reqTag | HF_bodyFormatTL2 | HF_noResult.
Definition saved_fields : list hfield := [HF_actorID; HF_requestExtraFieldsmask; HF_reqTag; HF_bodyFormatTL2; HF_noResult].

Record longpoll_rec := { lp_fields : hctx_fields }.   (* longpollHctx without canceller / deadline *)

(** hctx.StartLongpoll -> Server.toLongpollContext: (LongpollHandle.QueryID, longpollHctx) *)
Definition start_longpoll (h : hctx) : N * longpoll_rec := (h_qid h, {| lp_fields := h_fields h |}).

(** FinishLongpoll / SendEmptyResponse -> finishLongpoll2: a fresh context, queryID from the handle,
    handlerContextFields from the record *)
Definition finish_longpoll (qid : N) (l : longpoll_rec) : hctx := {| h_qid := qid; h_fields := lp_fields l |}.

(** SendResponse -> prepareResponseBody on a handler context *)
Definition hctx_respond (h : hctx) (e : resp_extra) (err : option (N * bytes)) (body : bytes) : presp :=
  let f := h_fields h in
  let body' := match err with Some (code, desc) => error_body (h_qid h) code desc | None => body end in
  if hf_noresult f then PNoResult
  else
    let hd := response_header (h_qid h) (hf_mask f) (hf_tl2 f) e (match err with Some _ => true | None => false end) in
    if maxPacketLen - packetOverhead <? lenN body' + lenN hd then PTooLarge else PWire (hd ++ body').

(** a request answered directly / after a longpoll *)
Definition respond_direct (q : parsed_req) := hctx_respond (hctx_of_request q).
Definition respond_longpoll (q : parsed_req) :=
  let '(qid, l) := start_longpoll (hctx_of_request q) in hctx_respond (finish_longpoll qid l).
