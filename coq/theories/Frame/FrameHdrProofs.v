(** Proofs about M9b [FrameHdr]: the TL1 codecs of the request/response extras are exact, and the
    request and response headers built by preparePacket / prepareResponseBody are parsed back by
    ParseInvokeReq / parseResponseExtra to what was put in. *)
From Coq Require Import ZArith Lia ZifyN ZifyNat ZifyBool Sorted.
From TLV Require Import Prim.PrimModel Prim.PrimProofs Frame.FrameHdrModel.
Ltac Zify.zify_post_hook ::= Z.div_mod_to_equations.
Open Scope N_scope.

#[local] Arguments nat_w : simpl never.
#[local] Arguments long_w : simpl never.
#[local] Arguments nat_r : simpl never.
#[local] Arguments long_r : simpl never.
#[local] Arguments str1_r : simpl never.
#[local] Arguments str_w : simpl never.

Definition u32 (v : N) : Prop := v < 2 ^ 32.
Definition u64 (v : N) : Prop := v < 2 ^ 64.
Definition str_ok (s : bytes) : Prop := lenN s <= maxHugeStringLen.

(** * primitives *)
Lemma str_roundtrip s rest : str_ok s -> str1_r (str_w s ++ rest) = Ok (s, rest).
Proof.
  intros H. destruct (str1_w_defined s H) as [b Eb]. unfold str_w. rewrite Eb. apply str1_roundtrip. exact Eb.
Qed.

Lemma str_w_len s : str_ok s -> 4 <= lenN (str_w s).
Proof.
  intros H. destruct (str1_w_defined s H) as [b Eb]. unfold str_w. rewrite Eb.
  pose proof (str1_w_length s b Eb) as [Hl Hm].
  assert (1 <= lenN b).
  { rewrite Hl. unfold str1_len. repeat destruct (_ <=? _); lia. }
  lia.
Qed.

Lemma lenN_nat_w' v : lenN (nat_w v) = 4.
Proof. unfold nat_w. rewrite lenN_le_bytes. reflexivity. Qed.
Lemma lenN_long_w v : lenN (long_w v) = 8.
Proof. unfold long_w. rewrite lenN_le_bytes. reflexivity. Qed.

Lemma opt_roundtrip {A} (b : bool) (rd : bytes -> res (A * bytes)) (w : bytes) (x d : A) rest :
  (b = true -> rd (w ++ rest) = Ok (x, rest)) ->
  opt_r b rd d (opt_w b w ++ rest) = Ok ((if b then x else d), rest).
Proof. intros H. unfold opt_r, opt_w. destruct b; [apply H; reflexivity|reflexivity]. Qed.

(** * vectors *)
Lemma read_n_roundtrip {A} (rd : bytes -> res (A * bytes)) (w : A -> bytes) (l : list A) rest :
  Forall (fun x => forall r, rd (w x ++ r) = Ok (x, r)) l ->
  read_n rd (length l) (concat (map w l) ++ rest) = Ok (l, rest).
Proof.
  induction 1 as [|x l Hx Hl IH]; [reflexivity|].
  cbn [length read_n map concat]. rewrite <- app_assoc, Hx, IH. reflexivity.
Qed.

Lemma concat_min_len {A} (w : A -> bytes) (l : list A) :
  Forall (fun x => 4 <= lenN (w x)) l -> 4 * lenN l <= lenN (concat (map w l)).
Proof.
  induction 1 as [|x l Hx Hl IH]; [cbn; lia|].
  cbn [map concat]. rewrite lenN_app, lenN_cons. lia.
Qed.

Theorem vec_roundtrip {A} (rd : bytes -> res (A * bytes)) (w : A -> bytes) (l : list A) rest :
  lenN l < 2 ^ 32 ->
  Forall (fun x => forall r, rd (w x ++ r) = Ok (x, r)) l ->
  Forall (fun x => 4 <= lenN (w x)) l ->
  vec_r rd (vec_w w l ++ rest) = Ok (l, rest).
Proof.
  intros Hl Hrt Hmin. unfold vec_r, vec_w. rewrite <- app_assoc, nat_roundtrip by exact Hl.
  unfold check_length_sanity.
  pose proof (concat_min_len w l Hmin) as Hc.
  replace (lenN (concat (map w l) ++ rest) <? lenN l * 4) with false by (rewrite lenN_app; lia).
  cbn [negb]. replace (N.to_nat (lenN l)) with (length l) by (unfold lenN; lia).
  apply read_n_roundtrip. exact Hrt.
Qed.

(** * maps *)
Definition key_lt {V} (a b : bytes * V) : Prop := bytes_cmp (fst a) (fst b) = Lt.

Lemma bytes_cmp_antisym a : forall b, bytes_cmp b a = CompOpp (bytes_cmp a b).
Proof.
  induction a as [|x a IH]; intros [|y b]; cbn [bytes_cmp]; try reflexivity.
  rewrite (N.compare_antisym x y). destruct (x ?= y); cbn [CompOpp]; try reflexivity. apply IH.
Qed.

Lemma dict_set_append {V} (k : bytes) (v : V) (m : list (bytes * V)) :
  Forall (fun kv => key_lt kv (k, v)) m -> dict_set k v m = m ++ [(k, v)].
Proof.
  induction 1 as [|[k' v'] m Hk Hm IH]; [reflexivity|].
  cbn [dict_set app]. unfold key_lt in Hk. cbn [fst] in Hk.
  rewrite bytes_cmp_antisym, Hk. cbn [CompOpp]. rewrite IH. reflexivity.
Qed.

Lemma strongly_sorted_app_head {V} (a : list (bytes * V)) x r :
  StronglySorted key_lt (a ++ x :: r) -> Forall (fun y => key_lt y x) a.
Proof.
  induction a as [|y a IH]; intros H; [constructor|].
  cbn [app] in H. apply StronglySorted_inv in H. destruct H as [Hs Hf].
  constructor; [|apply IH; exact Hs].
  apply Forall_app in Hf. destruct Hf as [_ Hf]. inversion Hf; assumption.
Qed.

Lemma dict_of_sorted_aux {V} (m : list (bytes * V)) : forall acc,
  StronglySorted key_lt (acc ++ m) ->
  fold_left (fun a kv => dict_set (fst kv) (snd kv) a) m acc = acc ++ m.
Proof.
  induction m as [|[k v] m IH]; intros acc H; [rewrite app_nil_r; reflexivity|].
  cbn [fold_left fst snd]. rewrite dict_set_append by (eapply strongly_sorted_app_head; exact H).
  rewrite IH; rewrite <- app_assoc; [reflexivity|exact H].
Qed.

Theorem dict_of_sorted {V} (m : list (bytes * V)) : StronglySorted key_lt m -> dict_of m = m.
Proof. intros H. unfold dict_of. apply (dict_of_sorted_aux m []). exact H. Qed.

(** a Go map as the model sees it: keys strictly increasing, everything within wire range *)
Definition dict_wf {V} (vok : V -> Prop) (m : list (bytes * V)) : Prop :=
  StronglySorted key_lt m /\ Forall (fun kv => str_ok (fst kv) /\ vok (snd kv)) m /\ lenN m < 2 ^ 32.

Theorem dict_roundtrip {V} (rv : bytes -> res (V * bytes)) (wv : V -> bytes) (vok : V -> Prop) m rest :
  (forall v r, vok v -> rv (wv v ++ r) = Ok (v, r)) ->
  dict_wf vok m -> dict_r rv (dict_w wv m ++ rest) = Ok (m, rest).
Proof.
  intros Hv (Hs & Hf & Hl). unfold dict_r, dict_w.
  rewrite vec_roundtrip; [rewrite dict_of_sorted by exact Hs; reflexivity|exact Hl| |].
  - eapply Forall_impl; [|exact Hf]. intros [k v] [Hk Hvv] r. cbn [fst snd] in *.
    unfold field_r, field_w. cbn [fst snd]. rewrite <- app_assoc, str_roundtrip by exact Hk.
    rewrite Hv by exact Hvv. reflexivity.
  - eapply Forall_impl; [|exact Hf]. intros [k v] [Hk _]. unfold field_w. cbn [fst snd] in *.
    rewrite lenN_app. pose proof (str_w_len k Hk). lia.
Qed.

(** * structures inside the extras *)
Definition uuid_ok (u : uuid) : Prop := u64 (u_lo u) /\ u64 (u_hi u).

Lemma uuid_roundtrip u rest : uuid_ok u -> uuid_r (uuid_w u ++ rest) = Ok (u, rest).
Proof.
  intros [H1 H2]. destruct u as [lo hi]. cbn [u_lo u_hi] in *. unfold uuid_r, uuid_w. cbn [u_lo u_hi].
  rewrite <- app_assoc, long_roundtrip by exact H1. rewrite long_roundtrip by exact H2. reflexivity.
Qed.

Definition persistent_ok (p : persistent) : Prop :=
  match p with PPrepare q => uuid_ok q | PCommit q s => uuid_ok q /\ uuid_ok s end.

Lemma tags_u32 :
  u32 tag_exactlyOncePrepareRequest /\ u32 tag_exactlyOnceCommitRequest /\ u32 tag_rpcDestActor
  /\ u32 tag_rpcDestFlags /\ u32 tag_rpcDestActorFlags /\ u32 tag_rpcTL2Marker /\ u32 tag_reqResultHeader
  /\ u32 tag_reqError /\ u32 tag_rpcReqResultError /\ u32 tag_rpcReqResultErrorWrapped.
Proof. unfold u32. repeat split; reflexivity. Qed.

Lemma persistent_roundtrip p rest : persistent_ok p -> persistent_r (persistent_w p ++ rest) = Ok (p, rest).
Proof.
  intros H. unfold persistent_r. destruct p as [q|q s]; cbn [persistent_w persistent_ok] in *; rewrite <- !app_assoc.
  - rewrite nat_roundtrip by apply tags_u32. rewrite N.eqb_refl. rewrite uuid_roundtrip by exact H. reflexivity.
  - rewrite nat_roundtrip by apply tags_u32.
    replace (tag_exactlyOnceCommitRequest =? tag_exactlyOncePrepareRequest) with false by (vm_compute; reflexivity).
    rewrite N.eqb_refl. destruct H as [Hq Hs]. rewrite uuid_roundtrip by exact Hq. rewrite uuid_roundtrip by exact Hs.
    reflexivity.
Qed.

Definition trace_ok (t : trace_ctx) : Prop :=
  u32 (tc_mask t) /\ uuid_ok (tc_id t) /\ u64 (tc_parent t) /\ str_ok (tc_source t).

Lemma trace_roundtrip t rest : trace_ok t -> trace_r (trace_w t ++ rest) = Ok (norm_trace t, rest).
Proof.
  intros (Hm & Hid & Hp & Hs). unfold trace_r, trace_w. rewrite <- !app_assoc.
  rewrite nat_roundtrip by exact Hm. rewrite uuid_roundtrip by exact Hid.
  rewrite (opt_roundtrip _ long_r _ (tc_parent t) 0) by (intros _; apply long_roundtrip; exact Hp).
  rewrite (opt_roundtrip _ str1_r _ (tc_source t) []) by (intros _; apply str_roundtrip; exact Hs).
  reflexivity.
Qed.

Definition pid_ok (p : pid) : Prop := u32 (pid_ip p) /\ u32 (pid_port_pid p) /\ u32 (pid_utime p).

Lemma pid_roundtrip p rest : pid_ok p -> pid_r (pid_w p ++ rest) = Ok (p, rest).
Proof.
  intros (H1 & H2 & H3). destruct p as [a b c]. cbn [pid_ip pid_port_pid pid_utime] in *.
  unfold pid_r, pid_w. cbn [pid_ip pid_port_pid pid_utime]. rewrite <- !app_assoc.
  rewrite nat_roundtrip by exact H1. rewrite nat_roundtrip by exact H2. rewrite nat_roundtrip by exact H3. reflexivity.
Qed.

(** * the request extra *)
Definition req_extra_ok (e : req_extra) : Prop :=
  u32 (rq_flags e)
  /\ u64 (rq_requester_id e)
  /\ dict_wf u64 (rq_wait_shards e)
  /\ u64 (rq_wait_binlog_pos e)
  /\ (Forall str_ok (rq_string_forward_keys e) /\ lenN (rq_string_forward_keys e) < 2 ^ 32)
  /\ (Forall u64 (rq_int_forward_keys e) /\ lenN (rq_int_forward_keys e) < 2 ^ 32)
  /\ str_ok (rq_string_forward e)
  /\ u64 (rq_int_forward e)
  /\ u32 (rq_custom_timeout_ms e)
  /\ u32 (rq_supported_compression e)
  /\ u64 (rq_random_delay e)
  /\ persistent_ok (rq_persistent e)
  /\ trace_ok (rq_trace e)
  /\ str_ok (rq_exec_ctx e).

Lemma vec_str_roundtrip l rest : Forall str_ok l -> lenN l < 2 ^ 32 ->
  vec_r str1_r (vec_w str_w l ++ rest) = Ok (l, rest).
Proof.
  intros Hf Hl. apply vec_roundtrip; [exact Hl| |].
  - eapply Forall_impl; [|exact Hf]. intros s Hs r. apply str_roundtrip. exact Hs.
  - eapply Forall_impl; [|exact Hf]. intros s Hs. apply str_w_len. exact Hs.
Qed.

Lemma vec_long_roundtrip l rest : Forall u64 l -> lenN l < 2 ^ 32 ->
  vec_r long_r (vec_w long_w l ++ rest) = Ok (l, rest).
Proof.
  intros Hf Hl. apply vec_roundtrip; [exact Hl| |].
  - eapply Forall_impl; [|exact Hf]. intros s Hs r. apply long_roundtrip. exact Hs.
  - apply Forall_forall. intros x _. rewrite lenN_long_w. lia.
Qed.

Theorem req_extra_roundtrip e rest : req_extra_ok e ->
  req_extra_r (req_extra_w e ++ rest) = Ok (norm_req e, rest).
Proof.
  intros (Hf & H9 & H15 & H16 & [H18 H18l] & [H19 H19l] & H20 & H21 & H23 & H25 & H26 & H28 & H29 & H30).
  unfold req_extra_r, req_extra_w. rewrite <- !app_assoc. rewrite nat_roundtrip by exact Hf.
  set (f := rq_flags e).
  rewrite (opt_roundtrip (bit f 9) long_r _ (rq_requester_id e) 0) by (intros _; apply long_roundtrip; exact H9).
  rewrite (opt_roundtrip (bit f 15) (dict_r long_r) _ (rq_wait_shards e) [])
    by (intros _; apply (dict_roundtrip long_r long_w u64); [intros; apply long_roundtrip; assumption|exact H15]).
  rewrite (opt_roundtrip (bit f 16) long_r _ (rq_wait_binlog_pos e) 0) by (intros _; apply long_roundtrip; exact H16).
  rewrite (opt_roundtrip (bit f 18) (vec_r str1_r) _ (rq_string_forward_keys e) [])
    by (intros _; apply vec_str_roundtrip; assumption).
  rewrite (opt_roundtrip (bit f 19) (vec_r long_r) _ (rq_int_forward_keys e) [])
    by (intros _; apply vec_long_roundtrip; assumption).
  rewrite (opt_roundtrip (bit f 20) str1_r _ (rq_string_forward e) []) by (intros _; apply str_roundtrip; exact H20).
  rewrite (opt_roundtrip (bit f 21) long_r _ (rq_int_forward e) 0) by (intros _; apply long_roundtrip; exact H21).
  rewrite (opt_roundtrip (bit f 23) nat_r _ (rq_custom_timeout_ms e) 0) by (intros _; apply nat_roundtrip; exact H23).
  rewrite (opt_roundtrip (bit f 25) nat_r _ (rq_supported_compression e) 0) by (intros _; apply nat_roundtrip; exact H25).
  rewrite (opt_roundtrip (bit f 26) long_r _ (rq_random_delay e) 0) by (intros _; apply long_roundtrip; exact H26).
  rewrite (opt_roundtrip (bit f 28) persistent_r _ (rq_persistent e) persistent0)
    by (intros _; apply persistent_roundtrip; exact H28).
  rewrite (opt_roundtrip (bit f 29) trace_r _ (norm_trace (rq_trace e)) trace0)
    by (intros _; apply trace_roundtrip; exact H29).
  rewrite (opt_roundtrip (bit f 30) str1_r _ (rq_exec_ctx e) []) by (intros _; apply str_roundtrip; exact H30).
  reflexivity.
Qed.

(** an extra whose unset fields are at their zero values is transmitted unchanged *)
Definition trace_canonical (t : trace_ctx) : Prop :=
  (bit (tc_mask t) 2 = false -> tc_parent t = 0) /\ (bit (tc_mask t) 3 = false -> tc_source t = []).
Definition req_extra_canonical (e : req_extra) : Prop := norm_req e = e.

(** * the response extra *)
Definition resp_extra_ok (e : resp_extra) : Prop :=
  u32 (rs_flags e) /\ u64 (rs_binlog_pos e) /\ u64 (rs_binlog_time e) /\ pid_ok (rs_engine_pid e)
  /\ u32 (rs_request_size e) /\ u32 (rs_response_size e) /\ u32 (rs_failed_subqueries e)
  /\ u32 (rs_compression_version e)
  /\ dict_wf str_ok (rs_stats e) /\ dict_wf u64 (rs_shards_binlog_pos e)
  /\ u64 (rs_epoch_number e) /\ u64 (rs_view_number e).

Theorem resp_extra_roundtrip e rest : resp_extra_ok e ->
  resp_extra_r (resp_extra_w e ++ rest) = Ok (norm_resp (rs_flags e) e, rest).
Proof.
  intros (Hf & H0 & H1 & H2 & H3a & H3b & H4 & H5 & H6 & H14 & H27a & H27b).
  unfold resp_extra_r, resp_extra_w. rewrite <- !app_assoc. rewrite nat_roundtrip by exact Hf.
  set (f := rs_flags e).
  rewrite (opt_roundtrip (bit f 0) long_r _ (rs_binlog_pos e) 0) by (intros _; apply long_roundtrip; exact H0).
  rewrite (opt_roundtrip (bit f 1) long_r _ (rs_binlog_time e) 0) by (intros _; apply long_roundtrip; exact H1).
  rewrite (opt_roundtrip (bit f 2) pid_r _ (rs_engine_pid e) pid0) by (intros _; apply pid_roundtrip; exact H2).
  rewrite (opt_roundtrip (bit f 3) nat_r _ (rs_request_size e) 0) by (intros _; apply nat_roundtrip; exact H3a).
  rewrite (opt_roundtrip (bit f 3) nat_r _ (rs_response_size e) 0) by (intros _; apply nat_roundtrip; exact H3b).
  rewrite (opt_roundtrip (bit f 4) nat_r _ (rs_failed_subqueries e) 0) by (intros _; apply nat_roundtrip; exact H4).
  rewrite (opt_roundtrip (bit f 5) nat_r _ (rs_compression_version e) 0) by (intros _; apply nat_roundtrip; exact H5).
  rewrite (opt_roundtrip (bit f 6) (dict_r str1_r) _ (rs_stats e) [])
    by (intros _; apply (dict_roundtrip str1_r str_w str_ok); [intros; apply str_roundtrip; assumption|exact H6]).
  rewrite (opt_roundtrip (bit f 14) (dict_r long_r) _ (rs_shards_binlog_pos e) [])
    by (intros _; apply (dict_roundtrip long_r long_w u64); [intros; apply long_roundtrip; assumption|exact H14]).
  rewrite (opt_roundtrip (bit f 27) long_r _ (rs_epoch_number e) 0) by (intros _; apply long_roundtrip; exact H27a).
  rewrite (opt_roundtrip (bit f 27) long_r _ (rs_view_number e) 0) by (intros _; apply long_roundtrip; exact H27b).
  reflexivity.
Qed.

Lemma some_inj {A} (a b : A) : Some a = Some b -> a = b.
Proof. intros H. inversion H. reflexivity. Qed.

(** * request header *)
Definition is_wrapper_tag (t : N) : Prop :=
  t = tag_rpcDestActor \/ t = tag_rpcDestFlags \/ t = tag_rpcDestActorFlags \/ t = tag_rpcTL2Marker.
Definition body_starts (body : bytes) (tag : N) : Prop := exists after, nat_r body = Ok (tag, after).

Lemma norm_req_noflags e : rq_flags e = 0 -> norm_req e = req_extra0.
Proof. intros H. unfold norm_req. rewrite H. reflexivity. Qed.

Lemma nat_r_length b v r : nat_r b = Ok (v, r) -> (4 <= length b)%nat.
Proof.
  unfold nat_r. destruct b as [|b0 [|b1 [|b2 [|b3 t]]]]; try discriminate. intros _. cbn. lia.
Qed.

Lemma pw_final f qid actor e aS eS tS body tag :
  body_starts body tag -> ~ is_wrapper_tag tag -> aS <= 1 -> eS <= 1 -> tS <= 1 ->
  parse_wrappers (S f) qid actor e aS eS tS false body
  = Ok {| q_id := qid; q_actor := actor; q_extra := e; q_tl2 := negb (tS =? 0); q_tag := tag; q_body := body |}.
Proof.
  intros [after Hb] Hn Ha He Ht. cbn [parse_wrappers]. rewrite Hb. unfold is_wrapper_tag in Hn.
  destruct (N.eqb_spec tag tag_rpcDestActor); [tauto|].
  destruct (N.eqb_spec tag tag_rpcDestFlags); [tauto|].
  destruct (N.eqb_spec tag tag_rpcDestActorFlags); [tauto|].
  destruct (N.eqb_spec tag tag_rpcTL2Marker); [tauto|].
  replace ((1 <? aS) || (1 <? eS))%bool with false by lia.
  replace (1 <? tS) with false by lia. reflexivity.
Qed.

Lemma pw_marker f qid actor e aS eS tS nl r :
  parse_wrappers (S f) qid actor e aS eS tS nl (nat_w tag_rpcTL2Marker ++ r)
  = parse_wrappers f qid actor e aS eS (tS + 1) nl r.
Proof.
  cbn [parse_wrappers]. rewrite nat_roundtrip by apply tags_u32.
  replace (tag_rpcTL2Marker =? tag_rpcDestActor) with false by (vm_compute; reflexivity).
  replace (tag_rpcTL2Marker =? tag_rpcDestFlags) with false by (vm_compute; reflexivity).
  replace (tag_rpcTL2Marker =? tag_rpcDestActorFlags) with false by (vm_compute; reflexivity).
  rewrite N.eqb_refl. reflexivity.
Qed.

Lemma pw_actor f qid actor e aS eS tS nl a r : u64 a ->
  parse_wrappers (S f) qid actor e aS eS tS nl (nat_w tag_rpcDestActor ++ long_w a ++ r)
  = parse_wrappers f qid a e (aS + 1) eS tS (nl || negb (tS =? 0)) r.
Proof.
  intros Ha. cbn [parse_wrappers]. rewrite nat_roundtrip by apply tags_u32.
  rewrite N.eqb_refl. rewrite long_roundtrip by exact Ha. reflexivity.
Qed.

Lemma pw_flags f qid actor e aS eS tS nl e1 r : req_extra_ok e1 ->
  parse_wrappers (S f) qid actor e aS eS tS nl (nat_w tag_rpcDestFlags ++ req_extra_w e1 ++ r)
  = parse_wrappers f qid actor (norm_req e1) aS (eS + 1) tS (nl || negb (tS =? 0)) r.
Proof.
  intros He. cbn [parse_wrappers]. rewrite nat_roundtrip by apply tags_u32.
  replace (tag_rpcDestFlags =? tag_rpcDestActor) with false by (vm_compute; reflexivity).
  rewrite N.eqb_refl. rewrite req_extra_roundtrip by exact He. reflexivity.
Qed.

Lemma pw_actorflags f qid actor e aS eS tS nl a e1 r : u64 a -> req_extra_ok e1 ->
  parse_wrappers (S f) qid actor e aS eS tS nl (nat_w tag_rpcDestActorFlags ++ long_w a ++ req_extra_w e1 ++ r)
  = parse_wrappers f qid a (norm_req e1) (aS + 1) (eS + 1) tS (nl || negb (tS =? 0)) r.
Proof.
  intros Ha He. cbn [parse_wrappers]. rewrite nat_roundtrip by apply tags_u32.
  replace (tag_rpcDestActorFlags =? tag_rpcDestActor) with false by (vm_compute; reflexivity).
  replace (tag_rpcDestActorFlags =? tag_rpcDestFlags) with false by (vm_compute; reflexivity).
  rewrite N.eqb_refl. rewrite long_roundtrip by exact Ha. rewrite req_extra_roundtrip by exact He. reflexivity.
Qed.

Theorem request_roundtrip qid actor e tl2 body tag w :
  u64 qid -> u64 actor -> req_extra_ok e -> body_starts body tag -> ~ is_wrapper_tag tag ->
  prepare_request qid actor e tl2 body = Some w ->
  parse_request w = Ok {| q_id := qid; q_actor := actor; q_extra := norm_req e; q_tl2 := tl2;
                          q_tag := tag; q_body := body |}.
Proof.
  intros Hq Ha He Hb Hn Hp. unfold prepare_request in Hp.
  destruct (_ <? _); [discriminate|]. apply some_inj in Hp. subst w.
  unfold parse_request, request_header. rewrite <- !app_assoc. rewrite long_roundtrip by exact Hq.
  match goal with |- parse_wrappers (S (length ?r)) _ _ _ _ _ _ _ _ = _ => set (r1 := r) end.
  assert (Hfuel : (3 <= length r1)%nat).
  { destruct Hb as [after Hb]. apply nat_r_length in Hb. unfold r1. rewrite !app_length. lia. }
  destruct (length r1) as [|[|[|f]]]; try lia. clear Hfuel. unfold r1. clear r1.
  destruct (N.eqb_spec actor 0) as [Ea|Ea]; destruct (N.eqb_spec (rq_flags e) 0) as [Ef|Ef];
    cbn [negb andb]; destruct tl2; cbn [app];
    rewrite ?app_nil_l, <- ?app_assoc;
    rewrite ?pw_actorflags, ?pw_flags, ?pw_actor by assumption;
    rewrite ?pw_marker; cbn [N.eqb negb orb N.add Pos.add];
    rewrite (pw_final _ _ _ _ _ _ _ body tag Hb Hn) by lia;
    try rewrite (norm_req_noflags e Ef); subst; reflexivity.
Qed.

(** * response header *)
Definition is_resp_special (t : N) : Prop :=
  t = tag_reqResultHeader \/ t = tag_reqError \/ t = tag_rpcReqResultError \/ t = tag_rpcReqResultErrorWrapped.

Lemma land_u32 a b : u32 a -> u32 (N.land a b).
Proof.
  unfold u32. intros Ha.
  destruct (N.eq_dec (N.land a b) 0) as [->|Hz]; [reflexivity|].
  apply N.log2_lt_pow2; [lia|].
  destruct (N.eq_dec a 0) as [->|Ha0]; [rewrite N.land_0_l in Hz; contradiction|].
  apply N.log2_lt_pow2 in Ha; [|lia].
  eapply N.le_lt_trans; [|exact Ha].
  pose proof (N.log2_land a b). lia.
Qed.

Lemma with_flags_ok f e : u32 f -> resp_extra_ok e -> resp_extra_ok (with_flags f e).
Proof. intros Hf (_ & H). split; [exact Hf|exact H]. Qed.

Lemma pr_extra f tl2 qid e eS e1 r : resp_extra_ok e1 ->
  parse_resp_extra (S f) tl2 qid e eS (nat_w tag_reqResultHeader ++ resp_extra_w e1 ++ r)
  = parse_resp_extra f tl2 qid (norm_resp (rs_flags e1) e1) (eS + 1) r.
Proof.
  intros He. cbn [parse_resp_extra]. rewrite nat_roundtrip by apply tags_u32.
  rewrite N.eqb_refl. rewrite resp_extra_roundtrip by exact He. reflexivity.
Qed.

Lemma pr_marker f qid e eS r : eS <= 1 ->
  parse_resp_extra (S f) true qid e eS (nat_w tag_rpcTL2Marker ++ r)
  = Ok {| a_id := qid; a_extra := e; a_out := OBody r |}.
Proof.
  intros He. cbn [parse_resp_extra]. rewrite nat_roundtrip by apply tags_u32.
  replace (tag_rpcTL2Marker =? tag_reqResultHeader) with false by (vm_compute; reflexivity).
  replace (1 <? eS) with false by lia.
  replace (tag_rpcTL2Marker =? tag_reqError) with false by (vm_compute; reflexivity).
  replace (tag_rpcTL2Marker =? tag_rpcReqResultError) with false by (vm_compute; reflexivity).
  replace (tag_rpcTL2Marker =? tag_rpcReqResultErrorWrapped) with false by (vm_compute; reflexivity).
  rewrite N.eqb_refl. reflexivity.
Qed.

Lemma pr_body f qid e eS body tag : eS <= 1 -> body_starts body tag -> ~ is_resp_special tag ->
  parse_resp_extra (S f) false qid e eS body = Ok {| a_id := qid; a_extra := e; a_out := OBody body |}.
Proof.
  intros He [after Hb] Hn. cbn [parse_resp_extra]. rewrite Hb. unfold is_resp_special in Hn.
  destruct (N.eqb_spec tag tag_reqResultHeader); [tauto|].
  replace (1 <? eS) with false by lia.
  destruct (N.eqb_spec tag tag_reqError); [tauto|].
  destruct (N.eqb_spec tag tag_rpcReqResultError); [tauto|].
  destruct (N.eqb_spec tag tag_rpcReqResultErrorWrapped); [tauto|].
  reflexivity.
Qed.

Lemma pr_error f tl2 qid e eS q code desc : eS <= 1 -> u64 q -> u32 code -> str_ok desc ->
  parse_resp_extra (S f) tl2 qid e eS (nat_w tag_rpcReqResultError ++ long_w q ++ nat_w code ++ str_w desc)
  = Ok {| a_id := qid; a_extra := e; a_out := OError code desc [] |}.
Proof.
  intros He Hq Hc Hd. cbn [parse_resp_extra]. rewrite nat_roundtrip by apply tags_u32.
  replace (tag_rpcReqResultError =? tag_reqResultHeader) with false by (vm_compute; reflexivity).
  replace (1 <? eS) with false by lia.
  replace (tag_rpcReqResultError =? tag_reqError) with false by (vm_compute; reflexivity).
  rewrite N.eqb_refl. rewrite long_roundtrip by exact Hq. unfold err_int_string.
  rewrite nat_roundtrip by exact Hc. rewrite <- (app_nil_r (str_w desc)). rewrite str_roundtrip by exact Hd.
  reflexivity.
Qed.

Lemma norm_resp_with_flags f e : norm_resp (rs_flags (with_flags f e)) (with_flags f e) = norm_resp f e.
Proof. reflexivity. Qed.

Theorem response_roundtrip qid mask tl2 e body w :
  u64 qid -> resp_extra_ok e ->
  (tl2 = false -> exists tag, body_starts body tag /\ ~ is_resp_special tag) ->
  prepare_response qid mask tl2 e None body = PWire w ->
  parse_response tl2 w = Ok {| a_id := qid; a_extra := norm_resp (N.land (rs_flags e) mask) e;
                               a_out := OBody body |}.
Proof.
  intros Hq He Hb Hp. unfold prepare_response in Hp.
  destruct (bit mask 7); [discriminate|]. destruct (_ <? _); [discriminate|].
  assert (w = response_header qid mask tl2 e false ++ body) as -> by (inversion Hp; reflexivity). clear Hp.
  unfold parse_response, response_header. rewrite <- !app_assoc. rewrite long_roundtrip by exact Hq.
  set (f := N.land (rs_flags e) mask).
  assert (Hf : u32 f) by (apply land_u32; apply He).
  pose proof (with_flags_ok f e Hf He) as Hwe.
  match goal with |- parse_resp_extra (S (length ?r)) _ _ _ _ _ = _ => set (r1 := r) end.
  cbn [negb andb] in r1.
  destruct tl2.
  - (* TL2: the marker is always there *)
    assert (Hfuel : (2 <= length r1)%nat).
    { unfold r1. rewrite !app_length. pose proof (lenN_nat_w' tag_rpcTL2Marker) as H. unfold lenN in H. lia. }
    destruct (length r1) as [|[|n]]; try lia. clear Hfuel. unfold r1. clear r1.
    destruct (N.eqb_spec f 0) as [E|E].
    + cbn [app]. rewrite pr_marker by lia. rewrite E. reflexivity.
    + rewrite <- !app_assoc. rewrite pr_extra by exact Hwe. rewrite pr_marker by lia.
      rewrite norm_resp_with_flags. reflexivity.
  - destruct (Hb eq_refl) as (tag & Hbs & Hn).
    assert (Hfuel : (2 <= length r1)%nat).
    { destruct Hbs as [after Hbs]. apply nat_r_length in Hbs. unfold r1. rewrite !app_length. lia. }
    destruct (length r1) as [|[|n]]; try lia. clear Hfuel. unfold r1. clear r1.
    destruct (N.eqb_spec f 0) as [E|E].
    + cbn [app]. rewrite (pr_body _ _ _ _ body tag) by (try assumption; lia). rewrite E. reflexivity.
    + rewrite <- !app_assoc. cbn [app]. rewrite pr_extra by exact Hwe.
      rewrite (pr_body _ _ _ _ body tag) by (try assumption; lia).
      rewrite norm_resp_with_flags. reflexivity.
Qed.

Theorem response_error_roundtrip qid mask tl2 e code desc body w :
  u64 qid -> resp_extra_ok e -> u32 code -> str_ok desc ->
  prepare_response qid mask tl2 e (Some (code, desc)) body = PWire w ->
  parse_response tl2 w = Ok {| a_id := qid; a_extra := norm_resp (N.land (rs_flags e) mask) e;
                               a_out := OError (if code =? 0 then unknown_code else code) desc [] |}.
Proof.
  intros Hq He Hc Hd Hp. unfold prepare_response in Hp.
  destruct (bit mask 7); [discriminate|]. destruct (_ <? _); [discriminate|].
  assert (w = response_header qid mask tl2 e true ++ error_body qid code desc) as -> by (inversion Hp; reflexivity).
  clear Hp.
  unfold parse_response, response_header, error_body. rewrite <- !app_assoc. rewrite long_roundtrip by exact Hq.
  set (f := N.land (rs_flags e) mask).
  assert (Hf : u32 f) by (apply land_u32; apply He).
  pose proof (with_flags_ok f e Hf He) as Hwe.
  set (code' := if code =? 0 then unknown_code else code).
  assert (Hc' : u32 code') by (unfold code'; destruct (code =? 0); [reflexivity|exact Hc]).
  match goal with |- parse_resp_extra (S (length ?r)) _ _ _ _ _ = _ => set (r1 := r) end.
  cbn [negb andb] in r1.
  assert (Hfuel : (2 <= length r1)%nat).
  { unfold r1. rewrite !app_length. pose proof (lenN_nat_w' tag_rpcReqResultError) as H. unfold lenN in H. lia. }
  destruct (length r1) as [|[|n]]; try lia. clear Hfuel. unfold r1. clear r1.
  destruct (N.eqb_spec f 0) as [E|E].
  - cbn [app]. rewrite pr_error by (try assumption; lia). rewrite E. reflexivity.
  - rewrite <- !app_assoc. cbn [app]. rewrite pr_extra by exact Hwe.
    rewrite pr_error by (try assumption; lia). rewrite norm_resp_with_flags. reflexivity.
Qed.

(** no_result requests get no response at all; an oversized response is refused *)
Lemma prepare_response_noresult qid mask tl2 e err body :
  bit mask 7 = true -> prepare_response qid mask tl2 e err body = PNoResult.
Proof. intros H. unfold prepare_response. rewrite H. reflexivity. Qed.

(** * Responses through a handler context, directly and across a longpoll *)
Lemma respond_direct_eq q e err body :
  respond_direct q e err body = prepare_response (q_id q) (rq_flags (q_extra q)) (q_tl2 q) e err body.
Proof. reflexivity. Qed.

(** the longpoll save / restore loses nothing that the response depends on: in particular the request's
    flags word (requestExtraFieldsmask), the body format and the no_result bit *)
Lemma longpoll_preserves_request_mask q :
  let '(qid, l) := start_longpoll (hctx_of_request q) in
  finish_longpoll qid l = hctx_of_request q /\
  hf_mask (h_fields (finish_longpoll qid l)) = rq_flags (q_extra q).
Proof. destruct q. cbn. split; reflexivity. Qed.

Lemma respond_longpoll_eq q e err body :
  respond_longpoll q e err body = prepare_response (q_id q) (rq_flags (q_extra q)) (q_tl2 q) e err body.
Proof. reflexivity. Qed.

(** end to end over the longpoll path: the client sees the extra restricted to what its request asked for *)
Theorem longpoll_response_roundtrip qid actor re tl2 rbody tag rw e body w :
  u64 qid -> u64 actor -> req_extra_ok re -> body_starts rbody tag -> ~ is_wrapper_tag tag ->
  prepare_request qid actor re tl2 rbody = Some rw ->
  resp_extra_ok e ->
  (tl2 = false -> exists t, body_starts body t /\ ~ is_resp_special t) ->
  match parse_request rw with
  | Ok q => respond_longpoll q e None body = PWire w ->
            parse_response tl2 w = Ok {| a_id := qid; a_extra := norm_resp (N.land (rs_flags e) (rq_flags re)) e;
                                         a_out := OBody body |}
  | _ => False
  end.
Proof.
  intros Hq Ha Hre Hb Hn Hp He Hbody.
  rewrite (request_roundtrip _ _ _ _ _ _ _ Hq Ha Hre Hb Hn Hp).
  rewrite respond_longpoll_eq. cbn [q_id q_extra q_tl2].
  assert (Hf : rq_flags (norm_req re) = rq_flags re) by (destruct re; reflexivity).
  rewrite Hf. intro Hw. eapply response_roundtrip; eauto.
Qed.

Theorem longpoll_error_roundtrip qid actor re tl2 rbody tag rw e code desc body w :
  u64 qid -> u64 actor -> req_extra_ok re -> body_starts rbody tag -> ~ is_wrapper_tag tag ->
  prepare_request qid actor re tl2 rbody = Some rw ->
  resp_extra_ok e -> u32 code -> str_ok desc ->
  match parse_request rw with
  | Ok q => respond_longpoll q e (Some (code, desc)) body = PWire w ->
            parse_response tl2 w = Ok {| a_id := qid; a_extra := norm_resp (N.land (rs_flags e) (rq_flags re)) e;
                                         a_out := OError (if code =? 0 then unknown_code else code) desc [] |}
  | _ => False
  end.
Proof.
  intros Hq Ha Hre Hb Hn Hp He Hc Hd.
  rewrite (request_roundtrip _ _ _ _ _ _ _ Hq Ha Hre Hb Hn Hp).
  rewrite respond_longpoll_eq. cbn [q_id q_extra q_tl2].
  assert (Hf : rq_flags (norm_req re) = rq_flags re) by (destruct re; reflexivity).
  rewrite Hf. intro Hw. eapply response_error_roundtrip; eauto.
Qed.
