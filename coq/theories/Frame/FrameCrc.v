(** CRC-32 algebra for M9 [Frame]: the register is a linear map over GF(2); a message followed by its
    own CRC leaves a fixed residue; every error pattern confined to 32 consecutive bits (in
    transmission order) is detected. Holds for every reflected polynomial with bit 31 set
    (the x^0 term of the generator) below 2^32: crc32.IEEE and crc32.Castagnoli. *)
From Coq Require Import ZArith Lia ZifyN ZifyNat ZifyBool.
From TLV Require Import Prim.PrimModel Prim.PrimProofs Frame.FrameModel.
Ltac Zify.zify_post_hook ::= Z.div_mod_to_equations.
Open Scope N_scope.

Definition good_poly (P : N) : Prop := 2 ^ 31 <= P < 2 ^ 32.

Lemma good_poly_ieee : good_poly poly_ieee.
Proof. unfold good_poly, poly_ieee. lia. Qed.
Lemma good_poly_castagnoli : good_poly poly_castagnoli.
Proof. unfold good_poly, poly_castagnoli. lia. Qed.

(** ** bounds *)
Lemma lt_pow2_testbit a n : a < 2 ^ n -> forall m, n <= m -> N.testbit a m = false.
Proof.
  intros H m Hm. rewrite N.testbit_eqb.
  assert (a < 2 ^ m) by (eapply N.lt_le_trans; [exact H|apply N.pow_le_mono_r; lia]).
  rewrite N.div_small by assumption. reflexivity.
Qed.

Lemma testbit_lt_pow2 a n : (forall m, n <= m -> N.testbit a m = false) -> a < 2 ^ n.
Proof.
  intros H. destruct (N.eq_dec a 0) as [->|Hz].
  - apply N.neq_0_lt_0, N.pow_nonzero. lia.
  - apply N.log2_lt_pow2; [lia|].
    destruct (N.lt_ge_cases (N.log2 a) n) as [|Hge]; [assumption|].
    specialize (H _ Hge). rewrite N.bit_log2 in H by assumption. discriminate.
Qed.

Lemma lxor_lt_pow2 a b n : a < 2 ^ n -> b < 2 ^ n -> N.lxor a b < 2 ^ n.
Proof.
  intros Ha Hb. apply testbit_lt_pow2. intros m Hm.
  rewrite N.lxor_spec, (lt_pow2_testbit a n), (lt_pow2_testbit b n); auto.
Qed.

Lemma shiftr1_lt a n : a < 2 ^ N.succ n -> N.shiftr a 1 < 2 ^ n.
Proof.
  intros H. rewrite N.shiftr_div_pow2. rewrite N.pow_succ_r' in H. change (2 ^ 1) with 2.
  apply N.div_lt_upper_bound; lia.
Qed.

(** ** one register step *)
Lemma crc_step_lxor P a b : crc_step P (N.lxor a b) = N.lxor (crc_step P a) (crc_step P b).
Proof.
  unfold crc_step. rewrite Nxor_bit0, N.shiftr_lxor.
  destruct (N.odd a), (N.odd b); cbn [xorb];
    apply N.bits_inj; intro n; rewrite ?N.lxor_spec;
    destruct (N.testbit (N.shiftr a 1) n), (N.testbit (N.shiftr b 1) n), (N.testbit P n); reflexivity.
Qed.

Lemma crc_step_0 P : crc_step P 0 = 0.
Proof. reflexivity. Qed.

Lemma crc_step_double P v : crc_step P (2 * v) = v.
Proof.
  unfold crc_step. rewrite N.odd_mul, N.odd_2. cbn [andb].
  rewrite <- N.div2_spec. apply N.div2_double.
Qed.

Lemma crc_step_lt P c : P < 2 ^ 32 -> c < 2 ^ 32 -> crc_step P c < 2 ^ 32.
Proof.
  intros HP Hc. unfold crc_step.
  assert (N.shiftr c 1 < 2 ^ 31) by (apply shiftr1_lt; exact Hc).
  destruct (N.odd c).
  - apply lxor_lt_pow2; [|assumption]. eapply N.lt_trans; [eassumption|]. reflexivity.
  - eapply N.lt_trans; [eassumption|]. reflexivity.
Qed.

Lemma crc_step_nonzero P c : good_poly P -> c < 2 ^ 32 -> c <> 0 -> crc_step P c <> 0.
Proof.
  intros [HP1 HP2] Hc Hz. unfold crc_step.
  assert (Hs : N.shiftr c 1 < 2 ^ 31) by (apply shiftr1_lt; exact Hc).
  destruct (N.odd c) eqn:Ho.
  - intro E. apply N.lxor_eq in E. lia.
  - intro E. rewrite N.shiftr_div_pow2 in E. change (2 ^ 1) with 2 in E.
    assert (N.even c = true) by (rewrite <- N.negb_odd, Ho; reflexivity).
    apply N.even_spec in H. destruct H as [k ->]. lia.
Qed.

(** ** several steps *)
Lemma crc_steps_add a b P c : crc_steps (a + b) P c = crc_steps b P (crc_steps a P c).
Proof. revert c; induction a as [|a IH]; intros c; cbn [crc_steps Nat.add]; [reflexivity|apply IH]. Qed.

Lemma crc_steps_lxor k P a b : crc_steps k P (N.lxor a b) = N.lxor (crc_steps k P a) (crc_steps k P b).
Proof.
  revert a b; induction k as [|k IH]; intros a b; cbn [crc_steps]; [reflexivity|].
  rewrite crc_step_lxor. apply IH.
Qed.

Lemma crc_steps_0 k P : crc_steps k P 0 = 0.
Proof. induction k as [|k IH]; cbn [crc_steps]; [reflexivity|]. rewrite crc_step_0. exact IH. Qed.

Lemma crc_steps_shifted k P v : crc_steps k P (v * 2 ^ N.of_nat k) = v.
Proof.
  revert v; induction k as [|k IH]; intros v; cbn [crc_steps].
  - cbn. lia.
  - replace (v * 2 ^ N.of_nat (S k)) with (2 * (v * 2 ^ N.of_nat k)).
    + rewrite crc_step_double. apply IH.
    + replace (N.of_nat (S k)) with (N.succ (N.of_nat k)) by lia. rewrite N.pow_succ_r'. lia.
Qed.

Lemma crc_steps_lt k P c : P < 2 ^ 32 -> c < 2 ^ 32 -> crc_steps k P c < 2 ^ 32.
Proof.
  intros HP. revert c; induction k as [|k IH]; intros c Hc; cbn [crc_steps]; [exact Hc|].
  apply IH. apply crc_step_lt; assumption.
Qed.

Lemma crc_steps_nonzero k P c : good_poly P -> c < 2 ^ 32 -> c <> 0 -> crc_steps k P c <> 0.
Proof.
  intros HP. revert c; induction k as [|k IH]; intros c Hc Hz; cbn [crc_steps]; [exact Hz|].
  apply IH; [apply crc_step_lt; [apply HP|exact Hc]|apply crc_step_nonzero; assumption].
Qed.

Lemma crc_steps_inj k P a b : good_poly P -> a < 2 ^ 32 -> b < 2 ^ 32 ->
  crc_steps k P a = crc_steps k P b -> a = b.
Proof.
  intros HP Ha Hb E. apply N.lxor_eq.
  destruct (N.eq_dec (N.lxor a b) 0) as [|Hz]; [assumption|exfalso].
  apply (crc_steps_nonzero k P (N.lxor a b) HP); [apply lxor_lt_pow2; assumption|exact Hz|].
  rewrite crc_steps_lxor, E. apply N.lxor_nilpotent.
Qed.

(** ** the register over a byte string is [8 * length] steps on the string read as a little-endian
    integer (least significant bit first: the transmission order of the reflected CRC) *)
Lemma byte_add_lxor b L : b < 256 -> b + 256 * L = N.lxor b (L * 2 ^ 8).
Proof.
  intros Hb. replace (256 * L) with (L * 2 ^ 8) by (change (2 ^ 8) with 256; lia).
  apply N.add_nocarry_lxor. apply N.bits_inj. intro n. rewrite N.land_spec, N.bits_0.
  destruct (N.lt_ge_cases n 8) as [Hn|Hn].
  - rewrite N.mul_pow2_bits_low by assumption. apply andb_false_r.
  - rewrite (lt_pow2_testbit b 8) by (try assumption; change (2 ^ 8) with 256; assumption). reflexivity.
Qed.

Lemma crc_raw_cons P c b r : crc_raw P c (b :: r) = crc_raw P (crc_byte P c b) r.
Proof. reflexivity. Qed.

Lemma crc_raw_app P c a b : crc_raw P c (a ++ b) = crc_raw P (crc_raw P c a) b.
Proof. unfold crc_raw. apply fold_left_app. Qed.

Theorem crc_raw_steps P w : bytes_ok w -> forall c,
  crc_raw P c w = crc_steps (8 * length w) P (N.lxor c (le_val w)).
Proof.
  induction w as [|b r IH]; intros Hok c.
  - cbn. now rewrite N.lxor_0_r.
  - apply bytes_ok_cons_inv in Hok. destruct Hok as [Hb Hr].
    rewrite crc_raw_cons, (IH Hr). cbn [length le_val].
    replace (8 * S (length r))%nat with (8 + 8 * length r)%nat by lia.
    rewrite crc_steps_add. f_equal. unfold crc_byte.
    rewrite byte_add_lxor by assumption.
    rewrite <- N.lxor_assoc, (crc_steps_lxor 8 P (N.lxor c b) (le_val r * 2 ^ 8)).
    change (2 ^ 8) with (2 ^ N.of_nat 8). rewrite (crc_steps_shifted 8). reflexivity.
Qed.

Lemma crc_raw_lt P c w : P < 2 ^ 32 -> c < 2 ^ 32 -> bytes_ok w -> crc_raw P c w < 2 ^ 32.
Proof.
  intros HP. revert c; induction w as [|b r IH]; intros c Hc Hok; [exact Hc|].
  apply bytes_ok_cons_inv in Hok. destruct Hok as [Hb Hr].
  rewrite crc_raw_cons. apply IH; [|exact Hr]. unfold crc_byte.
  apply crc_steps_lt; [exact HP|]. apply lxor_lt_pow2; [exact Hc|].
  eapply N.lt_trans; [exact Hb|]. reflexivity.
Qed.

Lemma mask32_lt : mask32 < 2 ^ 32.
Proof. reflexivity. Qed.

Lemma crc_update_lt P crc w : P < 2 ^ 32 -> crc < 2 ^ 32 -> bytes_ok w -> crc_update P crc w < 2 ^ 32.
Proof.
  intros HP Hc Hok. unfold crc_update. apply lxor_lt_pow2; [|apply mask32_lt].
  apply crc_raw_lt; try assumption. apply lxor_lt_pow2; [assumption|apply mask32_lt].
Qed.

(** ** the residue: a message followed by its CRC (little-endian) drives the register to a constant *)
Definition residue (P : N) : N := crc_steps 32 P mask32.

Lemma le_val_lt_4 C : bytes_ok C -> length C = 4%nat -> le_val C < 2 ^ 32.
Proof.
  intros Hok Hl. pose proof (le_val_bound C Hok) as H. unfold lenN in H. rewrite Hl in H. exact H.
Qed.

Theorem crc_accept_residue P M C : good_poly P -> bytes_ok M -> bytes_ok C -> length C = 4%nat ->
  le_val C = crc_update P 0 M -> crc_raw P mask32 (M ++ C) = residue P.
Proof.
  intros HP HM HC HL E. rewrite crc_raw_app, (crc_raw_steps P C HC), HL. change (8 * 4)%nat with 32%nat.
  unfold residue. f_equal. rewrite E. unfold crc_update. rewrite N.lxor_0_l.
  rewrite <- N.lxor_assoc, N.lxor_nilpotent. apply N.lxor_0_l.
Qed.

Lemma le_val_app a b : bytes_ok a -> le_val (a ++ b) = N.lxor (le_val a) (le_val b * 2 ^ (8 * lenN a)).
Proof.
  induction a as [|x a IH]; intros Hok.
  - cbn [app le_val]. unfold lenN. cbn. lia.
  - apply bytes_ok_cons_inv in Hok. destruct Hok as [Hx Ha].
    cbn [app le_val]. rewrite (IH Ha), !byte_add_lxor by assumption.
    rewrite lenN_cons. replace (8 * (1 + lenN a)) with (8 * lenN a + 8) by lia.
    rewrite N.pow_add_r, N.mul_assoc.
    rewrite <- !N.shiftl_mul_pow2, N.shiftl_lxor, N.lxor_assoc. reflexivity.
Qed.

(** ** burst detection *)
Theorem crc_detects_burst P M M' C' v t :
  good_poly P -> bytes_ok M -> bytes_ok M' -> bytes_ok C' -> length C' = 4%nat ->
  length M' = length M ->
  N.lxor (le_val (M ++ nat_w (crc_update P 0 M))) (le_val (M' ++ C')) = v * 2 ^ t ->
  0 < v < 2 ^ 32 ->
  le_val C' <> crc_update P 0 M'.
Proof.
  intros HP HM HM' HC' HL' HLM Hd Hv Hacc.
  set (C := nat_w (crc_update P 0 M)) in *.
  assert (HC : bytes_ok C) by apply le_bytes_ok.
  assert (HL : length C = 4%nat) by apply le_bytes_length.
  assert (HCv : le_val C = crc_update P 0 M).
  { unfold C, nat_w. apply le_val_small. apply crc_update_lt; [apply HP|reflexivity|exact HM]. }
  pose proof (crc_accept_residue P M C HP HM HC HL HCv) as R1.
  pose proof (crc_accept_residue P M' C' HP HM' HC' HL' Hacc) as R2.
  assert (HT : bytes_ok (M ++ C)) by (apply Forall_app; split; assumption).
  assert (HT' : bytes_ok (M' ++ C')) by (apply Forall_app; split; assumption).
  rewrite (crc_raw_steps P _ HT) in R1. rewrite (crc_raw_steps P _ HT') in R2.
  assert (Hn : length (M' ++ C') = length (M ++ C)) by (rewrite !app_length, HLM, HL, HL'; reflexivity).
  rewrite Hn in R2. set (n := (8 * length (M ++ C))%nat) in *.
  (* the two register values differ by the image of the error pattern *)
  assert (Hz : crc_steps n P (v * 2 ^ t) = 0).
  { rewrite <- Hd, crc_steps_lxor.
    replace (crc_steps n P (le_val (M ++ C))) with (N.lxor (crc_steps n P mask32) (residue P))
      by (rewrite <- R1, crc_steps_lxor, <- N.lxor_assoc, N.lxor_nilpotent; apply N.lxor_0_l).
    replace (crc_steps n P (le_val (M' ++ C'))) with (N.lxor (crc_steps n P mask32) (residue P))
      by (rewrite <- R2, crc_steps_lxor, <- N.lxor_assoc, N.lxor_nilpotent; apply N.lxor_0_l).
    apply N.lxor_nilpotent. }
  (* the pattern lies inside the stream: t < 8 * length *)
  assert (Ht : t < N.of_nat n).
  { pose proof (le_val_bound _ HT) as B1. pose proof (le_val_bound _ HT') as B2.
    assert (B : v * 2 ^ t < 2 ^ N.of_nat n).
    { rewrite <- Hd. unfold n. replace (N.of_nat (8 * length (M ++ C))) with (8 * lenN (M ++ C)) by (unfold lenN; lia).
      apply lxor_lt_pow2; rewrite N.pow_mul_r; change (2 ^ 8) with 256.
      - exact B1.
      - unfold lenN in *. rewrite <- Hn. exact B2. }
    apply (N.pow_lt_mono_r_iff 2); [lia|].
    eapply N.le_lt_trans; [|exact B]. nia. }
  replace n with (N.to_nat t + (n - N.to_nat t))%nat in Hz by lia.
  rewrite crc_steps_add in Hz.
  replace (v * 2 ^ t) with (v * 2 ^ N.of_nat (N.to_nat t)) in Hz by (rewrite N2Nat.id; reflexivity).
  rewrite crc_steps_shifted in Hz.
  revert Hz. apply crc_steps_nonzero; [exact HP|lia|lia].
Qed.

(** ** error patterns given as byte strings: a window of at most 4 consecutive bytes *)
Lemma lxor_cancel_l a x y : N.lxor (N.lxor a x) (N.lxor a y) = N.lxor x y.
Proof.
  apply N.bits_inj. intro n. rewrite !N.lxor_spec.
  destruct (N.testbit a n), (N.testbit x n), (N.testbit y n); reflexivity.
Qed.

Lemma lxor_cancel_r a x y : N.lxor (N.lxor x a) (N.lxor y a) = N.lxor x y.
Proof.
  apply N.bits_inj. intro n. rewrite !N.lxor_spec.
  destruct (N.testbit a n), (N.testbit x n), (N.testbit y n); reflexivity.
Qed.

Lemma lxor_le_val_window a w w' z :
  bytes_ok a -> bytes_ok w -> bytes_ok w' -> length w = length w' ->
  N.lxor (le_val (a ++ w ++ z)) (le_val (a ++ w' ++ z)) = N.lxor (le_val w) (le_val w') * 2 ^ (8 * lenN a).
Proof.
  intros Ha Hw Hw' Hl.
  rewrite !(le_val_app a) by assumption. rewrite lxor_cancel_l.
  rewrite !(le_val_app w), !(le_val_app w') by assumption.
  unfold lenN. rewrite Hl. rewrite <- !N.shiftl_mul_pow2, <- N.shiftl_lxor. f_equal.
  rewrite !N.shiftl_mul_pow2. apply lxor_cancel_r.
Qed.

Lemma le_val_inj w w' : bytes_ok w -> bytes_ok w' -> length w = length w' -> le_val w = le_val w' -> w = w'.
Proof.
  intros Hw Hw' Hl E. rewrite <- (le_bytes_le_val w Hw), <- (le_bytes_le_val w' Hw'), Hl, E. reflexivity.
Qed.

Lemma le_val_lt_32 w : bytes_ok w -> (length w <= 4)%nat -> le_val w < 2 ^ 32.
Proof.
  intros Hw Hl. pose proof (le_val_bound w Hw) as B.
  eapply N.lt_le_trans; [exact B|]. change (2 ^ 32) with (256 ^ 4).
  apply N.pow_le_mono_r; unfold lenN; lia.
Qed.

(** flipping bits inside at most 4 consecutive bytes of message ++ CRC is always detected *)
Theorem crc_detects_window P M M' C' a w w' z :
  good_poly P -> bytes_ok M -> bytes_ok M' -> bytes_ok C' -> length C' = 4%nat -> length M' = length M ->
  M ++ nat_w (crc_update P 0 M) = a ++ w ++ z ->
  M' ++ C' = a ++ w' ++ z ->
  length w = length w' -> (length w <= 4)%nat -> w <> w' ->
  le_val C' <> crc_update P 0 M'.
Proof.
  intros HP HM HM' HC' HL' HLM E E' Hl Hl4 Hne.
  assert (HT : bytes_ok (a ++ w ++ z)).
  { rewrite <- E. apply Forall_app. split; [exact HM|apply le_bytes_ok]. }
  assert (HT' : bytes_ok (a ++ w' ++ z)).
  { rewrite <- E'. apply Forall_app. split; assumption. }
  apply Forall_app in HT. destruct HT as [Ha HT]. apply Forall_app in HT. destruct HT as [Hw Hz].
  apply Forall_app in HT'. destruct HT' as [_ HT']. apply Forall_app in HT'. destruct HT' as [Hw' _].
  apply (crc_detects_burst P M M' C' (N.lxor (le_val w) (le_val w')) (8 * lenN a)); try assumption.
  - rewrite E, E'. apply lxor_le_val_window; assumption.
  - split.
    + apply N.neq_0_lt_0. intro Z. apply N.lxor_eq in Z. apply Hne. apply le_val_inj; assumption.
    + apply lxor_lt_pow2; apply le_val_lt_32; try assumption. rewrite <- Hl. exact Hl4.
Qed.
