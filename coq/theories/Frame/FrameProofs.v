(** Proofs about M9 [Frame]: writer = [frames]; the reader returns exactly the packets written, for every
    list of write operations and every chunking of the stream; a corrupted frame is rejected. *)
From Coq Require Import ZArith Lia ZifyN ZifyNat ZifyBool.
From TLV Require Import Prim.PrimModel Prim.PrimProofs Frame.FrameModel Frame.FrameCrc.
Ltac Zify.zify_post_hook ::= Z.div_mod_to_equations.
Open Scope N_scope.

#[local] Arguments nat_w : simpl never.
#[local] Arguments header_bytes : simpl never.
#[local] Arguments zeros : simpl never.
#[local] Arguments crc_update : simpl never.
#[local] Arguments le_val : simpl never.
#[local] Arguments pad_bytes : simpl never.
#[local] Arguments frame : simpl never.

Lemma some_pair_inj {A B} (a a' : A) (b b' : B) : Some (a, b) = Some (a', b') -> a = a' /\ b = b'.
Proof. intros H. inversion H. auto. Qed.
Lemma pair_inj {A B} (a a' : A) (b b' : B) : (a, b) = (a', b') -> a = a' /\ b = b'.
Proof. intros H. inversion H. auto. Qed.

(** * split_at / take *)
Lemma split_at_0 bs : split_at bs 0 = Some ([], bs).
Proof. destruct bs; reflexivity. Qed.

Lemma split_at_cons b r n : n <> 0 ->
  split_at (b :: r) n = match split_at r (N.pred n) with Some (a, t) => Some (b :: a, t) | None => None end.
Proof. intros H. cbn [split_at]. destruct (N.eqb_spec n 0); [contradiction|reflexivity]. Qed.

Lemma split_at_app a r : split_at (a ++ r) (lenN a) = Some (a, r).
Proof.
  induction a as [|x a IH].
  - apply split_at_0.
  - cbn [app]. rewrite split_at_cons by (rewrite lenN_cons; lia).
    replace (N.pred (lenN (x :: a))) with (lenN a) by (rewrite lenN_cons; lia).
    rewrite IH. reflexivity.
Qed.

Lemma split_at_app_n a r n : lenN a = n -> split_at (a ++ r) n = Some (a, r).
Proof. intros <-. apply split_at_app. Qed.

Lemma split_at_spec bs : forall n a t, split_at bs n = Some (a, t) -> bs = a ++ t /\ lenN a = n.
Proof.
  induction bs as [|b r IH]; intros n a t H.
  - cbn [split_at] in H. destruct (N.eqb_spec n 0); [|discriminate]. inversion H; subst. split; reflexivity.
  - destruct (N.eq_dec n 0) as [->|Hn].
    + rewrite split_at_0 in H. inversion H; subst. split; reflexivity.
    + rewrite split_at_cons in H by assumption.
      destruct (split_at r (N.pred n)) as [[a' t']|] eqn:E; [|discriminate].
      inversion H; subst. apply IH in E. destruct E as [-> El]. split; [reflexivity|].
      rewrite lenN_cons. lia.
Qed.

Lemma split_at_none bs : forall n, split_at bs n = None <-> lenN bs < n.
Proof.
  induction bs as [|b r IH]; intros n.
  - cbn [split_at]. change (lenN (@nil N)) with 0. destruct (N.eqb_spec n 0); split; intros; try discriminate; try lia; reflexivity.
  - destruct (N.eq_dec n 0) as [->|Hn].
    + rewrite split_at_0. split; [discriminate|lia].
    + rewrite split_at_cons by assumption. rewrite lenN_cons.
      destruct (split_at r (N.pred n)) as [[a' t']|] eqn:E.
      * split; [discriminate|]. intros Hlt. exfalso.
        assert (split_at r (N.pred n) = None) by (apply IH; lia). congruence.
      * split; [|reflexivity]. intros _. apply IH in E. lia.
Qed.

Lemma split_at_some bs n : n <= lenN bs -> exists a t, split_at bs n = Some (a, t).
Proof.
  intros H. destruct (split_at bs n) as [[a t]|] eqn:E; [eauto|].
  apply split_at_none in E. lia.
Qed.

Lemma take_flat_app a r : take_flat (lenN a) (a ++ r) = TOk a r.
Proof. unfold take_flat. rewrite split_at_app. reflexivity. Qed.

Lemma take_flat_app_n a r n : lenN a = n -> take_flat n (a ++ r) = TOk a r.
Proof. intros <-. apply take_flat_app. Qed.

Lemma take_flat_nil n : n <> 0 -> take_flat n [] = TEmpty.
Proof. intros H. unfold take_flat. cbn [split_at]. destruct (N.eqb_spec n 0); [contradiction|reflexivity]. Qed.

(** * the writer produces [frames] *)
Definition pos_total (st : wstate) : N := w_pos st + lenN (w_pend st).

Lemma frame_eq c seq p :
  frame c seq p =
  header_bytes (lenN (p_body p) + packetOverhead) seq (p_type p) ++ p_body p ++
  nat_w (crc_update (poly_at c seq) 0 (header_bytes (lenN (p_body p) + packetOverhead) seq (p_type p) ++ p_body p))
  ++ zeros (align_of c (lenN (p_body p))).
Proof. reflexivity. Qed.

Theorem write_ops_frames c ops : forall st out st',
  write_ops c st ops = Some (out, st') ->
  w_pend st ++ frames c (w_seq st) (pos_total st) ops = out ++ w_pend st'
  /\ pos_total st' = pos_total st + lenN (frames c (w_seq st) (pos_total st) ops)
  /\ w_seq st' = (w_seq st + Z.of_nat (length (packets_of ops)))%Z.
Proof.
  induction ops as [|op r IH]; intros st out st' H.
  - cbn in H. inversion H; subst. cbn [frames packets_of length]. rewrite app_nil_r, lenN_nil. repeat split; lia.
  - destruct op as [p|]; cbn [write_ops] in H.
    + destruct (write_packet c st p) as [[o st1]|] eqn:W; [|discriminate].
      destruct (write_ops c st1 r) as [[o2 st2]|] eqn:R; [|discriminate].
      apply some_pair_inj in H. destruct H as [<- <-].
      unfold write_packet in W.
      destruct (maxPacketLen - packetOverhead <? lenN (p_body p)); [discriminate|].
      destruct ((pv_at c (w_seq st) =? 0) && negb (lenN (p_body p) mod 4 =? 0))%bool; [discriminate|].
      apply some_pair_inj in W. destruct W as [<- <-].
      specialize (IH _ _ _ R). cbn [w_seq w_pend w_pos] in IH.
      set (h := header_bytes (lenN (p_body p) + packetOverhead) (w_seq st) (p_type p)) in *.
      set (pend1 := nat_w (crc_update (poly_at c (w_seq st)) 0 (h ++ p_body p)) ++ zeros (align_of c (lenN (p_body p)))) in *.
      assert (Hf : frame c (w_seq st) p = h ++ p_body p ++ pend1).
      { rewrite frame_eq. reflexivity. }
      assert (Hp : pos_total {| w_seq := (w_seq st + 1)%Z; w_pend := pend1; w_pos := w_pos st + lenN (w_pend st ++ h ++ p_body p) |}
                   = pos_total st + lenN (frame c (w_seq st) p)).
      { unfold pos_total. cbn [w_pos w_pend]. rewrite Hf. repeat rewrite lenN_app. lia. }
      rewrite Hp in IH. destruct IH as (IH1 & IH2 & IH3).
      cbn [frames packets_of length]. fold (pos_total st) in *.
      repeat split.
      * rewrite <- !app_assoc. rewrite <- IH1. rewrite Hf at 1. rewrite <- !app_assoc. reflexivity.
      * rewrite IH2. rewrite lenN_app. unfold pos_total. lia.
      * rewrite IH3. lia.
    + destruct (write_flush c st) as [o st1] eqn:W.
      destruct (write_ops c st1 r) as [[o2 st2]|] eqn:R; [|discriminate].
      apply some_pair_inj in H. destruct H as [<- <-].
      unfold write_flush in W. apply pair_inj in W. destruct W as [<- <-].
      specialize (IH _ _ _ R). cbn [w_seq w_pend w_pos] in IH.
      fold (pos_total st) in *.
      assert (Hp : pos_total {| w_seq := w_seq st; w_pend := []; w_pos := w_pos st + lenN (w_pend st ++ pad_bytes c (pos_total st)) |}
                   = pos_total st + lenN (pad_bytes c (pos_total st))).
      { unfold pos_total. cbn [w_pos w_pend]. rewrite lenN_app, lenN_nil. lia. }
      rewrite Hp in IH. destruct IH as (IH1 & IH2 & IH3). cbn [app] in IH1.
      cbn [frames packets_of]. repeat split.
      * rewrite <- !app_assoc. rewrite IH1. reflexivity.
      * rewrite IH2. rewrite lenN_app. lia.
      * exact IH3.
Qed.

(** with nothing pending at the start and a final flush, the wire is exactly [frames] *)
Corollary write_ops_flushed c seq pos ops out st' :
  write_ops c {| w_seq := seq; w_pend := []; w_pos := pos |} (ops ++ [WFlush]) = Some (out, st') ->
  out = frames c seq pos (ops ++ [WFlush]).
Proof.
  intros H. pose proof (write_ops_frames c _ _ _ _ H) as (H1 & _ & _).
  cbn [w_pend w_seq app] in H1. unfold pos_total in H1. cbn [w_pos w_pend] in H1. rewrite lenN_nil, N.add_0_r in H1.
  assert (w_pend st' = []) as E.
  { clear H1. revert H. generalize {| w_seq := seq; w_pend := []; w_pos := pos |}. revert out st'.
    induction ops as [|op r IH]; intros out st' st H.
    - cbn in H. inversion H; subst. reflexivity.
    - destruct op as [p|]; cbn [app write_ops] in H.
      + destruct (write_packet c st p) as [[o st1]|]; [|discriminate].
        destruct (write_ops c st1 (r ++ [WFlush])) as [[o2 st2]|] eqn:R; [|discriminate].
        inversion H; subst. eapply IH; eassumption.
      + destruct (write_flush c st) as [o st1].
        destruct (write_ops c st1 (r ++ [WFlush])) as [[o2 st2]|] eqn:R; [|discriminate].
        inversion H; subst. eapply IH; eassumption. }
  rewrite E, app_nil_r in H1. symmetry. exact H1.
Qed.

(** * the reader on one frame *)
Definition padwords (k : nat) : bytes := concat (repeat (nat_w padVal) k).

Definition cfg_ok (c : cfg) : Prop := c_poly c < 2 ^ 32.

(** packets the theorem speaks about: what a user of PacketConn can send at sequence number [seq] *)
Definition pkt_ok (c : cfg) (seq : Z) (p : packet) : Prop :=
  bytes_ok (p_body p)
  /\ lenN (p_body p) <= maxPacketLen - packetOverhead
  /\ (pv_at c seq = 0 -> lenN (p_body p) mod 4 = 0)
  /\ p_type p < 2 ^ 32
  /\ p_type p <> tag_rpcPing /\ p_type p <> tag_rpcPong
  /\ ((seq < 0)%Z ->
      (seq = startSeq -> p_type p = packetTypeRPCNonce)
      /\ (seq = (startSeq + 1)%Z -> p_type p = packetTypeRPCHandshake)
      /\ lenN (p_body p) + packetOverhead <= maxNonceHandshakeLen).

Lemma lenN_nat_w v : lenN (nat_w v) = 4.
Proof. unfold nat_w. rewrite lenN_le_bytes. reflexivity. Qed.

Lemma le_val_nat_w v : v < 2 ^ 32 -> le_val (nat_w v) = v.
Proof. intros H. unfold nat_w. apply le_val_small. exact H. Qed.

Lemma u32_of_seq_lt s : u32_of_seq s < 2 ^ 32.
Proof. unfold u32_of_seq. pose proof (Z.mod_pos_bound s 4294967296). lia. Qed.

Lemma poly_at_lt c seq : cfg_ok c -> poly_at c seq < 2 ^ 32.
Proof. intros H. unfold poly_at. destruct (seq <? 0)%Z; [reflexivity|exact H]. Qed.

Lemma lenN_header len seq typ : lenN (header_bytes len seq typ) = 12.
Proof. unfold header_bytes. rewrite !lenN_app, !lenN_nat_w. reflexivity. Qed.

Lemma header_ok len seq typ : bytes_ok (header_bytes len seq typ).
Proof. unfold header_bytes, nat_w. repeat (apply Forall_app; split); apply le_bytes_ok. Qed.

Lemma padwords_S k : padwords (S k) = nat_w padVal ++ padwords k.
Proof. reflexivity. Qed.

Lemma padwords_add a b : padwords (a + b) = padwords a ++ padwords b.
Proof. unfold padwords. rewrite repeat_app, concat_app. reflexivity. Qed.

Lemma skip_pad_words k : forall fuel w rest,
  (k < fuel)%nat -> lenN w = 4 -> le_val w <> padVal ->
  skip_pad bytes take_flat fuel (padwords k ++ w ++ rest) = HGot w rest.
Proof.
  induction k as [|k IH]; intros fuel w rest Hf Hl Hv; (destruct fuel as [|fuel]; [lia|]); cbn [skip_pad].
  - cbn [padwords repeat concat app]. rewrite take_flat_app_n by assumption.
    destruct (N.eqb_spec (le_val w) padVal); [contradiction|reflexivity].
  - rewrite padwords_S, <- app_assoc. rewrite take_flat_app_n by apply lenN_nat_w.
    rewrite le_val_nat_w by reflexivity. rewrite N.eqb_refl. apply IH; [lia|assumption|assumption].
Qed.

Lemma read_hdr12_frame k len seq typ rest :
  (k <= 3)%nat -> (seq = startSeq -> k = 0%nat) -> len < 2 ^ 32 -> len <> padVal ->
  read_hdr12 bytes take_flat seq (padwords k ++ header_bytes len seq typ ++ rest)
  = HGot (header_bytes len seq typ) rest.
Proof.
  intros Hk Hs Hl Hp. unfold read_hdr12. destruct (Z.eqb_spec seq startSeq) as [E|E].
  - rewrite (Hs E). cbn [padwords repeat concat app].
    rewrite take_flat_app_n by apply lenN_header. reflexivity.
  - unfold header_bytes. rewrite <- !app_assoc.
    change (N.to_nat (blockSize / 4)) with 4%nat.
    rewrite skip_pad_words; [|lia|apply lenN_nat_w|rewrite le_val_nat_w; assumption].
    rewrite app_assoc. rewrite take_flat_app_n by (rewrite lenN_app, !lenN_nat_w; reflexivity).
    reflexivity.
Qed.

Lemma all_zero_zeros' n : all_zero (zeros n) = true.
Proof. apply all_zero_zeros. Qed.

Lemma read_body_frame c seq h12 body tail :
  cfg_ok c -> bytes_ok h12 -> bytes_ok body ->
  read_body bytes take_flat c seq h12 (lenN body + packetOverhead)
    (body ++ nat_w (crc_update (poly_at c seq) 0 (h12 ++ body)) ++ zeros (align_of c (lenN body)) ++ tail)
  = BOk body tail.
Proof.
  intros Hc Hh Hb. unfold read_body.
  replace (lenN body + packetOverhead - packetOverhead) with (lenN body) by lia.
  assert (Hal : align_of c (lenN body + packetOverhead) = align_of c (lenN body)).
  { unfold align_of. destruct (c_enc c); [|reflexivity]. unfold padding_len, packetOverhead. f_equal. f_equal. lia. }
  rewrite Hal.
  set (crcw := nat_w (crc_update (poly_at c seq) 0 (h12 ++ body))).
  set (al := zeros (align_of c (lenN body))).
  replace (body ++ crcw ++ al ++ tail) with ((body ++ crcw ++ al) ++ tail) by (rewrite <- !app_assoc; reflexivity).
  rewrite take_flat_app_n by (unfold crcw, al; rewrite !lenN_app, lenN_nat_w, zeros_length; lia).
  rewrite split_at_app. rewrite split_at_app_n by apply lenN_nat_w.
  unfold al. rewrite all_zero_zeros. cbn [negb].
  unfold crcw. rewrite le_val_nat_w.
  - rewrite N.eqb_refl. reflexivity.
  - apply crc_update_lt; [apply poly_at_lt; exact Hc|reflexivity|apply Forall_app; split; assumption].
Qed.

Theorem read_frame c seq p k tail :
  cfg_ok c -> pkt_ok c seq p -> (k <= 3)%nat -> (seq = startSeq -> k = 0%nat) ->
  read_packet bytes take_flat c seq (padwords k ++ frame c seq p ++ tail) = RPkt p (seq + 1)%Z tail.
Proof.
  intros Hc (Hb & Hlen & Hpv & Ht & Hnping & Hnpong & Hhs) Hk Hs.
  unfold read_packet. rewrite frame_eq, <- !app_assoc.
  set (len := lenN (p_body p) + packetOverhead).
  assert (Hlen32 : len < 2 ^ 32) by (unfold len, maxPacketLen, packetOverhead in *; lia).
  rewrite read_hdr12_frame; [|assumption|assumption|exact Hlen32|unfold len, padVal, packetOverhead; lia].
  unfold header_bytes at 1.
  rewrite split_at_app_n by apply lenN_nat_w.
  rewrite split_at_app_n by apply lenN_nat_w.
  rewrite !le_val_nat_w by (try assumption; apply u32_of_seq_lt).
  replace ((len <? packetOverhead) || (maxPacketLen <? len))%bool with false
    by (unfold len, maxPacketLen, packetOverhead in *; lia).
  replace ((pv_at c seq =? 0) && negb (len mod 4 =? 0))%bool with false.
  2:{ destruct (N.eqb_spec (pv_at c seq) 0) as [E|E]; [|reflexivity].
      specialize (Hpv E). unfold len, packetOverhead. cbn [andb]. lia. }
  replace ((seq <? 0)%Z && ((seq =? startSeq)%Z && negb (p_type p =? packetTypeRPCNonce)
             || (seq =? startSeq + 1)%Z && negb (p_type p =? packetTypeRPCHandshake)
             || (maxNonceHandshakeLen <? len)))%bool with false.
  2:{ destruct (Z.ltb_spec seq 0) as [E|E]; [|reflexivity]. destruct (Hhs E) as (H1 & H2 & H3). cbn [andb].
      destruct (Z.eqb_spec seq startSeq) as [E1|E1].
      - rewrite (H1 E1), N.eqb_refl. destruct (Z.eqb_spec seq (startSeq + 1)) as [E2|E2]; [lia|].
        cbn [andb orb negb]. unfold len. lia.
      - destruct (Z.eqb_spec seq (startSeq + 1)) as [E2|E2]; [rewrite (H2 E2), N.eqb_refl|];
        cbn [andb orb negb]; unfold len; lia. }
  rewrite N.eqb_refl. cbn [negb].
  destruct (N.eqb_spec (p_type p) tag_rpcPing) as [E|_]; [contradiction|].
  destruct (N.eqb_spec (p_type p) tag_rpcPong) as [E|_]; [contradiction|].
  fold (header_bytes len seq (p_type p)).
  unfold len. rewrite read_body_frame; [|assumption|apply header_ok|assumption].
  destruct p; reflexivity.
Qed.

(** * the reader on [frames] *)
Definition pad_count (c : cfg) (pos : N) : nat := N.to_nat (flush_pad c pos / 4).

Lemma lenN_padwords k : lenN (padwords k) = 4 * N.of_nat k.
Proof.
  induction k as [|k IH]; [reflexivity|].
  rewrite padwords_S, lenN_app, IH, lenN_nat_w. lia.
Qed.

Lemma pad_bytes_words c pos :
  (c_enc c = true -> pos mod 4 = 0) ->
  pad_bytes c pos = padwords (pad_count c pos)
  /\ (pad_count c pos <= 3)%nat
  /\ (c_enc c = false -> pad_count c pos = 0%nat)
  /\ (pos mod blockSize = 0 -> pad_count c pos = 0%nat)
  /\ (c_enc c = true -> (pos + lenN (pad_bytes c pos)) mod blockSize = 0).
Proof.
  intros Hal. unfold pad_bytes, pad_count, flush_pad. destruct (c_enc c) eqn:He.
  - specialize (Hal eq_refl). unfold blockSize in *.
    assert (Hm : pos mod 16 = 0 \/ pos mod 16 = 4 \/ pos mod 16 = 8 \/ pos mod 16 = 12) by lia.
    destruct Hm as [Hm|[Hm|[Hm|Hm]]]; rewrite Hm;
      (split; [vm_compute; reflexivity|]); (split; [vm_compute; lia|]); (split; [discriminate|]);
      (split; [try (intros; lia); try (vm_compute; reflexivity)|]);
      intros _; match goal with |- (pos + lenN ?x) mod 16 = 0 => let v := eval vm_compute in (lenN x) in change (lenN x) with v end; lia.
  - cbn. repeat split; try reflexivity; try lia; try discriminate.
Qed.

Fixpoint ops_ok (c : cfg) (seq : Z) (ops : list wop) : Prop :=
  match ops with
  | [] => True
  | WPkt p :: r => pkt_ok c seq p /\ ops_ok c (seq + 1)%Z r
  | WFlush :: r => ops_ok c seq r
  end.

Definition rinv (c : cfg) (seq : Z) (pos : N) (k : nat) : Prop :=
  (k <= 3)%nat
  /\ (c_enc c = false -> k = 0%nat)
  /\ ((0 < k)%nat -> pos mod blockSize = 0)
  /\ (c_enc c = true -> pos mod 4 = 0)
  /\ (startSeq <= seq)%Z
  /\ (seq = startSeq -> c_enc c = false).

Lemma lenN_frame_mod4 c seq p : c_enc c = true -> lenN (frame c seq p) mod 4 = 0.
Proof.
  intros He. rewrite frame_eq. rewrite !lenN_app, lenN_header, lenN_nat_w, zeros_length.
  unfold align_of. rewrite He. pose proof (padding_len_spec (lenN (p_body p))). lia.
Qed.

Definition prepend (ps : list packet) (r : list packet * verdict) : list packet * verdict :=
  (ps ++ fst r, snd r).

Lemma read_all_frames c : cfg_ok c -> forall ops seq pos k tail fuel,
  ops_ok c seq ops -> rinv c seq pos k ->
  exists k',
    read_all bytes take_flat c (length (packets_of ops) + fuel) seq (padwords k ++ frames c seq pos ops ++ tail)
    = prepend (packets_of ops)
        (read_all bytes take_flat c fuel (seq + Z.of_nat (length (packets_of ops)))%Z (padwords k' ++ tail))
    /\ rinv c (seq + Z.of_nat (length (packets_of ops)))%Z (pos + lenN (frames c seq pos ops)) k'.
Proof.
  intros Hc. induction ops as [|op r IH]; intros seq pos k tail fuel Hok Hinv.
  - exists k. cbn [frames packets_of length app Nat.add]. rewrite Z.add_0_r, lenN_nil, N.add_0_r.
    split; [|exact Hinv]. unfold prepend. cbn [app]. destruct (read_all _ _ _ _ _ _); reflexivity.
  - destruct op as [p|].
    + destruct Hok as [Hp Hok]. destruct Hinv as (Hk & Hne & Hk16 & H4 & Hge & Hst).
      cbn [frames packets_of length Nat.add read_all]. rewrite <- app_assoc.
      rewrite read_frame; [|assumption|assumption|assumption|intros E; apply Hne, Hst, E].
      destruct (IH (seq + 1)%Z (pos + lenN (frame c seq p)) 0%nat tail fuel Hok) as (k' & E & Hinv').
      { repeat split; try lia; try (intros He; specialize (H4 He); pose proof (lenN_frame_mod4 c seq p He); lia). }
      exists k'. cbn [padwords repeat concat app] in E. rewrite E.
      replace (seq + 1 + Z.of_nat (length (packets_of r)))%Z with (seq + Z.of_nat (S (length (packets_of r))))%Z by lia.
      split.
      * unfold prepend. destruct (read_all _ _ _ _ _ _). reflexivity.
      * rewrite lenN_app, N.add_assoc.
        replace (seq + Z.of_nat (S (length (packets_of r))))%Z with (seq + 1 + Z.of_nat (length (packets_of r)))%Z by lia.
        exact Hinv'.
    + cbn [ops_ok] in Hok. destruct Hinv as (Hk & Hne & Hk16 & H4 & Hge & Hst).
      cbn [frames packets_of].
      destruct (pad_bytes_words c pos H4) as (Epad & Hj3 & Hj0 & Hj16 & Hjal).
      set (j := pad_count c pos) in *.
      destruct (IH seq (pos + lenN (pad_bytes c pos)) (k + j)%nat tail fuel Hok) as (k' & E & Hinv').
      { rewrite Epad, lenN_padwords. unfold blockSize in *.
        assert (Hkj : k = 0%nat \/ j = 0%nat).
        { destruct k; [left; reflexivity|right]. apply Hj16, Hk16. lia. }
        unfold rinv, blockSize. split; [lia|]. split; [intros He; rewrite (Hne He), (Hj0 He); reflexivity|].
        split.
        { intros Hpos. destruct (c_enc c) eqn:He.
          - destruct Hkj as [Hz|Hz]; rewrite Hz in *.
            + specialize (Hjal eq_refl). rewrite Epad, lenN_padwords in Hjal. exact Hjal.
            + rewrite N.mul_0_r, N.add_0_r. apply Hk16. lia.
          - rewrite (Hne eq_refl), (Hj0 eq_refl) in Hpos. lia. }
        split; [intros He; specialize (H4 He); lia|]. split; [exact Hge|exact Hst]. }
      exists k'. rewrite <- app_assoc, Epad, app_assoc, <- padwords_add.
      rewrite Epad in E. rewrite E. split; [reflexivity|].
      rewrite lenN_app, N.add_assoc. rewrite Epad in Hinv'. exact Hinv'.
Qed.

Lemma read_packet_end c seq k : (k <= 3)%nat -> (seq = startSeq -> k = 0%nat) ->
  read_packet bytes take_flat c seq (padwords k) = REof.
Proof.
  intros Hk Hs. unfold read_packet, read_hdr12. destruct (Z.eqb_spec seq startSeq) as [E|E].
  - rewrite (Hs E). cbn [padwords repeat concat]. rewrite take_flat_nil by lia. reflexivity.
  - change (N.to_nat (blockSize / 4)) with 4%nat.
    assert (forall fuel, (k < fuel)%nat -> skip_pad bytes take_flat fuel (padwords k) = HEof) as H.
    { clear. induction k as [|k IH]; intros fuel Hf; (destruct fuel as [|fuel]; [lia|]); cbn [skip_pad].
      - cbn [padwords repeat concat]. rewrite take_flat_nil by lia. reflexivity.
      - rewrite padwords_S. rewrite <- (app_nil_r (padwords k)) at 1. rewrite take_flat_app_n by apply lenN_nat_w.
        rewrite le_val_nat_w by reflexivity. rewrite N.eqb_refl. rewrite app_nil_r. apply IH. lia. }
    rewrite H by lia. reflexivity.
Qed.

Lemma frames_length_ge c ops : forall seq pos, (length (packets_of ops) <= length (frames c seq pos ops))%nat.
Proof.
  induction ops as [|op r IH]; intros seq pos; [cbn; lia|].
  destruct op as [p|]; cbn [frames packets_of length]; rewrite app_length.
  - specialize (IH (seq + 1)%Z (pos + lenN (frame c seq p))).
    assert (12 <= length (frame c seq p))%nat.
    { rewrite frame_eq, app_length. pose proof (lenN_header (lenN (p_body p) + packetOverhead) seq (p_type p)) as H.
      unfold lenN in *. lia. }
    lia.
  - specialize (IH seq (pos + lenN (pad_bytes c pos))). lia.
Qed.

(** ** round trip, whole stream *)
Theorem frames_roundtrip c seq pos ops :
  cfg_ok c -> (startSeq <= seq)%Z -> (seq = startSeq -> c_enc c = false) ->
  (c_enc c = true -> pos mod 4 = 0) -> ops_ok c seq ops ->
  read_stream c seq (frames c seq pos ops) = (packets_of ops, VEof).
Proof.
  intros Hc Hge Hst H4 Hok. unfold read_stream.
  pose proof (frames_length_ge c ops seq pos) as Hl.
  replace (S (length (frames c seq pos ops)))
    with (length (packets_of ops) + S (length (frames c seq pos ops) - length (packets_of ops)))%nat by lia.
  destruct (read_all_frames c Hc ops seq pos 0%nat [] (S (length (frames c seq pos ops) - length (packets_of ops))) Hok) as (k' & E & Hinv').
  { repeat split; try lia; try assumption. }
  cbn [padwords repeat concat app] in E. rewrite app_nil_r in E. rewrite E.
  destruct Hinv' as (Hk & Hne & _ & _ & _ & Hst').
  cbn [read_all]. rewrite app_nil_r. rewrite read_packet_end; [|exact Hk|intros E'; apply Hne, Hst', E'].
  unfold prepend. cbn [fst snd]. rewrite app_nil_r. reflexivity.
Qed.

(** the writer model composed with the reader model *)
Theorem write_read_roundtrip c seq pos ops out st' :
  cfg_ok c -> (startSeq <= seq)%Z -> (seq = startSeq -> c_enc c = false) ->
  (c_enc c = true -> pos mod 4 = 0) -> ops_ok c seq ops ->
  write_ops c {| w_seq := seq; w_pend := []; w_pos := pos |} (ops ++ [WFlush]) = Some (out, st') ->
  read_stream c seq out = (packets_of ops, VEof).
Proof.
  intros Hc Hge Hst H4 Hok W. rewrite (write_ops_flushed _ _ _ _ _ _ W).
  rewrite frames_roundtrip; try assumption.
  - f_equal. clear. induction ops as [|[p|] r IH]; cbn [app packets_of]; [reflexivity|rewrite IH; reflexivity|exact IH].
  - clear - Hok. revert seq Hok. induction ops as [|[p|] r IH]; intros seq Hok; cbn [app ops_ok] in *.
    + exact I.
    + destruct Hok. split; [assumption|apply IH; assumption].
    + apply IH; assumption.
Qed.

(** * the reader depends only on the byte stream, not on how the connection chunks it *)
Section Sim.
  Context {S1 S2 : Type}.
  Variable take1 : N -> S1 -> tres S1.
  Variable take2 : N -> S2 -> tres S2.
  Variable R : S1 -> S2 -> Prop.

  Definition tres_rel (a : tres S1) (b : tres S2) : Prop :=
    match a, b with
    | TOk x s, TOk y t => x = y /\ R s t
    | TEmpty, TEmpty => True
    | TShort, TShort => True
    | _, _ => False
    end.
  Definition hres_rel (a : hres S1) (b : hres S2) : Prop :=
    match a, b with
    | HGot x s, HGot y t => x = y /\ R s t
    | HEof, HEof => True
    | HUnexp, HUnexp => True
    | HErr, HErr => True
    | _, _ => False
    end.
  Definition bres_rel (a : bres S1) (b : bres S2) : Prop :=
    match a, b with
    | BOk x s, BOk y t => x = y /\ R s t
    | BUnexp, BUnexp => True
    | BErr, BErr => True
    | _, _ => False
    end.
  Definition rres_rel (a : rres S1) (b : rres S2) : Prop :=
    match a, b with
    | RPkt p q s, RPkt p' q' t => p = p' /\ q = q' /\ R s t
    | RPing q s, RPing q' t => q = q' /\ R s t
    | REof, REof => True
    | RUnexp, RUnexp => True
    | RErr, RErr => True
    | _, _ => False
    end.

  Hypothesis take_sim : forall n s t, R s t -> tres_rel (take1 n s) (take2 n t).

  Lemma skip_pad_sim k : forall s t, R s t -> hres_rel (skip_pad S1 take1 k s) (skip_pad S2 take2 k t).
  Proof.
    induction k as [|k IH]; intros s t HR; cbn [skip_pad]; [exact I|].
    pose proof (take_sim 4 s t HR) as H.
    destruct (take1 4 s) as [x s'| |], (take2 4 t) as [y t'| |]; try contradiction; try exact I.
    destruct H as [<- HR']. destruct (le_val x =? padVal); [apply IH; exact HR'|split; [reflexivity|exact HR']].
  Qed.

  Lemma read_hdr12_sim seq s t : R s t -> hres_rel (read_hdr12 S1 take1 seq s) (read_hdr12 S2 take2 seq t).
  Proof.
    intros HR. unfold read_hdr12. destruct (seq =? startSeq)%Z.
    - pose proof (take_sim 12 s t HR) as H.
      destruct (take1 12 s) as [x s'| |], (take2 12 t) as [y t'| |]; try contradiction; try exact I. exact H.
    - pose proof (skip_pad_sim (N.to_nat (blockSize / 4)) s t HR) as H.
      destruct (skip_pad S1 take1 _ s) as [x s'| | |], (skip_pad S2 take2 _ t) as [y t'| | |]; try contradiction; try exact I.
      destruct H as [<- HR']. pose proof (take_sim 8 s' t' HR') as H.
      destruct (take1 8 s') as [x2 s2| |], (take2 8 t') as [y2 t2| |]; try contradiction; try exact I.
      destruct H as [<- HR2]. split; [reflexivity|exact HR2].
  Qed.

  Lemma read_body_sim c seq h len s t : R s t ->
    bres_rel (read_body S1 take1 c seq h len s) (read_body S2 take2 c seq h len t).
  Proof.
    intros HR. unfold read_body.
    pose proof (take_sim (len - packetOverhead + 4 + align_of c len) s t HR) as H.
    destruct (take1 _ s) as [x s'| |], (take2 _ t) as [y t'| |]; try contradiction; try exact I.
    destruct H as [<- HR'].
    destruct (split_at x (len - packetOverhead)) as [[body tl]|]; [|exact I].
    destruct (split_at tl 4) as [[crcb alb]|]; [|exact I].
    destruct (negb (all_zero alb)); [exact I|].
    destruct (le_val crcb =? _); [split; [reflexivity|exact HR']|exact I].
  Qed.

  Lemma read_packet_sim c seq s t : R s t ->
    rres_rel (read_packet S1 take1 c seq s) (read_packet S2 take2 c seq t).
  Proof.
    intros HR. unfold read_packet.
    pose proof (read_hdr12_sim seq s t HR) as H.
    destruct (read_hdr12 S1 take1 seq s) as [h s1| | |], (read_hdr12 S2 take2 seq t) as [h' t1| | |];
      try contradiction; try exact I.
    destruct H as [<- HR1].
    destruct (split_at h 4) as [[lenb h2]|]; [|exact I].
    destruct (split_at h2 4) as [[seqb tipb]|]; [|exact I].
    destruct (_ || _)%bool; [exact I|].
    destruct (_ && _)%bool; [exact I|].
    destruct (_ && _)%bool; [exact I|].
    destruct (negb _); [exact I|].
    pose proof (read_body_sim c seq h (le_val lenb) s1 t1 HR1) as HB.
    destruct (le_val tipb =? tag_rpcPing).
    { destruct (negb _); [exact I|].
      destruct (read_body S1 take1 c seq h (le_val lenb) s1) as [b s2| |],
               (read_body S2 take2 c seq h (le_val lenb) t1) as [b' t2| |]; try contradiction; try exact I.
      destruct HB as [_ HR2]. split; [reflexivity|exact HR2]. }
    destruct (le_val tipb =? tag_rpcPong).
    { destruct (negb _); [exact I|].
      destruct (read_body S1 take1 c seq h (le_val lenb) s1) as [b s2| |],
               (read_body S2 take2 c seq h (le_val lenb) t1) as [b' t2| |]; try contradiction; exact I. }
    destruct (read_body S1 take1 c seq h (le_val lenb) s1) as [b s2| |],
             (read_body S2 take2 c seq h (le_val lenb) t1) as [b' t2| |]; try contradiction; try exact I.
    destruct HB as [<- HR2]. repeat split; try reflexivity. exact HR2.
  Qed.

  Theorem read_all_sim c fuel : forall seq s t, R s t ->
    read_all S1 take1 c fuel seq s = read_all S2 take2 c fuel seq t.
  Proof.
    induction fuel as [|f IH]; intros seq s t HR; cbn [read_all]; [reflexivity|].
    pose proof (read_packet_sim c seq s t HR) as H.
    destruct (read_packet S1 take1 c seq s) as [p q s'|q s'| | |],
             (read_packet S2 take2 c seq t) as [p' q' t'|q' t'| | |]; try contradiction; try reflexivity.
    - destruct H as (<- & <- & HR'). rewrite (IH q s' t' HR'). reflexivity.
    - destruct H as (<- & HR'). apply IH. exact HR'.
  Qed.
End Sim.

Lemma split_at_app_some buf n a t rest : split_at buf n = Some (a, t) -> split_at (buf ++ rest) n = Some (a, t ++ rest).
Proof.
  intros H. apply split_at_spec in H. destruct H as [-> <-]. rewrite <- app_assoc. apply split_at_app.
Qed.

Lemma take_chunks_flat chunks : forall n buf,
  tres_rel (fun (s : bytes * list bytes) (bs : bytes) => bs = fst s ++ concat (snd s))
           (take_chunks n buf chunks) (take_flat n (buf ++ concat chunks)).
Proof.
  induction chunks as [|ch cs IH]; intros n buf; cbn [take_chunks concat].
  - rewrite app_nil_r. unfold take_flat. destruct (split_at buf n) as [[a t]|] eqn:E.
    + cbn. split; [reflexivity|]. cbn. rewrite app_nil_r. reflexivity.
    + destruct buf; exact I.
  - destruct (split_at buf n) as [[a t]|] eqn:E.
    + unfold take_flat. rewrite (split_at_app_some _ _ _ _ _ E). cbn. split; reflexivity.
    + rewrite app_assoc. apply IH.
Qed.

Theorem chunking_irrelevant c seq chunks : read_chunked c seq chunks = read_stream c seq (concat chunks).
Proof.
  unfold read_chunked, read_stream.
  apply (read_all_sim take_chunked take_flat (fun s bs => bs = fst s ++ concat (snd s))); [|reflexivity].
  intros n [buf chs] bs ->. cbn [fst snd]. apply take_chunks_flat.
Qed.

(** * corruption *)
Lemma app_inv_prefix {A} (x y a b : list A) :
  x ++ y = a ++ b -> (length x <= length a)%nat -> exists a', a = x ++ a' /\ y = a' ++ b.
Proof.
  revert a. induction x as [|e x IH]; intros a H Hl.
  - exists a. split; [reflexivity|exact H].
  - destruct a as [|e' a]; [cbn in Hl; lia|]. cbn [app] in H. injection H as -> H.
    destruct (IH a H) as (a' & -> & ->); [cbn in Hl; lia|]. exists a'. split; reflexivity.
Qed.

Lemma app_inv_suffix {A} (y x b a : list A) :
  y ++ x = b ++ a -> (length x <= length a)%nat -> exists a', a = a' ++ x /\ y = b ++ a'.
Proof.
  intros H Hl.
  assert (H' : rev x ++ rev y = rev a ++ rev b) by (rewrite <- !rev_app_distr, H; reflexivity).
  destruct (app_inv_prefix _ _ _ _ H') as (r & E1 & E2); [rewrite !rev_length; exact Hl|].
  exists (rev r). split.
  - rewrite <- (rev_involutive a), E1, rev_app_distr, rev_involutive. reflexivity.
  - rewrite <- (rev_involutive y), E2, rev_app_distr, rev_involutive. reflexivity.
Qed.

Lemma split_exists (l : bytes) n : n <= lenN l -> exists a t, l = a ++ t /\ lenN a = n.
Proof.
  intros H. destruct (split_at_some l n H) as (a & t & E). apply split_at_spec in E. exists a, t. exact E.
Qed.

Lemma read_hdr12_gen k lenw x8 rest seq :
  (k <= 3)%nat -> (seq = startSeq -> k = 0%nat) -> lenN lenw = 4 -> lenN x8 = 8 -> le_val lenw <> padVal ->
  read_hdr12 bytes take_flat seq (padwords k ++ lenw ++ x8 ++ rest) = HGot (lenw ++ x8) rest.
Proof.
  intros Hk Hs Hl Hx Hp. unfold read_hdr12. destruct (Z.eqb_spec seq startSeq) as [E|E].
  - rewrite (Hs E). cbn [padwords repeat concat app]. rewrite app_assoc.
    rewrite take_flat_app_n by (rewrite lenN_app; lia). reflexivity.
  - change (N.to_nat (blockSize / 4)) with 4%nat.
    rewrite skip_pad_words; [|lia|assumption|assumption].
    rewrite take_flat_app_n by assumption. reflexivity.
Qed.

Lemma read_body_bad c seq h bd cr rest :
  lenN cr = 4 -> le_val cr <> crc_update (poly_at c seq) 0 (h ++ bd) ->
  read_body bytes take_flat c seq h (lenN bd + packetOverhead)
    (bd ++ cr ++ zeros (align_of c (lenN bd)) ++ rest) = BErr.
Proof.
  intros Hl Hne. unfold read_body.
  replace (lenN bd + packetOverhead - packetOverhead) with (lenN bd) by lia.
  assert (Hal : align_of c (lenN bd + packetOverhead) = align_of c (lenN bd)).
  { unfold align_of. destruct (c_enc c); [|reflexivity]. unfold padding_len, packetOverhead. f_equal. f_equal. lia. }
  rewrite Hal. set (al := zeros (align_of c (lenN bd))).
  replace (bd ++ cr ++ al ++ rest) with ((bd ++ cr ++ al) ++ rest) by (rewrite <- !app_assoc; reflexivity).
  rewrite take_flat_app_n by (unfold al; rewrite !lenN_app, zeros_length; lia).
  rewrite split_at_app. rewrite split_at_app_n by assumption.
  unfold al. rewrite all_zero_zeros. cbn [negb].
  destruct (N.eqb_spec (le_val cr) (crc_update (poly_at c seq) 0 (h ++ bd))); [contradiction|reflexivity].
Qed.

Lemma frame_ok c seq p : bytes_ok (p_body p) -> bytes_ok (frame c seq p).
Proof.
  intros Hb. rewrite frame_eq. apply Forall_app. split; [apply header_ok|].
  apply Forall_app. split; [assumption|]. apply Forall_app. split; [apply le_bytes_ok|].
  unfold zeros. apply Forall_forall. intros x Hx. apply repeat_spec in Hx. subst. unfold byte_ok. lia.
Qed.

(** Any change confined to at most 4 consecutive bytes of the seqNum/type/body/CRC part of a frame
    (the length word and the alignment zeros untouched) makes the reader fail at this frame. *)
Theorem corrupt_frame_rejected c seq p a w w' z k rest :
  cfg_ok c -> good_poly (poly_at c seq) -> pkt_ok c seq p ->
  frame c seq p = a ++ w ++ z ->
  (4 <= length a)%nat -> align_of c (lenN (p_body p)) <= lenN z ->
  length w' = length w -> (length w <= 4)%nat -> w' <> w -> bytes_ok w' ->
  (k <= 3)%nat -> (seq = startSeq -> k = 0%nat) ->
  read_packet bytes take_flat c seq (padwords k ++ (a ++ w' ++ z) ++ rest) = RErr.
Proof.
  intros Hc HP (Hb & Hlen & Hpv & Ht & Hnping & Hnpong & Hhs) Hf Ha Hz Hlw Hw4 Hne Hw' Hk Hs.
  pose proof (frame_ok c seq p Hb) as Hfok.
  set (l := lenN (p_body p)) in *.
  set (len := l + packetOverhead) in *.
  set (lenw := nat_w len).
  set (sqw := nat_w (u32_of_seq seq)).
  set (tyw := nat_w (p_type p)).
  set (M := header_bytes len seq (p_type p) ++ p_body p).
  set (crcw := nat_w (crc_update (poly_at c seq) 0 M)).
  set (al := zeros (align_of c l)).
  assert (Hfr : frame c seq p = lenw ++ (sqw ++ tyw ++ p_body p ++ crcw) ++ al).
  { rewrite frame_eq. unfold header_bytes. fold l len lenw sqw tyw. rewrite <- !app_assoc. reflexivity. }
  set (tl := sqw ++ tyw ++ p_body p ++ crcw) in *.
  (* peel the length word off [a] and the alignment off [z] *)
  rewrite Hfr in Hf.
  destruct (app_inv_prefix lenw (tl ++ al) a (w ++ z) Hf) as (a' & Ea & E1).
  { pose proof (lenN_nat_w len) as H. unfold lenN in H. fold lenw in H. lia. }
  rewrite app_assoc in E1.
  destruct (app_inv_suffix tl al (a' ++ w) z E1) as (z' & Ez & E2).
  { unfold al. pose proof (zeros_length (align_of c l)) as H. unfold lenN in *. lia. }
  (* byte-level facts *)
  rewrite Hfr in Hfok. apply Forall_app in Hfok. destruct Hfok as [_ Hfok].
  apply Forall_app in Hfok. destruct Hfok as [Htl _].
  rewrite E2 in Htl. apply Forall_app in Htl. destruct Htl as [Haw Hz'].
  apply Forall_app in Haw. destruct Haw as [Ha' Hwok].
  set (tl' := a' ++ w' ++ z').
  assert (Htl' : bytes_ok tl') by (unfold tl'; repeat (apply Forall_app; split); assumption).
  assert (Hltl : lenN tl = 12 + l).
  { unfold tl, sqw, tyw, crcw. rewrite !lenN_app, !lenN_nat_w. fold l. lia. }
  assert (Hltl' : lenN tl' = 12 + l).
  { rewrite <- Hltl, E2. unfold tl'. unfold lenN. rewrite !app_length, Hlw. f_equal. lia. }
  (* cut the corrupted part into its four fields *)
  destruct (split_exists tl' 4) as (sq' & t1 & Et1 & Hsq'); [lia|].
  assert (Hlt1 : lenN t1 = 8 + l) by (rewrite Et1, lenN_app in Hltl'; lia).
  destruct (split_exists t1 4) as (ty' & t2 & Et2 & Hty'); [lia|].
  assert (Hlt2 : lenN t2 = 4 + l) by (rewrite Et2, lenN_app in Hlt1; lia).
  destruct (split_exists t2 l) as (bd' & cr' & Et3 & Hbd'); [lia|].
  assert (Hcr' : lenN cr' = 4) by (rewrite Et3, lenN_app in Hlt2; lia).
  assert (Hoks : bytes_ok sq' /\ bytes_ok ty' /\ bytes_ok bd' /\ bytes_ok cr').
  { rewrite Et1, Et2, Et3 in Htl'. apply Forall_app in Htl'. destruct Htl' as [H1 H2].
    apply Forall_app in H2. destruct H2 as [H2 H3]. apply Forall_app in H3. destruct H3 as [H3 H4]. auto. }
  destruct Hoks as (Hoksq & Hokty & Hokbd & Hokcr).
  (* the stream the reader sees *)
  assert (Estream : padwords k ++ (a ++ w' ++ z) ++ rest
                    = padwords k ++ lenw ++ (sq' ++ ty') ++ (bd' ++ cr' ++ al ++ rest)).
  { f_equal. rewrite Ea, Ez. fold tl'. rewrite <- !app_assoc.
    replace (a' ++ w' ++ z' ++ al ++ rest) with (tl' ++ al ++ rest) by (unfold tl'; rewrite <- !app_assoc; reflexivity).
    rewrite Et1, Et2, Et3, <- !app_assoc. reflexivity. }
  rewrite Estream. unfold read_packet.
  assert (Hlen32 : len < 2 ^ 32) by (unfold len, l, maxPacketLen, packetOverhead in *; lia).
  rewrite read_hdr12_gen; try assumption.
  2:{ apply lenN_nat_w. }
  2:{ rewrite lenN_app. lia. }
  2:{ unfold lenw. rewrite le_val_nat_w by assumption. unfold len, padVal, packetOverhead. lia. }
  rewrite split_at_app_n by apply lenN_nat_w.
  rewrite split_at_app_n by assumption.
  assert (Hlv : le_val lenw = len) by (unfold lenw; apply le_val_nat_w; assumption).
  rewrite !Hlv.
  (* the CRC cannot match *)
  assert (Hcrc : le_val cr' <> crc_update (poly_at c seq) 0 ((lenw ++ sq' ++ ty') ++ bd')).
  { apply (crc_detects_window (poly_at c seq) M ((lenw ++ sq' ++ ty') ++ bd') cr' (lenw ++ a') w w' z').
    - exact HP.
    - unfold M. apply Forall_app. split; [apply header_ok|exact Hb].
    - repeat (apply Forall_app; split); try assumption. apply le_bytes_ok.
    - exact Hokcr.
    - unfold lenN in Hcr'. lia.
    - unfold M, header_bytes. fold lenw sqw tyw. unfold lenN in *. rewrite !app_length in *.
      pose proof (lenN_nat_w len) as H1. pose proof (lenN_nat_w (u32_of_seq seq)) as H2. pose proof (lenN_nat_w (p_type p)) as H3.
      unfold lenN in *. fold lenw in H1. fold sqw in H2. fold tyw in H3. lia.
    - fold crcw. unfold M, header_bytes. fold lenw sqw tyw. rewrite <- !app_assoc.
      f_equal. change (sqw ++ tyw ++ p_body p ++ crcw) with tl. rewrite E2, <- !app_assoc. reflexivity.
    - rewrite <- !app_assoc. f_equal. rewrite <- Et3, <- Et2, <- Et1. reflexivity.
    - symmetry. exact Hlw.
    - exact Hw4.
    - intro E. apply Hne. symmetry. exact E. }
  pose proof (read_body_bad c seq (lenw ++ sq' ++ ty') bd' cr' rest Hcr' Hcrc) as HB.
  rewrite Hbd' in HB. fold len in HB. fold al in HB.
  destruct (_ || _)%bool; [reflexivity|].
  destruct (_ && _)%bool; [reflexivity|].
  destruct (_ && _)%bool; [reflexivity|].
  destruct (negb _); [reflexivity|].
  destruct (le_val ty' =? tag_rpcPing).
  { destruct (negb _); [reflexivity|]. rewrite HB. reflexivity. }
  destruct (le_val ty' =? tag_rpcPong).
  { destruct (negb _); [reflexivity|]. rewrite HB. reflexivity. }
  rewrite HB. reflexivity.
Qed.

(** a corrupted frame anywhere in the stream: everything before it is delivered unchanged, then the
    reader reports an error (nothing altered is ever delivered) *)
Theorem corrupted_stream_rejected c seq pos ops p a w w' z rest :
  cfg_ok c -> (startSeq <= seq)%Z -> (seq = startSeq -> c_enc c = false) ->
  (c_enc c = true -> pos mod 4 = 0) -> ops_ok c seq ops ->
  let seq' := (seq + Z.of_nat (length (packets_of ops)))%Z in
  good_poly (poly_at c seq') -> pkt_ok c seq' p ->
  frame c seq' p = a ++ w ++ z ->
  (4 <= length a)%nat -> align_of c (lenN (p_body p)) <= lenN z ->
  length w' = length w -> (length w <= 4)%nat -> w' <> w -> bytes_ok w' ->
  read_stream c seq (frames c seq pos ops ++ (a ++ w' ++ z) ++ rest) = (packets_of ops, VErr).
Proof.
  intros Hc Hge Hst H4 Hok seq' HP Hp Hf Ha Hz Hlw Hw4 Hne Hw'. unfold read_stream.
  pose proof (frames_length_ge c ops seq pos) as Hl.
  set (s := frames c seq pos ops ++ (a ++ w' ++ z) ++ rest).
  assert (Hls : (length (packets_of ops) <= length s)%nat) by (unfold s; rewrite app_length; lia).
  replace (S (length s)) with (length (packets_of ops) + S (length s - length (packets_of ops)))%nat by lia.
  destruct (read_all_frames c Hc ops seq pos 0%nat ((a ++ w' ++ z) ++ rest) (S (length s - length (packets_of ops))) Hok)
    as (k' & E & Hinv').
  { repeat split; try lia; try assumption. }
  cbn [padwords repeat concat app] in E. subst s. rewrite E.
  destruct Hinv' as (Hk & Hne' & _ & _ & _ & Hst').
  cbn [read_all]. fold seq'.
  rewrite (corrupt_frame_rejected c seq' p a w w' z k' rest); try assumption.
  - unfold prepend. cbn [fst snd]. rewrite app_nil_r. reflexivity.
  - intros E'. apply Hne', Hst', E'.
Qed.

(** * variants used by the encrypted layer *)
Theorem frames_roundtrip_fuel c seq pos ops fuel :
  cfg_ok c -> (startSeq <= seq)%Z -> (seq = startSeq -> c_enc c = false) ->
  (c_enc c = true -> pos mod 4 = 0) -> ops_ok c seq ops -> (length (packets_of ops) < fuel)%nat ->
  read_all bytes take_flat c fuel seq (frames c seq pos ops) = (packets_of ops, VEof).
Proof.
  intros Hc Hge Hst H4 Hok Hf.
  replace fuel with (length (packets_of ops) + S (fuel - S (length (packets_of ops))))%nat by lia.
  destruct (read_all_frames c Hc ops seq pos 0%nat [] (S (fuel - S (length (packets_of ops)))) Hok) as (k' & E & Hinv').
  { repeat split; try lia; try assumption. }
  cbn [padwords repeat concat app] in E. rewrite app_nil_r in E. rewrite E.
  destruct Hinv' as (Hk & Hne & _ & _ & _ & Hst').
  cbn [read_all]. rewrite app_nil_r. rewrite read_packet_end; [|exact Hk|intros E'; apply Hne, Hst', E'].
  unfold prepend. cbn [fst snd]. rewrite app_nil_r. reflexivity.
Qed.

Lemma frames_app c o1 : forall seq pos o2,
  frames c seq pos (o1 ++ o2)
  = frames c seq pos o1
    ++ frames c (seq + Z.of_nat (length (packets_of o1)))%Z (pos + lenN (frames c seq pos o1)) o2.
Proof.
  induction o1 as [|op r IH]; intros seq pos o2.
  - cbn [app frames packets_of length]. rewrite Z.add_0_r, lenN_nil, N.add_0_r. reflexivity.
  - destruct op as [p|]; cbn [app frames packets_of length]; rewrite IH, <- app_assoc; f_equal; f_equal;
      rewrite lenN_app; f_equal; lia.
Qed.

Lemma frames_mod4 c ops : forall seq pos,
  c_enc c = true -> pos mod 4 = 0 -> lenN (frames c seq pos ops) mod 4 = 0.
Proof.
  induction ops as [|op r IH]; intros seq pos He Hp; [reflexivity|].
  destruct op as [p|]; cbn [frames]; rewrite lenN_app.
  - pose proof (lenN_frame_mod4 c seq p He) as H1.
    specialize (IH (seq + 1)%Z (pos + lenN (frame c seq p)) He). lia.
  - destruct (pad_bytes_words c pos (fun _ => Hp)) as (Epad & _).
    specialize (IH seq (pos + lenN (pad_bytes c pos)) He). rewrite Epad, lenN_padwords in *. lia.
Qed.

Lemma frames_flushed_aligned c seq pos ops :
  c_enc c = true -> pos mod 4 = 0 ->
  (pos + lenN (frames c seq pos (ops ++ [WFlush]))) mod blockSize = 0.
Proof.
  intros He Hp. rewrite frames_app, lenN_app. cbn [frames]. rewrite app_nil_r.
  pose proof (frames_mod4 c ops seq pos He Hp) as H4.
  destruct (pad_bytes_words c (pos + lenN (frames c seq pos ops))) as (_ & _ & _ & _ & Hal); [intros _; lia|].
  specialize (Hal He). rewrite N.add_assoc. exact Hal.
Qed.

Lemma Forall_firstn_ok {A} (P : A -> Prop) (l : list A) : forall n, Forall P l -> Forall P (firstn n l).
Proof.
  induction l as [|x l IH]; intros n H; destruct n; cbn [firstn]; try constructor.
  - inversion H; assumption.
  - apply IH. inversion H; assumption.
Qed.

Lemma frames_ok c ops : forall seq pos, ops_ok c seq ops -> bytes_ok (frames c seq pos ops).
Proof.
  induction ops as [|op r IH]; intros seq pos Hok; [constructor|].
  destruct op as [p|]; cbn [frames ops_ok] in *; apply Forall_app; split.
  - apply frame_ok. apply Hok.
  - apply IH. apply Hok.
  - unfold pad_bytes. apply Forall_firstn_ok. vm_compute. repeat constructor.
  - apply IH. exact Hok.
Qed.

Lemma packets_of_app o1 o2 : packets_of (o1 ++ o2) = packets_of o1 ++ packets_of o2.
Proof. induction o1 as [|[p|] r IH]; cbn [app packets_of]; [reflexivity|rewrite IH; reflexivity|exact IH]. Qed.

Lemma ops_ok_app c o1 : forall seq o2, ops_ok c seq o1 ->
  ops_ok c (seq + Z.of_nat (length (packets_of o1)))%Z o2 -> ops_ok c seq (o1 ++ o2).
Proof.
  induction o1 as [|[p|] r IH]; intros seq o2 H1 H2; cbn [app ops_ok packets_of length] in *.
  - rewrite Z.add_0_r in H2. exact H2.
  - destruct H1. split; [assumption|]. apply IH; [assumption|].
    replace (seq + 1 + Z.of_nat (length (packets_of r)))%Z with (seq + Z.of_nat (S (length (packets_of r))))%Z by lia. exact H2.
  - apply IH; assumption.
Qed.

(** * corollaries in the form the property is stated *)
Corollary roundtrip_any_chunking c seq pos ops chunks :
  cfg_ok c -> (startSeq <= seq)%Z -> (seq = startSeq -> c_enc c = false) ->
  (c_enc c = true -> pos mod 4 = 0) -> ops_ok c seq ops ->
  concat chunks = frames c seq pos ops ->
  read_chunked c seq chunks = (packets_of ops, VEof).
Proof.
  intros Hc Hge Hst H4 Hok E. rewrite chunking_irrelevant, E. apply frames_roundtrip; assumption.
Qed.

Lemma good_poly_at c seq : c_poly c = poly_ieee \/ c_poly c = poly_castagnoli -> good_poly (poly_at c seq).
Proof.
  intros H. unfold poly_at. destruct (seq <? 0)%Z; [apply good_poly_ieee|].
  destruct H as [-> | ->]; [apply good_poly_ieee|apply good_poly_castagnoli].
Qed.

Lemma nth_split_eq {A} (l : list A) d : forall i, (i < length l)%nat ->
  l = firstn i l ++ [nth i l d] ++ skipn (S i) l.
Proof.
  induction l as [|x l IH]; intros i Hi; [cbn in Hi; lia|].
  destruct i as [|i]; [reflexivity|]. cbn [firstn nth skipn app]. f_equal. apply IH. cbn in Hi. lia.
Qed.

Lemma frame_length c seq p :
  length (frame c seq p) = (16 + length (p_body p) + N.to_nat (align_of c (lenN (p_body p))))%nat.
Proof.
  rewrite frame_eq, !app_length.
  pose proof (lenN_header (lenN (p_body p) + packetOverhead) seq (p_type p)) as H1.
  pose proof (lenN_nat_w (crc_update (poly_at c seq) 0 (header_bytes (lenN (p_body p) + packetOverhead) seq (p_type p) ++ p_body p))) as H2.
  pose proof (zeros_length (align_of c (lenN (p_body p)))) as H3.
  unfold lenN in *. lia.
Qed.

(** one byte of the sequence number, type, body or CRC of one frame replaced by another value *)
Theorem single_byte_corruption_rejected c seq pos ops p i b' rest :
  cfg_ok c -> (startSeq <= seq)%Z -> (seq = startSeq -> c_enc c = false) ->
  (c_enc c = true -> pos mod 4 = 0) -> ops_ok c seq ops ->
  let seq' := (seq + Z.of_nat (length (packets_of ops)))%Z in
  let f := frame c seq' p in
  good_poly (poly_at c seq') -> pkt_ok c seq' p ->
  (4 <= i < 16 + length (p_body p))%nat -> b' < 256 -> b' <> nth i f 0 ->
  read_stream c seq (frames c seq pos ops ++ (firstn i f ++ [b'] ++ skipn (S i) f) ++ rest)
  = (packets_of ops, VErr).
Proof.
  intros Hc Hge Hst H4 Hok seq' f HP Hp Hi Hb Hne.
  pose proof (frame_length c seq' p) as Hlen. fold f in Hlen.
  apply (corrupted_stream_rejected c seq pos ops p (firstn i f) [nth i f 0] [b'] (skipn (S i) f) rest); try assumption.
  - fold seq' f. apply nth_split_eq. lia.
  - rewrite firstn_length. lia.
  - fold seq' f. unfold lenN in *. rewrite skipn_length. lia.
  - reflexivity.
  - cbn. lia.
  - intros E. injection E as E. contradiction.
  - constructor; [exact Hb|constructor].
Qed.
