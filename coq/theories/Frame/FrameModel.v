(** M9 [Frame] -- packet stream framing of pkg/rpc/packetconn.go (+ crypto.go, pingpong.go).
    Executable definitions only; proofs live in FrameProofs.v / FrameCrc.v.

    What is transcribed:
      - writer: WritePacketHeaderUnlocked / WritePacketBodyUnlocked / WritePacketTrailerUnlocked /
        FlushUnlocked (the CRC of a packet is kept in headerWriteBuf and emitted in front of the next
        header or by the next flush; when encrypted: zero alignment of the body to 4 and padding of the
        stream to the cipher block with [padVal] words at every flush),
      - reader: readPacketHeaderUnlockedImpl / ReadPacketHeaderUnlocked / ReadPacketBodyUnlocked /
        ReadPacket (padding skipping, length sanity checks, handshake-phase checks, sequence check,
        ping/pong, alignment check, CRC check),
      - cryptoReader as a buffered reader over an arbitrary chunking of the byte stream, unencrypted
        ([take_chunked]) and CBC-encrypted ([take_cchunked]: only whole cipher blocks are decrypted),
      - CRC-32 (reflected, bitwise; IEEE and Castagnoli polynomials), CBC chaining over an abstract
        block cipher [E]/[D].
    Not modelled: AES itself, key derivation, the contents of the nonce/handshake messages, deadlines
    and the read-timeout ping, the memcached "magic" detection on the first read. *)
From Coq Require Export List NArith ZArith Bool.
From TLV Require Export Prim.PrimModel Gen.FrameConsts.
Export ListNotations.
Open Scope N_scope.

(** * CRC-32 (hash/crc32 simpleUpdate, bit by bit) *)
Definition poly_ieee : N := 3988292384.        (* 0xEDB88320 = crc32.IEEE *)
Definition poly_castagnoli : N := 2197175160.  (* 0x82F63B78 = crc32.Castagnoli *)
Definition mask32 : N := 4294967295.

Definition crc_step (P c : N) : N :=
  if N.odd c then N.lxor (N.shiftr c 1) P else N.shiftr c 1.
Fixpoint crc_steps (k : nat) (P c : N) : N :=
  match k with O => c | S k' => crc_steps k' P (crc_step P c) end.
Definition crc_byte (P c b : N) : N := crc_steps 8 P (N.lxor c b).
Definition crc_raw (P c : N) (bs : bytes) : N := fold_left (crc_byte P) bs c.
(** crc32.Update(crc, table, p) *)
Definition crc_update (P crc : N) (bs : bytes) : N :=
  N.lxor (crc_raw P (N.lxor crc mask32) bs) mask32.

(** * Connection parameters of one stream segment.
    [c_pv]: negotiated protocolVersion, [c_enc]: cryptoWriter.isEncrypted(), [c_poly]: CRC table in
    force after the handshake (packets with negative sequence numbers always use crc32.IEEE). *)
Record cfg := { c_pv : N; c_enc : bool; c_poly : N }.

Definition startSeq : Z := (- Z.of_N startSeqNum_neg)%Z.
Definition poly_at (c : cfg) (seq : Z) : N := if (seq <? 0)%Z then poly_ieee else c_poly c.
(** protocolVersion is still 0 while the nonce packet (sequence number startSeqNum) is processed *)
Definition pv_at (c : cfg) (seq : Z) : N := if (seq =? startSeq)%Z then 0 else c_pv c.
Definition u32_of_seq (s : Z) : N := Z.to_N (s mod 4294967296)%Z.

Record packet := { p_type : N; p_body : bytes }.

Definition header_bytes (len : N) (seq : Z) (typ : N) : bytes :=
  nat_w len ++ nat_w (u32_of_seq seq) ++ nat_w typ.
(** int(-uint(n) & 3) when encrypted, else 0 *)
Definition align_of (c : cfg) (n : N) : N := if c_enc c then padding_len n else 0.

(** * Writer *)
Record wstate := { w_seq : Z;       (* writeSeqNum *)
                   w_pend : bytes;  (* headerWriteBuf: CRC (+ alignment) of the previous packet *)
                   w_pos : N }.     (* bytes handed to the cryptoWriter since the segment start *)

(** WritePacketNoFlushUnlocked; [None] = the error return (nothing written, state unchanged) *)
Definition write_packet (c : cfg) (st : wstate) (p : packet) : option (bytes * wstate) :=
  let l := lenN (p_body p) in
  if maxPacketLen - packetOverhead <? l then None
  else if (pv_at c (w_seq st) =? 0) && negb (l mod 4 =? 0) then None
  else
    let h := header_bytes (l + packetOverhead) (w_seq st) (p_type p) in
    let out := w_pend st ++ h ++ p_body p in
    let crc := crc_update (poly_at c (w_seq st)) 0 (h ++ p_body p) in
    Some (out, {| w_seq := (w_seq st + 1)%Z;
                  w_pend := nat_w crc ++ zeros (align_of c l);
                  w_pos := w_pos st + lenN out |}).

(** cryptoWriter.Padding *)
Definition flush_pad (c : cfg) (pos : N) : N :=
  if c_enc c then (blockSize - pos mod blockSize) mod blockSize else 0.
Definition pad_bytes (c : cfg) (pos : N) : bytes := firstn (N.to_nat (flush_pad c pos)) padding.

(** FlushUnlocked *)
Definition write_flush (c : cfg) (st : wstate) : bytes * wstate :=
  let out := w_pend st ++ pad_bytes c (w_pos st + lenN (w_pend st)) in
  (out, {| w_seq := w_seq st; w_pend := []; w_pos := w_pos st + lenN out |}).

Inductive wop := WPkt (p : packet) | WFlush.

Fixpoint write_ops (c : cfg) (st : wstate) (ops : list wop) : option (bytes * wstate) :=
  match ops with
  | [] => Some ([], st)
  | WPkt p :: r =>
      match write_packet c st p with
      | None => None
      | Some (o, st1) =>
          match write_ops c st1 r with
          | None => None
          | Some (o2, st2) => Some (o ++ o2, st2)
          end
      end
  | WFlush :: r =>
      let (o, st1) := write_flush c st in
      match write_ops c st1 r with
      | None => None
      | Some (o2, st2) => Some (o ++ o2, st2)
      end
  end.

(** The stream as a function of the operations (specification form of the writer):
    length, seqNum, type, body, CRC32, alignment; [padVal] words at flushes. *)
Definition frame (c : cfg) (seq : Z) (p : packet) : bytes :=
  let l := lenN (p_body p) in
  let h := header_bytes (l + packetOverhead) seq (p_type p) in
  h ++ p_body p ++ nat_w (crc_update (poly_at c seq) 0 (h ++ p_body p)) ++ zeros (align_of c l).

Fixpoint frames (c : cfg) (seq : Z) (pos : N) (ops : list wop) : bytes :=
  match ops with
  | [] => []
  | WPkt p :: r => let f := frame c seq p in f ++ frames c (seq + 1)%Z (pos + lenN f) r
  | WFlush :: r => let pd := pad_bytes c pos in pd ++ frames c seq (pos + lenN pd) r
  end.

Fixpoint packets_of (ops : list wop) : list packet :=
  match ops with
  | [] => []
  | WPkt p :: r => p :: packets_of r
  | WFlush :: r => packets_of r
  end.

(** * Byte sources *)
Inductive tres (S : Type) : Type :=
| TOk (b : bytes) (s : S)   (* io.ReadFull filled the buffer *)
| TEmpty                    (* io.EOF: no byte at all *)
| TShort.                   (* io.ErrUnexpectedEOF: some bytes, then end of stream *)
Arguments TOk {S} b s.
Arguments TEmpty {S}.
Arguments TShort {S}.

Fixpoint split_at (bs : bytes) (n : N) {struct bs} : option (bytes * bytes) :=
  if n =? 0 then Some ([], bs)
  else match bs with
       | [] => None
       | b :: r => match split_at r (N.pred n) with
                   | Some (a, t) => Some (b :: a, t)
                   | None => None
                   end
       end.

(** the whole stream at once *)
Definition take_flat (n : N) (bs : bytes) : tres bytes :=
  match split_at bs n with
  | Some (a, t) => TOk a t
  | None => match bs with [] => TEmpty | _ => TShort end
  end.

(** cryptoReader without encryption: a buffer refilled by conn.Read calls that return arbitrary chunks *)
Fixpoint take_chunks (n : N) (buf : bytes) (chunks : list bytes) : tres (bytes * list bytes) :=
  match split_at buf n with
  | Some (a, t) => TOk a (t, chunks)
  | None => match chunks with
            | [] => match buf with [] => TEmpty | _ => TShort end
            | ch :: cs => take_chunks n (buf ++ ch) cs
            end
  end.
Definition take_chunked (n : N) (s : bytes * list bytes) : tres (bytes * list bytes) :=
  take_chunks n (fst s) (snd s).

(** * Reader, over any byte source *)
Inductive verdict := VEof | VUnexp | VErr | VFuel.

Section Reader.
  Variable Src : Type.
  Variable take : N -> Src -> tres Src.

  Inductive hres := HGot (w : bytes) (s : Src) | HEof | HUnexp | HErr.

  (** the padding loop of readPacketHeaderUnlockedImpl: at most blockSize/4 words are read *)
  Fixpoint skip_pad (k : nat) (s : Src) : hres :=
    match k with
    | O => HErr   (* "excessive padding" *)
    | S k' =>
        match take 4 s with
        | TOk w s' => if le_val w =? padVal then skip_pad k' s' else HGot w s'
        | TEmpty => HEof
        | TShort => HUnexp
        end
    end.

  (** the 12 header bytes as they end up in headerReadBuf *)
  Definition read_hdr12 (seq : Z) (s : Src) : hres :=
    if (seq =? startSeq)%Z then
      match take 12 s with
      | TOk h s' => HGot h s'
      | TEmpty => HEof
      | TShort => HUnexp
      end
    else
      match skip_pad (N.to_nat (blockSize / 4)) s with
      | HGot w s' =>
          match take 8 s' with
          | TOk b s'' => HGot (w ++ b) s''
          | _ => HUnexp
          end
      | r => r
      end.

  Inductive bres := BOk (body : bytes) (s : Src) | BUnexp | BErr.

  (** ReadPacketBodyUnlocked *)
  Definition read_body (c : cfg) (seq : Z) (h12 : bytes) (len : N) (s : Src) : bres :=
    let bodySize := len - packetOverhead in
    let al := align_of c len in
    match take (bodySize + 4 + al) s with
    | TOk b s' =>
        match split_at b bodySize with
        | Some (body, t) =>
            match split_at t 4 with
            | Some (crcb, alb) =>
                if negb (all_zero alb) then BErr   (* bad_body_padding_contents *)
                else if le_val crcb =? crc_update (poly_at c seq) 0 (h12 ++ body) then BOk body s'
                     else BErr                     (* crc_mismatch *)
            | None => BErr (* unreachable: b has bodySize + 4 + al bytes *)
            end
        | None => BErr (* unreachable *)
        end
    | _ => BUnexp
    end.

  Inductive rres :=
  | RPkt (p : packet) (seq' : Z) (s : Src)
  | RPing (seq' : Z) (s : Src)   (* a ping was consumed (ReadPacket answers it and reads on) *)
  | REof | RUnexp | RErr.

  (** one iteration of ReadPacket: header, checks, ping/pong, body *)
  Definition read_packet (c : cfg) (seq : Z) (s : Src) : rres :=
    match read_hdr12 seq s with
    | HEof => REof
    | HUnexp => RUnexp
    | HErr => RErr
    | HGot h s1 =>
        match split_at h 4 with
        | Some (lenb, h') =>
            match split_at h' 4 with
            | Some (seqb, tipb) =>
                let len := le_val lenb in
                let hseq := le_val seqb in
                let tip := le_val tipb in
                if (len <? packetOverhead) || (maxPacketLen <? len) then RErr
                else if (pv_at c seq =? 0) && negb (len mod 4 =? 0) then RErr
                else if (seq <? 0)%Z &&
                        (((seq =? startSeq)%Z && negb (tip =? packetTypeRPCNonce))
                         || ((seq =? startSeq + 1)%Z && negb (tip =? packetTypeRPCHandshake))
                         || (maxNonceHandshakeLen <? len)) then RErr
                else if negb (hseq =? u32_of_seq seq) then RErr
                else if tip =? tag_rpcPing then
                  if negb (len =? packetOverhead + 8) then RErr
                  else match read_body c seq h len s1 with
                       | BOk _ s2 => RPing (seq + 1)%Z s2
                       | BUnexp => RUnexp
                       | BErr => RErr
                       end
                else if tip =? tag_rpcPong then
                  if negb (len =? packetOverhead + 8) then RErr
                  else match read_body c seq h len s1 with
                       | BOk _ _ => RErr   (* onPong: no ping was sent *)
                       | BUnexp => RUnexp
                       | BErr => RErr
                       end
                else match read_body c seq h len s1 with
                     | BOk body s2 => RPkt {| p_type := tip; p_body := body |} (seq + 1)%Z s2
                     | BUnexp => RUnexp
                     | BErr => RErr
                     end
            | None => RErr (* unreachable: h has 12 bytes *)
            end
        | None => RErr (* unreachable *)
        end
    end.

  (** ReadPacket called until it fails: the packets delivered and how the stream ended *)
  Fixpoint read_all (c : cfg) (fuel : nat) (seq : Z) (s : Src) : list packet * verdict :=
    match fuel with
    | O => ([], VFuel)
    | S f =>
        match read_packet c seq s with
        | RPkt p seq' s' => let (ps, v) := read_all c f seq' s' in (p :: ps, v)
        | RPing seq' s' => read_all c f seq' s'
        | REof => ([], VEof)
        | RUnexp => ([], VUnexp)
        | RErr => ([], VErr)
        end
    end.
End Reader.

Arguments HGot {Src} w s.
Arguments HEof {Src}.
Arguments HUnexp {Src}.
Arguments HErr {Src}.
Arguments BOk {Src} body s.
Arguments BUnexp {Src}.
Arguments BErr {Src}.
Arguments RPkt {Src} p seq' s.
Arguments RPing {Src} seq' s.
Arguments REof {Src}.
Arguments RUnexp {Src}.
Arguments RErr {Src}.

(** every packet takes at least 16 bytes, so this fuel never runs out *)
Definition read_stream (c : cfg) (seq : Z) (bs : bytes) : list packet * verdict :=
  read_all bytes take_flat c (S (length bs)) seq bs.
Definition read_chunked (c : cfg) (seq : Z) (chunks : list bytes) : list packet * verdict :=
  read_all (bytes * list bytes) take_chunked c (S (length (concat chunks))) seq ([], chunks).

(** * The encrypted layer: CBC over an abstract block cipher *)
Definition xor_bytes (a b : bytes) : bytes := map (fun xy => N.lxor (fst xy) (snd xy)) (combine a b).

(** cut into whole blocks; the incomplete tail is returned separately *)
Fixpoint to_blocks (fuel : nat) (bs : bytes) : list bytes * bytes :=
  match fuel with
  | O => ([], bs)
  | S f => match split_at bs blockSize with
           | Some (b, t) => let (bl, tl) := to_blocks f t in (b :: bl, tl)
           | None => ([], bs)
           end
  end.
Definition blocks_of (bs : bytes) : list bytes * bytes := to_blocks (length bs) bs.

Section Cbc.
  Variables E D : bytes -> bytes.

  Fixpoint cbc_enc (iv : bytes) (bl : list bytes) : list bytes :=
    match bl with
    | [] => []
    | p :: r => let ct := E (xor_bytes p iv) in ct :: cbc_enc ct r
    end.
  Fixpoint cbc_dec (iv : bytes) (bl : list bytes) : list bytes :=
    match bl with
    | [] => []
    | ct :: r => xor_bytes (D ct) iv :: cbc_dec ct r
    end.

  (** what the cryptoWriter puts on the wire for the plaintext stream: whole blocks only *)
  Definition wire_enc (iv : bytes) (plain : bytes) : bytes := concat (cbc_enc iv (fst (blocks_of plain))).
  (** what a receiver that has seen all of [wire] can decrypt *)
  Definition wire_dec (iv : bytes) (wire : bytes) : bytes := concat (cbc_dec iv (fst (blocks_of wire))).

  (** cryptoReader with encryption: decrypted bytes, undecrypted tail (< one block), chaining value,
      chunks still to come from the connection *)
  Record csrc := { cs_plain : bytes; cs_tail : bytes; cs_iv : bytes; cs_chunks : list bytes }.

  Definition last_block (iv : bytes) (bl : list bytes) : bytes := last bl iv.

  Fixpoint take_cchunks (n : N) (plain tail iv : bytes) (chunks : list bytes) : tres csrc :=
    match split_at plain n with
    | Some (a, t) => TOk a {| cs_plain := t; cs_tail := tail; cs_iv := iv; cs_chunks := chunks |}
    | None => match chunks with
              | [] => match plain with [] => TEmpty | _ => TShort end
              | ch :: cs =>
                  let (bl, tl) := blocks_of (tail ++ ch) in
                  take_cchunks n (plain ++ concat (cbc_dec iv bl)) tl (last_block iv bl) cs
              end
    end.
  Definition take_cchunked (n : N) (s : csrc) : tres csrc :=
    take_cchunks n (cs_plain s) (cs_tail s) (cs_iv s) (cs_chunks s).

  Definition read_cchunked (c : cfg) (seq : Z) (iv : bytes) (chunks : list bytes) : list packet * verdict :=
    read_all csrc take_cchunked c (S (length (concat chunks))) seq
             {| cs_plain := []; cs_tail := []; cs_iv := iv; cs_chunks := chunks |}.
End Cbc.
