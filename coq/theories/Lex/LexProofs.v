(** Proofs about the lexer model (family Lex: C19, C20): for ALL byte strings and all options,
    the lexer never panics, never runs out of fuel, consumes at least one byte per step,
    its tokens recombine to the input, and every token position is the true
    (line, column, line start, offset) of the place where the token starts. *)
From Coq Require Import List NArith ZArith Bool Lia ZifyN ZifyNat ZifyBool.
From TLV Require Import Lex.LexModel.
Import ListNotations.
Open Scope N_scope.

(** * Specification vocabulary *)
Definition vals (ts : list token) : list N := concat (map t_val ts).

Fixpoint count10 (s : list N) : N :=
  match s with [] => 0 | c :: r => (if c =? 10 then 1 else 0) + count10 r end.

(** offset just after the last line feed of [s] (scanning from offset [off], default [slo]) *)
Fixpoint lls (s : list N) (off slo : N) : N :=
  match s with
  | [] => slo
  | c :: r => if c =? 10 then lls r (off + 1) (off + 1) else lls r (off + 1) slo
  end.

Definition lineStart (pre : list N) : N := lls pre 0 0.

(** the position of the end of [pre] in any text that starts with [pre]: 1-based line and
    column, offset of the start of the line, byte offset *)
Definition pos_spec (pre : list N) : pos :=
  mkPos (1 + count10 pre) (lenN pre - lineStart pre + 1) (lineStart pre) (lenN pre).

(** tokens laid out one after another starting at the end of [pre], each carrying its true position *)
Fixpoint toks_pos_ok (pre : list N) (ts : list token) : Prop :=
  match ts with
  | [] => True
  | t :: r => t_pos t = pos_spec pre /\ toks_pos_ok (pre ++ t_val t) r
  end.

Definition no10 (v : list N) : Prop := forallb (fun c => negb (c =? 10)) v = true.

(** * Lists *)
Lemma vals_app a b : vals (a ++ b) = vals a ++ vals b.
Proof. unfold vals. rewrite map_app, concat_app. reflexivity. Qed.

Lemma vals_snoc a t : vals (a ++ [t]) = vals a ++ t_val t.
Proof. rewrite vals_app. unfold vals. simpl. rewrite app_nil_r. reflexivity. Qed.

Lemma lenN_app a b : lenN (a ++ b) = lenN a + lenN b.
Proof. unfold lenN. rewrite app_length, Nat2N.inj_add. reflexivity. Qed.

Lemma lenN_cons c a : lenN (c :: a) = 1 + lenN a.
Proof. unfold lenN. simpl length. rewrite Nat2N.inj_succ. lia. Qed.

Lemma firstn_length_app (v r : list N) : firstn (length v) (v ++ r) = v.
Proof. induction v; simpl; congruence. Qed.

Lemma skipn_length_app (v r : list N) : skipn (length v) (v ++ r) = r.
Proof. induction v; simpl; congruence. Qed.

Lemma lenAtLeast_spec n : forall s, lenAtLeast n s = (n <=? length s)%nat.
Proof.
  induction n; intros s; simpl; [reflexivity|].
  destruct s; simpl; [reflexivity|]. apply IHn.
Qed.

Lemma list_eqb_eq a : forall b, list_eqb a b = true -> a = b.
Proof.
  induction a; intros [|y b]; simpl; try discriminate; [reflexivity|].
  intros H. apply andb_true_iff in H. destruct H as [H1 H2].
  apply N.eqb_eq in H1. subst. f_equal. auto.
Qed.

Lemma list_eqb_refl a : list_eqb a a = true.
Proof. induction a; simpl; [reflexivity|]. rewrite N.eqb_refl. exact IHa. Qed.

Lemma hasPrefix_app p : forall s, hasPrefix s p = true -> exists r, s = p ++ r.
Proof.
  induction p; intros s H; simpl in *; [exists s; reflexivity|].
  destruct s; [discriminate|]. apply andb_true_iff in H. destruct H as [H1 H2].
  apply N.eqb_eq in H1. subst. destruct (IHp _ H2) as [r ->]. exists r. reflexivity.
Qed.

Lemma takeWhile_split f s : exists r, s = takeWhile f s ++ r.
Proof.
  induction s; simpl; [exists []; reflexivity|].
  destruct (f a); [|exists (a :: s); reflexivity].
  destruct IHs as [r Hr]. exists r. simpl. congruence.
Qed.

Lemma takeWhile_all f s : forallb f (takeWhile f s) = true.
Proof. induction s; simpl; [reflexivity|]. destruct (f a) eqn:E; simpl; [rewrite E; exact IHs|reflexivity]. Qed.

Lemma forallb_impl (f g : N -> bool) v :
  (forall c, f c = true -> g c = true) -> forallb f v = true -> forallb g v = true.
Proof.
  intros H. induction v; simpl; [reflexivity|]. intros E. apply andb_true_iff in E. destruct E as [E1 E2].
  rewrite (H _ E1), (IHv E2). reflexivity.
Qed.

(** * Character classes never contain a line feed *)
Lemma identChar_not10 c : identChar c = true -> negb (c =? 10) = true.
Proof. intros H. destruct (N.eqb_spec c 10); [subst; discriminate|reflexivity]. Qed.

Lemma letter_identChar c : letter c = true -> identChar c = true.
Proof. unfold identChar. intros ->. reflexivity. Qed.

Lemma digit_identChar c : digit c = true -> identChar c = true.
Proof. unfold identChar. intros ->. rewrite orb_true_r. reflexivity. Qed.

Lemma no10_identChars v : forallb identChar v = true -> no10 v.
Proof. apply forallb_impl. exact identChar_not10. Qed.

Lemma no10_takeWhile s : no10 (takeWhile identChar s).
Proof. apply no10_identChars. apply takeWhile_all. Qed.

Lemma no10_cons c v : c <> 10 -> no10 v -> no10 (c :: v).
Proof. unfold no10. simpl. intros H ->. destruct (N.eqb_spec c 10); [contradiction|reflexivity]. Qed.

Lemma no10_app a b : no10 a -> no10 b -> no10 (a ++ b).
Proof. unfold no10. rewrite forallb_app. intros -> ->. reflexivity. Qed.

Lemma no10_app_l a b : no10 (a ++ b) -> no10 a.
Proof. unfold no10. rewrite forallb_app. intros H. apply andb_true_iff in H. tauto. Qed.

Lemma no10_app_r a b : no10 (a ++ b) -> no10 b.
Proof. unfold no10. rewrite forallb_app. intros H. apply andb_true_iff in H. tauto. Qed.

(** nameIdent / builtinIdent return a prefix made of identifier characters *)
Lemma nameIdent_split s : exists r, s = nameIdent s ++ r /\ forallb identChar (nameIdent s) = true.
Proof.
  destruct s as [|c t]; simpl; [exists []; auto|].
  destruct (letter c) eqn:E; simpl; [|exists (c :: t); auto].
  destruct (takeWhile_split identChar t) as [r Hr]. exists r.
  rewrite (letter_identChar _ E), takeWhile_all. split; [congruence|reflexivity].
Qed.

Lemma nameIdent_letter c t : letter c = true -> nameIdent (c :: t) = c :: takeWhile identChar t.
Proof. simpl. intros ->. reflexivity. Qed.

(** * Line bookkeeping *)
Lemma count10_app a b : count10 (a ++ b) = count10 a + count10 b.
Proof. induction a; simpl; lia. Qed.

Lemma count10_no10 v : no10 v -> count10 v = 0.
Proof.
  unfold no10. induction v; simpl; [reflexivity|]. intros H. apply andb_true_iff in H. destruct H as [H1 H2].
  destruct (a =? 10); [discriminate|]. rewrite (IHv H2). reflexivity.
Qed.

Lemma lls_app a : forall b off slo, lls (a ++ b) off slo = lls b (off + lenN a) (lls a off slo).
Proof.
  induction a; intros b off slo; simpl.
  - replace (off + lenN []) with off by (unfold lenN; simpl; lia). reflexivity.
  - rewrite lenN_cons. destruct (a =? 10); rewrite IHa; f_equal; lia.
Qed.

Lemma lls_no10 v : forall off slo, no10 v -> lls v off slo = slo.
Proof.
  unfold no10. induction v; intros off slo H; simpl in *; [reflexivity|].
  apply andb_true_iff in H. destruct H as [H1 H2]. destruct (a =? 10); [discriminate|]. apply IHv. exact H2.
Qed.

Lemma lls_bounds v : forall off slo, slo <= off -> slo <= lls v off slo <= off + lenN v.
Proof.
  induction v; intros off slo H; simpl.
  - unfold lenN. simpl. lia.
  - rewrite lenN_cons. destruct (a =? 10).
    + specialize (IHv (off + 1) (off + 1)). lia.
    + specialize (IHv (off + 1) slo). lia.
Qed.

Lemma lineStart_le pre : lineStart pre <= lenN pre.
Proof. unfold lineStart. pose proof (lls_bounds pre 0 0). lia. Qed.

Lemma lineStart_mono a b : lineStart a <= lineStart (a ++ b).
Proof.
  unfold lineStart. rewrite lls_app. pose proof (lls_bounds a 0 0).
  pose proof (lls_bounds b (0 + lenN a) (lls a 0 0)). lia.
Qed.

Lemma pos_spec_app_no10 pre v : no10 v ->
  pos_spec (pre ++ v) =
  mkPos (p_line (pos_spec pre)) (p_col (pos_spec pre) + lenN v) (p_slo (pos_spec pre)) (p_off (pos_spec pre) + lenN v).
Proof.
  intros H. unfold pos_spec, lineStart. cbn [p_line p_col p_slo p_off].
  rewrite count10_app, (count10_no10 _ H), lls_app, (lls_no10 _ _ _ H), lenN_app.
  pose proof (lls_bounds pre 0 0). f_equal; lia.
Qed.

Lemma pos_spec_newline pre w : no10 w ->
  pos_spec (pre ++ w ++ [10]) =
  mkPos (p_line (pos_spec pre) + 1) 1 (p_off (pos_spec pre) + lenN (w ++ [10])) (p_off (pos_spec pre) + lenN (w ++ [10])).
Proof.
  intros H. unfold pos_spec, lineStart. cbn [p_line p_col p_slo p_off].
  rewrite !count10_app, (count10_no10 _ H), !lls_app, (lls_no10 _ _ _ H), !lenN_app.
  cbn [count10 lls N.eqb Pos.eqb]. change (lenN [10]) with 1. f_equal; lia.
Qed.

Lemma toks_pos_ok_snoc ts : forall pre t,
  toks_pos_ok pre (ts ++ [t]) <-> toks_pos_ok pre ts /\ t_pos t = pos_spec (pre ++ vals ts).
Proof.
  induction ts; intros pre t; simpl.
  - unfold vals. simpl. rewrite app_nil_r. tauto.
  - rewrite IHts. unfold vals. simpl. fold (vals ts). rewrite app_assoc. tauto.
Qed.

(** * The lexer state invariant *)
(** identifiers with namespace contain the dot the parsers split them at *)
Definition nsb (ty : Z) : bool := Z.eqb ty T_lcIdentNS || Z.eqb ty T_ucIdentNS.
(** white-space classes (= LexParse1Model.isWS); their values never start with 'T' (so no such token has the value "Type") *)
Definition isWSty (ty : Z) : bool :=
  Z.eqb ty T_comment || Z.eqb ty (ty_chr tk_whiteSpace) || Z.eqb ty (ty_chr tk_tab) || Z.eqb ty T_newLine.
Definition ns_ok (ty : Z) (v : list N) : Prop :=
  (nsb ty = false \/ In 46 v) /\ (isWSty ty = true -> hd 0 v <> 84).
Definition tok_ns_ok (t : token) : Prop := ns_ok (t_type t) (t_val t).

Lemma nsb_chr c : nsb (ty_chr c) = false.
Proof. unfold nsb, ty_chr. apply orb_false_iff. split; apply Z.eqb_neq; vm_compute; destruct c; discriminate. Qed.

Lemma isWSty_chr c : isWSty (ty_chr c) = true -> c <> 84.
Proof. intros H ->. vm_compute in H. discriminate. Qed.

Ltac ns_closed := split; [left; reflexivity|let H := fresh in intros H; vm_compute in H; discriminate H].

Definition consumed (st : lstate) : list N := vals (rev (l_rtoks st)).

Record good (s : list N) (st : lstate) : Prop := mkGood {
  g_recomb : consumed st ++ l_str st = s;
  g_pos : l_pos st = pos_spec (consumed st);
  g_toks : toks_pos_ok [] (rev (l_rtoks st));
  g_nonempty : Forall (fun t => t_val t <> []) (l_rtoks st);
  g_ns : Forall tok_ns_ok (l_rtoks st) }.

Lemma good_new s : good s (newLexer s).
Proof. split; simpl; auto. Qed.

Lemma advance_app st v r ty : l_str st = v ++ r ->
  advance (length v) ty st =
  Some (mkTok ty v (l_pos st),
        mkL r (mkTok ty v (l_pos st) :: l_rtoks st)
            (mkPos (p_line (l_pos st)) (p_col (l_pos st) + lenN v) (p_slo (l_pos st)) (p_off (l_pos st) + lenN v))).
Proof.
  intros H. unfold advance. rewrite lenAtLeast_spec, H, app_length.
  replace (length v <=? length v + length r)%nat with true by (symmetry; apply Nat.leb_le; lia).
  simpl. rewrite firstn_length_app, skipn_length_app. reflexivity.
Qed.

(** one [advance] over a non-empty value without line feed keeps the invariant *)
Lemma advance_good s st v r n ty :
  good s st -> l_str st = v ++ r -> n = length v -> v <> [] -> no10 v -> ns_ok ty v ->
  exists tok st', advance n ty st = Some (tok, st') /\ good s st' /\ l_str st' = r /\
                  l_rtoks st' = tok :: l_rtoks st /\ t_pos tok = l_pos st /\ t_val tok = v /\ t_type tok = ty.
Proof.
  intros G Hs -> Hne H10 Hns. rewrite (advance_app _ _ _ _ Hs).
  eexists. eexists. split; [reflexivity|]. split; [|cbn; auto 8].
  split; cbn [l_str l_rtoks l_pos t_pos t_val].
  - unfold consumed. cbn [l_rtoks rev]. rewrite vals_snoc. cbn [t_val]. rewrite <- app_assoc, <- Hs. apply G.
  - unfold consumed. cbn [l_rtoks rev]. rewrite vals_snoc. cbn [t_val].
    rewrite (pos_spec_app_no10 _ _ H10). fold (consumed st). rewrite <- (g_pos _ _ G). reflexivity.
  - cbn [rev]. apply toks_pos_ok_snoc. split; [apply G|]. cbn [t_pos app]. apply G.
  - constructor; [exact Hne|apply G].
  - constructor; [exact Hns|apply G].
Qed.

(** an [advance] over a line terminator followed by the line bookkeeping of nextToken *)
Lemma advance_newline_good s st w r n :
  good s st -> l_str st = (w ++ [10]) ++ r -> n = length (w ++ [10]) -> no10 w -> hd 0 (w ++ [10]) <> 84 ->
  exists tok st', advance n T_newLine st = Some (tok, st') /\ good s (newline_pos st') /\ l_str st' = r /\
                  l_rtoks st' = tok :: l_rtoks st.
Proof.
  intros G Hs -> H10 Hhd. rewrite (advance_app _ _ _ _ Hs).
  eexists. eexists. split; [reflexivity|]. split; [|cbn; auto].
  split; cbn [l_str l_rtoks l_pos t_pos t_val newline_pos p_off p_line].
  - unfold consumed. cbn [l_rtoks l_str l_pos newline_pos rev]. rewrite vals_snoc. cbn [t_val]. rewrite <- app_assoc, <- Hs. apply G.
  - unfold consumed. cbn [l_rtoks l_str l_pos newline_pos rev]. rewrite vals_snoc. cbn [t_val].
    rewrite (pos_spec_newline _ _ H10). fold (consumed st). rewrite <- (g_pos _ _ G). reflexivity.
  - cbn [rev]. apply toks_pos_ok_snoc. split; [apply G|]. cbn [t_pos app]. apply G.
  - constructor; [destruct w; discriminate|apply G].
  - constructor; [split; [left; reflexivity|intros _; exact Hhd]|apply G].
Qed.

(** * One call of nextToken *)
Definition err_ok (st' : lstate) (e : option perr) : Prop :=
  match e with
  | None => True
  | Some err => exists rest, l_rtoks st' = e_tok err :: rest /\ e_outer err = t_pos (e_tok err)
  end.

Definition step_ok (s : list N) (st : lstate) (r : step) : Prop :=
  exists st' e, r = Some (st', e) /\ good s st' /\ (length (l_str st') < length (l_str st))%nat /\ err_ok st' e.

Lemma len_lt_app (v r : list N) : v <> [] -> (length r < length (v ++ r))%nat.
Proof. destruct v; [contradiction|]. intros _. rewrite app_length. simpl. lia. Qed.

Lemma adv_ok_good s st v r n ty :
  good s st -> l_str st = v ++ r -> n = length v -> v <> [] -> no10 v -> ns_ok ty v -> step_ok s st (adv_ok n ty st).
Proof.
  intros G Hs Hn Hne H10 Hns. destruct (advance_good s st v r n ty G Hs Hn Hne H10 Hns) as (tok & st' & E & G' & Hr & _).
  unfold adv_ok. rewrite E. exists st', None. split; [reflexivity|]. split; [exact G'|]. split; [|exact I].
  rewrite Hr, Hs. apply len_lt_app. exact Hne.
Qed.

Lemma adv_err_good s st v r n k :
  good s st -> l_str st = v ++ r -> n = length v -> v <> [] -> no10 v -> step_ok s st (adv_err n k st).
Proof.
  intros G Hs Hn Hne H10.
  destruct (advance_good s st v r n T_undefined G Hs Hn Hne H10 ltac:(ns_closed)) as (tok & st' & E & G' & Hr & Ht & _).
  unfold adv_err. rewrite E. eexists st', (Some _). split; [reflexivity|]. split; [exact G'|]. split.
  - rewrite Hr, Hs. apply len_lt_app. exact Hne.
  - cbn [err_ok e_tok e_outer]. eexists. split; [exact Ht|reflexivity].
Qed.

Lemma adv_newline_good s st w r n :
  good s st -> l_str st = (w ++ [10]) ++ r -> n = length (w ++ [10]) -> no10 w -> hd 0 (w ++ [10]) <> 84 ->
  step_ok s st (adv_newline n st).
Proof.
  intros G Hs Hn H10 Hhd. destruct (advance_newline_good s st w r n G Hs Hn H10 Hhd) as (tok & st' & E & G' & Hr & _).
  unfold adv_newline. rewrite E. exists (newline_pos st'), None. split; [reflexivity|]. split; [exact G'|]. split; [|exact I].
  cbn [newline_pos l_str]. rewrite Hr, Hs. apply len_lt_app. destruct w; discriminate.
Qed.

(** ** the helper lexers *)
Ltac leaf_ok V R := eapply (adv_ok_good _ _ V R); [eassumption| | | | |try first [ns_closed|split; [left; apply nsb_chr|let H := fresh in intros H; apply isWSty_chr in H; exact H]]].
Ltac leaf_err V R := eapply (adv_err_good _ _ V R); [eassumption| | | |].

Lemma no10_1 c : c <> 10 -> no10 [c].
Proof. intros H. apply no10_cons; [exact H|reflexivity]. Qed.

Lemma lexFunctionModifier_good s st t :
  good s st -> l_str st = 64 :: t -> step_ok s st (lexFunctionModifier st).
Proof.
  intros G Hs. unfold lexFunctionModifier. rewrite Hs. cbn [tl].
  destruct (nameIdent_split t) as [r [Hr Hall]]. remember (nameIdent t) as w eqn:Hw. clear Hw.
  assert (H10 : no10 (64 :: w)) by (apply no10_cons; [discriminate|apply no10_identChars; exact Hall]).
  assert (Hstr : l_str st = (64 :: w) ++ r) by (rewrite Hs, Hr; reflexivity).
  destruct w as [|w0 w'].
  - leaf_err [64] r; auto; discriminate.
  - destruct (negb (lowerCase w0)).
    + leaf_err (64 :: w0 :: w') r; auto; discriminate.
    + leaf_ok (64 :: w0 :: w') r; auto; discriminate.
Qed.

Lemma lexSection_good s st t :
  good s st -> l_str st = 45 :: t -> step_ok s st (lexSection st).
Proof.
  intros G Hs. unfold lexSection.
  destruct (hasPrefix (l_str st) tk_typesSectionString) eqn:E1.
  - apply hasPrefix_app in E1. destruct E1 as [r Hr].
    leaf_ok tk_typesSectionString r; [exact Hr|reflexivity|discriminate|reflexivity].
  - destruct (hasPrefix (l_str st) tk_functionsSectionString) eqn:E2.
    + apply hasPrefix_app in E2. destruct E2 as [r Hr].
      leaf_ok tk_functionsSectionString r; [exact Hr|reflexivity|discriminate|reflexivity].
    + leaf_ok [45] t; [exact Hs|reflexivity|discriminate|reflexivity].
Qed.

Lemma lexNumberSign_good s st t :
  good s st -> l_str st = 35 :: t -> step_ok s st (lexNumberSign st).
Proof.
  intros G Hs. unfold lexNumberSign. rewrite Hs. cbn [tl].
  destruct (takeWhile_split identChar t) as [r Hr].
  pose proof (no10_takeWhile t) as Hn. remember (takeWhile identChar t) as w eqn:Hw. clear Hw.
  assert (H10 : no10 (35 :: w)) by (apply no10_cons; [discriminate|exact Hn]).
  assert (Hstr : l_str st = (35 :: w) ++ r) by (rewrite Hs, Hr; reflexivity).
  destruct (1 + length w =? 1)%nat.
  - leaf_ok (35 :: w) r; auto; discriminate.
  - destruct (negb (forallb hexChar w) || negb (1 + length w =? 1 + 8)%nat).
    + leaf_err (35 :: w) r; auto; discriminate.
    + leaf_ok (35 :: w) r; auto; discriminate.
Qed.

Lemma lexNumber_good s st c t :
  good s st -> l_str st = c :: t -> digit c = true -> step_ok s st (lexNumber st).
Proof.
  intros G Hs Hd. unfold lexNumber, numberLexeme. rewrite Hs.
  cbn [takeWhile]. rewrite (digit_identChar _ Hd).
  destruct (takeWhile_split identChar t) as [r Hr].
  pose proof (no10_takeWhile t) as Hn. remember (takeWhile identChar t) as w eqn:Hw. clear Hw.
  assert (H10 : no10 (c :: w)).
  { apply no10_cons; [|exact Hn]. intros ->. discriminate. }
  assert (Hstr : l_str st = (c :: w) ++ r) by (rewrite Hs, Hr; reflexivity).
  destruct (negb (forallb digit (c :: w))).
  - leaf_err (c :: w) r; auto; discriminate.
  - leaf_ok (c :: w) r; auto; discriminate.
Qed.

Lemma lexUnderscore_good o s st t :
  good s st -> l_str st = 95 :: t -> step_ok s st (lexUnderscore o st).
Proof.
  intros G Hs. unfold lexUnderscore. rewrite Hs. cbn [tl].
  destruct (is_tl2 o).
  - destruct (nameIdent_split t) as [r [Hr Hall]]. remember (nameIdent t) as w eqn:Hw. clear Hw.
    destruct (length w =? 0)%nat.
    + leaf_ok [95] t; [exact Hs|reflexivity|discriminate|reflexivity].
    + leaf_ok (95 :: w) r; [rewrite Hs, Hr; reflexivity|reflexivity|discriminate|].
      apply no10_cons; [discriminate|apply no10_identChars; exact Hall].
  - destruct (o_builtin o).
    + change (builtinIdent (95 :: t)) with (95 :: takeWhile identChar t).
      destruct (takeWhile_split identChar t) as [r Hr].
      pose proof (no10_takeWhile t) as Hn. remember (takeWhile identChar t) as w eqn:Hw. clear Hw.
      assert (H10 : no10 (95 :: w)) by (apply no10_cons; [discriminate|exact Hn]).
      assert (Hstr : l_str st = (95 :: w) ++ r) by (rewrite Hs, Hr; reflexivity).
      destruct (list_eqb (95 :: w) [95]).
      * leaf_ok (95 :: w) r; auto; discriminate.
      * leaf_ok (95 :: w) r; auto; discriminate.
    + destruct (o_dirty o).
      * leaf_ok [95] t; [exact Hs|reflexivity|discriminate|reflexivity].
      * leaf_err [95] t; [exact Hs|reflexivity|discriminate|reflexivity].
Qed.

Lemma nth_length_app (w : list N) d r : nth (length w) (w ++ d :: r) 0 = d.
Proof. induction w; simpl; auto. Qed.

Lemma lexLexeme_good s st c t :
  good s st -> l_str st = c :: t -> letter c = true -> step_ok s st (lexLexeme st).
Proof.
  intros G Hs Hl. unfold lexLexeme. rewrite Hs. rewrite (nameIdent_letter _ _ Hl).
  destruct (takeWhile_split identChar t) as [r Hr].
  pose proof (no10_takeWhile t) as Hn. remember (takeWhile identChar t) as w' eqn:Hw. clear Hw.
  assert (H10 : no10 (c :: w')).
  { apply no10_cons; [|exact Hn]. intros ->. discriminate. }
  assert (Hstr : l_str st = (c :: w') ++ r) by (rewrite Hs, Hr; reflexivity).
  assert (Hplain : step_ok s st (if lowerCase c then adv_ok (length (c :: w')) T_lcIdent st
                                 else adv_ok (length (c :: w')) T_ucIdent st)).
  { destruct (lowerCase c); leaf_ok (c :: w') r; auto; discriminate. }
  rewrite lenAtLeast_spec.
  destruct ((S (length (c :: w')) <=? length (c :: t))%nat && (nth (length (c :: w')) (c :: t) 0 =? tk_dotSign)) eqn:E;
    [|exact Hplain].
  apply andb_true_iff in E. destruct E as [E1 E2]. apply Nat.leb_le in E1. apply N.eqb_eq in E2.
  rewrite Hr in E1, E2. destruct r as [|d r'].
  { rewrite app_nil_r in E1. simpl in E1. lia. }
  change (c :: w' ++ d :: r') with ((c :: w') ++ d :: r') in E2. rewrite nth_length_app in E2.
  change tk_dotSign with 46 in E2. subst d.
  replace (skipn (length (c :: w') + 1) (c :: t)) with r'.
  2:{ rewrite Hr. change (c :: w' ++ 46 :: r') with ((c :: w') ++ [46] ++ r').
      rewrite app_assoc. replace (length (c :: w') + 1)%nat with (length ((c :: w') ++ [46])) by (rewrite app_length; reflexivity).
      rewrite skipn_length_app. reflexivity. }
  destruct (nameIdent_split r') as [r2 [Hr2 Hall2]]. remember (nameIdent r') as w2 eqn:Hw2. clear Hw2.
  destruct w2 as [|c2 w2']; [exact Hplain|].
  cbn [app].
  assert (Hstr2 : l_str st = ((c :: w') ++ [46] ++ c2 :: w2') ++ r2).
  { rewrite Hstr, Hr2, <- !app_assoc. reflexivity. }
  assert (Hlen : Nat.add (length (c :: w' ++ [46])) (length (c2 :: w2')) = length ((c :: w') ++ [46] ++ c2 :: w2')).
  { change (c :: w' ++ [46]) with ((c :: w') ++ [46]). rewrite !app_length. lia. }
  assert (H10' : no10 ((c :: w') ++ [46] ++ c2 :: w2')).
  { apply no10_app; [exact H10|]. apply no10_app; [reflexivity|]. apply no10_identChars. exact Hall2. }
  destruct (negb (lowerCase c)).
  - leaf_err ((c :: w') ++ [46] ++ c2 :: w2') r2; auto; discriminate.
  - destruct (lowerCase c2).
    + leaf_ok ((c :: w') ++ [46] ++ c2 :: w2') r2; auto; try discriminate.
      split; [right; apply in_or_app; right; left; reflexivity|]. intros H; vm_compute in H; discriminate H.
    + leaf_ok ((c :: w') ++ [46] ++ c2 :: w2') r2; auto; try discriminate.
      split; [right; apply in_or_app; right; left; reflexivity|]. intros H; vm_compute in H; discriminate H.
Qed.

(** ** comments: the end-of-line search and the UTF-8 scan *)
Lemma indexByte_range c s : (-1 <= indexByte c s < Z.of_nat (length s))%Z \/ (s = [] /\ indexByte c s = (-1)%Z).
Proof.
  induction s; [right; auto|]. left. cbn [indexByte length].
  destruct (a =? c); [lia|].
  destruct IHs as [IH|[-> IH]]; [|simpl; lia].
  destruct (indexByte c s <? 0)%Z eqn:E; lia.
Qed.

Lemma indexByte_lt c s : (indexByte c s < Z.of_nat (length s))%Z \/ s = [].
Proof. destruct (indexByte_range c s) as [H|[H _]]; [left; lia|right; exact H]. Qed.

Lemma indexByte_ge c s : (-1 <= indexByte c s)%Z.
Proof. destruct (indexByte_range c s) as [H|[_ H]]; lia. Qed.

(** no line feed before the first line feed *)
Lemma indexByte10_no10 s :
  ((indexByte 10 s < 0)%Z -> no10 s) /\ ((0 <= indexByte 10 s)%Z -> no10 (firstn (Z.to_nat (indexByte 10 s)) s)).
Proof.
  induction s; [split; reflexivity|]. cbn [indexByte].
  destruct (a =? 10) eqn:Ea.
  - split; [lia|]. intros _. reflexivity.
  - pose proof (indexByte_ge 10 s). destruct IHs as [IH1 IH2].
    destruct (indexByte 10 s <? 0)%Z eqn:E.
    + split; [|lia]. intros _. unfold no10. cbn [forallb]. rewrite Ea. apply IH1. lia.
    + split; [lia|]. intros _. replace (Z.to_nat (indexByte 10 s + 1)) with (S (Z.to_nat (indexByte 10 s))) by lia.
      cbn [firstn]. unfold no10. cbn [forallb]. rewrite Ea. apply IH2. lia.
Qed.

Lemma indexByte_head c x r : x <> c -> indexByte c (x :: r) <> 0%Z.
Proof.
  intros H. cbn [indexByte]. destruct (N.eqb_spec x c); [contradiction|].
  pose proof (indexByte_ge c r). destruct (indexByte c r <? 0)%Z eqn:E; lia.
Qed.

Lemma indexCRLF_ge s : (0 <= indexCRLF s)%Z -> (0 <= indexByte 13 s <= indexCRLF s)%Z.
Proof.
  induction s as [|x r IH]; [simpl; lia|]. cbn [indexCRLF].
  destruct (hasPrefix (x :: r) [13; 10]) eqn:E.
  - apply hasPrefix_app in E. destruct E as [r' E]. inversion E; subst. intros _. cbn [indexByte N.eqb Pos.eqb]. lia.
  - destruct (indexCRLF r <? 0)%Z eqn:E2; [lia|]. intros _. cbn [indexByte].
    destruct (x =? 13); [lia|]. assert (0 <= indexCRLF r)%Z by lia. specialize (IH H).
    destruct (indexByte 13 r <? 0)%Z eqn:E3; lia.
Qed.

Lemma no10_firstn_le (s : list N) : forall k m, (k <= m)%nat -> no10 (firstn m s) -> no10 (firstn k s).
Proof.
  induction s; intros k m H; [rewrite !firstn_nil; auto|].
  destruct k; [reflexivity|]. destruct m; [lia|]. cbn [firstn]. unfold no10. cbn [forallb].
  intros E. apply andb_true_iff in E. destruct E as [E1 E2]. rewrite E1. apply (IHs k m); [lia|exact E2].
Qed.

Lemma commentEnd_spec s :
  (commentEnd s <= length s)%nat /\ no10 (firstn (commentEnd s) s) /\
  (forall x r, s = x :: r -> x <> 10 -> x <> 13 -> (1 <= commentEnd s)%nat).
Proof.
  unfold commentEnd.
  pose proof (indexByte_ge 13 s) as G13. pose proof (indexByte_ge 10 s) as G10.
  pose proof (indexByte_lt 13 s) as L13. pose proof (indexByte_lt 10 s) as L10.
  pose proof (indexByte10_no10 s) as [N1 N2].
  assert (I1 : (if (indexCRLF s <? 0)%Z || ((0 <=? indexByte 13 s)%Z && (indexByte 13 s <? indexCRLF s)%Z)
                then indexByte 13 s else indexCRLF s) = indexByte 13 s).
  { destruct (indexCRLF s <? 0)%Z eqn:E; [reflexivity|]. cbn [orb].
    assert (0 <= indexCRLF s)%Z by lia. pose proof (indexCRLF_ge s H).
    destruct ((0 <=? indexByte 13 s)%Z && (indexByte 13 s <? indexCRLF s)%Z) eqn:E2; [reflexivity|]. lia. }
  rewrite I1. clear I1.
  set (idx := if (indexByte 13 s <? 0)%Z || ((0 <=? indexByte 10 s)%Z && (indexByte 10 s <? indexByte 13 s)%Z)
              then indexByte 10 s else indexByte 13 s).
  assert (Hidx : (idx < 0 /\ indexByte 10 s < 0 /\ indexByte 13 s < 0)%Z \/
                 (0 <= idx /\ (idx = indexByte 10 s \/ idx = indexByte 13 s) /\ (0 <= indexByte 10 s -> idx <= indexByte 10 s))%Z).
  { subst idx. destruct (indexByte 13 s <? 0)%Z eqn:E1; cbn [orb].
    - destruct (indexByte 10 s <? 0)%Z eqn:E2; [left|right]; lia.
    - destruct ((0 <=? indexByte 10 s)%Z && (indexByte 10 s <? indexByte 13 s)%Z) eqn:E2; right; lia. }
  clearbody idx.
  destruct Hidx as [(H1 & H2 & H3)|(H1 & H2 & H3)].
  - replace (idx <? 0)%Z with true by lia. split; [lia|]. split.
    + rewrite firstn_all. apply N1. exact H2.
    + intros x r -> _ _. simpl. lia.
  - replace (idx <? 0)%Z with false by lia. split; [|split].
    + destruct H2 as [->| ->]; [destruct L10|destruct L13]; subst; simpl in *; lia.
    + destruct (indexByte 10 s <? 0)%Z eqn:E.
      * apply (no10_firstn_le s _ (length s)); [|rewrite firstn_all; apply N1; lia].
        destruct H2 as [->| ->]; [destruct L10|destruct L13]; subst; simpl in *; lia.
      * apply (no10_firstn_le s _ (Z.to_nat (indexByte 10 s))); [lia|]. apply N2. lia.
    + intros x r -> Hx10 Hx13.
      pose proof (indexByte_head 10 x r Hx10). pose proof (indexByte_head 13 x r Hx13).
      destruct H2 as [->| ->]; lia.
Qed.

Lemma utf8Scan_bound fuel : forall sub i0 i,
  utf8Scan fuel sub i0 = Some i -> (i0 <= i < i0 + length sub)%nat.
Proof.
  induction fuel; intros sub i0 i; cbn [utf8Scan]; [discriminate|].
  destruct sub as [|b sub']; [discriminate|].
  destruct (decodeRune (b :: sub')) as [bad size] eqn:D.
  destruct bad.
  - intros E. inversion E; subst. simpl. lia.
  - intros E. specialize (IHfuel _ _ _ E).
    assert (size <> 0)%nat.
    { intros ->. unfold decodeRune in D.
      repeat match type of D with
             | context [if ?b then _ else _] => destruct b
             | context [match ?l with [] => _ | _ :: _ => _ end] => destruct l
             end; cbn in D; try discriminate;
      repeat match type of D with
             | context [if ?b then _ else _] => destruct b
             | context [match ?l with [] => _ | _ :: _ => _ end] => destruct l
             end; discriminate. }
    destruct (skipn size (b :: sub')) eqn:Sk.
    + destruct fuel; discriminate.
    + assert (length (skipn size (b :: sub')) = length (b :: sub') - size)%nat by apply skipn_length.
      rewrite Sk in *. cbn [length] in *. lia.
Qed.

Lemma firstn_S_nth (s : list N) : forall i, (i < length s)%nat -> firstn (S i) s = firstn i s ++ [nth i s 0].
Proof.
  induction s; intros i H; [simpl in H; lia|].
  destruct i; [reflexivity|]. cbn [firstn nth app]. simpl in H. rewrite <- IHs by lia. reflexivity.
Qed.

Lemma lexSlash_good s st t :
  good s st -> l_str st = 47 :: t -> step_ok s st (lexSlash st).
Proof.
  intros G Hs. unfold lexSlash. rewrite Hs.
  destruct (hasPrefix (47 :: t) [47; 47]) eqn:E1.
  - destruct (commentEnd_spec (47 :: t)) as (Hle & Hno & Hge).
    specialize (Hge 47 t eq_refl ltac:(discriminate) ltac:(discriminate)).
    remember (commentEnd (47 :: t)) as index eqn:Hi. clear Hi.
    destruct (utf8Scan index (firstn index (47 :: t)) 0) as [i|] eqn:U.
    + (* first byte of the comment is '/': the scan cannot stop at 0 *)
      destruct index as [|k]; [lia|]. cbn [firstn utf8Scan] in U.
      change (decodeRune (47 :: firstn k t)) with (false, 1%nat) in U. cbn [skipn] in U.
      apply utf8Scan_bound in U. rewrite firstn_length_le in U by (simpl in Hle; lia).
      assert (Hil : lt i (length (47 :: t))) by (simpl in *; lia).
      assert (Hsplit : 47 :: t = (firstn i (47 :: t) ++ [nth i (47 :: t) 0]) ++ skipn (S i) (47 :: t)).
      { rewrite <- firstn_S_nth by exact Hil. symmetry. apply firstn_skipn. }
      assert (Hno' : no10 (firstn i (47 :: t) ++ [nth i (47 :: t) 0])).
      { rewrite <- firstn_S_nth by exact Hil. apply (no10_firstn_le _ _ (S k)); [lia|exact Hno]. }
      rewrite <- app_assoc in Hsplit.
      destruct (advance_good s st (firstn i (47 :: t)) ([nth i (47 :: t) 0] ++ skipn (S i) (47 :: t)) i T_comment G)
        as (tok & st1 & Ea & G1 & Hr1 & _).
      * rewrite Hs. exact Hsplit.
      * rewrite firstn_length_le; lia.
      * destruct i; [lia|]. discriminate.
      * apply no10_app_l in Hno'. exact Hno'.
      * split; [left; reflexivity|]. intros _. destruct i; [lia|]. discriminate.
      * rewrite Ea.
        assert (S1 : step_ok s st1 (adv_err 1 E_utf8 st1)).
        { leaf_err [nth i (47 :: t) 0] (skipn (S i) (47 :: t)); [exact Hr1|reflexivity|discriminate|].
          apply no10_app_r in Hno'. exact Hno'. }
        destruct S1 as (st' & e & -> & G' & Hlt & He). exists st', e. split; [reflexivity|]. split; [exact G'|]. split; [|exact He].
        rewrite Hr1 in Hlt. rewrite Hs. rewrite Hsplit at 1. rewrite !app_length. rewrite app_length in Hlt. lia.
    + assert (Hsplit : 47 :: t = firstn index (47 :: t) ++ skipn index (47 :: t)) by (symmetry; apply firstn_skipn).
      leaf_ok (firstn index (47 :: t)) (skipn index (47 :: t)).
      * rewrite Hs. exact Hsplit.
      * rewrite firstn_length_le; lia.
      * destruct index; [lia|]. discriminate.
      * exact Hno.
      * split; [left; reflexivity|]. intros _. destruct index; [lia|]. discriminate.
  - destruct (hasPrefix (47 :: t) [47; 42]) eqn:E2.
    + apply hasPrefix_app in E2. destruct E2 as [r Hr].
      leaf_err [47; 42] r; [rewrite Hs; exact Hr|reflexivity|discriminate|reflexivity].
    + leaf_err [47] t; [exact Hs|reflexivity|discriminate|reflexivity].
Qed.

(** ** nextToken: every branch of the switch *)
Theorem nextToken_good o s st : good s st -> l_str st <> [] -> step_ok s st (nextToken o st).
Proof.
  intros G Hne. unfold nextToken. destruct (l_str st) as [|c t] eqn:Hs; [contradiction|].
  destruct (isPrimitive c) eqn:Ep.
  { leaf_ok [c] t; [exact Hs|reflexivity|discriminate|]. apply no10_1. intros ->. vm_compute in Ep. discriminate. }
  destruct (N.eqb_spec c 13) as [->|N13].
  { destruct (hasPrefix (13 :: t) [13; 10]) eqn:E.
    - apply hasPrefix_app in E. destruct E as [r Hr].
      eapply (adv_newline_good _ _ [13] r); [exact G|rewrite Hs, Hr; reflexivity|reflexivity|reflexivity|discriminate].
    - leaf_err [13] t; [exact Hs|reflexivity|discriminate|reflexivity]. }
  destruct (N.eqb_spec c 10) as [->|N10].
  { eapply (adv_newline_good _ _ [] t); [exact G|exact Hs|reflexivity|reflexivity|discriminate]. }
  destruct (N.eqb_spec c 61) as [->|N61].
  { destruct (hasPrefix (61 :: t) [61; 62]) eqn:E.
    - apply hasPrefix_app in E. destruct E as [r Hr].
      leaf_ok [61; 62] r; [rewrite Hs; exact Hr|reflexivity|discriminate|reflexivity].
    - leaf_ok [61] t; [exact Hs|reflexivity|discriminate|reflexivity]. }
  destruct (N.eqb_spec c 60) as [->|N60].
  { assert (P1 : step_ok s st (adv_ok 1 (ty_chr tk_lAngleBracket) st)).
    { leaf_ok [60] t; [exact Hs|reflexivity|discriminate|reflexivity]. }
    destruct (is_tl2 o); [|exact P1].
    destruct (hasPrefix (60 :: t) [60; 61; 62]) eqn:E; [|exact P1].
    apply hasPrefix_app in E. destruct E as [r Hr].
    leaf_ok [60; 61; 62] r; [rewrite Hs; exact Hr|reflexivity|discriminate|reflexivity]. }
  destruct (N.eqb_spec c 64) as [->|N64]; [exact (lexFunctionModifier_good s st t G Hs)|].
  destruct (N.eqb_spec c 47) as [->|N47]; [exact (lexSlash_good s st t G Hs)|].
  destruct (N.eqb_spec c 45) as [->|N45]; [exact (lexSection_good s st t G Hs)|].
  destruct (N.eqb_spec c 35) as [->|N35]; [exact (lexNumberSign_good s st t G Hs)|].
  destruct (N.eqb_spec c 95) as [->|N95]; [exact (lexUnderscore_good o s st t G Hs)|].
  destruct (digit c) eqn:Ed; [exact (lexNumber_good s st c t G Hs Ed)|].
  destruct (letter c) eqn:El.
  { destruct (is_tl2 o && list_eqb (nameIdent (c :: t)) [84; 121; 112; 101]) eqn:E;
      [|exact (lexLexeme_good s st c t G Hs El)].
    apply andb_true_iff in E. destruct E as [_ E]. apply list_eqb_eq in E.
    destruct (nameIdent_split (c :: t)) as [r [Hr _]]. rewrite E in Hr.
    leaf_ok [84; 121; 112; 101] r; [rewrite Hs; exact Hr|reflexivity|discriminate|reflexivity]. }
  leaf_err [c] t; [exact Hs|reflexivity|discriminate|]. apply no10_1. exact N10.
Qed.

(** ** the loop of generateTokens *)
Lemma lexLoop_good o s : forall fuel st, good s st -> (length (l_str st) < fuel)%nat ->
  exists st' e, lexLoop fuel o st = Ok (st', e) /\ good s st' /\ err_ok st' e /\ (e = None -> l_str st' = []).
Proof.
  induction fuel; intros st G Hf; [lia|].
  cbn [lexLoop]. destruct (l_str st) as [|c t] eqn:Hs.
  - exists st, None. repeat split; try apply G; auto.
  - destruct (nextToken_good o s st G) as (st' & e & E & G' & Hlt & He); [rewrite Hs; discriminate|].
    rewrite E. destruct e as [err|].
    + exists st', (Some err). split; [reflexivity|]. split; [exact G'|]. split; [exact He|discriminate].
    + apply IHfuel; [exact G'|]. rewrite Hs in *. simpl in *. lia.
Qed.

Lemma validateTokens_spec lg : forall toks,
  (exists suffix, toks = fst (validateTokens lg toks) ++ suffix) /\
  (snd (validateTokens lg toks) = None -> fst (validateTokens lg toks) = toks) /\
  (forall err, snd (validateTokens lg toks) = Some err ->
     (exists init, fst (validateTokens lg toks) = init ++ [e_tok err]) /\ e_outer err = t_pos (e_tok err)).
Proof.
  induction toks as [|t r IH]; cbn [validateTokens].
  - split; [exists []; reflexivity|]. split; [reflexivity|]. discriminate.
  - destruct (illegal lg (t_type t)) as [k|].
    + cbn [fst snd]. split; [exists r; reflexivity|]. split; [discriminate|].
      intros err E. inversion E; subst. cbn [e_tok e_outer]. split; [exists []; reflexivity|reflexivity].
    + destruct (validateTokens lg r) as [p e]. cbn [fst snd] in *. destruct IH as ([suf Hsuf] & IH2 & IH3).
      split; [exists suf; simpl; congruence|]. split.
      * intros E. rewrite (IH2 E). reflexivity.
      * intros err E. destruct (IH3 err E) as ([init Hi] & Ho). split; [|exact Ho].
        exists (t :: init). rewrite Hi. reflexivity.
Qed.

Lemma snoc_split_unique (P : token -> Prop) (l : list token) x : Forall P l ->
  forall a t b, l ++ [x] = a ++ t :: b -> ~ P t -> b = [] /\ t = x.
Proof.
  induction 1 as [|y l' Py Hl IH]; intros a t b E Hn.
  - destruct a as [|a0 a']; simpl in E.
    + inversion E; subst. auto.
    + inversion E. destruct a'; discriminate.
  - destruct a as [|a0 a']; simpl in E.
    + inversion E; subst. contradiction.
    + inversion E; subst. eapply IH; eauto.
Qed.

(** * The result of generateTokens, for every input *)
Record lex_ok (s : list N) (r : lexres) : Prop := mkLexOk {
  lo_recomb : recombineTokens r = s;
  lo_pos : toks_pos_ok [] (r_all r);
  lo_prefix : exists suffix, r_all r = r_toks r ++ suffix;
  lo_ns : Forall tok_ns_ok (r_all r);
  lo_empty_only_eof : forall a t b, r_all r = a ++ t :: b -> t_val t = [] -> b = [] /\ t_type t = T_eof /\ r_rest r = [];
  lo_noerr : r_err r = None ->
             r_rest r = [] /\ r_toks r = r_all r /\ exists init p, r_all r = init ++ [mkTok T_eof [] p];
  lo_err : forall e, r_err r = Some e ->
           (exists init, r_toks r = init ++ [e_tok e]) /\ e_outer e = t_pos (e_tok e) }.

Lemma l_tokens_rev st : l_tokens st = rev (l_rtoks st).
Proof. unfold l_tokens. symmetry. apply rev_alt. Qed.

Theorem generateTokens_total o s : exists r, generateTokens o s = Ok r /\ lex_ok s r.
Proof.
  unfold generateTokens.
  destruct (lexLoop_good o s (S (length s)) (newLexer s) (good_new s)) as (st & e & E & G & He & Hn).
  { simpl. lia. }
  rewrite E. destruct e as [err|].
  - eexists. split; [reflexivity|]. rewrite l_tokens_rev.
    destruct He as (rest & Hr & Ho).
    split; cbn [r_toks r_err r_all r_rest recombineTokens].
    + unfold recombineTokens. cbn [r_all r_rest]. apply G.
    + apply G.
    + exists []. rewrite app_nil_r. reflexivity.
    + apply Forall_rev. apply G.
    + intros a t b Ea Hv. exfalso.
      assert (In t (l_rtoks st)). { apply in_rev. rewrite Ea. apply in_or_app. right. left. reflexivity. }
      pose proof (g_nonempty _ _ G) as F. rewrite Forall_forall in F. exact (F _ H Hv).
    + discriminate.
    + intros e' E'. inversion E'; subst e'. split; [|exact Ho]. exists (rev rest). rewrite Hr. reflexivity.
  - specialize (Hn eq_refl).
    assert (Ea : advance 0 T_eof st =
                 Some (mkTok T_eof [] (l_pos st), mkL [] (mkTok T_eof [] (l_pos st) :: l_rtoks st) (l_pos st))).
    { unfold advance. rewrite Hn. cbn [lenAtLeast negb firstn skipn]. destruct (l_pos st). cbn.
      rewrite !N.add_0_r. reflexivity. }
    rewrite Ea. clear Ea.
    set (eoft := mkTok T_eof [] (l_pos st)).
    rewrite l_tokens_rev. cbn [l_rtoks l_str rev].
    pose proof (validateTokens_spec (o_lang o) (rev (l_rtoks st) ++ [eoft])) as (Hp & Hq & Hr).
    destruct (validateTokens (o_lang o) (rev (l_rtoks st) ++ [eoft])) as [p e]. cbn [fst snd] in *.
    eexists. split; [reflexivity|].
    pose proof (g_recomb _ _ G) as Hrec. unfold consumed in Hrec. rewrite Hn, app_nil_r in Hrec.
    split; cbn [r_toks r_err r_all r_rest recombineTokens].
    + unfold recombineTokens. cbn [r_all r_rest]. fold (vals (rev (l_rtoks st) ++ [eoft])). rewrite vals_snoc, !app_nil_r. exact Hrec.
    + apply toks_pos_ok_snoc. split; [apply G|]. cbn [app t_pos eoft]. apply G.
    + destruct Hp as [suf Hsuf]. exists suf. exact Hsuf.
    + apply Forall_app. split; [apply Forall_rev; apply G|]. constructor; [ns_closed|constructor].
    + intros a t b Eab Hv.
      destruct (snoc_split_unique (fun t => t_val t <> []) (rev (l_rtoks st)) eoft) with (a := a) (t := t) (b := b) as [Hb Ht].
      * apply Forall_rev. apply G.
      * exact Eab.
      * intros H. exact (H Hv).
      * subst. auto.
    + intros ->. split; [reflexivity|]. split; [apply Hq; reflexivity|].
      exists (rev (l_rtoks st)), (l_pos st). reflexivity.
    + intros err ->. apply Hr. reflexivity.
Qed.

(** * Consequences used by the property files *)

(** positions of the tokens of a well laid-out list *)
Lemma tok_at ts : forall pre i t, toks_pos_ok pre ts -> nth_error ts i = Some t ->
  t_pos t = pos_spec (pre ++ vals (firstn i ts)) /\ exists rest, vals ts = vals (firstn i ts) ++ t_val t ++ rest.
Proof.
  induction ts as [|x ts IH]; intros pre i t H E; [destruct i; discriminate|].
  destruct H as [H1 H2]. destruct i as [|i]; cbn [nth_error firstn] in *.
  - inversion E; subst. unfold vals at 1. cbn. rewrite app_nil_r. split; [exact H1|].
    exists (vals ts). reflexivity.
  - destruct (IH _ _ _ H2 E) as [P [rest R]]. split.
    + rewrite P. unfold vals at 2. cbn [map concat]. fold (vals (firstn i ts)). rewrite app_assoc. reflexivity.
    + exists rest. unfold vals at 1 2. cbn [map concat]. fold (vals ts). fold (vals (firstn i ts)).
      rewrite R, <- app_assoc. reflexivity.
Qed.

Lemma firstn_le_split (ts : list token) : forall j i, (j <= i)%nat -> exists x, firstn i ts = firstn j ts ++ x.
Proof.
  induction ts; intros j i H; [exists []; rewrite !firstn_nil; reflexivity|].
  destruct j; [exists (firstn i (a :: ts)); reflexivity|]. destruct i; [lia|].
  destruct (IHts j i) as [x Hx]; [lia|]. exists x. cbn [firstn]. rewrite Hx. reflexivity.
Qed.

(** consolePrint slices nothing out of range when the three positions are true positions of
    [outer <= begin <= begin + |val| <= n] *)
Lemma consoleCorrupted_false n pre_o x v :
  lenN (pre_o ++ x) + lenN v <= n ->
  consoleCorrupted n (pos_spec pre_o) (pos_spec (pre_o ++ x))
    (mkPos (p_line (pos_spec (pre_o ++ x))) (p_col (pos_spec (pre_o ++ x)) + lenN v)
           (p_slo (pos_spec (pre_o ++ x))) (p_off (pos_spec (pre_o ++ x)) + lenN v)) = false.
Proof.
  intros H. unfold consoleCorrupted, safeRangeBad, pos_spec. cbn [p_line p_col p_slo p_off].
  rewrite N.eqb_refl.
  pose proof (lineStart_le pre_o). pose proof (lineStart_le (pre_o ++ x)). pose proof (lineStart_mono pre_o x).
  rewrite lenN_app in *.
  repeat match goal with |- context [?a <? ?b] => replace (a <? b) with false by (symmetry; apply N.ltb_ge; lia) end.
  reflexivity.
Qed.

(** an error located at token [i] with outer context token [j <= i] of a well laid-out token list *)
Lemma admissible_in_range s ts rest e :
  toks_pos_ok [] ts -> vals ts ++ rest = s -> admissibleErr ts e ->
  errCorrupted (lenN s) e = false /\
  p_off (e_begin e) <= p_off (e_end e) <= lenN s /\
  p_off (e_outer e) <= p_off (e_begin e) /\
  (exists pre, e_begin e = pos_spec pre /\ exists post, s = pre ++ t_val (e_tok e) ++ post) /\
  (exists pre, e_outer e = pos_spec pre /\ exists post, s = pre ++ post).
Proof.
  intros Hp Hs (i & j & t & Ei & Hji & Ej & Ho).
  destruct (tok_at ts [] i (e_tok e) Hp Ei) as [Pi [ri Ri]].
  destruct (tok_at ts [] j t Hp Ej) as [Pj [rj Rj]].
  destruct (firstn_le_split ts j i Hji) as [x Hx]. cbn [app] in Pi, Pj.
  rewrite Hx, vals_app in Pi, Ri.
  set (pre_o := vals (firstn j ts)) in *. set (xx := vals x) in *.
  assert (Hlen : lenN (pre_o ++ xx) + lenN (t_val (e_tok e)) <= lenN s).
  { rewrite <- Hs, Ri, !lenN_app. lia. }
  unfold errCorrupted, e_begin, e_end. rewrite Ho, Pj, Pi.
  split; [apply consoleCorrupted_false; exact Hlen|].
  cbn [p_off pos_spec]. rewrite lenN_app in *. split; [lia|]. split; [lia|]. split.
  - exists (pre_o ++ xx). split; [reflexivity|]. exists (ri ++ rest). rewrite <- Hs, Ri, <- !app_assoc. reflexivity.
  - exists pre_o. split; [reflexivity|]. exists (t_val t ++ rj ++ rest). rewrite <- Hs, Rj, <- !app_assoc. reflexivity.
Qed.

Lemma nth_error_snoc (init : list token) t : nth_error (init ++ [t]) (length init) = Some t.
Proof. induction init; simpl; auto. Qed.

Lemma nth_error_app_l (a b : list token) i t : nth_error a i = Some t -> nth_error (a ++ b) i = Some t.
Proof. revert i. induction a; intros [|i] H; simpl in *; try discriminate; auto. Qed.

(** the tokenizer's own errors are admissible (outer = the token itself) *)
Lemma lex_err_admissible s r e : lex_ok s r -> r_err r = Some e -> admissibleErr (r_all r) e.
Proof.
  intros L E. destruct (lo_err _ _ L e E) as [[init Hi] Ho]. destruct (lo_prefix _ _ L) as [suf Hsuf].
  exists (length init), (length init), (e_tok e).
  assert (nth_error (r_all r) (length init) = Some (e_tok e)).
  { rewrite Hsuf, Hi. apply nth_error_app_l. apply nth_error_snoc. }
  auto.
Qed.

Lemma admissible_mono (a b : list token) e : admissibleErr a e -> admissibleErr (a ++ b) e.
Proof.
  intros (i & j & t & Ei & Hji & Ej & Ho). exists i, j, t.
  split; [apply nth_error_app_l; exact Ei|]. split; [exact Hji|]. split; [apply nth_error_app_l; exact Ej|exact Ho].
Qed.

(** parseFront (the part of ParseTLFile / ParseTL2File before the parser proper) never panics *)
Theorem parseFront_total o s :
  exists r, generateTokens o s = Ok r /\ lex_ok s r /\
  ((exists e, r_err r = Some e /\ parseFront o s = Ok (F_tokerr e)) \/
   (r_err r = None /\ parseFront o s = Ok (F_tokens (r_toks r)))).
Proof.
  destruct (generateTokens_total o s) as (r & E & L). exists r. split; [exact E|]. split; [exact L|].
  unfold parseFront. rewrite E. destruct (r_err r) as [e|] eqn:Ee.
  - left. exists e. auto.
  - right. rewrite (lo_recomb _ _ L), list_eqb_refl. auto.
Qed.

(** * Statements in the form used by Props/C19.v and Props/C20.v (any options [o]) *)
Lemma tok_split a : forall pre t b, toks_pos_ok pre (a ++ t :: b) -> t_pos t = pos_spec (pre ++ vals a).
Proof.
  induction a as [|x a IH]; intros pre t b H.
  - unfold vals. cbn. rewrite app_nil_r. apply H.
  - destruct H as [_ H]. rewrite (IH _ _ _ H). unfold vals at 2. cbn [map concat]. fold (vals a).
    rewrite app_assoc. reflexivity.
Qed.

Theorem lex_total o s : exists r, generateTokens o s = Ok r.
Proof. destruct (generateTokens_total o s) as (r & E & _). eauto. Qed.

Theorem lex_recombine o s r : generateTokens o s = Ok r -> recombineTokens r = s.
Proof.
  intros E. destruct (generateTokens_total o s) as (r' & E' & L). rewrite E in E'. inversion E'; subst. apply L.
Qed.

(** the invariant holds initially and every nextToken call from a state with input left keeps it,
    does not panic and strictly shortens the remaining input *)
Theorem lex_progress o s :
  good s (newLexer s) /\
  forall st, good s st -> l_str st <> [] ->
    exists st' e, nextToken o st = Some (st', e) /\ good s st' /\ (length (l_str st') < length (l_str st))%nat.
Proof.
  split; [apply good_new|]. intros st G H.
  destruct (nextToken_good o s st G H) as (st' & e & E & G' & Hl & _). eauto.
Qed.

Theorem lex_only_eof_empty o s r a t b :
  generateTokens o s = Ok r -> r_all r = a ++ t :: b -> t_val t = [] -> b = [] /\ t_type t = T_eof /\ r_rest r = [].
Proof.
  intros E. destruct (generateTokens_total o s) as (r' & E' & L). rewrite E in E'. inversion E'; subst. apply L.
Qed.

Theorem lex_pos_ok o s r a t b :
  generateTokens o s = Ok r -> r_all r = a ++ t :: b ->
  t_pos t = pos_spec (vals a) /\
  p_off (t_pos t) = lenN (vals a) /\
  p_off (t_pos t) + lenN (t_val t) <= lenN s /\
  p_slo (t_pos t) <= p_off (t_pos t) /\
  p_col (t_pos t) = p_off (t_pos t) - p_slo (t_pos t) + 1 /\
  p_line (t_pos t) = 1 + count10 (vals a) /\
  exists post, s = vals a ++ t_val t ++ post.
Proof.
  intros E Hab. destruct (generateTokens_total o s) as (r' & E' & L). rewrite E in E'. inversion E'; subst r'.
  pose proof (lo_pos _ _ L) as P. rewrite Hab in P. pose proof (tok_split _ _ _ _ P) as Ht. cbn [app] in Ht.
  pose proof (lo_recomb _ _ L) as R. unfold recombineTokens in R. fold (vals (r_all r)) in R.
  rewrite Hab, vals_app in R. unfold vals at 2 in R. cbn [map concat] in R. fold (vals b) in R.
  rewrite Ht. cbn [pos_spec p_off p_slo p_col p_line]. pose proof (lineStart_le (vals a)).
  split; [reflexivity|]. split; [reflexivity|]. split.
  - rewrite <- R, !lenN_app. lia.
  - split; [exact H|]. split; [reflexivity|]. split; [reflexivity|].
    exists (vals b ++ r_rest r). rewrite <- R, <- !app_assoc. reflexivity.
Qed.

Theorem front_total o s :
  (exists e, parseFront o s = Ok (F_tokerr e)) \/ (exists toks, parseFront o s = Ok (F_tokens toks)).
Proof. destruct (parseFront_total o s) as (r & _ & _ & [(e & _ & H)|(_ & H)]); eauto. Qed.

Definition err_in_range (s : list N) (e : perr) : Prop :=
  errCorrupted (lenN s) e = false /\
  p_off (e_begin e) <= p_off (e_end e) <= lenN s /\
  p_off (e_outer e) <= p_off (e_begin e) /\
  (exists pre, e_begin e = pos_spec pre /\ exists post, s = pre ++ t_val (e_tok e) ++ post) /\
  (exists pre, e_outer e = pos_spec pre /\ exists post, s = pre ++ post).

Theorem tokenizer_error_in_range o s e : parseFront o s = Ok (F_tokerr e) -> err_in_range s e.
Proof.
  intros F. destruct (parseFront_total o s) as (r & E & L & [(e' & Ee & H)|(_ & H)]); rewrite F in H; inversion H; subst e'.
  pose proof (lo_recomb _ _ L) as R. unfold recombineTokens in R.
  exact (admissible_in_range s (r_all r) (r_rest r) e (lo_pos _ _ L) R (lex_err_admissible s r e L Ee)).
Qed.

Theorem parser_error_in_range o s toks e :
  parseFront o s = Ok (F_tokens toks) -> admissibleErr toks e -> err_in_range s e.
Proof.
  intros F A. destruct (parseFront_total o s) as (r & E & L & [(e' & Ee & H)|(En & H)]); rewrite F in H; inversion H; subst toks.
  pose proof (lo_recomb _ _ L) as R. unfold recombineTokens in R.
  destruct (lo_noerr _ _ L En) as (_ & Hall & _). rewrite Hall in A.
  exact (admissible_in_range s (r_all r) (r_rest r) e (lo_pos _ _ L) R A).
Qed.

(** the token list handed to the parser ends with the only eof token, so an iterator that never pops
    eof always has a front token (tokenIterator.front cannot index out of range) *)
Theorem front_tokens_end_with_eof o s toks :
  parseFront o s = Ok (F_tokens toks) ->
  exists init p, toks = init ++ [mkTok T_eof [] p] /\ Forall (fun t => t_val t <> []) init /\ vals toks = s.
Proof.
  intros F. destruct (parseFront_total o s) as (r & E & L & [(e' & Ee & H)|(En & H)]); rewrite F in H; inversion H; subst toks.
  destruct (lo_noerr _ _ L En) as (Hrest & Hall & init & p & Hi). exists init, p. rewrite Hall. split; [exact Hi|]. split.
  - apply Forall_forall. intros t Ht Hv. apply in_split in Ht. destruct Ht as (a & b & ->).
    destruct (lo_empty_only_eof _ _ L a t (b ++ [mkTok T_eof [] p])) as (Hb & _); [rewrite Hi, <- app_assoc; reflexivity|exact Hv|].
    destruct b; discriminate.
  - pose proof (lo_recomb _ _ L) as R. unfold recombineTokens in R. rewrite Hrest, app_nil_r in R. exact R.
Qed.

(** what the parsers may rely on about the token slice they receive *)
Record wf_tokens (s : list N) (ts : list token) : Prop := mkWf {
  wf_pos : toks_pos_ok [] ts;
  wf_vals : vals ts = s;
  wf_eof : exists init eoft, ts = init ++ [eoft] /\ t_type eoft = T_eof /\ Forall (fun t => t_val t <> []) init;
  wf_eof_val : forall init eoft, ts = init ++ [eoft] -> t_val eoft = [];
  wf_ns : Forall tok_ns_ok ts }.

Theorem front_tokens_wf o s toks : parseFront o s = Ok (F_tokens toks) -> wf_tokens s toks.
Proof.
  intros F. destruct (front_tokens_end_with_eof o s toks F) as (init & p & Hi & Hne & Hv).
  destruct (parseFront_total o s) as (r & E & L & [(e' & Ee & H)|(En & H)]); rewrite F in H; inversion H as [Ht].
  destruct (lo_noerr _ _ L En) as (_ & Hall & _). rewrite Ht in Hi, Hv.
  split.
  - rewrite Hall. apply L.
  - exact Hv.
  - exists init, (mkTok T_eof [] p). auto.
  - intros init' eoft' E'. rewrite Hi in E'. apply app_inj_tail in E'. destruct E' as [_ <-]. reflexivity.
  - rewrite Hall. apply L.
Qed.
