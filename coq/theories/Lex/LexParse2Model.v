(** Executable model of the TL2 combinator parser, internal/tlast/tlparser_tl2_code.go
    (ParseTL2File after the tokenizer), reduced to its CONTROL FLOW: OptionalState bookkeeping
    (StartProcessing / first Error wins / ExpectProgress / Inherit), which tokens are looked at and
    consumed (named results and the deferred "restTokens = tokens" resets included), which error is
    returned, and where the Go code can panic (iterator out of range, skipWS without eof, val[1:] on
    an empty value, value[:dotIndex] with dotIndex = -1, the "unexpected token in whitespace" panic
    and the comment slices).  The AST is not built; the random magic suggestions of the error texts
    are irrelevant.  Shares the iterator primitives with Lex/LexParse1Model.v.  No proofs here. *)
From Coq Require Import List NArith ZArith Bool.
From TLV Require Import Lex.LexModel Lex.LexParse1Model.
Import ListNotations.
Open Scope N_scope.

(** OptionalState *)
Record ostate := mkSt { sp : bool; oerr : option perr }.

Definition inherit (a b : ostate) : ostate :=
  mkSt (sp a || sp b) (match oerr a with None => oerr b | Some e => Some e end).
Definition failWith (a : ostate) (e : perr) : ostate :=
  mkSt true (match oerr a with None => Some e | Some x => Some x end).
Definition noErr (a : ostate) : bool := match oerr a with None => true | Some _ => false end.
Definition hasProgress (a : ostate) : bool := sp a && noErr a.
Definition isFailed (a : ostate) : bool := sp a && negb (noErr a).
Definition isOmitted (a : ostate) : bool := negb (sp a).
(** state.ExpectProgress(orError): (result, state afterwards) *)
Definition expectProgress (a : ostate) (e : perr) : bool * ostate :=
  if hasProgress a then (true, a) else (false, if isOmitted a then failWith a e else a).

Inductive t2 (A : Type) : Type :=
| T_ok (st : ostate) (rest : iter) (a : A)
| T_panic
| T_nofuel.
Arguments T_ok {A}. Arguments T_panic {A}. Arguments T_nofuel {A}.

Section Combinators2.
Context {A : Type}.
Definition sk (it : iter) (k : iter -> t2 A) : t2 A :=
  match skipWS it with Some it' => k it' | None => T_panic end.
Definition ck (i : Z) (it : iter) (k : bool -> iter -> t2 A) : t2 A :=
  match checkToken i it with Some (b, it') => k b it' | None => T_panic end.
Definition ex (i : Z) (it : iter) (k : bool -> iter -> t2 A) : t2 A :=
  match expect i it with Some (b, it') => k b it' | None => T_panic end.
(** expectLazy: the receiver only changes on success *)
Definition exLazy (i : Z) (it : iter) (k : bool -> iter -> t2 A) : t2 A :=
  match expect i it with Some (true, it') => k true it' | Some (false, _) => k false it | None => T_panic end.
Definition fr (it : iter) (k : token -> t2 A) : t2 A :=
  match front it with Some t => k t | None => T_panic end.
Definition pop (it : iter) (k : token -> iter -> t2 A) : t2 A :=
  match popFront it with Some (t, it') => k t it' | None => T_panic end.
(** parseErrToken(msg, it.front(), position), evaluated eagerly as in Go *)
Definition er (kind : ekind) (it : iter) (o : pos) (k : perr -> t2 A) : t2 A :=
  match front it with Some t => k (mkErr kind t o) | None => T_panic end.
(** a.checkToken(i) || a.checkToken(j) *)
Definition ck2 (i j : Z) (it : iter) (k : bool -> iter -> t2 A) : t2 A :=
  ck i it (fun b r => if b then k true r else ck j r k).
End Combinators2.

Definition tbind {A B : Type} (r : t2 A) (f : ostate -> iter -> A -> t2 B) : t2 B :=
  match r with T_ok st rest a => f st rest a | T_panic => T_panic | T_nofuel => T_nofuel end.

(** zeroOrMore(parser) *)
Fixpoint zeroOrMore (fuel : nat) (parser : iter -> t2 unit) (spAcc : bool) (rt : iter) : t2 unit :=
  match fuel with
  | O => T_nofuel
  | S f =>
    tbind (parser rt) (fun local rt' _ =>
      let sp' := spAcc || sp local in
      if hasProgress local then zeroOrMore f parser sp' rt'
      else T_ok (mkSt sp' (oerr local)) rt' tt)
  end.

Section Parser2.
Variable n : N.                (* len(fileContent) *)

(** TL2TypeName := (name dot)? name *)
Definition parseTL2TypeName (tokens : iter) : t2 unit :=
  let simple (rt : iter) : t2 unit := pop rt (fun _ rt => T_ok (mkSt true None) rt tt) in
  let ns (rt : iter) : t2 unit :=
    pop rt (fun t rt => if hasDot (t_val t) then T_ok (mkSt true None) rt tt else T_panic) in
  ck T_lcIdent tokens (fun b rt =>
    if b then simple rt else
    ck T_ucIdent rt (fun b rt =>
      if b then simple rt else
      ck T_lcIdentNS rt (fun b rt =>
        if b then ns rt else
        ck T_ucIdentNS rt (fun b rt =>
          if b then ns rt else T_ok (mkSt false None) rt tt)))).

(** TL2Annotation := at lcName *)
Definition parseTL2Annotation (tokens : iter) : t2 unit :=
  sk tokens (fun rt =>
  ck T_annotation rt (fun b rt =>
    if negb b then fr rt (fun _ => T_ok (mkSt false None) rt tt)
    else pop rt (fun cur rt =>
           match t_val cur with
           | [] => T_panic                                          (* curToken.val[1:] *)
           | _ :: _ => fr rt (fun _ => fr rt (fun _ => T_ok (mkSt true None) rt tt))
           end))).

(** the CRC32 part shared by the two declaration parsers: [inl] = continue with (restTokens),
    [inr] = return with the failed state *)
Definition crcPart {A} (rt : iter) (o : pos) (st : ostate) (k : iter -> t2 A) (fail : ostate -> iter -> t2 A) : t2 A :=
  sk rt (fun rt =>
  pop rt (fun crcToken rt =>
    match t_val crcToken with
    | [] => T_panic                                                 (* crcToken.val[1:] *)
    | _ :: v =>
      match parseUint32 16 v with
      | None => fail (failWith st (mkErr E2_uint_conv crcToken o)) rt
      | Some value =>
        if value =? 0 then fail (failWith st (mkErr E2_magic_zero crcToken o)) rt
        else fr rt (fun _ => k rt)
      end
    end)).

(** ** type references *)
Fixpoint parseTL2Type (fuel : nat) (tokens : iter) (o : pos) : t2 unit :=
  match fuel with
  | O => T_nofuel
  | S f =>
    sk tokens (fun rt =>
    tbind (parseTL2TypeApplication f rt o) (fun st rt _ =>
      if negb (sp st) then
        tbind (parseTL2BracketType f rt o) (fun st rt _ => fr rt (fun _ => T_ok st rt tt))
      else fr rt (fun _ => T_ok st rt tt)))
  end
with parseTL2TypeApplication (fuel : nat) (tokens : iter) (o : pos) : t2 unit :=
  match fuel with
  | O => T_nofuel
  | S f =>
    sk tokens (fun rt0 =>                                  (* result.PR / PRName = restTokens.skipWS *)
    tbind (parseTL2TypeName tokens) (fun st rt _ =>        (* parseTL2TypeName(tokens, position) *)
      if negb (hasProgress st) then T_ok st rt tt
      else
        fr rt (fun _ =>
        exLazy (ty_chr tk_lAngleBracket) rt (fun b rt =>
          if negb b then fr rt (fun _ => T_ok st rt tt)
          else
            tbind (parseTL2TypeArgument f rt o) (fun argState rt _ =>
            er E2_type_arg rt o (fun e =>
              let '(okp, argState) := expectProgress argState e in
              if negb okp then T_ok (inherit st argState) rt tt
              else typeArgsLoop f st rt o))))))
  end
(** for { if restTokens.expect(commaSign) { ... } else break }; expect(rAngleBracket) *)
with typeArgsLoop (fuel : nat) (st : ostate) (rt : iter) (o : pos) : t2 unit :=
  match fuel with
  | O => T_nofuel
  | S f =>
    ex (ty_chr tk_commaSign) rt (fun b rt =>
      if b then
        tbind (parseTL2TypeArgument f rt o) (fun argState rt _ =>
        er E2_type_arg rt o (fun e =>
          let '(okp, argState) := expectProgress argState e in
          if negb okp then T_ok (inherit st argState) rt tt
          else typeArgsLoop f st rt o))
      else
        ex (ty_chr tk_rAngleBracket) rt (fun b rt =>
          if negb b then er E2_type_args_close rt o (fun e => T_ok (failWith st e) rt tt)
          else fr rt (fun _ => T_ok st rt tt)))
  end
with parseTL2BracketType (fuel : nat) (tokens : iter) (o : pos) : t2 unit :=
  match fuel with
  | O => T_nofuel
  | S f =>
    sk tokens (fun rt =>
    exLazy (ty_chr tk_lSquareBracket) rt (fun b rt =>
      if negb b then fr rt (fun _ => T_ok (mkSt false None) rt tt)
      else
        let st := mkSt true None in
        tbind (parseTL2TypeArgument f rt o) (fun indexState rt _ =>
          let st := inherit st indexState in
          if negb (hasProgress st) then T_ok st rt tt
          else
            ex (ty_chr tk_rSquareBracket) rt (fun b rt =>
              if negb b then er E2_sq_close rt o (fun e => T_ok (failWith st e) rt tt)
              else
                tbind (parseTL2Type f rt o) (fun argState rt _ =>
                er E2_array_type rt o (fun e =>
                  let '(okp, argState) := expectProgress argState e in
                  if negb okp then T_ok (inherit st argState) rt tt
                  else fr rt (fun _ => T_ok st rt tt)))))))
  end
with parseTL2TypeArgument (fuel : nat) (tokens : iter) (o : pos) : t2 unit :=
  match fuel with
  | O => T_nofuel
  | S f =>
    sk tokens (fun rt =>
    ck T_number rt (fun b rt =>
      if b then
        pop rt (fun t rt =>
          let st := match parseUint32 10 (t_val t) with
                    | None => mkSt true (Some (mkErr E2_uint_conv t o))
                    | Some _ => mkSt true None
                    end in
          fr rt (fun _ => T_ok st rt tt))
      else
        tbind (parseTL2Type f rt o) (fun st rt _ => fr rt (fun _ => T_ok st rt tt))))
  end.

(** ** TL2Field := ((tl2fieldName qm?) | ucs) cl TL2TypeRef *)
(** deferred: if !state.StartProcessing { restTokens = tokens } *)
Definition fieldRet (tokens : iter) (st : ostate) (rt : iter) : t2 unit :=
  T_ok st (if sp st then rt else tokens) tt.
(** result.PR.End = restTokens.front().pos; return *)
Definition fieldFin (tokens : iter) (st : ostate) (rt : iter) : t2 unit :=
  fr rt (fun _ => fieldRet tokens st rt).

(** from "if !restTokens.expect(colon)" on *)
Definition fieldAfterQ (fuel : nat) (o : pos) (tokens : iter) (st : ostate) (rt : iter) : t2 unit :=
  ex (ty_chr tk_colon) rt (fun b rt =>
    if negb b then
      (if sp st then er E2_no_colon rt o (fun e => fieldFin tokens (failWith st e) rt)
       else fieldFin tokens (mkSt false (oerr st)) rt)
    else
      let st := mkSt true (oerr st) in
      tbind (parseTL2Type fuel rt o) (fun localState rt _ =>
      er E2_field_type rt o (fun e =>
        let '(okp, localState) := expectProgress localState e in
        if negb okp then fieldRet tokens (inherit st localState) rt           (* return without PR.End *)
        else
          let commentStart := rt in
          let '(nl, rt) := skipToNewline rt in
          if nl && negb (sliceOk n commentStart rt) then T_panic
          else fieldFin tokens st rt))).

(** the case of the switch: a field name was found at rt *)
Definition fieldNamed (fuel : nat) (o : pos) (tokens : iter) (rt : iter) : t2 unit :=
  sk rt (fun rt =>
  pop rt (fun nameToken rt =>
    let isIgnored := Z.eqb (t_type nameToken) (ty_chr tk_underscore) || Z.eqb (t_type nameToken) T_tl2depName in
    fr rt (fun _ =>
    ex (ty_chr tk_questionMark) rt (fun b rt =>
      if b then
        (if isIgnored then er E2_ignored_optional rt o (fun e => fieldFin tokens (failWith (mkSt false None) e) rt)
         else fieldAfterQ fuel o tokens (mkSt true None) rt)
      else fieldAfterQ fuel o tokens (mkSt false None) rt)))).

Definition parseTL2Field (fuel : nat) (o : pos) (tokens : iter) : t2 unit :=
  sk tokens (fun rt =>
  if negb (commentBeforeOk n tokens rt) then T_panic
  else
    ck T_lcIdent rt (fun b rt =>
    if b then fieldNamed fuel o tokens rt else
    ck (ty_chr tk_underscore) rt (fun b rt =>
    if b then fieldNamed fuel o tokens rt else
    ck T_ucIdent rt (fun b rt =>
    if b then fieldNamed fuel o tokens rt else
    ck T_tl2depName rt (fun b rt =>
    if b then fieldNamed fuel o tokens rt else fieldFin tokens (mkSt false None) rt))))).

(** ** TL2UnionConstructor := name (TL2TypeRef | TL2Field* ) *)
(** a constructor name was found at rt *)
Definition ctorNamed (fuel : nat) (o : pos) (rt : iter) : t2 unit :=
  let st := mkSt true None in
  sk rt (fun rt =>
  pop rt (fun _ rt =>
  fr rt (fun _ =>
  ck2 (ty_chr tk_semiColon) (ty_chr tk_verticalBar) rt (fun b _ =>       (* on a copy of restTokens *)
    if b then fr rt (fun _ => T_ok st rt tt)
    else
      let saved := rt in
      tbind (zeroOrMore fuel (parseTL2Field fuel o) false rt) (fun fieldsState rt _ =>
        let st := inherit st fieldsState in
        if sp fieldsState then fr rt (fun _ => T_ok st rt tt)
        else
          tbind (parseTL2Type fuel rt o) (fun aliasState rt _ =>
            let st := inherit st aliasState in
            if isOmitted aliasState then
              ck2 (ty_chr tk_colon) (ty_chr tk_questionMark) rt (fun b rt =>
                if b then er E2_colon_after_constructor rt o (fun e => T_ok (failWith st e) rt tt)
                else fr saved (fun _ => T_ok st saved tt))
            else fr rt (fun _ => T_ok st rt tt))))))).

Definition parseTL2UnionConstructor (fuel : nat) (tokens : iter) (o : pos) : t2 unit :=
  sk tokens (fun rt =>
  ck T_ucIdent rt (fun b rt =>
  if b then ctorNamed fuel o rt else
  ck T_lcIdent rt (fun b rt =>
  if b then ctorNamed fuel o rt else
  ck T_tl2typeSign rt (fun b rt =>
  if b then ctorNamed fuel o rt else fr rt (fun _ => T_ok (mkSt false None) rt tt))))).

(** ** TL2UnionType; result = len(result.Variants) *)
Fixpoint unionLoop (fuel : nat) (cfuel : nat) (st : ostate) (rt : iter) (o : pos) (variants : nat) (isMono : bool) : t2 nat :=
  match fuel with
  | O => T_nofuel
  | S f =>
    let beforeVB := rt in
    sk rt (fun rightBeforeVB =>
    ex (ty_chr tk_verticalBar) rt (fun b rt =>
      if negb b then
        (* after the loop *)
        if isFailed st then T_ok st rt variants
        else if (variants <? 1)%nat then er E2_at_least_1 rt o (fun e => fr rt (fun _ => T_ok (failWith st e) rt variants))
        else if (variants =? 1)%nat && negb isMono then
          er E2_one_constructor rt o (fun e => fr rt (fun _ => T_ok (failWith st e) rt variants))
        else fr rt (fun _ => T_ok st rt variants)
      else
        if negb (commentBeforeOk n beforeVB rightBeforeVB) then T_panic
        else
          let st := mkSt true (oerr st) in
          tbind (parseTL2UnionConstructor cfuel rt o) (fun localState rt _ =>
            let variants := S variants in
            let st := inherit st localState in
            er E2_variant_after_bar rt o (fun e =>
              let '(okp, localState) := expectProgress localState e in
              if negb okp then
                T_ok (match oerr localState with Some e' => failWith st e' | None => mkSt true (oerr st) end) rt variants
              else unionLoop f cfuel st rt o variants isMono))))
  end.

Definition parseTL2UnionType (fuel : nat) (tokens : iter) (o : pos) : t2 nat :=
  (* deferred: if !state.StartProcessing { restTokens = tokens } *)
  let ret (st : ostate) (rt : iter) (v : nat) : t2 nat := T_ok st (if sp st then rt else tokens) v in
  sk tokens (fun rt =>
  if negb (commentBeforeOk n tokens rt) then T_panic
  else
    ex (ty_chr tk_verticalBar) rt (fun isMono rt =>
      let st := mkSt isMono None in
      tbind (parseTL2UnionConstructor fuel rt o) (fun localState rt _ =>
        if isFailed localState then er E2_first_variant_fail rt o (fun e => ret (failWith st e) rt 0%nat)
        else if sp st && isOmitted localState then er E2_first_variant_expected rt o (fun e => ret (failWith st e) rt 0%nat)
        else
          let st := inherit st localState in
          if negb (sp st) then ret st rt 1%nat
          else tbind (unionLoop fuel fuel st rt o 1%nat isMono) (fun st rt v => ret st rt v)))).

(** ** TL2StructTypeDefinition := TL2Field* | TL2UnionType *)
Definition parseTL2StructTypeDefinition (fuel : nat) (tokens : iter) (o : pos) : t2 unit :=
  (* deferred: if !state.HasProgress() { restTokens = tokens } *)
  let ret (st : ostate) (rt : iter) : t2 unit := T_ok st (if hasProgress st then rt else tokens) tt in
  fr tokens (fun _ =>                                            (* currentPositionRange *)
  tbind (parseTL2UnionType fuel tokens o) (fun st rt variants =>
    if hasProgress st then fr rt (fun _ => ret st rt)
    else if isFailed st && negb (variants =? 0)%nat then ret st rt
    else
      tbind (zeroOrMore fuel (parseTL2Field fuel o) false tokens) (fun fieldsState rt _ =>
        if isFailed fieldsState then fr tokens (fun _ => ret (mkSt (sp st) (oerr fieldsState)) tokens)
        else fr rt (fun _ => ret fieldsState rt)))).

(** ** TL2TypeTemplate := name cl TL2TypeCategory *)
(** the part after "front := restTokens.front()" *)
Definition targCategory (o : pos) (st : ostate) (rt : iter) (front_ : token) : t2 unit :=
  if negb (Z.eqb (t_type front_) T_numberSign || list_eqb (t_val front_) [84; 121; 112; 101]) then
    er E2_type_category rt o (fun e => T_ok (failWith st e) rt tt)
  else
    sk rt (fun rt =>
    fr rt (fun _ =>
    pop rt (fun _ rt =>
    fr rt (fun _ => T_ok st rt tt)))).

(** a template argument name was found at rt *)
Definition targNamed (o : pos) (rt : iter) : t2 unit :=
  let st := mkSt true None in
  fr rt (fun _ =>
  sk rt (fun rt =>
  pop rt (fun _ rt =>
  fr rt (fun _ =>
  ex (ty_chr tk_colon) rt (fun b rt =>
    if negb b then er E2_targ_unexpected rt o (fun e => fr rt (fun _ => T_ok (failWith st e) rt tt))
    else fr rt (fun front_ => targCategory o st rt front_)))))).

Definition parseTL2TypeArgumentDeclaration (tokens : iter) (o : pos) : t2 unit :=
  sk tokens (fun rt =>
  ck T_lcIdent rt (fun b rt =>
  if b then targNamed o rt else
  ck T_ucIdent rt (fun b rt =>
  if b then targNamed o rt else fr rt (fun _ => T_ok (mkSt false None) rt tt)))).

(** ** TL2TypeDeclaration (without the name) *)
Fixpoint templateArgsLoop (fuel : nat) (st : ostate) (rt : iter) (o : pos) (k : ostate -> iter -> t2 unit) : t2 unit :=
  match fuel with
  | O => T_nofuel
  | S f =>
    ex (ty_chr tk_commaSign) rt (fun b rt =>
      if b then
        tbind (parseTL2TypeArgumentDeclaration rt o) (fun localState rt _ =>
        er E2_targ_decl rt o (fun e =>
          let '(okp, localState) := expectProgress localState e in
          if negb okp then T_ok (inherit st localState) rt tt
          else templateArgsLoop f st rt o k))
      else
        ex (ty_chr tk_rAngleBracket) rt (fun b rt =>
          if negb b then er E2_targs_close rt o (fun e => T_ok (failWith st e) rt tt)
          else k st rt))
  end.

(** after "=" / "<=>" *)
Definition tdDefn (fuel : nat) (o : pos) (isAlias : bool) (st : ostate) (rt : iter) : t2 unit :=
  if isAlias then
    tbind (parseTL2Type fuel rt o) (fun localState rt _ =>
    er E2_alias_ref rt o (fun e =>
      let '(okp, localState) := expectProgress localState e in
      if negb okp then T_ok (inherit st localState) rt tt
      else fr rt (fun _ => T_ok st rt tt)))
  else
    tbind (parseTL2StructTypeDefinition fuel rt o) (fun localState rt _ =>
      fr rt (fun _ => T_ok (inherit st localState) rt tt)).

(** = / <=> / neither (then restTokens = tokens) *)
Definition tdBody (fuel : nat) (o : pos) (tokens : iter) (st : ostate) (rt : iter) : t2 unit :=
  ex (ty_chr tk_equalSign) rt (fun b rt =>
    if b then tdDefn fuel o false (mkSt true (oerr st)) rt
    else ex T_tl2alias rt (fun b rt =>
           if b then tdDefn fuel o true (mkSt true (oerr st)) rt
           else T_ok st tokens tt)).

(** the switch on the bracket after the optional CRC32 *)
Definition tdGenerics (fuel : nat) (o : pos) (tokens : iter) (st : ostate) (rt : iter) : t2 unit :=
  ex (ty_chr tk_lAngleBracket) rt (fun b rt =>
    if b then
      let st := mkSt true (oerr st) in
      tbind (parseTL2TypeArgumentDeclaration rt o) (fun localState rt _ =>
        let st := inherit st localState in
        er E2_targ_decl rt o (fun e =>
          let '(okp, localState) := expectProgress localState e in
          if negb okp then T_ok (inherit st localState) rt tt
          else templateArgsLoop fuel st rt o (tdBody fuel o tokens)))
    else
      let wrong (rt : iter) : t2 unit := er E2_wrong_brackets rt o (fun e => T_ok (failWith st e) rt tt) in
      ck (ty_chr tk_lCurlyBracket) rt (fun b rt =>
      if b then wrong rt else
      ck (ty_chr tk_lRoundBracket) rt (fun b rt =>
      if b then wrong rt else
      ck (ty_chr tk_lSquareBracket) rt (fun b rt =>
      if b then wrong rt else tdBody fuel o tokens st rt)))).

Definition parseTL2TypeDeclarationWithoutName (fuel : nat) (tokens : iter) (o : pos) : t2 unit :=
  sk tokens (fun rt =>
  ck T_crc32hash rt (fun b rt =>
    if b then crcPart rt o (mkSt false None) (fun rt => tdGenerics fuel o tokens (mkSt false None) rt) (fun st rt => T_ok st rt tt)
    else tdGenerics fuel o tokens (mkSt false None) rt)).

(** ** TL2FuncDeclaration (without the name) *)
Definition parseTL2FuncDeclarationWithoutName (fuel : nat) (tokens : iter) (o : pos) : t2 unit :=
  sk tokens (fun rt =>
  ck T_crc32hash rt (fun b rt =>
    if negb b then er E2_func_magic tokens o (fun e => T_ok (failWith (mkSt false None) e) rt tt)
    else
      crcPart rt o (mkSt false None)
        (fun rt =>
          tbind (zeroOrMore fuel (parseTL2Field fuel o) false rt) (fun st rt _ =>
            if isFailed st then T_ok st rt tt
            else
              ex T_functionSign rt (fun b rt =>
                if negb b then fr rt (fun _ => T_ok st rt tt)
                else
                  let st := mkSt true (oerr st) in
                  ck T_tl2alias rt (fun b rt =>
                    if b then
                      pop rt (fun _ rt =>
                      tbind (parseTL2Type fuel rt o) (fun localState rt _ =>
                        let st := inherit st localState in
                        if negb (hasProgress localState) then T_ok st rt tt
                        else fr rt (fun _ => T_ok st rt tt)))
                    else
                      tbind (parseTL2StructTypeDefinition fuel rt o) (fun localState rt _ =>
                        if hasProgress localState then fr rt (fun _ => T_ok st rt tt)
                        else
                          tbind (parseTL2Type fuel rt o) (fun tryRefState rt _ =>
                            if isFailed tryRefState then T_ok (inherit st tryRefState) rt tt
                            else if isOmitted tryRefState && isFailed localState then
                              er E2_cant_parse_decl rt o (fun e => T_ok (failWith (inherit st localState) e) rt tt)
                            else fr rt (fun _ => T_ok (mkSt true (oerr st)) rt tt)))))))
        (fun st rt => T_ok st rt tt))).

(** ** TL2Combinator := TL2Annotation* (TL2TypeDeclaration | TL2FuncDeclaration) scl; result = state.Error *)
Definition combTail (o : pos) (st : ostate) (rest : iter) : t2 unit :=
  ex (ty_chr tk_semiColon) rest (fun b rest =>
    if negb b then er E2_semicolon rest o (fun e => fr rest (fun _ => T_ok (failWith st e) rest tt))
    else fr rest (fun _ => T_ok st rest tt)).

Definition parseTL2Combinator (fuel : nat) (it : iter) : t2 unit :=
  sk it (fun rest =>
  fr rest (fun t0 =>
  let o := t_pos t0 in
  if negb (commentBeforeOk n it rest) then T_panic
  else
    tbind (zeroOrMore fuel parseTL2Annotation false rest) (fun st rest _ =>
      match oerr st with
      | Some _ => T_ok st rest tt
      | None =>
        sk rest (fun rest =>
        tbind (parseTL2TypeName rest) (fun st rest _ =>
        fr rest (fun _ =>
        er E2_type_name rest o (fun e =>
          let '(okp, st) := expectProgress st e in
          if negb okp then T_ok st rest tt
          else
            tbind (parseTL2TypeDeclarationWithoutName fuel rest o) (fun typeDeclState rest _ =>
              let st := inherit st typeDeclState in
              if negb (sp typeDeclState) then
                tbind (parseTL2FuncDeclarationWithoutName fuel rest o) (fun funcDeclState rest _ =>
                  let st := inherit st funcDeclState in
                  if sp funcDeclState then combTail o st rest
                  else er E2_func_or_type rest o (fun e => combTail o (failWith st e) rest))
              else combTail o st rest)))))
      end))).

(** ** ParseTL2File: for !it.expectLazy(eof) { parseTL2Combinator } *)
Fixpoint tl2Loop (fuel cfuel : nat) (it : iter) : t2 unit :=
  match fuel with
  | O => T_nofuel
  | S f =>
    exLazy T_eof it (fun b it =>
      if b then T_ok (mkSt false None) it tt
      else tbind (parseTL2Combinator cfuel it) (fun st it' _ =>
             match oerr st with
             | Some e => T_ok st it' tt
             | None => tl2Loop f cfuel it'
             end))
  end.

End Parser2.

Definition parseTokens2 (n : N) (toks : list token) : t2 unit :=
  tl2Loop n (S (length toks)) (parseFuel toks) (mkIt 0 toks).

Definition parseTL2File (o : opts) (s : list N) : parse1res :=
  match parseFront o s with
  | Panic => PR_panic
  | NoFuel => PR_nofuel
  | Ok (F_tokerr e) => PR_err true e
  | Ok (F_tokens toks) =>
    match parseTokens2 (lenN s) toks with
    | T_ok st _ _ => match oerr st with Some e => PR_err false e | None => PR_ok end
    | T_panic => PR_panic
    | T_nofuel => PR_nofuel
    end
  end.
