(** Executable model of the TL1 recursive-descent parser, internal/tlast/tlparser_code.go and
    tlparser_typeref.go (ParseTLFile after the tokenizer), reduced to its CONTROL FLOW:
    which tokens are looked at and consumed, which error is returned (message class, token,
    outer position) and where the Go code can panic (tokenIterator.front/popFront out of
    range, log.Panicf in skipWS / expectOrPanic / splitIdenNSFromToken, the nil dereference
    of res2 in parseArithmetic, the "unexpected token in whitespace" panic and the string
    slices of parseCommentBefore / parseCommentRight / ParseTLFile).  The AST itself is not
    built (names, numbers and comments do not influence the control flow, except the values
    needed by the uint32 overflow checks, which are kept).  Not modelled: Combinator.crc32()
    (called for combinators without explicit tag; covered by the Canon family and by the
    implementation-side oracle here).

    Every function follows the Go function of the same name statement by statement; the
    iterator is passed and returned explicitly exactly where Go mutates it (checkToken and
    expect advance the receiver over white space even when they fail).  No proofs here. *)
From Coq Require Import List NArith ZArith Bool.
From TLV Require Import Lex.LexModel.
Import ListNotations.
Open Scope N_scope.

(** tokenIterator: offset and the remaining tokens (tokens[offset:]) *)
Record iter := mkIt { i_off : nat; i_rest : list token }.

Inductive pres (A : Type) : Type :=
| P_ok (a : A) (rest : iter)
| P_err (e : perr)
| P_panic
| P_nofuel.
Arguments P_ok {A}. Arguments P_err {A}. Arguments P_panic {A}. Arguments P_nofuel {A}.

Definition bind {A B : Type} (r : pres A) (f : A -> iter -> pres B) : pres B :=
  match r with
  | P_ok a rest => f a rest
  | P_err e => P_err e
  | P_panic => P_panic
  | P_nofuel => P_nofuel
  end.

(** it.front(): [None] = index out of range *)
Definition front (it : iter) : option token :=
  match i_rest it with t :: _ => Some t | [] => None end.

(** it.popFront() *)
Definition popFront (it : iter) : option (token * iter) :=
  match i_rest it with t :: r => Some (t, mkIt (S (i_off it)) r) | [] => None end.

Definition isWS (ty : Z) : bool :=
  Z.eqb ty T_comment || Z.eqb ty (ty_chr tk_whiteSpace) || Z.eqb ty (ty_chr tk_tab) || Z.eqb ty T_newLine.

(** skipWS: [None] = log.Panicf("tokenizer invariant failed, no eof token") *)
Fixpoint skipWS_l (off : nat) (l : list token) : option iter :=
  match l with
  | [] => None
  | t :: r => if isWS (t_type t) then skipWS_l (S off) r else Some (mkIt off l)
  end.
Definition skipWS (it : iter) : option iter := skipWS_l (i_off it) (i_rest it).

(** skipToNewline: (newline or eof found, iterator) *)
Fixpoint skipToNewline_l (off : nat) (l : list token) : bool * iter :=
  match l with
  | [] => (false, mkIt off l)
  | t :: r =>
    let ty := t_type t in
    if Z.eqb ty T_comment || Z.eqb ty (ty_chr tk_whiteSpace) || Z.eqb ty (ty_chr tk_tab) then skipToNewline_l (S off) r
    else if Z.eqb ty T_newLine || Z.eqb ty T_eof then (true, mkIt off l)
    else (false, mkIt off l)
  end.
Definition skipToNewline (it : iter) : bool * iter := skipToNewline_l (i_off it) (i_rest it).

(** checkToken / expect: the receiver is advanced by skipWS in any case *)
Definition checkToken (i : Z) (it : iter) : option (bool * iter) :=
  match skipWS it with
  | None => None
  | Some it' => match front it' with
                | None => None
                | Some t => Some (Z.eqb (t_type t) i, it')
                end
  end.

Definition expect (i : Z) (it : iter) : option (bool * iter) :=
  match checkToken i it with
  | None => None
  | Some (true, it') => match popFront it' with Some (_, it'') => Some (true, it'') | None => None end
  | Some (false, it') => Some (false, it')
  end.

Section Combinators.
Context {A : Type}.

Definition skip (it : iter) (k : iter -> pres A) : pres A :=
  match skipWS it with Some it' => k it' | None => P_panic end.

Definition chk (i : Z) (it : iter) (k : bool -> iter -> pres A) : pres A :=
  match checkToken i it with Some (b, it') => k b it' | None => P_panic end.

Definition expc (i : Z) (it : iter) (k : bool -> iter -> pres A) : pres A :=
  match expect i it with Some (b, it') => k b it' | None => P_panic end.

(** expectOrPanic *)
Definition expOrPanic (i : Z) (it : iter) (k : iter -> pres A) : pres A :=
  match expect i it with Some (true, it') => k it' | _ => P_panic end.

(** a use of it.front() whose value does not matter (PR.End = rest.front().pos) *)
Definition touch (it : iter) (k : pres A) : pres A :=
  match front it with Some _ => k | None => P_panic end.

Definition popk (it : iter) (k : iter -> pres A) : pres A :=
  match popFront it with Some (_, it') => k it' | None => P_panic end.

(** return ..., parseErrToken(msg, rest.front(), outer) *)
Definition errAt (k : ekind) (it : iter) (o : pos) : pres A :=
  match front it with Some t => P_err (mkErr k t o) | None => P_panic end.
End Combinators.

(** strconv.ParseUint(v, 10, 32) / (v, 16, 32): value, [None] = error (syntax or range) *)
Definition digitVal (base : N) (c : N) : option N :=
  if digit c then Some (c - 48)
  else if (base =? 16) && inRange 97 102 c then Some (c - 87)
  else if (base =? 16) && inRange 65 70 c then Some (c - 55)
  else None.

Fixpoint parseUintAcc (base : N) (v : list N) (acc : N) : option N :=
  match v with
  | [] => Some acc
  | c :: r => match digitVal base c with
              | None => None
              | Some d => parseUintAcc base r (if 4294967296 <=? acc then acc else acc * base + d)
              end
  end.

Definition parseUint32 (base : N) (v : list N) : option N :=
  match v with
  | [] => None
  | _ => match parseUintAcc base v 0 with
         | Some x => if 4294967296 <=? x then None else Some x
         | None => None
         end
  end.

Definition hasDot (v : list N) : bool := existsb (N.eqb 46) v.

(** string slice fileContent[a.front().pos.offset : b.front().pos.offset] does not panic *)
Definition sliceOk (n : N) (a b : iter) : bool :=
  match front a, front b with
  | Some ta, Some tb => (p_off (t_pos ta) <=? p_off (t_pos tb)) && (p_off (t_pos tb) <=? n)
  | _, _ => false
  end.

(** parseCommentBefore(begin, end): [false] = panic *)
Fixpoint commentBeforeLoop (k : nat) (it begin : iter) (nonWS : bool) : option iter :=
  match k with
  | O => Some begin
  | S k' =>
    match popFront it with
    | None => None
    | Some (tok, it') =>
      let ty := t_type tok in
      if Z.eqb ty T_comment then commentBeforeLoop k' it' begin true
      else if Z.eqb ty T_newLine then commentBeforeLoop k' it' (if negb nonWS then it' else begin) false
      else if Z.eqb ty (ty_chr tk_whiteSpace) || Z.eqb ty (ty_chr tk_tab) then commentBeforeLoop k' it' begin nonWS
      else None
    end
  end.

Definition commentBeforeOk (n : N) (begin end_ : iter) : bool :=
  match commentBeforeLoop (i_off end_ - i_off begin) begin begin false with
  | None => false
  | Some b' => sliceOk n b' end_
  end.

Section Parser.
Variable n : N.                (* len(fileContent) *)

(** ** names *)
Definition nameTok {A} (r : iter) (needDot : bool) (i : Z) (k : iter -> pres A) : pres A :=
  match front r with
  | None => P_panic
  | Some t => if needDot && negb (hasDot (t_val t)) then P_panic      (* splitIdenNSFromToken *)
              else expOrPanic i r k
  end.

Definition parseLCIdentNS (tokens : iter) (o : pos) : pres unit :=
  chk T_lcIdentNS tokens (fun b rest =>
    if b then nameTok rest true T_lcIdentNS (fun rest => P_ok tt rest)
    else chk T_lcIdent rest (fun b rest =>
      if b then nameTok rest false T_lcIdent (fun rest => P_ok tt rest)
      else errAt E1_lcname rest o)).

Definition parseUCIdentNS (tokens : iter) (o : pos) : pres unit :=
  chk T_ucIdentNS tokens (fun b rest =>
    if b then nameTok rest true T_ucIdentNS (fun rest => P_ok tt rest)
    else chk T_ucIdent rest (fun b rest =>
      if b then nameTok rest false T_ucIdent (fun rest => P_ok tt rest)
      else errAt E1_ucname rest o)).

Definition parseVarIdent (tokens : iter) (o : pos) : pres unit :=
  chk T_lcIdent tokens (fun b rest =>
    if b then nameTok rest false T_lcIdent (fun rest => P_ok tt rest)
    else chk T_ucIdent rest (fun b rest =>
      if b then nameTok rest false T_ucIdent (fun rest => P_ok tt rest)
      else errAt E1_varname rest o)).

Definition parseTypeRefAsName (tokens : iter) (o : pos) : pres unit :=
  chk T_lcIdentNS tokens (fun b rest =>
    if b then nameTok rest true T_lcIdentNS (fun rest => P_ok tt rest)
    else chk T_lcIdent rest (fun b rest =>
      if b then nameTok rest false T_lcIdent (fun rest => P_ok tt rest)
      else chk T_ucIdentNS rest (fun b rest =>
        if b then nameTok rest true T_ucIdentNS (fun rest => P_ok tt rest)
        else chk T_ucIdent rest (fun b rest =>
          if b then nameTok rest false T_ucIdent (fun rest => P_ok tt rest)
          else errAt E1_name rest o)))).

(** ** parseModifiers *)
Fixpoint parseModifiers (fuel : nat) (rest : iter) (o : pos) : pres unit :=
  match fuel with
  | O => P_nofuel
  | S f =>
    skip rest (fun rest =>
    chk T_annotation rest (fun b rest =>
      if negb b then P_ok tt rest
      else match front rest with
           | None => P_panic
           | Some t => match t_val t with
                       | [] => P_panic                                (* val[1:] *)
                       | _ :: _ => expOrPanic T_annotation rest (fun rest => touch rest (parseModifiers f rest o))
                       end
           end))
  end.

(** ** parseConstructor *)
Definition parseConstructor (tokens : iter) (o : pos) (allowBuiltin : bool) : pres unit :=
  skip tokens (fun rest =>
  let tag (rest : iter) : pres unit :=
    chk T_crc32hash rest (fun b rest =>
      if negb b then P_ok tt rest
      else match front rest with
           | None => P_panic
           | Some t => match t_val t with
                       | [] => P_panic                                (* val[1:] *)
                       | _ :: v => match parseUint32 16 v with
                                   | None => errAt E1_tag_conv rest o
                                   | Some _ => expOrPanic T_crc32hash rest (fun rest => touch rest (P_ok tt rest))
                                   end
                       end
           end) in
  let named (rest : iter) : pres unit :=
    bind (parseLCIdentNS rest o) (fun _ rest => touch rest (tag rest)) in
  if allowBuiltin then
    chk T_numberSign rest (fun b rest =>
      if b then expOrPanic T_numberSign rest (fun rest => touch rest (tag rest))
      else named rest)
  else named rest).

(** ** template arguments *)
Definition parseTemplateArgument (tokens : iter) (o : pos) : pres bool :=
  skip tokens (fun rest =>
  expc (ty_chr tk_lCurlyBracket) rest (fun b rest =>
    if negb b then P_ok false tokens
    else bind (parseVarIdent rest o) (fun _ rest =>
      expc (ty_chr tk_colon) rest (fun b rest =>
        if negb b then errAt E1_targ_colon rest o
        else
          let close (rest : iter) : pres bool :=
            expc (ty_chr tk_rCurlyBracket) rest (fun b rest =>
              if negb b then errAt E1_targ_close rest o else touch rest (P_ok true rest)) in
          chk T_ucIdent rest (fun b rest =>
            match front rest with
            | None => P_panic
            | Some t =>
              if b && list_eqb (t_val t) [84; 121; 112; 101] then expOrPanic T_ucIdent rest close
              else chk T_numberSign rest (fun b rest =>
                     if b then expOrPanic T_numberSign rest close
                     else errAt E1_targ_type rest o)
            end)))))
.

Fixpoint parseTemplateArguments (fuel : nat) (rest : iter) (o : pos) : pres unit :=
  match fuel with
  | O => P_nofuel
  | S f => bind (parseTemplateArgument rest o) (fun got rest =>
             if got then parseTemplateArguments f rest o else P_ok tt rest)
  end.

(** ** parseTypeDeclaration *)
Fixpoint typeDeclArgs (fuel : nat) (rest : iter) (o : pos) : pres unit :=
  match fuel with
  | O => P_nofuel
  | S f =>
    skip rest (fun rest =>
      match parseVarIdent rest o with
      | P_ok _ rest' => touch rest' (typeDeclArgs f rest' o)
      | P_err _ => touch rest (P_ok tt rest)
      | P_panic => P_panic
      | P_nofuel => P_nofuel
      end)
  end.

Definition parseTypeDeclaration (fuel : nat) (tokens : iter) (o : pos) : pres unit :=
  skip tokens (fun rest =>
  bind (parseUCIdentNS rest o) (fun _ rest =>
  touch rest (typeDeclArgs fuel rest o))).

(** ** parseArithmetic: result [Some res] / [None] (nil) *)
Fixpoint parseArithmetic (fuel : nat) (tokens : iter) (o : pos) (force : bool) : pres (option N) :=
  match fuel with
  | O => P_nofuel
  | S f =>
    expc (ty_chr tk_lRoundBracket) tokens (fun b rest =>
      if b then
        bind (parseArithmetic f rest o force) (fun res rest =>
          match res with
          | None => P_ok None tokens
          | Some v => expc (ty_chr tk_rRoundBracket) rest (fun b rest =>
                        if negb b then errAt E1_rparen rest o else plusLoop f v rest o)
          end)
      else
        chk T_number rest (fun b rest =>
          if b then
            match front rest with
            | None => P_panic
            | Some t => match parseUint32 10 (t_val t) with
                        | None => errAt E1_const_overflow rest o
                        | Some i => expOrPanic T_number rest (fun rest => plusLoop f i rest o)
                        end
            end
          else if force then errAt E1_arith_expected rest o
          else P_ok None tokens))
  end
with plusLoop (fuel : nat) (res : N) (rest : iter) (o : pos) : pres (option N) :=
  match fuel with
  | O => P_nofuel
  | S f =>
    expc (ty_chr tk_plus) rest (fun b rest =>
      if negb b then P_ok (Some res) rest
      else bind (parseArithmetic f rest o true) (fun res2 rest =>
             match res2 with
             | None => P_panic                                         (* res2.Res on nil *)
             | Some v2 => if 4294967295 <=? res + v2 then errAt E1_arith_overflow rest o
                          else plusLoop f (res + v2) rest o
             end))
  end.

Definition parseScaleFactorOpt (fuel : nat) (tokens : iter) (o : pos) : pres bool :=
  skip tokens (fun rest =>
    match parseVarIdent rest o with
    | P_ok _ rest' => touch rest' (P_ok true rest')
    | P_err _ =>
      bind (parseArithmetic fuel rest o false) (fun a rest =>
        match a with
        | Some _ => P_ok true rest
        | None => touch rest (P_ok false rest)
        end)
    | P_panic => P_panic
    | P_nofuel => P_nofuel
    end).

Definition parseFieldMask (tokens : iter) (o : pos) : pres bool :=
  skip tokens (fun rest =>
    match parseVarIdent rest o with
    | P_err _ => P_ok false tokens
    | P_panic => P_panic
    | P_nofuel => P_nofuel
    | P_ok _ rest =>
      touch rest (
      expc (ty_chr tk_dotSign) rest (fun b rest =>
        if negb b then P_ok false tokens
        else skip rest (fun rest =>
          chk T_number rest (fun b rest =>
            if negb b then errAt E1_bitnum rest o
            else match front rest with
                 | None => P_panic
                 | Some t => match parseUint32 10 (t_val t) with
                             | None => errAt E1_bitmask_conv rest o
                             | Some _ =>
                               expOrPanic T_number rest (fun rest =>
                               touch rest (
                               expc (ty_chr tk_questionMark) rest (fun b rest =>
                                 if negb b then errAt E1_q_after_mask rest o else P_ok true rest)))
                             end
                 end))))
    end).

Definition parseFieldName (tokens : iter) (o : pos) : pres unit :=
  match parseVarIdent tokens o with
  | P_err _ => P_ok tt tokens
  | P_panic => P_panic
  | P_nofuel => P_nofuel
  | P_ok _ rest =>
    touch rest (expc (ty_chr tk_colon) rest (fun b rest => if negb b then P_ok tt tokens else P_ok tt rest))
  end.

(** ** the mutually recursive part: type references, repeats, fields *)
Fixpoint parseTypeRef (fuel : nat) (tokens : iter) (applyFlag allowRound : bool) (o : pos) : pres bool :=
  match fuel with
  | O => P_nofuel
  | S f =>
    skip tokens (fun rest =>
    expc T_numberSign rest (fun b rest =>
      if b then touch rest (P_ok true rest)
      else
        expc (ty_chr tk_percentSign) rest (fun _ rest =>
        skip rest (fun rest =>
        let startOfSomething := rest in
        bind (parseRound f rest o) (fun pt rest =>
          if pt then
            (if negb allowRound then errAt E1_round_not_allowed startOfSomething o
             else touch rest (P_ok true rest))
          else
            bind (parseAngle f rest o) (fun pt rest =>
              if pt then touch rest (P_ok true rest)
              else match parseTypeRefAsName rest o with
                   | P_err _ => P_ok false tokens
                   | P_panic => P_panic
                   | P_nofuel => P_nofuel
                   | P_ok _ rest =>
                     touch rest (if applyFlag then argsLoop f rest o else P_ok true rest)
                   end))))))
  end
with argsLoop (fuel : nat) (rest : iter) (o : pos) : pres bool :=
  match fuel with
  | O => P_nofuel
  | S f =>
    touch rest (
    bind (parseAOT f rest false o) (fun aot rest =>
      if aot then argsLoop f rest o else P_ok true rest))
  end
with parseAOT (fuel : nat) (tokens : iter) (applyFlag : bool) (o : pos) : pres bool :=
  match fuel with
  | O => P_nofuel
  | S f =>
    skip tokens (fun rest =>
    bind (parseArithmetic f rest o false) (fun a rest =>
      match a with
      | Some _ => touch rest (P_ok true rest)
      | None =>
        bind (parseTypeRef f rest applyFlag true o) (fun t rest =>
          if t then P_ok true rest else P_ok false tokens)
      end))
  end
with parseRound (fuel : nat) (tokens : iter) (o : pos) : pres bool :=
  match fuel with
  | O => P_nofuel
  | S f =>
    expc (ty_chr tk_lRoundBracket) tokens (fun b rest =>
      if negb b then P_ok false tokens
      else bind (parseTypeRef f rest true true o) (fun res rest =>
             if negb res then errAt E1_rparen_or_type rest o
             else expc (ty_chr tk_rRoundBracket) rest (fun b rest =>
                    if negb b then errAt E1_rparen_or_type rest o else P_ok true rest)))
  end
with parseAngle (fuel : nat) (tokens : iter) (o : pos) : pres bool :=
  match fuel with
  | O => P_nofuel
  | S f =>
    match parseTypeRefAsName tokens o with
    | P_err _ => P_ok false tokens
    | P_panic => P_panic
    | P_nofuel => P_nofuel
    | P_ok _ rest =>
      expc (ty_chr tk_lAngleBracket) rest (fun b rest =>
        if negb b then P_ok false tokens
        else skip rest (fun rest => angleLoop f rest o))
    end
  end
with angleLoop (fuel : nat) (rest : iter) (o : pos) : pres bool :=
  match fuel with
  | O => P_nofuel
  | S f =>
    bind (parseAOT f rest true o) (fun aot rest =>
      if negb aot then errAt E1_comma_gt_type rest o
      else expc (ty_chr tk_commaSign) rest (fun b rest =>
             if b then angleLoop f rest o
             else touch rest (
                  expc (ty_chr tk_rAngleBracket) rest (fun b rest =>
                    if negb b then errAt E1_gt_or_type rest o else P_ok true rest))))
  end.

Fixpoint parseRepeat (fuel : nat) (tokens : iter) (o : pos) : pres bool :=
  match fuel with
  | O => P_nofuel
  | S f =>
    skip tokens (fun rest =>
    bind (parseScaleFactorOpt f rest o) (fun scale rest =>
      let body (rest : iter) : pres bool :=
        bind (fieldsLoop f rest rest (ty_chr tk_rSquareBracket) (ty_chr tk_rSquareBracket) o) (fun _ rest =>
          touch rest (P_ok true rest)) in
      if scale then
        expc (ty_chr tk_asterisk) rest (fun b rest =>
          if negb b then P_ok false tokens
          else expc (ty_chr tk_lSquareBracket) rest (fun b rest =>
                 if negb b then errAt E1_lsq_after_star rest o else body rest))
      else
        expc (ty_chr tk_lSquareBracket) rest (fun b rest =>
          if negb b then P_ok false tokens else body rest)))
  end
with parseField (fuel : nat) (commentStart tokens : iter) (o : pos) : pres unit :=
  match fuel with
  | O => P_nofuel
  | S f =>
    skip tokens (fun rest =>
    if negb (commentBeforeOk n commentStart rest) then P_panic
    else
      bind (parseFieldName rest o) (fun _ rest =>
      bind (parseFieldMask rest o) (fun _ rest =>
      expc (ty_chr tk_exclamation) rest (fun _ rest =>
      bind (parseRepeat f rest o) (fun rws rest =>
        if rws then touch rest (P_ok tt rest)
        else bind (parseTypeRef f rest false true o) (fun t rest =>
               if negb t then errAt E1_field_type rest o
               else touch rest (P_ok tt rest)))))))
  end
(** parseFields(tokens, finishToken1, finishToken2, outer): the loop; result = the finishing token type *)
with fieldsLoop (fuel : nat) (commentStart rest : iter) (f1 f2 : Z) (o : pos) : pres Z :=
  match fuel with
  | O => P_nofuel
  | S f =>
    chk f1 rest (fun b rest =>
      if b then popk rest (fun rest => P_ok f1 rest)
      else chk f2 rest (fun b rest =>
        if b then popk rest (fun rest => P_ok f2 rest)
        else bind (parseField f commentStart rest o) (fun _ rest =>
               let commentStart := rest in
               let '(nl, rest) := skipToNewline rest in
               if nl && negb (sliceOk n commentStart rest) then P_panic      (* parseCommentRight *)
               else fieldsLoop f rest rest f1 f2 o)))
  end.

Definition parseFuncDecl (fuel : nat) (tokens : iter) (o : pos) : pres unit :=
  bind (parseTypeRef fuel tokens true false o) (fun t rest =>
    if negb t then errAt E1_return_type rest o else P_ok tt rest).

(** ** parseCombinator *)
Definition parseCombinator (fuel : nat) (commentStart tokens : iter) (isFunction allowBuiltin : bool) : pres unit :=
  skip tokens (fun rest =>
  match front rest with
  | None => P_panic
  | Some t0 =>
    let o := t_pos t0 in
    if negb (commentBeforeOk n commentStart rest) then P_panic
    else
      bind (parseModifiers fuel rest o) (fun _ rest =>
      bind (parseConstructor rest o allowBuiltin) (fun _ rest =>
      skip rest (fun rest =>
      bind (parseTemplateArguments fuel rest o) (fun _ rest =>
      touch rest (
      let tail (isFunction : bool) (rest : iter) : pres unit :=
        bind (if isFunction then parseFuncDecl fuel rest o else parseTypeDeclaration fuel rest o) (fun _ rest =>
        expc (ty_chr tk_semiColon) rest (fun b rest =>
          if negb b then errAt E1_semicolon rest o
          else
            let commentStart := rest in
            let '(nl, rest) := skipToNewline rest in
            if nl && negb (sliceOk n commentStart rest) then P_panic
            else touch rest (P_ok tt rest))) in
      chk (ty_chr tk_questionMark) rest (fun b rest =>
        if b then
          (if isFunction then errAt E1_q_in_function rest o
           else expOrPanic (ty_chr tk_questionMark) rest (fun rest =>
                expc (ty_chr tk_equalSign) rest (fun b rest =>
                  if negb b then errAt E1_eq_after_q rest o else tail isFunction rest)))
        else
          bind (fieldsLoop fuel rest rest (ty_chr tk_equalSign) T_functionSign o) (fun actual rest =>
            tail (if Z.eqb actual T_functionSign then true else isFunction) rest)))))))
  end).

(** ** the loop of ParseTLFile *)
Fixpoint tlLoop (fuel : nat) (cfuel : nat) (allowBuiltin : bool) (commentStart rest : iter) (functionSection : bool) : pres unit :=
  match fuel with
  | O => P_nofuel
  | S f =>
    chk T_eof rest (fun b rest =>
      if b then (if sliceOk n commentStart rest then P_ok tt rest else P_panic)     (* CommentAfter *)
      else
        match front rest with
        | None => P_panic
        | Some t =>
          if Z.eqb (t_type t) T_typesSection || Z.eqb (t_type t) T_functionsSection then
            if negb (sliceOk n commentStart rest) then P_panic
            else popk rest (fun rest' => tlLoop f cfuel allowBuiltin rest' rest' (Z.eqb (t_type t) T_functionsSection))
          else
            bind (parseCombinator cfuel commentStart rest functionSection allowBuiltin) (fun _ rest' =>
              touch commentStart (tlLoop f cfuel allowBuiltin rest' rest' functionSection))
        end)
  end.

End Parser.

(** fuel: the call depth of the Go parser is bounded by a small multiple of the number of tokens;
    the correspondence run checks that this budget is never exhausted ([P_nofuel] is printed) *)
Definition parseFuel (toks : list token) : nat := 10 * (length toks + 2).

Definition parseTokens (n : N) (allowBuiltin : bool) (toks : list token) : pres unit :=
  let it0 := mkIt 0 toks in
  tlLoop n (S (length toks)) (parseFuel toks) allowBuiltin it0 it0 false.

(** ParseTLFile: [None] in the error slot = success *)
Inductive parse1res := PR_ok | PR_err (tokenizer : bool) (e : perr) | PR_panic | PR_nofuel.

Definition parseTLFile (o : opts) (s : list N) : parse1res :=
  match parseFront o s with
  | Panic => PR_panic
  | NoFuel => PR_nofuel
  | Ok (F_tokerr e) => PR_err true e
  | Ok (F_tokens toks) =>
    match parseTokens (lenN s) (o_builtin o) toks with
    | P_ok _ _ => PR_ok
    | P_err e => PR_err false e
    | P_panic => PR_panic
    | P_nofuel => PR_nofuel
    end
  end.
