(** Proofs about the TL1 parser model (Lex/LexParse1Model.v): on the token list produced by the
    tokenizer, for every fuel, the parser never reaches a panic (iterator never indexes out of
    range, never pops eof, log.Panicf sites unreachable, comment slices in range) and every error
    it returns is [admissibleErr]: located at a token of the list, with the first token of the
    combinator as outer context. *)
From Coq Require Import List NArith ZArith Bool Lia ZifyN ZifyNat ZifyBool.
From TLV Require Import Lex.LexModel Lex.LexProofs Lex.LexParse1Model.
Import ListNotations.
Open Scope N_scope.

Section WithTokens.
Variable s : list N.
Variable ts : list token.
Hypothesis Hwf : wf_tokens s ts.

(** an iterator pointing at an existing token of [ts] *)
Definition valid (it : iter) : Prop := i_rest it = skipn (i_off it) ts /\ (i_off it < length ts)%nat.

Definition ws_range (a b : nat) : Prop :=
  forall i, (a <= i < b)%nat -> exists t, nth_error ts i = Some t /\ isWS (t_type t) = true.

Lemma ws_range_refl a : ws_range a a.
Proof. intros i H. lia. Qed.

Lemma ws_range_trans a b c : ws_range a b -> ws_range b c -> ws_range a c.
Proof. intros H1 H2 i H. destruct (Nat.lt_ge_cases i b); [apply H1|apply H2]; lia. Qed.

Lemma skipn_nth_cons (l : list token) : forall k t r, skipn k l = t :: r -> nth_error l k = Some t /\ skipn (S k) l = r.
Proof.
  induction l; intros k t r H; [destruct k; discriminate|].
  destruct k; simpl in *; [inversion H; auto|]. apply IHl. exact H.
Qed.

Lemma valid_front it : valid it -> exists t r, i_rest it = t :: r /\ nth_error ts (i_off it) = Some t /\ front it = Some t.
Proof.
  intros [H1 H2]. destruct (i_rest it) as [|t r] eqn:E.
  - exfalso. symmetry in H1. assert (length (skipn (i_off it) ts) = 0%nat) by (rewrite H1; reflexivity).
    rewrite skipn_length in H. lia.
  - exists t, r. split; [reflexivity|]. symmetry in H1. destruct (skipn_nth_cons _ _ _ _ H1) as [H3 _].
    split; [exact H3|]. unfold front. rewrite E. reflexivity.
Qed.

(** the last token is eof and is the only place where the list ends *)
Lemma last_is_eof : exists init eoft, ts = init ++ [eoft] /\ t_type eoft = T_eof /\ Forall (fun t => t_val t <> []) init.
Proof. apply Hwf. Qed.

Lemma nth_not_eof_not_last i t : nth_error ts i = Some t -> t_type t <> T_eof -> (S i < length ts)%nat /\ t_val t <> [].
Proof.
  destruct last_is_eof as (init & eoft & E & Te & Hne). intros Hn Ht.
  assert (i < length ts)%nat by (apply nth_error_Some; congruence).
  rewrite E in *. rewrite app_length in *. simpl in *.
  destruct (Nat.eq_dec i (length init)) as [->|Hd].
  - rewrite nth_error_app2 in Hn by lia. rewrite Nat.sub_diag in Hn. simpl in Hn. inversion Hn; subst. contradiction.
  - split; [lia|]. rewrite nth_error_app1 in Hn by lia. rewrite Forall_forall in Hne. apply Hne. eapply nth_error_In. exact Hn.
Qed.

Lemma isWS_not_eof ty : isWS ty = true -> ty <> T_eof.
Proof. intros H ->. vm_compute in H. discriminate. Qed.

Lemma pop_valid it t : valid it -> front it = Some t -> t_type t <> T_eof ->
  exists it', popFront it = Some (t, it') /\ valid it' /\ i_off it' = S (i_off it).
Proof.
  intros V F Ht. destruct (valid_front it V) as (t' & r & E & Hn & F'). rewrite F in F'. inversion F'; subst t'.
  destruct (nth_not_eof_not_last _ _ Hn Ht) as [Hl _].
  unfold popFront. rewrite E. eexists. split; [reflexivity|]. split; [|reflexivity].
  split; cbn [i_off i_rest]; [|exact Hl].
  destruct V as [V1 _]. rewrite E in V1. symmetry in V1. destruct (skipn_nth_cons _ _ _ _ V1) as [_ H]. auto.
Qed.

(** skipWS from a valid iterator stops at a non-white token at or before eof *)
Lemma skipWS_spec it : valid it ->
  exists it' t, skipWS it = Some it' /\ valid it' /\ (i_off it <= i_off it')%nat /\ ws_range (i_off it) (i_off it') /\
                front it' = Some t /\ isWS (t_type t) = false.
Proof.
  unfold skipWS. intros V. remember (length ts - i_off it)%nat as k eqn:Hk.
  revert it V Hk. induction k; intros it V Hk; [destruct V; lia|].
  destruct (valid_front it V) as (t & r & E & Hn & F). rewrite E. cbn [skipWS_l].
  destruct (isWS (t_type t)) eqn:W.
  - destruct (pop_valid it t V F (isWS_not_eof _ W)) as (it1 & P & V1 & O1).
    unfold popFront in P. rewrite E in P. inversion P; subst it1. cbn [i_off i_rest] in *.
    destruct (IHk (mkIt (S (i_off it)) r) V1) as (it' & t' & S' & V' & Hle & Hws & F' & W'); [cbn; lia|].
    cbn [i_off i_rest] in *. exists it', t'. split; [exact S'|]. split; [exact V'|]. split; [lia|]. split; [|auto].
    intros i Hi. destruct (Nat.eq_dec i (i_off it)) as [->|]; [eauto|]. apply Hws. lia.
  - exists (mkIt (i_off it) (t :: r)), t. split; [reflexivity|]. cbn [i_off i_rest].
    split; [destruct V; split; cbn; congruence|]. split; [lia|]. split; [apply ws_range_refl|].
    split; [reflexivity|exact W].
Qed.

Lemma skipWS_nonws it t : valid it -> front it = Some t -> isWS (t_type t) = false -> skipWS it = Some it.
Proof.
  intros V F W. destruct (valid_front it V) as (t' & r & E & _ & F'). rewrite F in F'. inversion F'; subst t'.
  unfold skipWS. rewrite E. cbn. rewrite W. destruct it; cbn in *. subst. reflexivity.
Qed.

Lemma skipToNewline_spec it : valid it ->
  valid (snd (skipToNewline it)) /\ (i_off it <= i_off (snd (skipToNewline it)))%nat /\
  ws_range (i_off it) (i_off (snd (skipToNewline it))).
Proof.
  unfold skipToNewline. intros V. remember (length ts - i_off it)%nat as k eqn:Hk.
  revert it V Hk. induction k; intros it V Hk; [destruct V; lia|].
  destruct (valid_front it V) as (t & r & E & Hn & F). rewrite E. cbn [skipToNewline_l].
  assert (Hstay : valid (mkIt (i_off it) (t :: r)) /\ (i_off it <= i_off it)%nat /\ ws_range (i_off it) (i_off it)).
  { split; [destruct V; split; cbn; congruence|]. split; [lia|apply ws_range_refl]. }
  destruct (Z.eqb (t_type t) T_comment || Z.eqb (t_type t) (ty_chr tk_whiteSpace) || Z.eqb (t_type t) (ty_chr tk_tab)) eqn:W.
  - assert (W' : isWS (t_type t) = true).
    { unfold isWS. rewrite W. reflexivity. }
    destruct (pop_valid it t V F (isWS_not_eof _ W')) as (it1 & P & V1 & O1).
    unfold popFront in P. rewrite E in P. inversion P; subst it1. cbn [i_off i_rest] in *.
    destruct (IHk (mkIt (S (i_off it)) r) V1) as (V' & Hle & Hws); [cbn; lia|]. cbn [i_off i_rest] in *.
    split; [exact V'|]. split; [lia|].
    intros i Hi. destruct (Nat.eq_dec i (i_off it)) as [->|]; [eauto|]. apply Hws. lia.
  - destruct (Z.eqb (t_type t) T_newLine || Z.eqb (t_type t) T_eof); cbn [snd i_off]; exact Hstay.
Qed.

(** ** result predicate: never a panic; iterators stay valid and never move backwards past [lo];
    errors sit at a token with index >= lo and carry the outer position [o] *)
Definition R {A : Type} (lo : nat) (o : pos) (r : pres A) : Prop :=
  match r with
  | P_ok _ rest => valid rest /\ (lo <= i_off rest)%nat
  | P_err e => e_outer e = o /\ exists i, (lo <= i)%nat /\ nth_error ts i = Some (e_tok e)
  | P_panic => False
  | P_nofuel => True
  end.

Lemma R_weaken {A} lo lo' o (r : pres A) : (lo <= lo')%nat -> R lo' o r -> R lo o r.
Proof.
  intros H. destruct r; cbn; auto.
  - intros [V L]. split; [exact V|lia].
  - intros [E (i & Hi & Hn)]. split; [exact E|]. exists i. split; [lia|exact Hn].
Qed.

Lemma R_bind {A B} lo o (r : pres A) (f : A -> iter -> pres B) :
  R lo o r -> (forall a rest, r = P_ok a rest -> valid rest -> (lo <= i_off rest)%nat -> R lo o (f a rest)) -> R lo o (bind r f).
Proof. destruct r; cbn; auto. intros [V L] H. apply H; auto. Qed.

Lemma R_skip {A} lo o it (k : iter -> pres A) : valid it -> (lo <= i_off it)%nat ->
  (forall it' t, valid it' -> (i_off it <= i_off it')%nat -> ws_range (i_off it) (i_off it') ->
                 front it' = Some t -> isWS (t_type t) = false -> R lo o (k it')) ->
  R lo o (skip it k).
Proof.
  intros V L H. destruct (skipWS_spec it V) as (it' & t & S & V' & Hle & Hws & F & W).
  unfold skip. rewrite S. eapply H; eauto.
Qed.

Lemma R_chk {A} lo o i it (k : bool -> iter -> pres A) : valid it -> (lo <= i_off it)%nat ->
  (forall b it' t, valid it' -> (i_off it <= i_off it')%nat -> ws_range (i_off it) (i_off it') ->
                   front it' = Some t -> isWS (t_type t) = false -> b = Z.eqb (t_type t) i -> R lo o (k b it')) ->
  R lo o (chk i it k).
Proof.
  intros V L H. destruct (skipWS_spec it V) as (it' & t & S & V' & Hle & Hws & F & W).
  unfold chk, checkToken. rewrite S, F. eapply H; eauto.
Qed.

Lemma expect_spec i it : valid it -> i <> T_eof ->
  exists b it', expect i it = Some (b, it') /\ valid it' /\ (i_off it <= i_off it')%nat /\
                (b = false -> ws_range (i_off it) (i_off it') /\ exists t, front it' = Some t /\ isWS (t_type t) = false /\ Z.eqb (t_type t) i = false).
Proof.
  intros V Hi. destruct (skipWS_spec it V) as (it' & t & S & V' & Hle & Hws & F & W).
  unfold expect, checkToken. rewrite S, F. destruct (Z.eqb (t_type t) i) eqn:E.
  - apply Z.eqb_eq in E. destruct (pop_valid it' t V' F) as (it'' & P & V'' & O''); [congruence|].
    rewrite P. exists true, it''. split; [reflexivity|]. split; [exact V''|]. split; [lia|discriminate].
  - exists false, it'. split; [reflexivity|]. split; [exact V'|]. split; [exact Hle|]. intros _. split; [exact Hws|]. eauto.
Qed.

Lemma R_expc {A} lo o i it (k : bool -> iter -> pres A) : i <> T_eof -> valid it -> (lo <= i_off it)%nat ->
  (forall b it', valid it' -> (i_off it <= i_off it')%nat -> R lo o (k b it')) ->
  R lo o (expc i it k).
Proof.
  intros Hi V L H. destruct (expect_spec i it V Hi) as (b & it' & E & V' & Hle & _).
  unfold expc. rewrite E. apply H; assumption.
Qed.

(** expectOrPanic(i) directly after a successful checkToken(i) *)
Lemma R_expOrPanic {A} lo o i it t (k : iter -> pres A) : valid it -> (lo <= i_off it)%nat ->
  front it = Some t -> isWS (t_type t) = false -> true = Z.eqb (t_type t) i -> i <> T_eof ->
  (forall it', valid it' -> (i_off it <= i_off it')%nat -> R lo o (k it')) ->
  R lo o (expOrPanic i it k).
Proof.
  intros V L F W E Hi H. unfold expOrPanic, expect, checkToken. rewrite (skipWS_nonws it t V F W), F, <- E.
  symmetry in E. apply Z.eqb_eq in E. destruct (pop_valid it t V F) as (it' & P & V' & O'); [congruence|].
  rewrite P. apply H; [exact V'|lia].
Qed.

Lemma R_touch {A} lo o it (k : pres A) : valid it -> R lo o k -> R lo o (touch it k).
Proof. intros V H. destruct (valid_front it V) as (t & r & _ & _ & F). unfold touch. rewrite F. exact H. Qed.

Lemma R_errAt {A} lo o k it : valid it -> (lo <= i_off it)%nat -> R (A := A) lo o (errAt k it o).
Proof.
  intros V L. destruct (valid_front it V) as (t & r & _ & Hn & F). unfold errAt. rewrite F. cbn.
  split; [reflexivity|]. exists (i_off it). auto.
Qed.

Lemma R_popk {A} lo o it t (k : iter -> pres A) : valid it -> (lo <= i_off it)%nat ->
  front it = Some t -> t_type t <> T_eof ->
  (forall it', valid it' -> (i_off it <= i_off it')%nat -> R lo o (k it')) -> R lo o (popk it k).
Proof.
  intros V L F Ht H. destruct (pop_valid it t V F Ht) as (it' & P & V' & O'). unfold popk. rewrite P.
  apply H; [exact V'|lia].
Qed.

(** ** string slices between token offsets *)
Lemma off_at i t : nth_error ts i = Some t ->
  p_off (t_pos t) = lenN (vals (firstn i ts)) /\ p_off (t_pos t) <= lenN s.
Proof.
  intros H. destruct (tok_at ts [] i t (wf_pos _ _ Hwf) H) as [P [rest Hr]]. cbn [app] in P.
  rewrite P. cbn [pos_spec p_off]. split; [reflexivity|].
  rewrite <- (wf_vals _ _ Hwf), Hr, !lenN_app. lia.
Qed.

Lemma off_mono i j ti tj : (i <= j)%nat -> nth_error ts i = Some ti -> nth_error ts j = Some tj ->
  p_off (t_pos ti) <= p_off (t_pos tj).
Proof.
  intros H Hi Hj. destruct (off_at _ _ Hi) as [Ei _]. destruct (off_at _ _ Hj) as [Ej _].
  destruct (firstn_le_split ts i j H) as [x Hx]. rewrite Ei, Ej, Hx, vals_app, lenN_app. lia.
Qed.

Lemma sliceOk_true a b : valid a -> valid b -> (i_off a <= i_off b)%nat -> sliceOk (lenN s) a b = true.
Proof.
  intros Va Vb H. destruct (valid_front a Va) as (ta & ra & _ & Na & Fa). destruct (valid_front b Vb) as (tb & rb & _ & Nb & Fb).
  unfold sliceOk. rewrite Fa, Fb. apply andb_true_iff. split; apply N.leb_le.
  - exact (off_mono _ _ _ _ H Na Nb).
  - apply (off_at _ _ Nb).
Qed.

Lemma isWS_cases ty : isWS ty = true ->
  Z.eqb ty T_comment = true \/ Z.eqb ty T_newLine = true \/ (Z.eqb ty (ty_chr tk_whiteSpace) || Z.eqb ty (ty_chr tk_tab)) = true.
Proof.
  unfold isWS. intros H. destruct (Z.eqb ty T_comment); [auto|]. destruct (Z.eqb ty T_newLine); [auto|].
  right. right. rewrite !orb_false_l, orb_false_r in H. exact H.
Qed.

Lemma commentBeforeLoop_spec k : forall it begin nonWS,
  valid it -> valid begin -> (i_off begin <= i_off it)%nat -> ws_range (i_off it) (i_off it + k) ->
  (i_off it + k < length ts)%nat ->
  exists b', commentBeforeLoop k it begin nonWS = Some b' /\ valid b' /\ (i_off b' <= i_off it + k)%nat.
Proof.
  induction k; intros it begin nonWS V Vb Hle Hws Hlen; cbn [commentBeforeLoop].
  - exists begin. split; [reflexivity|]. split; [exact Vb|lia].
  - destruct (valid_front it V) as (t & r & E & Hn & F).
    destruct (Hws (i_off it)) as (t' & Hn' & W); [lia|]. rewrite Hn in Hn'. inversion Hn'; subst t'.
    destruct (pop_valid it t V F (isWS_not_eof _ W)) as (it1 & P & V1 & O1). rewrite P.
    assert (Hws1 : ws_range (i_off it1) (i_off it1 + k)).
    { intros i Hi. apply Hws. lia. }
    assert (Hrec : forall b nw, valid b -> (i_off b <= i_off it1)%nat ->
              exists b', commentBeforeLoop k it1 b nw = Some b' /\ valid b' /\ (i_off b' <= i_off it + S k)%nat).
    { intros b nw Vb' Hb. destruct (IHk it1 b nw V1 Vb' Hb Hws1) as (b' & Eb & Vb'' & Hb''); [lia|].
      exists b'. split; [exact Eb|]. split; [exact Vb''|lia]. }
    destruct (isWS_cases _ W) as [C|[C|C]].
    + rewrite C. apply Hrec; [exact Vb|lia].
    + destruct (Z.eqb (t_type t) T_comment); [apply Hrec; [exact Vb|lia]|]. rewrite C.
      destruct (negb nonWS); apply Hrec; auto; lia.
    + destruct (Z.eqb (t_type t) T_comment); [apply Hrec; [exact Vb|lia]|].
      destruct (Z.eqb (t_type t) T_newLine); [destruct (negb nonWS); apply Hrec; auto; lia|].
      rewrite C. apply Hrec; [exact Vb|lia].
Qed.

Lemma commentBeforeOk_true cs rest : valid cs -> valid rest -> (i_off cs <= i_off rest)%nat ->
  ws_range (i_off cs) (i_off rest) -> commentBeforeOk (lenN s) cs rest = true.
Proof.
  intros Vc Vr Hle Hws. unfold commentBeforeOk.
  destruct (commentBeforeLoop_spec (i_off rest - i_off cs) cs cs false Vc Vc (Nat.le_refl _)) as (b' & E & Vb & Hb).
  - replace (i_off cs + (i_off rest - i_off cs))%nat with (i_off rest) by lia. exact Hws.
  - destruct Vr. lia.
  - rewrite E. apply sliceOk_true; [exact Vb|exact Vr|lia].
Qed.

(** tokens of the name classes *)
Lemma ns_hasDot it t : valid it -> front it = Some t -> nsb (t_type t) = true -> hasDot (t_val t) = true.
Proof.
  intros V F Hns. destruct (valid_front it V) as (t' & r & _ & Hn & F'). rewrite F in F'. inversion F'; subst t'.
  pose proof (wf_ns _ _ Hwf) as Hall. rewrite Forall_forall in Hall.
  destruct (Hall t (nth_error_In _ _ Hn)) as [[H|H] _]; [congruence|].
  unfold hasDot. apply existsb_exists. exists 46. split; [exact H|reflexivity].
Qed.

(** ** automation *)
Ltac noteof := let H := fresh in intros H; vm_compute in H; discriminate H.
Ltac r_call := fail.
Ltac r_step :=
  match goal with
  | |- R _ _ (P_ok _ _) => cbn [R]; split; [assumption|lia]
  | |- R _ _ P_nofuel => exact I
  | |- R _ _ (skip _ _) => apply R_skip; [assumption|lia|intros ? ? ? ? ? ? ?]
  | |- R _ _ (chk _ _ _) => apply R_chk; [assumption|lia|intros ? ? ? ? ? ? ? ? ?]
  | |- R _ _ (expc _ _ _) => apply R_expc; [noteof|assumption|lia|intros ? ? ? ?]
  | |- R _ _ (touch _ _) => apply R_touch; [assumption|]
  | |- R _ _ (errAt _ _ _) => apply R_errAt; [assumption|lia]
  | |- R _ _ (expOrPanic _ _ _) => eapply R_expOrPanic; [assumption|lia|eassumption|eassumption|eassumption|noteof|intros ? ? ?]
  | |- R _ _ (popk _ _) => eapply R_popk; [assumption|lia|eassumption| |intros ? ? ?]
  | |- R _ _ (let _ := _ in _) => cbv zeta
  | |- R _ _ (if negb ?b then _ else _) => destruct b; cbn [negb]
  | |- R _ _ (if ?b then _ else _) => destruct b
  | |- R _ _ (bind _ _) => eapply R_bind; [|intros ? ? ? ? ?]
  | H : front ?r = Some _ |- R _ _ (match front ?r with _ => _ end) => rewrite H
  | |- R _ _ _ => solve [r_call]
  end.
Ltac r_go := repeat r_step.

Lemma R_nameTok {A} lo o r t needDot i (k : iter -> pres A) : valid r -> (lo <= i_off r)%nat ->
  front r = Some t -> isWS (t_type t) = false -> true = Z.eqb (t_type t) i -> i <> T_eof ->
  (needDot = true -> nsb i = true) ->
  (forall it', valid it' -> (i_off r <= i_off it')%nat -> R lo o (k it')) ->
  R lo o (nameTok r needDot i k).
Proof.
  intros V L F W E Hi Hd H. unfold nameTok. rewrite F.
  assert (Hdot : needDot && negb (hasDot (t_val t)) = false).
  { destruct needDot; [|reflexivity]. cbn. rewrite (ns_hasDot r t V F); [reflexivity|].
    symmetry in E. apply Z.eqb_eq in E. rewrite E. auto. }
  rewrite Hdot. eapply R_expOrPanic; eauto.
Qed.

Ltac r_name := eapply R_nameTok; [assumption|lia|eassumption|eassumption|eassumption|noteof|first [reflexivity|discriminate]|intros ? ? ?].

Lemma parseLCIdentNS_R lo o it : valid it -> (lo <= i_off it)%nat -> R lo o (parseLCIdentNS it o).
Proof. intros V L. unfold parseLCIdentNS. r_step. r_step; [r_name; r_go|]. r_step. r_step; [r_name; r_go|r_go]. Qed.

Lemma parseUCIdentNS_R lo o it : valid it -> (lo <= i_off it)%nat -> R lo o (parseUCIdentNS it o).
Proof. intros V L. unfold parseUCIdentNS. r_step. r_step; [r_name; r_go|]. r_step. r_step; [r_name; r_go|r_go]. Qed.

Lemma parseVarIdent_R lo o it : valid it -> (lo <= i_off it)%nat -> R lo o (parseVarIdent it o).
Proof. intros V L. unfold parseVarIdent. r_step. r_step; [r_name; r_go|]. r_step. r_step; [r_name; r_go|r_go]. Qed.

Lemma parseTypeRefAsName_R lo o it : valid it -> (lo <= i_off it)%nat -> R lo o (parseTypeRefAsName it o).
Proof.
  intros V L. unfold parseTypeRefAsName.
  r_step. r_step; [r_name; r_go|]. r_step. r_step; [r_name; r_go|].
  r_step. r_step; [r_name; r_go|]. r_step. r_step; [r_name; r_go|r_go].
Qed.

Ltac r_call ::= first [apply parseLCIdentNS_R|apply parseUCIdentNS_R|apply parseVarIdent_R|apply parseTypeRefAsName_R]; [assumption|lia].

(** a token whose value is "Type" is not white space (so skipWS does not move past it) *)
Lemma val_Type_nonws it t : valid it -> front it = Some t -> t_val t = [84; 121; 112; 101] -> isWS (t_type t) = false.
Proof.
  intros V F Hv. destruct (valid_front it V) as (t' & r & _ & Hn & F'). rewrite F in F'. inversion F'; subst t'.
  pose proof (wf_ns _ _ Hwf) as Hall. rewrite Forall_forall in Hall.
  destruct (Hall t (nth_error_In _ _ Hn)) as [_ H].
  destruct (isWS (t_type t)) eqn:W; [|reflexivity]. exfalso.
  change (isWS (t_type t)) with (isWSty (t_type t)) in W. apply (H W). rewrite Hv. reflexivity.
Qed.

Lemma front_nonempty it t : valid it -> front it = Some t -> t_type t <> T_eof -> t_val t <> [].
Proof.
  intros V F Ht. destruct (valid_front it V) as (t' & r & _ & Hn & F'). rewrite F in F'. inversion F'; subst t'.
  apply (nth_not_eof_not_last _ _ Hn Ht).
Qed.

Lemma eqb_type_ne t i : true = Z.eqb (t_type t) i -> i <> T_eof -> t_type t <> T_eof.
Proof. intros E Hi. symmetry in E. apply Z.eqb_eq in E. congruence. Qed.

(** destruct [t_val t] knowing the token is not eof *)
Ltac r_val :=
  match goal with
  | V : valid ?r, F : front ?r = Some ?t, E : true = Z.eqb (t_type ?t) ?i |- R _ _ (match t_val ?t with _ => _ end) =>
    let Ev := fresh "Ev" in
    destruct (t_val t) eqn:Ev;
    [exfalso; apply (front_nonempty r t V F (eqb_type_ne t i E ltac:(noteof))); exact Ev|]
  end.

Lemma parseModifiers_R fuel : forall lo o it, valid it -> (lo <= i_off it)%nat -> R lo o (parseModifiers fuel it o).
Proof.
  induction fuel; intros lo o it V L; cbn [parseModifiers]; [exact I|].
  r_step. r_step. r_step; [|r_go]. r_step. r_val. r_step. r_step. apply IHfuel; [assumption|lia].
Qed.

Lemma parseConstructor_R lo o it ab : valid it -> (lo <= i_off it)%nat -> R lo o (parseConstructor it o ab).
Proof.
  intros V L. unfold parseConstructor. r_step.
  assert (Htag : forall r, valid r -> (lo <= i_off r)%nat ->
            R lo o (chk T_crc32hash r (fun b rest =>
              if negb b then P_ok tt rest
              else match front rest with
                   | None => P_panic
                   | Some t => match t_val t with
                               | [] => P_panic
                               | _ :: v => match parseUint32 16 v with
                                           | None => errAt E1_tag_conv rest o
                                           | Some _ => expOrPanic T_crc32hash rest (fun rest => touch rest (P_ok tt rest))
                                           end
                               end
                   end))).
  { intros r Vr Lr. r_step. r_step; [|r_go]. r_step. r_val. destruct (parseUint32 16 l); r_go. }
  destruct ab.
  - r_step. r_step.
    + r_step. r_step. apply Htag; [assumption|lia].
    + r_step; [r_call|]. r_step. apply Htag; [assumption|lia].
  - r_step; [r_call|]. r_step. apply Htag; [assumption|lia].
Qed.

Lemma parseTemplateArgument_R lo o it : valid it -> (lo <= i_off it)%nat -> R lo o (parseTemplateArgument it o).
Proof.
  intros V L. unfold parseTemplateArgument. r_step. r_step. r_step; [|r_go].
  r_step; [r_call|]. r_step. r_step; [|r_go].
  r_step. r_step.
  assert (Hclose : forall r, valid r -> (lo <= i_off r)%nat ->
            R lo o (expc (ty_chr tk_rCurlyBracket) r (fun b rest =>
                      if negb b then errAt E1_targ_close rest o else touch rest (P_ok true rest)))).
  { intros r Vr Lr. r_go. }
  match goal with |- R _ _ (if ?c then _ else _) => destruct c eqn:Eb end.
  - apply andb_true_iff in Eb. destruct Eb as [Eb1 _]. rewrite Eb1 in *. r_step. apply Hclose; [assumption|lia].
  - r_step. r_step; [|r_go]. r_step. apply Hclose; [assumption|lia].
Qed.

Lemma parseTemplateArguments_R fuel : forall lo o it, valid it -> (lo <= i_off it)%nat -> R lo o (parseTemplateArguments fuel it o).
Proof.
  induction fuel; intros lo o it V L; cbn [parseTemplateArguments]; [exact I|].
  r_step; [apply parseTemplateArgument_R; [assumption|lia]|]. r_step; [|r_go]. apply IHfuel; [assumption|lia].
Qed.

Lemma typeDeclArgs_R fuel : forall lo o it, valid it -> (lo <= i_off it)%nat -> R lo o (typeDeclArgs fuel it o).
Proof.
  induction fuel; intros lo o it V L; cbn [typeDeclArgs]; [exact I|].
  r_step. pose proof (parseVarIdent_R lo o it' H ltac:(lia)) as HR.
  destruct (parseVarIdent it' o) as [a r'|e| |]; cbn [R] in HR; [|r_go|contradiction|exact I].
  destruct HR as [Vr Lr]. r_step. apply IHfuel; [assumption|lia].
Qed.

Lemma parseTypeDeclaration_R fuel lo o it : valid it -> (lo <= i_off it)%nat -> R lo o (parseTypeDeclaration fuel it o).
Proof.
  intros V L. unfold parseTypeDeclaration. r_step. r_step; [r_call|]. r_step. apply typeDeclArgs_R; [assumption|lia].
Qed.

(** ** arithmetic: with force = true the result is never nil (so res2.Res cannot dereference nil) *)
Lemma arith_force fuel :
  (forall it o rest, parseArithmetic fuel it o true <> P_ok None rest) /\
  (forall res it o rest, plusLoop fuel res it o <> P_ok None rest).
Proof.
  induction fuel; [split; intros; cbn; discriminate|]. destruct IHfuel as [IHa IHp]. split.
  - intros it o rest. cbn [parseArithmetic]. unfold expc. destruct (expect (ty_chr tk_lRoundBracket) it) as [[b r]|]; [|discriminate].
    destruct b.
    + unfold bind. destruct (parseArithmetic fuel r o true) as [[v|] r'|e| |] eqn:E; try discriminate.
      * destruct (expect (ty_chr tk_rRoundBracket) r') as [[b2 r2]|]; [|discriminate].
        destruct b2; cbn [negb]; [apply IHp|]. unfold errAt. destruct (front r2); discriminate.
      * exfalso. exact (IHa _ _ _ E).
    + unfold chk. destruct (checkToken T_number r) as [[b2 r2]|]; [|discriminate].
      destruct b2.
      * destruct (front r2) as [t|]; [|discriminate]. destruct (parseUint32 10 (t_val t)).
        -- unfold expOrPanic. destruct (expect T_number r2) as [[[] r3]|]; try discriminate. apply IHp.
        -- unfold errAt. destruct (front r2); discriminate.
      * unfold errAt. destruct (front r2); discriminate.
  - intros res it o rest. cbn [plusLoop]. unfold expc. destruct (expect (ty_chr tk_plus) it) as [[b r]|]; [|discriminate].
    destruct b; cbn [negb]; [|discriminate].
    unfold bind. destruct (parseArithmetic fuel r o true) as [[v|] r'|e| |] eqn:E; try discriminate.
    destruct (4294967295 <=? res + v); [|apply IHp]. unfold errAt. destruct (front r'); discriminate.
Qed.

Lemma parseArithmetic_R fuel :
  (forall lo o it force, valid it -> (lo <= i_off it)%nat -> R lo o (parseArithmetic fuel it o force)) /\
  (forall lo o res it, valid it -> (lo <= i_off it)%nat -> R lo o (plusLoop fuel res it o)).
Proof.
  induction fuel; [split; intros; exact I|]. destruct IHfuel as [IHa IHp]. split.
  - intros lo o it force V L. cbn [parseArithmetic]. r_step. r_step.
    + r_step; [apply IHa; [assumption|lia]|]. destruct a as [v|]; [|r_go]. r_step. r_step; [apply IHp; [assumption|lia]|r_go].
    + r_step. r_step.
      * r_step. match goal with |- R _ _ (match ?c with _ => _ end) => destruct c end; [|r_go]. r_step. apply IHp; [assumption|lia].
      * r_go.
  - intros lo o res it V L. cbn [plusLoop]. r_step. r_step; [|r_go].
    r_step; [apply IHa; [assumption|lia]|]. destruct a as [v2|].
    + r_step; [r_go|]. apply IHp; [assumption|lia].
    + exfalso. match goal with E : parseArithmetic _ _ _ true = P_ok None _ |- _ => exact (proj1 (arith_force fuel) _ _ _ E) end.
Qed.

Lemma parseScaleFactorOpt_R fuel lo o it : valid it -> (lo <= i_off it)%nat -> R lo o (parseScaleFactorOpt fuel it o).
Proof.
  intros V L. unfold parseScaleFactorOpt. r_step.
  pose proof (parseVarIdent_R lo o it' H ltac:(lia)) as HR.
  destruct (parseVarIdent it' o) as [a r'|e| |]; cbn [R] in HR; [| |contradiction|exact I].
  - destruct HR as [Vr Lr]. r_go.
  - r_step; [apply (proj1 (parseArithmetic_R fuel)); [assumption|lia]|]. destruct a; r_go.
Qed.

Lemma parseFieldMask_R lo o it : valid it -> (lo <= i_off it)%nat -> R lo o (parseFieldMask it o).
Proof.
  intros V L. unfold parseFieldMask. r_step.
  pose proof (parseVarIdent_R lo o it' H ltac:(lia)) as HR.
  destruct (parseVarIdent it' o) as [a r'|e| |]; cbn [R] in HR; [|r_go|contradiction|exact I].
  destruct HR as [Vr Lr]. r_step. r_step. r_step; [|r_go]. r_step. r_step. r_step; [|r_go].
  r_step. match goal with |- R _ _ (match ?c with _ => _ end) => destruct c end; r_go.
Qed.

Lemma parseFieldName_R lo o it : valid it -> (lo <= i_off it)%nat -> R lo o (parseFieldName it o).
Proof.
  intros V L. unfold parseFieldName.
  pose proof (parseVarIdent_R lo o it V L) as HR.
  destruct (parseVarIdent it o) as [a r'|e| |]; cbn [R] in HR; [|r_go|contradiction|exact I].
  destruct HR as [Vr Lr]. r_go.
Qed.

(** ** type references *)
Lemma typeref_R fuel :
  (forall lo o it af ar, valid it -> (lo <= i_off it)%nat -> R lo o (parseTypeRef fuel it af ar o)) /\
  (forall lo o it, valid it -> (lo <= i_off it)%nat -> R lo o (argsLoop fuel it o)) /\
  (forall lo o it af, valid it -> (lo <= i_off it)%nat -> R lo o (parseAOT fuel it af o)) /\
  (forall lo o it, valid it -> (lo <= i_off it)%nat -> R lo o (parseRound fuel it o)) /\
  (forall lo o it, valid it -> (lo <= i_off it)%nat -> R lo o (parseAngle fuel it o)) /\
  (forall lo o it, valid it -> (lo <= i_off it)%nat -> R lo o (angleLoop fuel it o)).
Proof.
  induction fuel; [repeat split; intros; exact I|].
  destruct IHfuel as (IHt & IHl & IHa & IHr & IHg & IHgl).
  split; [|split; [|split; [|split; [|split]]]].
  - intros lo o it af ar V L. cbn [parseTypeRef]. r_step. r_step. r_step; [r_go|].
    r_step. r_step. r_step; [apply IHr; [assumption|lia]|].
    r_step; [r_step; r_go|].
    r_step; [apply IHg; [assumption|lia]|]. r_step; [r_go|].
    match goal with |- R _ _ (match parseTypeRefAsName ?r _ with _ => _ end) =>
      let HR := fresh "HR" in
      assert (HR : R lo o (parseTypeRefAsName r o)) by (apply parseTypeRefAsName_R; [assumption|lia]);
      destruct (parseTypeRefAsName r o) as [a' r'|e| |]; cbn [R] in HR; [|r_go|contradiction|exact I];
      destruct HR as [Vr Lr]
    end.
    r_step. destruct af; [apply IHl; [assumption|lia]|r_go].
  - intros lo o it V L. cbn [argsLoop]. r_step. r_step; [apply IHa; [assumption|lia]|].
    r_step; [apply IHl; [assumption|lia]|r_go].
  - intros lo o it af V L. cbn [parseAOT]. r_step. r_step; [apply (proj1 (parseArithmetic_R fuel)); [assumption|lia]|].
    destruct a; [r_go|]. r_step; [apply IHt; [assumption|lia]|]. r_go.
  - intros lo o it V L. cbn [parseRound]. r_step. r_step; [|r_go].
    r_step; [apply IHt; [assumption|lia]|]. r_go.
  - intros lo o it V L. cbn [parseAngle].
    pose proof (parseTypeRefAsName_R lo o it V L) as HR.
    destruct (parseTypeRefAsName it o) as [a' r'|e| |]; cbn [R] in HR; [|r_go|contradiction|exact I].
    destruct HR as [Vr Lr]. r_step. r_step; [|r_go]. r_step. apply IHgl; [assumption|lia].
  - intros lo o it V L. cbn [angleLoop]. r_step; [apply IHa; [assumption|lia]|].
    r_step; [|r_go]. r_step. r_step; [apply IHgl; [assumption|lia]|]. r_go.
Qed.

(** ** fields *)
Notation n := (lenN s).

Lemma fields_R fuel :
  (forall lo o it, valid it -> (lo <= i_off it)%nat -> R lo o (parseRepeat n fuel it o)) /\
  (forall lo o cs it, valid cs -> valid it -> (i_off cs <= i_off it)%nat -> ws_range (i_off cs) (i_off it) ->
                      (lo <= i_off it)%nat -> R lo o (parseField n fuel cs it o)) /\
  (forall lo o cs it f1 f2, valid cs -> valid it -> (i_off cs <= i_off it)%nat -> ws_range (i_off cs) (i_off it) ->
                            (lo <= i_off it)%nat -> f1 <> T_eof -> f2 <> T_eof -> R lo o (fieldsLoop n fuel cs it f1 f2 o)).
Proof.
  induction fuel; [repeat split; intros; exact I|].
  destruct IHfuel as (IHr & IHf & IHl).
  split; [|split].
  - intros lo o it V L. cbn [parseRepeat]. r_step.
    r_step; [apply parseScaleFactorOpt_R; [assumption|lia]|]. cbv zeta.
    assert (Hbody : forall r, valid r -> (lo <= i_off r)%nat ->
              R lo o (bind (fieldsLoop n fuel r r (ty_chr tk_rSquareBracket) (ty_chr tk_rSquareBracket) o)
                           (fun _ rest => touch rest (P_ok true rest)))).
    { intros r Vr Lr. r_step; [|r_go]. apply IHl; auto using ws_range_refl; noteof. }
    r_step.
    + r_step. r_step; [|r_go]. r_step. r_step; [|r_go]. apply Hbody; [assumption|lia].
    + r_step. r_step; [|r_go]. apply Hbody; [assumption|lia].
  - intros lo o cs it Vc V Hle Hws L. cbn [parseField]. r_step.
    rewrite commentBeforeOk_true; [|assumption|assumption|lia|eapply ws_range_trans; eassumption]. cbn [negb].
    r_step; [apply parseFieldName_R; [assumption|lia]|].
    r_step; [apply parseFieldMask_R; [assumption|lia]|].
    r_step. r_step; [apply IHr; [assumption|lia]|].
    r_step; [r_go|]. r_step; [apply (proj1 (typeref_R fuel)); [assumption|lia]|]. r_go.
  - intros lo o cs it f1 f2 Vc V Hle Hws L Hf1 Hf2. cbn [fieldsLoop].
    r_step. r_step.
    { r_step; [eapply eqb_type_ne; eassumption|]. r_go. }
    r_step. r_step.
    { r_step; [eapply eqb_type_ne; eassumption|]. r_go. }
    r_step.
    { apply IHf; try assumption; try lia. eapply ws_range_trans; [exact Hws|]. eapply ws_range_trans; eassumption. }
    cbv zeta.
    match goal with Vr : valid ?r |- R _ _ (let '(_, _) := skipToNewline ?r in _) =>
      destruct (skipToNewline_spec r Vr) as (V' & L' & W'); destruct (skipToNewline r) as [nl r2]; cbn [snd] in *
    end.
    rewrite sliceOk_true by (assumption || lia). cbn [negb]. rewrite andb_false_r.
    apply IHl; auto using ws_range_refl. lia.
Qed.

Lemma parseFuncDecl_R fuel lo o it : valid it -> (lo <= i_off it)%nat -> R lo o (parseFuncDecl fuel it o).
Proof.
  intros V L. unfold parseFuncDecl. r_step; [apply (proj1 (typeref_R fuel)); [assumption|lia]|]. r_go.
Qed.

(** ** combinators and the file loop *)
Definition RC {A : Type} (lo : nat) (r : pres A) : Prop :=
  match r with
  | P_ok _ rest => valid rest /\ (lo <= i_off rest)%nat
  | P_err e => admissibleErr ts e
  | P_panic => False
  | P_nofuel => True
  end.

Lemma RC_weaken {A} lo lo' (r : pres A) : (lo <= lo')%nat -> RC lo' r -> RC lo r.
Proof. intros H. destruct r; cbn; auto. intros [V L]. split; [exact V|lia]. Qed.

Lemma R_to_RC {A} lo j t0 (r : pres A) : nth_error ts j = Some t0 -> (j <= lo)%nat -> R lo (t_pos t0) r -> RC lo r.
Proof.
  intros Hj Hle. destruct r; cbn; auto. intros [Ho (i & Hi & Hn)]. exists i, j, t0. repeat split; auto. lia.
Qed.

Ltac r_step ::=
  match goal with
  | |- R _ _ (P_ok _ _) => cbn [R]; split; [assumption|lia]
  | |- R _ _ P_nofuel => exact I
  | |- R _ _ (skip _ _) => apply R_skip; [assumption|lia|intros ? ? ? ? ? ? ?]
  | |- R _ _ (chk _ _ _) => apply R_chk; [assumption|lia|intros ? ? ? ? ? ? ? ? ?]
  | |- R _ _ (expc _ _ _) => apply R_expc; [noteof|assumption|lia|intros ? ? ? ?]
  | |- R _ _ (touch _ _) => apply R_touch; [assumption|]
  | |- R _ _ (errAt _ _ _) => apply R_errAt; [assumption|lia]
  | |- R _ _ (expOrPanic _ _ _) => eapply R_expOrPanic; [assumption|lia|eassumption|eassumption|eassumption|noteof|intros ? ? ?]
  | |- R _ _ (popk _ _) => eapply R_popk; [assumption|lia|eassumption| |intros ? ? ?]
  | Vr : valid ?r |- R _ _ (let '(_, _) := skipToNewline ?r in _) =>
      destruct (skipToNewline_spec r Vr) as (? & ? & ?); destruct (skipToNewline r) as [? ?]; cbn [snd] in *;
      rewrite sliceOk_true by (assumption || lia); cbn [negb]; rewrite andb_false_r
  | |- R _ _ (let _ := _ in _) => cbv zeta
  | |- R _ _ (if negb ?b then _ else _) => destruct b; cbn [negb]
  | |- R _ _ (if ?b then _ else _) => destruct b
  | |- R _ _ (bind _ _) => eapply R_bind; [|intros ? ? ? ? ?]
  | H : front ?r = Some _ |- R _ _ (match front ?r with _ => _ end) => rewrite H
  | |- R _ _ _ => solve [r_call]
  end.

Ltac r_call ::=
  first [apply parseLCIdentNS_R|apply parseUCIdentNS_R|apply parseVarIdent_R|apply parseTypeRefAsName_R
        |apply parseModifiers_R|apply parseConstructor_R|apply parseTemplateArguments_R
        |apply parseFuncDecl_R|apply parseTypeDeclaration_R]; [assumption|lia].

Lemma parseCombinator_RC fuel cs it isF ab :
  valid cs -> valid it -> (i_off cs <= i_off it)%nat -> ws_range (i_off cs) (i_off it) ->
  RC (i_off it) (parseCombinator n fuel cs it isF ab).
Proof.
  intros Vc V Hle Hws. destruct (skipWS_spec it V) as (rest & t0 & S & V' & Hle' & Hws' & F & W).
  unfold parseCombinator. unfold skip at 1. rewrite S, F.
  rewrite commentBeforeOk_true; [|assumption|assumption|lia|eapply ws_range_trans; eassumption]. cbn [negb].
  destruct (valid_front rest V') as (t0' & r0 & _ & Hn & F'). rewrite F in F'. inversion F'; subst t0'.
  apply (RC_weaken (i_off it) (i_off rest)); [lia|]. eapply R_to_RC; [exact Hn|lia|].
  r_step; [r_call|]. r_step; [r_call|]. r_step. r_step; [r_call|]. r_step. cbv zeta.
  r_step. r_step.
  - r_step; [r_go|]. r_step. r_step. r_step; [|r_go].
    r_step; [r_call|]. r_go.
  - r_step.
    { apply (proj2 (proj2 (fields_R fuel))); auto using ws_range_refl; try lia; noteof. }
    r_step.
    { match goal with |- R _ _ (if ?c then _ else _) => destruct c end; r_call. }
    r_go.
Qed.

Definition RT {A : Type} (r : pres A) : Prop :=
  match r with
  | P_ok _ _ => True
  | P_err e => admissibleErr ts e
  | P_panic => False
  | P_nofuel => True
  end.

Lemma tlLoop_RT fuel cfuel ab : forall cs it fs,
  valid cs -> valid it -> (i_off cs <= i_off it)%nat -> ws_range (i_off cs) (i_off it) ->
  RT (tlLoop n fuel cfuel ab cs it fs).
Proof.
  induction fuel; intros cs it fs Vc V Hle Hws; cbn [tlLoop]; [exact I|].
  destruct (skipWS_spec it V) as (rest & t & S & V' & Hle' & Hws' & F & W).
  unfold chk, checkToken. rewrite S, F.
  destruct (Z.eqb (t_type t) T_eof) eqn:Ee.
  - rewrite sliceOk_true; [exact I|assumption|assumption|lia].
  - rewrite F. destruct (Z.eqb (t_type t) T_typesSection || Z.eqb (t_type t) T_functionsSection).
    + rewrite sliceOk_true; [|assumption|assumption|lia]. cbn [negb].
      destruct (pop_valid rest t V' F) as (r2 & P & V2 & O2); [apply Z.eqb_neq; exact Ee|].
      unfold popk. rewrite P. apply IHfuel; auto using ws_range_refl.
    + assert (HC : RC (i_off rest) (parseCombinator n cfuel cs rest fs ab)).
      { apply parseCombinator_RC; try assumption; [lia|]. eapply ws_range_trans; eassumption. }
      destruct (parseCombinator n cfuel cs rest fs ab) as [a r2|e| |]; cbn [bind RC RT] in *; auto.
      destruct HC as [V2 L2]. destruct (valid_front cs Vc) as (tc & rc & _ & _ & Fc). unfold touch. rewrite Fc.
      apply IHfuel; auto using ws_range_refl.
Qed.

Theorem parseTokens_safe ab : RT (parseTokens n ab ts).
Proof.
  unfold parseTokens.
  assert (V0 : valid (mkIt 0 ts)).
  { split; [reflexivity|]. cbn. destruct last_is_eof as (init & eoft & -> & _). rewrite app_length. simpl. lia. }
  apply tlLoop_RT; auto using ws_range_refl.
Qed.

End WithTokens.

(** * ParseTLFile as a whole: tokenizer + parser model *)
Theorem parseTLFile_safe o s :
  match parseTLFile o s with
  | PR_ok => True
  | PR_err _ e => err_in_range s e
  | PR_panic => False
  | PR_nofuel => True
  end.
Proof.
  unfold parseTLFile. destruct (front_total o s) as [[e F]|[toks F]]; rewrite F.
  - exact (tokenizer_error_in_range o s e F).
  - pose proof (parseTokens_safe s toks (front_tokens_wf o s toks F) (o_builtin o)) as H.
    destruct (parseTokens (lenN s) (o_builtin o) toks); cbn in H; auto.
    exact (parser_error_in_range o s toks e F H).
Qed.

(** the tokenizer part of ParseTLFile never runs out of fuel either: [PR_nofuel] can only come from the
    parser loop budget [parseFuel] *)
Theorem parseTLFile_nofuel_only_parser o s :
  parseTLFile o s = PR_nofuel -> exists toks, parseFront o s = Ok (F_tokens toks) /\
                                              parseTokens (lenN s) (o_builtin o) toks = P_nofuel.
Proof.
  unfold parseTLFile. destruct (front_total o s) as [[e F]|[toks F]]; rewrite F; [discriminate|].
  intros H. exists toks. split; [reflexivity|]. destruct (parseTokens (lenN s) (o_builtin o) toks); try discriminate. reflexivity.
Qed.
