(** M7 (front part) -- executable model of the TL lexer, internal/tlast/tllexer.go,
    parametric in [LexerOptions] (TL1 / TL2, AllowBuiltin, AllowDirty), plus the
    tokenizer front end of ParseTLFile / ParseTL2File and the slicing done by
    ParseError.consolePrint (tlparser_error.go).  No proofs here.

    Conventions: a byte is an [N]; a string is a [list N]; token types are [Z] (Go [int]):
    single-character tokens have the character code as type, the named classes are the
    negative constants of tllexer.go, regenerated into Gen/LexConsts.v on every run.
    Go panics (slice/index out of range, log.Panicf) are modelled explicitly as [Panic];
    running out of the structural fuel is [NoFuel]; the theorems show neither happens. *)
From Coq Require Import List NArith ZArith Bool.
From TLV Require Export Gen.LexConsts.
Import ListNotations.
Open Scope N_scope.

(** * Character classes (tllexer.go: lowerCase .. hex) -- literal ranges in the source *)
Definition lowerCase (c : N) : bool := (97 <=? c) && (c <=? 122).
Definition upperCase (c : N) : bool := (65 <=? c) && (c <=? 90).
Definition digit (c : N) : bool := (48 <=? c) && (c <=? 57).
Definition letter (c : N) : bool := lowerCase c || upperCase c.
Definition identChar (c : N) : bool := letter c || digit c || (c =? 95).
Definition hexChar (c : N) : bool := digit c || ((97 <=? c) && (c <=? 102)).

Fixpoint takeWhile (f : N -> bool) (s : list N) : list N :=
  match s with
  | [] => []
  | c :: r => if f c then c :: takeWhile f r else []
  end.

(** [len(s) >= n] without walking the whole string *)
Fixpoint lenAtLeast (n : nat) (s : list N) : bool :=
  match n with
  | O => true
  | S m => match s with [] => false | _ :: r => lenAtLeast m r end
  end.

(** nameIdent / builtinIdent / numberLexeme *)
Definition nameIdent (s : list N) : list N :=
  match s with
  | [] => []
  | c :: r => if negb (letter c) then [] else c :: takeWhile identChar r
  end.

Definition builtinIdent (s : list N) : list N :=
  match s with
  | [] => []
  | c :: r => if negb (letter c || (c =? 95)) then [] else c :: takeWhile identChar r
  end.

Definition numberLexeme (s : list N) : list N * bool :=
  let w := takeWhile identChar s in (w, forallb digit w).

(** * Strings *)
Fixpoint list_eqb (a b : list N) : bool :=
  match a, b with
  | [], [] => true
  | x :: a', y :: b' => (x =? y) && list_eqb a' b'
  | _, _ => false
  end.

(** strings.HasPrefix s p *)
Fixpoint hasPrefix (s p : list N) : bool :=
  match p with
  | [] => true
  | y :: p' => match s with
               | [] => false
               | x :: s' => (x =? y) && hasPrefix s' p'
               end
  end.

(** strings.IndexByte / strings.Index s "\r\n"; -1 when absent *)
Fixpoint indexByte (c : N) (s : list N) : Z :=
  match s with
  | [] => (-1)%Z
  | x :: r => if x =? c then 0%Z
              else let i := indexByte c r in if (i <? 0)%Z then (-1)%Z else (i + 1)%Z
  end.

Fixpoint indexCRLF (s : list N) : Z :=
  match s with
  | [] => (-1)%Z
  | _ :: r => if hasPrefix s [13; 10] then 0%Z
              else let i := indexCRLF r in if (i <? 0)%Z then (-1)%Z else (i + 1)%Z
  end.

(** * unicode/utf8.DecodeRuneInString, projected on what the lexer looks at:
    ([utf == RuneError && size == 1], size).  Transcribed from the [first] /
    [acceptRanges] tables of the Go standard library (trusted; exercised by the
    correspondence run on non-UTF-8 comments). *)
Definition inRange (lo hi c : N) : bool := (lo <=? c) && (c <=? hi).

Definition decodeRune (s : list N) : bool * nat :=
  match s with
  | [] => (false, 0%nat)
  | s0 :: t =>
    if s0 <? 128 then (false, 1%nat)
    else
      let '(sz, lo, hi) :=
        if inRange 194 223 s0 then (2%nat, 128, 191)
        else if s0 =? 224 then (3%nat, 160, 191)
        else if inRange 225 236 s0 then (3%nat, 128, 191)
        else if s0 =? 237 then (3%nat, 128, 159)
        else if inRange 238 239 s0 then (3%nat, 128, 191)
        else if s0 =? 240 then (4%nat, 144, 191)
        else if inRange 241 243 s0 then (4%nat, 128, 191)
        else if s0 =? 244 then (4%nat, 128, 143)
        else (0%nat, 0, 0) in
      match sz with
      | O => (true, 1%nat)                                  (* first[s0] == xx *)
      | _ =>
        if negb (lenAtLeast sz s) then (true, 1%nat)     (* n < sz *)
        else match t with
        | [] => (true, 1%nat)
        | s1 :: t1 =>
          if negb (inRange lo hi s1) then (true, 1%nat)
          else if (sz <=? 2)%nat then (false, 2%nat)
          else match t1 with
          | [] => (true, 1%nat)
          | s2 :: t2 =>
            if negb (inRange 128 191 s2) then (true, 1%nat)
            else if (sz <=? 3)%nat then (false, 3%nat)
            else match t2 with
            | [] => (true, 1%nat)
            | s3 :: _ => if negb (inRange 128 191 s3) then (true, 1%nat) else (false, 4%nat)
            end
          end
        end
      end
  end.

(** the loop [for i := 0; i != index; { decode l.str[i:index] ... i += size }] over
    [s = l.str[i:index]]: offset of the first byte that is not UTF-8, if any *)
Fixpoint utf8Scan (fuel : nat) (s : list N) (i : nat) : option nat :=
  match fuel with
  | O => None
  | S f =>
    match s with
    | [] => None
    | _ => let '(bad, size) := decodeRune s in
           if bad then Some i else utf8Scan f (skipn size s) (size + i)%nat
    end
  end.

(** * Positions, tokens, options *)
Record pos := mkPos { p_line : N; p_col : N; p_slo : N; p_off : N }.
Record token := mkTok { t_type : Z; t_val : list N; t_pos : pos }.

Inductive lang := TL1 | TL2.
Record opts := mkOpts { o_builtin : bool; o_dirty : bool; o_lang : lang }.

Definition is_tl2 (o : opts) : bool := match o_lang o with TL2 => true | TL1 => false end.

Definition ty_neg (n : N) : Z := Z.opp (Z.of_N n).
Definition ty_chr (n : N) : Z := Z.of_N n.

Definition T_typesSection := ty_neg tk_typesSection_neg.
Definition T_functionsSection := ty_neg tk_functionsSection_neg.
Definition T_crc32hash := ty_neg tk_crc32hash_neg.
Definition T_annotation := ty_neg tk_annotation_neg.
Definition T_numberSign := ty_neg tk_numberSign_neg.
Definition T_number := ty_neg tk_number_neg.
Definition T_comment := ty_neg tk_comment_neg.
Definition T_undefined := ty_neg tk_undefined_neg.
Definition T_lcIdent := ty_neg tk_lcIdent_neg.
Definition T_ucIdent := ty_neg tk_ucIdent_neg.
Definition T_lcIdentNS := ty_neg tk_lcIdentNS_neg.
Definition T_ucIdentNS := ty_neg tk_ucIdentNS_neg.
Definition T_eof := ty_neg tk_eof_neg.
Definition T_functionSign := ty_neg tk_functionSign_neg.
Definition T_newLine := ty_neg tk_newLine_neg.
Definition T_tl2alias := ty_neg tk_tl2alias_neg.
Definition T_tl2depName := ty_neg tk_tl2depName_neg.
Definition T_tl2typeSign := ty_neg tk_tl2typeSign_neg.

(** error classes = the distinct messages of tllexer.go *)
Inductive ekind :=
| E_cr | E_utf8 | E_multiline | E_slash | E_underscore | E_undefined | E_modifier
| E_tag | E_number | E_namespace
| E_illegalTL1 | E_illegalTL2 | E_illegalTL2_arith | E_illegalTL2_boxed | E_illegalTL2_sections
(* messages of the TL1 parser (tlparser_code.go, tlparser_typeref.go), used by Lex/LexParse1Model.v *)
| E1_lcname | E1_ucname | E1_varname | E1_tag_conv | E1_targ_colon | E1_targ_type | E1_targ_close
| E1_rparen | E1_const_overflow | E1_arith_expected | E1_arith_overflow | E1_lsq_after_star
| E1_bitnum | E1_bitmask_conv | E1_q_after_mask | E1_field_type | E1_return_type | E1_q_in_function
| E1_eq_after_q | E1_semicolon | E1_round_not_allowed | E1_rparen_or_type | E1_comma_gt_type
| E1_gt_or_type | E1_name
(* messages of the TL2 parser (tlparser_tl2_code.go), used by Lex/LexParse2Model.v *)
| E2_type_name | E2_func_or_type | E2_semicolon | E2_uint_conv | E2_magic_zero | E2_func_magic
| E2_cant_parse_decl | E2_targ_decl | E2_targs_close | E2_wrong_brackets | E2_alias_ref
| E2_first_variant_fail | E2_first_variant_expected | E2_variant_after_bar | E2_at_least_1
| E2_one_constructor | E2_colon_after_constructor | E2_ignored_optional | E2_no_colon | E2_field_type
| E2_type_arg | E2_type_args_close | E2_sq_close | E2_array_type | E2_targ_unexpected | E2_type_category.

(** parseErrToken(err, tok, outer): Begin = tok.pos, End = tok.pos advanced by len(tok.val) *)
Record perr := mkErr { e_kind : ekind; e_tok : token; e_outer : pos }.

Definition lenN (s : list N) : N := N.of_nat (length s).

Definition e_begin (e : perr) : pos := t_pos (e_tok e).
Definition e_end (e : perr) : pos :=
  let p := t_pos (e_tok e) in
  mkPos (p_line p) (p_col p + lenN (t_val (e_tok e))) (p_slo p) (p_off p + lenN (t_val (e_tok e))).

(** * The lexer *)
Record lstate := mkL { l_str : list N; l_rtoks : list token (* newest first *); l_pos : pos }.

Inductive res (A : Type) := Ok (a : A) | Panic | NoFuel.
Arguments Ok {A}. Arguments Panic {A}. Arguments NoFuel {A}.

Definition newLexer (s : list N) : lstate := mkL s [] (mkPos 1 1 0 0).

(** = rev (l_rtoks st) ([List.rev_alt]); [rev] itself is quadratic when extracted *)
Definition l_tokens (st : lstate) : list token := rev_append (l_rtoks st) [].

(** advance(len, tokenType): [None] is Go's slice-bounds panic on l.str[:len] *)
Definition advance (n : nat) (ty : Z) (st : lstate) : option (token * lstate) :=
  if negb (lenAtLeast n (l_str st)) then None
  else
    let p := l_pos st in
    let tok := mkTok ty (firstn n (l_str st)) p in
    Some (tok, mkL (skipn n (l_str st)) (tok :: l_rtoks st)
                   (mkPos (p_line p) (p_col p + N.of_nat n) (p_slo p) (p_off p + N.of_nat n))).

(** result of one nextToken call: new state and the returned error, [None] = panic *)
Definition step := option (lstate * option perr).

Definition adv_ok (n : nat) (ty : Z) (st : lstate) : step :=
  match advance n ty st with
  | Some (_, st') => Some (st', None)
  | None => None
  end.

(** tok := l.advance(n, undefined); return parseErrToken(msg, tok, tok.pos) *)
Definition adv_err (n : nat) (k : ekind) (st : lstate) : step :=
  match advance n T_undefined st with
  | Some (tok, st') => Some (st', Some (mkErr k tok (t_pos tok)))
  | None => None
  end.

(** l.position.line++; column = 1; startLineOffset = offset *)
Definition newline_pos (st : lstate) : lstate :=
  let p := l_pos st in
  mkL (l_str st) (l_rtoks st) (mkPos (p_line p + 1) 1 (p_off p) (p_off p)).

Definition adv_newline (n : nat) (st : lstate) : step :=
  match advance n T_newLine st with
  | Some (_, st') => Some (newline_pos st', None)
  | None => None
  end.

Definition primitiveChars : list N :=
  [tk_lRoundBracket; tk_rRoundBracket; tk_lSquareBracket; tk_rSquareBracket;
   tk_lCurlyBracket; tk_rCurlyBracket; tk_rAngleBracket;
   tk_dotSign; tk_plus; tk_asterisk; tk_exclamation;
   tk_colon; tk_semiColon; tk_whiteSpace; tk_tab; tk_questionMark; tk_percentSign;
   tk_commaSign; tk_verticalBar].

Definition isPrimitive (c : N) : bool := existsb (N.eqb c) primitiveChars.

Definition lexFunctionModifier (st : lstate) : step :=
  let w := nameIdent (tl (l_str st)) in
  match w with
  | [] => adv_err (1 + length w) E_modifier st
  | w0 :: _ =>
    if negb (lowerCase w0) then adv_err (1 + length w) E_modifier st
    else adv_ok (1 + length w) T_annotation st
  end.

Definition lexSection (st : lstate) : step :=
  if hasPrefix (l_str st) tk_typesSectionString then adv_ok (length tk_typesSectionString) T_typesSection st
  else if hasPrefix (l_str st) tk_functionsSectionString then adv_ok (length tk_functionsSectionString) T_functionsSection st
  else adv_ok 1 (ty_chr 45) st.

Definition lexNumberSign (st : lstate) : step :=
  let w := takeWhile identChar (tl (l_str st)) in
  let i := (1 + length w)%nat in
  let allDigits := forallb hexChar w in
  if (i =? 1)%nat then adv_ok i T_numberSign st
  else if negb allDigits || negb (i =? 1 + 8)%nat then adv_err i E_tag st
  else adv_ok i T_crc32hash st.

Definition lexNumber (st : lstate) : step :=
  let '(n, allDigits) := numberLexeme (l_str st) in
  if negb allDigits then adv_err (length n) E_number st
  else adv_ok (length n) T_number st.

Definition lexLexeme (st : lstate) : step :=
  let s := l_str st in
  let w := nameIdent s in
  let plain (_ : unit) : step :=
    match w with
    | [] => None                                   (* w[0]: index out of range *)
    | w0 :: _ => if lowerCase w0 then adv_ok (length w) T_lcIdent st else adv_ok (length w) T_ucIdent st
    end in
  if lenAtLeast (S (length w)) s && (nth (length w) s 0 =? tk_dotSign) then
    let w2 := nameIdent (skipn (length w + 1) s) in
    match w2 with
    | [] => plain tt
    | c2 :: _ =>
      let ns := w ++ [46] in
      match ns with
      | [] => None
      | ns0 :: _ =>
        if negb (lowerCase ns0) then adv_err (length ns + length w2) E_namespace st
        else if lowerCase c2 then adv_ok (length ns + length w2) T_lcIdentNS st
        else adv_ok (length ns + length w2) T_ucIdentNS st
      end
    end
  else plain tt.

(** minimum of the three searches exactly as written in the '//' branch *)
Definition commentEnd (s : list N) : nat :=
  let index := indexCRLF s in
  let i := indexByte 13 s in
  let index := if (index <? 0)%Z || ((0 <=? i)%Z && (i <? index)%Z) then i else index in
  let i := indexByte 10 s in
  let index := if (index <? 0)%Z || ((0 <=? i)%Z && (i <? index)%Z) then i else index in
  if (index <? 0)%Z then length s else Z.to_nat index.

Definition lexSlash (st : lstate) : step :=
  let s := l_str st in
  if hasPrefix s [47; 47] then
    let index := commentEnd s in
    match utf8Scan index (firstn index s) 0 with
    | Some i =>
      match advance i T_comment st with
      | Some (_, st1) => adv_err 1 E_utf8 st1
      | None => None
      end
    | None => adv_ok index T_comment st
    end
  else if hasPrefix s [47; 42] then adv_err 2 E_multiline st
  else adv_err 1 E_slash st.

Definition lexUnderscore (o : opts) (st : lstate) : step :=
  if is_tl2 o then
    let nameAfter := nameIdent (tl (l_str st)) in
    if (length nameAfter =? 0)%nat then adv_ok 1 (ty_chr tk_underscore) st
    else adv_ok (1 + length nameAfter) T_tl2depName st
  else if o_builtin o then
    let w := builtinIdent (l_str st) in
    if list_eqb w [95] then adv_ok (length w) T_ucIdent st else adv_ok (length w) T_lcIdent st
  else if o_dirty o then adv_ok 1 T_lcIdent st
  else adv_err 1 E_underscore st.

(** nextToken, case by case, in the order of the Go switch; requires l.str != "" *)
Definition nextToken (o : opts) (st : lstate) : step :=
  match l_str st with
  | [] => None                                     (* l.str[0]: index out of range *)
  | c :: _ =>
    if isPrimitive c then adv_ok 1 (ty_chr c) st
    else if c =? 13 then
      if hasPrefix (l_str st) [13; 10] then adv_newline 2 st
      else adv_err 1 E_cr st
    else if c =? 10 then adv_newline 1 st
    else if c =? 61 then
      if hasPrefix (l_str st) [61; 62] then adv_ok 2 T_functionSign st
      else adv_ok 1 (ty_chr tk_equalSign) st
    else if c =? 60 then
      if is_tl2 o then
        if hasPrefix (l_str st) [60; 61; 62] then adv_ok 3 T_tl2alias st
        else adv_ok 1 (ty_chr tk_lAngleBracket) st
      else adv_ok 1 (ty_chr tk_lAngleBracket) st
    else if c =? 64 then lexFunctionModifier st
    else if c =? 47 then lexSlash st
    else if c =? 45 then lexSection st
    else if c =? 35 then lexNumberSign st
    else if c =? 95 then lexUnderscore o st
    else if digit c then lexNumber st
    else if letter c then
      if is_tl2 o && list_eqb (nameIdent (l_str st)) [84; 121; 112; 101] then adv_ok 4 T_tl2typeSign st
      else lexLexeme st
    else adv_err 1 E_undefined st
  end.

(** validateTokens: first illegal token for the language, with the prefix tokens[:i+1] *)
Definition illegal (lg : lang) (ty : Z) : option ekind :=
  let is (c : N) := Z.eqb ty (ty_chr c) in
  match lg with
  | TL1 => if is tk_verticalBar || is tk_underscore then Some E_illegalTL1 else None
  | TL2 =>
    if is tk_lCurlyBracket || is tk_rCurlyBracket || is tk_exclamation || is tk_lRoundBracket || is tk_rRoundBracket
    then Some E_illegalTL2
    else if is tk_plus || is tk_asterisk then Some E_illegalTL2_arith
    else if is tk_percentSign then Some E_illegalTL2_boxed
    else if Z.eqb ty T_typesSection || Z.eqb ty T_functionsSection then Some E_illegalTL2_sections
    else None
  end.

Fixpoint validateTokens (lg : lang) (toks : list token) : list token * option perr :=
  match toks with
  | [] => ([], None)
  | t :: r =>
    match illegal lg (t_type t) with
    | Some k => ([t], Some (mkErr k t (t_pos t)))
    | None => let '(p, e) := validateTokens lg r in (t :: p, e)
    end
  end.

(** generateTokens: the loop [for l.str != "" { nextToken }], then eof and validation.
    [r_toks] is the returned slice, [r_all]/[r_rest] are l.tokens / l.str afterwards
    (what recombineTokens reads). *)
Record lexres := mkRes { r_toks : list token; r_err : option perr; r_all : list token; r_rest : list N }.

Fixpoint lexLoop (fuel : nat) (o : opts) (st : lstate) : res (lstate * option perr) :=
  match l_str st with
  | [] => Ok (st, None)
  | _ :: _ =>
    match fuel with
    | O => NoFuel
    | S f =>
      match nextToken o st with
      | None => Panic
      | Some (st', Some e) => Ok (st', Some e)
      | Some (st', None) => lexLoop f o st'
      end
    end
  end.

Definition generateTokens (o : opts) (s : list N) : res lexres :=
  match lexLoop (S (length s)) o (newLexer s) with
  | Panic => Panic
  | NoFuel => NoFuel
  | Ok (st, Some e) => Ok (mkRes (l_tokens st) (Some e) (l_tokens st) (l_str st))
  | Ok (st, None) =>
    match advance 0 T_eof st with
    | None => Panic
    | Some (_, st') =>
      let '(p, e) := validateTokens (o_lang o) (l_tokens st') in
      Ok (mkRes p e (l_tokens st') (l_str st'))
    end
  end.

Definition recombineTokens (r : lexres) : list N := concat (map t_val (r_all r)) ++ r_rest r.

(** * Front end shared by ParseTLFile and ParseTL2File: tokenizer error, or the
    recombination check ([log.Panicf] on violation), then the token list for the parser *)
Inductive front :=
| F_tokerr (e : perr)          (* "tokenizer error: %w" *)
| F_tokens (toks : list token).

Definition parseFront (o : opts) (s : list N) : res front :=
  match generateTokens o s with
  | Panic => Panic
  | NoFuel => NoFuel
  | Ok r =>
    match r_err r with
    | Some e => Ok (F_tokerr e)
    | None => if list_eqb s (recombineTokens r) then Ok (F_tokens (r_toks r)) else Panic
    end
  end.

(** * ParseError.consolePrint: the [anyCorrupted] flag computed from the three positions
    and len(fileContent) (safeRange calls and the tail slice), in the order of the code.
    [false] means every slice was in range and the normal two-line message is printed. *)
Definition safeRangeBad (n b e : N) : bool := (n <? b) || (e <? b) || (n <? e).

Definition consoleCorrupted (n : N) (outer pb pe : pos) : bool :=
  let c1 := safeRangeBad n (p_slo outer) (p_slo pb) in
  let c2 := safeRangeBad n (p_slo pb) (p_slo pe) in
  let c3 := safeRangeBad n (p_slo pe) (p_off pe) in
  let c4 := if p_slo pb =? p_slo pe
            then safeRangeBad n (p_slo pb) (p_off pb) || safeRangeBad n (p_off pb) (p_off pe)
            else false in
  let c5 := n <? p_off pe in
  c1 || c2 || c3 || c4 || c5.

Definition errCorrupted (n : N) (e : perr) : bool := consoleCorrupted n (e_outer e) (e_begin e) (e_end e).

(** * Abstract parser error (level 3, see Props/C19.v): every error built by the parsers
    is [parseErrToken(msg, tok, outer)] with [tok] an element of the token slice handed
    to the parser (tok = it.front() of some iterator, or a popped token) and [outer] the
    position of an earlier (or the same) element (the first token of the combinator). *)
Definition admissibleErr (toks : list token) (e : perr) : Prop :=
  exists i j t, nth_error toks i = Some (e_tok e) /\
                (j <= i)%nat /\ nth_error toks j = Some t /\ e_outer e = t_pos t.
