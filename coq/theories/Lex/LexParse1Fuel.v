(** The fuel budget of the TL1 parser model is sufficient: [parseTokens] never answers [P_nofuel].
    Every recursive call of the parser either happens after at least one token was consumed or goes to a
    function that is strictly lower in the (acyclic) order of calls that consume nothing, so
    8 * (remaining tokens) + a small constant bounds the call depth (this is the termination argument
    of the Go recursive-descent parser: the grammar has no left recursion). *)
From Coq Require Import List NArith ZArith Bool Lia ZifyN ZifyNat ZifyBool.
From TLV Require Import Lex.LexModel Lex.LexProofs Lex.LexParse1Model Lex.LexParse1Proofs.
Import ListNotations.
Open Scope N_scope.

Section Fuel1.
Variable s : list N.
Variable ts : list token.
Hypothesis Hwf : wf_tokens s ts.

Local Notation valid := (valid ts).
Local Notation n := (lenN s).

(** remaining tokens *)
Definition mu (it : iter) : nat := length ts - i_off it.

(** result predicate: not out of fuel; on success the iterator is valid, not before [lo], and
    satisfies the progress condition [P] *)
Definition F {A : Type} (lo : nat) (P : A -> nat -> Prop) (r : pres A) : Prop :=
  match r with
  | P_ok a rest => valid rest /\ (lo <= i_off rest)%nat /\ P a (i_off rest)
  | P_nofuel => False
  | _ => True
  end.

Lemma F_conseq {A} lo lo' (P P' : A -> nat -> Prop) r :
  F lo P r -> (lo' <= lo)%nat -> (forall a off, (lo <= off)%nat -> P a off -> P' a off) -> F lo' P' r.
Proof. destruct r; cbn; auto. intros (V & L & Hp) Hl H. split; [exact V|]. split; [lia|]. apply H; assumption. Qed.

Lemma F_bind {A B} lo (P : A -> nat -> Prop) (Q : B -> nat -> Prop) (r : pres A) (f : A -> iter -> pres B) :
  F lo P r -> (forall a rest, valid rest -> (lo <= i_off rest)%nat -> P a (i_off rest) -> F lo Q (f a rest)) ->
  F lo Q (bind r f).
Proof. destruct r; cbn; auto. intros (V & L & Hp) H. apply H; assumption. Qed.

Lemma F_skip {A} lo (P : A -> nat -> Prop) it (k : iter -> pres A) : valid it ->
  (forall it', valid it' -> (i_off it <= i_off it')%nat -> F lo P (k it')) -> F lo P (skip it k).
Proof.
  intros V H. destruct (skipWS_spec s ts Hwf it V) as (it' & t & S & V' & Hle & _). unfold skip. rewrite S. auto.
Qed.

Lemma F_chk {A} lo (P : A -> nat -> Prop) i it (k : bool -> iter -> pres A) : valid it ->
  (forall b it' t, valid it' -> (i_off it <= i_off it')%nat -> front it' = Some t -> isWS (t_type t) = false ->
                   b = Z.eqb (t_type t) i -> F lo P (k b it')) ->
  F lo P (chk i it k).
Proof.
  intros V H. destruct (skipWS_spec s ts Hwf it V) as (it' & t & S & V' & Hle & _ & Fr & W).
  unfold chk, checkToken. rewrite S, Fr. eapply H; eauto.
Qed.

Lemma expect_strict i it : valid it -> i <> T_eof ->
  exists b it', expect i it = Some (b, it') /\ valid it' /\ (i_off it <= i_off it')%nat /\ (b = true -> (i_off it < i_off it')%nat).
Proof.
  intros V Hi. destruct (skipWS_spec s ts Hwf it V) as (it' & t & S & V' & Hle & _ & Fr & W).
  unfold expect, checkToken. rewrite S, Fr. destruct (Z.eqb (t_type t) i) eqn:E.
  - apply Z.eqb_eq in E. destruct (pop_valid s ts Hwf it' t V' Fr) as (it'' & P & V'' & O''); [congruence|].
    rewrite P. exists true, it''. split; [reflexivity|]. split; [exact V''|]. split; [lia|]. intros _. lia.
  - exists false, it'. split; [reflexivity|]. split; [exact V'|]. split; [exact Hle|discriminate].
Qed.

Lemma F_expc {A} lo (P : A -> nat -> Prop) i it (k : bool -> iter -> pres A) : i <> T_eof -> valid it ->
  (forall b it', valid it' -> (i_off it <= i_off it')%nat -> (b = true -> (i_off it < i_off it')%nat) -> F lo P (k b it')) ->
  F lo P (expc i it k).
Proof.
  intros Hi V H. destruct (expect_strict i it V Hi) as (b & it' & E & V' & Hle & Hs).
  unfold expc. rewrite E. apply H; assumption.
Qed.

Lemma F_expOrPanic {A} lo (P : A -> nat -> Prop) i it t (k : iter -> pres A) : valid it ->
  front it = Some t -> isWS (t_type t) = false -> true = Z.eqb (t_type t) i -> i <> T_eof ->
  (forall it', valid it' -> (i_off it < i_off it')%nat -> F lo P (k it')) ->
  F lo P (expOrPanic i it k).
Proof.
  intros V Fr W E Hi H. unfold expOrPanic, expect, checkToken. rewrite (skipWS_nonws ts it t V Fr W), Fr, <- E.
  symmetry in E. apply Z.eqb_eq in E. destruct (pop_valid s ts Hwf it t V Fr) as (it' & Pp & V' & O'); [congruence|].
  rewrite Pp. apply H; [exact V'|lia].
Qed.

Lemma F_touch {A} lo (P : A -> nat -> Prop) it (k : pres A) : F lo P k -> F lo P (touch it k).
Proof. unfold touch. destruct (front it); auto. intros _. exact I. Qed.

Lemma F_errAt {A} lo (P : A -> nat -> Prop) k it o : F lo P (errAt k it o).
Proof. unfold errAt. destruct (front it); exact I. Qed.

Lemma F_popk {A} lo (P : A -> nat -> Prop) it t (k : iter -> pres A) : valid it ->
  front it = Some t -> t_type t <> T_eof ->
  (forall it', valid it' -> (i_off it < i_off it')%nat -> F lo P (k it')) -> F lo P (popk it k).
Proof.
  intros V Fr Ht H. destruct (pop_valid s ts Hwf it t V Fr Ht) as (it' & Pp & V' & O'). unfold popk. rewrite Pp.
  apply H; [exact V'|lia].
Qed.

Lemma F_nameTok {A} lo (P : A -> nat -> Prop) r t needDot i (k : iter -> pres A) : valid r ->
  front r = Some t -> isWS (t_type t) = false -> true = Z.eqb (t_type t) i -> i <> T_eof ->
  (forall it', valid it' -> (i_off r < i_off it')%nat -> F lo P (k it')) ->
  F lo P (nameTok r needDot i k).
Proof.
  intros V Fr W E Hi H. unfold nameTok. rewrite Fr.
  destruct (needDot && negb (hasDot (t_val t))); [exact I|]. eapply F_expOrPanic; eauto.
Qed.

(** ** progress conditions *)
Definition strict {A} (base : nat) : A -> nat -> Prop := fun _ off => (base < off)%nat.
Definition strictIf (base : nat) : bool -> nat -> Prop := fun b off => (base <= off)%nat /\ (b = true -> (base < off)%nat).
Definition geP {A} (base : nat) : A -> nat -> Prop := fun _ off => (base <= off)%nat.
Definition someStrict (base : nat) : option N -> nat -> Prop := fun r off => (base <= off)%nat /\ (r <> None -> (base < off)%nat).

(** ** automation *)
Ltac noteof := let H := fresh in intros H; vm_compute in H; discriminate H.
Ltac f_norm := repeat match goal with
  | H : true = true -> _ |- _ => specialize (H eq_refl)
  | H : false = true -> _ |- _ => clear H
  | H : Some _ <> None -> _ |- _ => specialize (H ltac:(discriminate))
  | H : None <> None -> _ |- _ => clear H
  | H : _ /\ _ |- _ => destruct H
  end.
Ltac f_lia := f_norm; unfold strict, strictIf, someStrict, geP in *; f_norm; lia.
Ltac f_leaf := cbn [F]; split; [assumption|split; [f_lia|f_norm; unfold strict, strictIf, someStrict, geP in *; f_norm; first [exact I|lia|split; [lia|intros; first [discriminate|congruence|lia]]]]].
Ltac f_call := fail.
Ltac f_step :=
  match goal with
  | |- F _ _ (P_ok _ _) => f_leaf
  | |- F _ _ (errAt _ _ _) => apply F_errAt
  | |- F _ _ P_panic => exact I
  | |- F _ _ (skip _ _) => apply F_skip; [assumption|intros ? ? ?]
  | |- F _ _ (chk _ _ _) => apply F_chk; [assumption|intros ? ? ? ? ? ? ? ?]
  | |- F _ _ (expc _ _ _) => apply F_expc; [noteof|assumption|intros ? ? ? ? ?]
  | |- F _ _ (touch _ _) => apply F_touch
  | |- F _ _ (expOrPanic _ _ _) => eapply F_expOrPanic; [assumption|eassumption|eassumption|eassumption|noteof|intros ? ? ?]
  | |- F _ _ (nameTok _ _ _ _) => eapply F_nameTok; [assumption|eassumption|eassumption|eassumption|noteof|intros ? ? ?]
  | |- F _ _ (popk _ _) => eapply F_popk; [assumption|eassumption| |intros ? ? ?]
  | |- F _ _ (let _ := _ in _) => cbv zeta
  | |- F _ _ (if negb ?b then _ else _) => destruct b; cbn [negb]
  | |- F _ _ (if ?b then _ else _) => destruct b
  | |- F _ _ (bind _ _) => eapply F_bind; [|intros ? ? ? ? ?]
  | H : front ?r = Some _ |- F _ _ (match front ?r with _ => _ end) => rewrite H
  | |- F _ _ (match front ?r with _ => _ end) => destruct (front r); [|exact I]
  | |- F _ _ (match t_val ?t with _ => _ end) => destruct (t_val t); [exact I|]
  | |- F _ _ (match parseUint32 _ _ with _ => _ end) => destruct (parseUint32 _ _)
  | |- F _ _ _ => solve [f_call]
  end.
Ltac f_go := repeat f_step.


Lemma parseLCIdentNS_F lo it o : valid it -> (lo <= i_off it)%nat -> F lo (strict (i_off it)) (parseLCIdentNS it o).
Proof. intros V L. unfold parseLCIdentNS. f_go. Qed.
Lemma parseUCIdentNS_F lo it o : valid it -> (lo <= i_off it)%nat -> F lo (strict (i_off it)) (parseUCIdentNS it o).
Proof. intros V L. unfold parseUCIdentNS. f_go. Qed.
Lemma parseVarIdent_F lo it o : valid it -> (lo <= i_off it)%nat -> F lo (strict (i_off it)) (parseVarIdent it o).
Proof. intros V L. unfold parseVarIdent. f_go. Qed.
Lemma parseTypeRefAsName_F lo it o : valid it -> (lo <= i_off it)%nat -> F lo (strict (i_off it)) (parseTypeRefAsName it o).
Proof. intros V L. unfold parseTypeRefAsName. f_go. Qed.

Ltac f_call ::=
  first [apply parseLCIdentNS_F|apply parseUCIdentNS_F|apply parseVarIdent_F|apply parseTypeRefAsName_F]; [assumption|f_lia].

Lemma mu_le it it' : (i_off it <= i_off it')%nat -> (mu it' <= mu it)%nat.
Proof. unfold mu. lia. Qed.

Lemma mu_lt it it' : valid it' -> (i_off it < i_off it')%nat -> (S (mu it') <= mu it)%nat.
Proof. unfold mu. intros [_ H]. lia. Qed.

(** fuel arithmetic: relate mu of the current iterator to mu of the function's argument *)
Ltac f_mu it :=
  repeat match goal with
         | H : valid ?x |- _ => lazymatch goal with
                                | _ : (S (mu x) <= mu it)%nat |- _ => fail
                                | _ => pose proof (mu_lt it x H ltac:(f_lia))
                                end
         end;
  repeat match goal with
         | H : valid ?x |- _ => lazymatch goal with
                                | _ : (mu x <= mu it)%nat |- _ => fail
                                | _ => pose proof (mu_le it x ltac:(f_lia))
                                end
         end;
  f_lia.

(** every function below: "enough fuel for the remaining tokens => not out of fuel, and progress" *)
Lemma parseModifiers_F fuel : forall lo it o, valid it -> (lo <= i_off it)%nat -> (mu it + 1 <= fuel)%nat ->
  F lo (geP (i_off it)) (parseModifiers fuel it o).
Proof.
  induction fuel; intros lo it o V L Hf; [lia|]. cbn [parseModifiers]. f_go.
  eapply F_conseq; [apply (IHfuel lo); [assumption|f_lia|f_mu it]|lia|intros; f_lia].
Qed.

Lemma parseConstructor_F lo it o ab : valid it -> (lo <= i_off it)%nat -> F lo (strict (i_off it)) (parseConstructor it o ab).
Proof.
  intros V L. unfold parseConstructor. f_step. cbv zeta.
  assert (Htag : forall r, valid r -> (i_off it < i_off r)%nat ->
            F lo (strict (A := unit) (i_off it))
              (chk T_crc32hash r (fun b rest =>
              if negb b then P_ok tt rest
              else match front rest with
                   | None => P_panic
                   | Some t => match t_val t with
                               | [] => P_panic
                               | _ :: v => match parseUint32 16 v with
                                           | None => errAt E1_tag_conv rest o
                                           | Some _ => expOrPanic T_crc32hash rest (fun rest => touch rest (P_ok tt rest))
                                           end
                               end
                   end))).
  { intros r Vr Lr. f_go. }
  destruct ab.
  - f_step. f_step.
    + f_step. f_step. apply Htag; [assumption|f_lia].
    + f_step; [f_call|]. f_step. apply Htag; [assumption|f_lia].
  - f_step; [f_call|]. f_step. apply Htag; [assumption|f_lia].
Qed.

Lemma parseTemplateArgument_F lo it o : valid it -> (lo <= i_off it)%nat ->
  F lo (strictIf (i_off it)) (parseTemplateArgument it o).
Proof.
  intros V L. unfold parseTemplateArgument. f_step. f_step. f_step; [|f_go].
  f_step; [f_call|]. f_step. f_step; [|f_go]. cbv zeta. f_step. f_step.
  match goal with |- F _ _ (if ?c then _ else _) => destruct c eqn:Eb end.
  - apply andb_true_iff in Eb. destruct Eb as [Eb1 _]. rewrite Eb1 in *. f_go.
  - f_go.
Qed.

Lemma parseTemplateArguments_F fuel : forall lo it o, valid it -> (lo <= i_off it)%nat -> (mu it + 1 <= fuel)%nat ->
  F lo (geP (i_off it)) (parseTemplateArguments fuel it o).
Proof.
  induction fuel; intros lo it o V L Hf; [lia|]. cbn [parseTemplateArguments].
  f_step; [apply parseTemplateArgument_F; assumption|]. f_step; [|f_go].
  eapply F_conseq; [apply (IHfuel lo); [assumption|f_lia|f_mu it]|lia|intros; f_lia].
Qed.

Lemma typeDeclArgs_F fuel : forall lo it o, valid it -> (lo <= i_off it)%nat -> (mu it + 1 <= fuel)%nat ->
  F lo (geP (i_off it)) (typeDeclArgs fuel it o).
Proof.
  induction fuel; intros lo it o V L Hf; [lia|]. cbn [typeDeclArgs].
  f_step. pose proof (parseVarIdent_F lo it' o H ltac:(lia)) as HF.
  destruct (parseVarIdent it' o) as [a r'|e| |]; cbn [F] in HF; [| |exact I|contradiction].
  - destruct HF as (Vr & Lr & Hs). f_step. eapply F_conseq; [apply (IHfuel lo); [assumption|f_lia|f_mu it]|lia|intros; f_lia].
  - f_go.
Qed.

Lemma parseTypeDeclaration_F fuel lo it o : valid it -> (lo <= i_off it)%nat -> (mu it + 1 <= fuel)%nat ->
  F lo (geP (i_off it)) (parseTypeDeclaration fuel it o).
Proof.
  intros V L Hf. unfold parseTypeDeclaration. f_step. f_step; [f_call|]. f_step.
  eapply F_conseq; [apply (typeDeclArgs_F fuel lo); [assumption|f_lia|f_mu it]|lia|intros; f_lia].
Qed.

(** arithmetic: every recursive call comes after a consumed token *)
Lemma parseArithmetic_F fuel :
  (forall lo it o force, valid it -> (lo <= i_off it)%nat -> (mu it + 1 <= fuel)%nat ->
     F lo (someStrict (i_off it)) (parseArithmetic fuel it o force)) /\
  (forall lo res it o, valid it -> (lo <= i_off it)%nat -> (mu it + 1 <= fuel)%nat ->
     F lo (fun r off => r <> None /\ (i_off it <= off)%nat) (plusLoop fuel res it o)).
Proof.
  induction fuel; [split; intros; lia|]. destruct IHfuel as [IHa IHp]. split.
  - intros lo it o force V L Hf. cbn [parseArithmetic]. f_step. f_step.
    + f_step; [apply IHa; [assumption|f_lia|f_mu it]|].
      destruct a as [v|]; [|f_leaf]. f_step. f_step; [|f_go].
      eapply F_conseq; [apply (IHp lo); [assumption|f_lia|f_mu it]|lia|].
      intros ? ? ? [? ?]. unfold someStrict. split; [f_lia|intros _; f_lia].
    + f_step. f_step.
      * f_step. match goal with |- F _ _ (match ?c with _ => _ end) => destruct c end; [|f_go]. f_step.
        eapply F_conseq; [apply (IHp lo); [assumption|f_lia|f_mu it]|lia|].
        intros ? ? ? [? ?]. unfold someStrict. split; [f_lia|intros _; f_lia].
      * f_step; [f_go|]. f_leaf.
  - intros lo res it o V L Hf. cbn [plusLoop]. f_step. f_step.
    + f_step; [apply IHa; [assumption|f_lia|f_mu it]|].
      destruct a as [v2|]; [|exact I]. f_step; [f_go|].
      eapply F_conseq; [apply (IHp lo); [assumption|f_lia|f_mu it]|lia|].
      intros ? ? ? [? ?]. split; [assumption|f_lia].
    + cbn [F]. split; [assumption|]. split; [f_lia|]. split; [discriminate|f_lia].
Qed.

Lemma parseScaleFactorOpt_F fuel lo it o : valid it -> (lo <= i_off it)%nat -> (mu it + 1 <= fuel)%nat ->
  F lo (strictIf (i_off it)) (parseScaleFactorOpt fuel it o).
Proof.
  intros V L Hf. unfold parseScaleFactorOpt. f_step.
  pose proof (parseVarIdent_F lo it' o H ltac:(lia)) as HF.
  destruct (parseVarIdent it' o) as [a r'|e| |]; cbn [F] in HF; [| |exact I|contradiction].
  - destruct HF as (Vr & Lr & Hs). f_go.
  - f_step; [apply (proj1 (parseArithmetic_F fuel)); [assumption|f_lia|f_mu it]|]. destruct a; f_go.
Qed.

Lemma parseFieldMask_F lo it o : valid it -> (lo <= i_off it)%nat -> F lo (geP (i_off it)) (parseFieldMask it o).
Proof.
  intros V L. unfold parseFieldMask. f_step.
  pose proof (parseVarIdent_F lo it' o H ltac:(lia)) as HF.
  destruct (parseVarIdent it' o) as [a r'|e| |]; cbn [F] in HF; [| |exact I|contradiction].
  - destruct HF as (Vr & Lr & Hs). f_go.
  - f_go.
Qed.

Lemma parseFieldName_F lo it o : valid it -> (lo <= i_off it)%nat -> F lo (fun _ off => (i_off it <= off)%nat) (parseFieldName it o).
Proof.
  intros V L. unfold parseFieldName.
  pose proof (parseVarIdent_F lo it o V L) as HF.
  destruct (parseVarIdent it o) as [a r'|e| |]; cbn [F] in HF; [| |exact I|contradiction].
  - destruct HF as (Vr & Lr & Hs). f_go.
  - f_go.
Qed.

(** ** type references: 8 * mu + c, c ordered along the calls that consume nothing *)
Lemma typeref_F fuel :
  (forall lo it af ar o, valid it -> (lo <= i_off it)%nat -> (8 * mu it + 2 <= fuel)%nat ->
     F lo (strictIf (i_off it)) (parseTypeRef fuel it af ar o)) /\
  (forall lo it o, valid it -> (lo <= i_off it)%nat -> (8 * mu it + 4 <= fuel)%nat ->
     F lo (fun _ off => (i_off it <= off)%nat) (argsLoop fuel it o)) /\
  (forall lo it af o, valid it -> (lo <= i_off it)%nat -> (8 * mu it + 3 <= fuel)%nat ->
     F lo (strictIf (i_off it)) (parseAOT fuel it af o)) /\
  (forall lo it o, valid it -> (lo <= i_off it)%nat -> (8 * mu it + 1 <= fuel)%nat ->
     F lo (strictIf (i_off it)) (parseRound fuel it o)) /\
  (forall lo it o, valid it -> (lo <= i_off it)%nat -> (8 * mu it + 1 <= fuel)%nat ->
     F lo (strictIf (i_off it)) (parseAngle fuel it o)) /\
  (forall lo it o, valid it -> (lo <= i_off it)%nat -> (8 * mu it + 4 <= fuel)%nat ->
     F lo (fun _ off => (i_off it < off)%nat) (angleLoop fuel it o)).
Proof.
  induction fuel; [repeat split; intros; lia|].
  destruct IHfuel as (IHt & IHl & IHa & IHr & IHg & IHgl).
  split; [|split; [|split; [|split; [|split]]]].
  - intros lo it af ar o V L Hf. cbn [parseTypeRef]. f_step. f_step. f_step; [f_go|].
    f_step. f_step. f_step; [apply IHr; [assumption|f_lia|f_mu it]|].
    f_step; [f_step; f_go|].
    f_step; [apply IHg; [assumption|f_lia|f_mu it]|]. f_step; [f_go|].
    match goal with |- F _ _ (match parseTypeRefAsName ?r _ with _ => _ end) =>
      let HF := fresh "HF" in
      assert (HF : F lo (strict (i_off r)) (parseTypeRefAsName r o)) by (apply parseTypeRefAsName_F; [assumption|f_lia]);
      destruct (parseTypeRefAsName r o) as [a' r'|e| |]; cbn [F] in HF; [|f_go|exact I|contradiction];
      destruct HF as (Vr & Lr & Hs)
    end.
    f_step. destruct af; [|f_go].
    eapply F_conseq; [apply (IHl lo); [assumption|f_lia|f_mu it]|lia|]. intros. unfold strictIf. f_lia.
  - intros lo it o V L Hf. cbn [argsLoop]. f_step. f_step; [apply IHa; [assumption|f_lia|f_mu it]|].
    f_step; [|f_go]. eapply F_conseq; [apply (IHl lo); [assumption|f_lia|f_mu it]|lia|]. intros. f_lia.
  - intros lo it af o V L Hf. cbn [parseAOT]. f_step.
    f_step; [apply (proj1 (parseArithmetic_F fuel)); [assumption|f_lia|f_mu it]|].
    destruct a; [f_go|]. f_step; [apply IHt; [assumption|f_lia|f_mu it]|]. f_go.
  - intros lo it o V L Hf. cbn [parseRound]. f_step. f_step; [|f_go].
    f_step; [apply IHt; [assumption|f_lia|f_mu it]|]. f_go.
  - intros lo it o V L Hf. cbn [parseAngle].
    pose proof (parseTypeRefAsName_F lo it o V L) as HF.
    destruct (parseTypeRefAsName it o) as [a' r'|e| |]; cbn [F] in HF; [|f_go|exact I|contradiction].
    destruct HF as (Vr & Lr & Hs). f_step. f_step; [|f_go]. f_step.
    eapply F_conseq; [apply (IHgl lo); [assumption|f_lia|f_mu it]|lia|]. intros. unfold strictIf. f_lia.
  - intros lo it o V L Hf. cbn [angleLoop]. f_step; [apply IHa; [assumption|f_lia|f_mu it]|].
    f_step; [|f_go]. f_step. f_step.
    + eapply F_conseq; [apply (IHgl lo); [assumption|f_lia|f_mu it]|lia|]. intros. f_lia.
    + f_go.
Qed.

(** ** fields *)
Lemma fields_F fuel :
  (forall lo it o, valid it -> (lo <= i_off it)%nat -> (8 * mu it + 5 <= fuel)%nat ->
     F lo (strictIf (i_off it)) (parseRepeat n fuel it o)) /\
  (forall lo cs it o, valid it -> (lo <= i_off it)%nat -> (8 * mu it + 6 <= fuel)%nat ->
     F lo (strict (i_off it)) (parseField n fuel cs it o)) /\
  (forall lo cs it f1 f2 o, valid it -> (lo <= i_off it)%nat -> (8 * mu it + 7 <= fuel)%nat -> f1 <> T_eof -> f2 <> T_eof ->
     F lo (strict (i_off it)) (fieldsLoop n fuel cs it f1 f2 o)).
Proof.
  induction fuel; [repeat split; intros; lia|].
  destruct IHfuel as (IHr & IHf & IHl).
  split; [|split].
  - intros lo it o V L Hf. cbn [parseRepeat]. f_step.
    f_step; [apply parseScaleFactorOpt_F; [assumption|f_lia|f_mu it]|]. cbv zeta.
    assert (Hbody : forall r, valid r -> (i_off it < i_off r)%nat ->
              F lo (strictIf (i_off it))
                (bind (fieldsLoop n fuel r r (ty_chr tk_rSquareBracket) (ty_chr tk_rSquareBracket) o)
                      (fun _ rest => touch rest (P_ok true rest)))).
    { intros r Vr Lr. f_step; [apply IHl; [assumption|f_lia|f_mu it|noteof|noteof]|]. f_go. }
    f_step.
    + f_step. f_step; [|f_go]. f_step. f_step; [|f_go]. apply Hbody; [assumption|f_lia].
    + f_step. f_step; [|f_go]. apply Hbody; [assumption|f_lia].
  - intros lo cs it o V L Hf. cbn [parseField]. f_step.
    destruct (negb (commentBeforeOk n cs it')); [exact I|].
    f_step; [apply parseFieldName_F; [assumption|f_lia]|].
    f_step; [apply parseFieldMask_F; [assumption|f_lia]|].
    f_step. f_step; [apply IHr; [assumption|f_lia|f_mu it]|].
    f_step; [f_go|]. f_step; [apply (proj1 (typeref_F fuel)); [assumption|f_lia|f_mu it]|]. f_go.
  - intros lo cs it f1 f2 o V L Hf Hf1 Hf2. cbn [fieldsLoop].
    f_step. f_step.
    { f_step; [eapply eqb_type_ne; eassumption|]. f_go. }
    f_step. f_step.
    { f_step; [eapply eqb_type_ne; eassumption|]. f_go. }
    f_step; [apply IHf; [assumption|f_lia|f_mu it]|]. cbv zeta.
    match goal with Vr : valid ?r |- F _ _ (let '(_, _) := skipToNewline ?r in _) =>
      destruct (skipToNewline_spec s ts Hwf r Vr) as (V' & L' & W'); destruct (skipToNewline r) as [nl r2]; cbn [snd] in *
    end.
    destruct (nl && negb (sliceOk n rest r2)); [exact I|].
    eapply F_conseq; [apply (IHl lo); [assumption|f_lia|f_mu it|assumption|assumption]|lia|]. intros. f_lia.
Qed.

Lemma parseFuncDecl_F fuel lo it o : valid it -> (lo <= i_off it)%nat -> (8 * mu it + 2 <= fuel)%nat ->
  F lo (fun _ off => (i_off it <= off)%nat) (parseFuncDecl fuel it o).
Proof.
  intros V L Hf. unfold parseFuncDecl. f_step; [apply (proj1 (typeref_F fuel)); [assumption|f_lia|f_mu it]|]. f_go.
Qed.

(** ** combinators and the file loop *)
Lemma parseCombinator_F fuel cs it isF ab : valid it -> (8 * mu it + 7 <= fuel)%nat ->
  F (i_off it) (strict (i_off it)) (parseCombinator n fuel cs it isF ab).
Proof.
  intros V Hf. unfold parseCombinator. f_step. destruct (front it') as [t0|]; [|exact I].
  destruct (negb (commentBeforeOk n cs it')); [exact I|].
  f_step; [apply parseModifiers_F; [assumption|f_lia|f_mu it]|].
  f_step; [apply parseConstructor_F; [assumption|f_lia]|].
  f_step. f_step; [apply parseTemplateArguments_F; [assumption|f_lia|f_mu it]|]. f_step. cbv zeta.
  assert (Htail : forall (isF' : bool) (r : iter), valid r -> (i_off it < i_off r)%nat ->
            F (i_off it) (strict (A := unit) (i_off it))
              (bind (if isF' then parseFuncDecl fuel r (t_pos t0) else parseTypeDeclaration fuel r (t_pos t0)) (fun _ rest =>
               expc (ty_chr tk_semiColon) rest (fun b rest =>
                 if negb b then errAt E1_semicolon rest (t_pos t0)
                 else
                   let commentStart := rest in
                   let '(nl, rest) := skipToNewline rest in
                   if nl && negb (sliceOk n commentStart rest) then P_panic
                   else touch rest (P_ok tt rest))))).
  { intros isF' r Vr Lr. f_step.
    { destruct isF'.
      - eapply F_conseq; [apply (parseFuncDecl_F fuel (i_off it)); [assumption|f_lia|f_mu it]|lia|]. intros ? ? ? HH. exact HH.
      - eapply F_conseq; [apply (parseTypeDeclaration_F fuel (i_off it)); [assumption|f_lia|f_mu it]|lia|].
        intros ? ? ? HH. exact HH. }
    f_step. f_step; [|f_go]. cbv zeta.
    match goal with Vr' : valid ?x |- F _ _ (let '(_, _) := skipToNewline ?x in _) =>
      destruct (skipToNewline_spec s ts Hwf x Vr') as (V' & L' & W'); destruct (skipToNewline x) as [nl r2]; cbn [snd] in *
    end.
    match goal with |- F _ _ (if ?c then _ else _) => destruct c end; [exact I|]. f_go. }
  f_step. f_step.
  - f_step; [f_go|]. f_step. f_step. f_step; [|f_go]. apply (Htail false); [assumption|f_lia].
  - f_step; [apply (proj2 (proj2 (fields_F fuel))); [assumption|f_lia|f_mu it|noteof|noteof]|].
    apply Htail; [assumption|f_lia].
Qed.

Lemma tlLoop_F cfuel ab fuel : forall cs it fs, valid it -> (mu it + 1 <= fuel)%nat -> (8 * length ts + 7 <= cfuel)%nat ->
  tlLoop n fuel cfuel ab cs it fs <> P_nofuel.
Proof.
  induction fuel; intros cs it fs V Hf Hc; [lia|]. cbn [tlLoop].
  destruct (skipWS_spec s ts Hwf it V) as (rest & t & S & V' & Hle & _ & Fr & W).
  unfold chk, checkToken. rewrite S, Fr.
  destruct (Z.eqb (t_type t) T_eof) eqn:Ee.
  - destruct (sliceOk n cs rest); discriminate.
  - rewrite Fr. destruct (Z.eqb (t_type t) T_typesSection || Z.eqb (t_type t) T_functionsSection).
    + destruct (negb (sliceOk n cs rest)); [discriminate|].
      destruct (pop_valid s ts Hwf rest t V' Fr) as (r2 & P & V2 & O2); [apply Z.eqb_neq; exact Ee|].
      unfold popk. rewrite P. apply IHfuel; [assumption| |assumption].
      pose proof (mu_lt it r2 V2 ltac:(lia)). lia.
    + assert (HC : F (i_off rest) (strict (i_off rest)) (parseCombinator n cfuel cs rest fs ab)).
      { apply parseCombinator_F; [assumption|]. unfold mu. lia. }
      destruct (parseCombinator n cfuel cs rest fs ab) as [a r2|e| |]; cbn [bind F] in *; try discriminate; [|contradiction].
      destruct HC as (V2 & L2 & S2). unfold strict in S2. unfold touch. destruct (front cs); [|discriminate].
      apply IHfuel; [assumption| |assumption]. pose proof (mu_lt it r2 V2 ltac:(lia)). lia.
Qed.

Theorem parseTokens_fuel ab : parseTokens n ab ts <> P_nofuel.
Proof.
  unfold parseTokens. apply tlLoop_F.
  - split; [reflexivity|]. cbn. destruct (wf_eof _ _ Hwf) as (init & eoft & -> & _). rewrite app_length. simpl. lia.
  - unfold mu. cbn. lia.
  - unfold parseFuel. lia.
Qed.

End Fuel1.

(** * ParseTLFile always terminates within its budget *)
Theorem parseTLFile_fuel o s : parseTLFile o s <> PR_nofuel.
Proof.
  unfold parseTLFile. destruct (front_total o s) as [[e F0]|[toks F0]]; rewrite F0; [discriminate|].
  pose proof (parseTokens_fuel s toks (front_tokens_wf o s toks F0) (o_builtin o)) as H.
  destruct (parseTokens (lenN s) (o_builtin o) toks); try discriminate. contradiction.
Qed.

(** tokenizer + parser model: terminates, never panics, every error in range *)
Theorem parseTLFile_total o s :
  match parseTLFile o s with
  | PR_ok => True
  | PR_err _ e => err_in_range s e
  | PR_panic => False
  | PR_nofuel => False
  end.
Proof.
  pose proof (parseTLFile_safe o s) as H. pose proof (parseTLFile_fuel o s) as Hf.
  destruct (parseTLFile o s); auto.
Qed.
