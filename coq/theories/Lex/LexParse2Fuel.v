(** The fuel budget of the TL2 parser model is sufficient: [parseTokens2] never answers [T_nofuel].
    Same argument as Lex/LexParse1Fuel.v: every recursive call or loop iteration comes after a consumed
    token, or goes down the acyclic order Type -> TypeApplication / BracketType, TypeArgument -> Type of
    calls that consume nothing.  Only offsets matter here (panics are excluded in LexParse2Proofs.v), so
    iterators are only required to be suffixes of the token list. *)
From Coq Require Import List NArith ZArith Bool Lia ZifyN ZifyNat ZifyBool.
From TLV Require Import Lex.LexModel Lex.LexProofs Lex.LexParse1Model Lex.LexParse2Model Lex.LexParse2Proofs.
Import ListNotations.
Open Scope N_scope.

Section Fuel2.
Variable ts : list token.
Variable n : N.

(** a suffix of the token list (possibly the empty one) *)
Definition wvalid (it : iter) : Prop := i_rest it = skipn (i_off it) ts /\ (i_off it <= length ts)%nat.
Definition mu (it : iter) : nat := length ts - i_off it.

Definition G {A : Type} (lo : nat) (P : ostate -> nat -> Prop) (r : t2 A) : Prop :=
  match r with
  | T_ok st rest _ => wvalid rest /\ (lo <= i_off rest)%nat /\ P st (i_off rest)
  | T_panic => True
  | T_nofuel => False
  end.

Lemma G_conseq {A} lo lo' (P P' : ostate -> nat -> Prop) (r : t2 A) :
  G lo P r -> (lo' <= lo)%nat -> (forall st off, (lo <= off)%nat -> P st off -> P' st off) -> G lo' P' r.
Proof. destruct r; cbn; auto. intros (V & L & Hp) Hl H. split; [exact V|]. split; [lia|]. apply H; assumption. Qed.

Lemma G_tbind {A B} lo (P Q : ostate -> nat -> Prop) (r : t2 A) (f : ostate -> iter -> A -> t2 B) :
  G lo P r -> (forall st rest a, wvalid rest -> (lo <= i_off rest)%nat -> P st (i_off rest) -> G lo Q (f st rest a)) ->
  G lo Q (tbind r f).
Proof. destruct r; cbn; auto. intros (V & L & Hp) H. apply H; assumption. Qed.

Lemma skipn_cons_S (l : list token) : forall k t r, skipn k l = t :: r -> skipn (S k) l = r /\ (k < length l)%nat.
Proof.
  induction l; intros k t r H; [destruct k; discriminate|].
  destruct k; simpl in *; [inversion H; split; [reflexivity|lia]|].
  destruct (IHl _ _ _ H). split; [assumption|lia].
Qed.

Lemma wvalid_pop it t r : wvalid it -> i_rest it = t :: r -> wvalid (mkIt (S (i_off it)) r) /\ (i_off it < length ts)%nat.
Proof.
  intros [V1 V2] E. rewrite E in V1. symmetry in V1. destruct (skipn_cons_S _ _ _ _ V1) as [H1 H2].
  split; [split; cbn; [symmetry; exact H1|lia]|exact H2].
Qed.

Lemma skipWS_w : forall l off it', wvalid (mkIt off l) -> skipWS_l off l = Some it' -> wvalid it' /\ (off <= i_off it')%nat.
Proof.
  induction l as [|t r IH]; intros off it' V E; cbn in E; [discriminate|].
  destruct (isWS (t_type t)).
  - destruct (wvalid_pop _ t r V eq_refl) as [V' _]. cbn [i_off] in V'.
    destruct (IH _ _ V' E) as [V'' L]. split; [exact V''|lia].
  - inversion E; subst. split; [exact V|cbn; lia].
Qed.

Lemma skipWS_wv it it' : wvalid it -> skipWS it = Some it' -> wvalid it' /\ (i_off it <= i_off it')%nat.
Proof. destruct it as [off l]. unfold skipWS. cbn [i_off i_rest]. apply skipWS_w. Qed.

Lemma skipToNewline_w : forall l off, wvalid (mkIt off l) ->
  wvalid (snd (skipToNewline_l off l)) /\ (off <= i_off (snd (skipToNewline_l off l)))%nat.
Proof.
  induction l as [|t r IH]; intros off V; cbn [skipToNewline_l]; [split; [exact V|cbn; lia]|].
  destruct (Z.eqb (t_type t) T_comment || Z.eqb (t_type t) (ty_chr tk_whiteSpace) || Z.eqb (t_type t) (ty_chr tk_tab)).
  - destruct (wvalid_pop _ t r V eq_refl) as [V' _]. cbn [i_off] in V'. destruct (IH _ V') as [V'' L]. split; [exact V''|lia].
  - destruct (Z.eqb (t_type t) T_newLine || Z.eqb (t_type t) T_eof); cbn [snd i_off]; split; auto.
Qed.

Lemma skipToNewline_wv it : wvalid it -> wvalid (snd (skipToNewline it)) /\ (i_off it <= i_off (snd (skipToNewline it)))%nat.
Proof. destruct it as [off l]. unfold skipToNewline. cbn [i_off i_rest]. apply skipToNewline_w. Qed.

Lemma G_sk {A} lo P it (k : iter -> t2 A) : wvalid it ->
  (forall it', wvalid it' -> (i_off it <= i_off it')%nat -> G lo P (k it')) -> G lo P (sk it k).
Proof.
  intros V H. unfold sk. destruct (skipWS it) as [it'|] eqn:E; [|exact I].
  destruct (skipWS_wv it it' V E). auto.
Qed.

Lemma G_ck {A} lo P i it (k : bool -> iter -> t2 A) : wvalid it ->
  (forall b it', wvalid it' -> (i_off it <= i_off it')%nat -> G lo P (k b it')) -> G lo P (ck i it k).
Proof.
  intros V H. unfold ck, checkToken. destruct (skipWS it) as [it'|] eqn:E; [|exact I].
  destruct (skipWS_wv it it' V E). destruct (front it'); [|exact I]. auto.
Qed.

Lemma expect_w i it b it' : wvalid it -> expect i it = Some (b, it') ->
  wvalid it' /\ (i_off it <= i_off it')%nat /\ (b = true -> (i_off it < i_off it')%nat).
Proof.
  intros V. unfold expect, checkToken. destruct (skipWS it) as [it1|] eqn:E; [|discriminate].
  destruct (skipWS_wv it it1 V E) as [V1 L1]. destruct (front it1) as [t|]; [|discriminate].
  destruct (Z.eqb (t_type t) i).
  - unfold popFront. destruct (i_rest it1) as [|t' r] eqn:Er; [discriminate|]. intros H. inversion H; subst.
    destruct (wvalid_pop it1 t' r V1 Er) as [V2 _]. split; [exact V2|]. cbn [i_off]. split; [lia|]. intros _. lia.
  - intros H. inversion H; subst. split; [exact V1|]. split; [exact L1|discriminate].
Qed.

Lemma G_ex {A} lo P i it (k : bool -> iter -> t2 A) : wvalid it ->
  (forall b it', wvalid it' -> (i_off it <= i_off it')%nat -> (b = true -> (i_off it < i_off it')%nat) -> G lo P (k b it')) ->
  G lo P (ex i it k).
Proof.
  intros V H. unfold ex. destruct (expect i it) as [[b it']|] eqn:E; [|exact I].
  destruct (expect_w i it b it' V E) as (V' & L' & S'). auto.
Qed.

Lemma G_exLazy {A} lo P i it (k : bool -> iter -> t2 A) : wvalid it ->
  (forall it', wvalid it' -> (i_off it < i_off it')%nat -> G lo P (k true it')) -> G lo P (k false it) ->
  G lo P (exLazy i it k).
Proof.
  intros V H1 H2. unfold exLazy. destruct (expect i it) as [[b it']|] eqn:E; [|exact I].
  destruct (expect_w i it b it' V E) as (V' & L' & S'). destruct b; [apply H1; auto|exact H2].
Qed.

Lemma G_fr {A} lo P it (k : token -> t2 A) : (forall t, G lo P (k t)) -> G lo P (fr it k).
Proof. intros H. unfold fr. destruct (front it); [apply H|exact I]. Qed.

Lemma G_er {A} lo P kind it o (k : perr -> t2 A) : (forall e, G lo P (k e)) -> G lo P (er kind it o k).
Proof. intros H. unfold er. destruct (front it); [apply H|exact I]. Qed.

Lemma G_pop {A} lo P it (k : token -> iter -> t2 A) : wvalid it ->
  (forall t it', wvalid it' -> (i_off it < i_off it')%nat -> G lo P (k t it')) -> G lo P (pop it k).
Proof.
  intros V H. unfold pop, popFront. destruct (i_rest it) as [|t r] eqn:E; [exact I|].
  destruct (wvalid_pop it t r V E) as [V' _]. apply H; [exact V'|cbn; lia].
Qed.

Lemma mu_le it it' : (i_off it <= i_off it')%nat -> (mu it' <= mu it)%nat.
Proof. unfold mu. lia. Qed.
Lemma mu_lt it it' : wvalid it' -> (i_off it < i_off it')%nat -> (S (mu it') <= mu it)%nat.
Proof. unfold mu. intros [_ H]. lia. Qed.

(** ** progress conditions and automation *)
Definition ge (base : nat) : ostate -> nat -> Prop := fun _ off => (base <= off)%nat.
(** StartProcessing => at least one token consumed *)
Definition spStrict (base : nat) : ostate -> nat -> Prop := fun st off => (base <= off)%nat /\ (sp st = true -> (base < off)%nat).

Ltac g_norm := repeat match goal with
  | H : true = true -> _ |- _ => specialize (H eq_refl)
  | H : false = true -> _ |- _ => clear H
  | H : _ /\ _ |- _ => destruct H
  end.
Ltac g_lia := g_norm; unfold ge, spStrict in *; cbn [sp oerr] in *; g_norm; lia.
Ltac g_mu it :=
  repeat match goal with
         | H : wvalid ?x |- _ => lazymatch goal with
                                 | _ : (S (mu x) <= mu it)%nat |- _ => fail
                                 | _ => pose proof (mu_lt it x H ltac:(g_lia))
                                 end
         end;
  repeat match goal with
         | H : wvalid ?x |- _ => lazymatch goal with
                                 | _ : (mu x <= mu it)%nat |- _ => fail
                                 | _ => pose proof (mu_le it x ltac:(g_lia))
                                 end
         end;
  g_lia.
Ltac g_leaf := cbn [G]; split; [assumption|split; [g_lia|g_norm; unfold ge, spStrict in *; cbn [sp oerr inherit failWith] in *; g_norm;
                 first [exact I|lia|split; [lia|intros; first [discriminate|lia]]]]].
Ltac g_call := fail.
Ltac g_step :=
  match goal with
  | |- G _ _ (if negb true then _ else _) => cbn [negb]; cbv iota beta
  | |- G _ _ (if negb false then _ else _) => cbn [negb]; cbv iota beta
  | |- G _ _ (if true then _ else _) => cbv iota beta
  | |- G _ _ (if false then _ else _) => cbv iota beta
  | |- G _ _ T_panic => exact I
  | |- G _ _ (T_ok _ (if ?c then _ else _) _) => destruct c eqn:?
  | |- G _ _ (T_ok _ _ _) => g_leaf
  | |- G _ _ (sk _ _) => apply G_sk; [assumption|intros ? ? ?]
  | |- G _ _ (ck2 _ _ _ _) => unfold ck2
  | |- G _ _ (ck _ _ _) => apply G_ck; [assumption|intros ? ? ? ?]
  | |- G _ _ (ex _ _ _) => apply G_ex; [assumption|intros ? ? ? ? ?]
  | |- G _ _ (exLazy _ _ _) => apply G_exLazy; [assumption|intros ? ? ?; cbv beta|cbv beta]
  | |- G _ _ (fr _ _) => apply G_fr; intros ?
  | |- G _ _ (pop _ _) => apply G_pop; [assumption|intros ? ? ? ?]
  | |- G _ _ (er _ _ _ _) => apply G_er; intros ?
  | |- G _ _ (tbind _ _) => eapply G_tbind; [|intros ? ? ? ? ? ?]
  | |- G _ _ (let '(_, _) := expectProgress ?a ?e in _) => destruct (expectProgress a e) as [? ?] eqn:?
  | Vr : wvalid ?r |- G _ _ (let '(_, _) := skipToNewline ?r in _) =>
      destruct (skipToNewline_wv r Vr) as (? & ?); destruct (skipToNewline r) as [? ?]; cbn [snd] in *
  | |- G _ _ (let _ := _ in _) => cbv zeta beta
  | |- G _ _ (match t_val ?t with _ => _ end) => destruct (t_val t)
  | |- G _ _ (match parseUint32 _ _ with _ => _ end) => destruct (parseUint32 _ _)
  | |- G _ _ (if negb ?b then _ else _) => destruct b eqn:?; cbn [negb]
  | |- G _ _ (if ?b then _ else _) => destruct b eqn:?
  | |- G _ _ _ => solve [g_call]
  end.
Ltac g_go := repeat g_step.

Lemma parseTL2TypeName_G lo it : wvalid it -> (lo <= i_off it)%nat -> G lo (spStrict (i_off it)) (parseTL2TypeName it).
Proof. intros V L. unfold parseTL2TypeName. cbv zeta. g_go. Qed.

Lemma parseTL2Annotation_G lo it : wvalid it -> (lo <= i_off it)%nat -> G lo (spStrict (i_off it)) (parseTL2Annotation it).
Proof. intros V L. unfold parseTL2Annotation. g_go. Qed.

(** zeroOrMore: each iteration that continues has consumed a token *)
Lemma zeroOrMore_G lo parser base :
  (forall it, wvalid it -> (base <= i_off it)%nat -> G lo (spStrict (i_off it)) (parser it)) ->
  forall fuel spAcc it, wvalid it -> (lo <= i_off it)%nat -> (base <= i_off it)%nat -> (mu it + 1 <= fuel)%nat ->
    G lo (ge (i_off it)) (zeroOrMore fuel parser spAcc it).
Proof.
  intros Hp. induction fuel; intros spAcc it V L Lb Hf; [lia|]. cbn [zeroOrMore].
  g_step; [apply Hp; assumption|]. cbv zeta. g_step; [|g_go].
  unfold hasProgress in *.
  match goal with E : (sp ?st && noErr ?st) = true |- _ => apply andb_true_iff in E; destruct E as [Esp _] end.
  eapply G_conseq; [apply (IHfuel _ rest); [assumption|g_lia|g_lia|g_mu it]|lia|intros; g_lia].
Qed.

Lemma crcPart_G {A} lo P rt o st (k : iter -> t2 A) (fail : ostate -> iter -> t2 A) : wvalid rt ->
  (forall rt', wvalid rt' -> (i_off rt < i_off rt')%nat -> G lo P (k rt')) ->
  (forall st' rt', wvalid rt' -> (i_off rt < i_off rt')%nat -> G lo P (fail st' rt')) ->
  G lo P (crcPart rt o st k fail).
Proof.
  intros V Hk Hf. unfold crcPart. g_step. g_step. g_step; [exact I|]. g_step.
  - g_step; [apply Hf; [assumption|g_lia]|]. g_step. apply Hk; [assumption|g_lia].
  - apply Hf; [assumption|g_lia].
Qed.

(** ** type references *)
Lemma type2_G fuel :
  (forall lo it o, wvalid it -> (lo <= i_off it)%nat -> (8 * mu it + 2 <= fuel)%nat -> G lo (ge (i_off it)) (parseTL2Type fuel it o)) /\
  (forall lo it o, wvalid it -> (lo <= i_off it)%nat -> (8 * mu it + 1 <= fuel)%nat -> G lo (ge (i_off it)) (parseTL2TypeApplication fuel it o)) /\
  (forall lo st it o, wvalid it -> (lo <= i_off it)%nat -> (8 * mu it + 4 <= fuel)%nat -> G lo (ge (i_off it)) (typeArgsLoop fuel st it o)) /\
  (forall lo it o, wvalid it -> (lo <= i_off it)%nat -> (8 * mu it + 1 <= fuel)%nat -> G lo (ge (i_off it)) (parseTL2BracketType fuel it o)) /\
  (forall lo it o, wvalid it -> (lo <= i_off it)%nat -> (8 * mu it + 3 <= fuel)%nat -> G lo (ge (i_off it)) (parseTL2TypeArgument fuel it o)).
Proof.
  induction fuel; [repeat split; intros; lia|].
  destruct IHfuel as (IHt & IHa & IHl & IHb & IHg).
  split; [|split; [|split; [|split]]].
  - intros lo it o V L Hf. cbn [parseTL2Type]. g_step.
    g_step; [apply IHa; [assumption|g_lia|g_mu it]|].
    g_step; [g_go|]. g_step; [apply IHb; [assumption|g_lia|g_mu it]|]. g_go.
  - intros lo it o V L Hf. cbn [parseTL2TypeApplication]. g_step.
    g_step; [apply parseTL2TypeName_G; [assumption|g_lia]|]. g_step; [|g_go].
    g_step. g_step; [|g_go]. g_step. g_step; [apply IHg; [assumption|g_lia|g_mu it]|].
    g_step. g_step. g_step; [|g_go].
    eapply G_conseq; [apply (IHl lo); [assumption|g_lia|g_mu it]|lia|intros; g_lia].
  - intros lo st it o V L Hf. cbn [typeArgsLoop]. g_step. g_step.
    + g_step; [apply IHg; [assumption|g_lia|g_mu it]|]. g_step. g_step. g_step; [|g_go].
      eapply G_conseq; [apply (IHl lo); [assumption|g_lia|g_mu it]|lia|intros; g_lia].
    + g_go.
  - intros lo it o V L Hf. cbn [parseTL2BracketType]. g_step. g_step; [|g_go]. g_step. cbv zeta.
    g_step; [apply IHg; [assumption|g_lia|g_mu it]|]. g_step; [|g_go]. g_step. g_step; [|g_go].
    g_step; [apply IHt; [assumption|g_lia|g_mu it]|]. g_go.
  - intros lo it o V L Hf. cbn [parseTL2TypeArgument]. g_step. g_step. g_step.
    + g_step. cbv zeta. g_step. g_leaf.
    + g_step; [apply IHt; [assumption|g_lia|g_mu it]|]. g_go.
Qed.

Ltac g_call ::=
  first [apply (proj1 (type2_G _))|apply parseTL2TypeName_G|apply parseTL2Annotation_G]; [assumption|g_lia|..].

(** ** fields *)
Lemma fieldRet_G lo tokens st rt : wvalid tokens -> (lo <= i_off tokens)%nat -> wvalid rt -> (i_off tokens < i_off rt)%nat ->
  G lo (spStrict (i_off tokens)) (fieldRet tokens st rt).
Proof. intros. unfold fieldRet. g_go. Qed.

Lemma fieldFin_G lo tokens st rt : wvalid tokens -> (lo <= i_off tokens)%nat -> wvalid rt -> (i_off tokens < i_off rt)%nat ->
  G lo (spStrict (i_off tokens)) (fieldFin tokens st rt).
Proof. intros. unfold fieldFin. g_step. apply fieldRet_G; assumption. Qed.

Lemma fieldAfterQ_G fuel lo o tokens st rt : wvalid tokens -> (lo <= i_off tokens)%nat -> wvalid rt -> (i_off tokens < i_off rt)%nat ->
  (8 * mu tokens + 2 <= fuel)%nat -> G lo (spStrict (i_off tokens)) (fieldAfterQ n fuel o tokens st rt).
Proof.
  intros Vt Lt V L Hf. unfold fieldAfterQ. g_step. g_step.
  - cbv zeta. g_step; [apply (proj1 (type2_G fuel)); [assumption|g_lia|g_mu tokens]|]. g_step. g_step. g_step.
    + g_step. g_step; [exact I|]. apply fieldFin_G; try assumption; g_lia.
    + apply fieldRet_G; try assumption; g_lia.
  - g_step.
    + g_step. apply fieldFin_G; try assumption; g_lia.
    + apply fieldFin_G; try assumption; g_lia.
Qed.

Lemma fieldNamed_G fuel lo o tokens rt : wvalid tokens -> (lo <= i_off tokens)%nat -> wvalid rt -> (i_off tokens <= i_off rt)%nat ->
  (8 * mu tokens + 2 <= fuel)%nat -> G lo (spStrict (i_off tokens)) (fieldNamed n fuel o tokens rt).
Proof.
  intros Vt Lt V L Hf. unfold fieldNamed. g_step. g_step. cbv zeta. g_step. g_step. g_step.
  - g_step.
    + g_step. apply fieldFin_G; try assumption; g_lia.
    + apply fieldAfterQ_G; try assumption; g_lia.
  - apply fieldAfterQ_G; try assumption; g_lia.
Qed.

Lemma parseTL2Field_G fuel lo o it : wvalid it -> (lo <= i_off it)%nat -> (8 * mu it + 2 <= fuel)%nat ->
  G lo (spStrict (i_off it)) (parseTL2Field n fuel o it).
Proof.
  intros V L Hf. unfold parseTL2Field. g_step. g_step; [|exact I].
  g_step. g_step; [apply fieldNamed_G; try assumption; g_lia|].
  g_step. g_step; [apply fieldNamed_G; try assumption; g_lia|].
  g_step. g_step; [apply fieldNamed_G; try assumption; g_lia|].
  g_step. g_step; [apply fieldNamed_G; try assumption; g_lia|].
  unfold fieldFin, fieldRet. g_go.
Qed.

Lemma fields_G fuel lo o it : wvalid it -> (lo <= i_off it)%nat -> (8 * mu it + 2 <= fuel)%nat ->
  G lo (ge (i_off it)) (zeroOrMore fuel (parseTL2Field n fuel o) false it).
Proof.
  intros V L Hf. apply (zeroOrMore_G lo _ (i_off it)); try assumption; try lia.
  intros it' V' L'. eapply G_conseq; [apply (parseTL2Field_G fuel lo); [assumption|lia|]|lia|auto].
  pose proof (mu_le it it' L'). lia.
Qed.

Lemma annotations_G fuel lo it : wvalid it -> (lo <= i_off it)%nat -> (mu it + 1 <= fuel)%nat ->
  G lo (ge (i_off it)) (zeroOrMore fuel parseTL2Annotation false it).
Proof.
  intros V L Hf. apply (zeroOrMore_G lo _ (i_off it)); try assumption; try lia.
  intros it' V' L'. apply parseTL2Annotation_G; [assumption|lia].
Qed.

(** ** unions, struct definitions *)
Lemma ctorNamed_G fuel lo o rt : wvalid rt -> (lo <= i_off rt)%nat -> (8 * mu rt + 2 <= fuel)%nat ->
  G lo (ge (i_off rt)) (ctorNamed n fuel o rt).
Proof.
  intros V L Hf. unfold ctorNamed. cbv zeta. g_step. g_step. g_step.
  match goal with |- G _ _ (ck2 _ _ _ ?K) => set (K0 := K) end.
  assert (HK : forall b r, G lo (ge (i_off rt)) (K0 b r)).
  { intros b r. subst K0. cbv beta. g_step; [g_go|].
    g_step; [apply fields_G; [assumption|g_lia|g_mu rt]|]. g_step; [g_go|].
    g_step; [apply (proj1 (type2_G fuel)); [assumption|g_lia|g_mu rt]|]. g_step; [|g_go].
    unfold ck2. g_step. g_step; [g_go|]. g_step. g_go. }
  unfold ck2. g_step. g_step; [apply HK|]. g_step. apply HK.
Qed.

Lemma parseTL2UnionConstructor_G fuel lo o it : wvalid it -> (lo <= i_off it)%nat -> (8 * mu it + 2 <= fuel)%nat ->
  G lo (ge (i_off it)) (parseTL2UnionConstructor n fuel it o).
Proof.
  intros V L Hf. unfold parseTL2UnionConstructor. g_step.
  assert (HC : forall r, wvalid r -> (i_off it <= i_off r)%nat -> G lo (ge (i_off it)) (ctorNamed n fuel o r)).
  { intros r Vr Lr. eapply G_conseq; [apply (ctorNamed_G fuel lo); [assumption|lia|]|lia|intros; g_lia].
    pose proof (mu_le it r Lr). lia. }
  g_step. g_step; [apply HC; [assumption|lia]|].
  g_step. g_step; [apply HC; [assumption|lia]|].
  g_step. g_step; [apply HC; [assumption|lia]|]. g_go.
Qed.

Lemma unionLoop_G cfuel lo o isMono base fuel : forall st it variants, wvalid it -> (lo <= i_off it)%nat -> (base <= i_off it)%nat ->
  (mu it + 1 <= fuel)%nat -> (8 * mu it + 2 <= cfuel)%nat ->
  G lo (ge base) (unionLoop n fuel cfuel st it o variants isMono).
Proof.
  induction fuel; intros st it variants V L Lb Hf Hc; [lia|]. cbn [unionLoop]. cbv zeta.
  g_step. g_step. g_step.
  - g_step; [|exact I]. g_step; [apply parseTL2UnionConstructor_G; [assumption|g_lia|g_mu it]|].
    g_step. g_step. g_step; [|g_go].
    eapply G_conseq; [apply (IHfuel _ rest); [assumption|g_lia|g_lia|g_mu it|g_mu it]|lia|intros; g_lia].
  - g_go.
Qed.

Lemma parseTL2UnionType_G fuel lo o it : wvalid it -> (lo <= i_off it)%nat -> (8 * mu it + 2 <= fuel)%nat ->
  G lo (ge (i_off it)) (parseTL2UnionType n fuel it o).
Proof.
  intros V L Hf. unfold parseTL2UnionType. cbv zeta. g_step. g_step; [|exact I]. g_step. cbv zeta.
  g_step; [apply parseTL2UnionConstructor_G; [assumption|g_lia|g_mu it]|].
  g_step; [g_go|]. g_step; [g_go|]. g_step; [|g_go].
  g_step; [apply (unionLoop_G fuel lo o _ (i_off it)); [assumption|g_lia|g_lia|g_mu it|g_mu it]|]. g_go.
Qed.

Lemma parseTL2StructTypeDefinition_G fuel lo o it : wvalid it -> (lo <= i_off it)%nat -> (8 * mu it + 2 <= fuel)%nat ->
  G lo (ge (i_off it)) (parseTL2StructTypeDefinition n fuel it o).
Proof.
  intros V L Hf. unfold parseTL2StructTypeDefinition. cbv zeta. g_step.
  g_step; [apply parseTL2UnionType_G; assumption|]. g_step; [g_go|]. g_step; [g_go|].
  g_step; [apply fields_G; assumption|]. g_go.
Qed.

(** ** declarations *)
Lemma parseTL2TypeArgumentDeclaration_G lo it o : wvalid it -> (lo <= i_off it)%nat ->
  G lo (ge (i_off it)) (parseTL2TypeArgumentDeclaration it o).
Proof.
  intros V L. unfold parseTL2TypeArgumentDeclaration, targNamed, targCategory. g_go.
Qed.

Lemma templateArgsLoop_G lo o base k :
  (forall st rt, wvalid rt -> (lo <= i_off rt)%nat -> (base <= i_off rt)%nat -> G lo (ge base) (k st rt)) ->
  forall fuel st it, wvalid it -> (lo <= i_off it)%nat -> (base <= i_off it)%nat -> (mu it + 1 <= fuel)%nat ->
    G lo (ge base) (templateArgsLoop fuel st it o k).
Proof.
  intros Hk. induction fuel; intros st it V L Lb Hf; [lia|]. cbn [templateArgsLoop].
  g_step. g_step.
  - g_step; [apply parseTL2TypeArgumentDeclaration_G; [assumption|g_lia]|]. g_step. g_step. g_step; [|g_go].
    apply IHfuel; [assumption|g_lia|g_lia|g_mu it].
  - g_step. g_step; [|g_go]. apply Hk; [assumption|g_lia|g_lia].
Qed.

Lemma tdDefn_G fuel lo o isAlias st rt : wvalid rt -> (lo <= i_off rt)%nat -> (8 * mu rt + 2 <= fuel)%nat ->
  G lo (ge (i_off rt)) (tdDefn n fuel o isAlias st rt).
Proof.
  intros V L Hf. unfold tdDefn. destruct isAlias.
  - g_step; [apply (proj1 (type2_G fuel)); [assumption|g_lia|g_mu rt]|]. g_go.
  - g_step; [apply parseTL2StructTypeDefinition_G; assumption|]. g_go.
Qed.

Lemma tdBody_G fuel lo o tokens st rt : wvalid tokens -> (lo <= i_off tokens)%nat -> wvalid rt -> (i_off tokens <= i_off rt)%nat ->
  (8 * mu tokens + 2 <= fuel)%nat -> G lo (ge (i_off tokens)) (tdBody n fuel o tokens st rt).
Proof.
  intros Vt Lt V L Hf. unfold tdBody.
  assert (HD : forall a st' r, wvalid r -> (i_off tokens <= i_off r)%nat -> G lo (ge (i_off tokens)) (tdDefn n fuel o a st' r)).
  { intros a st' r Vr Lr. eapply G_conseq; [apply (tdDefn_G fuel lo); [assumption|lia|]|lia|intros; g_lia].
    pose proof (mu_le tokens r Lr). lia. }
  g_step. g_step; [apply HD; [assumption|g_lia]|].
  g_step. g_step; [apply HD; [assumption|g_lia]|]. g_go.
Qed.

Lemma tdGenerics_G fuel lo o tokens st rt : wvalid tokens -> (lo <= i_off tokens)%nat -> wvalid rt -> (i_off tokens <= i_off rt)%nat ->
  (8 * mu tokens + 2 <= fuel)%nat -> G lo (ge (i_off tokens)) (tdGenerics n fuel o tokens st rt).
Proof.
  intros Vt Lt V L Hf. unfold tdGenerics. g_step. g_step.
  - cbv zeta. g_step; [apply parseTL2TypeArgumentDeclaration_G; [assumption|g_lia]|]. g_step. g_step. g_step; [|g_go].
    apply (templateArgsLoop_G lo o (i_off tokens)); [|assumption|g_lia|g_lia|g_mu tokens].
    intros. apply tdBody_G; assumption.
  - cbv zeta beta. g_step. g_step; [g_go|]. g_step. g_step; [g_go|]. g_step. g_step; [g_go|].
    apply tdBody_G; try assumption; g_lia.
Qed.

Lemma parseTL2TypeDeclarationWithoutName_G fuel lo o it : wvalid it -> (lo <= i_off it)%nat -> (8 * mu it + 2 <= fuel)%nat ->
  G lo (ge (i_off it)) (parseTL2TypeDeclarationWithoutName n fuel it o).
Proof.
  intros V L Hf. unfold parseTL2TypeDeclarationWithoutName. g_step. g_step. g_step.
  - apply crcPart_G; [assumption| |].
    + intros. apply tdGenerics_G; try assumption; g_lia.
    + intros. g_go.
  - apply tdGenerics_G; try assumption; g_lia.
Qed.

Lemma parseTL2FuncDeclarationWithoutName_G fuel lo o it : wvalid it -> (lo <= i_off it)%nat -> (8 * mu it + 2 <= fuel)%nat ->
  G lo (ge (i_off it)) (parseTL2FuncDeclarationWithoutName n fuel it o).
Proof.
  intros V L Hf. unfold parseTL2FuncDeclarationWithoutName. g_step. g_step. g_step; [|g_go].
  apply crcPart_G; [assumption| |intros; g_go].
  intros rt' Vr Lr. g_step; [apply fields_G; [assumption|g_lia|g_mu it]|]. g_step; [g_go|].
  g_step. g_step; [|g_go]. cbv zeta. g_step. g_step.
  - g_step. g_step; [apply (proj1 (type2_G fuel)); [assumption|g_lia|g_mu it]|]. g_go.
  - g_step; [apply parseTL2StructTypeDefinition_G; [assumption|g_lia|g_mu it]|]. g_step; [g_go|].
    g_step; [apply (proj1 (type2_G fuel)); [assumption|g_lia|g_mu it]|]. g_go.
Qed.

Lemma combTail_G lo o base st rest : wvalid rest -> (lo <= i_off rest)%nat -> (base <= i_off rest)%nat ->
  G lo (ge base) (combTail o st rest).
Proof. intros V L Lb. unfold combTail. g_go. Qed.

(** a combinator that ends without error has consumed at least its name *)
Definition okStrict (base : nat) : ostate -> nat -> Prop := fun st off => oerr st = None -> (base < off)%nat.

Lemma parseTL2Combinator_G fuel it : wvalid it -> (8 * mu it + 2 <= fuel)%nat ->
  G (i_off it) (okStrict (i_off it)) (parseTL2Combinator n fuel it).
Proof.
  intros V Hf. unfold parseTL2Combinator. g_step. g_step. cbv zeta. g_step; [|exact I].
  g_step; [apply annotations_G; [assumption|g_lia|g_mu it]|].
  destruct (oerr st) eqn:Eo.
  { cbn [G]. split; [assumption|]. split; [g_lia|]. unfold okStrict. rewrite Eo. discriminate. }
  g_step. g_step; [apply parseTL2TypeName_G; [assumption|g_lia]|]. g_step. g_step.
  match goal with |- G _ _ (let '(_, _) := expectProgress ?a ?e in _) => destruct (expectProgress a e) as [okp st1] eqn:EP end.
  destruct okp; cbn [negb].
  2:{ cbn [G]. split; [assumption|]. split; [g_lia|]. unfold okStrict, expectProgress in *. intros HN. exfalso.
      destruct st0 as [sp0 [e0|]]; destruct sp0; cbn in EP; inversion EP; subst st1; cbn in HN; discriminate. }
  (* the type name was parsed: at least one token consumed *)
  assert (Hstrict : (i_off it < i_off rest0)%nat).
  { unfold expectProgress in EP. destruct (hasProgress st0) eqn:HP; [|discriminate].
    unfold hasProgress in HP. apply andb_true_iff in HP. destruct HP as [HP _]. g_lia. }
  g_step.
  { apply parseTL2TypeDeclarationWithoutName_G; [assumption|g_lia|g_mu it]. }
  assert (HT : forall st' r, wvalid r -> (i_off rest0 <= i_off r)%nat -> G (i_off it) (okStrict (i_off it)) (combTail (t_pos t) st' r)).
  { intros st' r Vr Lr. eapply G_conseq; [apply (combTail_G (i_off it) _ (i_off rest0)); [assumption|lia|lia]|lia|].
    intros ? ? ? HH. unfold okStrict, ge in *. intros _. lia. }
  g_step.
  - apply HT; [assumption|g_lia].
  - g_step; [apply parseTL2FuncDeclarationWithoutName_G; [assumption|g_lia|g_mu it]|].
    g_step; [apply HT; [assumption|g_lia]|]. g_step. apply HT; [assumption|g_lia].
Qed.

Lemma tl2Loop_G cfuel fuel : forall it, wvalid it -> (mu it + 1 <= fuel)%nat -> (8 * length ts + 2 <= cfuel)%nat ->
  tl2Loop n fuel cfuel it <> T_nofuel.
Proof.
  induction fuel; intros it V Hf Hc; [lia|]. cbn [tl2Loop].
  unfold exLazy. destruct (expect T_eof it) as [[[] it']|]; try discriminate.
  pose proof (parseTL2Combinator_G cfuel it V) as HC.
  destruct (parseTL2Combinator n cfuel it) as [st it2 a| |]; cbn [tbind G] in *; try discriminate.
  - destruct HC as (V2 & L2 & S2); [unfold mu; lia|]. destruct (oerr st) eqn:Eo; [discriminate|].
    apply IHfuel; [assumption| |assumption]. unfold okStrict in S2. pose proof (mu_lt it it2 V2 (S2 Eo)). lia.
  - exfalso. apply HC. unfold mu. lia.
Qed.

Theorem parseTokens2_fuel : parseTokens2 n ts <> T_nofuel.
Proof.
  unfold parseTokens2. apply tl2Loop_G.
  - split; [reflexivity|cbn; lia].
  - unfold mu. cbn. lia.
  - unfold parseFuel. lia.
Qed.

End Fuel2.

(** * ParseTL2File always terminates within its budget *)
Theorem parseTL2File_fuel o s : parseTL2File o s <> PR_nofuel.
Proof.
  unfold parseTL2File. destruct (LexProofs.front_total o s) as [[e F0]|[toks F0]]; rewrite F0; [discriminate|].
  pose proof (parseTokens2_fuel toks (lenN s)) as H.
  destruct (parseTokens2 (lenN s) toks) as [st r a| |]; try discriminate; [|contradiction].
  destruct (oerr st); discriminate.
Qed.

(** tokenizer + parser model: terminates, never panics, every error in range *)
Theorem parseTL2File_total o s :
  match parseTL2File o s with
  | PR_ok => True
  | PR_err _ e => err_in_range s e
  | PR_panic => False
  | PR_nofuel => False
  end.
Proof.
  pose proof (parseTL2File_safe o s) as H. pose proof (parseTL2File_fuel o s) as Hf.
  destruct (parseTL2File o s); auto.
Qed.
