(** Proofs about the TL2 parser model (Lex/LexParse2Model.v): on the token list produced by the
    tokenizer, for every fuel, the parser never reaches a panic and every error it records in an
    OptionalState is located at a token of the list with the first token of the combinator as outer
    context ([admissibleErr]).  Reuses the iterator lemmas of Lex/LexParse1Proofs.v. *)
From Coq Require Import List NArith ZArith Bool Lia ZifyN ZifyNat ZifyBool.
From TLV Require Import Lex.LexModel Lex.LexProofs Lex.LexParse1Model Lex.LexParse1Proofs Lex.LexParse2Model.
Import ListNotations.
Open Scope N_scope.

Section WithTokens2.
Variable s : list N.
Variable ts : list token.
Hypothesis Hwf : wf_tokens s ts.

Local Notation valid := (valid ts).
Local Notation n := (lenN s).

(** an error located at a token with index >= lo, outer position o *)
Definition errOk (lo : nat) (o : pos) (e : perr) : Prop :=
  e_outer e = o /\ exists i, (lo <= i)%nat /\ nth_error ts i = Some (e_tok e).

Definition stOk (lo : nat) (o : pos) (st : ostate) : Prop :=
  match oerr st with None => True | Some e => errOk lo o e end.

Definition Q {A : Type} (lo : nat) (o : pos) (r : t2 A) : Prop :=
  match r with
  | T_ok st rest _ => valid rest /\ (lo <= i_off rest)%nat /\ stOk lo o st
  | T_panic => False
  | T_nofuel => True
  end.

Lemma stOk_none lo o b : stOk lo o (mkSt b None).
Proof. exact I. Qed.

Lemma stOk_sp lo o b st : stOk lo o st -> stOk lo o (mkSt b (oerr st)).
Proof. unfold stOk. cbn. auto. Qed.

Lemma stOk_inherit lo o a b : stOk lo o a -> stOk lo o b -> stOk lo o (inherit a b).
Proof. unfold stOk, inherit. cbn. destruct (oerr a); auto. Qed.

Lemma stOk_failWith lo o a e : stOk lo o a -> errOk lo o e -> stOk lo o (failWith a e).
Proof. unfold stOk, failWith. cbn. destruct (oerr a); auto. Qed.

Lemma stOk_expectProgress lo o a e : stOk lo o a -> errOk lo o e -> stOk lo o (snd (expectProgress a e)).
Proof.
  intros Ha He. unfold expectProgress. destruct (hasProgress a); cbn [snd]; [exact Ha|].
  destruct (isOmitted a); [apply stOk_failWith; assumption|exact Ha].
Qed.

Lemma stOk_err lo o b e : errOk lo o e -> stOk lo o (mkSt b (Some e)).
Proof. unfold stOk. cbn. auto. Qed.

(** ** combinator lemmas *)
Lemma Q_tbind {A B} lo o (r : t2 A) (f : ostate -> iter -> A -> t2 B) :
  Q lo o r -> (forall st rest a, r = T_ok st rest a -> valid rest -> (lo <= i_off rest)%nat -> stOk lo o st -> Q lo o (f st rest a)) ->
  Q lo o (tbind r f).
Proof. destruct r; cbn; auto. intros (V & L & S) H. apply H; auto. Qed.

Lemma Q_sk {A} lo o it (k : iter -> t2 A) : valid it -> (lo <= i_off it)%nat ->
  (forall it' t, valid it' -> (i_off it <= i_off it')%nat -> ws_range ts (i_off it) (i_off it') ->
                 front it' = Some t -> isWS (t_type t) = false -> Q lo o (k it')) ->
  Q lo o (sk it k).
Proof.
  intros V L H. destruct (skipWS_spec s ts Hwf it V) as (it' & t & S & V' & Hle & Hws & F & W).
  unfold sk. rewrite S. eapply H; eauto.
Qed.

(** skipWS on an iterator that already stands on a non-white token *)
Lemma Q_sk_same {A} lo o it t (k : iter -> t2 A) : valid it -> front it = Some t -> isWS (t_type t) = false ->
  Q lo o (k it) -> Q lo o (sk it k).
Proof. intros V F W H. unfold sk. rewrite (skipWS_nonws ts it t V F W). exact H. Qed.

Lemma Q_ck {A} lo o i it (k : bool -> iter -> t2 A) : valid it -> (lo <= i_off it)%nat ->
  (forall b it' t, valid it' -> (i_off it <= i_off it')%nat -> ws_range ts (i_off it) (i_off it') ->
                   front it' = Some t -> isWS (t_type t) = false -> b = Z.eqb (t_type t) i -> Q lo o (k b it')) ->
  Q lo o (ck i it k).
Proof.
  intros V L H. destruct (skipWS_spec s ts Hwf it V) as (it' & t & S & V' & Hle & Hws & F & W).
  unfold ck, checkToken. rewrite S, F. eapply H; eauto.
Qed.

Lemma Q_ex {A} lo o i it (k : bool -> iter -> t2 A) : i <> T_eof -> valid it -> (lo <= i_off it)%nat ->
  (forall b it', valid it' -> (i_off it <= i_off it')%nat -> Q lo o (k b it')) ->
  Q lo o (ex i it k).
Proof.
  intros Hi V L H. destruct (expect_spec s ts Hwf i it V Hi) as (b & it' & E & V' & Hle & _).
  unfold ex. rewrite E. apply H; assumption.
Qed.

Lemma Q_exLazy {A} lo o i it (k : bool -> iter -> t2 A) : i <> T_eof -> valid it -> (lo <= i_off it)%nat ->
  (forall b it', valid it' -> (i_off it <= i_off it')%nat -> Q lo o (k b it')) ->
  Q lo o (exLazy i it k).
Proof.
  intros Hi V L H. destruct (expect_spec s ts Hwf i it V Hi) as (b & it' & E & V' & Hle & _).
  unfold exLazy. rewrite E. destruct b; apply H; auto.
Qed.

Lemma Q_fr {A} lo o it (k : token -> t2 A) : valid it ->
  (forall t, front it = Some t -> nth_error ts (i_off it) = Some t -> Q lo o (k t)) -> Q lo o (fr it k).
Proof. intros V H. destruct (valid_front ts it V) as (t & r & _ & Hn & F). unfold fr. rewrite F. apply H; assumption. Qed.

Lemma Q_pop {A} lo o it t (k : token -> iter -> t2 A) : valid it -> (lo <= i_off it)%nat ->
  front it = Some t -> t_type t <> T_eof ->
  (forall it', valid it' -> i_off it' = S (i_off it) -> nth_error ts (i_off it) = Some t -> t_val t <> [] -> Q lo o (k t it')) ->
  Q lo o (pop it k).
Proof.
  intros V L F Ht H. destruct (pop_valid s ts Hwf it t V F Ht) as (it' & P & V' & O'). unfold pop. rewrite P.
  destruct (valid_front ts it V) as (t' & r & _ & Hn & F'). rewrite F in F'. inversion F'; subst t'.
  apply H; auto. exact (front_nonempty s ts Hwf it t V F Ht).
Qed.

Lemma Q_er {A} lo o kind it (k : perr -> t2 A) : valid it -> (lo <= i_off it)%nat ->
  (forall e, errOk lo o e -> Q lo o (k e)) -> Q lo o (er kind it o k).
Proof.
  intros V L H. destruct (valid_front ts it V) as (t & r & _ & Hn & F). unfold er. rewrite F. apply H.
  split; [reflexivity|]. exists (i_off it). auto.
Qed.

Lemma errOk_tok lo o kind i t : (lo <= i)%nat -> nth_error ts i = Some t -> errOk lo o (mkErr kind t o).
Proof. intros L H. split; [reflexivity|]. exists i. auto. Qed.

(** a token with a non-empty value is not the final eof, so it can be popped *)
Lemma Q_pop_val {A} lo o it t (k : token -> iter -> t2 A) : valid it -> (lo <= i_off it)%nat ->
  front it = Some t -> t_val t <> [] ->
  (forall it', valid it' -> i_off it' = S (i_off it) -> Q lo o (k t it')) ->
  Q lo o (pop it k).
Proof.
  intros V L F Hv H. destruct (valid_front ts it V) as (t' & r & E & Hn & F'). rewrite F in F'. inversion F'; subst t'.
  destruct (wf_eof _ _ Hwf) as (init & eoft & Ets & _ & _).
  pose proof (wf_eof_val _ _ Hwf init eoft Ets) as Hev.
  assert (Hlast : (S (i_off it) < length ts)%nat).
  { assert (Hlt : (i_off it < length ts)%nat) by (apply nth_error_Some; congruence).
    rewrite Ets in Hn, Hlt |- *. rewrite app_length in *. simpl in *.
    destruct (Nat.eq_dec (i_off it) (length init)) as [Hd|Hd]; [|lia].
    exfalso. rewrite Hd, nth_error_app2, Nat.sub_diag in Hn by lia. simpl in Hn. inversion Hn; subst t.
    apply Hv. exact Hev. }
  unfold pop, popFront. rewrite E. apply H; [|reflexivity].
  split; cbn [i_off i_rest]; [|exact Hlast].
  destruct V as [V1 _]. rewrite E in V1. symmetry in V1. destruct (skipn_nth_cons _ _ _ _ V1) as [_ H2]. auto.
Qed.

(** ** automation *)
Ltac noteof := let H := fresh in intros H; vm_compute in H; discriminate H.
Ltac type_ne :=
  match goal with
  | E : true = Z.eqb (t_type ?t) ?i |- t_type ?t <> T_eof => apply (eqb_type_ne t i E); noteof
  end.
Hint Resolve stOk_none stOk_sp stOk_inherit stOk_failWith stOk_err : stdb.
Hint Extern 1 (errOk _ _ (mkErr _ _ _)) => (eapply errOk_tok; [|eassumption]; lia) : stdb.
Ltac q_st := solve [eauto 8 with stdb].
Ltac q_call := fail.
Ltac q_step :=
  match goal with
  | |- Q _ _ (T_ok _ _ _) => cbn [Q]; split; [assumption|split; [lia|q_st]]
  | |- Q _ _ T_nofuel => exact I
  | |- Q _ _ (sk _ _) => first [eapply Q_sk_same; [assumption|eassumption|eassumption|]
                               |apply Q_sk; [assumption|lia|intros ? ? ? ? ? ? ?]]
  | |- Q _ _ (ck2 _ _ _ _) => unfold ck2
  | |- Q _ _ (ck _ _ _) => apply Q_ck; [assumption|lia|intros ? ? ? ? ? ? ? ? ?]
  | |- Q _ _ (ex _ _ _) => apply Q_ex; [noteof|assumption|lia|intros ? ? ? ?]
  | |- Q _ _ (exLazy _ _ _) => apply Q_exLazy; [noteof|assumption|lia|intros ? ? ? ?]
  | |- Q _ _ (fr _ _) => apply Q_fr; [assumption|intros ? ? ?]
  | |- Q _ _ (pop _ _) => eapply Q_pop; [assumption|lia|eassumption|type_ne|intros ? ? ? ? ?]
  | |- Q _ _ (er _ _ _ _) => apply Q_er; [assumption|lia|intros ? ?]
  | |- Q _ _ (tbind _ _) => eapply Q_tbind; [|intros ? ? ? ? ? ? ?]
  | |- Q ?lo ?o (let '(_, _) := expectProgress ?a ?e in _) =>
      let H := fresh "Hep" in
      assert (H : stOk lo o (snd (expectProgress a e))) by (apply stOk_expectProgress; [q_st|q_st]);
      destruct (expectProgress a e) as [? ?]; cbn [snd] in H
  | |- Q _ _ (let _ := _ in _) => cbv zeta
  | H : t_val ?t <> [] |- Q _ _ (match t_val ?t with _ => _ end) =>
      let E := fresh in destruct (t_val t) eqn:E; [exfalso; apply H; reflexivity|]
  | |- Q _ _ (match parseUint32 _ _ with _ => _ end) => destruct (parseUint32 _ _)
  | |- Q _ _ (if negb ?b then _ else _) => destruct b; cbn [negb]
  | |- Q _ _ (if ?b then _ else _) => destruct b eqn:?
  | |- Q _ _ _ => solve [q_call]
  end.
Ltac q_go := repeat q_step.

Lemma parseTL2TypeName_Q lo o it : valid it -> (lo <= i_off it)%nat -> Q lo o (parseTL2TypeName it).
Proof.
  intros V L. unfold parseTL2TypeName. cbv zeta.
  q_step. q_step; [q_go|]. q_step. q_step; [q_go|].
  q_step. q_step.
  - q_step. rewrite (ns_hasDot s ts Hwf it'1 t1); [q_go|assumption|assumption|].
    unfold nsb. match goal with E : true = Z.eqb _ _ |- _ => rewrite <- E end. reflexivity.
  - q_step. q_step; [|q_go].
    q_step. rewrite (ns_hasDot s ts Hwf it'2 t2); [q_go|assumption|assumption|].
    unfold nsb. match goal with E : true = Z.eqb (t_type t2) _ |- _ => rewrite <- E end. apply orb_true_r.
Qed.

Lemma parseTL2Annotation_Q lo o it : valid it -> (lo <= i_off it)%nat -> Q lo o (parseTL2Annotation it).
Proof. intros V L. unfold parseTL2Annotation. q_go. Qed.

Lemma zeroOrMore_Q lo o parser :
  (forall it, valid it -> (lo <= i_off it)%nat -> Q lo o (parser it)) ->
  forall fuel spAcc it, valid it -> (lo <= i_off it)%nat -> Q lo o (zeroOrMore fuel parser spAcc it).
Proof.
  intros Hp. induction fuel; intros spAcc it V L; cbn [zeroOrMore]; [exact I|].
  q_step; [apply Hp; assumption|]. cbv zeta. q_step; [apply IHfuel; [assumption|lia]|q_go].
Qed.

Lemma crcPart_Q {A} lo o rt t st (k : iter -> t2 A) (fail : ostate -> iter -> t2 A) :
  valid rt -> (lo <= i_off rt)%nat -> front rt = Some t -> isWS (t_type t) = false ->
  true = Z.eqb (t_type t) T_crc32hash -> stOk lo o st ->
  (forall rt', valid rt' -> (i_off rt <= i_off rt')%nat -> Q lo o (k rt')) ->
  (forall st' rt', valid rt' -> (i_off rt <= i_off rt')%nat -> stOk lo o st' -> Q lo o (fail st' rt')) ->
  Q lo o (crcPart rt o st k fail).
Proof.
  intros V L F W E S Hk Hf. unfold crcPart. q_step. q_step. q_step. q_step.
  - q_step.
    + apply Hf; [assumption|lia|q_st].
    + q_step. apply Hk; [assumption|lia].
  - apply Hf; [assumption|lia|q_st].
Qed.

(** ** type references *)
Lemma type2_Q fuel :
  (forall lo o it, valid it -> (lo <= i_off it)%nat -> Q lo o (parseTL2Type fuel it o)) /\
  (forall lo o it, valid it -> (lo <= i_off it)%nat -> Q lo o (parseTL2TypeApplication fuel it o)) /\
  (forall lo o st it, valid it -> (lo <= i_off it)%nat -> stOk lo o st -> Q lo o (typeArgsLoop fuel st it o)) /\
  (forall lo o it, valid it -> (lo <= i_off it)%nat -> Q lo o (parseTL2BracketType fuel it o)) /\
  (forall lo o it, valid it -> (lo <= i_off it)%nat -> Q lo o (parseTL2TypeArgument fuel it o)).
Proof.
  induction fuel; [repeat split; intros; exact I|].
  destruct IHfuel as (IHt & IHa & IHl & IHb & IHg).
  split; [|split; [|split; [|split]]].
  - intros lo o it V L. cbn [parseTL2Type]. q_step. q_step; [apply IHa; [assumption|lia]|].
    q_step; [q_go|]. q_step; [apply IHb; [assumption|lia]|]. q_go.
  - intros lo o it V L. cbn [parseTL2TypeApplication]. q_step.
    q_step; [apply parseTL2TypeName_Q; assumption|]. q_step; [|q_go].
    q_step. q_step. q_step; [|q_go]. q_step; [apply IHg; [assumption|lia]|].
    q_step. q_step. q_step; [apply IHl; [assumption|lia|assumption]|q_go].
  - intros lo o st it V L S. cbn [typeArgsLoop]. q_step. q_step.
    + q_step; [apply IHg; [assumption|lia]|]. q_step. q_step. q_step; [apply IHl; [assumption|lia|assumption]|q_go].
    + q_go.
  - intros lo o it V L. cbn [parseTL2BracketType]. q_step. q_step. q_step; [|q_go]. cbv zeta.
    q_step; [apply IHg; [assumption|lia]|]. q_step; [|q_go]. q_step. q_step; [|q_go].
    q_step; [apply IHt; [assumption|lia]|]. q_go.
  - intros lo o it V L. cbn [parseTL2TypeArgument]. q_step. q_step. q_step.
    + q_step. cbv zeta. q_step. cbn [Q]. split; [assumption|]. split; [lia|].
      match goal with |- stOk _ _ (match ?c with _ => _ end) => destruct c end; q_st.
    + q_step; [apply IHt; [assumption|lia]|]. q_go.
Qed.

(** ** fields, union constructors *)
Ltac q_step ::=
  match goal with
  | |- Q _ _ (if negb true then _ else _) => cbn [negb]; cbv iota beta
  | |- Q _ _ (if negb false then _ else _) => cbn [negb]; cbv iota beta
  | |- Q _ _ (if true then _ else _) => cbv iota beta
  | |- Q _ _ (if false then _ else _) => cbv iota beta
  | |- Q _ _ (T_ok _ (if ?c then _ else _) _) => destruct c
  | |- Q _ _ (T_ok _ _ _) => cbn [Q]; split; [assumption|split; [lia|q_st]]
  | |- Q _ _ T_nofuel => exact I
  | |- Q _ _ (if negb (commentBeforeOk _ ?a ?b) then _ else _) =>
      rewrite (commentBeforeOk_true s ts Hwf a b) by (assumption || lia); cbn [negb]
  | Vr : valid ?r |- Q _ _ (let '(_, _) := skipToNewline ?r in _) =>
      destruct (skipToNewline_spec s ts Hwf r Vr) as (? & ? & ?); destruct (skipToNewline r) as [? ?]; cbn [snd] in *;
      rewrite (sliceOk_true s ts Hwf) by (assumption || lia); cbn [negb]; rewrite andb_false_r
  | |- Q _ _ (sk _ _) => first [eapply Q_sk_same; [assumption|eassumption|eassumption|]
                               |apply Q_sk; [assumption|lia|intros ? ? ? ? ? ? ?]]
  | |- Q _ _ (ck2 _ _ _ _) => unfold ck2
  | |- Q _ _ (ck _ _ _) => apply Q_ck; [assumption|lia|intros ? ? ? ? ? ? ? ? ?]
  | |- Q _ _ (ex _ _ _) => apply Q_ex; [noteof|assumption|lia|intros ? ? ? ?]
  | |- Q _ _ (exLazy _ _ _) => apply Q_exLazy; [noteof|assumption|lia|intros ? ? ? ?]
  | |- Q _ _ (fr _ _) => apply Q_fr; [assumption|intros ? ? ?]
  | |- Q _ _ (pop _ _) => eapply Q_pop; [assumption|lia|eassumption|type_ne|intros ? ? ? ? ?]
  | |- Q _ _ (er _ _ _ _) => apply Q_er; [assumption|lia|intros ? ?]
  | |- Q _ _ (tbind _ _) => eapply Q_tbind; [|intros ? ? ? ? ? ? ?]
  | |- Q ?lo ?o (let '(_, _) := expectProgress ?a ?e in _) =>
      let H := fresh "Hep" in
      assert (H : stOk lo o (snd (expectProgress a e))) by (apply stOk_expectProgress; [q_st|q_st]);
      destruct (expectProgress a e) as [? ?]; cbn [snd] in H
  | |- Q _ _ (let _ := _ in _) => cbv zeta beta
  | H : t_val ?t <> [] |- Q _ _ (match t_val ?t with _ => _ end) =>
      let E := fresh in destruct (t_val t) eqn:E; [exfalso; apply H; reflexivity|]
  | |- Q _ _ (match parseUint32 _ _ with _ => _ end) => destruct (parseUint32 _ _)
  | |- Q _ _ (if negb ?b then _ else _) => destruct b; cbn [negb]
  | |- Q _ _ (if ?b then _ else _) => destruct b eqn:?
  | |- Q _ _ _ => solve [q_call]
  end.

Ltac q_call ::=
  first [apply (proj1 (type2_Q _))|apply parseTL2TypeName_Q|apply parseTL2Annotation_Q]; [assumption|lia].

Lemma fieldRet_Q lo o tokens st rt : valid tokens -> (lo <= i_off tokens)%nat -> valid rt -> (lo <= i_off rt)%nat ->
  stOk lo o st -> Q lo o (fieldRet tokens st rt).
Proof. intros. unfold fieldRet. q_go. Qed.

Lemma fieldFin_Q lo o tokens st rt : valid tokens -> (lo <= i_off tokens)%nat -> valid rt -> (lo <= i_off rt)%nat ->
  stOk lo o st -> Q lo o (fieldFin tokens st rt).
Proof. intros. unfold fieldFin. q_step. apply fieldRet_Q; assumption. Qed.

Lemma fieldAfterQ_Q fuel lo o tokens st rt : valid tokens -> (lo <= i_off tokens)%nat -> valid rt -> (lo <= i_off rt)%nat ->
  stOk lo o st -> Q lo o (fieldAfterQ n fuel o tokens st rt).
Proof.
  intros Vt Lt V L S. unfold fieldAfterQ. q_step. q_step.
  - cbv zeta. q_step; [q_call|]. q_step. q_step. q_step.
    + q_step. apply fieldFin_Q; try assumption; try lia; q_st.
    + apply fieldRet_Q; try assumption; try lia; q_st.
  - q_step.
    + q_step. apply fieldFin_Q; try assumption; try lia; q_st.
    + apply fieldFin_Q; try assumption; try lia; q_st.
Qed.

Lemma fieldNamed_Q fuel lo o tokens rt t i : valid tokens -> (lo <= i_off tokens)%nat -> valid rt -> (lo <= i_off rt)%nat ->
  front rt = Some t -> isWS (t_type t) = false -> true = Z.eqb (t_type t) i -> i <> T_eof ->
  Q lo o (fieldNamed n fuel o tokens rt).
Proof.
  intros Vt Lt V L F W E Hi. unfold fieldNamed. q_step.
  eapply Q_pop; [assumption|lia|eassumption|apply (eqb_type_ne t i E Hi)|intros ? ? ? ? ?].
  cbv zeta. q_step. q_step. q_step.
  - q_step.
    + q_step. apply fieldFin_Q; try assumption; try lia; q_st.
    + apply fieldAfterQ_Q; try assumption; try lia; q_st.
  - apply fieldAfterQ_Q; try assumption; try lia; q_st.
Qed.

Lemma parseTL2Field_Q fuel lo o it : valid it -> (lo <= i_off it)%nat -> Q lo o (parseTL2Field n fuel o it).
Proof.
  intros V L. unfold parseTL2Field. q_step. q_step.
  q_step. q_step; [eapply fieldNamed_Q; try eassumption; try lia; noteof|].
  q_step. q_step; [eapply fieldNamed_Q; try eassumption; try lia; noteof|].
  q_step. q_step; [eapply fieldNamed_Q; try eassumption; try lia; noteof|].
  q_step. q_step; [eapply fieldNamed_Q; try eassumption; try lia; noteof|].
  apply fieldFin_Q; try assumption; try lia; q_st.
Qed.

(** ** unions, struct definitions *)
Lemma fields_Q fuel lo o it : valid it -> (lo <= i_off it)%nat ->
  Q lo o (zeroOrMore fuel (parseTL2Field n fuel o) false it).
Proof. intros V L. apply zeroOrMore_Q; [|assumption|assumption]. intros. apply parseTL2Field_Q; assumption. Qed.

Lemma ctorNamed_Q fuel lo o rt t i : valid rt -> (lo <= i_off rt)%nat ->
  front rt = Some t -> isWS (t_type t) = false -> true = Z.eqb (t_type t) i -> i <> T_eof ->
  Q lo o (ctorNamed n fuel o rt).
Proof.
  intros V L F W E Hi. unfold ctorNamed. cbv zeta. q_step.
  eapply Q_pop; [assumption|lia|eassumption|apply (eqb_type_ne t i E Hi)|intros ? ? ? ? ?].
  q_step.
  match goal with |- Q _ _ (ck2 _ _ _ ?K) => set (K0 := K) end.
  assert (HK : forall b r, Q lo o (K0 b r)).
  { intros b r. subst K0. cbv beta. q_step; [q_go|].
    q_step; [apply fields_Q; [assumption|lia]|]. q_step; [q_go|].
    q_step; [q_call|]. q_step; [|q_go].
    unfold ck2. q_step. q_step; [q_go|]. q_step. q_go. }
  unfold ck2. q_step. q_step; [apply HK|]. q_step. apply HK.
Qed.

Lemma parseTL2UnionConstructor_Q fuel lo o it : valid it -> (lo <= i_off it)%nat ->
  Q lo o (parseTL2UnionConstructor n fuel it o).
Proof.
  intros V L. unfold parseTL2UnionConstructor. q_step.
  q_step. q_step; [eapply ctorNamed_Q; try eassumption; try lia; noteof|].
  q_step. q_step; [eapply ctorNamed_Q; try eassumption; try lia; noteof|].
  q_step. q_step; [eapply ctorNamed_Q; try eassumption; try lia; noteof|].
  q_go.
Qed.

Lemma unionLoop_Q cfuel lo o isMono fuel : forall st it variants, valid it -> (lo <= i_off it)%nat -> stOk lo o st ->
  Q lo o (unionLoop n fuel cfuel st it o variants isMono).
Proof.
  induction fuel; intros st it variants V L S; cbn [unionLoop]; [exact I|]. cbv zeta.
  q_step. q_step. q_step.
  - q_step. q_step; [apply parseTL2UnionConstructor_Q; [assumption|lia]|].
    q_step. q_step. q_step; [apply IHfuel; [assumption|lia|q_st]|].
    cbn [Q]. split; [assumption|]. split; [lia|].
    match goal with |- stOk _ _ (match oerr ?x with _ => _ end) => let E := fresh in destruct (oerr x) eqn:E; [apply stOk_failWith; [q_st|]; unfold stOk in *; rewrite E in *; assumption|q_st] end.
  - q_go.
Qed.

Lemma parseTL2UnionType_Q fuel lo o it : valid it -> (lo <= i_off it)%nat -> Q lo o (parseTL2UnionType n fuel it o).
Proof.
  intros V L. unfold parseTL2UnionType. cbv zeta. q_step. q_step. q_step. cbv zeta.
  q_step; [apply parseTL2UnionConstructor_Q; [assumption|lia]|].
  q_step; [q_go|]. q_step; [q_go|]. q_step; [|q_go].
  q_step; [apply unionLoop_Q; [assumption|lia|q_st]|]. q_go.
Qed.

Lemma parseTL2StructTypeDefinition_Q fuel lo o it : valid it -> (lo <= i_off it)%nat ->
  Q lo o (parseTL2StructTypeDefinition n fuel it o).
Proof.
  intros V L. unfold parseTL2StructTypeDefinition. cbv zeta. q_step.
  q_step; [apply parseTL2UnionType_Q; assumption|]. q_step; [q_go|]. q_step; [q_go|].
  q_step; [apply fields_Q; assumption|]. q_step.
  - q_step. match goal with |- Q _ _ (T_ok _ (if ?c then _ else _) _) => destruct c end;
      (cbn [Q]; split; [assumption|split; [lia|]]; unfold stOk in *; cbn [oerr]; assumption).
  - q_go.
Qed.

(** ** declarations *)
Lemma targCategory_Q lo o rt t st : valid rt -> (lo <= i_off rt)%nat -> front rt = Some t -> stOk lo o st ->
  Q lo o (targCategory o st rt t).
Proof.
  intros V L F S. unfold targCategory.
  destruct (Z.eqb (t_type t) T_numberSign || list_eqb (t_val t) [84; 121; 112; 101]) eqn:C; cbn [negb]; [|q_go].
  assert (HW : isWS (t_type t) = false /\ t_val t <> []).
  { apply orb_true_iff in C. destruct C as [C|C].
    - apply Z.eqb_eq in C. split; [rewrite C; reflexivity|].
      apply (front_nonempty s ts Hwf rt t V F). rewrite C. noteof.
    - apply list_eqb_eq in C. split; [exact (val_Type_nonws s ts Hwf rt t V F C)|rewrite C; discriminate]. }
  destruct HW as [W Hv].
  eapply Q_sk_same; [assumption|eassumption|assumption|]. q_step.
  eapply (Q_pop_val _ _ rt t); [assumption|lia|exact F|exact Hv|intros ? ? ?]. q_go.
Qed.

Lemma targNamed_Q lo o rt t i : valid rt -> (lo <= i_off rt)%nat -> front rt = Some t -> isWS (t_type t) = false ->
  true = Z.eqb (t_type t) i -> i <> T_eof -> Q lo o (targNamed o rt).
Proof.
  intros V L F W E Hi. unfold targNamed. cbv zeta. unfold fr at 1. rewrite F.
  eapply (Q_sk_same _ _ rt t); [assumption|exact F|exact W|].
  eapply (Q_pop _ _ rt t); [assumption|lia|exact F|apply (eqb_type_ne t i E Hi)|intros ? ? ? ? ?].
  q_step. q_step. q_step; [|q_go]. q_step. apply targCategory_Q; [assumption|lia|assumption|q_st].
Qed.

Lemma parseTL2TypeArgumentDeclaration_Q lo o it : valid it -> (lo <= i_off it)%nat ->
  Q lo o (parseTL2TypeArgumentDeclaration it o).
Proof.
  intros V L. unfold parseTL2TypeArgumentDeclaration. q_step.
  q_step. q_step; [eapply targNamed_Q; try eassumption; try lia; noteof|].
  q_step. q_step; [eapply targNamed_Q; try eassumption; try lia; noteof|]. q_go.
Qed.

Lemma templateArgsLoop_Q lo o k : 
  (forall st rt, valid rt -> (lo <= i_off rt)%nat -> stOk lo o st -> Q lo o (k st rt)) ->
  forall fuel st it, valid it -> (lo <= i_off it)%nat -> stOk lo o st -> Q lo o (templateArgsLoop fuel st it o k).
Proof.
  intros Hk. induction fuel; intros st it V L S; cbn [templateArgsLoop]; [exact I|].
  q_step. q_step.
  - q_step; [apply parseTL2TypeArgumentDeclaration_Q; [assumption|lia]|]. q_step. q_step.
    q_step; [apply IHfuel; [assumption|lia|assumption]|q_go].
  - q_step. q_step; [|q_go]. apply Hk; [assumption|lia|assumption].
Qed.

Lemma tdDefn_Q fuel lo o isAlias st rt : valid rt -> (lo <= i_off rt)%nat -> stOk lo o st ->
  Q lo o (tdDefn n fuel o isAlias st rt).
Proof.
  intros V L S. unfold tdDefn. destruct isAlias.
  - q_step; [q_call|]. q_go.
  - q_step; [apply parseTL2StructTypeDefinition_Q; assumption|]. q_go.
Qed.

Lemma tdBody_Q fuel lo o tokens st rt : valid tokens -> (lo <= i_off tokens)%nat -> valid rt -> (lo <= i_off rt)%nat ->
  stOk lo o st -> Q lo o (tdBody n fuel o tokens st rt).
Proof.
  intros Vt Lt V L S. unfold tdBody. q_step. q_step; [apply tdDefn_Q; [assumption|lia|q_st]|].
  q_step. q_step; [apply tdDefn_Q; [assumption|lia|q_st]|]. q_go.
Qed.

Lemma tdGenerics_Q fuel lo o tokens st rt : valid tokens -> (lo <= i_off tokens)%nat -> valid rt -> (lo <= i_off rt)%nat ->
  stOk lo o st -> Q lo o (tdGenerics n fuel o tokens st rt).
Proof.
  intros Vt Lt V L S. unfold tdGenerics. q_step. q_step.
  - cbv zeta. q_step; [apply parseTL2TypeArgumentDeclaration_Q; [assumption|lia]|]. q_step. q_step. q_step; [|q_go].
    apply templateArgsLoop_Q; [|assumption|lia|q_st]. intros. apply tdBody_Q; assumption.
  - cbv zeta beta. q_step. q_step; [q_go|]. q_step. q_step; [q_go|]. q_step. q_step; [q_go|].
    apply tdBody_Q; try assumption; lia.
Qed.

Lemma parseTL2TypeDeclarationWithoutName_Q fuel lo o it : valid it -> (lo <= i_off it)%nat ->
  Q lo o (parseTL2TypeDeclarationWithoutName n fuel it o).
Proof.
  intros V L. unfold parseTL2TypeDeclarationWithoutName. q_step. q_step. q_step.
  - eapply crcPart_Q; try eassumption; try lia; [q_st| |].
    + intros. apply tdGenerics_Q; try assumption; try lia; q_st.
    + intros. q_go.
  - apply tdGenerics_Q; try assumption; try lia; q_st.
Qed.

Lemma parseTL2FuncDeclarationWithoutName_Q fuel lo o it : valid it -> (lo <= i_off it)%nat ->
  Q lo o (parseTL2FuncDeclarationWithoutName n fuel it o).
Proof.
  intros V L. unfold parseTL2FuncDeclarationWithoutName. q_step. q_step. q_step; [|q_go].
  eapply crcPart_Q; try eassumption; try lia; [q_st| |intros; q_go].
  intros rt' Vr Lr. q_step; [apply fields_Q; [assumption|lia]|]. q_step; [q_go|].
  q_step. q_step; [|q_go]. cbv zeta. q_step. q_step.
  - q_step. q_step; [q_call|]. q_go.
  - q_step; [apply parseTL2StructTypeDefinition_Q; [assumption|lia]|]. q_step; [q_go|].
    q_step; [q_call|]. q_go.
Qed.

Lemma combTail_Q lo o st rest : valid rest -> (lo <= i_off rest)%nat -> stOk lo o st -> Q lo o (combTail o st rest).
Proof. intros V L S. unfold combTail. q_go. Qed.

(** ** combinators and the file loop: errors become [admissibleErr] *)
Definition QC {A : Type} (lo : nat) (r : t2 A) : Prop :=
  match r with
  | T_ok st rest _ => valid rest /\ (lo <= i_off rest)%nat /\ match oerr st with None => True | Some e => admissibleErr ts e end
  | T_panic => False
  | T_nofuel => True
  end.

Lemma Q_to_QC {A} lo j t0 (r : t2 A) : nth_error ts j = Some t0 -> (j <= lo)%nat -> Q lo (t_pos t0) r -> QC lo r.
Proof.
  intros Hj Hle. destruct r; cbn; auto. intros (V & L & S). split; [exact V|]. split; [exact L|].
  unfold stOk in S. destruct (oerr st) as [e|]; [|exact I]. destruct S as [Ho (i & Hi & Hn)].
  exists i, j, t0. repeat split; auto. lia.
Qed.

Lemma parseTL2Combinator_QC fuel it : valid it -> QC (i_off it) (parseTL2Combinator n fuel it).
Proof.
  intros V. destruct (skipWS_spec s ts Hwf it V) as (rest & t0 & S & V' & Hle & Hws & F & W).
  unfold parseTL2Combinator. unfold sk at 1. rewrite S. unfold fr at 1. rewrite F. cbv zeta.
  rewrite (commentBeforeOk_true s ts Hwf it rest) by (assumption || lia). cbn [negb].
  destruct (valid_front ts rest V') as (t0' & r0 & _ & Hn & F'). rewrite F in F'. inversion F'; subst t0'.
  assert (HQ : Q (i_off rest) (t_pos t0)
    (tbind (zeroOrMore fuel parseTL2Annotation false rest)
       (fun (st : ostate) (rest0 : iter) (_ : unit) =>
        match oerr st with
        | Some _ => T_ok st rest0 tt
        | None =>
            sk rest0
              (fun rest1 : iter =>
               tbind (parseTL2TypeName rest1)
                 (fun (st0 : ostate) (rest2 : iter) (_ : unit) =>
                  fr rest2
                    (fun _ : token =>
                     er E2_type_name rest2 (t_pos t0)
                       (fun e : perr =>
                        let '(okp, st1) := expectProgress st0 e in
                        if negb okp
                        then T_ok st1 rest2 tt
                        else
                         tbind (parseTL2TypeDeclarationWithoutName n fuel rest2 (t_pos t0))
                           (fun (typeDeclState : ostate) (rest3 : iter) (_ : unit) =>
                            if negb (sp typeDeclState)
                            then
                             tbind (parseTL2FuncDeclarationWithoutName n fuel rest3 (t_pos t0))
                               (fun (funcDeclState : ostate) (rest4 : iter) (_ : unit) =>
                                if sp funcDeclState
                                then combTail (t_pos t0) (inherit (inherit st1 typeDeclState) funcDeclState) rest4
                                else
                                 er E2_func_or_type rest4 (t_pos t0)
                                   (fun e0 : perr =>
                                    combTail (t_pos t0) (failWith (inherit (inherit st1 typeDeclState) funcDeclState) e0) rest4))
                            else combTail (t_pos t0) (inherit st1 typeDeclState) rest3)))))
        end))).
  { q_step.
    { apply zeroOrMore_Q; [|assumption|lia]. intros. apply parseTL2Annotation_Q; assumption. }
    match goal with S : stOk _ _ ?st |- Q _ _ (match oerr ?st with _ => _ end) =>
      let E := fresh in destruct (oerr st) eqn:E; [cbn [Q]; split; [assumption|split; [lia|unfold stOk; rewrite E; unfold stOk in S; rewrite E in S; exact S]]|] end.
    q_step. q_step; [q_call|]. q_step. q_step. q_step. q_step; [|q_go].
    q_step; [apply parseTL2TypeDeclarationWithoutName_Q; [assumption|lia]|].
    q_step.
    - apply combTail_Q; [assumption|lia|q_st].
    - q_step; [apply parseTL2FuncDeclarationWithoutName_Q; [assumption|lia]|].
      q_step; [apply combTail_Q; [assumption|lia|q_st]|].
      q_step. apply combTail_Q; [assumption|lia|q_st]. }
  apply (Q_to_QC (i_off rest) (i_off rest) t0) in HQ; [|exact Hn|lia].
  cbv zeta in HQ |- *.
  match type of HQ with QC _ ?x => match goal with |- QC _ ?y => change y with x end end.
  destruct (tbind _ _) in HQ |- *; cbn [QC] in *; auto.
  destruct HQ as (V1 & L1 & S1). split; [exact V1|]. split; [lia|exact S1].
Qed.

Definition QT {A : Type} (r : t2 A) : Prop :=
  match r with
  | T_ok st _ _ => match oerr st with None => True | Some e => admissibleErr ts e end
  | T_panic => False
  | T_nofuel => True
  end.

Lemma tl2Loop_QT cfuel fuel : forall it, valid it -> QT (tl2Loop n fuel cfuel it).
Proof.
  induction fuel; intros it V; cbn [tl2Loop]; [exact I|].
  (* expectLazy(eof): the only place where eof may be popped; the iterator is not used afterwards *)
  destruct (skipWS_spec s ts Hwf it V) as (it' & t & S & V' & Hle & Hws & F & W).
  unfold exLazy, expect, checkToken. rewrite S, F.
  destruct (Z.eqb (t_type t) T_eof) eqn:Ee.
  - destruct (valid_front ts it' V') as (t' & r & E & _ & F'). unfold popFront. rewrite E. exact I.
  - pose proof (parseTL2Combinator_QC cfuel it V) as HC.
    destruct (parseTL2Combinator n cfuel it) as [st it2 a| |]; cbn [tbind QC QT] in *; auto.
    destruct HC as (V2 & L2 & S2). destruct (oerr st) eqn:Eo; [cbn [QT]; rewrite Eo; exact S2|].
    apply IHfuel. exact V2.
Qed.

Theorem parseTokens2_safe : QT (parseTokens2 n ts).
Proof.
  unfold parseTokens2. apply tl2Loop_QT.
  split; [reflexivity|]. cbn. destruct (wf_eof _ _ Hwf) as (init & eoft & -> & _). rewrite app_length. simpl. lia.
Qed.

End WithTokens2.

(** * ParseTL2File as a whole: tokenizer + parser model *)
Theorem parseTL2File_safe o s :
  match parseTL2File o s with
  | PR_ok => True
  | PR_err _ e => err_in_range s e
  | PR_panic => False
  | PR_nofuel => True
  end.
Proof.
  unfold parseTL2File. destruct (front_total o s) as [[e F]|[toks F]]; rewrite F.
  - exact (tokenizer_error_in_range o s e F).
  - pose proof (parseTokens2_safe s toks (front_tokens_wf o s toks F)) as H.
    destruct (parseTokens2 (lenN s) toks) as [st r a| |]; cbn in H; auto.
    destruct (oerr st) as [e|]; [|exact I].
    exact (parser_error_in_range o s toks e F H).
Qed.

Theorem parseTL2File_nofuel_only_parser o s :
  parseTL2File o s = PR_nofuel -> exists toks, parseFront o s = Ok (F_tokens toks) /\ parseTokens2 (lenN s) toks = T_nofuel.
Proof.
  unfold parseTL2File. destruct (front_total o s) as [[e F]|[toks F]]; rewrite F; [discriminate|].
  intros H. exists toks. split; [reflexivity|]. destruct (parseTokens2 (lenN s) toks) as [st r a| |]; try discriminate; [|reflexivity].
  destruct (oerr st); discriminate.
Qed.
