(** Proofs about M1 [Prim]. *)
From Coq Require Import ZArith Lia ZifyN ZifyNat ZifyBool.
From TLV Require Import Prim.PrimModel.
Ltac Zify.zify_post_hook ::= Z.div_mod_to_equations.
Open Scope N_scope.

Lemma lenN_app {A} (a b : list A) : lenN (a ++ b) = lenN a + lenN b.
Proof. unfold lenN. rewrite app_length. lia. Qed.

Lemma lenN_nil {A} : lenN (@nil A) = 0.
Proof. reflexivity. Qed.

Lemma lenN_cons {A} (x : A) l : lenN (x :: l) = 1 + lenN l.
Proof. unfold lenN. cbn [length]. lia. Qed.

Lemma le_bytes_length k n : length (le_bytes k n) = k.
Proof. revert n; induction k as [|k IH]; intros n; cbn [le_bytes length]; [reflexivity|]. now rewrite IH. Qed.

Lemma le_bytes_ok k n : bytes_ok (le_bytes k n).
Proof.
  revert n; induction k as [|k IH]; intros n; cbn [le_bytes]; constructor.
  - unfold byte_ok. apply N.mod_lt. lia.
  - apply IH.
Qed.

Lemma le_val_le_bytes k n : le_val (le_bytes k n) = n mod (256 ^ N.of_nat k).
Proof.
  revert n; induction k as [|k IH]; intros n; cbn [le_bytes le_val].
  - cbn. now rewrite N.mod_1_r.
  - rewrite IH. replace (N.of_nat (S k)) with (N.succ (N.of_nat k)) by lia.
    rewrite N.pow_succ_r'.
    assert (H : 256 ^ N.of_nat k <> 0) by (apply N.pow_nonzero; lia).
    rewrite N.mod_mul_r by lia. reflexivity.
Qed.

Lemma le_val_small k n : n < 256 ^ N.of_nat k -> le_val (le_bytes k n) = n.
Proof. intros H. rewrite le_val_le_bytes. now apply N.mod_small. Qed.

Lemma le_val_bound bs : bytes_ok bs -> le_val bs < 256 ^ lenN bs.
Proof.
  induction 1 as [|b bs Hb _ IH]; cbn [le_val].
  - cbn. lia.
  - rewrite lenN_cons. replace (1 + lenN bs) with (N.succ (lenN bs)) by lia.
    rewrite N.pow_succ_r'. unfold byte_ok in Hb. lia.
Qed.

Lemma le_bytes_le_val bs : bytes_ok bs -> le_bytes (length bs) (le_val bs) = bs.
Proof.
  induction 1 as [|b bs Hb _ IH]; cbn [le_val le_bytes length]; [reflexivity|].
  unfold byte_ok in Hb.
  replace ((b + 256 * le_val bs) mod 256) with b by lia.
  replace ((b + 256 * le_val bs) / 256) with (le_val bs) by lia.
  now rewrite IH.
Qed.

Lemma bytes_ok_cons_inv b bs : bytes_ok (b :: bs) -> b < 256 /\ bytes_ok bs.
Proof. intros H; inversion H; subst; auto. Qed.

(** nat / long *)
Theorem nat_roundtrip v r : v < 2 ^ 32 -> nat_r (nat_w v ++ r) = Ok (v, r).
Proof.
  intros H. unfold nat_w. cbn [le_bytes app nat_r].
  f_equal. f_equal.
  change [v mod 256; v / 256 mod 256; v / 256 / 256 mod 256; v / 256 / 256 / 256 mod 256] with (le_bytes 4 v).
  apply le_val_small. exact H.
Qed.

Theorem long_roundtrip v r : v < 2 ^ 64 -> long_r (long_w v ++ r) = Ok (v, r).
Proof.
  intros H. unfold long_w. cbn [le_bytes app long_r].
  f_equal. f_equal.
  match goal with |- le_val ?l = _ => change l with (le_bytes 8 v) end.
  apply le_val_small. exact H.
Qed.

Theorem nat_canonical b v r : bytes_ok b -> nat_r b = Ok (v, r) -> b = nat_w v ++ r /\ v < 2 ^ 32.
Proof.
  intros Hb H. unfold nat_r in H.
  destruct b as [|b0 [|b1 [|b2 [|b3 r']]]]; try discriminate.
  injection H as Hv Hr. subst r'.
  assert (Hk : bytes_ok [b0; b1; b2; b3]).
  { apply bytes_ok_cons_inv in Hb as [H0 Hb]. apply bytes_ok_cons_inv in Hb as [H1 Hb].
    apply bytes_ok_cons_inv in Hb as [H2 Hb]. apply bytes_ok_cons_inv in Hb as [H3 Hb].
    repeat constructor; assumption. }
  split.
  - unfold nat_w. rewrite <- Hv.
    change 4%nat with (length [b0; b1; b2; b3]). rewrite le_bytes_le_val by exact Hk. reflexivity.
  - rewrite <- Hv. apply (le_val_bound _ Hk).
Qed.

(** padding *)
Lemma padding_len_spec p : padding_len p < 4 /\ (p + padding_len p) mod 4 = 0.
Proof. unfold padding_len. lia. Qed.

Lemma zeros_length n : lenN (zeros n) = n.
Proof. unfold zeros, lenN. rewrite repeat_length. lia. Qed.

Lemma all_zero_zeros n : all_zero (zeros n) = true.
Proof. unfold zeros, all_zero. induction (N.to_nat n); cbn; auto. Qed.

Lemma all_zero_eq bs : all_zero bs = true -> bs = zeros (lenN bs).
Proof.
  unfold zeros, lenN. rewrite Nat2N.id.
  induction bs as [|b bs IH]; cbn; [reflexivity|].
  intros H. apply andb_true_iff in H as [Hb H]. apply N.eqb_eq in Hb. subst b.
  now rewrite <- IH.
Qed.

Lemma firstn_lenN_app {A} (a b : list A) : firstn (N.to_nat (lenN a)) (a ++ b) = a.
Proof.
  unfold lenN. rewrite Nat2N.id.
  replace (length a) with (length a + 0)%nat by lia.
  rewrite firstn_app_2. cbn. now rewrite app_nil_r.
Qed.

Lemma skipn_lenN_app {A} (a b : list A) : skipn (N.to_nat (lenN a)) (a ++ b) = b.
Proof.
  unfold lenN. rewrite Nat2N.id.
  rewrite skipn_app, skipn_all, Nat.sub_diag. reflexivity.
Qed.

Lemma str1_body_roundtrip s p rest :
  str1_body (lenN s) p (s ++ zeros (padding_len p) ++ rest) = Ok (s, rest).
Proof.
  unfold str1_body.
  rewrite !lenN_app, zeros_length.
  destruct (lenN s + (padding_len p + lenN rest) <? lenN s) eqn:E1; [lia|].
  destruct (lenN s + (padding_len p + lenN rest) <? lenN s + padding_len p) eqn:E2; [lia|].
  rewrite firstn_lenN_app, skipn_lenN_app.
  pose proof (zeros_length (padding_len p)) as Hz.
  rewrite <- Hz at 1. rewrite firstn_lenN_app, all_zero_zeros.
  rewrite <- Hz at 1. rewrite skipn_lenN_app. reflexivity.
Qed.

(** C33: TL1 string round trip, for every length the writer supports (< 2^56). *)
Theorem str1_roundtrip s b rest :
  str1_w s = Some b -> str1_r (b ++ rest) = Ok (s, rest).
Proof.
  unfold str1_w, str1_hdr.
  destruct (lenN s <=? tinyStringLen) eqn:Et.
  - intros H; injection H as <-. cbn [app str1_r]. rewrite Et.
    rewrite <- app_assoc. apply str1_body_roundtrip.
  - destruct (lenN s <=? maxMediumStringLen) eqn:Em.
    + intros H; injection H as <-. cbn [le_bytes app str1_r].
      destruct (mediumStringMarker <=? tinyStringLen) eqn:E0; [unfold mediumStringMarker, tinyStringLen in *; lia|].
      rewrite N.eqb_refl.
      match goal with |- context [le_val ?l] => change l with (le_bytes 3 (lenN s)) end.
      rewrite le_val_small by (unfold maxMediumStringLen in *; cbn; lia).
      rewrite Et. rewrite <- app_assoc. apply str1_body_roundtrip.
    + destruct (lenN s <=? maxHugeStringLen) eqn:Eh; [|discriminate].
      intros H; injection H as <-. cbn [le_bytes app str1_r].
      destruct (hugeStringMarker <=? tinyStringLen) eqn:E0; [unfold hugeStringMarker, tinyStringLen in *; lia|].
      destruct (hugeStringMarker =? mediumStringMarker) eqn:E1; [unfold hugeStringMarker, mediumStringMarker in *; lia|].
      match goal with |- context [le_val ?l] => change l with (le_bytes 7 (lenN s)) end.
      rewrite le_val_small by (unfold maxHugeStringLen in *; cbn; lia).
      destruct (maxInt <? lenN s) eqn:E2; [unfold maxInt, maxHugeStringLen in *; lia|].
      rewrite Em. rewrite <- app_assoc. apply str1_body_roundtrip.
Qed.

Theorem str1_w_defined s : lenN s <= maxHugeStringLen -> exists b, str1_w s = Some b.
Proof.
  intros H. unfold str1_w, str1_hdr.
  destruct (lenN s <=? tinyStringLen); [eauto|].
  destruct (lenN s <=? maxMediumStringLen); [eauto|].
  destruct (lenN s <=? maxHugeStringLen) eqn:E; [eauto|lia].
Qed.

(** closed form of the written length; always a multiple of 4 *)
Definition str1_len (l : N) : N :=
  if l <=? tinyStringLen then 1 + l + padding_len (l + 1)
  else if l <=? maxMediumStringLen then 4 + l + padding_len l
  else 8 + l + padding_len l.

Ltac lenN_norm := repeat (rewrite lenN_cons || rewrite lenN_app || rewrite zeros_length || rewrite lenN_nil).

Lemma lenN_le_bytes k n : lenN (le_bytes k n) = N.of_nat k.
Proof. unfold lenN. now rewrite le_bytes_length. Qed.

Theorem str1_w_length s b : str1_w s = Some b -> lenN b = str1_len (lenN s) /\ lenN b mod 4 = 0.
Proof.
  unfold str1_w, str1_hdr, str1_len.
  destruct (lenN s <=? tinyStringLen).
  - intros H; injection H as <-. lenN_norm. unfold padding_len. lia.
  - destruct (lenN s <=? maxMediumStringLen).
    + intros H; injection H as <-. lenN_norm. rewrite ?lenN_le_bytes. unfold padding_len. lia.
    + destruct (lenN s <=? maxHugeStringLen); [|discriminate].
      intros H; injection H as <-. lenN_norm. rewrite ?lenN_le_bytes. unfold padding_len. lia.
Qed.

(** the documented layout: header shape by length class *)
Theorem str1_layout s b : str1_w s = Some b ->
  let l := lenN s in
  (l <= 253 -> b = [l] ++ s ++ zeros (padding_len (l + 1))) /\
  (253 < l <= 16777215 -> tinyStringLen = 253 -> maxMediumStringLen = 16777215 ->
     b = [mediumStringMarker; l mod 256; l / 256 mod 256; l / 65536 mod 256] ++ s ++ zeros (padding_len l)).
Proof.
  intros H l. unfold str1_w, str1_hdr in H. fold l in H. split.
  - intros Hl. destruct (l <=? tinyStringLen) eqn:E.
    + injection H as <-. reflexivity.
    + unfold tinyStringLen in E. lia.
  - intros Hl Ht Hm. destruct (l <=? tinyStringLen) eqn:E; [lia|].
    destruct (l <=? maxMediumStringLen) eqn:E2; [|lia].
    injection H as <-. cbn [le_bytes app].
    replace (l / 256 / 256) with (l / 65536) by (rewrite N.div_div by lia; reflexivity).
    reflexivity.
Qed.

(** canonicity of the reader *)
Lemma str1_body_inv l p r s rest :
  str1_body l p r = Ok (s, rest) ->
  lenN s = l /\ r = s ++ zeros (padding_len p) ++ rest.
Proof.
  unfold str1_body.
  destruct (lenN r <? l) eqn:E1; [discriminate|].
  destruct (lenN r <? l + padding_len p) eqn:E2; [discriminate|].
  destruct (all_zero _) eqn:Ez; [|discriminate].
  intros H; injection H as <- <-.
  split.
  - unfold lenN in *. rewrite firstn_length. lia.
  - apply all_zero_eq in Ez.
    assert (Hl : lenN (firstn (N.to_nat (padding_len p)) (skipn (N.to_nat l) r)) = padding_len p).
    { unfold lenN in *. rewrite firstn_length, skipn_length. lia. }
    rewrite Hl in Ez. rewrite <- Ez.
    now rewrite !firstn_skipn.
Qed.

Theorem str1_canonical b s rest :
  bytes_ok b -> str1_r b = Ok (s, rest) -> exists p, str1_w s = Some p /\ b = p ++ rest.
Proof.
  intros Hb H. unfold str1_r in H.
  destruct b as [|b0 r1]; [discriminate|].
  apply bytes_ok_cons_inv in Hb as [Hb0 Hb].
  destruct (b0 <=? tinyStringLen) eqn:Et.
  - apply str1_body_inv in H as [Hl ->].
    unfold str1_w, str1_hdr. rewrite Hl, Et. eexists; split; [reflexivity|].
    cbn [app]. now rewrite <- app_assoc.
  - destruct (b0 =? mediumStringMarker) eqn:Em.
    + destruct r1 as [|x1 [|x2 [|x3 r4]]]; try discriminate.
      apply bytes_ok_cons_inv in Hb as [H1 Hb]. apply bytes_ok_cons_inv in Hb as [H2 Hb].
      apply bytes_ok_cons_inv in Hb as [H3 Hb].
      set (l := le_val [x1; x2; x3]) in *.
      destruct (l <=? tinyStringLen) eqn:Et2; [discriminate|].
      apply str1_body_inv in H as [Hl ->].
      assert (Hk : bytes_ok [x1; x2; x3]) by (repeat constructor; assumption).
      pose proof (le_val_bound _ Hk) as Hbound. fold l in Hbound.
      change (256 ^ lenN [x1; x2; x3]) with 16777216 in Hbound.
      unfold str1_w, str1_hdr. rewrite Hl, Et2.
      destruct (l <=? maxMediumStringLen) eqn:E2; [|unfold maxMediumStringLen in E2; lia].
      eexists; split; [reflexivity|].
      apply N.eqb_eq in Em. subst b0.
      change 3%nat with (length [x1; x2; x3]). unfold l. rewrite le_bytes_le_val by exact Hk.
      cbn [app]. now rewrite <- app_assoc.
    + destruct r1 as [|x1 [|x2 [|x3 [|x4 [|x5 [|x6 [|x7 r8]]]]]]]; try discriminate.
      apply bytes_ok_cons_inv in Hb as [H1 Hb]. apply bytes_ok_cons_inv in Hb as [H2 Hb].
      apply bytes_ok_cons_inv in Hb as [H3 Hb]. apply bytes_ok_cons_inv in Hb as [H4 Hb].
      apply bytes_ok_cons_inv in Hb as [H5 Hb]. apply bytes_ok_cons_inv in Hb as [H6 Hb].
      apply bytes_ok_cons_inv in Hb as [H7 Hb].
      set (l := le_val [x1; x2; x3; x4; x5; x6; x7]) in *.
      destruct (maxInt <? l) eqn:Ei; [discriminate|].
      destruct (l <=? maxMediumStringLen) eqn:E2; [discriminate|].
      apply str1_body_inv in H as [Hl ->].
      assert (Hk : bytes_ok [x1; x2; x3; x4; x5; x6; x7]) by (repeat constructor; assumption).
      pose proof (le_val_bound _ Hk) as Hbound. fold l in Hbound.
      change (256 ^ lenN [x1; x2; x3; x4; x5; x6; x7]) with 72057594037927936 in Hbound.
      unfold str1_w, str1_hdr. rewrite Hl.
      destruct (l <=? tinyStringLen) eqn:Et2; [unfold tinyStringLen, maxMediumStringLen in *; lia|].
      rewrite E2.
      destruct (l <=? maxHugeStringLen) eqn:E3; [|unfold maxHugeStringLen in E3; lia].
      eexists; split; [reflexivity|].
      assert (b0 = hugeStringMarker) as -> by (unfold tinyStringLen, mediumStringMarker, hugeStringMarker in *; lia).
      change 7%nat with (length [x1; x2; x3; x4; x5; x6; x7]). unfold l. rewrite le_bytes_le_val by exact Hk.
      cbn [app]. now rewrite <- app_assoc.
Qed.

(** Consequences named by the property *)
Corollary str1_rejects_nonminimal_medium l r :
  l <= tinyStringLen -> str1_r (mediumStringMarker :: le_bytes 3 l ++ r) = Reject.
Proof.
  intros Hl. cbn [le_bytes app str1_r].
  destruct (mediumStringMarker <=? tinyStringLen) eqn:E0; [unfold mediumStringMarker, tinyStringLen in *; lia|].
  rewrite N.eqb_refl.
  match goal with |- context [le_val ?x] => change x with (le_bytes 3 l) end.
  rewrite le_val_small by (unfold tinyStringLen in *; cbn; lia).
  destruct (l <=? tinyStringLen) eqn:E; [reflexivity|lia].
Qed.

Corollary str1_rejects_nonminimal_huge l r :
  l <= maxMediumStringLen -> str1_r (hugeStringMarker :: le_bytes 7 l ++ r) = Reject.
Proof.
  intros Hl. cbn [le_bytes app str1_r].
  destruct (hugeStringMarker <=? tinyStringLen) eqn:E0; [unfold hugeStringMarker, tinyStringLen in *; lia|].
  destruct (hugeStringMarker =? mediumStringMarker) eqn:E1; [unfold hugeStringMarker, mediumStringMarker in *; lia|].
  match goal with |- context [le_val ?x] => change x with (le_bytes 7 l) end.
  rewrite le_val_small by (unfold maxMediumStringLen in *; cbn; lia).
  destruct (maxInt <? l) eqn:E2; [unfold maxInt, maxMediumStringLen in *; lia|].
  destruct (l <=? maxMediumStringLen) eqn:E; [reflexivity|lia].
Qed.

(** truncation: every proper prefix of a written string reads as EOF *)
Lemma str1_body_short l p q : lenN q < l + padding_len p -> str1_body l p q = Eof.
Proof.
  intros H. unfold str1_body.
  destruct (lenN q <? l) eqn:E1; [reflexivity|].
  destruct (lenN q <? l + padding_len p) eqn:E2; [reflexivity|lia].
Qed.

Lemma firstn_lenN_lt {A} k (l : list A) : (k < length l)%nat -> lenN (firstn k l) < lenN l.
Proof. intros H. unfold lenN. rewrite firstn_length. lia. Qed.

Theorem str1_truncated s b k :
  str1_w s = Some b -> (k < length b)%nat -> str1_r (firstn k b) = Eof.
Proof.
  unfold str1_w, str1_hdr.
  destruct (lenN s <=? tinyStringLen) eqn:Et.
  - intros H; injection H as <-. intros Hk.
    destruct k as [|k]; [reflexivity|].
    cbn [app firstn str1_r]. rewrite Et.
    apply str1_body_short.
    cbn [app length] in Hk.
    pose proof (firstn_lenN_lt k (s ++ zeros (padding_len (lenN s + 1))) ltac:(lia)) as Hlt.
    rewrite lenN_app, zeros_length in Hlt. exact Hlt.
  - destruct (lenN s <=? maxMediumStringLen) eqn:Em.
    + intros H; injection H as <-. intros Hk.
      cbn [le_bytes app] in *.
      destruct (mediumStringMarker <=? tinyStringLen) eqn:E0; [unfold mediumStringMarker, tinyStringLen in *; lia|].
      destruct k as [|[|[|[|k]]]]; cbn [firstn str1_r]; rewrite ?E0, ?N.eqb_refl; try reflexivity.
      match goal with |- context [le_val ?l] => change l with (le_bytes 3 (lenN s)) end.
      rewrite le_val_small by (unfold maxMediumStringLen in *; cbn; lia).
      rewrite Et. apply str1_body_short.
      cbn [length] in Hk.
      pose proof (firstn_lenN_lt k (s ++ zeros (padding_len (lenN s))) ltac:(lia)) as Hlt.
      rewrite lenN_app, zeros_length in Hlt. exact Hlt.
    + destruct (lenN s <=? maxHugeStringLen) eqn:Eh; [|discriminate].
      intros H; injection H as <-. intros Hk.
      cbn [le_bytes app] in *.
      destruct (hugeStringMarker <=? tinyStringLen) eqn:E0; [unfold hugeStringMarker, tinyStringLen in *; lia|].
      destruct (hugeStringMarker =? mediumStringMarker) eqn:E1; [unfold hugeStringMarker, mediumStringMarker in *; lia|].
      destruct k as [|[|[|[|[|[|[|[|k]]]]]]]]; cbn [firstn str1_r]; rewrite ?E0, ?E1; try reflexivity.
      match goal with |- context [le_val ?l] => change l with (le_bytes 7 (lenN s)) end.
      rewrite le_val_small by (unfold maxHugeStringLen in *; cbn; lia).
      destruct (maxInt <? lenN s) eqn:E2; [unfold maxInt, maxHugeStringLen in *; lia|].
      rewrite Em. apply str1_body_short.
      cbn [length] in Hk.
      pose proof (firstn_lenN_lt k (s ++ zeros (padding_len (lenN s))) ltac:(lia)) as Hlt.
      rewrite lenN_app, zeros_length in Hlt. exact Hlt.
Qed.

(** non-zero padding is rejected: replacing the padding of a written string by any
    same-length block that is not all zero makes the reader fail with a non-EOF error *)
Lemma str1_body_bad_pad s p pad' rest :
  lenN pad' = padding_len p -> all_zero pad' = false ->
  str1_body (lenN s) p (s ++ pad' ++ rest) = Reject.
Proof.
  intros Hl Hz. unfold str1_body. rewrite !lenN_app, Hl.
  destruct (lenN s + (padding_len p + lenN rest) <? lenN s) eqn:E1; [lia|].
  destruct (lenN s + (padding_len p + lenN rest) <? lenN s + padding_len p) eqn:E2; [lia|].
  rewrite skipn_lenN_app. rewrite <- Hl, firstn_lenN_app, Hz. reflexivity.
Qed.

Theorem str1_bad_padding_rejected s h p pad' rest :
  str1_hdr (lenN s) = Some (h, p) ->
  lenN pad' = padding_len p -> all_zero pad' = false ->
  str1_r (h ++ s ++ pad' ++ rest) = Reject.
Proof.
  unfold str1_hdr.
  destruct (lenN s <=? tinyStringLen) eqn:Et.
  - intros H; injection H as <- <-. intros Hl Hz. cbn [app str1_r]. rewrite Et.
    now apply str1_body_bad_pad.
  - destruct (lenN s <=? maxMediumStringLen) eqn:Em.
    + intros H; injection H as <- <-. intros Hl Hz. cbn [le_bytes app str1_r].
      destruct (mediumStringMarker <=? tinyStringLen) eqn:E0; [unfold mediumStringMarker, tinyStringLen in *; lia|].
      rewrite N.eqb_refl.
      match goal with |- context [le_val ?l] => change l with (le_bytes 3 (lenN s)) end.
      rewrite le_val_small by (unfold maxMediumStringLen in *; cbn; lia).
      rewrite Et. now apply str1_body_bad_pad.
    + destruct (lenN s <=? maxHugeStringLen) eqn:Eh; [|discriminate].
      intros H; injection H as <- <-. intros Hl Hz. cbn [le_bytes app str1_r].
      destruct (hugeStringMarker <=? tinyStringLen) eqn:E0; [unfold hugeStringMarker, tinyStringLen in *; lia|].
      destruct (hugeStringMarker =? mediumStringMarker) eqn:E1; [unfold hugeStringMarker, mediumStringMarker in *; lia|].
      match goal with |- context [le_val ?l] => change l with (le_bytes 7 (lenN s)) end.
      rewrite le_val_small by (unfold maxHugeStringLen in *; cbn; lia).
      destruct (maxInt <? lenN s) eqn:E2; [unfold maxInt, maxHugeStringLen in *; lia|].
      rewrite Em. now apply str1_body_bad_pad.
Qed.

(** TL2 sizes *)
Theorem size2_roundtrip n r : n <= maxInt -> size2_r (size2_w n ++ r) = Ok (n, r).
Proof.
  intros Hn. unfold size2_w.
  destruct (n <? mediumStringMarker) eqn:E1.
  - cbn [app size2_r]. now rewrite E1.
  - destruct (n <? mediumStringMarker + 65536) eqn:E2.
    + cbn [le_bytes app size2_r].
      destruct (mediumStringMarker <? mediumStringMarker) eqn:E0; [lia|].
      rewrite N.eqb_refl.
      match goal with |- context [le_val ?l] => change l with (le_bytes 2 (n - mediumStringMarker)) end.
      rewrite le_val_small by (cbn; lia).
      f_equal. f_equal. lia.
    + cbn [le_bytes app size2_r].
      destruct (hugeStringMarker <? mediumStringMarker) eqn:E0; [unfold hugeStringMarker, mediumStringMarker in *; lia|].
      destruct (hugeStringMarker =? mediumStringMarker) eqn:E3; [unfold hugeStringMarker, mediumStringMarker in *; lia|].
      match goal with |- context [le_val ?l] => change l with (le_bytes 8 n) end.
      rewrite le_val_small by (unfold maxInt in *; cbn; lia).
      destruct (maxInt <? n) eqn:E4; [lia|]. reflexivity.
Qed.

Theorem size2_w_length n : lenN (size2_w n) = size2_len n.
Proof.
  unfold size2_w, size2_len.
  destruct (n <? mediumStringMarker); [reflexivity|].
  destruct (n <? mediumStringMarker + 65536); reflexivity.
Qed.

(** the 9-byte form is accepted for every representable value (non-minimal allowed) *)
Theorem size2_huge_accepted n r :
  n <= maxInt -> size2_r (hugeStringMarker :: le_bytes 8 n ++ r) = Ok (n, r).
Proof.
  intros Hn. cbn [le_bytes app size2_r].
  destruct (hugeStringMarker <? mediumStringMarker) eqn:E0; [unfold hugeStringMarker, mediumStringMarker in *; lia|].
  destruct (hugeStringMarker =? mediumStringMarker) eqn:E3; [unfold hugeStringMarker, mediumStringMarker in *; lia|].
  match goal with |- context [le_val ?l] => change l with (le_bytes 8 n) end.
  rewrite le_val_small by (unfold maxInt in *; cbn; lia).
  destruct (maxInt <? n) eqn:E4; [lia|]. reflexivity.
Qed.

Theorem size2_layout n :
  (n < 254 -> mediumStringMarker = 254 -> size2_w n = [n]) /\
  (254 <= n < 254 + 65536 -> mediumStringMarker = 254 ->
     size2_w n = [254; (n - 254) mod 256; (n - 254) / 256 mod 256]).
Proof.
  unfold size2_w. split; intros H Hm; rewrite Hm.
  - destruct (n <? 254) eqn:E; [reflexivity|lia].
  - destruct (n <? 254) eqn:E; [lia|].
    destruct (n <? 254 + 65536) eqn:E2; [reflexivity|lia].
Qed.

Theorem size2_truncated n k : n <= maxInt -> (k < length (size2_w n))%nat -> size2_r (firstn k (size2_w n)) = Eof.
Proof.
  intros Hn. unfold size2_w.
  destruct (n <? mediumStringMarker) eqn:E1.
  - cbn [length]. intros Hk. assert (k = 0%nat) as -> by lia. reflexivity.
  - destruct (n <? mediumStringMarker + 65536) eqn:E2; cbn [le_bytes length]; intros Hk.
    + destruct (mediumStringMarker <? mediumStringMarker) eqn:E0; [lia|].
      destruct k as [|[|[|k]]]; cbn [firstn size2_r]; rewrite ?E0, ?N.eqb_refl; try reflexivity. lia.
    + destruct (hugeStringMarker <? mediumStringMarker) eqn:E0; [unfold hugeStringMarker, mediumStringMarker in *; lia|].
      destruct (hugeStringMarker =? mediumStringMarker) eqn:E3; [unfold hugeStringMarker, mediumStringMarker in *; lia|].
      destruct k as [|[|[|[|[|[|[|[|[|k]]]]]]]]]; cbn [firstn size2_r]; rewrite ?E0, ?E3; try reflexivity. lia.
Qed.

Theorem str2_roundtrip s r : lenN s <= maxInt -> str2_r (str2_w s ++ r) = Ok (s, r).
Proof.
  intros H. unfold str2_r, str2_w. rewrite <- app_assoc, size2_roundtrip by exact H.
  rewrite lenN_app. destruct (lenN s + lenN r <? lenN s) eqn:E; [lia|].
  now rewrite firstn_lenN_app, skipn_lenN_app.
Qed.

(** TL2 bit vectors *)
Lemma list_ind8 (P : list bool -> Prop) :
  P [] ->
  (forall v, (0 < length v < 8)%nat -> P v) ->
  (forall b0 b1 b2 b3 b4 b5 b6 b7 r, P r -> P (b0 :: b1 :: b2 :: b3 :: b4 :: b5 :: b6 :: b7 :: r)) ->
  forall v, P v.
Proof.
  intros Hnil Hshort Hstep v.
  remember (length v) as n eqn:Hn. revert v Hn.
  induction n as [n IH] using lt_wf_ind. intros v Hn.
  destruct v as [|b0 [|b1 [|b2 [|b3 [|b4 [|b5 [|b6 [|b7 r]]]]]]]];
    try exact Hnil; try (apply Hshort; cbn; lia).
  apply Hstep. apply (IH (length r)); [cbn in Hn; lia|reflexivity].
Qed.

Lemma bits_of_bits_val v : bits_of (length v) (bits_val v) = v.
Proof.
  induction v as [|b v IH]; cbn [length bits_of bits_val]; [reflexivity|].
  f_equal.
  - destruct b; [rewrite N.odd_add_mul_2|rewrite N.add_0_l, N.odd_mul, N.odd_2]; reflexivity.
  - replace (((if b then 1 else 0) + 2 * bits_val v) / 2) with (bits_val v) by (destruct b; lia).
    exact IH.
Qed.

Lemma bits_val_bound v : bits_val v < 2 ^ lenN v.
Proof.
  induction v as [|b v IH]; cbn [bits_val]; [cbn; lia|].
  rewrite lenN_cons. replace (1 + lenN v) with (N.succ (lenN v)) by lia.
  rewrite N.pow_succ_r'. destruct b; lia.
Qed.

Lemma bitvec2_w_short v : (0 < length v < 8)%nat -> bitvec2_w v = [bits_val v].
Proof.
  intros H.
  destruct v as [|b0 [|b1 [|b2 [|b3 [|b4 [|b5 [|b6 [|b7 r]]]]]]]]; cbn in H; try lia; reflexivity.
Qed.

Lemma bitvec2_roundtrip_aux v : forall fuel rest, (length v <= fuel)%nat ->
  bitvec2_r_aux fuel (length v) (bitvec2_w v ++ rest) = Ok (v, rest).
Proof.
  induction v as [| v Hv | b0 b1 b2 b3 b4 b5 b6 b7 r IH] using list_ind8; intros fuel rest Hf.
  - destruct fuel; reflexivity.
  - rewrite bitvec2_w_short by exact Hv.
    destruct (length v) as [|n] eqn:En; [lia|].
    destruct fuel as [|fuel]; [lia|].
    cbn [bitvec2_r_aux app].
    replace (Nat.min 8 (S n)) with (S n) by lia.
    rewrite Nat.sub_diag.
    assert (Hz : bitvec2_r_aux fuel 0 rest = Ok ([], rest)) by (destruct fuel; reflexivity).
    rewrite Hz, app_nil_r, <- En, bits_of_bits_val. reflexivity.
  - cbn [length] in *. destruct fuel as [|fuel]; [lia|].
    cbn [bitvec2_w app].
    change (bitvec2_r_aux (S fuel) (S (S (S (S (S (S (S (S (length r))))))))) (?x :: ?t))
      with (match bitvec2_r_aux fuel (S (S (S (S (S (S (S (S (length r)))))))) - Nat.min 8 (S (S (S (S (S (S (S (S (length r)))))))))) t with
            | Ok (v, r0) => Ok (bits_of (Nat.min 8 (S (S (S (S (S (S (S (S (length r)))))))))) x ++ v, r0)
            | Eof => Eof | Reject => Reject end).
    replace (Nat.min 8 (S (S (S (S (S (S (S (S (length r)))))))))) with 8%nat by lia.
    replace (S (S (S (S (S (S (S (S (length r)))))))) - 8)%nat with (length r) by lia.
    rewrite IH by lia.
    change 8%nat with (length [b0; b1; b2; b3; b4; b5; b6; b7]).
    rewrite bits_of_bits_val. reflexivity.
Qed.

Theorem bitvec2_roundtrip v rest : bitvec2_r (length v) (bitvec2_w v ++ rest) = Ok (v, rest).
Proof. apply bitvec2_roundtrip_aux. lia. Qed.

Theorem bitvec2_w_length v : lenN (bitvec2_w v) = (lenN v + 7) / 8.
Proof.
  induction v as [| v Hv | b0 b1 b2 b3 b4 b5 b6 b7 r IH] using list_ind8.
  - reflexivity.
  - rewrite bitvec2_w_short by exact Hv. unfold lenN. cbn [length]. lia.
  - cbn [bitvec2_w]. rewrite !lenN_cons, IH. lia.
Qed.

(** bit [j] of byte [i] is element [8 i + j] (least significant bit first) *)
Lemma testbit_bits_val v j : N.testbit (bits_val v) (N.of_nat j) = nth j v false.
Proof.
  revert j; induction v as [|b v IH]; intros j; cbn [bits_val].
  - rewrite N.bits_0. destruct j; reflexivity.
  - destruct j as [|j].
    + cbn [nth N.of_nat]. rewrite N.add_comm. destruct b.
      * rewrite N.testbit_odd_0. reflexivity.
      * rewrite N.add_0_r. rewrite N.testbit_even_0. reflexivity.
    + cbn [nth]. replace (N.of_nat (S j)) with (N.succ (N.of_nat j)) by lia.
      rewrite N.add_comm. destruct b.
      * rewrite N.testbit_odd_succ by lia. apply IH.
      * rewrite N.add_0_r. rewrite N.testbit_even_succ by lia. apply IH.
Qed.

Theorem bitvec2_bit_layout v i j : (j < 8)%nat ->
  N.testbit (nth i (bitvec2_w v) 0) (N.of_nat j) = nth (8 * i + j) v false.
Proof.
  intros Hj. revert i.
  induction v as [| v Hv | b0 b1 b2 b3 b4 b5 b6 b7 r IH] using list_ind8; intros i.
  - replace (nth i (bitvec2_w []) 0) with 0 by (destruct i; reflexivity).
    rewrite N.bits_0. symmetry. apply nth_overflow. cbn [length]. lia.
  - rewrite bitvec2_w_short by exact Hv.
    destruct i as [|i].
    + cbn [nth]. rewrite testbit_bits_val. f_equal.
    + replace (nth (S i) [bits_val v] 0) with 0 by (destruct i; reflexivity).
      rewrite N.bits_0. symmetry. apply nth_overflow. lia.
  - cbn [bitvec2_w]. destruct i as [|i].
    + cbn [nth Nat.mul Nat.add]. rewrite testbit_bits_val.
      do 8 (destruct j as [|j]; [reflexivity|]). lia.
    + cbn [nth]. rewrite IH.
      replace (8 * S i + j)%nat with (8 + (8 * i + j))%nat by lia. reflexivity.
Qed.
