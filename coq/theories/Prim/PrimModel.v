(** M1 [Prim] -- primitive codecs of pkg/basictl/basictl.go and basictl2.go.
    Executable definitions only; proofs live in Proofs.v.
    Bytes are [N] (well-formed when < 256); constants come from the
    translator output [Gen/Consts.v], regenerated from /repo on every run. *)
From Coq Require Export List NArith Bool.
From TLV Require Export Gen.PrimConsts.
Export ListNotations.
Open Scope N_scope.

Inductive res (A : Type) : Type :=
| Ok (a : A)
| Eof       (* io.ErrUnexpectedEOF *)
| Reject.   (* any other error *)
Arguments Ok {A} a.
Arguments Eof {A}.
Arguments Reject {A}.

Definition bytes := list N.
Definition byte_ok (b : N) : Prop := b < 256.
Definition bytes_ok (bs : bytes) : Prop := Forall byte_ok bs.
Definition bytes_okb (bs : bytes) : bool := forallb (fun b => b <? 256) bs.

Definition lenN {A} (l : list A) : N := N.of_nat (length l).

(** little-endian fixed-width integers *)
Fixpoint le_bytes (k : nat) (n : N) : bytes :=
  match k with
  | O => []
  | S k' => n mod 256 :: le_bytes k' (n / 256)
  end.

Fixpoint le_val (bs : bytes) : N :=
  match bs with
  | [] => 0
  | b :: r => b + 256 * le_val r
  end.

(** NatRead / NatWrite (uint32), also int32/float32 as raw bit patterns *)
Definition nat_w (v : N) : bytes := le_bytes 4 v.
Definition nat_r (b : bytes) : res (N * bytes) :=
  match b with
  | b0 :: b1 :: b2 :: b3 :: r => Ok (le_val [b0; b1; b2; b3], r)
  | _ => Eof
  end.

(** LongRead / LongWrite / Uint64 / double as raw bit patterns *)
Definition long_w (v : N) : bytes := le_bytes 8 v.
Definition long_r (b : bytes) : res (N * bytes) :=
  match b with
  | b0 :: b1 :: b2 :: b3 :: b4 :: b5 :: b6 :: b7 :: r =>
      Ok (le_val [b0; b1; b2; b3; b4; b5; b6; b7], r)
  | _ => Eof
  end.

(** paddingLen(l) = int(-uint(l) % 4) *)
Definition padding_len (p : N) : N := (4 - p mod 4) mod 4.
Definition zeros (n : N) : bytes := repeat 0 (N.to_nat n).

(** StringWriteLen + StringWritePadding + StringWrite.
    [None] models the panic for lengths above maxHugeStringLen. *)
Definition str1_hdr (l : N) : option (bytes * N) :=
  if l <=? tinyStringLen then Some ([l], l + 1)
  else if l <=? maxMediumStringLen then Some (mediumStringMarker :: le_bytes 3 l, l)
  else if l <=? maxHugeStringLen then Some (hugeStringMarker :: le_bytes 7 l, l)
  else None.

Definition str1_w (s : bytes) : option bytes :=
  match str1_hdr (lenN s) with
  | Some (h, p) => Some (h ++ s ++ zeros (padding_len p))
  | None => None
  end.

Definition maxInt : N := 9223372036854775807. (* math.MaxInt on a 64-bit platform *)

(** all-zero test for the padding loop *)
Definition all_zero (bs : bytes) : bool := forallb (fun b => b =? 0) bs.

(** the common tail of StringRead: content, then padding *)
Definition str1_body (l p : N) (r : bytes) : res (bytes * bytes) :=
  if lenN r <? l then Eof
  else
    let s := firstn (N.to_nat l) r in
    let pad := padding_len p in
    if lenN r <? l + pad then Eof
    else
      let rest := skipn (N.to_nat l) r in
      if all_zero (firstn (N.to_nat pad) rest) then Ok (s, skipn (N.to_nat pad) rest)
      else Reject.

(** StringRead / StringReadBytes *)
Definition str1_r (r : bytes) : res (bytes * bytes) :=
  match r with
  | [] => Eof
  | b0 :: r1 =>
      if b0 <=? tinyStringLen then str1_body b0 (b0 + 1) r1
      else if b0 =? mediumStringMarker then
        match r1 with
        | x1 :: x2 :: x3 :: r4 =>
            let l := le_val [x1; x2; x3] in
            if l <=? tinyStringLen then Reject else str1_body l l r4
        | _ => Eof
        end
      else
        match r1 with
        | x1 :: x2 :: x3 :: x4 :: x5 :: x6 :: x7 :: r8 =>
            let l := le_val [x1; x2; x3; x4; x5; x6; x7] in
            if maxInt <? l then Reject
            else if l <=? maxMediumStringLen then Reject
            else str1_body l l r8
        | _ => Eof
        end
  end.

(** ReadBool *)
Definition bool1_r (ftag ttag : N) (b : bytes) : res (bool * bytes) :=
  match nat_r b with
  | Ok (t, r) => if t =? ftag then Ok (false, r)
                 else if t =? ttag then Ok (true, r) else Reject
  | Eof => Eof
  | Reject => Reject
  end.

(** CheckLengthSanity: true = passes *)
Definition check_length_sanity (r : bytes) (n minsz : N) : bool :=
  negb (lenN r <? n * minsz).

(** TL2 varlen sizes: TL2WriteSize / TL2CalculateSize / TL2ParseSize *)
Definition size2_w (l : N) : bytes :=
  if l <? mediumStringMarker then [l]
  else if l <? mediumStringMarker + 65536 then mediumStringMarker :: le_bytes 2 (l - mediumStringMarker)
  else hugeStringMarker :: le_bytes 8 l.

Definition size2_len (l : N) : N :=
  if l <? mediumStringMarker then 1
  else if l <? mediumStringMarker + 65536 then 3
  else 9.

Definition size2_r (r : bytes) : res (N * bytes) :=
  match r with
  | [] => Eof
  | b0 :: r1 =>
      if b0 <? mediumStringMarker then Ok (b0, r1)
      else if b0 =? mediumStringMarker then
        match r1 with
        | x1 :: x2 :: r3 => Ok (mediumStringMarker + le_val [x1; x2], r3)
        | _ => Eof
        end
      else
        match r1 with
        | x1 :: x2 :: x3 :: x4 :: x5 :: x6 :: x7 :: x8 :: r9 =>
            let l := le_val [x1; x2; x3; x4; x5; x6; x7; x8] in
            if maxInt <? l then Reject else Ok (l, r9)
        | _ => Eof
        end
  end.

(** StringWriteTL2 / StringReadTL2 *)
Definition str2_w (s : bytes) : bytes := size2_w (lenN s) ++ s.
Definition str2_r (r : bytes) : res (bytes * bytes) :=
  match size2_r r with
  | Ok (l, r1) => if lenN r1 <? l then Eof
                  else Ok (firstn (N.to_nat l) r1, skipn (N.to_nat l) r1)
  | Eof => Eof
  | Reject => Reject
  end.

(** TL2 bit vectors: VectorBitContentWriteTL2 / ReadTL2 *)
Fixpoint bits_val (v : list bool) : N :=
  match v with
  | [] => 0
  | b :: r => (if b then 1 else 0) + 2 * bits_val r
  end.

Fixpoint bitvec2_w (v : list bool) : bytes :=
  match v with
  | [] => []
  | b0 :: b1 :: b2 :: b3 :: b4 :: b5 :: b6 :: b7 :: r =>
      bits_val [b0; b1; b2; b3; b4; b5; b6; b7] :: bitvec2_w r
  | short => [bits_val short]
  end.

Fixpoint bits_of (k : nat) (x : N) : list bool :=
  match k with
  | O => []
  | S k' => N.odd x :: bits_of k' (x / 2)
  end.

(** reads [n] bits; [fuel] >= number of blocks *)
Fixpoint bitvec2_r_aux (fuel n : nat) (b : bytes) : res (list bool * bytes) :=
  match n with
  | O => Ok ([], b)
  | _ =>
      match fuel with
      | O => Reject (* unreachable when fuel >= n *)
      | S fuel' =>
          match b with
          | [] => Eof
          | x :: b' =>
              let k := Nat.min 8 n in
              match bitvec2_r_aux fuel' (n - k) b' with
              | Ok (v, r) => Ok (bits_of k x ++ v, r)
              | Eof => Eof
              | Reject => Reject
              end
          end
      end
  end.
Definition bitvec2_r (n : nat) (b : bytes) := bitvec2_r_aux n n b.
