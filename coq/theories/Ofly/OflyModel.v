(** Ofly -- executable model of the DYNAMIC INTERPRETER internal/pure/onthefly (TL1 paths), transcribed from
    kernel_value.go (CreateValue / CreateValueStruct), natargs.go, t_struct_value.go, t_union_value.go,
    t_array_value.go, t_dict_value.go, t_primitive_value.go, t_string_value.go -- independently of the model of the
    GENERATED code (Tl1Model.dec1/enc1).  Shared with Tl1Model: only the schema IR (what the kernel resolved) and
    the basictl primitives of Prim.PrimModel (both implementations call the same pkg/basictl functions).
    Executable definitions only; proofs live in OflyProofs.v.

    How the Go code is rendered:
    - a KernelValue is a [kval]; the Go value carries its type instance, the model passes the instance index [t]
      next to the value and dispatches on the value's dynamic type first (as the Go method call does), then looks
      the instance up; a value of the wrong dynamic type for its instance is a Go panic ([OPanic]).
    - ReadTL1 works IN PLACE on an existing value (fresh from CreateValue in the client, but any value in general):
      [oread] takes the current value and returns the updated one.  A field whose mask bit is clear is left as it
      was (`continue`), elements are re-used by resize -- exactly as in Go.
    - the nat-argument STACK: `natArgs []uint32` is passed down, a callee's own arguments are the last
      len(NatParams()) entries, field arguments are appended after natArgs[:natArgsFinish], and every ReadTL1/WriteTL1
      returns the stack.  [np] gives len(NatParams()) per instance (from the kernel dump).
    - panics (bare union, boxed brackets, type assertion, index out of range) are [OPanic]; io.ErrUnexpectedEOF is
      [OEof]; every other error is [OErr].  [None] = out of fuel, or CreateValue did not produce a value
      (unbounded recursion / panic inside CreateValue).
    - values that Go mutates during WriteTL1 (RepairMasks: nil field created, tuple resized, dict sorted) are not
      returned by [owrite]: within one call nothing reads them again (a created `#` field reads as 0, like nil).
    - slices.SortFunc is rendered as the stable insertion sort pdqsort uses for fewer than 13 elements; for longer
      slices the Go API leaves the order of EQUAL keys unspecified, which only matters for duplicate keys.
    Not modelled: TL2, JSON, UI.  The IR primitive [PNoTL1] conflates byte, bit and uint64: the model renders it as
    KernelValueByte/Bit (ReadTL1 = error, WriteTL1 = panic); uint64 (ReadTL1 reads 8 bytes) and bit arrays
    (KernelValueArrayBit) are TL2-only and outside the model. *)
From Coq Require Export List NArith ZArith Bool.
From TLV Require Export Prim.PrimModel Tl1.Tl1Model.
Export ListNotations.
Open Scope N_scope.

(** * Interpreter values *)
Inductive kval :=
| KU32 (n : N)                              (* KernelValueUint32 *)
| KI32 (n : N)                              (* KernelValueInt32 (int32 and float32): the 32-bit pattern *)
| KI64 (n : N)                              (* KernelValueInt64 (int64 and float64): the 64-bit pattern *)
| KStr (s : bytes)                          (* KernelValueString *)
| KBool (b : bool)                          (* KernelValueBool *)
| KNoTL1                                    (* KernelValueByte / KernelValueBit *)
| KStruct (fs : list (option kval))         (* KernelValueStruct.fields; None = nil *)
| KUnion (idx : nat) (vars : list (option kval))   (* KernelValueUnion.index / variants; None = variant not created (instance == nil); Some is a KStruct *)
| KArr (es : list kval)                     (* KernelValueArray.elements *)
| KDict (es : list kval).                   (* KernelValueDict.elements (each a KStruct) *)

Inductive ores (A : Type) : Type :=
| OOk (a : A)
| OEof
| OErr
| OPanic.
Arguments OOk {A} a.
Arguments OEof {A}.
Arguments OErr {A}.
Arguments OPanic {A}.

Definition nparams (np : list nat) (t : nat) : nat := nth t np 0%nat.

Fixpoint set_nth {A} (i : nat) (x : A) (l : list A) : list A :=
  match l, i with
  | [], _ => []
  | _ :: r, O => x :: r
  | y :: r, S i' => y :: set_nth i' x r
  end.

(** * CreateValue / CreateValueStruct (kernel_value.go) *)
Definition ocreate_prim (p : prim) : kval :=
  match p with
  | PNat => KU32 0
  | PInt | PFloat => KI32 0
  | PLong | PDouble => KI64 0
  | PString => KStr []
  | PBool _ _ => KBool false
  | PNoTL1 => KNoTL1
  end.

(** fields with a field mask stay nil, the others are created recursively *)
Fixpoint ocreate_fields (rec : nat -> option kval) (fds : list field) : option (list (option kval)) :=
  match fds with
  | [] => Some []
  | fd :: r =>
      match f_mask fd with
      | Some _ => option_map (cons None) (ocreate_fields rec r)
      | None =>
          match rec (f_ty fd) with
          | None => None
          | Some k => option_map (cons (Some k)) (ocreate_fields rec r)
          end
      end
  end.

Fixpoint ocreate (fuel : nat) (s : schema) (t : nat) : option kval :=
  match fuel with
  | O => None
  | S f =>
      match nth_error s t with
      | None => None
      | Some (TPrim p) => Some (ocreate_prim p)
      | Some (TStruct _ fds) => option_map KStruct (ocreate_fields (ocreate f s) fds)
      | Some (TUnion vts) =>                (* variants: make([]KernelValueStruct, n); setIndex(0) *)
          match vts with
          | [] => None                      (* v.variants[0]: index out of range *)
          | v0 :: rest =>
              match ocreate f s v0 with
              | Some k0 => Some (KUnion 0 (Some k0 :: map (fun _ => None) rest))
              | None => None
              end
          end
      | Some (TArray k ef) =>
          match k with
          | ATupleFixed c =>                (* value.resize(int(ins.Count())) on the empty slice *)
              if c =? 0 then Some (KArr [])
              else match ocreate f s (f_ty ef) with
                   | Some d => Some (KArr (repeat d (N.to_nat c)))
                   | None => None
                   end
          | _ => Some (KArr [])
          end
      | Some (TDict _ _) => Some (KDict [])
      end
  end.

(** resize(count): append fresh values while too short, cut when too long.  [d] = CreateValue(element type),
    only consulted when an element must be appended *)
Definition oresize (d : option kval) (count : N) (es : list kval) : option (list kval) :=
  let n := N.to_nat count in
  if (length es <? n)%nat then
    match d with
    | Some x => Some (es ++ repeat x (n - length es))
    | None => None
    end
  else Some (firstn n es).

(** * nat arguments (natargs.go, KernelValueStruct.formatNatArg) *)
(** the callee's own arguments: natArgs[natArgsFinish-len(NatParams()):]  (None = slice bounds panic) *)
Definition omy (npt : nat) (na : list N) : option (list N) :=
  if (length na <? npt)%nat then None else Some (skipn (length na - npt) na).

(** KernelValueStruct.formatNatArg; None = panic (type assertion / index out of range) *)
Definition ofmt_arg (fs : list (option kval)) (my : list N) (a : natarg) : option N :=
  match a with
  | NNum n => Some n
  | NField i =>
      match nth_error fs i with
      | Some None => Some 0                 (* not set optional # *)
      | Some (Some (KU32 n)) => Some n
      | Some (Some _) => None               (* type assertion to KernelValueUint32: panic if wrong type *)
      | None => None
      end
  | NParam i => nth_error my i
  end.

(** the package-level formatNatArg: cannot reference fields *)
Definition ofmt_arg_general (my : list N) (a : natarg) : option N :=
  match a with
  | NNum n => Some n
  | NField _ => None                        (* panic("general formatNatArg cannot reference fields") *)
  | NParam i => nth_error my i
  end.

Fixpoint ofmt_args (f : natarg -> option N) (stack : list N) (args : list natarg) : option (list N) :=
  match args with
  | [] => Some stack
  | a :: r =>
      match f a with
      | Some x => ofmt_args f (stack ++ [x]) r
      | None => None
      end
  end.

(** * ReadTL1 *)
Definition ost := (kval * bytes * list N)%type.        (* updated value, rest of input, returned natArgs *)
Definition ordres := option (ores ost).

Section ReadHelpers.
  Variable rec : nat -> bool -> list N -> kval -> bytes -> ordres.   (* field.ReadTL1 on (instance, bare, natArgs, value, r) *)
  Variable cr : nat -> option kval.                                  (* CreateValue(instance) *)

  (** the field loop of KernelValueStruct.ReadTL1; [i] = index of the first field of [fds] *)
  Fixpoint oread_fields (finish : nat) (my : list N) (fds : list field) (i : nat)
           (fs : list (option kval)) (na : list N) (b : bytes)
    : option (ores (list (option kval) * bytes * list N)) :=
    match fds with
    | [] => Some (OOk (fs, b, na))
    | fd :: fds' =>
        match ofmt_args (ofmt_arg fs my) (firstn finish na) (f_args fd) with
        | None => Some OPanic
        | Some na1 =>
            match (match f_mask fd with
                   | None => Some true
                   | Some (a, bit) => option_map (fun m => N.testbit m bit) (ofmt_arg fs my a)
                   end) with
            | None => Some OPanic
            | Some false => oread_fields finish my fds' (S i) fs na1 b       (* continue: the field stays as it was *)
            | Some true =>
                match (match nth i fs None with
                       | Some k => Some k
                       | None => cr (f_ty fd)                                (* field == nil: CreateValue *)
                       end) with
                | None => None
                | Some k =>
                    match rec (f_ty fd) (f_bare fd) na1 k b with
                    | None => None
                    | Some (OOk (k', b', na2)) => oread_fields finish my fds' (S i) (set_nth i (Some k') fs) na2 b'
                    | Some OEof => Some OEof
                    | Some OErr => Some OErr
                    | Some OPanic => Some OPanic
                    end
                end
            end
        end
    end.

  (** KernelValueStruct.ReadTL1.  len(v.fields) == len(instance.Fields()) by construction (CreateValueStruct);
      the model answers OPanic otherwise (Fields()[i] out of range) *)
  Definition oread_struct (npt : nat) (tag : N) (fds : list field) (bare : bool) (na : list N)
             (fs : list (option kval)) (b : bytes)
    : option (ores (list (option kval) * bytes * list N)) :=
    let go b' :=
      match omy npt na with
      | None => Some OPanic
      | Some my =>
          if negb (Nat.eqb (length fs) (length fds)) then Some OPanic
          else oread_fields (length na) my fds 0 fs na b'
      end in
    if bare then go b
    else match nat_r b with                                  (* basictl.NatReadExactTag *)
         | Ok (tg, b') => if tg =? tag then go b' else Some OErr
         | Eof => Some OEof
         | Reject => Some OErr
         end.

  (** the element loop of KernelValueArray.ReadTL1 / KernelValueDict.ReadTL1 *)
  Fixpoint oread_elems (ty : nat) (ebare : bool) (fmt : list N -> option (list N))
           (es : list kval) (na : list N) (b : bytes)
    : option (ores (list kval * bytes * list N)) :=
    match es with
    | [] => Some (OOk ([], b, na))
    | e :: es' =>
        match fmt na with
        | None => Some OPanic
        | Some na1 =>
            match rec ty ebare na1 e b with
            | None => None
            | Some (OOk (e', b', na2)) =>
                match oread_elems ty ebare fmt es' na2 b' with
                | None => None
                | Some (OOk (r, b'', na3)) => Some (OOk (e' :: r, b'', na3))
                | Some OEof => Some OEof
                | Some OErr => Some OErr
                | Some OPanic => Some OPanic
                end
            | Some OEof => Some OEof
            | Some OErr => Some OErr
            | Some OPanic => Some OPanic
            end
        end
    end.
End ReadHelpers.

(** first variant whose TLTag() equals the tag read *)
Fixpoint ofind_variant (s : schema) (vts : list nat) (tag : N) (i : nat) : option (nat * nat * N * list field) :=
  match vts with
  | [] => None
  | vt :: r =>
      match nth_error s vt with
      | Some (TStruct tg fds) => if tg =? tag then Some (i, vt, tg, fds) else ofind_variant s r tag (S i)
      | _ => ofind_variant s r tag (S i)
      end
  end.

(** CompareForMapKey on the key values (fields[0] of two dictionary elements) *)
Definition okey (e : kval) : option kval :=
  match e with
  | KStruct (k :: _) => k
  | _ => None
  end.

Fixpoint obytes_cmp (a b : bytes) : comparison :=          (* cmp.Compare on Go strings *)
  match a, b with
  | [], [] => Eq
  | [], _ :: _ => Lt
  | _ :: _, [] => Gt
  | x :: a', y :: b' => match x ?= y with Eq => obytes_cmp a' b' | c => c end
  end.

Definition ocmp_val (a b : kval) : comparison :=
  match a, b with
  | KU32 x, KU32 y => x ?= y
  | KI32 x, KI32 y => (sgn32 x ?= sgn32 y)%Z
  | KI64 x, KI64 y => (sgn64 x ?= sgn64 y)%Z
  | KStr x, KStr y => obytes_cmp x y
  | KBool x, KBool y => if negb x && y then Lt else if x && negb y then Gt else Eq
  | _, _ => Eq                                             (* other dynamic types / mismatch: 0 *)
  end.

(** a.fields[0].CompareForMapKey(b.fields[0]); a nil or missing key field (a Go panic) compares equal here:
    excluded by the kernel (the key is field 0 of __dict_field and has no mask) and by [ofly_ok] *)
Definition ocmp_key (a b : kval) : comparison :=
  match okey a, okey b with
  | Some x, Some y => ocmp_val x y
  | _, _ => Eq
  end.

(** slices.SortFunc as the stable insertion sort: an element moves left past strictly greater ones *)
Fixpoint oinsert (e : kval) (l : list kval) : list kval :=
  match l with
  | [] => [e]
  | x :: r => match ocmp_key e x with Lt => e :: l | _ => x :: oinsert e r end
  end.

Definition osort (l : list kval) : list kval := fold_left (fun acc e => oinsert e acc) l [].

(** slices.CompactFunc: drop an element equal to its predecessor *)
Fixpoint ocompact_from (p : kval) (l : list kval) : list kval :=
  match l with
  | [] => []
  | x :: r => match ocmp_key x p with Eq => ocompact_from x r | _ => x :: ocompact_from x r end
  end.

Definition ocompact (l : list kval) : list kval :=
  match l with
  | [] => []
  | x :: r => x :: ocompact_from x r
  end.

Definition odict_sort (l : list kval) : list kval := ocompact (osort l).

Definition lift_elems (mk : list kval -> kval) (x : option (ores (list kval * bytes * list N))) : ordres :=
  match x with
  | None => None
  | Some (OOk (es, b, na)) => Some (OOk (mk es, b, na))
  | Some OEof => Some OEof
  | Some OErr => Some OErr
  | Some OPanic => Some OPanic
  end.

(** [cf] = fuel given to CreateValue, [fuel] = nesting budget of the reader.  [dsort] = what KernelValueDict.sort()
    does to the elements; the interpreter is [oread] = [oread_gen odict_sort] (the parameter exists only so that the
    correspondence run can look at the elements in wire order, see [kdict_unstable]) *)
Fixpoint oread_gen (dsort : list kval -> list kval) (fuel : nat) (cf : nat) (s : schema) (np : list nat) (t : nat) (bare : bool)
         (na : list N) (v : kval) (b : bytes) : ordres :=
  match fuel with
  | O => None
  | S f =>
      let rec := oread_gen dsort f cf s np in
      let cr := ocreate cf s in
      match v with
      | KU32 _ =>
          match nat_r b with Ok (n, r) => Some (OOk (KU32 n, r, na)) | Eof => Some OEof | Reject => Some OErr end
      | KI32 _ =>
          match nat_r b with Ok (n, r) => Some (OOk (KI32 n, r, na)) | Eof => Some OEof | Reject => Some OErr end
      | KI64 _ =>
          match long_r b with Ok (n, r) => Some (OOk (KI64 n, r, na)) | Eof => Some OEof | Reject => Some OErr end
      | KStr _ =>
          match str1_r b with Ok (x, r) => Some (OOk (KStr x, r, na)) | Eof => Some OEof | Reject => Some OErr end
      | KBool _ =>
          match nth_error s t with
          | Some (TPrim (PBool ftg ttg)) =>
              match bool1_r ftg ttg b with Ok (x, r) => Some (OOk (KBool x, r, na)) | Eof => Some OEof | Reject => Some OErr end
          | _ => Some OPanic                 (* IsTL1Bool not ok *)
          end
      | KNoTL1 => Some OErr                  (* "byte/bit cannot be read from TL1" *)
      | KStruct fs =>
          match nth_error s t with
          | Some (TStruct tag fds) =>
              match oread_struct rec cr (nparams np t) tag fds bare na fs b with
              | None => None
              | Some (OOk (fs', b', na')) => Some (OOk (KStruct fs', b', na'))
              | Some OEof => Some OEof
              | Some OErr => Some OErr
              | Some OPanic => Some OPanic
              end
          | _ => Some OPanic
          end
      | KUnion idx vars =>
          match nth_error s t with
          | Some (TUnion vts) =>
              if bare then Some OPanic else
              match nat_r b with
              | Ok (tag, b1) =>
                  match ofind_variant s vts tag 0 with
                  | Some (i, vt, tg, fds) =>
                      (* setIndex(i): create the variant if its instance is nil, then its ReadTL1(bare = true) *)
                      match (match nth i vars None with
                             | Some k => Some k
                             | None => cr vt
                             end) with
                      | Some (KStruct fs) =>
                          match oread_struct rec cr (nparams np vt) tg fds true na fs b1 with
                          | None => None
                          | Some (OOk (fs', b', na')) => Some (OOk (KUnion i (set_nth i (Some (KStruct fs')) vars), b', na'))
                          | Some OEof => Some OEof
                          | Some OErr => Some OErr
                          | Some OPanic => Some OPanic
                          end
                      | Some _ => Some OPanic
                      | None => None
                      end
                  | None => Some OErr        (* no TL1 union variant found for tag *)
                  end
              | Eof => Some OEof
              | Reject => Some OErr
              end
          | _ => Some OPanic
          end
      | KArr es =>
          match nth_error s t with
          | Some (TArray k ef) =>
              if negb bare then Some OPanic else
              match omy (nparams np t) na with
              | None => Some OPanic
              | Some my =>
                  let finish := length na in
                  let fmt na' := ofmt_args (ofmt_arg_general my) (firstn finish na') (f_args ef) in
                  let loop es1 b1 := lift_elems KArr (oread_elems rec (f_ty ef) (f_bare ef) fmt es1 na b1) in
                  match k with
                  | AVector =>
                      match nat_r b with
                      | Ok (count, b1) =>
                          match oresize (cr (f_ty ef)) count es with
                          | Some es1 => loop es1 b1
                          | None => None
                          end
                      | Eof => Some OEof
                      | Reject => Some OErr
                      end
                  | ATupleDyn =>
                      match my with
                      | count :: _ =>
                          match oresize (cr (f_ty ef)) count es with
                          | Some es1 => loop es1 b
                          | None => None
                          end
                      | [] => Some OPanic    (* myNatArgs[0] *)
                      end
                  | ATupleFixed count =>
                      match oresize (cr (f_ty ef)) count es with
                      | Some es1 => loop es1 b
                      | None => None
                      end
                  end
              end
          | _ => Some OPanic
          end
      | KDict es =>
          match nth_error s t with
          | Some (TDict _ ef) =>
              if negb bare then Some OPanic else
              match omy (nparams np t) na with
              | None => Some OPanic
              | Some my =>
                  let finish := length na in
                  let fmt na' := ofmt_args (ofmt_arg_general my) (firstn finish na') (f_args ef) in
                  match nat_r b with
                  | Ok (count, b1) =>
                      match oresize (cr (f_ty ef)) count es with
                      | Some es1 =>
                          lift_elems (fun l => KDict (dsort l)) (oread_elems rec (f_ty ef) (f_bare ef) fmt es1 na b1)
                      | None => None
                      end
                  | Eof => Some OEof
                  | Reject => Some OErr
                  end
              end
          | _ => Some OPanic
          end
      end
  end.

Definition oread := oread_gen odict_sort.

(** diagnostics for the correspondence run: on the value read WITHOUT sorting, is there a dictionary with more than
    12 elements and a duplicate key?  There slices.SortFunc (pdqsort beyond insertion-sort size) does not specify
    which of the equal keys comes first, hence which one CompactFunc keeps. *)
Fixpoint kdict_unstable (k : kval) : bool :=
  let opts := fix go (l : list (option kval)) : bool :=
    match l with
    | [] => false
    | Some x :: r => kdict_unstable x || go r
    | None :: r => go r
    end in
  let elems := fix go (l : list kval) : bool :=
    match l with
    | [] => false
    | x :: r => kdict_unstable x || go r
    end in
  match k with
  | KStruct fs => opts fs
  | KUnion _ vars => opts vars
  | KArr es => elems es
  | KDict es => (Nat.ltb 12 (length es) && Nat.ltb (length (odict_sort es)) (length es)) || elems es
  | _ => false
  end.

(** * WriteTL1 *)
Definition owres := option (ores (bytes * list N)).       (* bytes appended, returned natArgs *)

Section WriteHelpers.
  Variable rec : nat -> bool -> list N -> kval -> owres.
  Variable cr : nat -> option kval.

  Fixpoint owrite_fields (finish : nat) (my : list N) (all : list (option kval)) (fds : list field)
           (fs : list (option kval)) (na : list N) : owres :=
    match fds, fs with
    | [], [] => Some (OOk ([], na))
    | fd :: fds', o :: fs' =>
        match ofmt_args (ofmt_arg all my) (firstn finish na) (f_args fd) with
        | None => Some OPanic
        | Some na1 =>
            match (match f_mask fd with
                   | None => Some true
                   | Some (a, bit) => option_map (fun m => N.testbit m bit) (ofmt_arg all my a)
                   end) with
            | None => Some OPanic
            | Some false => owrite_fields finish my all fds' fs' na1
            | Some true =>
                match (match o with Some k => Some k | None => cr (f_ty fd) end) with
                | None => None
                | Some k =>
                    match rec (f_ty fd) (f_bare fd) na1 k with
                    | None => None
                    | Some (OOk (b1, na2)) =>
                        match owrite_fields finish my all fds' fs' na2 with
                        | None => None
                        | Some (OOk (b2, na3)) => Some (OOk (b1 ++ b2, na3))
                        | Some e => Some e
                        end
                    | Some e => Some e
                    end
                end
            end
        end
    | _, _ => Some OPanic                       (* len(v.fields) <> len(Fields()) *)
    end.

  Definition owrite_struct (npt : nat) (tag : N) (fds : list field) (bare : bool) (na : list N)
             (fs : list (option kval)) : owres :=
    match omy npt na with
    | None => Some OPanic
    | Some my =>
        match owrite_fields (length na) my fs fds fs na with
        | None => None
        | Some (OOk (body, na')) => Some (OOk ((if bare then body else nat_w tag ++ body), na'))
        | Some e => Some e
        end
    end.

  Fixpoint owrite_elems (ty : nat) (ebare : bool) (fmt : list N -> option (list N)) (es : list kval) (na : list N) : owres :=
    match es with
    | [] => Some (OOk ([], na))
    | e :: es' =>
        match fmt na with
        | None => Some OPanic
        | Some na1 =>
            match rec ty ebare na1 e with
            | None => None
            | Some (OOk (b1, na2)) =>
                match owrite_elems ty ebare fmt es' na2 with
                | None => None
                | Some (OOk (b2, na3)) => Some (OOk (b1 ++ b2, na3))
                | Some e' => Some e'
                end
            | Some e' => Some e'
            end
        end
    end.
End WriteHelpers.

Definition prepend (h : bytes) (x : owres) : owres :=
  match x with
  | Some (OOk (b, na)) => Some (OOk (h ++ b, na))
  | y => y
  end.

Fixpoint owrite (fuel : nat) (cf : nat) (s : schema) (np : list nat) (t : nat) (bare : bool)
         (na : list N) (v : kval) : owres :=
  match fuel with
  | O => None
  | S f =>
      let rec := owrite f cf s np in
      let cr := ocreate cf s in
      match v with
      | KU32 n => Some (OOk (nat_w n, na))
      | KI32 n => Some (OOk (nat_w n, na))
      | KI64 n => Some (OOk (long_w n, na))
      | KStr x => match str1_w x with Some w => Some (OOk (w, na)) | None => Some OPanic end
      | KBool x =>
          match nth_error s t with
          | Some (TPrim (PBool ftg ttg)) => Some (OOk (nat_w (if x then ttg else ftg), na))
          | _ => Some OPanic
          end
      | KNoTL1 => Some OPanic                   (* "byte/bit cannot be saved to TL1" *)
      | KStruct fs =>
          match nth_error s t with
          | Some (TStruct tag fds) => owrite_struct rec cr (nparams np t) tag fds bare na fs
          | _ => Some OPanic
          end
      | KUnion idx vars =>
          match nth_error s t with
          | Some (TUnion vts) =>
              if bare then Some OPanic else
              match nth_error vars idx, nth_error vts idx with
              | Some (Some (KStruct fs)), Some vt =>       (* v.variants[v.index].WriteTL1(w, false, natArgs, ...) *)
                  match nth_error s vt with
                  | Some (TStruct tag fds) => owrite_struct rec cr (nparams np vt) tag fds false na fs
                  | _ => Some OPanic
                  end
              | _, _ => Some OPanic
              end
          | _ => Some OPanic
          end
      | KArr es =>
          match nth_error s t with
          | Some (TArray k ef) =>
              if negb bare then Some OPanic else
              match omy (nparams np t) na with
              | None => Some OPanic
              | Some my =>
                  let finish := length na in
                  let fmt na' := ofmt_args (ofmt_arg_general my) (firstn finish na') (f_args ef) in
                  match k with
                  | AVector =>                  (* WriteElementCountTL1(uint32(len(v.elements))) *)
                      prepend (nat_w (lenN es mod 4294967296)) (owrite_elems rec (f_ty ef) (f_bare ef) fmt es na)
                  | ATupleDyn =>
                      match my with
                      | count :: _ =>
                          match oresize (cr (f_ty ef)) count es with       (* RepairMasks *)
                          | Some es1 => owrite_elems rec (f_ty ef) (f_bare ef) fmt es1 na
                          | None => None
                          end
                      | [] => Some OPanic
                      end
                  | ATupleFixed count =>
                      match oresize (cr (f_ty ef)) count es with
                      | Some es1 => owrite_elems rec (f_ty ef) (f_bare ef) fmt es1 na
                      | None => None
                      end
                  end
              end
          | _ => Some OPanic
          end
      | KDict es =>
          match nth_error s t with
          | Some (TDict _ ef) =>
              if negb bare then Some OPanic else
              let es1 := odict_sort es in       (* v.sort() *)
              match omy (nparams np t) na with
              | None => Some OPanic
              | Some my =>
                  let finish := length na in
                  let fmt na' := ofmt_args (ofmt_arg_general my) (firstn finish na') (f_args ef) in
                  prepend (nat_w (lenN es1 mod 4294967296)) (owrite_elems rec (f_ty ef) (f_bare ef) fmt es1 na)
              end
          | _ => Some OPanic
          end
      end
  end.

(** * What the client observes: the wire value held by an interpreter value *)
Definition kabs_opts (f : kval -> value) (fs : list (option kval)) : list (option value) :=
  map (fun o => match o with Some k => Some (f k) | None => None end) fs.

Fixpoint kabs (k : kval) : value :=
  match k with
  | KU32 n | KI32 n | KI64 n => VNum n
  | KStr x => VStr x
  | KBool x => VBool x
  | KNoTL1 => VNum 0
  | KStruct fs => VStruct (map (fun o => match o with Some k' => Some (kabs k') | None => None end) fs)
  | KUnion idx vars =>
      VUnion idx ((fix pick (l : list (option kval)) (i : nat) {struct l} : list (option value) :=
                     match l, i with
                     | [], _ => []
                     | o :: _, O =>
                         match o with
                         | Some (KStruct fs) => map (fun o' => match o' with Some k' => Some (kabs k') | None => None end) fs
                         | _ => []
                         end
                     | _ :: r, S i' => pick r i'
                     end) vars idx)
  | KArr es => VArr (map kabs es)
  | KDict es => VArr (map kabs es)
  end.

(** dynamic typing of an interpreter value: the shape CreateValue / ReadTL1 give to a value of instance [t] *)
Section TypedHelpers.
  Variable rec : nat -> kval -> bool.
  Fixpoint typed_fields (fds : list field) (fs : list (option kval)) {struct fs} : bool :=
    match fds, fs with
    | [], [] => true
    | fd :: fds', o :: fs' =>
        (match o with
         | Some k => rec (f_ty fd) k
         | None => match f_mask fd with Some _ => true | None => false end      (* only a masked field can be nil *)
         end) && typed_fields fds' fs'
    | _, _ => false
    end.
  Fixpoint typed_variants (vts : list nat) (vars : list (option kval)) {struct vars} : bool :=
    match vts, vars with
    | [], [] => true
    | vt :: vts', o :: vars' => (match o with Some k => rec vt k | None => true end) && typed_variants vts' vars'
    | _, _ => false
    end.
  Fixpoint typed_elems (ty : nat) (es : list kval) : bool :=
    match es with
    | [] => true
    | e :: r => rec ty e && typed_elems ty r
    end.
End TypedHelpers.

Fixpoint ktyped (s : schema) (t : nat) (k : kval) {struct k} : bool :=
  match k, nth_error s t with
  | KU32 _, Some (TPrim PNat) => true
  | KI32 _, Some (TPrim PInt) | KI32 _, Some (TPrim PFloat) => true
  | KI64 _, Some (TPrim PLong) | KI64 _, Some (TPrim PDouble) => true
  | KStr _, Some (TPrim PString) => true
  | KBool _, Some (TPrim (PBool _ _)) => true
  | KNoTL1, Some (TPrim PNoTL1) => true
  | KStruct fs, Some (TStruct _ fds) => typed_fields (fun t' k' => ktyped s t' k') fds fs
  | KUnion idx vars, Some (TUnion vts) =>
      match nth_error vars idx with Some (Some _) => true | _ => false end        (* setIndex created the selected variant *)
      && typed_variants (fun t' k' => ktyped s t' k') vts vars
  | KArr es, Some (TArray _ ef) => typed_elems (fun t' k' => ktyped s t' k') (f_ty ef) es
  | KDict es, Some (TDict _ ef) => typed_elems (fun t' k' => ktyped s t' k') (f_ty ef) es
  | _, _ => false
  end.

(** nesting depth of the part of a value that WriteTL1 visits *)
Fixpoint kdepth (k : kval) : nat :=
  match k with
  | KStruct fs => S (fold_right (fun o m => Nat.max (match o with Some x => kdepth x | None => 0%nat end) m) 0%nat fs)
  | KUnion idx vars =>                      (* the selected variant's WriteTL1 runs at the union's own level *)
      Nat.max 1 ((fix pick (l : list (option kval)) (i : nat) {struct l} : nat :=
                    match l, i with
                    | [], _ => 0%nat
                    | o :: _, O => match o with Some x => kdepth x | None => 0%nat end
                    | _ :: r, S i' => pick r i'
                    end) vars idx)
  | KArr es | KDict es => S (fold_right (fun x m => Nat.max (kdepth x) m) 0%nat es)
  | _ => 1%nat
  end.

(** type-directed embedding of a wire value (used by the `enc` operation and the examples) *)
Fixpoint kembed (s : schema) (t : nat) (v : value) {struct v} : option kval :=
  let fields := fix go (fds : list field) (fs : list (option value)) {struct fs} : option (list (option kval)) :=
    match fds, fs with
    | [], [] => Some []
    | fd :: fds', o :: fs' =>
        match o with
        | None => option_map (cons None) (go fds' fs')
        | Some x =>
            match kembed s (f_ty fd) x with
            | Some k => option_map (cons (Some k)) (go fds' fs')
            | None => None
            end
        end
    | _, _ => None
    end in
  let elems ty := fix go (es : list value) : option (list kval) :=
    match es with
    | [] => Some []
    | e :: es' => match kembed s ty e with Some k => option_map (cons k) (go es') | None => None end
    end in
  match nth_error s t, v with
  | Some (TPrim PNat), VNum n => Some (KU32 n)
  | Some (TPrim PInt), VNum n | Some (TPrim PFloat), VNum n => Some (KI32 n)
  | Some (TPrim PLong), VNum n | Some (TPrim PDouble), VNum n => Some (KI64 n)
  | Some (TPrim PString), VStr x => Some (KStr x)
  | Some (TPrim (PBool _ _)), VBool x => Some (KBool x)
  | Some (TStruct _ fds), VStruct fs => option_map KStruct (fields fds fs)
  | Some (TUnion vts), VUnion idx fs =>
      match nth_error vts idx with
      | Some vt =>
          match nth_error s vt with
          | Some (TStruct _ fds) =>
              match fields fds fs with
              | Some ks => Some (KUnion idx (set_nth idx (Some (KStruct ks)) (map (fun _ => None) vts)))
              | None => None
              end
          | _ => None
          end
      | None => None
      end
  | Some (TArray _ ef), VArr es => option_map KArr (elems (f_ty ef) es)
  | Some (TDict _ ef), VArr es => option_map KDict (elems (f_ty ef) es)
  | _, _ => None
  end.

(** * Schema conditions under which the interpreter never panics (boolean; evaluated on every kernel dump) *)
Definition in_range (s : schema) (t : nat) : bool := Nat.ltb t (length s).

(** a reference (instance, bare flag) the interpreter can follow: unions are boxed, brackets and dicts are bare *)
Definition ref_ok (s : schema) (t : nat) (bare : bool) : bool :=
  match nth_error s t with
  | None => false
  | Some (TUnion _) => negb bare
  | Some (TArray _ _) | Some (TDict _ _) => bare
  | _ => true
  end.

Definition is_nat_field (s : schema) (fds : list field) (j : nat) : bool :=
  match nth_error fds j with
  | Some fd => match nth_error s (f_ty fd) with Some (TPrim PNat) => true | _ => false end
  | None => false
  end.

(** nat argument of a struct field: parameter indices in range, field references point to `#` fields *)
Definition sarg_ok (s : schema) (npt : nat) (fds : list field) (a : natarg) : bool :=
  match a with
  | NNum _ => true
  | NField j => is_nat_field s fds j
  | NParam i => Nat.ltb i npt
  end.

(** nat argument of an array / dict element: no field references *)
Definition garg_ok (npt : nat) (a : natarg) : bool :=
  match a with
  | NNum _ => true
  | NField _ => false
  | NParam i => Nat.ltb i npt
  end.

Definition sfield_ok (s : schema) (np : list nat) (npt : nat) (fds : list field) (fd : field) : bool :=
  ref_ok s (f_ty fd) (f_bare fd)
  && Nat.eqb (length (f_args fd)) (nparams np (f_ty fd))
  && forallb (sarg_ok s npt fds) (f_args fd)
  && match f_mask fd with Some (a, _) => sarg_ok s npt fds a | None => true end.

Definition elem_ok (s : schema) (np : list nat) (npt : nat) (ef : field) : bool :=
  ref_ok s (f_ty ef) (f_bare ef)
  && Nat.eqb (length (f_args ef)) (nparams np (f_ty ef))
  && forallb (garg_ok npt) (f_args ef).

(** the dictionary key is field 0 of the element struct, unmasked, of the primitive type [kp] *)
Definition dict_key_ok (s : schema) (kp : prim) (ef : field) : bool :=
  match nth_error s (f_ty ef) with
  | Some (TStruct _ (kf :: _)) =>
      match f_mask kf, nth_error s (f_ty kf) with
      | None, Some (TPrim p) =>
          match p, kp with
          | PNat, PNat | PInt, PInt | PLong, PLong | PString, PString => true
          | PBool a b, PBool c d => (a =? c) && (b =? d)
          | _, _ => false
          end
      | _, _ => false
      end
  | _ => false
  end.

Definition otydef_ok (s : schema) (np : list nat) (t : nat) (d : tydef) : bool :=
  let npt := nparams np t in
  match d with
  | TPrim _ => true
  | TStruct _ fds => forallb (sfield_ok s np npt fds) fds
  | TUnion vts => forallb (fun vt => Nat.eqb (nparams np vt) npt) vts
  | TArray k ef => elem_ok s np npt ef && match k with ATupleDyn => Nat.ltb 0 npt | _ => true end
  | TDict kp ef => elem_ok s np npt ef && dict_key_ok s kp ef
  end.

Fixpoint otydefs_ok (s : schema) (np : list nat) (t : nat) (l : list tydef) : bool :=
  match l with
  | [] => true
  | d :: r => otydef_ok s np t d && otydefs_ok s np (S t) r
  end.

Definition ofly_ok (s : schema) (np : list nat) : bool := otydefs_ok s np 0 s.

(** CreateValue produces a value for every instance of the schema with fuel [cf] *)
Definition create_total (cf : nat) (s : schema) : bool :=
  forallb (fun t => match ocreate cf s t with Some _ => true | None => false end) (seq 0 (length s)).

Definition nodict (s : schema) : bool :=
  forallb (fun d => match d with TDict _ _ => false | _ => true end) s.

(** instances that do not reach a dictionary: [df] flags instances (computed outside, CHECKED here): a flagged instance
    is not a dictionary and refers only to flagged instances *)
Definition refs (d : tydef) : list nat :=
  match d with
  | TPrim _ => []
  | TStruct _ fds => map f_ty fds
  | TUnion vts => vts
  | TArray _ ef | TDict _ ef => [f_ty ef]
  end.

Definition dfree (df : list bool) (t : nat) : bool := nth t df false.

Fixpoint df_ok_from (df : list bool) (t : nat) (l : list tydef) : bool :=
  match l with
  | [] => true
  | d :: r =>
      (if dfree df t
       then match d with TDict _ _ => false | _ => true end && forallb (dfree df) (refs d)
       else true) && df_ok_from df (S t) r
  end.

Definition df_ok (s : schema) (df : list bool) : bool := df_ok_from df 0 s.

(** no field / element refers to a TL2-only primitive (byte, bit, uint64): the part of the IR on which the model
    does not distinguish what the interpreter distinguishes *)
Definition notl1_free (s : schema) : bool :=
  let bad t := match nth_error s t with Some (TPrim PNoTL1) => true | _ => false end in
  forallb (fun d => match d with
                    | TStruct _ fds => forallb (fun fd => negb (bad (f_ty fd))) fds
                    | TArray _ ef | TDict _ ef => negb (bad (f_ty ef))
                    | _ => true
                    end) s.

(** * The operations of the correspondence run *)
Inductive oobs :=
| ObsOk (consumed : nat) (rewritten : option bytes)       (* None = WriteTL1 panicked *)
| ObsEof
| ObsReject
| ObsPanic
| ObsUnsupported                                          (* CreateValue produced no value *)
| ObsFuel.

(** ReadTL1(in, nil, bare, nil) into the value [v0]; WriteTL1(&bb, bare, nil, ...) of the result *)
Definition oread_write (fuel cf : nat) (s : schema) (np : list nat) (t : nat) (bare : bool) (v0 : kval) (b : bytes) : oobs :=
  match oread fuel cf s np t bare [] v0 b with
  | None => ObsFuel
  | Some (OOk (v, rest, _)) =>
      ObsOk (length b - length rest)
            (match owrite fuel cf s np t bare [] v with
             | Some (OOk (w, _)) => Some w
             | _ => None
             end)
  | Some OEof => ObsEof
  | Some OErr => ObsReject
  | Some OPanic => ObsPanic
  end.

(** the client's use: a fresh value from CreateValue *)
Definition orw1 (fuel cf : nat) (s : schema) (np : list nat) (t : nat) (bare : bool) (b : bytes) : oobs :=
  match ocreate cf s t with
  | None => ObsUnsupported
  | Some v0 => oread_write fuel cf s np t bare v0 b
  end.

(** a value that has been read into before: ReadTL1(b1) then ReadTL1(b2) on the same KernelValue *)
Definition orw1x2 (fuel cf : nat) (s : schema) (np : list nat) (t : nat) (bare : bool) (b1 b2 : bytes) : oobs :=
  match ocreate cf s t with
  | None => ObsUnsupported
  | Some v0 =>
      match oread fuel cf s np t bare [] v0 b1 with
      | Some (OOk (v1, _, _)) => oread_write fuel cf s np t bare v1 b2
      | _ => ObsUnsupported
      end
  end.

Definition oenc (fuel cf : nat) (s : schema) (np : list nat) (t : nat) (bare : bool) (ps : list N) (v : value) : option bytes :=
  match kembed s t v with
  | Some k =>
      match owrite fuel cf s np t bare ps k with
      | Some (OOk (w, _)) => Some w
      | _ => None
      end
  | None => None
  end.
