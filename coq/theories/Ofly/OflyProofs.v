(** Proofs about the interpreter model (OflyModel) against the model of the generated code (Tl1Model):
    the interpreter's ReadTL1 on a fresh value simulates [dec1] without the length-sanity check, its WriteTL1
    produces the bytes of [enc1] -- for every well-formed schema the interpreter can follow ([ofly_ok]). *)
From Coq Require Import ZArith Lia ZifyN ZifyNat ZifyBool.
From TLV Require Import Prim.PrimModel Tl1.Tl1Model Tl1.Tl1Proofs Ofly.OflyModel.
Ltac Zify.zify_post_hook ::= Z.div_mod_to_equations.
Open Scope N_scope.

(** * lists *)
Lemma set_nth_app {A} (done : list A) o x todo :
  set_nth (length done) x (done ++ o :: todo) = done ++ x :: todo.
Proof. induction done as [|d done IH]; cbn [set_nth app length]; [reflexivity|]. now rewrite IH. Qed.

Lemma nth_app_here {A} (done : list A) o todo d : nth (length done) (done ++ o :: todo) d = o.
Proof. induction done as [|x done IH]; cbn [nth app length]; auto. Qed.

Lemma nth_error_app_lt {A} (l l' : list A) j : (j < length l)%nat -> nth_error (l ++ l') j = nth_error l j.
Proof. intros H. now apply nth_error_app1. Qed.

Lemma nth_error_set_nth {A} (l : list A) i x : (i < length l)%nat -> nth_error (set_nth i x l) i = Some x.
Proof.
  revert i; induction l as [|y l IH]; intros i H; cbn [length] in H; [lia|].
  destruct i as [|i]; cbn [set_nth nth_error]; [reflexivity|]. apply IH. lia.
Qed.

Lemma set_nth_length {A} (l : list A) i x : length (set_nth i x l) = length l.
Proof. revert i; induction l as [|y l IH]; intros [|i]; cbn [set_nth length]; auto. Qed.

Lemma firstn_app_exact {A} (l l' : list A) : firstn (length l) (l ++ l') = l.
Proof. induction l as [|x l IH]; cbn [firstn length app]; [now destruct l'|]. now rewrite IH. Qed.

Lemma skipn_app_exact {A} (l l' : list A) : skipn (length l) (l ++ l') = l'.
Proof. induction l as [|x l IH]; cbn [skipn length app]; auto. Qed.

(** * relations on results *)
Inductive optrel {A B} (R : A -> B -> Prop) : option A -> option B -> Prop :=
| optrel_none : optrel R None None
| optrel_some a b : R a b -> optrel R (Some a) (Some b).

Definition rel_out {A B} (P : A -> B -> Prop) (o : option (ores A)) (d : option (res B)) : Prop :=
  match o, d with
  | None, None => True
  | Some (OOk a), Some (Ok b) => P a b
  | Some OEof, Some Eof => True
  | Some OErr, Some Reject => True
  | _, _ => False
  end.

Definition kabs_o (o : option kval) : option value :=
  match o with Some k => Some (kabs k) | None => None end.

Lemma kabs_struct fs : kabs (KStruct fs) = VStruct (map kabs_o fs).
Proof. reflexivity. Qed.

Lemma kabs_union i vars :
  kabs (KUnion i vars) =
  VUnion i (match nth_error vars i with Some (Some (KStruct fs)) => map kabs_o fs | _ => [] end).
Proof.
  cbn [kabs]. f_equal. revert i; induction vars as [|o vars IH]; intros i.
  - now destruct i.
  - destruct i as [|i]; cbn [nth_error]; [|apply IH].
    destruct o as [[]|]; reflexivity.
Qed.

(** * nat arguments *)
Lemma omy_app npt st ps : length ps = npt -> omy npt (st ++ ps) = Some ps.
Proof.
  intros H. unfold omy. rewrite app_length.
  destruct (length st + length ps <? npt)%nat eqn:E; [lia|].
  f_equal. replace (length st + length ps - npt)%nat with (length st) by lia. apply skipn_app_exact.
Qed.

Lemma ofmt_args_spec f g stack args :
  Forall (fun a => f a = Some (g a)) args -> ofmt_args f stack args = Some (stack ++ map g args).
Proof.
  revert stack; induction args as [|a args IH]; intros stack H; cbn [ofmt_args map].
  - now rewrite app_nil_r.
  - apply Forall_cons_iff in H as [Ha H]. rewrite Ha, (IH _ H), <- app_assoc. reflexivity.
Qed.

(** * typing helpers as Forall2 *)
Definition otyped (s : schema) (t : nat) (o : option kval) : Prop :=
  match o with Some k => ktyped s t k = true | None => True end.

Definition ftyped (s : schema) (fd : field) (o : option kval) : Prop :=
  match o with Some k => ktyped s (f_ty fd) k = true | None => f_mask fd <> None end.

Lemma typed_fields_iff s fds fs :
  typed_fields (fun t' k' => ktyped s t' k') fds fs = true <-> Forall2 (ftyped s) fds fs.
Proof.
  revert fs; induction fds as [|fd fds IH]; intros [|o fs]; cbn [typed_fields]; split; intros H;
    try discriminate; try constructor; try (inversion H; fail).
  - apply andb_prop in H as [H1 H2]. destruct o; cbn [ftyped]; [exact H1|]. now destruct (f_mask fd).
  - apply andb_prop in H as [H1 H2]. now apply IH.
  - inversion H as [|? ? ? ? H1 H2]; subst. apply andb_true_intro; split; [|now apply IH].
    destruct o; cbn [ftyped] in H1; [exact H1|]. destruct (f_mask fd); [reflexivity|congruence].
Qed.

Lemma typed_variants_iff s vts vars :
  typed_variants (fun t' k' => ktyped s t' k') vts vars = true <-> Forall2 (fun vt o => otyped s vt o) vts vars.
Proof.
  revert vars; induction vts as [|vt vts IH]; intros [|o vars]; cbn [typed_variants]; split; intros H;
    try discriminate; try constructor; try (inversion H; fail).
  - apply andb_prop in H as [H1 H2]. destruct o; exact H1 || exact I.
  - apply andb_prop in H as [H1 H2]. now apply IH.
  - inversion H as [|? ? ? ? H1 H2]; subst. apply andb_true_intro; split; [destruct o; auto|now apply IH].
Qed.

Lemma typed_elems_iff s ty es :
  typed_elems (fun t' k' => ktyped s t' k') ty es = true <-> Forall (fun k => ktyped s ty k = true) es.
Proof.
  induction es as [|e es IH]; cbn [typed_elems]; split; intros H; try constructor.
  - now apply andb_prop in H as [H1 _].
  - apply andb_prop in H as [_ H2]. now apply IH.
  - inversion H; subst. apply andb_true_intro; split; [assumption|now apply IH].
Qed.

(** * defaults: values CreateValue produces *)
Section Defaults.
  Variable s : schema.

  Definition isdef (t : nat) (k : kval) : Prop := exists f, ocreate f s t = Some k.

  Definition deffield (fd : field) (o : option kval) : Prop :=
    match f_mask fd with
    | Some _ => o = None
    | None => exists k, o = Some k /\ isdef (f_ty fd) k
    end.

  Lemma ocreate_fields_def f fds fs :
    ocreate_fields (ocreate f s) fds = Some fs -> Forall2 deffield fds fs.
  Proof.
    revert fs; induction fds as [|fd fds IH]; intros fs H; cbn [ocreate_fields] in H.
    - injection H as <-. constructor.
    - destruct (f_mask fd) as [m|] eqn:Em.
      + destruct (ocreate_fields (ocreate f s) fds) as [r|]; [|discriminate]. injection H as <-.
        constructor; [unfold deffield; now rewrite Em|now apply IH].
      + destruct (ocreate f s (f_ty fd)) as [k|] eqn:Ek; [|discriminate].
        destruct (ocreate_fields (ocreate f s) fds) as [r|]; [|discriminate]. injection H as <-.
        constructor; [unfold deffield; rewrite Em; exists k; split; [reflexivity|now exists f]|now apply IH].
  Qed.

  Lemma isdef_prim t p k : nth_error s t = Some (TPrim p) -> isdef t k -> k = ocreate_prim p.
  Proof. intros E [[|f] H]; cbn [ocreate] in H; [discriminate|]. rewrite E in H. now injection H. Qed.

  Lemma isdef_struct t tag fds k : nth_error s t = Some (TStruct tag fds) -> isdef t k ->
    exists fs, k = KStruct fs /\ Forall2 deffield fds fs.
  Proof.
    intros E [[|f] H]; cbn [ocreate] in H; [discriminate|]. rewrite E in H.
    destruct (ocreate_fields (ocreate f s) fds) as [fs|] eqn:Ef; [|discriminate]. injection H as <-.
    exists fs; split; [reflexivity|now apply ocreate_fields_def with f].
  Qed.

  Lemma isdef_union t vts k : nth_error s t = Some (TUnion vts) -> isdef t k ->
    exists v0 rest k0, vts = v0 :: rest /\ k = KUnion 0 (Some k0 :: map (fun _ => None) rest) /\ isdef v0 k0.
  Proof.
    intros E [[|f] H]; cbn [ocreate] in H; [discriminate|]. rewrite E in H.
    destruct vts as [|v0 rest]; [discriminate|].
    destruct (ocreate f s v0) as [k0|] eqn:E0; [|discriminate]. injection H as <-.
    exists v0, rest, k0. repeat split. now exists f.
  Qed.

  Lemma isdef_array t kd ef k : nth_error s t = Some (TArray kd ef) -> isdef t k ->
    exists es, k = KArr es /\ Forall (isdef (f_ty ef)) es /\
               length es = match kd with ATupleFixed c => N.to_nat c | _ => 0%nat end.
  Proof.
    intros E [[|f] H]; cbn [ocreate] in H; [discriminate|]. rewrite E in H.
    destruct kd as [| |c].
    - injection H as <-. exists []. repeat split. constructor.
    - injection H as <-. exists []. repeat split. constructor.
    - destruct (c =? 0) eqn:Ec.
      + injection H as <-. exists []. repeat split; [constructor|cbn [length]; lia].
      + destruct (ocreate f s (f_ty ef)) as [d|] eqn:Ed; [|discriminate]. injection H as <-.
        exists (repeat d (N.to_nat c)). repeat split; [|apply repeat_length].
        apply Forall_forall. intros x Hx. apply repeat_spec in Hx. subst x. now exists f.
  Qed.

  Lemma isdef_dict t kp ef k : nth_error s t = Some (TDict kp ef) -> isdef t k -> k = KDict [].
  Proof. intros E [[|f] H]; cbn [ocreate] in H; [discriminate|]. rewrite E in H. now injection H. Qed.

  Lemma create_total_def cf t : create_total cf s = true -> (t < length s)%nat -> exists k, ocreate cf s t = Some k.
  Proof.
    intros H Ht. unfold create_total in H. rewrite forallb_forall in H.
    specialize (H t). destruct (ocreate cf s t) as [k|]; [now exists k|].
    assert (false = true); [|discriminate]. apply H. apply in_seq. lia.
  Qed.

  (** a default is well typed *)
  Lemma isdef_typed : forall f t k, ocreate f s t = Some k -> ktyped s t k = true.
  Proof.
    induction f as [|f IH]; intros t k H; cbn [ocreate] in H; [discriminate|].
    destruct (nth_error s t) as [[p|tag fds|vts|kd ef|kp ef]|] eqn:E; [| | | | |discriminate].
    - injection H as <-. destruct p; cbn [ocreate_prim ktyped]; rewrite E; reflexivity.
    - destruct (ocreate_fields (ocreate f s) fds) as [fs|] eqn:Ef; [|discriminate]. injection H as <-.
      cbn [ktyped]. rewrite E. apply typed_fields_iff.
      clear E. revert fs Ef; induction fds as [|fd fds IHf]; intros fs Ef; cbn [ocreate_fields] in Ef.
      + injection Ef as <-. constructor.
      + destruct (f_mask fd) eqn:Em.
        * destruct (ocreate_fields (ocreate f s) fds) as [r|]; [|discriminate]. injection Ef as <-.
          constructor; [cbn [ftyped]; congruence|now apply IHf].
        * destruct (ocreate f s (f_ty fd)) as [k|] eqn:Ek; [|discriminate].
          destruct (ocreate_fields (ocreate f s) fds) as [r|]; [|discriminate]. injection Ef as <-.
          constructor; [cbn [ftyped]; now apply IH|now apply IHf].
    - destruct vts as [|v0 rest]; [discriminate|].
      destruct (ocreate f s v0) as [k0|] eqn:E0; [|discriminate]. injection H as <-.
      cbn [ktyped]. rewrite E. cbn [nth_error andb]. apply typed_variants_iff.
      constructor; [cbn [otyped]; now apply IH|].
      clear. induction rest; cbn [map]; constructor; [exact I|assumption].
    - destruct kd as [| |c].
      + injection H as <-. cbn [ktyped]. now rewrite E.
      + injection H as <-. cbn [ktyped]. now rewrite E.
      + destruct (c =? 0); [injection H as <-; cbn [ktyped]; now rewrite E|].
        destruct (ocreate f s (f_ty ef)) as [d|] eqn:Ed; [|discriminate]. injection H as <-.
        cbn [ktyped]. rewrite E. apply typed_elems_iff. apply Forall_forall. intros x Hx.
        apply repeat_spec in Hx. subst x. now apply IH.
    - injection H as <-. cbn [ktyped]. now rewrite E.
  Qed.

  Lemma isdef_ktyped t k : isdef t k -> ktyped s t k = true.
  Proof. intros [f H]. now apply isdef_typed with f. Qed.
End Defaults.

(** * the interpreter's reader simulates the generated reader *)
Lemma Forall2_nth_l {A B} (P : A -> B -> Prop) l l' j a :
  Forall2 P l l' -> nth_error l j = Some a -> exists b, nth_error l' j = Some b /\ P a b.
Proof.
  intros H; revert j; induction H as [|x y l l' Hxy H IH]; intros [|j] E; cbn [nth_error] in *; try discriminate.
  - injection E as <-. eauto.
  - now apply IH.
Qed.

Lemma Forall2_len {A B} (P : A -> B -> Prop) l l' : Forall2 P l l' -> length l = length l'.
Proof. induction 1; cbn [length]; auto. Qed.

Lemma In_firstn_incl {A} (l : list A) n x : In x (firstn n l) -> In x l.
Proof.
  revert n; induction l as [|y l IH]; intros [|n] H; cbn [firstn] in H; try contradiction.
  destruct H as [->|H]; [now left|right; now apply IH with n].
Qed.

Lemma Forall2_snoc {A B} (P : A -> B -> Prop) l l' a b : Forall2 P l l' -> P a b -> Forall2 P (l ++ [a]) (l' ++ [b]).
Proof. intros H Hab. apply Forall2_app; [assumption|]. constructor; [assumption|constructor]. Qed.

Lemma ktyped_nat s t k : nth_error s t = Some (TPrim PNat) -> ktyped s t k = true -> exists n, k = KU32 n.
Proof. intros E H. destruct k; cbn [ktyped] in H; rewrite E in H; try discriminate. eauto. Qed.

Lemma otydefs_lookup s np : forall l i j d,
  otydefs_ok s np i l = true -> nth_error l j = Some d -> otydef_ok s np (i + j) d = true.
Proof.
  induction l as [|x l IH]; intros i j d H E; [now destruct j|].
  cbn [otydefs_ok] in H. apply andb_prop in H as [H1 H2].
  destruct j as [|j]; cbn [nth_error] in E.
  - injection E as <-. now rewrite Nat.add_0_r.
  - replace (i + S j)%nat with (S i + j)%nat by lia. now apply IH.
Qed.

Lemma ofly_lookup s np t d : ofly_ok s np = true -> nth_error s t = Some d -> otydef_ok s np t d = true.
Proof. intros H E. exact (otydefs_lookup s np s 0%nat t d H E). Qed.

Lemma ref_ok_range s t bare : ref_ok s t bare = true -> (t < length s)%nat.
Proof.
  unfold ref_ok. intros H. apply nth_error_Some. now destruct (nth_error s t).
Qed.

Lemma garg_sim npt ps a : length ps = npt -> garg_ok npt a = true ->
  ofmt_arg_general ps a = Some (eval_natarg ps [] a).
Proof.
  intros Hps H. destruct a as [n|j|i]; cbn [garg_ok ofmt_arg_general eval_natarg] in *; try discriminate; [reflexivity|].
  apply Nat.ltb_lt in H. apply nth_error_nth'. lia.
Qed.


Definition odepth (f : nat) (o : option kval) : Prop := match o with Some x => (kdepth x <= f)%nat | None => True end.

Lemma kdepth_opts_rev fs f : Forall (odepth f) fs ->
  (fold_right (fun o m => Nat.max (match o with Some x => kdepth x | None => 0%nat end) m) 0%nat fs <= f)%nat.
Proof.
  induction 1 as [|o fs Ho _ IH]; cbn [fold_right]; [lia|]. destruct o; cbn [odepth] in Ho; lia.
Qed.

Lemma kdepth_elems_rev es f : Forall (fun x => (kdepth x <= f)%nat) es ->
  (fold_right (fun x m => Nat.max (kdepth x) m) 0%nat es <= f)%nat.
Proof. induction 1 as [|e es He _ IH]; cbn [fold_right]; lia. Qed.

Lemma kdepth_union_eq vars : forall idx kv, nth_error vars idx = Some (Some kv) ->
  kdepth (KUnion idx vars) = Nat.max 1 (kdepth kv).
Proof.
  cbn [kdepth]. induction vars as [|o vars IH]; intros [|idx] kv E; cbn [nth_error] in E; try discriminate.
  - injection E as ->. reflexivity.
  - apply IH. exact E.
Qed.

Section Sim.
  Variable s : schema.
  Variable np : list nat.
  Variable cf : nat.
  Hypothesis Hwf : wf_schema s = true.
  Hypothesis Hok : ofly_ok s np = true.
  Hypothesis Hct : create_total cf s = true.

  (** [R] relates the wire value held by the interpreter value to the value of the generated reader; it is
      instantiated with equality (schemas without dictionaries) and with "equal outside arrays" (all schemas) *)
  Variable R : value -> value -> Prop.
  Hypothesis R_refl : forall v, R v v.
  Hypothesis R_num : forall n v, R (VNum n) v -> v = VNum n.
  Hypothesis R_struct : forall fs gs, Forall2 (optrel R) fs gs -> R (VStruct fs) (VStruct gs).
  Hypothesis R_union : forall i fs gs, Forall2 (optrel R) fs gs -> R (VUnion i fs) (VUnion i gs).
  Hypothesis R_arr : forall es fs, Forall2 R es fs -> R (VArr es) (VArr fs).
  (** [PT]: the instances the statement is about, closed under references (all instances, or those that do not
      reach a dictionary) *)
  Variable PT : nat -> Prop.
  Hypothesis PT_closed : forall t d, PT t -> nth_error s t = Some d -> Forall PT (refs d).
  Hypothesis R_dict : forall t kp ef ks vs, PT t -> nth_error s t = Some (TDict kp ef) ->
    Forall2 (fun k v => R (kabs k) v) ks vs ->
    R (VArr (map kabs (odict_sort ks))) (VArr (fold_left (fun acc e => dict_insert kp e acc) vs [])).

  Definition krel (k : kval) (v : value) : Prop := R (kabs k) v.
  Definition okrel := optrel krel.
  Definition pre_ok (st ps na : list N) : Prop := exists e, na = st ++ ps ++ e.

  Lemma pre_ok_firstn st ps na : pre_ok st ps na -> firstn (length (st ++ ps)) na = st ++ ps.
  Proof. intros [e ->]. rewrite app_assoc. apply firstn_app_exact. Qed.

  Lemma pre_ok_ext st ps ps' e : pre_ok st ps ((st ++ ps) ++ ps' ++ e).
  Proof. exists (ps' ++ e). now rewrite <- app_assoc. Qed.

  Lemma pre_ok_self st ps : pre_ok st ps (st ++ ps).
  Proof. exists []. now rewrite app_nil_r. Qed.

  Lemma okrel_map done acc : Forall2 okrel done acc -> Forall2 (optrel R) (map kabs_o done) acc.
  Proof.
    induction 1 as [|o v done acc H _ IH]; cbn [map]; constructor; [|assumption].
    destruct H; cbn [kabs_o]; constructor. assumption.
  Qed.

  Definition read_post (f : nat) (t : nat) (st ps : list N) (x : ost) (y : value * bytes) : Prop :=
    let '(k, b, na) := x in let '(v, r) := y in
    krel k v /\ b = r /\ pre_ok st ps na /\ ktyped s t k = true /\ (kdepth k <= f)%nat.

  Definition RecOK (rec : nat -> bool -> list N -> kval -> bytes -> ordres)
             (drec : nat -> bool -> list N -> bytes -> dres) (f : nat) : Prop :=
    forall t bare st ps v0 b, PT t -> ref_ok s t bare = true -> length ps = nparams np t -> isdef s t v0 ->
      rel_out (read_post f t st ps) (rec t bare (st ++ ps) v0 b) (drec t bare ps b).

  Lemma ofmt_arg_sim npt fds_all ps done todo acc a :
    length ps = npt ->
    sarg_ok s npt fds_all a = true -> natarg_ok (length done) a = true ->
    Forall2 okrel done acc ->
    Forall2 (ftyped s) (firstn (length done) fds_all) done ->
    ofmt_arg (done ++ todo) ps a = Some (eval_natarg ps acc a).
  Proof.
    intros Hps Hs Hn Hrel Hty. destruct a as [n|j|i]; cbn [ofmt_arg eval_natarg].
    - reflexivity.
    - cbn [natarg_ok] in Hn. apply Nat.ltb_lt in Hn.
      rewrite nth_error_app_lt by assumption.
      destruct (nth_error done j) as [o|] eqn:Eo; [|apply nth_error_None in Eo; lia].
      destruct (Forall2_nth_l _ _ _ _ _ Hrel Eo) as [v' [Ev Hov]].
      unfold field_nat. rewrite Ev.
      cbn [sarg_ok] in Hs. unfold is_nat_field in Hs.
      destruct (nth_error fds_all j) as [fd|] eqn:Efd; [|discriminate].
      destruct (nth_error s (f_ty fd)) as [[[]| | | |]|] eqn:Et; try discriminate.
      assert (Efd' : nth_error (firstn (length done) fds_all) j = Some fd).
      { rewrite <- Efd. clear -Hn. revert j Hn. generalize (length done) as m. induction fds_all as [|x l IH]; intros m j Hj.
        - now destruct m, j.
        - destruct m as [|m]; [lia|]. destruct j as [|j]; cbn [firstn nth_error]; [reflexivity|]. apply IH. lia. }
      assert (Hto : ftyped s fd o).
      { clear -Hty Efd' Eo. revert j Efd' Eo. induction Hty as [|x y l l' Hxy _ IH]; intros [|j] E1 E2; cbn [nth_error] in *; try discriminate.
        - injection E1 as <-. injection E2 as <-. assumption.
        - now apply IH with j. }
      destruct Hov as [|k v Hkv]; [reflexivity|].
      cbn [ftyped] in Hto. destruct (ktyped_nat _ _ _ Et Hto) as [n ->].
      unfold krel in Hkv. cbn [kabs] in Hkv. now rewrite (R_num _ _ Hkv).
    - cbn [sarg_ok] in Hs. apply Nat.ltb_lt in Hs. apply nth_error_nth'. lia.
  Qed.

  Definition fields_post (f : nat) (fds_all : list field) (st ps : list N)
             (x : list (option kval) * bytes * list N) (y : list (option value) * bytes) : Prop :=
    let '(fs, b, na) := x in let '(acc, r) := y in
    Forall2 okrel fs acc /\ b = r /\ pre_ok st ps na /\ Forall2 (ftyped s) fds_all fs /\ Forall (odepth f) fs.

  Lemma oread_fields_sim rec drec f (Hrec : RecOK rec drec f) npt fds_all st ps :
    length ps = npt ->
    forall fds pre done todo acc na b,
      fds_all = pre ++ fds -> length pre = length done ->
      Forall2 okrel done acc ->
      Forall2 (ftyped s) pre done ->
      Forall (odepth f) done ->
      Forall2 (deffield s) fds todo ->
      Forall (fun fd => PT (f_ty fd)) fds ->
      pre_ok st ps na ->
      forallb (sfield_ok s np npt fds_all) fds = true ->
      fields_ok (length done) fds = true ->
      rel_out (fields_post f fds_all st ps)
        (oread_fields rec (ocreate cf s) (length (st ++ ps)) ps fds (length done) (done ++ todo) na b)
        (dec_fields drec ps fds acc b).
  Proof.
    intros Hps. subst npt. induction fds as [|fd fds IH]; intros pre done todo acc na b Hall Hlen Hrel Hty Hdd Hdef HP Hna Hsf Hfo.
    - inversion Hdef; subst. cbn [oread_fields dec_fields rel_out fields_post].
      rewrite !app_nil_r. repeat split; assumption.
    - inversion Hdef as [|? o ? todo' Hdo Hdef']; subst.
      apply Forall_cons_iff in HP as [HPfd HP].
      cbn [forallb] in Hsf. apply andb_prop in Hsf as [Hsfd Hsf].
      cbn [fields_ok] in Hfo. apply andb_prop in Hfo as [Hfd Hfo].
      unfold sfield_ok in Hsfd. apply andb_prop in Hsfd as [Hsfd Hmask]. apply andb_prop in Hsfd as [Hsfd Hargs].
      apply andb_prop in Hsfd as [Href Halen]. apply Nat.eqb_eq in Halen.
      unfold field_ok in Hfd. apply andb_prop in Hfd as [Hmn Han].
      assert (Hfirst : firstn (length done) (pre ++ fd :: fds) = pre) by (rewrite <- Hlen; apply firstn_app_exact).
      cbn [oread_fields dec_fields].
      rewrite (pre_ok_firstn _ _ _ Hna).
      assert (Ea : ofmt_args (ofmt_arg (done ++ o :: todo') ps) (st ++ ps) (f_args fd)
                   = Some ((st ++ ps) ++ eval_args ps acc (f_args fd))).
      { apply ofmt_args_spec. rewrite forallb_forall in Hargs, Han. apply Forall_forall. intros a Ha.
        apply ofmt_arg_sim with (npt := length ps) (fds_all := pre ++ fd :: fds); auto. now rewrite Hfirst. }
      rewrite Ea.
      assert (Em : match f_mask fd with
                   | Some (a, bit) => option_map (fun m : N => N.testbit m bit) (ofmt_arg (done ++ o :: todo') ps a)
                   | None => Some true
                   end = Some (field_present ps acc fd)).
      { unfold field_present. destruct (f_mask fd) as [[a bit]|]; [|reflexivity].
        rewrite (ofmt_arg_sim (length ps) (pre ++ fd :: fds) ps done (o :: todo') acc a); auto. now rewrite Hfirst. }
      rewrite Em. clear Em Ea.
      destruct (field_present ps acc fd) eqn:Ep.
      + (* present: the value read into is a default *)
        assert (Hk : exists k, match nth (length done) (done ++ o :: todo') None with
                               | Some k => Some k
                               | None => ocreate cf s (f_ty fd)
                               end = Some k /\ isdef s (f_ty fd) k).
        { rewrite nth_app_here. unfold deffield in Hdo. destruct (f_mask fd).
          - subst o. destruct (create_total_def s cf (f_ty fd) Hct (ref_ok_range _ _ _ Href)) as [k Hk].
            exists k; split; [assumption|now exists cf].
          - destruct Hdo as [k [-> Hk]]. now exists k. }
        destruct Hk as [k [-> Hkdef]].
        assert (Hal : length (eval_args ps acc (f_args fd)) = nparams np (f_ty fd))
          by (unfold eval_args; now rewrite map_length).
        pose proof (Hrec (f_ty fd) (f_bare fd) (st ++ ps) (eval_args ps acc (f_args fd)) k b HPfd Href Hal Hkdef) as Hr.
        destruct (rec (f_ty fd) (f_bare fd) ((st ++ ps) ++ eval_args ps acc (f_args fd)) k b) as [[[[k' b'] na2]| | |]|];
          destruct (drec (f_ty fd) (f_bare fd) (eval_args ps acc (f_args fd)) b) as [[[v r]| |]|];
          cbn [rel_out read_post] in Hr; try contradiction; try exact I.
        destruct Hr as [Hkv [<- [[e ->] [Htk Hdk]]]].
        rewrite set_nth_app.
        replace (done ++ Some k' :: todo') with ((done ++ [Some k']) ++ todo') by (now rewrite <- app_assoc).
        replace (S (length done)) with (length (done ++ [Some k'])) by (rewrite app_length; cbn [length]; lia).
        apply IH with (pre := pre ++ [fd]).
        * now rewrite <- app_assoc.
        * rewrite !app_length. cbn [length]. lia.
        * apply Forall2_snoc; [assumption|constructor; assumption].
        * apply Forall2_snoc; [assumption|exact Htk].
        * apply Forall_app; split; [assumption|constructor; [exact Hdk|constructor]].
        * assumption.
        * assumption.
        * apply pre_ok_ext.
        * assumption.
        * rewrite app_length. cbn [length]. now rewrite Nat.add_1_r.
      + (* absent: only a masked field can be absent, and its default is nil *)
        assert (Ho : o = None).
        { unfold field_present in Ep. unfold deffield in Hdo. destruct (f_mask fd); [assumption|discriminate]. }
        subst o.
        replace (done ++ None :: todo') with ((done ++ [None]) ++ todo') by (now rewrite <- app_assoc).
        replace (S (length done)) with (length (done ++ [@None kval])) by (rewrite app_length; cbn [length]; lia).
        apply IH with (pre := pre ++ [fd]).
        * now rewrite <- app_assoc.
        * rewrite !app_length. cbn [length]. lia.
        * apply Forall2_snoc; [assumption|constructor].
        * apply Forall2_snoc; [assumption|]. cbn [ftyped]. unfold field_present in Ep. destruct (f_mask fd); [discriminate|discriminate].
        * apply Forall_app; split; [assumption|constructor; [exact I|constructor]].
        * assumption.
        * assumption.
        * eexists; now rewrite <- app_assoc.
        * assumption.
        * rewrite app_length. cbn [length]. now rewrite Nat.add_1_r.
  Qed.

  (** KernelValueStruct.ReadTL1 against the struct branch of the generated reader *)
  Definition dec_struct (drec : nat -> bool -> list N -> bytes -> dres) (tag : N) (fds : list field) (bare : bool)
             (ps : list N) (b : bytes) : option (res (list (option value) * bytes)) :=
    if bare then dec_fields drec ps fds [] b
    else match nat_r b with
         | Ok (tg, b') => if tg =? tag then dec_fields drec ps fds [] b' else Some Reject
         | Eof => Some Eof
         | Reject => Some Reject
         end.

  Lemma oread_struct_sim rec drec f (Hrec : RecOK rec drec f) t tag fds bare st ps fs0 b :
    nth_error s t = Some (TStruct tag fds) -> PT t -> length ps = nparams np t ->
    Forall2 (deffield s) fds fs0 ->
    rel_out (fields_post f fds st ps)
      (oread_struct rec (ocreate cf s) (nparams np t) tag fds bare (st ++ ps) fs0 b)
      (dec_struct drec tag fds bare ps b).
  Proof.
    intros E Pt Hps Hdef.
    assert (HP : Forall (fun fd => PT (f_ty fd)) fds).
    { pose proof (PT_closed _ _ Pt E) as Hc. cbn [refs] in Hc. now rewrite Forall_map in Hc. }
    pose proof (ofly_lookup _ _ _ _ Hok E) as Ho. cbn [otydef_ok] in Ho.
    pose proof (wf_lookup _ _ _ Hwf E) as Hw. cbn [tydef_ok] in Hw. apply andb_prop in Hw as [_ Hfo].
    assert (Hgo : forall b', rel_out (fields_post f fds st ps)
              (match omy (nparams np t) (st ++ ps) with
               | Some my => if negb (Nat.eqb (length fs0) (length fds)) then Some OPanic
                            else oread_fields rec (ocreate cf s) (length (st ++ ps)) my fds 0 fs0 (st ++ ps) b'
               | None => Some OPanic
               end)
              (dec_fields drec ps fds [] b')).
    { intros b'. rewrite (omy_app _ _ _ Hps).
      assert (Hl : length fs0 = length fds) by (symmetry; eapply Forall2_len; eassumption).
      rewrite Hl, Nat.eqb_refl. cbn [negb].
      apply (oread_fields_sim rec drec f Hrec (nparams np t) fds st ps Hps fds [] [] fs0 [] (st ++ ps) b');
        try reflexivity; try constructor; try assumption. apply pre_ok_self. }
    unfold oread_struct, dec_struct. destruct bare; [apply Hgo|].
    destruct (nat_r b) as [[tg b']| |]; cbn [rel_out]; try exact I.
    destruct (tg =? tag); [apply Hgo|exact I].
  Qed.

  (** union variants: both implementations take the first variant with the tag *)
  Lemma ofind_variant_spec : forall vts tag i0,
    match ofind_variant s vts tag i0 with
    | Some (i, vt, tg, fds) =>
        find_variant s vts tag i0 = Some (i, fds) /\ (i0 <= i)%nat /\ nth_error vts (i - i0) = Some vt /\ nth_error s vt = Some (TStruct tg fds)
    | None => find_variant s vts tag i0 = None
    end.
  Proof.
    induction vts as [|vt vts IH]; intros tag i0; cbn [ofind_variant find_variant]; [reflexivity|].
    destruct (nth_error s vt) as [[p|tg fds|l|kd ef|kp ef]|] eqn:E;
      try (specialize (IH tag (S i0)); destruct (ofind_variant s vts tag (S i0)) as [[[[i vt'] tg'] fds']|];
           [destruct IH as [H1 [H2 [H3 H4]]]; repeat split; try assumption; try lia;
            replace (i - i0)%nat with (S (i - S i0)) by lia; exact H3|exact IH]).
    destruct (tg =? tag) eqn:Et.
    - repeat split; try lia; [now rewrite Nat.sub_diag|assumption].
    - specialize (IH tag (S i0)). destruct (ofind_variant s vts tag (S i0)) as [[[[i vt'] tg'] fds']|]; [|exact IH].
      destruct IH as [H1 [H2 [H3 H4]]]. repeat split; try assumption; try lia.
      replace (i - i0)%nat with (S (i - S i0)) by lia. exact H3.
  Qed.

  (** array elements *)
  Definition elems_post (f : nat) (ty : nat) (st ps : list N) (acc : list value)
             (x : list kval * bytes * list N) (y : estate) : Prop :=
    let '(ks, b, na) := x in let '(racc, r) := y in
    exists vs, racc = rev vs ++ acc /\ Forall2 krel ks vs /\ b = r /\ pre_ok st ps na /\ Forall (fun k => ktyped s ty k = true) ks
               /\ Forall (fun k => (kdepth k <= f)%nat) ks.

  Lemma oread_elems_iter rec drec f (Hrec : RecOK rec drec f) ty ebare st ps eargs fmt :
    PT ty -> ref_ok s ty ebare = true -> length eargs = nparams np ty ->
    (forall na, pre_ok st ps na -> fmt na = Some ((st ++ ps) ++ eargs)) ->
    forall es acc na b, Forall (isdef s ty) es -> pre_ok st ps na ->
      rel_out (elems_post f ty st ps acc)
        (oread_elems rec ty ebare fmt es na b)
        (nat_iter (estep (drec ty ebare eargs)) (length es) (acc, b)).
  Proof.
    intros Pty Href Hal Hfmt. induction es as [|e es IH]; intros acc na b Hdef Hna.
    - cbn [oread_elems length nat_iter rel_out elems_post]. exists []. repeat split; auto.
    - apply Forall_cons_iff in Hdef as [He Hdef].
      cbn [oread_elems length nat_iter]. rewrite (Hfmt na Hna). unfold estep at 1. cbn [snd fst].
      pose proof (Hrec ty ebare (st ++ ps) eargs e b Pty Href Hal He) as Hr.
      destruct (rec ty ebare ((st ++ ps) ++ eargs) e b) as [[[[e' b'] na2]| | |]|];
        destruct (drec ty ebare eargs b) as [[[v r]| |]|]; cbn [rel_out read_post obind] in Hr |- *;
        try contradiction; try exact I.
      destruct Hr as [Hkv [<- [[x ->] [Htk Hdk]]]].
      specialize (IH (v :: acc) ((st ++ ps) ++ eargs ++ x) b' Hdef (pre_ok_ext _ _ _ _)).
      destruct (oread_elems rec ty ebare fmt es ((st ++ ps) ++ eargs ++ x) b') as [[[[ks b''] na3]| | |]|];
        destruct (nat_iter (estep (drec ty ebare eargs)) (length es) (v :: acc, b')) as [[[racc r]| |]|];
        cbn [rel_out elems_post] in IH |- *; try contradiction; try exact I.
      destruct IH as [vs [-> [Hvs [<- [Hna3 [Hty Hdp]]]]]].
      exists (v :: vs). split; [cbn [rev]; now rewrite <- app_assoc|].
      split; [constructor; assumption|]. split; [reflexivity|]. split; [assumption|]. split; constructor; assumption.
  Qed.

  Definition elems_post' (f : nat) (ty : nat) (st ps : list N) (x : list kval * bytes * list N) (y : list value * bytes) : Prop :=
    let '(ks, b, na) := x in let '(vs, r) := y in
    Forall2 krel ks vs /\ b = r /\ pre_ok st ps na /\ Forall (fun k => ktyped s ty k = true) ks
    /\ Forall (fun k => (kdepth k <= f)%nat) ks.

  Lemma oread_elems_sim rec drec f (Hrec : RecOK rec drec f) ty ebare st ps eargs fmt :
    PT ty -> ref_ok s ty ebare = true -> length eargs = nparams np ty ->
    (forall na, pre_ok st ps na -> fmt na = Some ((st ++ ps) ++ eargs)) ->
    forall es n na b, Forall (isdef s ty) es -> pre_ok st ps na -> length es = N.to_nat n ->
      rel_out (elems_post' f ty st ps)
        (oread_elems rec ty ebare fmt es na b)
        (dec_elems (drec ty ebare eargs) n b).
  Proof.
    intros Pty Href Hal Hfmt es n na b Hdef Hna Hlen.
    unfold dec_elems. destruct n as [|p].
    - destruct es; [|discriminate]. cbn [oread_elems rel_out elems_post']. repeat split; auto.
    - rewrite pos_iter_nat. change (N.to_nat (N.pos p)) with (Pos.to_nat p) in Hlen. rewrite <- Hlen.
      pose proof (oread_elems_iter rec drec f Hrec ty ebare st ps eargs fmt Pty Href Hal Hfmt es [] na b Hdef Hna) as H.
      destruct (oread_elems rec ty ebare fmt es na b) as [[[[ks b''] na3]| | |]|];
        destruct (nat_iter (estep (drec ty ebare eargs)) (length es) ([], b)) as [[[racc r]| |]|];
        cbn [rel_out elems_post elems_post'] in H |- *; try contradiction; try exact I.
      destruct H as [vs [-> [Hvs [<- [Hna3 [Hty Hdp]]]]]].
      rewrite app_nil_r, rev_involutive. repeat split; auto.
  Qed.

  Lemma oresize_default ty n es :
    Forall (isdef s ty) es -> (length es = 0%nat \/ length es = N.to_nat n) ->
    (ty < length s)%nat ->
    exists es1, oresize (ocreate cf s ty) n es = Some es1 /\ Forall (isdef s ty) es1 /\ length es1 = N.to_nat n.
  Proof.
    intros Hdef Hlen Hty. unfold oresize.
    destruct (length es <? N.to_nat n)%nat eqn:E.
    - destruct (create_total_def s cf ty Hct Hty) as [k Hk]. rewrite Hk.
      exists (es ++ repeat k (N.to_nat n - length es)). repeat split.
      + apply Forall_app; split; [assumption|]. apply Forall_forall. intros x Hx. apply repeat_spec in Hx. subst x. now exists cf.
      + rewrite app_length, repeat_length. apply Nat.ltb_lt in E. lia.
    - apply Nat.ltb_ge in E. exists (firstn (N.to_nat n) es). repeat split.
      + apply Forall_forall. intros x Hx. rewrite Forall_forall in Hdef. apply Hdef. eapply In_firstn_incl; eassumption.
      + rewrite firstn_length. lia.
  Qed.

  Lemma krel_map ks vs : Forall2 krel ks vs -> Forall2 R (map kabs ks) vs.
  Proof. induction 1; cbn [map]; constructor; assumption. Qed.

  Lemma Forall2_set_nth {A B} (P : A -> B -> Prop) l l' i a x :
    Forall2 P l l' -> nth_error l i = Some a -> P a x -> Forall2 P l (set_nth i x l').
  Proof.
    intros H; revert i; induction H as [|y z l l' Hyz H IH]; intros [|i] E Hax; cbn [nth_error set_nth] in *; try discriminate.
    - injection E as ->. constructor; assumption.
    - constructor; [assumption|]. now apply IH.
  Qed.

  Lemma nth_map_none {A B} (l : list A) i : nth i (map (fun _ => @None B) l) None = None.
  Proof. revert i; induction l as [|x l IH]; intros [|i]; cbn [map nth]; auto. Qed.

  (** the elements the interpreter keeps after sort() are among those it read *)
  Lemma oinsert_in e x : forall l, In x (oinsert e l) -> x = e \/ In x l.
  Proof.
    induction l as [|y l IH]; cbn [oinsert]; intros H.
    - destruct H as [<-|[]]. now left.
    - destruct (ocmp_key e y); cbn [In] in H |- *;
        try (destruct H as [<-|H]; [right; now left|destruct (IH H) as [->|H']; [now left|right; now right]]).
      destruct H as [<-|H]; [now left|right; exact H].
  Qed.

  Lemma osort_in x : forall l acc, In x (fold_left (fun acc e => oinsert e acc) l acc) -> In x l \/ In x acc.
  Proof.
    induction l as [|e l IH]; intros acc H; cbn [fold_left] in H; [now right|].
    destruct (IH _ H) as [H'|H']; [left; now right|].
    destruct (oinsert_in _ _ _ H') as [->|H'']; [left; now left|now right].
  Qed.

  Lemma ocompact_from_in x : forall l p, In x (ocompact_from p l) -> In x l.
  Proof.
    induction l as [|y l IH]; intros p H; cbn [ocompact_from] in H; [contradiction|].
    destruct (ocmp_key y p); cbn [In] in H |- *;
      try (destruct H as [<-|H]; [now left|right; now apply IH with y]).
    right. now apply IH with y.
  Qed.

  Lemma odict_sort_in x l : In x (odict_sort l) -> In x l.
  Proof.
    unfold odict_sort, osort. intros H.
    assert (H' : In x (fold_left (fun acc e => oinsert e acc) l [])).
    { destruct (fold_left (fun acc e => oinsert e acc) l []) as [|y r]; cbn [ocompact] in H; [contradiction|].
      destruct H as [<-|H]; [now left|right; now apply ocompact_from_in with y]. }
    destruct (osort_in _ _ _ H') as [H''|[]]. exact H''.
  Qed.

  Definition drec_of (f : nat) : nat -> bool -> list N -> bytes -> dres :=
    fun t bare ps b => dec1 f false s t bare ps b.

  Definition wrap_fields (mk : list (option value) -> value) (x : option (res (list (option value) * bytes))) : dres :=
    match x with
    | None => None
    | Some (Ok (fs, r)) => Some (Ok (mk fs, r))
    | Some Eof => Some Eof
    | Some Reject => Some Reject
    end.

  Theorem oread_sim : forall fuel, RecOK (oread fuel cf s np) (drec_of fuel) fuel.
  Proof.
    induction fuel as [|f IH]; intros t bare st ps v0 b Pt Href Hps Hdef; [exact I|].
    unfold drec_of, oread.
    destruct (nth_error s t) as [[p|tag fds|vts|kd ef|kp ef]|] eqn:E;
      [| | | | |unfold ref_ok in Href; rewrite E in Href; discriminate].
    - (* primitives *)
      rewrite (isdef_prim _ _ _ _ E Hdef).
      destruct p; cbn [ocreate_prim oread_gen dec1]; rewrite ?E; cbn [dec_prim].
      + destruct (nat_r b) as [[n r]| |]; cbn [rel_out read_post]; auto.
        repeat split; [apply R_refl|apply pre_ok_self|cbn [ktyped]; now rewrite E|cbn [kdepth]; lia].
      + destruct (nat_r b) as [[n r]| |]; cbn [rel_out read_post]; auto.
        repeat split; [apply R_refl|apply pre_ok_self|cbn [ktyped]; now rewrite E|cbn [kdepth]; lia].
      + destruct (nat_r b) as [[n r]| |]; cbn [rel_out read_post]; auto.
        repeat split; [apply R_refl|apply pre_ok_self|cbn [ktyped]; now rewrite E|cbn [kdepth]; lia].
      + destruct (long_r b) as [[n r]| |]; cbn [rel_out read_post]; auto.
        repeat split; [apply R_refl|apply pre_ok_self|cbn [ktyped]; now rewrite E|cbn [kdepth]; lia].
      + destruct (long_r b) as [[n r]| |]; cbn [rel_out read_post]; auto.
        repeat split; [apply R_refl|apply pre_ok_self|cbn [ktyped]; now rewrite E|cbn [kdepth]; lia].
      + destruct (str1_r b) as [[n r]| |]; cbn [rel_out read_post]; auto.
        repeat split; [apply R_refl|apply pre_ok_self|cbn [ktyped]; now rewrite E|cbn [kdepth]; lia].
      + destruct (bool1_r ftag ttag b) as [[n r]| |]; cbn [rel_out read_post]; auto.
        repeat split; [apply R_refl|apply pre_ok_self|cbn [ktyped]; now rewrite E|cbn [kdepth]; lia].
      + exact I.
    - (* struct *)
      destruct (isdef_struct _ _ _ _ _ E Hdef) as [fs0 [-> Hdf]].
      cbn [oread_gen dec1]. rewrite E.
      change (oread_gen odict_sort f cf s np) with (oread f cf s np).
      match goal with |- rel_out _ _ ?d =>
        assert (Hd : d = wrap_fields VStruct (dec_struct (drec_of f) tag fds bare ps b)) end.
      { unfold dec_struct, wrap_fields, drec_of. cbv zeta. destruct bare; [reflexivity|].
        destruct (nat_r b) as [[tg b']| |]; [destruct (tg =? tag)|..]; reflexivity. }
      rewrite Hd. clear Hd.
      pose proof (oread_struct_sim _ _ f IH t tag fds bare st ps fs0 b E Pt Hps Hdf) as H.
      destruct (oread_struct (oread f cf s np) (ocreate cf s) (nparams np t) tag fds bare (st ++ ps) fs0 b) as [[[[fs' b'] na']| | |]|];
        destruct (dec_struct (drec_of f) tag fds bare ps b) as [[[acc r]| |]|];
        cbn [rel_out fields_post wrap_fields read_post] in H |- *; try contradiction; try exact I.
      destruct H as [Hrel [<- [Hna [Hty Hdp]]]]. repeat split; try assumption.
      + unfold krel. rewrite kabs_struct. apply R_struct. now apply okrel_map.
      + cbn [ktyped]. rewrite E. now apply typed_fields_iff.
      + cbn [kdepth]. pose proof (kdepth_opts_rev _ _ Hdp). lia.
    - (* union *)
      destruct (isdef_union _ _ _ _ E Hdef) as [v0t [rest [k0 [-> [-> Hk0]]]]].
      assert (Hb : bare = false) by (unfold ref_ok in Href; rewrite E in Href; now destruct bare).
      subst bare.
      pose proof (ofly_lookup _ _ _ _ Hok E) as Ho. cbn [otydef_ok] in Ho. rewrite forallb_forall in Ho.
      pose proof (isdef_ktyped _ _ _ Hdef) as Htd. cbn [ktyped] in Htd. rewrite E in Htd.
      apply andb_prop in Htd as [_ Htv]. apply typed_variants_iff in Htv.
      cbn [oread_gen dec1]. rewrite E.
      change (oread_gen odict_sort f cf s np) with (oread f cf s np).
      destruct (nat_r b) as [[tag b1]| |]; cbn [rel_out]; try exact I.
      pose proof (ofind_variant_spec (v0t :: rest) tag 0) as Hf.
      destruct (ofind_variant s (v0t :: rest) tag 0) as [[[[i vt] tg] fds]|]; [|rewrite Hf; exact I].
      destruct Hf as [Hf [_ [Hvt Evt]]]. rewrite Nat.sub_0_r in Hvt. rewrite Hf.
      assert (Hin : In vt (v0t :: rest)) by (eapply nth_error_In; eassumption).
      assert (Hpsv : length ps = nparams np vt) by (specialize (Ho vt Hin); apply Nat.eqb_eq in Ho; lia).
      assert (Hi : (i < length (v0t :: rest))%nat) by (apply nth_error_Some; now rewrite Hvt).
      assert (Hk : exists fs, match nth i (Some k0 :: map (fun _ => None) rest) None with
                              | Some k => Some k
                              | None => ocreate cf s vt
                              end = Some (KStruct fs) /\ Forall2 (deffield s) fds fs).
      { destruct i as [|i'].
        - cbn [nth nth_error] in *. injection Hvt as <-.
          destruct (isdef_struct _ _ _ _ _ Evt Hk0) as [fs [-> Hfs]]. now exists fs.
        - cbn [nth]. rewrite nth_map_none.
          assert (Hr : (vt < length s)%nat) by (apply nth_error_Some; now rewrite Evt).
          destruct (create_total_def s cf vt Hct Hr) as [k Hk]. rewrite Hk.
          destruct (isdef_struct _ _ _ _ _ Evt (ex_intro _ cf Hk)) as [fs [-> Hfs]]. now exists fs. }
      destruct Hk as [fs [-> Hfs]].
      assert (Pvt : PT vt).
      { pose proof (PT_closed _ _ Pt E) as Hc. cbn [refs] in Hc. rewrite Forall_forall in Hc. now apply Hc. }
      pose proof (oread_struct_sim _ _ f IH vt tg fds true st ps fs b1 Evt Pvt Hpsv Hfs) as H.
      unfold dec_struct in H. change (dec_fields (drec_of f) ps fds [] b1) with (dec_fields (dec1 f false s) ps fds [] b1) in H.
      destruct (oread_struct (oread f cf s np) (ocreate cf s) (nparams np vt) tg fds true (st ++ ps) fs b1) as [[[[fs' b'] na']| | |]|];
        destruct (dec_fields (dec1 f false s) ps fds [] b1) as [[[acc r]| |]|];
        cbn [rel_out fields_post read_post] in H |- *; try contradiction; try exact I.
      destruct H as [Hrel [<- [Hna [Hty Hdp]]]]. repeat split; try assumption.
      + unfold krel. rewrite kabs_union, nth_error_set_nth.
        * apply R_union. now apply okrel_map.
        * cbn [length] in *. now rewrite map_length.
      + cbn [ktyped]. rewrite E. apply andb_true_intro; split.
        { rewrite nth_error_set_nth; [reflexivity|]. cbn [length] in *. now rewrite map_length. }
        apply typed_variants_iff. eapply Forall2_set_nth; [exact Htv|exact Hvt|].
        cbn [otyped ktyped]. rewrite Evt. now apply typed_fields_iff.
      + rewrite (kdepth_union_eq _ i (KStruct fs')).
        * cbn [kdepth]. pose proof (kdepth_opts_rev _ _ Hdp). lia.
        * apply nth_error_set_nth. cbn [length] in *. now rewrite map_length.
    - (* brackets *)
      destruct (isdef_array _ _ _ _ _ E Hdef) as [es0 [-> [Hes0 Hlen0]]].
      assert (Hb : bare = true) by (unfold ref_ok in Href; rewrite E in Href; exact Href).
      subst bare.
      pose proof (ofly_lookup _ _ _ _ Hok E) as Ho. cbn [otydef_ok] in Ho. apply andb_prop in Ho as [Hel Hdyn].
      unfold elem_ok in Hel. apply andb_prop in Hel as [Hel Hga]. apply andb_prop in Hel as [Heref Heal].
      apply Nat.eqb_eq in Heal.
      set (eargs := eval_args ps [] (f_args ef)).
      assert (Hal : length eargs = nparams np (f_ty ef)) by (unfold eargs, eval_args; now rewrite map_length).
      set (fmt := fun na' => ofmt_args (ofmt_arg_general ps) (firstn (length (st ++ ps)) na') (f_args ef)).
      assert (Hfmt : forall na, pre_ok st ps na -> fmt na = Some ((st ++ ps) ++ eargs)).
      { intros na Hna. unfold fmt. rewrite (pre_ok_firstn _ _ _ Hna). apply ofmt_args_spec.
        rewrite forallb_forall in Hga. apply Forall_forall. intros a Ha. apply garg_sim with (npt := nparams np t); auto. }
      assert (Hloop : forall es1 n b1, Forall (isdef s (f_ty ef)) es1 -> length es1 = N.to_nat n ->
                 rel_out (read_post (S f) t st ps)
                   (lift_elems KArr (oread_elems (oread f cf s np) (f_ty ef) (f_bare ef) fmt es1 (st ++ ps) b1))
                   (match dec_elems (dec1 f false s (f_ty ef) (f_bare ef) eargs) n b1 with
                    | None => None
                    | Some (Ok (es, r)) => Some (Ok (VArr es, r))
                    | Some Eof => Some Eof
                    | Some Reject => Some Reject
                    end)).
      { intros es1 n b1 Hd1 Hl1.
        assert (Pe : PT (f_ty ef)).
        { pose proof (PT_closed _ _ Pt E) as Hc. cbn [refs] in Hc. now apply Forall_cons_iff in Hc as [Hc _]. }
        pose proof (oread_elems_sim _ _ f IH (f_ty ef) (f_bare ef) st ps eargs fmt Pe Heref Hal Hfmt es1 n (st ++ ps) b1 Hd1 (pre_ok_self _ _) Hl1) as H.
        change (drec_of f (f_ty ef) (f_bare ef) eargs) with (dec1 f false s (f_ty ef) (f_bare ef) eargs) in H.
        destruct (oread_elems (oread f cf s np) (f_ty ef) (f_bare ef) fmt es1 (st ++ ps) b1) as [[[[ks b'] na']| | |]|];
          destruct (dec_elems (dec1 f false s (f_ty ef) (f_bare ef) eargs) n b1) as [[[vs r]| |]|];
          cbn [rel_out elems_post' read_post lift_elems] in H |- *; try contradiction; try exact I.
        destruct H as [Hrel [<- [Hna [Hty Hdp]]]]. repeat split; try assumption.
        - unfold krel. cbn [kabs]. apply R_arr. now apply krel_map.
        - cbn [ktyped]. rewrite E. now apply typed_elems_iff.
        - cbn [kdepth]. pose proof (kdepth_elems_rev _ _ Hdp). lia. }
      assert (Hr : (f_ty ef < length s)%nat) by (eapply ref_ok_range; eassumption).
      cbn [oread_gen dec1]. rewrite E. cbn [negb]. rewrite (omy_app _ _ _ Hps).
      change (oread_gen odict_sort f cf s np) with (oread f cf s np).
      fold eargs. fold fmt.
      destruct kd as [| |c].
      + unfold read_count. destruct (nat_r b) as [[count b1]| |]; cbn [andb rel_out]; try exact I.
        destruct (oresize_default (f_ty ef) count es0 Hes0 (or_introl Hlen0) Hr) as [es1 [-> [Hd1 Hl1]]].
        apply Hloop; assumption.
      + apply Nat.ltb_lt in Hdyn. destruct ps as [|c ps']; [cbn [length] in Hps; lia|].
        cbn [nth andb].
        destruct (oresize_default (f_ty ef) c es0 Hes0 (or_introl Hlen0) Hr) as [es1 [-> [Hd1 Hl1]]].
        apply Hloop; assumption.
      + destruct (oresize_default (f_ty ef) c es0 Hes0 (or_intror Hlen0) Hr) as [es1 [-> [Hd1 Hl1]]].
        apply Hloop; assumption.
    - (* dictionary *)
      rewrite (isdef_dict _ _ _ _ _ E Hdef).
      assert (Hb : bare = true) by (unfold ref_ok in Href; rewrite E in Href; exact Href).
      subst bare.
      pose proof (ofly_lookup _ _ _ _ Hok E) as Ho. cbn [otydef_ok] in Ho. apply andb_prop in Ho as [Hel _].
      unfold elem_ok in Hel. apply andb_prop in Hel as [Hel Hga]. apply andb_prop in Hel as [Heref Heal].
      apply Nat.eqb_eq in Heal.
      set (eargs := eval_args ps [] (f_args ef)).
      assert (Hal : length eargs = nparams np (f_ty ef)) by (unfold eargs, eval_args; now rewrite map_length).
      set (fmt := fun na' => ofmt_args (ofmt_arg_general ps) (firstn (length (st ++ ps)) na') (f_args ef)).
      assert (Hfmt : forall na, pre_ok st ps na -> fmt na = Some ((st ++ ps) ++ eargs)).
      { intros na Hna. unfold fmt. rewrite (pre_ok_firstn _ _ _ Hna). apply ofmt_args_spec.
        rewrite forallb_forall in Hga. apply Forall_forall. intros a Ha. apply garg_sim with (npt := nparams np t); auto. }
      assert (Hr : (f_ty ef < length s)%nat) by (eapply ref_ok_range; eassumption).
      cbn [oread_gen dec1]. rewrite E. cbn [negb]. rewrite (omy_app _ _ _ Hps).
      change (oread_gen odict_sort f cf s np) with (oread f cf s np).
      fold eargs. fold fmt.
      unfold read_count. destruct (nat_r b) as [[count b1]| |]; cbn [andb rel_out]; try exact I.
      destruct (oresize_default (f_ty ef) count [] (Forall_nil _) (or_introl eq_refl) Hr) as [es1 [-> [Hd1 Hl1]]].
      assert (Pe : PT (f_ty ef)).
      { pose proof (PT_closed _ _ Pt E) as Hc. cbn [refs] in Hc. now apply Forall_cons_iff in Hc as [Hc _]. }
      pose proof (oread_elems_sim _ _ f IH (f_ty ef) (f_bare ef) st ps eargs fmt Pe Heref Hal Hfmt es1 count (st ++ ps) b1 Hd1 (pre_ok_self _ _) Hl1) as H.
      change (drec_of f (f_ty ef) (f_bare ef) eargs) with (dec1 f false s (f_ty ef) (f_bare ef) eargs) in H.
      destruct (oread_elems (oread f cf s np) (f_ty ef) (f_bare ef) fmt es1 (st ++ ps) b1) as [[[[ks b'] na']| | |]|];
        destruct (dec_elems (dec1 f false s (f_ty ef) (f_bare ef) eargs) count b1) as [[[vs r]| |]|];
        cbn [rel_out elems_post' read_post lift_elems] in H |- *; try contradiction; try exact I.
      destruct H as [Hrel [<- [Hna [Hty Hdp]]]]. repeat split; try assumption.
      + unfold krel. cbn [kabs]. eapply R_dict; [exact Pt|exact E|exact Hrel].
      + cbn [ktyped]. rewrite E. apply typed_elems_iff. apply Forall_forall. intros x Hx.
        rewrite Forall_forall in Hty. apply Hty. now apply odict_sort_in.
      + cbn [kdepth]. assert (Hdp' : Forall (fun k => (kdepth k <= f)%nat) (odict_sort ks)).
        { apply Forall_forall. intros x Hx. rewrite Forall_forall in Hdp. apply Hdp. now apply odict_sort_in. }
        pose proof (kdepth_elems_rev _ _ Hdp'). lia.
  Qed.
End Sim.

(** * the two instances of the simulation *)
(** what a client can observe of a read: verdict, the wire value held afterwards, the rest of the input *)
Definition oview (o : ordres) : dres :=
  match o with
  | None => None
  | Some (OOk (k, r, _)) => Some (Ok (kabs k, r))
  | Some OEof => Some Eof
  | Some OErr => Some Reject
  | Some OPanic => Some Reject
  end.

(** verdict and rest only *)
Definition overdict (o : ordres) : option (res bytes) :=
  match o with
  | None => None
  | Some (OOk (_, r, _)) => Some (Ok r)
  | Some OEof => Some Eof
  | Some OErr => Some Reject
  | Some OPanic => Some Reject
  end.

Definition dverdict (d : dres) : option (res bytes) :=
  match d with
  | None => None
  | Some (Ok (_, r)) => Some (Ok r)
  | Some Eof => Some Eof
  | Some Reject => Some Reject
  end.

Lemma optrel_eq_list {A} (l l' : list (option A)) : Forall2 (optrel eq) l l' -> l = l'.
Proof. induction 1 as [|x y l l' H _ IH]; [reflexivity|]. destruct H; subst; reflexivity. Qed.

Lemma Forall2_eq_list {A} (l l' : list A) : Forall2 eq l l' -> l = l'.
Proof. induction 1; subst; reflexivity. Qed.

Lemma df_ok_lookup df : forall l i j d,
  df_ok_from df i l = true -> nth_error l j = Some d -> dfree df (i + j) = true ->
  (forall kp ef, d <> TDict kp ef) /\ Forall (fun t => dfree df t = true) (refs d).
Proof.
  induction l as [|x l IH]; intros i j d H E Hd; [now destruct j|].
  cbn [df_ok_from] in H. apply andb_prop in H as [H1 H2].
  destruct j as [|j]; cbn [nth_error] in E.
  - injection E as <-. rewrite Nat.add_0_r in Hd. rewrite Hd in H1. apply andb_prop in H1 as [Hn Hr].
    split; [intros kp ef ->; discriminate|]. rewrite forallb_forall in Hr. apply Forall_forall. exact Hr.
  - replace (i + S j)%nat with (S i + j)%nat in Hd by lia. now apply IH with (S i) j.
Qed.

Lemma df_closed s df : df_ok s df = true ->
  forall t d, dfree df t = true -> nth_error s t = Some d -> Forall (fun t' => dfree df t' = true) (refs d).
Proof. intros H t d Hd E. exact (proj2 (df_ok_lookup df s 0%nat t d H E Hd)). Qed.

Lemma df_nodict s df t kp ef : df_ok s df = true -> dfree df t = true -> nth_error s t = Some (TDict kp ef) -> False.
Proof. intros H Hd E. exact (proj1 (df_ok_lookup df s 0%nat t _ H E Hd) kp ef eq_refl). Qed.

(** instances that do not reach a dictionary ([df], checked by [df_ok]): the interpreter's reader IS the generated
    reader without the length-sanity check -- same fuel, same verdict, same wire value, same rest; it never panics,
    and what it leaves behind is a well-typed interpreter value *)
Theorem ofly_read_exact s np cf df :
  wf_schema s = true -> ofly_ok s np = true -> create_total cf s = true -> df_ok s df = true ->
  forall fuel t bare st ps v0 b,
    dfree df t = true -> ref_ok s t bare = true -> length ps = nparams np t -> ocreate cf s t = Some v0 ->
    oread fuel cf s np t bare (st ++ ps) v0 b <> Some OPanic /\
    oview (oread fuel cf s np t bare (st ++ ps) v0 b) = dec1 fuel false s t bare ps b /\
    (forall k r na, oread fuel cf s np t bare (st ++ ps) v0 b = Some (OOk (k, r, na)) ->
                    ktyped s t k = true /\ firstn (length (st ++ ps)) na = st ++ ps /\ (kdepth k <= fuel)%nat).
Proof.
  intros Hwf Hok Hct Hdf fuel t bare st ps v0 b Hdt Href Hps Hv0.
  assert (H := oread_sim s np cf Hwf Hok Hct eq (fun v => eq_refl)
                 (fun n v H => eq_sym H)
                 (fun fs gs H => f_equal VStruct (optrel_eq_list _ _ H))
                 (fun i fs gs H => f_equal (VUnion i) (optrel_eq_list _ _ H))
                 (fun es fs H => f_equal VArr (Forall2_eq_list _ _ H))
                 (fun t' => dfree df t' = true) (df_closed s df Hdf)
                 (fun t kp ef ks vs Pt E _ => False_ind _ (df_nodict s df t kp ef Hdf Pt E))
                 fuel t bare st ps v0 b Hdt Href Hps (ex_intro _ cf Hv0)).
  unfold drec_of in H.
  destruct (oread fuel cf s np t bare (st ++ ps) v0 b) as [[[[k r] na]| | |]|];
    destruct (dec1 fuel false s t bare ps b) as [[[v r']| |]|];
    cbn [rel_out read_post oview] in H |- *; try contradiction; (split; [discriminate|]); (split; [|intros ? ? ? [=]]); auto.
  - destruct H as [Hk [<- _]]. unfold krel in Hk. now rewrite Hk.
  - destruct H as [_ [_ [Hna [Hty Hdp]]]]. subst. split; [assumption|]. split; [now apply pre_ok_firstn|assumption].
Qed.

(** "equal outside arrays": what the interpreter and the generated reader always agree on *)
Inductive vsim : value -> value -> Prop :=
| vsim_num n : vsim (VNum n) (VNum n)
| vsim_str x : vsim (VStr x) (VStr x)
| vsim_bool x : vsim (VBool x) (VBool x)
| vsim_struct fs gs : Forall2 (optrel vsim) fs gs -> vsim (VStruct fs) (VStruct gs)
| vsim_union i fs gs : Forall2 (optrel vsim) fs gs -> vsim (VUnion i fs) (VUnion i gs)
| vsim_arr es fs : vsim (VArr es) (VArr fs).

Lemma vsim_refl : forall v, vsim v v.
Proof.
  apply value_ind'; intros; try constructor.
  - induction H as [|o l Ho _ IH]; constructor; [|assumption]. destruct o; constructor. exact Ho.
  - induction H as [|o l Ho _ IH]; constructor; [|assumption]. destruct o; constructor. exact Ho.
Qed.

(** every schema the interpreter can follow, dictionaries included: same fuel, same verdict, same rest of the
    input, no panic; the values agree outside arrays (in particular on every `#` field that steers the parse) *)
Theorem ofly_read_verdict s np cf :
  wf_schema s = true -> ofly_ok s np = true -> create_total cf s = true ->
  forall fuel t bare st ps v0 b,
    ref_ok s t bare = true -> length ps = nparams np t -> ocreate cf s t = Some v0 ->
    oread fuel cf s np t bare (st ++ ps) v0 b <> Some OPanic /\
    overdict (oread fuel cf s np t bare (st ++ ps) v0 b) = dverdict (dec1 fuel false s t bare ps b) /\
    (forall k r na v r', oread fuel cf s np t bare (st ++ ps) v0 b = Some (OOk (k, r, na)) ->
                         dec1 fuel false s t bare ps b = Some (Ok (v, r')) ->
                         vsim (kabs k) v /\ ktyped s t k = true).
Proof.
  intros Hwf Hok Hct fuel t bare st ps v0 b Href Hps Hv0.
  assert (H := oread_sim s np cf Hwf Hok Hct vsim vsim_refl
                 (fun n v H => match H in vsim a b return a = VNum n -> b = VNum n with
                               | vsim_num m => fun e => e | _ => fun e => ltac:(discriminate e) end eq_refl)
                 vsim_struct vsim_union (fun es fs _ => vsim_arr es fs)
                 (fun _ => True) (fun t d _ _ => proj2 (Forall_forall _ _) (fun _ _ => I))
                 (fun t kp ef ks vs _ _ _ => vsim_arr _ _)
                 fuel t bare st ps v0 b I Href Hps (ex_intro _ cf Hv0)).
  unfold drec_of in H.
  destruct (oread fuel cf s np t bare (st ++ ps) v0 b) as [[[[k r] na]| | |]|];
    destruct (dec1 fuel false s t bare ps b) as [[[v r']| |]|];
    cbn [rel_out read_post overdict dverdict] in H |- *; try contradiction; (split; [discriminate|]);
    (split; [|intros ? ? ? ? ? [=] [=]]); auto.
  - destruct H as [_ [<- _]]. reflexivity.
  - destruct H as [Hk [_ [_ [Hty _]]]]. subst. split; assumption.
Qed.

(** * the interpreter's writer produces the bytes of the generated writer *)
Lemma kdepth_pos k : (1 <= kdepth k)%nat.
Proof. destruct k; cbn [kdepth]; lia. Qed.

Lemma kdepth_opts fs f :
  (fold_right (fun o m => Nat.max (match o with Some x => kdepth x | None => 0%nat end) m) 0%nat fs <= f)%nat ->
  Forall (fun o => match o with Some x => (kdepth x <= f)%nat | None => True end) fs.
Proof.
  induction fs as [|o fs IH]; cbn [fold_right]; intros H; constructor.
  - destruct o; [lia|exact I].
  - apply IH. lia.
Qed.

Lemma kdepth_elems es f :
  (fold_right (fun x m => Nat.max (kdepth x) m) 0%nat es <= f)%nat -> Forall (fun x => (kdepth x <= f)%nat) es.
Proof.
  induction es as [|e es IH]; cbn [fold_right]; intros H; constructor; [lia|]. apply IH. lia.
Qed.

Lemma kdepth_union idx vars kv f :
  (kdepth (KUnion idx vars) <= f)%nat -> nth_error vars idx = Some (Some kv) -> (kdepth kv <= f)%nat.
Proof.
  intros H E. rewrite (kdepth_union_eq vars idx kv E) in H. lia.
Qed.

(** dictionary keys: the interpreter's CompareForMapKey agrees with the order of the generated writer *)
Lemma obytes_cmp_lt a : forall b, bytes_lt a b = true -> obytes_cmp a b = Lt /\ obytes_cmp b a = Gt.
Proof.
  induction a as [|x a IH]; intros [|y b] H; cbn [bytes_lt obytes_cmp] in *; try discriminate; [now split|].
  destruct (x <? y) eqn:E1.
  - apply N.ltb_lt in E1. rewrite (proj2 (N.compare_lt_iff x y) E1), (proj2 (N.compare_gt_iff y x) E1). now split.
  - destruct (y <? x) eqn:E2; [discriminate|].
    apply N.ltb_ge in E1, E2. assert (x = y) by lia. subst y. rewrite N.compare_refl. now apply IH.
Qed.

Section WSim.
  Variable s : schema.
  Variable np : list nat.
  Variable cf : nat.
  Hypothesis Hok : ofly_ok s np = true.

  Definition WRecOK (rec : nat -> bool -> list N -> kval -> owres)
             (erec : nat -> bool -> list N -> value -> option bytes) (f : nat) : Prop :=
    forall t bare st ps k b, ktyped s t k = true -> (kdepth k <= f)%nat -> length ps = nparams np t ->
      erec t bare ps (kabs k) = Some b ->
      exists na', rec t bare (st ++ ps) k = Some (OOk (b, na')) /\ pre_ok st ps na'.

  Lemma ofmt_arg_all npt fds_all ps all a :
    length ps = npt -> sarg_ok s npt fds_all a = true -> Forall2 (ftyped s) fds_all all ->
    ofmt_arg all ps a = Some (eval_natarg ps (map kabs_o all) a).
  Proof.
    intros Hps Hs Hty. destruct a as [n|j|i]; cbn [ofmt_arg eval_natarg].
    - reflexivity.
    - cbn [sarg_ok] in Hs. unfold is_nat_field in Hs.
      destruct (nth_error fds_all j) as [fd|] eqn:Efd; [|discriminate].
      destruct (nth_error s (f_ty fd)) as [[[]| | | |]|] eqn:Et; try discriminate.
      destruct (Forall2_nth_l _ _ _ _ _ Hty Efd) as [o [Eo Hto]].
      unfold field_nat. rewrite (map_nth_error kabs_o _ _ Eo), Eo.
      destruct o as [k|]; cbn [kabs_o]; [|reflexivity].
      cbn [ftyped] in Hto. destruct (ktyped_nat _ _ _ Et Hto) as [n ->]. reflexivity.
    - cbn [sarg_ok] in Hs. apply Nat.ltb_lt in Hs. apply nth_error_nth'. lia.
  Qed.

  Lemma owrite_fields_sim rec erec f (Hrec : WRecOK rec erec f) npt fds_all st ps all :
    length ps = npt -> Forall2 (ftyped s) fds_all all ->
    forall fds todo na body,
      (forall fd, In fd fds -> sfield_ok s np npt fds_all fd = true) ->
      Forall2 (ftyped s) fds todo ->
      Forall (fun o => match o with Some x => (kdepth x <= f)%nat | None => True end) todo ->
      pre_ok st ps na ->
      enc_fields erec ps (map kabs_o all) fds (map kabs_o todo) = Some body ->
      exists na', owrite_fields rec (ocreate cf s) (length (st ++ ps)) ps all fds todo na = Some (OOk (body, na'))
                  /\ pre_ok st ps na'.
  Proof.
    intros Hps Hall. subst npt. induction fds as [|fd fds IH]; intros todo na body Hsf Hty Hdp Hna Henc.
    - inversion Hty; subst. cbn [map enc_fields] in Henc. injection Henc as <-.
      cbn [owrite_fields]. eauto.
    - inversion Hty as [|? o ? todo' Hto Hty']; subst.
      apply Forall_cons_iff in Hdp as [Hdo Hdp].
      pose proof (Hsf fd (or_introl eq_refl)) as Hsfd.
      unfold sfield_ok in Hsfd. apply andb_prop in Hsfd as [Hsfd Hmask]. apply andb_prop in Hsfd as [Hsfd Hargs].
      apply andb_prop in Hsfd as [Href Halen]. apply Nat.eqb_eq in Halen.
      cbn [owrite_fields]. rewrite (pre_ok_firstn _ _ _ Hna).
      assert (Ea : ofmt_args (ofmt_arg all ps) (st ++ ps) (f_args fd)
                   = Some ((st ++ ps) ++ eval_args ps (map kabs_o all) (f_args fd))).
      { apply ofmt_args_spec. rewrite forallb_forall in Hargs. apply Forall_forall. intros a Ha.
        apply ofmt_arg_all with (npt := length ps) (fds_all := fds_all); auto. }
      rewrite Ea.
      assert (Em : match f_mask fd with
                   | Some (a, bit) => option_map (fun m : N => N.testbit m bit) (ofmt_arg all ps a)
                   | None => Some true
                   end = Some (field_present ps (map kabs_o all) fd)).
      { unfold field_present. destruct (f_mask fd) as [[a bit]|]; [|reflexivity].
        rewrite (ofmt_arg_all (length ps) fds_all ps all a); auto. }
      rewrite Em. clear Em Ea.
      cbn [map enc_fields] in Henc.
      assert (Hal : length (eval_args ps (map kabs_o all) (f_args fd)) = nparams np (f_ty fd))
        by (unfold eval_args; now rewrite map_length).
      destruct (field_present ps (map kabs_o all) fd) eqn:Ep.
      + destruct o as [k|]; cbn [kabs_o] in Henc; [|discriminate].
        destruct (erec (f_ty fd) (f_bare fd) (eval_args ps (map kabs_o all) (f_args fd)) (kabs k)) as [b1|] eqn:E1;
          cbn [bind_opt] in Henc; [|discriminate].
        destruct (enc_fields erec ps (map kabs_o all) fds (map kabs_o todo')) as [b2|] eqn:E2;
          cbn [bind_opt] in Henc; [|discriminate].
        injection Henc as <-.
        destruct (Hrec (f_ty fd) (f_bare fd) (st ++ ps) _ k b1 Hto Hdo Hal E1) as [na2 [-> [e ->]]].
        destruct (IH todo' ((st ++ ps) ++ eval_args ps (map kabs_o all) (f_args fd) ++ e) b2) as [na3 [-> Hna3]]; auto.
        * intros fd' Hin. apply Hsf. now right.
        * apply pre_ok_ext.
        * eauto.
      + destruct o as [k|]; cbn [kabs_o] in Henc; [discriminate|].
        destruct (IH todo' ((st ++ ps) ++ eval_args ps (map kabs_o all) (f_args fd)) body) as [na3 [-> Hna3]]; auto.
        * intros fd' Hin. apply Hsf. now right.
        * eexists. now rewrite <- app_assoc.
        * eauto.
  Qed.

  Lemma owrite_struct_sim rec erec f (Hrec : WRecOK rec erec f) t tag fds bare st ps fs body :
    nth_error s t = Some (TStruct tag fds) -> length ps = nparams np t ->
    Forall2 (ftyped s) fds fs ->
    Forall (fun o => match o with Some x => (kdepth x <= f)%nat | None => True end) fs ->
    enc_fields erec ps (map kabs_o fs) fds (map kabs_o fs) = Some body ->
    exists na', owrite_struct rec (ocreate cf s) (nparams np t) tag fds bare (st ++ ps) fs
                = Some (OOk ((if bare then body else nat_w tag ++ body), na')) /\ pre_ok st ps na'.
  Proof.
    intros E Hps Hty Hdp Henc.
    pose proof (ofly_lookup _ _ _ _ Hok E) as Ho. cbn [otydef_ok] in Ho. rewrite forallb_forall in Ho.
    unfold owrite_struct. rewrite (omy_app _ _ _ Hps).
    destruct (owrite_fields_sim rec erec f Hrec (nparams np t) fds st ps fs Hps Hty fds fs (st ++ ps) body Ho Hty Hdp
                (pre_ok_self _ _) Henc) as [na' [-> Hna']].
    eauto.
  Qed.

  Lemma owrite_elems_sim rec erec f (Hrec : WRecOK rec erec f) ty ebare st ps eargs fmt :
    length eargs = nparams np ty ->
    (forall na, pre_ok st ps na -> fmt na = Some ((st ++ ps) ++ eargs)) ->
    forall es na body,
      Forall (fun k => ktyped s ty k = true) es -> Forall (fun k => (kdepth k <= f)%nat) es -> pre_ok st ps na ->
      enc_elems (erec ty ebare eargs) (map kabs es) = Some body ->
      exists na', owrite_elems rec ty ebare fmt es na = Some (OOk (body, na')) /\ pre_ok st ps na'.
  Proof.
    intros Hal Hfmt. induction es as [|e es IH]; intros na body Hty Hdp Hna Henc; cbn [map enc_elems] in Henc.
    - injection Henc as <-. cbn [owrite_elems]. eauto.
    - apply Forall_cons_iff in Hty as [Hte Hty]. apply Forall_cons_iff in Hdp as [Hde Hdp].
      destruct (erec ty ebare eargs (kabs e)) as [b1|] eqn:E1; cbn [bind_opt] in Henc; [|discriminate].
      destruct (enc_elems (erec ty ebare eargs) (map kabs es)) as [b2|] eqn:E2; cbn [bind_opt] in Henc; [|discriminate].
      injection Henc as <-.
      cbn [owrite_elems]. rewrite (Hfmt na Hna).
      destruct (Hrec ty ebare (st ++ ps) eargs e b1 Hte Hde Hal E1) as [na2 [-> [x ->]]].
      destruct (IH ((st ++ ps) ++ eargs ++ x) b2 Hty Hdp (pre_ok_ext _ _ _ _) eq_refl) as [na3 [-> Hna3]].
      eauto.
  Qed.

  (** a dictionary whose keys are strictly increasing in the generated writer's order is left alone by sort() *)
  Lemma typed_key kp ef e :
    dict_key_ok s kp ef = true -> ktyped s (f_ty ef) e = true ->
    exists key, okey e = Some key /\ entry_key (kabs e) = kabs key /\
      match kp, key with
      | PNat, KU32 _ | PInt, KI32 _ | PLong, KI64 _ | PString, KStr _ | PBool _ _, KBool _ => True
      | _, _ => False
      end.
  Proof.
    unfold dict_key_ok. intros Hk Ht.
    destruct (nth_error s (f_ty ef)) as [[|tag [|kf fds]| | |]|] eqn:E; try discriminate.
    destruct (f_mask kf) eqn:Em; [discriminate|].
    destruct (nth_error s (f_ty kf)) as [[p| | | |]|] eqn:Ek; try discriminate.
    destruct e; cbn [ktyped] in Ht; rewrite E in Ht; try discriminate.
    apply typed_fields_iff in Ht. inversion Ht as [|? o ? fs' Ho _]; subst.
    destruct o as [key|]; cbn [ftyped] in Ho; [|congruence].
    exists key. repeat split.
    destruct p, kp; try discriminate; destruct key; cbn [ktyped] in Ho; rewrite Ek in Ho; try discriminate; exact I.
  Qed.

  Lemma key_lt_cmp kp ef e1 e2 :
    dict_key_ok s kp ef = true -> ktyped s (f_ty ef) e1 = true -> ktyped s (f_ty ef) e2 = true ->
    key_lt kp (entry_key (kabs e1)) (entry_key (kabs e2)) = true ->
    ocmp_key e1 e2 = Lt /\ ocmp_key e2 e1 = Gt.
  Proof.
    intros Hk H1 H2 Hlt.
    destruct (typed_key kp ef e1 Hk H1) as [k1 [Eo1 [Ee1 S1]]].
    destruct (typed_key kp ef e2 Hk H2) as [k2 [Eo2 [Ee2 S2]]].
    unfold ocmp_key. rewrite Eo1, Eo2. rewrite Ee1, Ee2 in Hlt.
    destruct kp; destruct k1; try contradiction; destruct k2; try contradiction; cbn [kabs key_lt ocmp_val] in *.
    - apply N.ltb_lt in Hlt. split; [now apply N.compare_lt_iff|now apply N.compare_gt_iff].
    - apply Z.ltb_lt in Hlt. split; [now apply Z.compare_lt_iff|now apply Z.compare_gt_iff].
    - apply Z.ltb_lt in Hlt. split; [now apply Z.compare_lt_iff|now apply Z.compare_gt_iff].
    - now apply obytes_cmp_lt.
    - destruct b, b0; try discriminate. now split.
  Qed.

  Lemma oinsert_end e : forall acc, Forall (fun x => ocmp_key e x <> Lt) acc -> oinsert e acc = acc ++ [e].
  Proof.
    induction acc as [|x acc IH]; intros H; cbn [oinsert app]; [reflexivity|].
    apply Forall_cons_iff in H as [Hx H]. rewrite (IH H). destruct (ocmp_key e x); congruence.
  Qed.

  Lemma osort_sorted kp ef : dict_key_ok s kp ef = true ->
    forall es acc, Forall (fun e => ktyped s (f_ty ef) e = true) (acc ++ es) ->
      keys_sorted kp (map kabs (acc ++ es)) = true ->
      fold_left (fun a e => oinsert e a) es acc = acc ++ es.
  Proof.
    intros Hk. induction es as [|e es IH]; intros acc Hty Hs; cbn [fold_left].
    - now rewrite app_nil_r.
    - rewrite oinsert_end.
      + rewrite IH; rewrite <- app_assoc; [reflexivity|exact Hty|exact Hs].
      + rewrite map_app in Hs. cbn [map] in Hs. pose proof (sorted_all_lt kp _ _ _ Hs) as Hall.
        unfold all_lt in Hall. rewrite Forall_map in Hall.
        apply Forall_app in Hty as [Hta Hte]. apply Forall_cons_iff in Hte as [Hte _].
        rewrite Forall_forall in Hall, Hta. apply Forall_forall. intros x Hx.
        destruct (key_lt_cmp kp ef x e Hk (Hta x Hx) Hte (Hall x Hx)) as [_ ->]. discriminate.
  Qed.

  Lemma ocompact_sorted kp ef : dict_key_ok s kp ef = true ->
    forall es p, Forall (fun e => ktyped s (f_ty ef) e = true) (p :: es) ->
      keys_sorted kp (map kabs (p :: es)) = true -> ocompact_from p es = es.
  Proof.
    intros Hk. induction es as [|e es IH]; intros p Hty Hs; cbn [ocompact_from]; [reflexivity|].
    apply Forall_cons_iff in Hty as [Htp Hty]. pose proof Hty as Hty'. apply Forall_cons_iff in Hty' as [Hte _].
    cbn [map keys_sorted] in Hs. apply andb_prop in Hs as [Hlt Hs].
    destruct (key_lt_cmp kp ef p e Hk Htp Hte Hlt) as [_ ->]. f_equal. apply IH; assumption.
  Qed.

  Lemma odict_sort_sorted kp ef es : dict_key_ok s kp ef = true ->
    Forall (fun e => ktyped s (f_ty ef) e = true) es -> keys_sorted kp (map kabs es) = true -> odict_sort es = es.
  Proof.
    intros Hk Hty Hs. unfold odict_sort, osort. rewrite (osort_sorted kp ef Hk es [] Hty Hs). cbn [app].
    destruct es as [|p es]; cbn [ocompact]; [reflexivity|]. f_equal. now apply ocompact_sorted with kp ef.
  Qed.

  Lemma firstn_exact {A} (l : list A) n : length l = n -> firstn n l = l.
  Proof. intros <-. apply firstn_all. Qed.

  Lemma oresize_same d n es : length es = N.to_nat n -> oresize d n es = Some es.
  Proof.
    intros H. unfold oresize. rewrite H, Nat.ltb_irrefl. f_equal. now apply firstn_exact.
  Qed.

  Definition erec_of : nat -> bool -> list N -> value -> option bytes :=
    fun t bare ps v => enc1 false s t bare ps v.

  Theorem owrite_sim : forall f, WRecOK (owrite f cf s np) erec_of f.
  Proof.
    induction f as [|f IH]; intros t bare st ps k b Ht Hd Hps Henc.
    { pose proof (kdepth_pos k). lia. }
    unfold erec_of in Henc.
    destruct k as [n|n|n|x|x| |fs|idx vars|es|es]; cbn [ktyped] in Ht;
      destruct (nth_error s t) as [[p|tag fds|vts|kd ef|kp ef]|] eqn:E; try discriminate.
    - (* uint32 *)
      destruct p; try discriminate. cbn [kabs enc1] in Henc. rewrite E in Henc. cbn [enc_prim] in Henc.
      destruct (n <? 4294967296); [|discriminate]. injection Henc as <-.
      cbn [owrite]. eexists; split; [reflexivity|apply pre_ok_self].
    - (* int32 / float32 *)
      destruct p; try discriminate; cbn [kabs enc1] in Henc; rewrite E in Henc; cbn [enc_prim] in Henc;
        (destruct (n <? 4294967296); [|discriminate]); injection Henc as <-;
        cbn [owrite]; eexists; (split; [reflexivity|apply pre_ok_self]).
    - (* int64 / float64 *)
      destruct p; try discriminate; cbn [kabs enc1] in Henc; rewrite E in Henc; cbn [enc_prim] in Henc;
        (destruct (n <? 18446744073709551616); [|discriminate]); injection Henc as <-;
        cbn [owrite]; eexists; (split; [reflexivity|apply pre_ok_self]).
    - (* string *)
      destruct p; try discriminate. cbn [kabs enc1] in Henc. rewrite E in Henc. cbn [enc_prim] in Henc.
      cbn [owrite]. rewrite Henc. eexists; split; [reflexivity|apply pre_ok_self].
    - (* bool *)
      destruct p; try discriminate. cbn [kabs enc1] in Henc. rewrite E in Henc. cbn [enc_prim] in Henc.
      injection Henc as <-. cbn [owrite]. rewrite E. eexists; split; [reflexivity|apply pre_ok_self].
    - (* byte / bit: no TL1 form *)
      destruct p; try discriminate. cbn [kabs enc1] in Henc. rewrite E in Henc. discriminate.
    - (* struct *)
      apply typed_fields_iff in Ht.
      rewrite kabs_struct in Henc. cbn [enc1] in Henc. rewrite E in Henc.
      change (fun (t' : nat) (b' : bool) (ps' : list N) (v' : value) => enc1 false s t' b' ps' v') with erec_of in Henc.
      destruct (enc_fields erec_of ps (map kabs_o fs) fds (map kabs_o fs)) as [body|] eqn:Eb; cbn [bind_opt] in Henc; [|discriminate].
      injection Henc as <-.
      cbn [kdepth] in Hd. assert (Hdp := kdepth_opts fs f ltac:(lia)).
      cbn [owrite]. rewrite E.
      exact (owrite_struct_sim _ _ f IH t tag fds bare st ps fs body E Hps Ht Hdp Eb).
    - (* union *)
      apply andb_prop in Ht as [Hsel Htv]. apply typed_variants_iff in Htv.
      destruct (nth_error vars idx) as [[kv|]|] eqn:Ev; try discriminate.
      rewrite kabs_union, Ev in Henc. cbn [enc1] in Henc. rewrite E in Henc.
      destruct bare; [discriminate|].
      destruct (nth_error vts idx) as [vt|] eqn:Evt; [|discriminate].
      destruct (nth_error s vt) as [[|tag fds| | |]|] eqn:Es; try discriminate.
      assert (Htk : ktyped s vt kv = true).
      { clear -Htv Ev Evt. revert idx Ev Evt. induction Htv as [|x y l l' Hxy _ IH']; intros [|idx] E1 E2; cbn [nth_error] in *; try discriminate.
        - injection E1 as ->. injection E2 as ->. exact Hxy.
        - now apply IH' with idx. }
      destruct kv as [| | | | | |fs| | |]; cbn [ktyped] in Htk; rewrite Es in Htk; try discriminate.
      apply typed_fields_iff in Htk.
      change (fun (t' : nat) (b' : bool) (ps' : list N) (v' : value) => enc1 false s t' b' ps' v') with erec_of in Henc.
      destruct (enc_fields erec_of ps (map kabs_o fs) fds (map kabs_o fs)) as [body|] eqn:Eb; cbn [bind_opt] in Henc; [|discriminate].
      injection Henc as <-.
      pose proof (kdepth_union idx vars (KStruct fs) (S f) Hd Ev) as Hdk. cbn [kdepth] in Hdk.
      assert (Hdp := kdepth_opts fs f ltac:(lia)).
      pose proof (ofly_lookup _ _ _ _ Hok E) as Ho. cbn [otydef_ok] in Ho. rewrite forallb_forall in Ho.
      assert (Hpsv : length ps = nparams np vt).
      { specialize (Ho vt (nth_error_In _ _ Evt)). apply Nat.eqb_eq in Ho. lia. }
      cbn [owrite]. rewrite E, Ev, Evt, Es.
      exact (owrite_struct_sim _ _ f IH vt tag fds false st ps fs body Es Hpsv Htk Hdp Eb).
    - (* brackets *)
      apply typed_elems_iff in Ht.
      cbn [kabs enc1] in Henc. rewrite E in Henc.
      destruct bare; cbn [negb] in Henc; [|discriminate].
      pose proof (ofly_lookup _ _ _ _ Hok E) as Ho. cbn [otydef_ok] in Ho. apply andb_prop in Ho as [Hel Hdyn].
      unfold elem_ok in Hel. apply andb_prop in Hel as [Hel Hga]. apply andb_prop in Hel as [Heref Heal].
      apply Nat.eqb_eq in Heal.
      set (eargs := eval_args ps [] (f_args ef)) in *.
      assert (Hal : length eargs = nparams np (f_ty ef)) by (unfold eargs, eval_args; now rewrite map_length).
      set (fmt := fun na' => ofmt_args (ofmt_arg_general ps) (firstn (length (st ++ ps)) na') (f_args ef)).
      assert (Hfmt : forall na, pre_ok st ps na -> fmt na = Some ((st ++ ps) ++ eargs)).
      { intros na Hna. unfold fmt. rewrite (pre_ok_firstn _ _ _ Hna). apply ofmt_args_spec.
        rewrite forallb_forall in Hga. apply Forall_forall. intros a Ha. apply garg_sim with (npt := nparams np t); auto. }
      change (fun e : value => enc1 false s (f_ty ef) (f_bare ef) eargs e) with (erec_of (f_ty ef) (f_bare ef) eargs) in Henc.
      destruct (enc_elems (erec_of (f_ty ef) (f_bare ef) eargs) (map kabs es)) as [body|] eqn:Eb; cbn [bind_opt] in Henc; [|discriminate].
      cbn [kdepth] in Hd. assert (Hdp := kdepth_elems es f ltac:(lia)).
      destruct (owrite_elems_sim _ _ f IH (f_ty ef) (f_bare ef) st ps eargs fmt Hal Hfmt es (st ++ ps) body Ht Hdp (pre_ok_self _ _) Eb)
        as [na' [Hw Hna']].
      cbn [owrite]. rewrite E. cbn [negb]. rewrite (omy_app _ _ _ Hps). fold fmt.
      unfold lenN in Henc. rewrite map_length in Henc. fold (lenN es) in Henc.
      destruct kd as [| |c].
      + destruct (lenN es <? 4294967296) eqn:El; cbn [andb sane_ok] in Henc; [|discriminate].
        injection Henc as <-. rewrite Hw. cbn [prepend].
        apply N.ltb_lt in El. rewrite (N.mod_small _ _ El). eauto.
      + apply Nat.ltb_lt in Hdyn. destruct ps as [|c ps']; [cbn [length] in Hps; lia|].
        cbn [nth] in Henc. destruct (lenN es =? c) eqn:El; cbn [andb sane_ok] in Henc; [|discriminate].
        injection Henc as <-. apply N.eqb_eq in El. rewrite oresize_same by (unfold lenN in El; lia).
        rewrite Hw. eauto.
      + destruct (lenN es =? c) eqn:El; [|discriminate].
        injection Henc as <-. apply N.eqb_eq in El. rewrite oresize_same by (unfold lenN in El; lia).
        rewrite Hw. eauto.
    - (* dictionary *)
      apply typed_elems_iff in Ht.
      cbn [kabs enc1] in Henc. rewrite E in Henc.
      destruct bare; cbn [negb] in Henc; [|discriminate].
      pose proof (ofly_lookup _ _ _ _ Hok E) as Ho. cbn [otydef_ok] in Ho. apply andb_prop in Ho as [Hel Hkey].
      unfold elem_ok in Hel. apply andb_prop in Hel as [Hel Hga]. apply andb_prop in Hel as [Heref Heal].
      apply Nat.eqb_eq in Heal.
      set (eargs := eval_args ps [] (f_args ef)) in *.
      assert (Hal : length eargs = nparams np (f_ty ef)) by (unfold eargs, eval_args; now rewrite map_length).
      set (fmt := fun na' => ofmt_args (ofmt_arg_general ps) (firstn (length (st ++ ps)) na') (f_args ef)).
      assert (Hfmt : forall na, pre_ok st ps na -> fmt na = Some ((st ++ ps) ++ eargs)).
      { intros na Hna. unfold fmt. rewrite (pre_ok_firstn _ _ _ Hna). apply ofmt_args_spec.
        rewrite forallb_forall in Hga. apply Forall_forall. intros a Ha. apply garg_sim with (npt := nparams np t); auto. }
      change (fun e : value => enc1 false s (f_ty ef) (f_bare ef) eargs e) with (erec_of (f_ty ef) (f_bare ef) eargs) in Henc.
      destruct (enc_elems (erec_of (f_ty ef) (f_bare ef) eargs) (map kabs es)) as [body|] eqn:Eb; cbn [bind_opt] in Henc; [|discriminate].
      cbn [kdepth] in Hd. assert (Hdp := kdepth_elems es f ltac:(lia)).
      destruct (owrite_elems_sim _ _ f IH (f_ty ef) (f_bare ef) st ps eargs fmt Hal Hfmt es (st ++ ps) body Ht Hdp (pre_ok_self _ _) Eb)
        as [na' [Hw Hna']].
      unfold lenN in Henc. rewrite map_length in Henc. fold (lenN es) in Henc.
      destruct (lenN es <? 4294967296) eqn:El; cbn [andb] in Henc; [|discriminate].
      destruct (keys_sorted kp (map kabs es)) eqn:Eks; cbn [andb sane_ok] in Henc; [|discriminate].
      injection Henc as <-.
      cbn [owrite]. rewrite E. cbn [negb]. rewrite (omy_app _ _ _ Hps). fold fmt.
      rewrite (odict_sort_sorted kp ef es Hkey Ht Eks). rewrite Hw. cbn [prepend].
      apply N.ltb_lt in El. rewrite (N.mod_small _ _ El). eauto.
  Qed.
End WSim.

(** * what the correspondence run observes: CreateValue, ReadTL1, WriteTL1 of what was read *)
Theorem ofly_rw1_exact s np cf df :
  wf_schema s = true -> ofly_ok s np = true -> create_total cf s = true -> df_ok s df = true ->
  forall fuel t bare b, dfree df t = true -> ref_ok s t bare = true -> nparams np t = 0%nat ->
    match dec1 fuel false s t bare [] b with
    | None => orw1 fuel cf s np t bare b = ObsFuel
    | Some Eof => orw1 fuel cf s np t bare b = ObsEof
    | Some Reject => orw1 fuel cf s np t bare b = ObsReject
    | Some (Ok (v, rest)) =>
        match enc1 false s t bare [] v with
        | Some w => orw1 fuel cf s np t bare b = ObsOk (length b - length rest) (Some w)
        | None => exists r, orw1 fuel cf s np t bare b = ObsOk (length b - length rest) r
        end
    end.
Proof.
  intros Hwf Hok Hct Hdf fuel t bare b Hdt Href Hnp.
  destruct (create_total_def s cf t Hct (ref_ok_range _ _ _ Href)) as [v0 Hv0].
  destruct (ofly_read_exact s np cf df Hwf Hok Hct Hdf fuel t bare [] [] v0 b Hdt Href (eq_sym Hnp) Hv0) as [Hnp' [Hview Hres]].
  cbn [app] in *. unfold orw1, oread_write. rewrite Hv0.
  destruct (oread fuel cf s np t bare [] v0 b) as [[[[k r] na]| | |]|]; cbn [oview] in Hview; rewrite <- Hview;
    try reflexivity; [|congruence].
  destruct (Hres k r na eq_refl) as [Hty [_ Hdp]].
  destruct (enc1 false s t bare [] (kabs k)) as [w|] eqn:Ew; [|eexists; reflexivity].
  destruct (owrite_sim s np cf Hok fuel t bare [] [] k w Hty Hdp (eq_sym Hnp) Ew) as [na' [Hw _]].
  cbn [app] in Hw. now rewrite Hw.
Qed.

(** * side observation, NOT part of property C12 (which is about reads into fresh values)
    KernelValueStruct.ReadTL1 leaves a field whose mask bit is clear as it was (`continue`), and formatNatArg then takes
    the STALE value of such a `#` field as the mask of later fields; the generated reader resets first.  So ReadTL1
    into a value that was read into before can differ from the generated reader.  Witness (the shape of
    cases.testRecursiveFieldMask): n:# x:n.0?# y:x.0?int; first read n=1 x=1 y=7, then `00000000` into the same value:
    the generated reader (and a fresh interpreter value) accept 4 bytes, the used value answers unexpected EOF.
    Replay on the real code (not run by the check): overlay harness verif_ofly_test.go
    `rw1x2 cases.testRecursiveFieldMask 0 010000000200000004000000 00000000` -> eof. *)
Definition stale_schema : schema :=
  [TPrim PNat; TPrim PInt;
   TStruct 9 [mkField 0 true None []; mkField 0 true (Some (NField 0, 0)) []; mkField 1 true (Some (NField 1, 0)) []]].

Theorem Ofly_reader_reused_value_differs_observation :
  exists s np cf fuel t bare b1 b2 v,
    wf_schema s = true /\ ofly_ok s np = true /\ create_total cf s = true /\ nodict s = true /\ ref_ok s t bare = true /\
    orw1 fuel cf s np t bare b1 = ObsOk (length b1) (Some b1) /\
    orw1 fuel cf s np t bare b2 = ObsOk (length b2) (Some b2) /\
    dec1 fuel false s t bare [] b2 = Some (Ok (v, [])) /\
    orw1x2 fuel cf s np t bare b1 b2 = ObsEof.
Proof.
  exists stale_schema, [0; 0; 0]%nat, 4%nat, 5%nat, 2%nat, true, [1;0;0;0; 1;0;0;0; 7;0;0;0], [0;0;0;0],
         (VStruct [Some (VNum 0); None; None]).
  vm_compute. repeat split; reflexivity.
Qed.
