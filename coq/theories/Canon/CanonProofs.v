(** Lemmas about the Canon model (C21, C23, C25): tag rule, shape of the canonical form
    (character set, spacing, arithmetic by value, bare-marker rule), CRC range, decimal/hex printers. *)
From Coq Require Import List NArith ZArith Bool Lia ZifyN ZifyNat ZifyBool Permutation.
From TLV Require Import Canon.CanonModel.
Import ListNotations.
Open Scope N_scope.
Ltac Zify.zify_post_hook ::= Z.div_mod_to_equations.

(** * Tag rule *)
Lemma tag_explicit_verbatim : forall c, c_explicit c = true -> tag c = c_id c.
Proof. intros c H. unfold tag. now rewrite H. Qed.

Lemma tag_implicit : forall c, c_explicit c = false -> tag c = crc32 (canon c).
Proof. intros c H. unfold tag, gen_crc. now rewrite H. Qed.

(** what the parser stores is the tag *)
Lemma parsed_id_tag : forall c, parsed_id c = true -> c_id c = tag c.
Proof.
  intros c H. unfold parsed_id in H. unfold tag. destruct (c_explicit c); [reflexivity|].
  simpl in H. now apply N.eqb_eq in H.
Qed.

(** * Structural induction for the nested inductives *)
Definition aot_tr (x : aot) : typeref := match x with Aot _ _ t => t end.

Section TrInd.
  Variable P : typeref -> Prop.
  Hypothesis H : forall ty args bare, Forall (fun x => P (aot_tr x)) args -> P (TypeRef ty args bare).
  Fixpoint typeref_ind' (t : typeref) : P t :=
    match t with
    | TypeRef ty args bare =>
        H ty args bare
          ((fix go (l : list aot) : Forall (fun x => P (aot_tr x)) l :=
              match l with
              | [] => Forall_nil _
              | x :: r =>
                  Forall_cons x
                    (match x return P (aot_tr x) with Aot _ _ t' => typeref_ind' t' end) (go r)
              end) args)
    end.
End TrInd.

Section FieldInd.
  Variable P : field -> Prop.
  Hypothesis H : forall fname mask excl isrep rexp rsc rrep fty,
      Forall P rrep -> P (Field fname mask excl isrep rexp rsc rrep fty).
  Fixpoint field_ind' (f : field) : P f :=
    match f with
    | Field fname mask excl isrep rexp rsc rrep fty =>
        H fname mask excl isrep rexp rsc rrep fty
          ((fix go (l : list field) : Forall P l :=
              match l with
              | [] => Forall_nil _
              | g :: r => Forall_cons g (field_ind' g) (go r)
              end) rrep)
    end.
End FieldInd.

(** * The nested fixpoints as [flat_map] / [forallb] *)
Lemma print_tr_args : forall l,
  (fix go (l : list aot) : str :=
     match l with
     | [] => []
     | Aot isar ar t' :: r => ch_space :: (if isar then print_arith ar else print_tr t') ++ go r
     end) l = flat_map (fun x => ch_space :: print_aot x) l.
Proof.
  induction l as [|[i ar t] l IH]; [reflexivity|].
  cbn [flat_map print_aot app]. rewrite <- IH. reflexivity.
Qed.

Lemma print_tr_eq : forall ty args bare,
  print_tr (TypeRef ty args bare) =
  (if bare then [ch_pct] else []) ++
  match args with
  | [] => print_name ty
  | _ => [ch_lpar] ++ print_name ty ++ flat_map (fun x => ch_space :: print_aot x) args ++ [ch_rpar]
  end.
Proof.
  intros. rewrite <- print_tr_args. destruct args; reflexivity.
Qed.

Lemma crc_tr_args : forall l,
  (fix go (l : list aot) : str :=
     match l with
     | [] => []
     | Aot isar ar t' :: r => ch_space :: (if isar then dec (a_res ar) else crc_tr t') ++ go r
     end) l = flat_map (fun x => ch_space :: crc_aot x) l.
Proof.
  induction l as [|[i ar t] l IH]; [reflexivity|].
  cbn [flat_map crc_aot app]. rewrite <- IH. reflexivity.
Qed.

Lemma crc_tr_eq : forall ty args bare,
  crc_tr (TypeRef ty args bare) =
  (if bare_marker ty bare then [ch_pct] else []) ++ print_name ty ++
  flat_map (fun x => ch_space :: crc_aot x) args.
Proof. intros. rewrite <- crc_tr_args. reflexivity. Qed.

Lemma wf_tr_args : forall l,
  (fix go (l : list aot) : bool :=
     match l with
     | [] => true
     | Aot isar ar t' :: r =>
         (if isar then wf_arith ar && empty_tr t' else empty_arith ar && wf_tr t') && go r
     end) l = forallb wf_aot l.
Proof.
  induction l as [|[i ar t] l IH]; [reflexivity|].
  cbn [forallb wf_aot]. rewrite <- IH. reflexivity.
Qed.

Lemma wf_tr_eq : forall ty args bare,
  wf_tr (TypeRef ty args bare) =
  if is_hash_name ty then negb bare && negb (nonempty args)
  else wf_name ty && forallb wf_aot args.
Proof. intros. rewrite <- wf_tr_args. reflexivity. Qed.

Fixpoint join_sp (l : list str) : str :=
  match l with
  | [] => []
  | [x] => x
  | x :: r => x ++ ch_space :: join_sp r
  end.

Lemma print_field_args : forall l first,
  (fix go (first : bool) (l : list field) : str :=
     match l with
     | [] => []
     | g :: r => (if first then [] else [ch_space]) ++ print_field g ++ go false r
     end) first l =
  match l with
  | [] => []
  | _ => (if first then [] else [ch_space]) ++ join_sp (map print_field l)
  end.
Proof.
  induction l as [|g l IH]; intro first; [reflexivity|].
  rewrite IH. destruct l as [|g' l]; cbn [map join_sp].
  - now rewrite app_nil_r.
  - reflexivity.
Qed.

Lemma print_field_eq : forall fname mask excl isrep rexp rsc rrep fty,
  print_field (Field fname mask excl isrep rexp rsc rrep fty) =
  print_fname fname ++ print_mask_opt mask ++ (if excl then [ch_excl] else []) ++
  if isrep then
    (if rexp then print_scale rsc ++ [ch_star] else []) ++ [ch_lsq] ++
    join_sp (map print_field rrep) ++ [ch_rsq]
  else print_tr fty.
Proof.
  intros. cbn [print_field]. rewrite print_field_args. destruct rrep; reflexivity.
Qed.

Definition crc_rep_item (g : field) : str :=
  match g with
  | Field gname _ _ gisrep _ _ _ _ => if gisrep then print_fname gname ++ crc_rws g else print_field g
  end.

Lemma crc_rws_args : forall l,
  (fix go (l : list field) : str :=
     match l with
     | [] => []
     | g :: r =>
         ch_space ::
         (match g with
          | Field gname _ _ gisrep _ _ _ _ =>
              if gisrep then print_fname gname ++ crc_rws g else print_field g
          end) ++ go r
     end) l = flat_map (fun g => ch_space :: crc_rep_item g) l.
Proof.
  induction l as [|g l IH]; [reflexivity|].
  cbn [flat_map app]. rewrite <- IH. destruct g. reflexivity.
Qed.

Lemma crc_rws_eq : forall fname mask excl isrep rexp rsc rrep fty,
  crc_rws (Field fname mask excl isrep rexp rsc rrep fty) =
  crc_scale rexp rsc ++ [ch_lsq] ++ flat_map (fun g => ch_space :: crc_rep_item g) rrep ++ s_sp_rsq.
Proof. intros. rewrite <- crc_rws_args. reflexivity. Qed.

Lemma wf_field_args : forall l,
  (fix go (l : list field) : bool :=
     match l with [] => true | g :: r => wf_field g && go r end) l = forallb wf_field l.
Proof. induction l as [|g l IH]; [reflexivity|]. cbn [forallb]. rewrite <- IH. reflexivity. Qed.

Lemma wf_field_eq : forall fname mask excl isrep rexp rsc rrep fty,
  wf_field (Field fname mask excl isrep rexp rsc rrep fty) =
  (match fname with [] => true | _ => is_ident fname end) && wf_mask mask &&
  if isrep then wf_scale rexp rsc && empty_tr fty && forallb wf_field rrep
  else wf_scale false rsc && negb rexp && negb (nonempty rrep) && wf_tr fty.
Proof. intros. rewrite <- wf_field_args. reflexivity. Qed.

(** * Decimal and hexadecimal printers *)
Definition dval (ds : str) : N := fold_left (fun a d => a * 10 + (d - 48)) ds 0.

Lemma dval_app1 : forall ds d, dval (ds ++ [d]) = dval ds * 10 + (d - 48).
Proof. intros. unfold dval. now rewrite fold_left_app. Qed.

Lemma is_digit_spec : forall b, is_digit b = true <-> 48 <= b <= 57.
Proof. intros. unfold is_digit. lia. Qed.

Lemma dec_aux_spec : forall f n acc, n < 2 ^ N.of_nat f ->
  exists ds, dec_aux (S f) n acc = ds ++ acc /\ ds <> [] /\ forallb is_digit ds = true /\ dval ds = n.
Proof.
  induction f as [|f IH]; intros n acc Hn.
  - assert (n = 0) by (cbn in Hn; lia). subst. exists [48]. cbn. repeat split; congruence.
  - cbn [dec_aux]. destruct (n <? 10) eqn:E.
    + exists [48 + n mod 10]. repeat split; try congruence.
      * cbn [forallb]. rewrite andb_true_r. apply is_digit_spec. lia.
      * unfold dval. cbn [fold_left]. lia.
    + assert (Hd : n / 10 < 2 ^ N.of_nat f).
      { rewrite Nat2N.inj_succ, N.pow_succ_r' in Hn. lia. }
      destruct (IH (n / 10) ((48 + n mod 10) :: acc) Hd) as (ds & E1 & Hne & Hdig & Hval).
      change (dec_aux (S f) (n / 10) ((48 + n mod 10) :: acc)) with
        (dec_aux (S f) (n / 10) ((48 + n mod 10) :: acc)) in E1.
      exists (ds ++ [48 + n mod 10]). repeat split.
      * rewrite <- app_assoc. exact E1.
      * destruct ds; discriminate.
      * rewrite forallb_app, Hdig. cbn [forallb andb]. rewrite andb_true_r. apply is_digit_spec. lia.
      * rewrite dval_app1, Hval. lia.
Qed.

Lemma lt_pow2_size_nat : forall n, n < 2 ^ N.of_nat (N.size_nat n).
Proof.
  destruct n as [|p]; [cbn; lia|]. cbn [N.size_nat].
  induction p as [p IH|p IH|]; cbn [Pos.size_nat].
  - rewrite Nat2N.inj_succ, N.pow_succ_r'. lia.
  - rewrite Nat2N.inj_succ, N.pow_succ_r'. lia.
  - cbn. lia.
Qed.

Lemma dec_spec : forall n, dec n <> [] /\ forallb is_digit (dec n) = true /\ dval (dec n) = n.
Proof.
  intro n. unfold dec.
  destruct (dec_aux_spec (N.size_nat n) n [] (lt_pow2_size_nat n)) as (ds & E & H1 & H2 & H3).
  rewrite app_nil_r in E. rewrite E. auto.
Qed.

Lemma dec_inj : forall a b, dec a = dec b -> a = b.
Proof.
  intros a b H. destruct (dec_spec a) as (_ & _ & Ha). destruct (dec_spec b) as (_ & _ & Hb).
  rewrite <- Ha, <- Hb. now rewrite H.
Qed.

Definition hexval1 (d : N) : N := if d <? 58 then d - 48 else d - 87.
Definition hexval (ds : str) : N := fold_left (fun a d => a * 16 + hexval1 d) ds 0.
Definition is_hex (b : N) : bool := is_digit b || ((97 <=? b) && (b <=? 102)).

Lemma hexk_spec : forall k n,
  length (hexk k n) = k /\ forallb is_hex (hexk k n) = true /\ hexval (hexk k n) = n mod 16 ^ N.of_nat k.
Proof.
  induction k as [|k IH]; intro n.
  - cbn. repeat split. now rewrite N.mod_1_r.
  - cbn [hexk]. destruct (IH (n / 16)) as (L & Hh & V). repeat split.
    + rewrite app_length, L. cbn. lia.
    + rewrite forallb_app, Hh. cbn. rewrite andb_true_r. unfold is_hex, is_digit, hexdigit.
      destruct (n mod 16 <? 10) eqn:E; lia.
    + unfold hexval in *. rewrite fold_left_app, V. cbn [fold_left].
      rewrite Nat2N.inj_succ, N.pow_succ_r'.
      assert (hexval1 (hexdigit (n mod 16)) = n mod 16).
      { unfold hexval1, hexdigit. destruct (n mod 16 <? 10) eqn:E.
        - destruct (48 + n mod 16 <? 58) eqn:E2; lia.
        - destruct (87 + n mod 16 <? 58) eqn:E2; lia. }
      rewrite H.
      assert (P : 0 < 16 ^ N.of_nat k) by (apply N.neq_0_lt_0, N.pow_nonzero; lia).
      rewrite N.mod_mul_r by lia.
      generalize ((n / 16) mod 16 ^ N.of_nat k). generalize (n mod 16). intros. lia.
Qed.

Lemma hex8_value : forall n, n < 4294967296 -> hexval (hex8 n) = n.
Proof.
  intros n H. unfold hex8. destruct (hexk_spec 8 n) as (_ & _ & V). rewrite V.
  change (16 ^ N.of_nat 8) with 4294967296. now apply N.mod_small.
Qed.

Lemma hex8_length : forall n, length (hex8 n) = 8%nat.
Proof. intro. apply (hexk_spec 8 n). Qed.

Lemma hex8_inj : forall a b, a < 4294967296 -> b < 4294967296 -> hex8 a = hex8 b -> a = b.
Proof. intros a b Ha Hb H. rewrite <- (hex8_value a Ha), <- (hex8_value b Hb). now rewrite H. Qed.

(** * CRC-32 stays in 32 bits *)
Lemma lxor_lt_pow2 : forall a b k, a < 2 ^ k -> b < 2 ^ k -> N.lxor a b < 2 ^ k.
Proof.
  intros a b k Ha Hb.
  destruct (N.eq_dec (N.lxor a b) 0) as [E|E]; [rewrite E; apply N.neq_0_lt_0, N.pow_nonzero; lia|].
  apply N.log2_lt_pow2; [lia|].
  eapply N.le_lt_trans; [apply N.log2_lxor|].
  destruct (N.eq_dec a 0) as [->|Ea]; destruct (N.eq_dec b 0) as [->|Eb].
  - cbn in E. congruence.
  - rewrite N.max_r by (cbn; lia). apply N.log2_lt_pow2; lia.
  - rewrite N.max_l by (cbn; lia). apply N.log2_lt_pow2; lia.
  - apply N.max_lub_lt; apply N.log2_lt_pow2; lia.
Qed.

Lemma crc_step_range : forall c, c < 2 ^ 32 -> crc_step c < 2 ^ 32.
Proof.
  intros c H. unfold crc_step.
  assert (S : N.shiftr c 1 < 2 ^ 32).
  { rewrite N.shiftr_div_pow2. change (2 ^ 1) with 2. change (2 ^ 32) with 4294967296 in *. lia. }
  destruct (N.odd c); [|exact S].
  apply lxor_lt_pow2; [exact S|]. unfold crc_poly. cbn. lia.
Qed.

Lemma crc_byte_range : forall c b, c < 2 ^ 32 -> b < 256 -> crc_byte c b < 2 ^ 32.
Proof.
  intros c b Hc Hb. unfold crc_byte.
  do 8 apply crc_step_range.
  apply lxor_lt_pow2; [exact Hc|]. change (2 ^ 32) with 4294967296. lia.
Qed.

Lemma crc32_range : forall s, Forall (fun b => b < 256) s -> crc32 s < 4294967296.
Proof.
  intros s H. unfold crc32. change 4294967296 with (2 ^ 32).
  apply lxor_lt_pow2; [|unfold crc_mask; cbn; lia].
  assert (G : forall c, c < 2 ^ 32 -> fold_left crc_byte s c < 2 ^ 32).
  { induction H as [|b r Hb Hr IH]; intros c Hc; [exact Hc|].
    cbn [fold_left]. apply IH. now apply crc_byte_range. }
  apply G. unfold crc_mask. cbn. lia.
Qed.

(** * Small facts about the string helpers *)
Lemma str_eqb_eq : forall a b, str_eqb a b = true <-> a = b.
Proof.
  induction a as [|x a IH]; destruct b as [|y b]; cbn; split; intro H; try congruence; try discriminate.
  - apply andb_true_iff in H. destruct H as [H1 H2]. apply N.eqb_eq in H1. apply IH in H2. congruence.
  - injection H as -> ->. rewrite N.eqb_refl. cbn. now apply IH.
Qed.

Lemma forallb_flat_map : forall {A} (P : N -> bool) (f : A -> str) l,
  forallb P (flat_map f l) = forallb (fun x => forallb P (f x)) l.
Proof.
  induction l as [|x l IH]; [reflexivity|]. cbn [flat_map forallb]. now rewrite forallb_app, IH.
Qed.

Lemma forallb_impl : forall {A} (P Q : A -> bool) l,
  (forall x, P x = true -> Q x = true) -> forallb P l = true -> forallb Q l = true.
Proof.
  induction l as [|x l IH]; intros HI H; [reflexivity|]. cbn in *.
  apply andb_true_iff in H. destruct H. rewrite HI by assumption. cbn. now apply IH.
Qed.

Lemma is_ident_idchars : forall s, is_ident s = true -> forallb is_idchar s = true.
Proof.
  destruct s as [|b r]; [discriminate|]. cbn. intro H. apply andb_true_iff in H. destruct H as [H1 H2].
  rewrite H2, andb_true_r. unfold is_idstart, is_idchar in *. destruct (is_letter b); [reflexivity|].
  cbn in *. rewrite H1. now rewrite orb_true_r.
Qed.

Lemma is_hash_name_eq : forall n, is_hash_name n = true -> n = Name [] [ch_hash].
Proof.
  intros [ns nm]. unfold is_hash_name. cbn. intro H. apply andb_true_iff in H. destruct H as [H1 H2].
  apply str_eqb_eq in H2. destruct ns; [|discriminate]. now subst.
Qed.

Lemma empty_tr_eq : forall t, empty_tr t = true -> t = TypeRef (Name [] []) [] false.
Proof.
  intros [[ns nm] args bare]. unfold empty_tr, empty_name. cbn. intro H.
  repeat (apply andb_true_iff in H; destruct H as [H ?]).
  destruct ns, nm, args, bare; try discriminate. reflexivity.
Qed.

Lemma empty_arith_eq : forall a, empty_arith a = true -> a = Arith [] 0.
Proof.
  intros [nums res]. unfold empty_arith. cbn. intro H. apply andb_true_iff in H. destruct H as [H1 H2].
  apply N.eqb_eq in H2. destruct nums; [|discriminate]. now subst.
Qed.

(** * Character set of the printers.
    Generic in the class [P] of allowed bytes: it has to contain the identifier characters and the punctuation the
    templates emit; everything else comes from the identifiers of the AST. *)
Definition is_punct (b : N) : bool :=
  existsb (N.eqb b) [32; 33; 35; 37; 40; 41; 42; 43; 46; 58; 61; 63; 91; 93].

Section Charset.
  Variable P : N -> bool.
  Hypothesis Pid : forall b, is_idchar b = true -> P b = true.
  Hypothesis Ppunct : forall b, is_punct b = true -> P b = true.

  Notation ok s := (forallb P s = true).

  Ltac split_ok :=
    rewrite ?forallb_app;
    repeat match goal with |- (_ && _) = true => apply andb_true_intro; split end; try reflexivity.

  Lemma ok_punct : forall b, is_punct b = true -> ok [b].
  Proof. intros b H. cbn. now rewrite Ppunct. Qed.

  Lemma ok_cons : forall b s, P b = true -> ok s -> ok (b :: s).
  Proof. intros b s H1 H2. cbn. now rewrite H1, H2. Qed.

  Ltac lit :=
    cbv [forallb s_plus s_eq s_qm s_nat_sp s_type_sp s_nat s_type s_rcur_sp s_sp_rsq ch_space ch_excl ch_hash ch_pct
         ch_lpar ch_rpar ch_star ch_dot ch_colon ch_qm ch_lsq ch_rsq ch_at ch_lcur ch_rcur];
    repeat (progress (rewrite ?Ppunct by reflexivity; rewrite ?Pid by reflexivity)); reflexivity.
  Ltac punct := first [apply ok_punct; reflexivity | apply Ppunct; reflexivity | lit].

  Lemma ok_ident : forall s, is_ident s = true -> ok s.
  Proof. intros s H. eapply forallb_impl; [exact Pid|]. now apply is_ident_idchars. Qed.

  Lemma ok_ident_or_nil : forall s, match s with [] => true | _ => is_ident s end = true -> ok s.
  Proof. intros [|b r] H; [reflexivity|]. now apply ok_ident. Qed.

  Lemma ok_digits : forall s, forallb is_digit s = true -> ok s.
  Proof.
    intros s H. eapply forallb_impl; [|exact H]. intros b Hb. apply Pid. unfold is_idchar. rewrite Hb.
    now rewrite orb_true_r.
  Qed.

  Lemma ok_dec : forall n, ok (dec n).
  Proof. intro n. apply ok_digits. apply dec_spec. Qed.

  Lemma ok_name : forall n, wf_name n = true -> ok (print_name n).
  Proof.
    intros [ns nm]. unfold wf_name, print_name. cbn [n_ns n_name]. intro H.
    apply andb_true_iff in H. destruct H as [H1 H2].
    destruct ns as [|b r]; cbn [nonempty].
    - cbn [app]. now apply ok_ident.
    - split_ok; [now apply ok_ident| punct | now apply ok_ident].
  Qed.

  Lemma ok_hash_name : ok (print_name (Name [] [ch_hash])).
  Proof. cbn. now rewrite Ppunct. Qed.

  Lemma ok_nums : forall l, ok (print_nums l).
  Proof.
    induction l as [|x [|y l] IH]; [reflexivity| apply ok_dec |].
    change (print_nums (x :: y :: l)) with (dec x ++ s_plus ++ print_nums (y :: l)).
    split_ok; [apply ok_dec | lit | exact IH].
  Qed.

  Lemma ok_print_tr : forall t, wf_tr t = true -> ok (print_tr t).
  Proof.
    induction t as [ty args bare IH] using typeref_ind'. intro W.
    rewrite wf_tr_eq in W. rewrite print_tr_eq.
    assert (Hb : ok (if bare then [ch_pct] else [])) by (destruct bare; [now apply ok_punct|reflexivity]).
    destruct (is_hash_name ty) eqn:Eh.
    - apply is_hash_name_eq in Eh. subst ty. apply andb_true_iff in W. destruct W as [_ W].
      destruct args; [|discriminate]. rewrite forallb_app, Hb. apply ok_hash_name.
    - apply andb_true_iff in W. destruct W as [Wn Wa].
      assert (Ha : ok (flat_map (fun x => ch_space :: print_aot x) args)).
      { rewrite forallb_flat_map. rewrite forallb_forall in *. rewrite Forall_forall in IH.
        intros x Hx. specialize (IH x Hx). specialize (Wa x Hx). destruct x as [i ar t]. cbn [aot_tr] in IH.
        cbn [forallb print_aot]. rewrite Ppunct by reflexivity. cbn [andb].
        unfold wf_aot in Wa. destruct i.
        - apply ok_nums.
        - apply andb_true_iff in Wa. now apply IH. }
      rewrite forallb_app, Hb. cbn [andb]. destruct args as [|a l]; [now apply ok_name|].
      split_ok; try punct; [now apply ok_name | exact Ha].
  Qed.

  Lemma ok_crc_tr : forall t, wf_tr t = true -> ok (crc_tr t).
  Proof.
    induction t as [ty args bare IH] using typeref_ind'. intro W.
    rewrite wf_tr_eq in W. rewrite crc_tr_eq.
    assert (Hb : ok (if bare_marker ty bare then [ch_pct] else []))
      by (destruct (bare_marker ty bare); [now apply ok_punct|reflexivity]).
    destruct (is_hash_name ty) eqn:Eh.
    - apply is_hash_name_eq in Eh. subst ty. apply andb_true_iff in W. destruct W as [_ W].
      destruct args; [|discriminate]. rewrite forallb_app, Hb. cbn [flat_map]. rewrite app_nil_r.
      apply ok_hash_name.
    - apply andb_true_iff in W. destruct W as [Wn Wa].
      rewrite !forallb_app, Hb, (ok_name ty Wn). cbn [andb].
      rewrite forallb_flat_map. rewrite forallb_forall in *. rewrite Forall_forall in IH.
      intros x Hx. specialize (IH x Hx). specialize (Wa x Hx). destruct x as [i ar t]. cbn [aot_tr] in IH.
      cbn [forallb crc_aot]. rewrite Ppunct by reflexivity. cbn [andb].
      unfold wf_aot in Wa. destruct i.
      + apply ok_dec.
      + apply andb_true_iff in Wa. now apply IH.
  Qed.

  Lemma ok_fname : forall s, match s with [] => true | _ => is_ident s end = true -> ok (print_fname s).
  Proof.
    intros [|b r] H; [reflexivity|]. unfold print_fname. cbn [nonempty]. split_ok; [now apply ok_ident|punct].
  Qed.

  Lemma ok_mask : forall m, wf_mask m = true -> ok (print_mask_opt m).
  Proof.
    intros [[nm bit]|] H; [|reflexivity]. cbn in H. apply andb_true_iff in H. destruct H as [H _].
    unfold print_mask_opt, print_mask. cbn [m_name m_bit].
    split_ok; try punct; [now apply ok_ident | apply ok_dec].
  Qed.

  Lemma ok_print_scale : forall s, wf_scale true s = true -> ok (print_scale s).
  Proof.
    intros [i ar sc]. unfold wf_scale, print_scale. cbn [s_isarith s_arith s_scale]. destruct i; intro H.
    - split_ok; try punct. apply ok_nums.
    - apply andb_true_iff in H. destruct H as [_ H]. now apply ok_ident.
  Qed.

  Lemma ok_crc_scale : forall rexp s, wf_scale rexp s = true -> ok (crc_scale rexp s).
  Proof.
    intros rexp [i ar sc]. unfold wf_scale, crc_scale. cbn [s_isarith s_arith s_scale].
    destruct rexp; [|reflexivity]. destruct i; intro H.
    - split_ok; [apply ok_dec | punct].
    - apply andb_true_iff in H. destruct H as [_ H]. split_ok; [now apply ok_ident | punct].
  Qed.

  Lemma ok_join_sp : forall l, Forall (fun s => ok s) l -> ok (join_sp l).
  Proof.
    induction l as [|x [|y l] IH]; intro H; [reflexivity| now inversion H |].
    change (join_sp (x :: y :: l)) with (x ++ ch_space :: join_sp (y :: l)).
    inversion H; subst. rewrite forallb_app. cbn [forallb]. rewrite Ppunct by reflexivity.
    rewrite IH by assumption. now rewrite H2.
  Qed.

  Lemma ok_print_field : forall f, wf_field f = true -> ok (print_field f).
  Proof.
    induction f as [fname mask excl isrep rexp rsc rrep fty IH] using field_ind'. intro W.
    rewrite wf_field_eq in W. rewrite print_field_eq.
    apply andb_true_iff in W. destruct W as [W W3]. apply andb_true_iff in W. destruct W as [W1 W2].
    rewrite !forallb_app, (ok_fname _ W1), (ok_mask _ W2). cbn [andb].
    assert (He : ok (if excl then [ch_excl] else [])) by (destruct excl; [now apply ok_punct|reflexivity]).
    rewrite He. cbn [andb]. destruct isrep.
    - apply andb_true_iff in W3. destruct W3 as [W3 W5]. apply andb_true_iff in W3. destruct W3 as [W3 W4].
      split_ok; try punct.
      + destruct rexp; [|reflexivity]. split_ok; [now apply ok_print_scale|punct].
      + apply ok_join_sp. rewrite Forall_forall in *. intros s Hs. apply in_map_iff in Hs.
        destruct Hs as (g & <- & Hg). apply IH; [exact Hg|]. rewrite forallb_forall in W5. now apply W5.
    - apply andb_true_iff in W3. destruct W3 as [_ W3]. now apply ok_print_tr.
  Qed.

  Lemma ok_crc_rws : forall f, wf_field f = true ->
    match f with Field _ _ _ isrep _ _ _ _ => isrep = true end -> ok (crc_rws f).
  Proof.
    induction f as [fname mask excl isrep rexp rsc rrep fty IH] using field_ind'. intros W R. subst isrep.
    rewrite wf_field_eq in W. rewrite crc_rws_eq.
    apply andb_true_iff in W. destruct W as [_ W3].
    apply andb_true_iff in W3. destruct W3 as [W3 W5]. apply andb_true_iff in W3. destruct W3 as [W3 _].
    rewrite !forallb_app, (ok_crc_scale _ _ W3). cbn [andb].
    split_ok; try punct.
    rewrite forallb_flat_map. rewrite forallb_forall in *. rewrite Forall_forall in IH.
    intros g Hg. specialize (IH g Hg). specialize (W5 g Hg). cbn [forallb]. rewrite Ppunct by reflexivity. cbn [andb].
    destruct g as [gname gm ge gisrep grexp grsc grrep gty]. cbn [crc_rep_item]. destruct gisrep.
    - rewrite forallb_app. rewrite IH by (assumption || reflexivity). rewrite andb_true_r.
      rewrite wf_field_eq in W5. apply andb_true_iff in W5. destruct W5 as [W5 _].
      apply andb_true_iff in W5. destruct W5 as [W5 _]. now apply ok_fname.
    - now apply ok_print_field.
  Qed.

  Lemma ok_crc_field : forall f, wf_field f = true -> ok (crc_field f).
  Proof.
    intros f W. destruct f as [fname mask excl isrep rexp rsc rrep fty]. unfold crc_field.
    pose proof W as W0. rewrite wf_field_eq in W.
    apply andb_true_iff in W. destruct W as [W W3]. apply andb_true_iff in W. destruct W as [W1 W2].
    rewrite !forallb_app, (ok_fname _ W1), (ok_mask _ W2). cbn [andb]. destruct isrep.
    - now apply ok_crc_rws.
    - apply andb_true_iff in W3. destruct W3 as [_ W3]. now apply ok_crc_tr.
  Qed.

  Lemma ok_typedecl : forall d, wf_name (td_name d) = true -> forallb is_ident (td_args d) = true ->
    ok (print_typedecl d).
  Proof.
    intros [n a] H1 H2. unfold print_typedecl. cbn [td_name td_args] in *.
    rewrite forallb_app, (ok_name _ H1). cbn [andb]. rewrite forallb_flat_map.
    rewrite forallb_forall in *. intros x Hx. cbn [forallb]. rewrite Ppunct by reflexivity. cbn [andb].
    apply ok_ident. now apply H2.
  Qed.

  Lemma ok_canon_result : forall c, wf_comb c = true -> ok (canon_result c).
  Proof.
    intros c W. unfold wf_comb in W. repeat (apply andb_true_iff in W; destruct W as [W ?]).
    unfold canon_result. destruct (c_isfunc c).
    - now apply ok_crc_tr.
    - repeat (match goal with H : _ && _ = true |- _ => apply andb_true_iff in H; destruct H end).
      now apply ok_typedecl.
  Qed.

  (** everything after the template arguments: "? ", the fields, "= " and the result *)
  Definition canon_tail (c : comb) : str :=
    (if c_builtin c then s_qm else []) ++
    flat_map (fun x => canon_field x ++ [ch_space]) (c_fields c) ++ s_eq ++ canon_result c.

  Lemma ok_canon_tail : forall c, wf_comb c = true -> ok (canon_tail c).
  Proof.
    intros c W. pose proof (ok_canon_result c W) as Hr.
    unfold wf_comb in W. repeat (apply andb_true_iff in W; destruct W as [W ?]).
    unfold canon_tail. split_ok; try punct; try exact Hr.
    - destruct (c_builtin c); [|reflexivity]. split_ok; punct.
    - rewrite forallb_flat_map. rewrite forallb_forall in *. intros f Hf. rewrite forallb_app.
      change (canon_field f) with (crc_field f). rewrite ok_crc_field by auto. cbn. now rewrite Ppunct.
  Qed.

  Lemma canon_split : forall c,
    canon c = print_name (c_name c) ++ [ch_space] ++
              flat_map (fun x => ta_name x ++ (if ta_isnat x then s_nat_sp else s_type_sp)) (c_targs c) ++
              canon_tail c.
  Proof. reflexivity. Qed.

  Lemma ok_canon_targs : forall l, forallb (fun x => is_ident (ta_name x)) l = true ->
    ok (flat_map (fun x => ta_name x ++ (if ta_isnat x then s_nat_sp else s_type_sp)) l).
  Proof.
    intros l H. rewrite forallb_flat_map. rewrite forallb_forall in *. intros x Hx. rewrite forallb_app.
    rewrite ok_ident by auto. cbn [andb]. destruct (ta_isnat x); lit.
  Qed.

  Lemma ok_canon : forall c, wf_comb c = true -> ok (canon c).
  Proof.
    intros c W. pose proof (ok_canon_tail c W) as Ht. rewrite canon_split.
    unfold wf_comb in W. repeat (apply andb_true_iff in W; destruct W as [W ?]).
    split_ok; [now apply ok_name | lit | now apply ok_canon_targs | exact Ht].
  Qed.
End Charset.

(** the concrete classes: the canonical form uses identifier characters and this punctuation only *)
Definition is_canon_char (b : N) : bool := is_idchar b || is_punct b.

Lemma canon_chars : forall c, wf_comb c = true -> forallb is_canon_char (canon c) = true.
Proof.
  apply ok_canon; intros b H; unfold is_canon_char; rewrite H; [reflexivity | apply orb_true_r].
Qed.

Lemma canon_avoids : forall c b, wf_comb c = true -> is_canon_char b = false -> ~ In b (canon c).
Proof.
  intros c b W Hb Hin. pose proof (canon_chars c W) as H. rewrite forallb_forall in H.
  specialize (H b Hin). congruence.
Qed.

Lemma canon_no_braces : forall c, wf_comb c = true -> ~ In ch_lcur (canon c) /\ ~ In ch_rcur (canon c).
Proof. intros c W. split; apply canon_avoids; auto. Qed.

Lemma canon_one_line : forall c, wf_comb c = true ->
  ~ In 10 (canon c) /\ ~ In 13 (canon c) /\ ~ In 9 (canon c).
Proof. intros c W. repeat split; apply canon_avoids; auto. Qed.

(** * Spacing: no leading or trailing space and no two consecutive spaces.
    [scan p s] walks over [s] remembering whether the previous byte was a space ([p]; [true] at the start so that a
    leading space counts as double); it fails on a double space and otherwise tells whether the last byte was one. *)
Fixpoint scan (p : bool) (s : str) : option bool :=
  match s with
  | [] => Some p
  | b :: r => if b =? 32 then (if p then None else scan true r) else scan false r
  end.

Definition tight (s : str) : Prop := scan true s = Some false.
Definition trailing (s : str) : Prop := scan true s = Some true.
Definition nosp (s : str) : Prop := forallb (fun b => negb (b =? 32)) s = true.

Lemma scan_app : forall a b p,
  scan p (a ++ b) = match scan p a with Some q => scan q b | None => None end.
Proof.
  induction a as [|x a IH]; intros b p; [reflexivity|]. cbn [app scan].
  destruct (x =? 32); [destruct p; [reflexivity|]|]; apply IH.
Qed.

Lemma tight_any : forall s, tight s -> forall p, scan p s = Some false.
Proof.
  intros [|b r] H p; [discriminate|]. unfold tight in H. cbn [scan] in *.
  destruct (b =? 32); [discriminate|exact H].
Qed.

Lemma scan_nosp_false : forall s, nosp s -> scan false s = Some false.
Proof.
  induction s as [|x r IH]; intro H; [reflexivity|]. unfold nosp in *. cbn [forallb scan] in *.
  apply andb_true_iff in H. destruct H as [H1 H2]. destruct (x =? 32); [discriminate|]. now apply IH.
Qed.

Lemma scan_nosp : forall s p, nosp s -> scan p s = Some (match s with [] => p | _ => false end).
Proof.
  intros [|b r] p H; [reflexivity|]. unfold nosp in H. cbn [forallb scan] in *.
  apply andb_true_iff in H. destruct H as [H1 H2]. destruct (b =? 32); [discriminate|].
  now apply scan_nosp_false.
Qed.

Lemma nosp_app : forall a b, nosp a -> nosp b -> nosp (a ++ b).
Proof. intros a b Ha Hb. unfold nosp in *. now rewrite forallb_app, Ha, Hb. Qed.

Lemma tight_nosp : forall s, nosp s -> s <> [] -> tight s.
Proof. intros s H Hne. unfold tight. rewrite scan_nosp by assumption. destruct s; congruence. Qed.

Lemma tight_app : forall a b, tight a -> tight b -> tight (a ++ b).
Proof. intros a b Ha Hb. unfold tight. rewrite scan_app, Ha. now apply tight_any. Qed.

Lemma tight_sp : forall a b, tight a -> tight b -> tight (a ++ ch_space :: b).
Proof. intros a b Ha Hb. unfold tight. rewrite scan_app, Ha. cbn. exact Hb. Qed.

Lemma tight_pre : forall a b, nosp a -> tight b -> tight (a ++ b).
Proof.
  intros a b Ha Hb. unfold tight. rewrite scan_app, scan_nosp by assumption.
  destruct a; [exact Hb | now apply tight_any].
Qed.

Lemma tight_post : forall a b, tight a -> nosp b -> tight (a ++ b).
Proof.
  intros a b Ha Hb. unfold tight. rewrite scan_app, Ha. now apply scan_nosp_false.
Qed.

Lemma tight_args : forall {A} (f : A -> str) l a,
  tight a -> (forall x, In x l -> tight (f x)) -> tight (a ++ flat_map (fun x => ch_space :: f x) l).
Proof.
  induction l as [|x l IH]; intros a Ha H.
  - cbn. now rewrite app_nil_r.
  - cbn [flat_map]. change (ch_space :: f x ++ flat_map (fun x0 => ch_space :: f x0) l)
      with ((ch_space :: f x) ++ flat_map (fun x0 => ch_space :: f x0) l).
    rewrite app_assoc. apply IH.
    + apply tight_sp; [exact Ha | apply H; now left].
    + intros y Hy. apply H. now right.
Qed.

Lemma tight_join : forall l, l <> [] -> (forall s, In s l -> tight s) -> tight (join_sp l).
Proof.
  induction l as [|x [|y l] IH]; intros Hne H; [congruence | apply H; now left |].
  change (join_sp (x :: y :: l)) with (x ++ ch_space :: join_sp (y :: l)).
  apply tight_sp; [apply H; now left|]. apply IH; [discriminate|]. intros s Hs. apply H. now right.
Qed.

Lemma trailing_nil : trailing [].
Proof. reflexivity. Qed.

Lemma trailing_item : forall t, tight t -> trailing (t ++ [ch_space]).
Proof. intros t H. unfold trailing. rewrite scan_app, H. reflexivity. Qed.

Lemma trailing_app : forall a b, trailing a -> trailing b -> trailing (a ++ b).
Proof. intros a b Ha Hb. unfold trailing. now rewrite scan_app, Ha. Qed.

Lemma trailing_tight : forall a b, trailing a -> tight b -> tight (a ++ b).
Proof. intros a b Ha Hb. unfold tight. now rewrite scan_app, Ha. Qed.

Lemma trailing_flat_map : forall {A} (f : A -> str) l,
  (forall x, In x l -> tight (f x)) -> trailing (flat_map (fun x => f x ++ [ch_space]) l).
Proof.
  induction l as [|x l IH]; intro H; [reflexivity|]. cbn [flat_map].
  apply trailing_app; [apply trailing_item, H; now left | apply IH; intros y Hy; apply H; now right].
Qed.

(** what [tight] means *)
Lemma scan_double : forall a b p, scan p (a ++ ch_space :: ch_space :: b) = None.
Proof.
  intros a b p. rewrite scan_app. destruct (scan p a) as [q|]; [|reflexivity].
  cbn. destruct q; reflexivity.
Qed.

Lemma tight_spec : forall s, tight s ->
  s <> [] /\ hd 0 s <> ch_space /\ last s 0 <> ch_space /\
  (forall a b, s <> a ++ ch_space :: ch_space :: b).
Proof.
  intros s H. repeat split.
  - intro E. subst. discriminate.
  - destruct s as [|b r]; [discriminate|]. cbn. intro E. subst. discriminate.
  - destruct (@exists_last _ s) as (r & b & E); [intro E; subst; discriminate|]. subst.
    rewrite last_last. intro E. subst. unfold tight in H. rewrite scan_app in H.
    destruct (scan true r) as [[|]|]; discriminate.
  - intros a b E. subst. unfold tight in H. rewrite scan_double in H. discriminate.
Qed.

(** ** the printers are tight on well-formed ASTs *)
Lemma idchar_nosp : forall s, forallb is_idchar s = true -> nosp s.
Proof.
  intros s H. unfold nosp. eapply forallb_impl; [|exact H]. intros b Hb.
  destruct (b =? 32) eqn:E; [|reflexivity]. apply N.eqb_eq in E. subst. discriminate.
Qed.

Lemma ident_nosp : forall s, is_ident s = true -> nosp s.
Proof. intros. now apply idchar_nosp, is_ident_idchars. Qed.

Lemma ident_tight : forall s, is_ident s = true -> tight s.
Proof. intros s H. apply tight_nosp; [now apply ident_nosp|]. destruct s; [discriminate|congruence]. Qed.

Lemma name_nosp : forall n, wf_name n = true -> nosp (print_name n) /\ print_name n <> [].
Proof.
  intros [ns nm]. unfold wf_name, print_name. cbn [n_ns n_name]. intro H.
  apply andb_true_iff in H. destruct H as [H1 H2]. split.
  - destruct ns as [|b r]; [cbn [nonempty app]; now apply ident_nosp|]. cbn [nonempty].
    apply nosp_app; [apply nosp_app; [now apply ident_nosp|reflexivity] | now apply ident_nosp].
  - destruct nm; [discriminate|]. destruct (nonempty ns); [destruct ns; discriminate|discriminate].
Qed.

Lemma name_tight : forall n, wf_name n = true -> tight (print_name n).
Proof. intros n H. destruct (name_nosp n H). now apply tight_nosp. Qed.

Lemma dec_nosp : forall n, nosp (dec n).
Proof.
  intro n. apply idchar_nosp. eapply forallb_impl; [|apply dec_spec]. intros b Hb. unfold is_idchar.
  rewrite Hb. now rewrite orb_true_r.
Qed.

Lemma dec_tight : forall n, tight (dec n).
Proof. intro n. apply tight_nosp; [apply dec_nosp | apply dec_spec]. Qed.

Lemma nums_tight : forall l, l <> [] -> tight (print_nums l).
Proof.
  induction l as [|x [|y l] IH]; intro H; [congruence | apply dec_tight |].
  change (print_nums (x :: y :: l)) with (dec x ++ ch_space :: ([43] ++ ch_space :: print_nums (y :: l))).
  apply tight_sp; [apply dec_tight|]. apply tight_sp; [reflexivity|]. apply IH. discriminate.
Qed.

Lemma wf_arith_nums : forall a, wf_arith a = true -> a_nums a <> [].
Proof.
  intros [nums res]. unfold wf_arith. cbn. intro H. destruct nums; [discriminate|congruence].
Qed.

Lemma hash_name_tight : tight (print_name (Name [] [ch_hash])).
Proof. reflexivity. Qed.

Lemma print_tr_tight : forall t, wf_tr t = true -> tight (print_tr t).
Proof.
  induction t as [ty args bare IH] using typeref_ind'. intro W.
  rewrite wf_tr_eq in W. rewrite print_tr_eq.
  assert (Hb : nosp (if bare then [ch_pct] else [])) by (destruct bare; reflexivity).
  apply tight_pre; [exact Hb|].
  destruct (is_hash_name ty) eqn:Eh.
  - apply is_hash_name_eq in Eh. subst ty. apply andb_true_iff in W. destruct W as [_ W].
    destruct args; [|discriminate]. apply hash_name_tight.
  - apply andb_true_iff in W. destruct W as [Wn Wa].
    destruct args as [|a l]; [now apply name_tight|].
    rewrite app_assoc, app_assoc. apply tight_post; [|reflexivity].
    apply tight_args.
    + apply tight_pre; [reflexivity | now apply name_tight].
    + intros x Hx. rewrite forallb_forall in Wa. rewrite Forall_forall in IH.
      specialize (IH x Hx). specialize (Wa x Hx). destruct x as [i ar t]. cbn [aot_tr] in IH.
      unfold wf_aot in Wa. cbn [print_aot]. destruct i.
      * apply andb_true_iff in Wa. destruct Wa as [Wa _]. apply nums_tight. now apply wf_arith_nums.
      * apply andb_true_iff in Wa. now apply IH.
Qed.

Lemma crc_tr_tight : forall t, wf_tr t = true -> tight (crc_tr t).
Proof.
  induction t as [ty args bare IH] using typeref_ind'. intro W.
  rewrite wf_tr_eq in W. rewrite crc_tr_eq.
  assert (Hb : nosp (if bare_marker ty bare then [ch_pct] else [])) by (destruct (bare_marker ty bare); reflexivity).
  destruct (is_hash_name ty) eqn:Eh.
  - apply is_hash_name_eq in Eh. subst ty. apply andb_true_iff in W. destruct W as [_ W].
    destruct args; [|discriminate]. cbn [flat_map]. rewrite app_nil_r.
    apply tight_pre; [exact Hb|apply hash_name_tight].
  - apply andb_true_iff in W. destruct W as [Wn Wa].
    rewrite app_assoc. apply tight_args.
    + apply tight_pre; [exact Hb | now apply name_tight].
    + intros x Hx. rewrite forallb_forall in Wa. rewrite Forall_forall in IH.
      specialize (IH x Hx). specialize (Wa x Hx). destruct x as [i ar t]. cbn [aot_tr] in IH.
      unfold wf_aot in Wa. cbn [crc_aot]. destruct i.
      * apply dec_tight.
      * apply andb_true_iff in Wa. now apply IH.
Qed.

Lemma fname_nosp : forall s, match s with [] => true | _ => is_ident s end = true -> nosp (print_fname s).
Proof.
  intros [|b r] H; [reflexivity|]. unfold print_fname. cbn [nonempty].
  apply nosp_app; [now apply ident_nosp|reflexivity].
Qed.

Lemma mask_nosp : forall m, wf_mask m = true -> nosp (print_mask_opt m).
Proof.
  intros [[nm bit]|] H; [|reflexivity]. cbn in H. apply andb_true_iff in H. destruct H as [H _].
  unfold print_mask_opt, print_mask. cbn [m_name m_bit].
  repeat apply nosp_app; try reflexivity; [now apply ident_nosp | apply dec_nosp].
Qed.

Lemma print_scale_tight : forall s, wf_scale true s = true -> tight (print_scale s).
Proof.
  intros [i ar sc]. unfold wf_scale, print_scale. cbn [s_isarith s_arith s_scale]. destruct i; intro H.
  - apply andb_true_iff in H. destruct H as [H _]. rewrite app_assoc. apply tight_post; [|reflexivity].
    apply tight_pre; [reflexivity|]. apply nums_tight. now apply wf_arith_nums.
  - apply andb_true_iff in H. destruct H as [_ H]. now apply ident_tight.
Qed.

Lemma crc_scale_nosp : forall rexp s, wf_scale rexp s = true -> nosp (crc_scale rexp s).
Proof.
  intros rexp [i ar sc]. unfold wf_scale, crc_scale. cbn [s_isarith s_arith s_scale].
  destruct rexp; [|reflexivity]. destruct i; intro H.
  - apply nosp_app; [apply dec_nosp|reflexivity].
  - apply andb_true_iff in H. destruct H as [_ H]. apply nosp_app; [now apply ident_nosp|reflexivity].
Qed.

Lemma print_field_tight : forall f, wf_field f = true -> tight (print_field f).
Proof.
  induction f as [fname mask excl isrep rexp rsc rrep fty IH] using field_ind'. intro W.
  rewrite wf_field_eq in W. rewrite print_field_eq.
  apply andb_true_iff in W. destruct W as [W W3]. apply andb_true_iff in W. destruct W as [W1 W2].
  apply tight_pre; [now apply fname_nosp|]. apply tight_pre; [now apply mask_nosp|].
  apply tight_pre; [destruct excl; reflexivity|]. destruct isrep.
  - apply andb_true_iff in W3. destruct W3 as [W3 W5]. apply andb_true_iff in W3. destruct W3 as [W3 W4].
    assert (Hbr : tight ([ch_lsq] ++ join_sp (map print_field rrep) ++ [ch_rsq])).
    { destruct rrep as [|g l]; [reflexivity|].
      rewrite app_assoc. apply tight_post; [|reflexivity]. apply tight_pre; [reflexivity|].
      apply tight_join; [discriminate|]. intros s Hs. apply in_map_iff in Hs. destruct Hs as (h & <- & Hh).
      rewrite Forall_forall in IH. apply IH; [exact Hh|]. rewrite forallb_forall in W5. now apply W5. }
    destruct rexp; [|exact Hbr].
    apply tight_app; [|exact Hbr]. apply tight_post; [now apply print_scale_tight|reflexivity].
  - apply andb_true_iff in W3. destruct W3 as [_ W3]. now apply print_tr_tight.
Qed.

Lemma crc_rws_tight : forall f, wf_field f = true ->
  match f with Field _ _ _ isrep _ _ _ _ => isrep = true end -> tight (crc_rws f).
Proof.
  induction f as [fname mask excl isrep rexp rsc rrep fty IH] using field_ind'. intros W R. subst isrep.
  rewrite wf_field_eq in W. rewrite crc_rws_eq.
  apply andb_true_iff in W. destruct W as [_ W3].
  apply andb_true_iff in W3. destruct W3 as [W3 W5]. apply andb_true_iff in W3. destruct W3 as [W3 _].
  apply tight_pre; [now apply crc_scale_nosp|].
  rewrite app_assoc. change s_sp_rsq with (ch_space :: [ch_rsq]). apply tight_sp; [|reflexivity].
  apply tight_args; [reflexivity|].
  intros g Hg. rewrite forallb_forall in W5. rewrite Forall_forall in IH.
  specialize (IH g Hg). specialize (W5 g Hg).
  destruct g as [gname gm ge gisrep grexp grsc grrep gty]. cbn [crc_rep_item]. destruct gisrep.
  - apply tight_pre; [|apply IH; [assumption|reflexivity]].
    rewrite wf_field_eq in W5. apply andb_true_iff in W5. destruct W5 as [W5 _].
    apply andb_true_iff in W5. destruct W5 as [W5 _]. now apply fname_nosp.
  - now apply print_field_tight.
Qed.

Lemma crc_field_tight : forall f, wf_field f = true -> tight (crc_field f).
Proof.
  intros f W. destruct f as [fname mask excl isrep rexp rsc rrep fty]. unfold crc_field.
  pose proof W as W0. rewrite wf_field_eq in W.
  apply andb_true_iff in W. destruct W as [W W3]. apply andb_true_iff in W. destruct W as [W1 W2].
  apply tight_pre; [now apply fname_nosp|]. apply tight_pre; [now apply mask_nosp|]. destruct isrep.
  - now apply crc_rws_tight.
  - apply andb_true_iff in W3. destruct W3 as [_ W3]. now apply crc_tr_tight.
Qed.

Lemma typedecl_tight : forall d, wf_name (td_name d) = true -> forallb is_ident (td_args d) = true ->
  tight (print_typedecl d).
Proof.
  intros [n a] H1 H2. unfold print_typedecl. cbn [td_name td_args] in *.
  apply (tight_args (fun x : str => x)); [now apply name_tight|].
  intros x Hx. rewrite forallb_forall in H2. now apply ident_tight, H2.
Qed.

Lemma canon_result_tight : forall c, wf_comb c = true -> tight (canon_result c).
Proof.
  intros c W. unfold wf_comb in W. repeat (apply andb_true_iff in W; destruct W as [W ?]).
  unfold canon_result. destruct (c_isfunc c).
  - now apply crc_tr_tight.
  - repeat (match goal with H : _ && _ = true |- _ => apply andb_true_iff in H; destruct H end).
    now apply typedecl_tight.
Qed.

Lemma canon_targs_trailing : forall l, forallb (fun x => is_ident (ta_name x)) l = true ->
  trailing (flat_map (fun x => ta_name x ++ (if ta_isnat x then s_nat_sp else s_type_sp)) l).
Proof.
  induction l as [|x l IH]; intro H; [reflexivity|]. cbn [flat_map forallb] in *.
  apply andb_true_iff in H. destruct H as [Hx Hl]. apply trailing_app; [|now apply IH].
  assert (E : ta_name x ++ (if ta_isnat x then s_nat_sp else s_type_sp) =
              (ta_name x ++ (if ta_isnat x then s_nat else s_type)) ++ [ch_space])
    by (rewrite <- app_assoc; destruct (ta_isnat x); reflexivity).
  rewrite E. apply trailing_item. apply tight_post; [now apply ident_tight|]. destruct (ta_isnat x); reflexivity.
Qed.

Lemma canon_tail_tight : forall c, wf_comb c = true -> scan true (canon_tail c) = Some false.
Proof.
  intros c W. pose proof (canon_result_tight c W) as Hr.
  unfold wf_comb in W. repeat (apply andb_true_iff in W; destruct W as [W ?]).
  unfold canon_tail.
  assert (T3 : trailing (if c_builtin c then s_qm else [])) by (destruct (c_builtin c); reflexivity).
  assert (T4 : trailing (flat_map (fun x => canon_field x ++ [ch_space]) (c_fields c))).
  { apply trailing_flat_map. intros f Hf. change (canon_field f) with (crc_field f).
    rewrite forallb_forall in H1. now apply crc_field_tight, H1. }
  unfold trailing in *.
  assert (G : scan true (flat_map (fun x => canon_field x ++ [ch_space]) (c_fields c) ++ s_eq ++ canon_result c)
              = Some false).
  { rewrite scan_app, T4, scan_app. change (scan true s_eq) with (Some true). exact Hr. }
  destruct (c_builtin c).
  - rewrite scan_app. change (scan true s_qm) with (Some true). exact G.
  - exact G.
Qed.

Lemma canon_tight : forall c, wf_comb c = true -> tight (canon c).
Proof.
  intros c W. pose proof (canon_tail_tight c W) as Ht.
  unfold wf_comb in W. repeat (apply andb_true_iff in W; destruct W as [W ?]).
  unfold tight. rewrite canon_split.
  rewrite scan_app, (tight_any _ (name_tight _ H4)).
  pose proof (canon_targs_trailing _ H2) as T2. unfold trailing in T2.
  change (scan false ([ch_space] ++ ?x)) with (scan true x).
  cbn [app]. change (scan false (ch_space :: ?x)) with (scan true x).
  now rewrite scan_app, T2.
Qed.

Lemma canon_single_spaces : forall c, wf_comb c = true ->
  canon c <> [] /\ hd 0 (canon c) <> ch_space /\ last (canon c) 0 <> ch_space /\
  (forall a b, canon c <> a ++ ch_space :: ch_space :: b).
Proof. intros c W. apply tight_spec. now apply canon_tight. Qed.

(** square brackets are separated from their content by one space: "[ " and " ]" *)
Lemma crc_rws_brackets : forall f, exists pre mid,
  crc_rws f = pre ++ [ch_lsq] ++ mid ++ [ch_space; ch_rsq] /\
  (mid = [] \/ exists m, mid = ch_space :: m).
Proof.
  intros [fname mask excl isrep rexp rsc rrep fty]. rewrite crc_rws_eq.
  exists (crc_scale rexp rsc), (flat_map (fun g => ch_space :: crc_rep_item g) rrep). split; [reflexivity|].
  destruct rrep as [|g l]; [now left|right]. cbn [flat_map]. eexists. reflexivity.
Qed.

(** * Arithmetic is replaced by its value (outside repetition brackets) *)
Fixpoint tr_map_arith (f : arith -> arith) (t : typeref) : typeref :=
  match t with
  | TypeRef ty args bare =>
      TypeRef ty (map (fun x => match x with Aot i ar t' => Aot i (f ar) (tr_map_arith f t') end) args) bare
  end.

(* the repeat of field g: its scale, and the repeats nested in it; plain fields inside brackets stay as they are *)
Fixpoint rep_map_arith (f : arith -> arith) (g : field) : field :=
  match g with
  | Field n m e isrep rexp rsc rrep fty =>
      Field n m e isrep rexp (ScaleFactor (s_isarith rsc) (f (s_arith rsc)) (s_scale rsc))
        (map (fun h => match h with
                       | Field _ _ _ hisrep _ _ _ _ => if hisrep then rep_map_arith f h else h
                       end) rrep) fty
  end.

Definition field_map_arith (f : arith -> arith) (g : field) : field :=
  match g with
  | Field n m e isrep rexp rsc rrep fty =>
      if isrep then rep_map_arith f g else Field n m e isrep rexp rsc rrep (tr_map_arith f fty)
  end.

Definition comb_map_arith (f : arith -> arith) (c : comb) : comb :=
  Comb (c_builtin c) (c_isfunc c) (c_mods c) (c_name c) (c_id c) (c_explicit c) (c_targs c)
       (map (field_map_arith f) (c_fields c)) (c_typedecl c) (tr_map_arith f (c_funcdecl c)).

Section ArithValue.
  Variable f : arith -> arith.
  Hypothesis Hres : forall a, a_res (f a) = a_res a.

  Lemma flat_map_map : forall {A B} (g : A -> B) (h : B -> str) l,
    flat_map h (map g l) = flat_map (fun x => h (g x)) l.
  Proof. induction l as [|x l IH]; [reflexivity|]. cbn. now rewrite IH. Qed.

  Lemma flat_map_ext_in : forall {A} (g h : A -> str) l,
    (forall x, In x l -> g x = h x) -> flat_map g l = flat_map h l.
  Proof.
    induction l as [|x l IH]; intro H; [reflexivity|]. cbn. rewrite H by now left.
    rewrite IH; [reflexivity|]. intros y Hy. apply H. now right.
  Qed.

  Lemma crc_tr_map_arith : forall t, crc_tr (tr_map_arith f t) = crc_tr t.
  Proof.
    induction t as [ty args bare IH] using typeref_ind'. cbn [tr_map_arith]. rewrite !crc_tr_eq.
    do 2 f_equal. rewrite flat_map_map. apply flat_map_ext_in. intros [i ar t] Hx.
    rewrite Forall_forall in IH. specialize (IH _ Hx). cbn [aot_tr] in IH. cbn [crc_aot].
    now rewrite Hres, IH.
  Qed.

  Lemma crc_rws_map_arith : forall g, crc_rws (rep_map_arith f g) = crc_rws g.
  Proof.
    induction g as [fname mask excl isrep rexp rsc rrep fty IH] using field_ind'.
    cbn [rep_map_arith]. rewrite !crc_rws_eq. f_equal.
    - unfold crc_scale. cbn [s_isarith s_arith s_scale]. now rewrite Hres.
    - do 2 f_equal. rewrite flat_map_map. apply flat_map_ext_in. intros h Hh.
      rewrite Forall_forall in IH. specialize (IH _ Hh).
      destruct h as [hn hm he hisrep hrexp hrsc hrrep hfty]. destruct hisrep; [|reflexivity].
      cbn [crc_rep_item rep_map_arith] in *. now rewrite IH.
  Qed.

  Lemma canon_field_map_arith : forall g, canon_field (field_map_arith f g) = canon_field g.
  Proof.
    intros [n m e isrep rexp rsc rrep fty]. destruct isrep.
    - unfold field_map_arith. change (canon_field (rep_map_arith f ?g)) with
        (print_fname n ++ print_mask_opt m ++ crc_rws (rep_map_arith f g)).
      now rewrite crc_rws_map_arith.
    - cbn [field_map_arith canon_field]. now rewrite crc_tr_map_arith.
  Qed.

  Lemma canon_arith_by_value : forall c, canon (comb_map_arith f c) = canon c.
  Proof.
    intro c. unfold canon, comb_map_arith, canon_result.
    cbn [c_name c_targs c_builtin c_fields c_isfunc c_funcdecl c_typedecl].
    rewrite crc_tr_map_arith. do 4 f_equal. rewrite flat_map_map. f_equal. apply flat_map_ext_in.
    intros g _. now rewrite canon_field_map_arith.
  Qed.

  Lemma tag_arith_by_value : forall c, tag (comb_map_arith f c) = tag c.
  Proof.
    intro c. unfold tag, gen_crc. rewrite canon_arith_by_value. reflexivity.
  Qed.
End ArithValue.

(** the documented instance: every arithmetic expression replaced by the single number it evaluates to *)
Definition arith_value (a : arith) : arith := Arith [a_res a] (a_res a).

Lemma canon_arith_value : forall c, canon (comb_map_arith arith_value c) = canon c.
Proof. apply canon_arith_by_value. reflexivity. Qed.

(** ... but not inside repetition brackets, where the template calls Field.String():
      foo n:# a:n*[(tuple int 2+3)] = Foo   vs   foo n:# a:n*[(tuple int 5)] = Foo *)
Definition w_nat : typeref := TypeRef (Name [] [ch_hash]) [] false.
Definition w_nofield_rep : scalefactor := ScaleFactor false (Arith [] 0) [].
Definition w_empty_tr : typeref := TypeRef (Name [] []) [] false.
Definition w_int : typeref := TypeRef (Name [] s_int) [] false.
Definition w_tuple (nums : list N) (res : N) : typeref :=
  TypeRef (Name [] [116; 117; 112; 108; 101])
          [Aot false (Arith [] 0) w_int; Aot true (Arith nums res) w_empty_tr] false.
Definition w_foo (fields : list field) (id : N) (explicit : bool) : comb :=
  Comb false false [] (Name [] [102; 111; 111]) id explicit [] fields
       (TypeDecl (Name [] [70; 111; 111]) []) w_empty_tr.
Definition w_rep_comb (nums : list N) (id : N) : comb :=
  w_foo [Field [110] None false false false w_nofield_rep [] w_nat;
         Field [97] None false true true (ScaleFactor false (Arith [] 0) [110])
               [Field [] None false false false w_nofield_rep [] (w_tuple nums 5)] w_empty_tr] id false.

Lemma canon_arith_in_repeat_refuted :
  exists c c', wf_comb c = true /\ wf_comb c' = true /\
    c' = w_rep_comb [5] (c_id c') /\ c = w_rep_comb [2; 3] (c_id c) /\
    canon c <> canon c' /\ tag c <> tag c'.
Proof.
  exists (w_rep_comb [2; 3] 242489097), (w_rep_comb [5] 3741732752).
  repeat split; try (vm_compute; reflexivity); intro H; vm_compute in H; discriminate.
Qed.

(** * The bare-marker rule: '%' is printed only in front of names that do not start with a lower-case letter *)
Lemma bare_marker_rule : forall ty args bare,
  crc_tr (TypeRef ty args bare) =
  (if bare_marker ty bare then [ch_pct] else []) ++ crc_tr (TypeRef ty args false).
Proof. intros. rewrite !crc_tr_eq. unfold bare_marker at 2. reflexivity. Qed.

Lemma bare_marker_spec : forall ty bare,
  bare_marker ty bare = true <->
  bare = true /\ (n_name ty = [] \/ exists b r, n_name ty = b :: r /\ is_lower b = false).
Proof.
  intros [ns nm] bare. unfold bare_marker. cbn [n_name]. destruct bare; cbn [andb].
  - destruct nm as [|b r].
    + split; auto.
    + split.
      * intro H. split; [reflexivity|right]. exists b, r. split; [reflexivity|]. now destruct (is_lower b).
      * intros [_ [H|(b' & r' & E & L)]]; [discriminate|]. injection E as -> ->. now rewrite L.
  - split; [discriminate|]. intros [H _]. discriminate.
Qed.

Lemma bare_lower_ignored : forall ty args b r, n_name ty = b :: r -> is_lower b = true ->
  crc_tr (TypeRef ty args true) = crc_tr (TypeRef ty args false).
Proof.
  intros ty args b r E L. rewrite bare_marker_rule. unfold bare_marker. rewrite E, L. reflexivity.
Qed.

(** the '!' marker of a field is not part of the canonical form (hence of the tag) *)
Definition set_excl (e : bool) (f : field) : field :=
  match f with Field n m _ isrep rexp rsc rrep fty => Field n m e isrep rexp rsc rrep fty end.

Lemma canon_field_ignores_excl : forall e f, canon_field (set_excl e f) = canon_field f.
Proof. intros e [n m e' isrep rexp rsc rrep fty]. reflexivity. Qed.

(** * Annotations in the listing: stable sort by flag *)
Lemma mod_insert_perm : forall x l, Permutation (mod_insert x l) (x :: l).
Proof.
  induction l as [|y l IH]; [reflexivity|]. cbn [mod_insert].
  destruct (mod_flag x <? mod_flag y); [reflexivity|].
  rewrite IH. apply perm_swap.
Qed.

Lemma mod_sort_perm : forall l, Permutation (mod_sort l) l.
Proof.
  intro l. unfold mod_sort.
  assert (G : forall acc, Permutation (fold_left (fun acc x => mod_insert x acc) l acc) (acc ++ l)).
  { induction l as [|x l IH]; intro acc; [now rewrite app_nil_r|].
    cbn [fold_left]. rewrite IH. rewrite mod_insert_perm. cbn [app]. apply Permutation_middle. }
  apply (G []).
Qed.

Definition flag_sorted (l : list str) : Prop :=
  forall i j, (i < j < length l)%nat -> mod_flag (nth i l []) <= mod_flag (nth j l []).

Lemma mod_sort_idents : forall l, forallb is_ident l = true -> forallb is_ident (mod_sort l) = true.
Proof.
  intros l H. rewrite forallb_forall in *. intros x Hx. apply H.
  eapply Permutation_in; [apply mod_sort_perm|exact Hx].
Qed.

Lemma ident_not_atkphp : forall m, is_ident m = true -> str_eqb m s_atkphp = false.
Proof.
  intros [|b r] H; [reflexivity|]. cbn. destruct (b =? 64) eqn:E; [|reflexivity].
  apply N.eqb_eq in E. subst. discriminate.
Qed.

Lemma line_mods_idents : forall l, forallb is_ident l = true -> line_mods l = mod_sort l.
Proof.
  intros l H. unfold line_mods.
  assert (E : existsb (fun m => str_eqb m s_atkphp) (mod_sort l) = false).
  { pose proof (mod_sort_idents l H) as Hs. induction (mod_sort l) as [|m s IH]; [reflexivity|].
    cbn [existsb forallb] in *. apply andb_true_iff in Hs. destruct Hs as [Hm Hs].
    now rewrite (ident_not_atkphp m Hm), IH. }
  now rewrite E.
Qed.

(** * The listing line *)
Definition line_head (c : comb) : str :=
  flat_map (fun m => [ch_at] ++ m ++ [ch_space]) (line_mods (c_mods c)) ++
  print_name (c_name c) ++ [ch_hash] ++ hex8 (c_id c) ++ [ch_space] ++
  flat_map (fun x => [ch_lcur] ++ ta_name x ++ (if ta_isnat x then s_nat else s_type) ++ s_rcur_sp) (c_targs c).

Lemma canon_line_split : forall c, canon_line c = line_head c ++ canon_tail c.
Proof. intro c. unfold canon_line, line_head, canon_tail. now rewrite <- !app_assoc. Qed.

(** the canonical form is the listing line without annotations, tag and braces: same tail *)
Lemma canon_shares_tail : forall c,
  canon c = print_name (c_name c) ++ [ch_space] ++
            flat_map (fun x => ta_name x ++ (if ta_isnat x then s_nat_sp else s_type_sp)) (c_targs c) ++
            canon_tail c.
Proof. exact canon_split. Qed.

Definition is_line_char (b : N) : bool := is_canon_char b || (b =? 123) || (b =? 125) || (b =? 64).

Lemma hex8_idchars : forall n, forallb is_idchar (hex8 n) = true.
Proof.
  intro n. eapply forallb_impl; [|apply (hexk_spec 8 n)]. intros b Hb. unfold is_hex in Hb. unfold is_idchar.
  destruct (is_digit b); [now rewrite orb_true_r|]. cbn in Hb. unfold is_letter. rewrite orb_false_r.
  assert (L : (97 <=? b) && (b <=? 122) = true) by lia. now rewrite L.
Qed.

Lemma canon_line_chars : forall c, wf_comb c = true -> forallb is_line_char (canon_line c) = true.
Proof.
  intros c W.
  assert (Pid : forall b, is_idchar b = true -> is_line_char b = true)
    by (intros b H; unfold is_line_char, is_canon_char; now rewrite H).
  assert (Pp : forall b, is_punct b = true -> is_line_char b = true)
    by (intros b H; unfold is_line_char, is_canon_char; rewrite H; now rewrite orb_true_r).
  pose proof (ok_canon_tail is_line_char Pid Pp c W) as Ht.
  rewrite canon_line_split, forallb_app, Ht, andb_true_r.
  unfold wf_comb in W. repeat (apply andb_true_iff in W; destruct W as [W ?]).
  unfold line_head. rewrite !forallb_app.
  rewrite (ok_name is_line_char Pid Pp _ H4).
  rewrite (forallb_impl _ _ _ Pid (hex8_idchars (c_id c))).
  cbn [forallb]. rewrite !Pp by reflexivity. cbn [andb].
  apply andb_true_intro; split.
  - rewrite forallb_flat_map. rewrite line_mods_idents by assumption.
    pose proof (mod_sort_idents _ W) as Hs. rewrite forallb_forall in Hs. rewrite forallb_forall. intros m Hm.
    rewrite !forallb_app. rewrite (ok_ident is_line_char Pid m (Hs m Hm)). reflexivity.
  - rewrite forallb_flat_map. rewrite forallb_forall in H2. rewrite forallb_forall. intros x Hx. rewrite !forallb_app.
    rewrite (ok_ident is_line_char Pid _ (H2 x Hx)). destruct (ta_isnat x); reflexivity.
Qed.

Lemma canon_line_one_line : forall c, wf_comb c = true -> ~ In ch_nl (canon_line c).
Proof.
  intros c W Hin. pose proof (canon_line_chars c W) as H. rewrite forallb_forall in H.
  specialize (H _ Hin). discriminate.
Qed.

(** * The listing has one line per listed combinator, after the five fixed lines *)
Definition nl_count (s : str) : nat := length (filter (N.eqb ch_nl) s).

Lemma nl_count_app : forall a b, nl_count (a ++ b) = (nl_count a + nl_count b)%nat.
Proof. intros. unfold nl_count. now rewrite filter_app, app_length. Qed.

Lemma nl_count_zero : forall s, ~ In ch_nl s -> nl_count s = 0%nat.
Proof.
  induction s as [|b r IH]; intro H; [reflexivity|]. unfold nl_count in *. cbn [filter].
  destruct (ch_nl =? b) eqn:E.
  - apply N.eqb_eq in E. subst. exfalso. apply H. now left.
  - apply IH. intro Hin. apply H. now right.
Qed.

Lemma listing_line_count : forall l,
  (forall f c, In (f, c) l -> wf_comb c = true /\ ~ In ch_nl f) ->
  nl_count (listing l) = (5 + length (filter listed l))%nat.
Proof.
  intros l H. unfold listing. rewrite nl_count_app. f_equal.
  induction l as [|[f c] l IH]; [reflexivity|]. cbn [filter].
  assert (Hl : forall f c, In (f, c) l -> wf_comb c = true /\ ~ In ch_nl f)
    by (intros f' c' Hin; apply H; now right).
  destruct (listed (f, c)); [|now apply IH].
  cbn [flat_map length]. rewrite nl_count_app, (IH Hl). f_equal.
  destruct (H f c (or_introl eq_refl)) as [W Hf].
  unfold listing_line. cbn [fst snd]. rewrite !nl_count_app.
  rewrite (nl_count_zero _ (canon_line_one_line c W)), (nl_count_zero _ Hf). reflexivity.
Qed.

(** every listed line ends the combinator's own text with the comment naming its file *)
Lemma listing_lines : forall l,
  listing l = builtin_lines ++
    flat_map (fun fc => canon_line (snd fc) ++ s_comment ++ fst fc ++ [ch_nl]) (filter listed l).
Proof. reflexivity. Qed.
